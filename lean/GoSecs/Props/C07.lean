/-
  C07 — Data messages flow only while Selected; pipelined data after select is accepted.

  Property theorems only. Outbound: the send-gate model `Responder.send` / `writeFrame` / `drain`
  (Model/Responder.lean) transcribes hsms/connection_send.go (B1 gate at entry, B2 re-check under the write
  lock, the single drop chokepoint). Inbound: `Responder.dispatch` / `run`, the sequential receive step proved
  equal to the E37 table in C08. Helper lemmas: Lemmas/Responder.lean.
-/
import GoSecs.Lemmas.Responder
import GoSecs.Gen.Facts

set_option linter.unusedSimpArgs false

namespace GoSecs.Props.C07
open GoSecs GoSecs.Responder GoSecs.E37

/-! ## Tie to the source (regenerated on every run) -/

/-- Every call of the transport's byte sink `tr.Write` in package hsms sits in `writeFrame` (which runs the B2
    re-check for data) or in the farewell Separate (a control message) — there is no other way onto the wire. -/
theorem write_sites_gen :
    (Gen.callSites.filter (fun s => s.2.2.2 == "tr.Write")).map (fun s => (s.1, s.2.2.1)) =
      [("hsms", "connection.writeFarewellSeparate"), ("hsms", "connection.writeFrame")] := by
  decide

/-- The on-wire data counter is bumped only inside `writeFrame` (after its B2 re-check). -/
theorem send_counter_sites_gen :
    (Gen.callSites.filter (fun s => s.2.2.2 == "metrics.incDataMsgSend")).map (fun s => s.2.2.1) =
      ["connection.writeFrame"] := by
  decide

/-! ## Outbound: the send gates -/

/-- **Not selected ⇒ refused.** From every data-sending entry point (sync, async, reply, forward, forward-async),
    once the connection has been opened, a data message sent while the state read at entry is not Selected puts
    nothing on the wire, queues nothing, fails with the not-selected error and counts exactly one drop —
    whatever the state is later at the write boundary and whether or not the generation is still live
    (closed, connecting, connected-not-selected, deselected, between generations). -/
theorem not_selected_send_refused (g : GState) (e : Entry) (st1 stW : St) (id : Nat)
    (ho : g.opened = true) (hs : st1 ≠ .selected) :
    send g e true st1 stW id = ({ g with drops := g.drops + 1 }, .notSelected) := by
  simp [send, ho, hs]

/-- Before the first Open every entry point fails with the not-open error and changes nothing (no drop). -/
theorem not_open_send_refused (g : GState) (e : Entry) (isData : Bool) (st1 stW : St) (id : Nat)
    (ho : g.opened = false) : send g e isData st1 stW id = (g, .notOpen) := by
  simp [send, ho]

/-- **Write-boundary re-check.** A data message that passed the entry gate but finds the link no longer Selected
    under the write lock is dropped there: nothing on the wire, not-selected error, exactly one drop — on the
    synchronous paths and when the async sender drains the queue. -/
theorem write_boundary_recheck (g : GState) (stW : St) (id : Nat) (hl : g.live = true) (hs : stW ≠ .selected) :
    writeFrame g true stW id = ({ g with drops := g.drops + 1 }, .notSelected) := by
  simp [writeFrame, hl, hs]

/-- No data byte reaches the wire unless the state read at the write boundary is Selected — for every entry
    point and for the async drain. -/
theorem data_on_wire_only_if_selected (g : GState) (e : Entry) (st1 stW : St) (id : Nat) :
    ((send g e true st1 stW id).1.wire ≠ g.wire → st1 = .selected ∧ stW = .selected) := by
  unfold send writeFrame
  cases g.opened <;> cases g.live <;> cases e <;> cases st1 <;> cases stW <;> simp [Entry.isAsync]

/-- **All histories.** Over ANY sequence of application calls (any entry point, data or control) and
    sender-goroutine writes, with the logical state changing arbitrarily between and during them, every data
    message that was ever written to the transport was written while the state read under the write lock was
    Selected. -/
theorem data_only_while_selected_all_histories (g : GState) (ops : List GOp) (h : WireOK g) :
    WireOK (runOps g ops).1 := by
  induction ops generalizing g with
  | nil => exact h
  | cons op ops ih =>
    simp only [runOps]
    exact ih (applyOp g op).1 (applyOp_wireOK g op h)

/-- **The drop counter counts refusals, once each**, over any history: it ends at its initial value plus the
    number of operations that failed with the not-selected error. -/
theorem drops_count_refusals (g : GState) (ops : List GOp) :
    (runOps g ops).1.drops = g.drops + ((runOps g ops).2.filter (· == .notSelected)).length := by
  induction ops generalizing g with
  | nil => simp [runOps]
  | cons op ops ih =>
    simp only [runOps]
    rw [ih (applyOp g op).1]
    have h1 : (applyOp g op).1.drops = g.drops + (if (applyOp g op).2 == .notSelected then 1 else 0) := by
      obtain ⟨opnd, lv, dr, wi, qu⟩ := g
      cases op with
      | call e d s1 sw id =>
        simp only [applyOp, send, writeFrame]
        cases opnd <;> cases lv <;> cases e <;> cases d <;> cases s1 <;> cases sw <;> simp [Entry.isAsync]
      | drain sw =>
        simp only [applyOp, drain, writeFrame]
        cases qu with
        | nil => simp
        | cons q rest =>
          obtain ⟨id, d⟩ := q
          cases lv <;> cases d <;> cases sw <;> simp
    rw [h1]
    by_cases hr : (applyOp g op).2 == .notSelected <;> simp [hr] <;> omega

/-- **Exactly one drop.** One call (or one drained message) changes the drop counter by at most one, and by one
    exactly when it fails with the not-selected error; in that case the wire is untouched. -/
theorem exactly_one_drop (g : GState) (e : Entry) (isData : Bool) (st1 stW : St) (id : Nat) :
    let r := send g e isData st1 stW id
    (r.2 = .notSelected → r.1.drops = g.drops + 1 ∧ r.1.wire = g.wire ∧ r.1.queued = g.queued) ∧
    (r.2 ≠ .notSelected → r.1.drops = g.drops) := by
  unfold send writeFrame
  cases g.opened <;> cases g.live <;> cases e <;> cases isData <;> cases st1 <;> cases stW <;> simp [Entry.isAsync]

/-- **Control traffic is unaffected**: a control message through the same paths never consults the state — same
    result, same bytes on the wire, same queue, no drop, whatever the state at entry and at the write boundary. -/
theorem control_ungated (g : GState) (e : Entry) (st1 stW st1' stW' : St) (id : Nat) :
    (send g e false st1 stW id).2 = (send g e false st1' stW' id).2 ∧
    (send g e false st1 stW id).1.wire.map (·.1) = (send g e false st1' stW' id).1.wire.map (·.1) ∧
    (send g e false st1 stW id).1.queued = (send g e false st1' stW' id).1.queued ∧
    (send g e false st1 stW id).2 ≠ .notSelected ∧ (send g e false st1 stW id).1.drops = g.drops := by
  unfold send writeFrame
  cases g.opened <;> cases g.live <;> cases e <;> simp [Entry.isAsync]

/-! ## Inbound -/

/-- **Inbound data while not Selected**: answered with Reject.req reason 4 echoing session id and system bytes
    (byte 2 = SType 0), not delivered, link kept, state unchanged. -/
theorem inbound_data_not_selected (c : Cfg) (s : RState) (f : Frame) (hd : classOf f = .data) (hs : s.st = .notSelected) :
    dispatch c s f = (s, [.ctrl f.session 0 4 7 f.sys], .none) := by
  have hu : s.st ≠ .notConnected := by rw [hs]; simp
  have h0 := (classOf_data f hd).1
  rw [dispatch_eq_prescribed c s f hu]
  unfold prescribed
  simp [hd, selected, hs, reject, h0]

/-- **Pipelined data behind Select.req (passive / responder path).** From any state of an established link with
    no local transaction pending, for every frame list `pre ++ SelectReq :: Data* ++ post` handled by the
    sequential receive step: the Select.req is answered (0 or 1), the session is Selected before the first data
    frame is looked at, and EVERY data frame is accepted — delivered to the handlers (or answered by S9F1 under
    session-id validation) — none is rejected. -/
theorem pipelined_after_select_delivered (c : Cfg) (s : RState) (pre ds post : List Frame) (f : Frame)
    (hn : NoTx (run c s pre).1) (hu : (run c s pre).1.st ≠ .notConnected)
    (hf : classOf f = .selectReq) (hd : ∀ d ∈ ds, classOf d = .data) :
    ∃ status s1 rest,
      (run c s (pre ++ f :: ds ++ post)).2 =
        (run c s pre).2 ++ ([Out.ctrl f.session 0 status 2 f.sys], Effect.none) :: ds.map (accepted c) ++ rest ∧
      s1.st = .selected ∧ rest = (run c s1 post).2 := by
  let s0 := (run c s pre).1
  have hstep : dispatch c s0 f =
      ((prescribed c s0 f).1, [Out.ctrl f.session 0 (if s0.st = .selected then 1 else 0) 2 f.sys], .none) := by
    rw [dispatch_eq_prescribed c s0 f hu]
    unfold prescribed
    simp only [hf]
    cases hst : s0.st <;> simp_all [selected, selectRsp, s0]
  have hm := prescribed_mark c s0 f hn hu
  have hmk : markOf f = .establishes := by simp [markOf, hf]
  rw [hmk] at hm
  refine ⟨if s0.st = .selected then 1 else 0, (prescribed c s0 f).1, (run c (prescribed c s0 f).1 post).2, ?_, hm.2.1, rfl⟩
  have e1 : pre ++ f :: ds ++ post = pre ++ ([f] ++ (ds ++ post)) := by simp
  rw [e1, run_append c pre, run_append c [f]]
  have hrun1 : run c s0 [f] = ((prescribed c s0 f).1, [([Out.ctrl f.session 0 (if s0.st = .selected then 1 else 0) 2 f.sys], Effect.none)]) := by
    simp [run, hstep]
  show (run c s pre).2 ++ ((run c s0 [f]).2 ++ (run c (run c s0 [f]).1 (ds ++ post)).2) = _
  rw [hrun1, run_append c ds post, data_run_selected c ds _ hm.1 hm.2.1 hd]
  simp

/-- **Pipelined data behind Select.rsp (active / initiator path).** While our own Select.req is the only open
    transaction, a header-only Select.rsp with status 0 carrying its system bytes commits Selected on the receive
    step itself, so every data frame pipelined directly behind it is accepted, none rejected. -/
theorem pipelined_after_select_rsp_delivered (c : Cfg) (s : RState) (ds : List Frame) (f : Frame) (x : Nat)
    (ho : s.openSel = some x) (hoo : s.openOther = []) (hod : s.openData = []) (hu : s.st ≠ .notConnected)
    (hf : classOf f = .selectRsp) (hx : f.sys = x) (h0 : f.b3 = 0) (hd : ∀ d ∈ ds, classOf d = .data) :
    ∃ s1, run c s (f :: ds) = (s1, ([], Effect.none) :: ds.map (accepted c)) ∧ s1.st = .selected ∧ NoTx s1 ∧
      s1.t7 = (if s.st = .notSelected then false else s.t7) := by
  have htx : txOf s f.sys = .ownSelect := by simp [txOf, ho, hx]
  have hstep : ∃ s1, dispatch c s f = (s1, [], .none) ∧ s1.st = .selected ∧ NoTx s1 ∧
      s1.t7 = (if s.st = .notSelected then false else s.t7) := by
    rw [dispatch_eq_prescribed c s f hu]
    unfold prescribed
    simp only [hf, htx, h0, reduceIte]
    have hc : closeTx s f.sys = { s with openSel := none } := by simp [closeTx, htx]
    rw [hc]
    obtain ⟨st, os, oo, od, t7⟩ := s
    simp only at hoo hod hu
    subst hoo hod
    cases st <;> simp_all [enterSelected, NoTx]
  obtain ⟨s1, hs1, hsel, hntx, ht7⟩ := hstep
  refine ⟨s1, ?_, hsel, hntx, ht7⟩
  have e1 : f :: ds = [f] ++ ds := rfl
  rw [e1, run_append c [f] ds]
  have hrun1 : run c s [f] = (s1, [([], Effect.none)]) := by simp [run, hs1]
  rw [hrun1, data_run_selected c ds s1 hntx hsel hd]
  simp

/-- What "accepted" means: the data message reaches the handlers (or, under session-id validation with a foreign
    session id, is answered with S9F1) — never a Reject. -/
theorem accepted_is_not_reject (c : Cfg) (d : Frame) : ∀ o ∈ (accepted c d).1, o.isReject = false := by
  unfold accepted
  cases wantsS9F1 c d <;> simp [Out.isReject]

/-! ## Non-vacuity -/

def cfg0 : Cfg := ⟨false, 0xFFFF, true⟩
def up : RState := ⟨.notSelected, none, [], [], true⟩
def selReq : Frame := ⟨0xFFFF, 0, 0, 0, 1, 77, 0⟩
def d1 : Frame := ⟨0xFFFF, 0x81, 1, 0, 0, 5, 3⟩
def d2 : Frame := ⟨0xFFFF, 6, 11, 0, 0, 6, 0⟩

example : classOf selReq = .selectReq ∧ classOf d1 = .data ∧ classOf d2 = .data := by decide
example : NoTx (run cfg0 up [d1]).1 ∧ (run cfg0 up [d1]).1.st ≠ .notConnected := by
  refine ⟨⟨by decide, by decide, by decide⟩, by decide⟩
example : outs cfg0 up [d1, selReq, d1, d2] =
    [.ctrl 0xFFFF 0 4 7 5, .ctrl 0xFFFF 0 0 2 77, .deliver d1, .deliver d2] := by decide
example : send ⟨true, true, 0, [], []⟩ .sync true .notSelected .selected 9 = (⟨true, true, 1, [], []⟩, .notSelected) := by
  decide
example : send ⟨true, true, 0, [], []⟩ .forward true .selected .selected 9 =
    (⟨true, true, 0, [(9, true, .selected)], []⟩, .ok) := by decide
example : WireOK ⟨true, true, 0, [], []⟩ := by simp [WireOK]
example : (runOps ⟨true, true, 0, [], []⟩
    [.call .async true .selected .selected 1, .call .sync true .notSelected .selected 2, .drain .notSelected]).2 =
    [.ok, .notSelected, .notSelected] := by decide

end GoSecs.Props.C07
