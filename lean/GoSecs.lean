import GoSecs.Model.Bytes
import GoSecs.Model.Secs2
