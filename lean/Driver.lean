/-
  Line-protocol driver: one operation per input line, one result line per operation.
  Core Lean only (no Mathlib import anywhere below this file) so it links as a native executable.
-/
import GoSecs.Drv.Secs2
import GoSecs.Drv.Supervisor
import GoSecs.Drv.Hsms
import GoSecs.Drv.Construct
import GoSecs.Drv.Secs1
import GoSecs.Drv.Linktest
import GoSecs.Drv.Responder
import GoSecs.Drv.Ownership
import GoSecs.Drv.Lifecycle
import GoSecs.Drv.Sml
import GoSecs.Drv.Router
import GoSecs.Drv.Secs1Transport

open GoSecs

/-- One handler per model; each returns `none` for commands it does not own. -/
def handlers : List (String → List String → Option String) := [
  Drv.Secs2.handle,
  Drv.Supervisor.handle,
  Drv.Hsms.handle,
  Drv.Construct.handle,
  Drv.Secs1.handle,
  Drv.Linktest.handle,
  Drv.Responder.handle,
  Drv.Ownership.handle,
  Drv.Lifecycle.handle,
  Drv.Sml.handle,
  Drv.Router.handle,
  Drv.Secs1Transport.handle
]

def dispatch (line : String) : String :=
  match (line.trimAscii.toString.splitOn " ").filter (· != "") with
  | [] => "bad-op"
  | cmd :: args =>
    match handlers.findSome? (fun h => h cmd args) with
    | some r => r
    | none => "bad-op unknown-command"

partial def loop (hin hout : IO.FS.Stream) : IO Unit := do
  let line ← hin.getLine
  if line.isEmpty then return ()
  hout.putStrLn (dispatch line)
  hout.flush
  loop hin hout

def main : IO Unit := do
  loop (← IO.getStdin) (← IO.getStdout)
