#!/bin/sh
# usage: tools/merge_cluster.sh <name>  — copy a cluster's NEW files from /work/<name>/verif into /verif
# (never overwrites a file that already exists in /verif unless listed in $OVERWRITE) and its hook files into /repo.
set -e
N="$1"; W=/work/$N
cd "$W/verif"
find . -type f \( -path "./lean/GoSecs/*" -o -path "./harness/*.go" -o -path "./props.d/*" -o -path "./harness/corpus/*" -o -path "./harness/testdata/*" \) \
  -not -path "./lean/GoSecs/Gen/*" -not -path "./lean/GoSecs/Audit/*" | sed 's#^\./##' | while read f; do
  if [ ! -e "/verif/$f" ]; then mkdir -p "/verif/$(dirname "$f")"; cp "$f" "/verif/$f"; echo "new  $f";
  elif ! cmp -s "$f" "/verif/$f"; then
    case " $OVERWRITE " in *" $f "*) cp "$f" "/verif/$f"; echo "over $f";; *) echo "SKIP (differs) $f";; esac
  fi
done
cd "$W/repo"
git status --short | awk '{print $2}' | while read f; do
  case "$f" in *verif_hooks*) mkdir -p "/repo/$(dirname "$f")"; cp "$f" "/repo/$f"; echo "hook $f";; *) echo "REPO CHANGE NOT COPIED: $f";; esac
done
