#!/usr/bin/env python3
"""Rewrites the table between <!-- seeded-table --> markers in DESIGN.md from seeded/*/meta.json."""
import json, glob, os, re
ROOT = os.path.dirname(os.path.dirname(os.path.abspath(__file__)))
rows = []
for f in sorted(glob.glob(os.path.join(ROOT, "seeded", "*", "meta.json"))):
    m = json.load(open(f))
    summ = (m.get("summary") or "").strip()
    title = summ.split(" ## ")[0].lstrip("# ").strip()
    title = re.sub(r"^(C\d\d\w?\s*[/ ]*\s*)?(seeded )?change\s*\d*\s*[—-]+\s*", "", title, flags=re.I)
    title = re.sub(r"^C\d\d\w*\s*(seeded )?change\s*\d*\s*[—-]+\s*", "", title, flags=re.I)
    title = title.replace("|", "/")[:150]
    st = m.get("status", "")
    how = (m.get("what_was_done") or "").replace("|", "/")
    if m.get("caught_after_strengthening") and not how:
        how = "check strengthened (see git log / §9.7 text)"
    rows.append("| %s | %s | %s | %s |" % (m["id"], title, st, how[:220]))
table = "| id | change | verdict of the checks (latest run) | strengthening done |\n|---|---|---|---|\n" + "\n".join(rows) + "\n"
p = os.path.join(ROOT, "DESIGN.md")
s = open(p).read()
a, b = "<!-- seeded-table -->\n", "<!-- /seeded-table -->\n"
if a in s:
    i, j = s.index(a) + len(a), s.index(b)
    s = s[:i] + table + s[j:]
else:
    s = s.rstrip("\n") + "\n\n" + a + table + b
open(p, "w").write(s)
print(len(rows), "rows")
