#!/usr/bin/env python3
"""Regenerate MANIFEST.json from props_config.py (single source of truth for what is claimed)."""
import json, os, sys
ROOT = os.path.dirname(os.path.dirname(os.path.abspath(__file__)))
sys.path.insert(0, ROOT)
from props_config import PROPS, NOT_APPLICABLE, HOOK_COMMITS  # noqa

checks = []
for pid in sorted(PROPS):
    c = PROPS[pid]
    checks.append({
        "property_id": pid,
        "quick_cmd": f"./check {pid} quick",
        "thorough_cmd": f"./check {pid} thorough",
        "evidence_file": f"/verif/evidence/{pid}.json",
        "replay_cmd_template": f"./check {pid} quick --replay {{path}}",
        "engine": "lean4-proof+correspondence",
        "level_claimed": {"category": "proof", "text": c["level_text"], "design_ref": c.get("design_ref", "DESIGN.md §5 " + pid)},
        "level_note": c["level_note"],
        "technique": c["technique"],
    })
m = {
    "version": 1,
    "setup_cmd": "./setup.sh",
    "hooks": {
        "guard": "verif",
        "enable": "go build -tags verif (the harness module replaces github.com/arloliu/go-secs/v2 with /repo)",
        "baseline_off_cmd": "cd /repo && GOFLAGS=-mod=mod go test -json -vet=off -count=1 -timeout 25m ./...",
        "source_commits": HOOK_COMMITS,
        "add_only": True,
    },
    "engines": [{
        "name": "lean4-proof+correspondence",
        "path": "/verif/check",
        "serves_properties": sorted(PROPS),
        "kind_free_text": "Lean 4 theorems about executable models (lean/GoSecs), tied to /repo by a go/ast translator (tools/go2lean, regenerated every run) and by a differential correspondence harness (harness/, real code in-process vs the compiled Lean model driver)",
    }],
    "checks": checks,
    "not_applicable": [{"property_id": k, "reason": v} for k, v in sorted(NOT_APPLICABLE.items())],
    "notes": "Every check regenerates lean/GoSecs/Gen from /repo's working tree, rebuilds and audits the theorems, rebuilds the harness with -tags verif and runs the correspondence. See DESIGN.md.",
}
json.dump(m, open(os.path.join(ROOT, "MANIFEST.json"), "w"), indent=1)
print("MANIFEST.json:", len(checks), "checks,", len(m["not_applicable"]), "not applicable")
