#!/usr/bin/env python3
"""usage: tools/seedmeta.py <batch-log>... — (re)writes seeded/<id>/meta.json from tools/seedcheck.sh output.

For every "SUMMARY id=..." line of the given batch logs the confirmation flags are read from the line and the
violation signatures from seeded/<id>/check_<Cxx>.log; an existing meta.json keeps its hand-written fields
(status, what_was_done, caught_after_strengthening) unless the new run changes the outcome."""
import json, os, re, sys

ROOT = os.path.dirname(os.path.dirname(os.path.abspath(__file__)))

def signatures(log):
    sigs, nf, viol = [], False, False
    for line in log.splitlines():
        if "VIOLATION property=" in line:
            viol = True
            if line.rstrip().endswith("no-failing-input-found"):
                nf = True
        m = re.match(r"\[check\]\s+(property|correspondence|proof|tie)\S*\s*[: ]\s*(\S+)", line)
        if m:
            sigs.append(m.group(1) + ":" + m.group(2))
        else:
            m = re.match(r"\[check\]   (\S.*)", line)
            if m:
                sigs.append(m.group(1)[:160])
    return viol, nf, sigs[:12]

def main():
    for path in sys.argv[1:]:
        for line in open(path, errors="replace"):
            m = re.match(r"SUMMARY id=(\S+) demo_base=(\d+) demo_with=(\d+) tests=(\d+) caught_by=\[(.*)\]", line)
            if not m:
                continue
            sid, base, with_, tests, caught = m.group(1), int(m.group(2)), int(m.group(3)), int(m.group(4)), m.group(5).split()
            d = os.path.join(ROOT, "seeded", sid)
            mp = os.path.join(d, "meta.json")
            meta = json.load(open(mp)) if os.path.exists(mp) else {}
            readme = ""
            if os.path.exists(os.path.join(d, "README.md")):
                readme = " ".join(open(os.path.join(d, "README.md")).read().split())[:900]
            demo = "demo_test.go" if os.path.exists(os.path.join(d, "demo_test.go")) else "demo/"
            checks = {}
            for f in sorted(os.listdir(d)):
                mm = re.match(r"check_(C\d\d)\.log", f)
                if mm:
                    v, nf, sg = signatures(open(os.path.join(d, f), errors="replace").read())
                    checks[mm.group(1)] = {"violation": v, "no_failing_input_found": nf, "signatures": sg}
            ok = base == 0 and with_ != 0 and tests == 0
            is_caught = any(c["violation"] for c in checks.values())
            concrete = any(c["violation"] and not c["no_failing_input_found"] for c in checks.values())
            was_missed = meta.get("status", "").startswith("NOT CAUGHT") or meta.get("caught_after_strengthening")
            meta.update({
                "id": sid,
                "property": sid[:3],
                "origin": "independent sub-agent given only the property text and a scratch worktree of the repository",
                "patch": "patch.diff",
                "demonstration": demo,
                "summary": readme,
                "confirmed": {
                    "demo_passes_without_change": base == 0,
                    "demo_fails_with_change": with_ != 0,
                    "existing_suite_passes_with_change": tests == 0,
                    "how": "tools/seedcheck.sh (scratch worktree; demo without/with the patch; go build; whole suite, load-sensitive packages re-run alone; quick checks from a private framework copy against the patched worktree)",
                },
                "checks_run_latest": checks,
            })
            if not ok:
                meta["status"] = "NOT CONFIRMED (not kept as a seeded change)"
            elif is_caught:
                by = ",".join(k for k, c in checks.items() if c["violation"])
                meta["status"] = ("caught by %s" % by) + ("" if concrete else " (proof/tie break only: no-failing-input-found)")
                meta["caught_after_strengthening"] = bool(was_missed)
            else:
                meta["status"] = "NOT CAUGHT yet"
                meta.setdefault("caught_after_strengthening", False)
            json.dump(meta, open(mp, "w"), indent=1)
            print(sid, "->", meta["status"])

main()
