#!/bin/sh
# usage: tools/mkworkspace.sh <name>   -> /work/<name>/{verif,repo}: private copy of the framework + repo worktree
set -e
N="$1"; W=/work/$N
mkdir -p "$W"
git -C /repo worktree add -q --detach "$W/repo" HEAD
rsync -a --exclude .git /verif/ "$W/verif/"
sed -i "s#=> /repo#=> $W/repo#" "$W/verif/harness/go.mod"
echo "$W"
