#!/bin/sh
# usage: tools/mkseed.sh <name> — scratch worktree of /repo HEAD for an independent seeded-change agent
set -e
D=/tmp/seed/$1
git -C /repo worktree add -q --detach "$D" HEAD
mkdir -p "$D.out"
echo "$D"
