#!/bin/sh
# usage: tools/mutate.sh <patch.diff> <Cxx> [<Cxx>...]  — apply a seeded change to /repo, run the quick checks, undo it.
P="$1"; shift
git -C /repo apply "$P" || { echo "patch does not apply"; exit 2; }
trap 'git -C /repo checkout -- . ; git -C /repo clean -fdq' EXIT
(cd /repo && GOFLAGS=-mod=mod GOPROXY=off go build ./... ) || { echo "MUTANT DOES NOT COMPILE"; exit 3; }
for c in "$@"; do
  /verif/check "$c" quick 2>&1 | grep -E "VIOLATION|KNOWN-FINDING|\[check\] C[0-9]+:|^\[check\]   " | cut -c1-300
done
