// translate.go: the function translator of go2lean (the T1 tie for code, not just constants).
//
// # Accepted subset (this comment is part of the trusted-base description; keep it in step with the code)
//
// A function or method of a package of the repository is translated to a Lean definition over the
// vocabulary of lean/GoSecs/GoPrelude.lean. Anything not listed here is REJECTED: the function is
// reported in status.json as "untranslatable: <function>: <construct>", nothing is emitted for it, and
// every theorem that mentions it stops building (./check reports a broken tie).
//
// Types
//   - integer types -> Int. int and int64 are unbounded (64-bit signed overflow is outside the model);
//     every other width is wrapped (Go.wrapU w / Go.wrapS w) after + - * << unary- and after every
//     conversion that can leave the target range (conversions uint64/uint -> int are wrapped to 64 bits).
//     & | ^ >> / % on unsigned operands stay in range and are not wrapped; & | ^ are only accepted on
//     unsigned operand types, or on int/int64 operands that are non-negative by their syntax alone
//     (constants >= 0, conversions from narrower unsigned types, len, and shifts / & | ^ of these).
//     / and % are Go's truncated division (Int.tdiv / Int.tmod); a non-constant divisor is a partial
//     operation (division by zero panics). A shift count must be a non-negative constant or unsigned.
//   - bool -> Bool.
//   - []byte, [N]byte, string (and named types over them, and slices/arrays over named uint8 types)
//     -> Go.Bytes = List UInt8. Strings are byte strings: s[i], len(s), s[i:j], == only (no range over a
//     string, no concatenation). An array value is assumed to hold exactly N bytes.
//   - a named struct type of the repository -> a generated `structure pkg_Type` with one field per Go
//     field of translatable type (embedded structs are nested structures); fields of reference type
//     (pointer, interface, map, chan, func, slice of non-bytes, unsafe.Pointer) become a Bool "is non-nil"
//     and may only be compared with nil; sync/atomic fields, time.Time and []T fields of listed element types
//     are described under "Effect mode" below; fields of any other type (floats, foreign structs such as
//     sync.Once) are dropped and any use of them is rejected. A pointer to such a struct (receiver,
//     parameter, local, result) is the struct value: nil pointers are NOT modelled (receivers and
//     pointer parameters are assumed non-nil), comparing such a pointer with nil is rejected; a literal
//     nil RETURNED for such a result (the `return nil, err` idiom) is the zero struct.
//   - a slice of such structs ([]T, as a parameter or local; not as a struct field) -> List pkg_T, READ-ONLY:
//     len, x[i] (checked), range.
//   - error -> Go.Err = Option String: nil = none; a package-level error variable ErrX = some "ErrX";
//     fmt.Errorf with a %w verb = the wrapped sentinel; fmt.Errorf without %w / errors.New = some of the
//     format / message literal (the operands of fmt.Errorf are evaluated for their panics and otherwise
//     ignored). Errors can only be returned, passed on and compared with nil.
//   - any other reference type as a RESULT (e.g. an interface) is a Bool "is non-nil"; only a literal nil can
//     be returned for it.
//   - an interface listed in devirt (below) is represented by ONE named implementation; method calls on it
//     are resolved statically to that implementation (an explicit, documented assumption).
//
// Expressions: constants (folded by go/types), locals, parameters, field selection, arithmetic,
// comparisons, && || ! (short-circuit preserved when the right operand can panic), shifts by a
// non-negative amount, conversions between integer types, between byte-string types, slice -> array
// ([N]byte(s), panics when short), x[i], x[i:j] (two-index form), len, min, max, append (only as
// `x = append(x, …)`, `x := append(<fresh>, …)` or `return append(x, …)`), make([]byte, n[, c]),
// composite literals of structs and byte arrays/slices, &T{…}, *p, &v only as a returned value (identity on
// structs),
// binary.BigEndian.Uint16/32/64, AppendUint16/32/64, errors.New, fmt.Errorf, calls of other
// translatable functions/methods of the repository (translated on demand; recursion is rejected).
//
// Statements: := = op= ++ -- (targets: a local, or a path of fields and array/fresh-slice elements rooted
// at a local that is not a pointer), var, if/else (with init), switch with or without tag (no
// fallthrough), return, panic(...) (= none), blocks, copy(dst, src) and binary.BigEndian.PutUintN(dst, v)
// where dst is a local array/fresh slice or a constant-bounded window of one,
// `for i, v := range <bytes>` / `for i := range <bytes>` / `for range n` / `for i := range n`, and
// `for i := lo; i < hi; i++|i += c` (also <=) with constant c > 0 where neither i nor any variable of hi
// is assigned in the body (so the trip count is known on entry); break / continue / return inside loops.
// Functions returning iter.Seq[T] via `return func(yield func(T) bool) { … }, nil` are translated to the
// list of values yielded to a consumer that never stops (see "iterator functions" in translate_stmt.go).
// A contiguous range of the top-level statements of a function that is otherwise outside the subset can be
// translated on its own as a WINDOW (see "windows" in translate_stmt.go): its inputs are the variables it
// reads, its value is `Except <what it returned> <the variables it leaves behind>`.
//
// Aliasing: values are translated with value semantics, which is only sound when no memory is written by
// the function while it is reachable under two names. Therefore element writes are only accepted into
// local arrays (values in Go) and into a slice variable while it still holds memory allocated in the
// function (make / literal / append to nil, or itself extended by append): every assignment that could bind
// it to other memory must come later in the source and share no loop with the write. A slice variable
// that is written, or a slice expression over a written variable, may be given another name (assigned,
// stored, passed to a call, returned) only after the last write to it (later in the source, no common
// loop); before that it is only accepted where it is consumed on the spot (index, len, range,
// copy/Put/append/Uint argument, conversion, comparison). Writes through pointers, to parameters of slice
// type and to package variables are rejected.
//
// Panics: index and slice bounds are checked statically when the operand is an array (or a
// constant-bounded window of one) and the index is constant; otherwise the operation is emitted as a
// Go.…? operation returning Option and the whole function returns Option (none = panic). Slicing past
// len(x) into spare capacity counts as a panic; the effect of append on the spare capacity of its first
// argument is not modelled (only the returned slice value is).
//
// # Effect mode: state, atomics, effects, oracles (translate_eff.go; Lean side: the last section of GoPrelude.lean)
//
// A function that only computes a value is translated as above (PURE mode). A function that does more is
// translated in EFFECT mode; the mode is not chosen by a table but found by translating: an attempt that meets one
// of the constructs below is repeated with the mode switched on. The generated function's value is the tuple
//
//	(receiver after the call)?  ×  Go results…  ×  List Go.Effect  ×  (unused oracle values)?
//
// (`Option` of it when the function can panic or contains a fuel-bounded loop), stated in its doc comment.
//
//   - STATE PASSING. A method on *T whose body assigns a field of its receiver (directly, through an atomic
//     operation, or through a translated callee that does) takes the receiver as a VALUE and returns the updated
//     value first; a call `x.m(…)` of such a method writes the returned value back into `x` (x: the caller's own
//     receiver, or a path of fields rooted at a local that is not a pointer). Aliasing is excluded syntactically:
//     in such a function every occurrence of the receiver variable must be the operand of a field selection or of
//     a method call (`r.f`, `r.m(…)`): it is never copied, passed as an argument, stored, returned, compared or
//     captured; no address below it is taken (`&r.f`); function literals are rejected. Evaluation order: a call
//     that writes the receiver and a plain read of a receiver field in the same expression are rejected (Go
//     leaves their order unspecified); every value produced by a call with effects is bound to a temporary at the
//     point of the call.
//   - ATOMICS. A struct field of type sync/atomic.Uint32 / Uint64 / Uintptr / Int32 / Int64 is an Int field, .Bool a
//     Bool field, .Pointer[T] a Bool ("non-nil", Load only); atomic.Value is dropped. Such a field can only be used
//     through its methods: Load() reads it, Store(v) writes it, Add(d) adds with the wrap-around of its width and
//     yields the new value, Swap(v) writes and yields the old value, CompareAndSwap(o, n) writes n iff the field
//     equals o and yields whether it did — the SEQUENTIAL meaning — and EACH operation also appends
//     `Effect.atomic "<RootType>.<field path>" "<Op>" [operands]` to the trace. The sequential meaning is the
//     meaning of ONE goroutine's code between its own atomic operations when no other goroutine writes the
//     location in between; it says nothing about interleavings. Those stay in the hand-written models; what the
//     translation ties is each thread's local code, and the trace lets a theorem state which atomic operations
//     it performs and in what order.
//   - EFFECTS. A call that is not translated appends `Effect.call "<callee>" args` to the trace, in program order:
//     a method of an interface value without devirtualisation entry (callee = "<pkg>.<Interface>.<Method>", the
//     static type of the receiver expression), a call of a function-valued struct field
//     ("<pkg>.<Type>.<field>"), a repository function or method listed in the asEffect table (its key; a method
//     only on the function's own receiver or on a receiver the translation holds no value for: a reference
//     field, an opaque local). `ch <- v` on a channel field appends `Effect.send "<Type>.<field>" [v]`. The arguments
//     are the translated values (a struct contributes its leaves in field order: T.toVals); an argument outside
//     the subset is `Val.opaque`, accepted only when dropping its evaluation loses nothing (harmless(): no
//     function literal, receive, address-of, atomic operation, interface call; every call inside is a conversion,
//     len/cap/min/max, a function outside the repository, a PURE translatable repository function, or listed in
//     the ignore / pure-getter tables). For an asEffect method called on the function's own receiver the receiver
//     fields that callee may write (found syntactically, through the methods it calls on its receiver; "unknown"
//     if its receiver escapes) must be disjoint from the fields the translated code touches, otherwise the function
//     is rejected: an `Effect.call` stands for the whole execution of the callee, and the receiver value the
//     translation returns reflects only the writes of the translated code itself.
//   - ORACLES. When the RESULT of such an untranslated call is used, the call is still recorded in the trace and
//     its result is the next value of the oracle list, an extra last parameter `orc_ : List Go.Val` consumed in
//     call order (a struct result reads its leaves in field order: T.ofVals; a missing or ill-typed value reads as
//     the zero value); the unused rest of the list is the last component of the function's value. A call in
//     statement position and `_ = f(…)` consume nothing.
//   - IGNORED CALLEES (table ignoredCallees: loggers, sync.Mutex / RWMutex Lock / Unlock, the hsms / hsmsss metrics
//     counters) leave NO trace; the call and the evaluation of its arguments and receiver expression are dropped
//     (only in statement position, only when harmless() accepts the dropped expressions; panics inside them are
//     not modelled). The tables are printed in the header of every generated file that contains an effect-mode
//     function.
//   - A method of a named integer / boolean / byte-string type with a VALUE receiver is called with the value.
//   - time.Time is an Int: an instant on an abstract timeline in nanoseconds; only the zero literal `time.Time{}`
//     (= 0), assignment, `t.Sub(u)` (= t - u; saturation at ±2^63 ns is outside the model) and `t.Add(d)` (= t + d, see
//     "I/O" below) are accepted.
//   - A []T field of a struct, for T in listFieldOK (secs1.block), is a `List T` field. It is read as a whole
//     (len, index, range, passed to a translated function that only reads it) and assigned only as
//     `x.f = append(x.f, v…)` (x.f ++ [v…]), `x.f = append(x.f[:0], v…)` ([v…]), `x.f = x.f[:0]` / `nil` ([]): the
//     value of the field is the list of its current elements; the reuse of its backing array is not observable by
//     the translated code because the field is never given a second name.
//   - OPAQUE LOCALS. A local of pointer-to-struct type that only ever receives nil, an atomic.Pointer Load(), a
//     reference field or another opaque local is a Bool ("non-nil"); it can be compared with nil and be the
//     receiver of an asEffect method call.
//   - devirtIn: an interface stands for ONE implementation while a function of a given package is translated
//     (not in struct fields): in package hsmsss, hsms.Message ↦ *hsms.ControlMessage (see the table). Under such
//     an entry `v, ok := x.(*Impl)` is `v := x, ok := true`; every other type assertion is rejected.
//   - fmt.Errorf with %w applied to an error VALUE (not a sentinel) is `Go.wrapErr format e`: e when non-nil.
//   - A tag-less `switch` evaluates the case expressions of an arm only after the earlier arms failed to match;
//     an effect in a case expression (e.g. an atomic Load) is therefore sequenced into the else-branch of the
//     earlier arms. `a && b` / `a || b` whose right operand has effects advances the synthetic state only when Go
//     evaluates b.
//   - LOOPS WITHOUT AN EVIDENT TRIP COUNT (`for init; cond; post` that is not the counted shape, `for cond`, `for`)
//     are unrolled loopFuel (= 4) times with Go.loopWhileM: the function becomes Option-valued and `none` then
//     means "a panic, OR the loop was still running after 4 iterations" — no claim is made about such runs; every
//     tie theorem proves `= some _`.
//
// # I/O: readers, writers, deadlines, clocks (translate_io.go; tables printed in the header of the generated files)
//
// The effect discipline extended to code that drives a socket. Nothing here gives a meaning to the I/O itself: every call
// is a trace entry, every result an oracle value; what is tied is the code AROUND the calls (which deadline is set before
// which Read, what is done with each result, the loops).
//
//   - FOREIGN EFFECTS (table foreignEffects): a method of a type OUTSIDE the repository — net.Conn.SetReadDeadline,
//     net.Conn.Write, bufio.Reader.ReadByte, context.Context.Err — is recorded as `Effect.call "<pkg>.<Type>.<Method>"
//     args` and its results, when used, are the next oracle values, exactly like a method of an interface value of the
//     repository. The receiver expression must be something the translation holds no value for (a reference field, an
//     opaque parameter). An oracle result of a bounded integer type (the byte of ReadByte) is wrapped into its range.
//     The n of Write is NOT constrained (a model that wants 0 <= n <= len says so in its script).
//   - READ INTO (table readInto: net.Conn.Read, bufio.Reader.Read): `n, err := r.Read(p)` with p = x or x[i:], x a
//     local array, a local slice that holds memory owned by the function, or an in-out parameter. Trace:
//     `Effect.call key [.int len(p)]`. Oracle: TWO values, `.bytes data` then `.err e`. Meaning: exactly
//     `n = copy(p, data)`: the first min(len p, len data) bytes of data are stored at the front of p, n is their
//     number, err = e. This is the io.Reader contract (0 <= n <= len(p), the bytes are in p[:n]) plus ONE assumption:
//     p[n:] is left unchanged (io.Reader allows the reader to scribble there; the translated callers overwrite or drop
//     those bytes before reading them).
//   - OPAQUE PARAMETERS: a parameter of interface or function type without devirtualisation entry (net.Conn,
//     context.Context, func() time.Time, func(block) error) is NOT a parameter of the Lean function. It may only be the
//     receiver of a foreign-effect call, be called (`now()`, `deliver(b)`: `Effect.call "<function key>.<parameter>" args`,
//     results from the oracle), be polled (below), be passed on for an opaque parameter of a translated callee (the
//     argument expression is then dropped: it must be harmless()), or appear as `.opaque` in an effect's arguments.
//   - IN-OUT PARAMETERS: (a) a parameter of type *bool / *<integer>: the Lean function takes its VALUE, `*p` reads it,
//     `*p = v` writes it, any other use of p is rejected; (b) a []byte parameter that is the destination of a READ INTO
//     call or is handed on as an in-out argument: element writes into it are accepted although it is a parameter. The
//     final values of the in-out parameters are extra components of the function's value, after the Go results, in
//     parameter order:  (receiver')? × results… × in-outs… × trace × (oracle rest)?.  At a call site the argument must
//     be `&x` (x a local of basic type whose address is taken nowhere else: `&` on a non-struct is rejected everywhere
//     else) resp. `a[:]` (a a local array) or a local slice variable that holds memory owned by the caller (make / a
//     literal / an ALLOCATOR result / its own in-out parameter); the same variable cannot be handed over twice in one
//     call; after the call the variable is rebound to the value handed back. In the aliasing analysis such a call counts
//     as a write to the variable (so it may get another name only after the last such call). An in-out parameter cannot
//     be assigned as a whole.
//   - ALLOCATORS (table allocators: hsmsss.transport.allocFrame): the []byte result of such a function-valued field is
//     taken to be memory no other name in the function refers to.
//   - CONTEXT POLL: `select { case <-ctx.Done(): A; default: B }` with ctx an opaque parameter of type context.Context
//     (exactly two clauses, the receive in statement position) is `Effect.call "context.Context.Done.poll" []` + one
//     oracle Bool: true = the channel is ready, A runs; false: B. Every other select is rejected.
//   - time.Time.Add(d) = t + d (an instant plus a duration, both Int nanoseconds; overflow outside the model), next to
//     Sub and the zero literal.
//   - fmt.Errorf with SEVERAL %w verbs: the FIRST %w operand identifies the error (a sentinel, or Go.wrapErr of a value);
//     the other operands are evaluated and dropped.
//   - `for { … }` as the LAST statement of a function (never left by break): the loop's `.ok` exit is `none`
//     (unreachable: a constant-true condition without break).
//   - FUEL AS A PARAMETER (table fuelFuncs, and every function that calls one of them): the loops without an evident trip
//     count of these functions take their fuel from a parameter `fuel_ : Nat` (after the Go parameters, before orc_), passed
//     on unchanged to every callee that has one. Their loops are emitted as named definitions
//     `<fn>_loop<k>_cond / _body / _post`, lambda-lifted over the variables in scope on entry that they mention (and
//     fuel_); the function applies Go.loopWhileM to them. `none` = a panic, or some loop still running after fuel_
//     iterations; the tie theorems (Lemmas/IoScript.lean `loopWhileM_sim`) prove the regenerated loop equal to the
//     hand-written one for EVERY fuel.
//   - FLOAT → INTEGER: floats are not represented, but `T(f)` for an integer type T and a float expression f built from
//     conversions, arithmetic and float PARAMETERS (which are opaque parameters) is `Effect.call "float.toInt" [.opaque]`
//     plus one oracle Int (wrapped into T's range when T is bounded): Go leaves NaN / ±Inf / out-of-range conversions to the
//     implementation, i.e. "any value of T". Float locals, float results and every other use of a float are rejected.
//   - pureGetters gains hsmsss.transport.clock (returns t.now or time.Now: only ever passed for an opaque parameter).
//
// Not supported (rejected) in either mode: floats, maps, channel receive and close (other than the context poll), goroutines,
// select (other than the context poll), defer,
// closures (other than the iterator form), generics, labels/goto, type switches and every type assertion not
// covered by a devirtualisation entry, method values, variadic calls (other than ignored ones), strings other than as
// byte strings, package-level variables other than error sentinels, recursion, atomic.Pointer Store / Swap /
// CompareAndSwap, atomic.Value, time.Time arithmetic other than Sub / Add, effects inside windows and iterator functions,
// a function value that is not a struct field, an untranslated repository callee that is not in asEffect.
package main

import (
	"fmt"
	"go/ast"
	"go/constant"
	"go/token"
	"go/types"
	"path/filepath"
	"strconv"
	"strings"
)

// devirt: interface type -> the implementation that stands for it (both "rel.Type").
var devirt = map[string]string{
	"internal/wire.Body": "internal/wire.rawFrameBody",
}

// devirtIn: like devirt, but only while a function of the given package is being translated (and only for
// values, not for struct fields). The assumption is about the CODE of that package: every value of the interface
// type that it handles is of the named implementation.
//
//	hsmsss: hsms.Message ↦ *hsms.ControlMessage. The receive-side control paths (dispatchFrame and the handlers)
//	  obtain every hsms.Message from decodeControlFrame on a header-only frame whose SType is a control type, for
//	  which hsms.DecodeHSMSMessage returns a *ControlMessage; data frames never become a Message there (they
//	  are handed over as bytes). A type assertion to the implementation therefore succeeds.
var devirtIn = map[string]map[string]string{
	"hsmsss": {"hsms.Message": "hsms.ControlMessage"},
}

// devirtOf: the implementation that stands for interface `name` ("rel.Type") in the current scope.
func (g *G) devirtOf(name string, inField bool) (string, bool) {
	if impl, ok := devirt[name]; ok {
		return impl, true
	}
	if !inField {
		if impl, ok := devirtIn[g.scope][name]; ok {
			return impl, true
		}
	}
	return "", false
}

// ---------- Lean-side types ----------

type kind int

const (
	kInt kind = iota
	kBool
	kBytes
	kStruct
	kErr
	kOpaque // reference: only nil-ness (Bool, true = non-nil)
	kList   // read-only slice of translatable structs
	kDrop   // not representable
)

type ltype struct {
	k      kind
	lean   string
	arrLen int // >= 0 for [N]byte
	st     *structInfo
	elem   *ltype // kList: the element type
	atomic string // field of type sync/atomic.<atomic> ("" otherwise): only reachable through its methods
}

type sfield struct {
	goName string
	lt     ltype
}

type structInfo struct {
	key    string // rel.Type
	rel    string
	lean   string
	fields []sfield
	done   bool
}

// ---------- generation context ----------

type fnOut struct {
	key     string
	rel     string
	lean    string
	ok      bool
	why     string
	partial bool
	text    string
	deps    map[string]bool // rels of packages whose generated file this one needs
	resLean string
	nres    int
	// effect mode (translate_eff.go): shape of the generated function's value
	eff    bool // … × List Go.Effect
	recvW  bool // the receiver is written: first component = the receiver after the call
	useOrc bool // takes `orc_ : List Go.Val` last, returns the unused oracle values last
	// receiver fields (first level) the function reads or writes itself or through translated callees, and
	// receiver fields that callees treated as opaque effects (asEffect) may write: must stay disjoint
	touched      map[string]bool
	opaqueWrites map[string]string // field -> the asEffect callee that may write it
	// I/O (translate_io.go)
	dropParam []bool // per Go parameter: opaque (interface / function type), not a parameter of the Lean function
	inout     []int  // Go parameter indices of the in-out parameters: their final values follow the results
	fuel      bool   // takes `fuel_ : Nat` (after the Go parameters, before orc_)
}

type G struct {
	fns        map[string]*fnOut
	order      []string
	structs    map[string]*structInfo
	structOrd  []string
	inProgress map[string]bool
	legacy     map[string]bool // keys emitted into Funcs.lean
	scope      string          // rel of the package whose function is being translated (devirtIn)
}

func newG() *G {
	return &G{fns: map[string]*fnOut{}, structs: map[string]*structInfo{}, inProgress: map[string]bool{}, legacy: map[string]bool{}}
}

var leanKeywords = map[string]bool{}

func init() {
	for _, k := range strings.Fields(`at from end fun let match then do in by show have open export instance structure class def theorem
		where with if else mut return for type namespace section variable universe prefix infix notation macro syntax deriving
		extends private protected partial unsafe noncomputable local attribute calc nomatch nofun using suffices obtain import
		example abbrev inductive axiom opaque mutual termination_by decreasing_by Type Prop Sort fun some none true false
		this default id not and or xor`) {
		leanKeywords[k] = true
	}
}

func relOf(pkg *types.Package) (string, bool) {
	if pkg == nil {
		return "", false
	}
	if strings.HasPrefix(pkg.Path(), modPath) {
		return strings.TrimPrefix(pkg.Path(), modPath), true
	}
	return "", false
}

func (g *G) structFor(named *types.Named) *structInfo {
	obj := named.Obj()
	rel, ok := relOf(obj.Pkg())
	if !ok {
		return nil
	}
	if named.TypeArgs() != nil && named.TypeArgs().Len() > 0 {
		return nil
	}
	key := rel + "." + obj.Name()
	if si, ok := g.structs[key]; ok {
		return si
	}
	st, ok := named.Underlying().(*types.Struct)
	if !ok {
		return nil
	}
	si := &structInfo{key: key, rel: rel, lean: leanName(rel, obj.Name())}
	g.structs[key] = si
	for i := 0; i < st.NumFields(); i++ {
		f := st.Field(i)
		lt := g.leanType(f.Type(), true)
		if lt.k == kDrop {
			continue
		}
		si.fields = append(si.fields, sfield{f.Name(), lt})
	}
	si.done = true
	g.structOrd = append(g.structOrd, key)
	return si
}

func isByteBasic(t types.Type) bool {
	b, ok := t.Underlying().(*types.Basic)
	return ok && b.Kind() == types.Uint8
}

// leanType maps a Go type. inField: the type of a struct field (pointers to structs are opaque there).
func (g *G) leanType(ty types.Type, inField bool) ltype {
	if ty == nil {
		return ltype{k: kDrop}
	}
	if ty.String() == "error" {
		return ltype{k: kErr, lean: "Go.Err", arrLen: -1}
	}
	if n, ok := ty.(*types.Named); ok {
		if rel, ok := relOf(n.Obj().Pkg()); ok {
			if impl, ok := g.devirtOf(rel+"."+n.Obj().Name(), inField); ok {
				i := strings.LastIndex(impl, ".")
				if pi, err := loadPkg(repoRoot, impl[:i]); err == nil && pi.pkg != nil {
					if o := pi.pkg.Scope().Lookup(impl[i+1:]); o != nil {
						return g.leanType(o.Type(), inField)
					}
				}
				return ltype{k: kDrop}
			}
		}
	}
	if al, ok := ty.(*types.Alias); ok {
		return g.leanType(types.Unalias(al), inField)
	}
	if isTimeTime(ty) {
		// an instant on an abstract timeline, in nanoseconds (see the subset description: only the zero literal,
		// assignment, and t.Sub(u) are accepted)
		return ltype{k: kInt, lean: "Int", arrLen: -1}
	}
	if a := atomicKind(ty); a != "" {
		if !inField {
			return ltype{k: kDrop} // an atomic is never copied: only a field, only through its methods
		}
		switch a {
		case "Bool":
			return ltype{k: kBool, lean: "Bool", arrLen: -1, atomic: a}
		case "Pointer":
			return ltype{k: kOpaque, lean: "Bool", arrLen: -1, atomic: a}
		case "Value":
			return ltype{k: kDrop}
		}
		return ltype{k: kInt, lean: "Int", arrLen: -1, atomic: a}
	}
	switch u := ty.Underlying().(type) {
	case *types.Basic:
		switch {
		case u.Kind() == types.UnsafePointer:
			return ltype{k: kOpaque, lean: "Bool", arrLen: -1}
		case u.Info()&types.IsInteger != 0:
			return ltype{k: kInt, lean: "Int", arrLen: -1}
		case u.Info()&types.IsBoolean != 0:
			return ltype{k: kBool, lean: "Bool", arrLen: -1}
		case u.Info()&types.IsString != 0:
			return ltype{k: kBytes, lean: "Go.Bytes", arrLen: -1}
		case u.Kind() == types.UntypedNil:
			return ltype{k: kOpaque, lean: "Bool", arrLen: -1}
		}
		return ltype{k: kDrop}
	case *types.Pointer:
		if n, ok := u.Elem().(*types.Named); ok && !inField {
			if _, isSt := n.Underlying().(*types.Struct); isSt {
				return g.leanType(n, false)
			}
		}
		return ltype{k: kOpaque, lean: "Bool", arrLen: -1}
	case *types.Slice:
		if isByteBasic(u.Elem()) {
			return ltype{k: kBytes, lean: "Go.Bytes", arrLen: -1}
		}
		if n, ok := u.Elem().(*types.Named); ok {
			if _, isSt := n.Underlying().(*types.Struct); isSt && (!inField || listFieldOK(n)) {
				if el := g.leanType(n, false); el.k == kStruct {
					return ltype{k: kList, lean: "(List " + el.lean + ")", arrLen: -1, elem: &el, st: el.st}
				}
			}
		}
		return ltype{k: kOpaque, lean: "Bool", arrLen: -1}
	case *types.Array:
		if isByteBasic(u.Elem()) {
			return ltype{k: kBytes, lean: "Go.Bytes", arrLen: int(u.Len())}
		}
		return ltype{k: kDrop}
	case *types.Struct:
		if n, ok := ty.(*types.Named); ok {
			if si := g.structFor(n); si != nil {
				return ltype{k: kStruct, lean: si.lean, st: si, arrLen: -1}
			}
		}
		return ltype{k: kDrop}
	case *types.Interface, *types.Map, *types.Chan, *types.Signature:
		return ltype{k: kOpaque, lean: "Bool", arrLen: -1}
	}
	return ltype{k: kDrop}
}

func zeroOf(lt ltype) string {
	switch lt.k {
	case kInt:
		return "0"
	case kBool, kOpaque:
		return "false"
	case kBytes:
		if lt.arrLen >= 0 {
			return fmt.Sprintf("(List.replicate %d 0)", lt.arrLen)
		}
		return "[]"
	case kErr:
		return "none"
	case kStruct:
		return lt.st.lean + ".zero"
	case kList:
		return "[]"
	}
	return "default"
}

// ---------- function lookup ----------

func findFunc(p *pkgInfo, recv, name string) *ast.FuncDecl {
	for _, f := range p.files {
		for _, d := range f.Decls {
			fd, ok := d.(*ast.FuncDecl)
			if !ok || fd.Name.Name != name {
				continue
			}
			if recv == "" && fd.Recv == nil {
				return fd
			}
			if recv != "" && fd.Recv != nil && len(fd.Recv.List) == 1 && recvName(fd.Recv.List[0].Type) == recv {
				return fd
			}
		}
	}
	return nil
}

// key is "rel.Func" or "rel.Type.Method" (rel may contain slashes, names may not contain dots).
func splitKey(key string) (rel, recv, name string) {
	parts := strings.Split(key, ".")
	// rel never contains '.', so parts[0] is rel
	rel = parts[0]
	if len(parts) == 3 {
		return rel, parts[1], parts[2]
	}
	return rel, "", parts[1]
}

func keyOfFunc(fn *types.Func) (string, bool) {
	rel, ok := relOf(fn.Pkg())
	if !ok {
		return "", false
	}
	sig := fn.Type().(*types.Signature)
	if r := sig.Recv(); r != nil {
		t := r.Type()
		if p, ok := t.(*types.Pointer); ok {
			t = p.Elem()
		}
		n, ok := t.(*types.Named)
		if !ok {
			return "", false
		}
		return rel + "." + n.Obj().Name() + "." + fn.Name(), true
	}
	return rel + "." + fn.Name(), true
}

func leanFuncName(key string) string {
	rel, recv, name := splitKey(key)
	if recv != "" {
		return leanName(rel, recv+"_"+name)
	}
	return leanName(rel, name)
}

// translate returns the (memoised) translation of the function with the given key.
func (g *G) translate(key string) *fnOut {
	if o, ok := g.fns[key]; ok {
		return o
	}
	var win *windowSpec
	fkey := key
	if i := strings.Index(key, "#"); i >= 0 {
		fkey = key[:i]
		win = windows[key]
		if win == nil {
			o := &fnOut{key: key, why: "no such window"}
			g.fns[key] = o
			return o
		}
	}
	rel, recv, name := splitKey(fkey)
	out := &fnOut{key: key, rel: rel, lean: leanFuncName(fkey), deps: map[string]bool{}}
	if win != nil {
		out.lean += "_" + key[strings.Index(key, "#")+1:]
	}
	if g.inProgress[key] {
		out.why = "recursion"
		return out // not memoised: the outer call records the final verdict
	}
	g.inProgress[key] = true
	defer delete(g.inProgress, key)
	savedScope := g.scope
	g.scope = rel
	defer func() { g.scope = savedScope }()
	p, err := loadPkg(repoRoot, rel)
	if err != nil || p.pkg == nil {
		out.why = "package not loadable"
		g.fns[key] = out
		return out
	}
	fd := findFunc(p, recv, name)
	if fd == nil || fd.Body == nil {
		out.why = "function not found"
		g.fns[key] = out
		return out
	}
	var m modes
	m.fuel = fuelFuncs[key]
	for tries := 0; ; tries++ {
		if tries > 8 {
			out.why = "internal: translation modes do not settle"
			break
		}
		t := &tr{g: g, p: p, fd: fd, key: key, optMode: m.opt, eff: m.eff, recvW: m.recvW, useOrc: m.orc, fuelP: m.fuel,
			names: map[*types.Var]string{}, used: map[string]bool{},
			written: map[*types.Var]bool{}, fresh: map[*types.Var]bool{}, out: out}
		again := false
		func() {
			defer func() {
				if r := recover(); r != nil {
					switch u := r.(type) {
					case untranslatable:
						out.why = u.why
					case needOption:
						again, m.opt = true, true
					case needMode:
						again = true
						m.eff = true
						m.recvW = m.recvW || u.recvW
						m.orc = m.orc || u.orc
						m.fuel = m.fuel || u.fuel
					default:
						panic(r)
					}
				}
			}()
			out.touched, out.opaqueWrites = map[string]bool{}, map[string]string{}
			if win != nil {
				t.windowFunction(win)
			} else {
				t.function()
			}
			out.ok = true
			out.partial = m.opt
			out.eff, out.recvW, out.useOrc = m.eff, m.recvW, m.orc
			out.fuel = m.fuel
		}()
		if !again {
			break
		}
		out.deps = map[string]bool{}
	}
	g.fns[key] = out
	if out.ok {
		g.order = append(g.order, key)
	}
	return out
}

// ---------- one function ----------

type untranslatable struct{ why string }
type needOption struct{}

// modes: how the function is translated; a translation attempt that finds it needs more panics with
// needOption / needMode and is repeated (translate).
type modes struct{ opt, eff, recvW, orc, fuel bool }
type needMode struct{ recvW, orc, fuel bool }

func bail(format string, a ...any) { panic(untranslatable{fmt.Sprintf(format, a...)}) }

type tr struct {
	g           *G
	p           *pkgInfo
	fd          *ast.FuncDecl
	key         string
	out         *fnOut
	optMode     bool
	names       map[*types.Var]string
	used        map[string]bool
	binds       []string
	tmp         int
	res         []ltype
	named       []*types.Var
	inLoop      bool
	brk         func() string
	cont        func() string
	written     map[*types.Var]bool
	fresh       map[*types.Var]bool
	iter        *iterCtx
	winMode     bool
	writePos    map[*types.Var][]token.Pos
	nonFreshPos map[*types.Var][]token.Pos
	loops       [][2]token.Pos
	inReturn    bool
	// effect mode (translate_eff.go)
	eff, recvW, useOrc bool
	recvParam          *types.Var // the receiver variable of a method (any mode)
	trVar, orcVar      *types.Var // synthetic locals: the effect trace, the remaining oracle values
	opaqueVars         map[*types.Var]bool
	allowAtomic        bool
	winMut, winRead    bool // since the last flush: the receiver was written / a plain receiver field was read
	// I/O (translate_io.go)
	opaqueParams map[*types.Var]bool // parameters of interface / function type: not parameters of the Lean function
	inoutSet     map[*types.Var]bool // in-out parameters (`*bool` / `*int…`, a []byte that is written into)
	fuelP        bool                // the loop fuel is the parameter fuel_
	wrapOrc      bool                // oracle results of bounded integer type are wrapped (foreignEffects callees)
	loopN        int                 // named loops emitted so far
	auxDefs      []string            // definitions emitted before the function's own (named loop pieces)
}

func (t *tr) pos(n ast.Node) string {
	p := t.p.fset.Position(n.Pos())
	return fmt.Sprintf("%s:%d", filepath.Base(p.Filename), p.Line)
}

func (t *tr) typeOf(e ast.Expr) types.Type {
	if tv, ok := t.p.info.Types[e]; ok {
		return tv.Type
	}
	if id, ok := e.(*ast.Ident); ok {
		if o := t.p.info.Uses[id]; o != nil {
			return o.Type()
		}
		if o := t.p.info.Defs[id]; o != nil {
			return o.Type()
		}
	}
	bail("no type information for expression at %s", t.pos(e))
	return nil
}

func (t *tr) lt(ty types.Type, what string) ltype {
	l := t.g.leanType(ty, false)
	if l.k == kDrop {
		bail("unsupported type %s (%s)", ty, what)
	}
	if l.k == kStruct || l.k == kList {
		t.out.deps[l.st.rel] = true
	}
	return l
}

func (t *tr) ltOf(e ast.Expr) ltype {
	if id, ok := ast.Unparen(e).(*ast.Ident); ok && t.opaqueVars != nil {
		if v := t.varOf(id); v != nil && t.opaqueVars[v] {
			return ltype{k: kOpaque, lean: "Bool", arrLen: -1}
		}
	}
	return t.lt(t.typeOf(e), "expression at "+t.pos(e))
}

func (t *tr) declare(v *types.Var) string {
	if n, ok := t.names[v]; ok {
		return n
	}
	base := v.Name()
	if base == "_" || base == "" {
		return "_"
	}
	if leanKeywords[base] {
		base = base + "'"
	}
	n := base
	for i := 1; t.used[n]; i++ {
		n = fmt.Sprintf("%s_%d", base, i)
	}
	t.used[n] = true
	t.names[v] = n
	return n
}

func (t *tr) fresh1(prefix string) string {
	for {
		t.tmp++
		n := fmt.Sprintf("%s%d", prefix, t.tmp)
		if !t.used[n] {
			t.used[n] = true
			return n
		}
	}
}

func (t *tr) varOf(id *ast.Ident) *types.Var {
	if o, ok := t.p.info.Defs[id].(*types.Var); ok && o != nil {
		return o
	}
	if o, ok := t.p.info.Uses[id].(*types.Var); ok {
		return o
	}
	return nil
}

func (t *tr) isLocal(v *types.Var) bool {
	return v != nil && v.Pkg() == t.p.pkg && v.Parent() != t.p.pkg.Scope() && !v.IsField()
}

// wrapVal turns a value into the result of a block (Option in partial mode).
func (t *tr) wrapVal(s string) string {
	if t.optMode {
		return "(some " + s + ")"
	}
	return s
}

// hoist records a partial operation `op : Option α` and returns the name bound to its value.
func (t *tr) hoist(op string) string {
	if !t.optMode {
		panic(needOption{})
	}
	n := t.fresh1("t_")
	t.binds = append(t.binds, fmt.Sprintf("(%s).bind fun %s =>\n", op, n))
	return n
}

// flush returns the pending binds as a prefix for the statement being emitted.
func (t *tr) flush(ind string) string {
	t.winMut, t.winRead = false, false
	if len(t.binds) == 0 {
		return ""
	}
	s := ""
	for _, b := range t.binds {
		s += b + ind
	}
	t.binds = nil
	return s
}

// ---------- integer helpers ----------

type intTy struct {
	bits      int // 0 = unbounded (int, int64, untyped)
	signed    bool
	realBits  int // width of the Go type (64 for int/int64)
	isInteger bool
}

func intInfo(ty types.Type) intTy {
	b, ok := ty.Underlying().(*types.Basic)
	if !ok || b.Info()&types.IsInteger == 0 {
		return intTy{}
	}
	switch b.Kind() {
	case types.Int8:
		return intTy{8, true, 8, true}
	case types.Int16:
		return intTy{16, true, 16, true}
	case types.Int32:
		return intTy{32, true, 32, true}
	case types.Int64, types.Int:
		return intTy{0, true, 64, true}
	case types.Uint8:
		return intTy{8, false, 8, true}
	case types.Uint16:
		return intTy{16, false, 16, true}
	case types.Uint32:
		return intTy{32, false, 32, true}
	case types.Uint64, types.Uint, types.Uintptr:
		return intTy{64, false, 64, true}
	case types.UntypedInt, types.UntypedRune:
		return intTy{0, true, 0, true}
	}
	return intTy{}
}

func wrapTo(it intTy, s string) string {
	if it.bits == 0 {
		return s
	}
	if it.signed {
		return fmt.Sprintf("(Go.wrapS %d %s)", it.bits, s)
	}
	return fmt.Sprintf("(Go.wrapU %d %s)", it.bits, s)
}

// convInt: T(x) between integer types.
func convInt(from, to intTy, s string) string {
	if from.realBits == 0 { // untyped constant: folded elsewhere; identity
		return s
	}
	if to.bits == 0 { // int / int64 target (unbounded in the model)
		if !from.signed && from.realBits == 64 {
			return fmt.Sprintf("(Go.wrapS 64 %s)", s)
		}
		return s
	}
	// widening that cannot leave the range
	if !to.signed && !from.signed && from.realBits <= to.bits {
		return s
	}
	if to.signed && from.signed && from.realBits <= to.bits && from.bits != 0 {
		return s
	}
	if to.signed && !from.signed && from.realBits < to.bits {
		return s
	}
	return wrapTo(to, s)
}

func intLitOf(v constant.Value) string { return intLit(v.ExactString()) }

func bytesLit(s string) string {
	if len(s) == 0 {
		return "([] : Go.Bytes)"
	}
	var parts []string
	for i := 0; i < len(s); i++ {
		parts = append(parts, strconv.Itoa(int(s[i])))
	}
	return "([" + strings.Join(parts, ", ") + "] : Go.Bytes)"
}

// ---------- static lengths (arrays and constant windows of arrays) ----------

func (t *tr) constInt(e ast.Expr) (int64, bool) {
	if e == nil {
		return 0, false
	}
	if tv, ok := t.p.info.Types[e]; ok && tv.Value != nil && tv.Value.Kind() == constant.Int {
		if v, ok := constant.Int64Val(tv.Value); ok {
			return v, true
		}
	}
	return 0, false
}

// staticLen: the number of bytes e is known to hold, when that is known from the types alone.
func (t *tr) staticLen(e ast.Expr) (int, bool) {
	switch x := e.(type) {
	case *ast.ParenExpr:
		return t.staticLen(x.X)
	case *ast.SliceExpr:
		if x.Slice3 {
			return 0, false
		}
		n, ok := t.staticLen(x.X)
		if !ok {
			return 0, false
		}
		lo, hi := int64(0), int64(n)
		if x.Low != nil {
			v, ok := t.constInt(x.Low)
			if !ok {
				return 0, false
			}
			lo = v
		}
		if x.High != nil {
			v, ok := t.constInt(x.High)
			if !ok {
				return 0, false
			}
			hi = v
		}
		if 0 <= lo && lo <= hi && hi <= int64(n) {
			return int(hi - lo), true
		}
		return 0, false
	}
	ty := t.typeOf(e)
	if p, ok := ty.Underlying().(*types.Pointer); ok {
		ty = p.Elem()
	}
	if a, ok := ty.Underlying().(*types.Array); ok && isByteBasic(a.Elem()) {
		return int(a.Len()), true
	}
	return 0, false
}

// ---------- expressions ----------

func (t *tr) rootVar(e ast.Expr) *types.Var {
	for {
		switch x := e.(type) {
		case *ast.Ident:
			return t.varOf(x)
		case *ast.SelectorExpr:
			e = x.X
		case *ast.IndexExpr:
			e = x.X
		case *ast.SliceExpr:
			e = x.X
		case *ast.StarExpr:
			e = x.X
		case *ast.ParenExpr:
			e = x.X
		default:
			return nil
		}
	}
}

// bytesArg translates a byte-string operand that is consumed on the spot (so a window of a written
// variable is acceptable here).
func (t *tr) bytesArg(e ast.Expr) string { return t.expr0(e, true) }

func (t *tr) expr(e ast.Expr) string { return t.expr0(e, false) }

func (t *tr) expr0(e ast.Expr, consumed bool) string {
	if tv, ok := t.p.info.Types[e]; ok && tv.Value != nil {
		switch tv.Value.Kind() {
		case constant.Int:
			return intLitOf(tv.Value)
		case constant.Bool:
			if constant.BoolVal(tv.Value) {
				return "true"
			}
			return "false"
		case constant.String:
			return bytesLit(constant.StringVal(tv.Value))
		}
		bail("constant of unsupported kind at %s", t.pos(e))
	}
	switch x := e.(type) {
	case *ast.ParenExpr:
		return t.expr0(x.X, consumed)
	case *ast.Ident:
		return t.ident(x, consumed)
	case *ast.BasicLit:
		bail("literal %s", x.Value)
	case *ast.SelectorExpr:
		return t.selector(x)
	case *ast.StarExpr:
		if id, ok := ast.Unparen(x.X).(*ast.Ident); ok && t.inoutPtr(t.varOf(id)) {
			return t.names[t.varOf(id)] // `*p` of an in-out parameter: its current value
		}
		if t.ltOf(x.X).k != kStruct {
			bail("dereference of a non-struct pointer at %s", t.pos(e))
		}
		return t.expr(x.X)
	case *ast.UnaryExpr:
		return t.unary(x)
	case *ast.BinaryExpr:
		return t.binary(x)
	case *ast.IndexExpr:
		return t.index(x)
	case *ast.SliceExpr:
		if !consumed {
			if v := t.rootVar(x.X); v != nil && t.written[v] && !t.noWriteAfter(v, x.Pos()) {
				bail("slice expression over %s escapes here and %s is written later (aliasing) at %s", v.Name(), v.Name(), t.pos(e))
			}
		}
		return t.slice(x)
	case *ast.CallExpr:
		return t.call(x, false)
	case *ast.CompositeLit:
		return t.composite(x)
	}
	bail("expression %T at %s", e, t.pos(e))
	return ""
}

func (t *tr) ident(x *ast.Ident, consumed bool) string {
	switch x.Name {
	case "true", "false":
		if t.p.info.Uses[x] == types.Universe.Lookup(x.Name) {
			return x.Name
		}
	case "nil":
		bail("nil in a position where its type is not determined by a comparison, assignment or return at %s", t.pos(x))
	}
	obj := t.p.info.Uses[x]
	if obj == nil {
		obj = t.p.info.Defs[x]
	}
	v, ok := obj.(*types.Var)
	if !ok {
		bail("identifier %s is not a variable or constant at %s", x.Name, t.pos(x))
	}
	if t.isLocal(v) {
		if t.opaqueParams[v] {
			bail("opaque parameter %s used as a value at %s", x.Name, t.pos(x))
		}
		if t.inoutPtr(v) {
			bail("in-out parameter %s used other than as *%s at %s", x.Name, x.Name, t.pos(x))
		}
		n, ok := t.names[v]
		if !ok {
			bail("variable %s used before its declaration was translated at %s", x.Name, t.pos(x))
		}
		if !consumed && t.written[v] && !t.noWriteAfter(v, x.Pos()) {
			if _, isSlice := v.Type().Underlying().(*types.Slice); isSlice {
				bail("slice %s gets another name here and is written later (aliasing) at %s", v.Name(), t.pos(x))
			}
		}
		return n
	}
	// package-level variable: only error sentinels
	if v.Type().String() == "error" {
		return fmt.Sprintf("(some %q)", v.Name())
	}
	bail("package-level variable %s at %s", x.Name, t.pos(x))
	return ""
}

func (t *tr) selector(x *ast.SelectorExpr) string {
	if sel, ok := t.p.info.Selections[x]; ok {
		if sel.Kind() != types.FieldVal {
			bail("method value %s at %s", x.Sel.Name, t.pos(x))
		}
		base := t.expr(x.X)
		bt := t.typeOf(x.X)
		t.noteRecvField(x, sel, false)
		if t.isRecvRooted(x) && !t.allowAtomic {
			if t.winMut {
				bail("receiver field read after a receiver-writing call in one expression (evaluation order) at %s", t.pos(x))
			}
			t.winRead = true
		}
		return t.fieldPath(base, bt, sel.Index(), x)
	}
	// qualified identifier pkg.Name
	if id, ok := x.X.(*ast.Ident); ok {
		if _, isPkg := t.p.info.Uses[id].(*types.PkgName); isPkg {
			if v, ok := t.p.info.Uses[x.Sel].(*types.Var); ok && v.Type().String() == "error" {
				return fmt.Sprintf("(some %q)", v.Name())
			}
			bail("package-level variable %s.%s at %s", id.Name, x.Sel.Name, t.pos(x))
		}
	}
	bail("selector %s at %s", x.Sel.Name, t.pos(x))
	return ""
}

// fieldPath follows a (possibly promoted) field selection from a struct-kind value.
func (t *tr) fieldPath(base string, bt types.Type, index []int, at ast.Node) string {
	cur := base
	ty := bt
	for _, i := range index {
		if p, ok := ty.Underlying().(*types.Pointer); ok {
			ty = p.Elem()
		}
		lt := t.lt(ty, "selector base at "+t.pos(at))
		if lt.k != kStruct {
			bail("field selection on a value that is not a translatable struct (%s) at %s", ty, t.pos(at))
		}
		st := ty.Underlying().(*types.Struct)
		f := st.Field(i)
		found := false
		for _, sf := range lt.st.fields {
			if sf.goName == f.Name() {
				found = true
				if sf.lt.atomic != "" && !t.allowAtomic {
					bail("atomic field %s used other than through Load/Store/Add/Swap/CompareAndSwap at %s", f.Name(), t.pos(at))
				}
			}
		}
		if !found {
			bail("field %s of %s has an untranslatable type (%s) at %s", f.Name(), ty, f.Type(), t.pos(at))
		}
		cur = cur + "." + leanField(f.Name())
		ty = f.Type()
	}
	return cur
}

func leanField(n string) string {
	if leanKeywords[n] {
		return "«" + n + "»"
	}
	return n
}

func (t *tr) unary(x *ast.UnaryExpr) string {
	switch x.Op {
	case token.NOT:
		return "(!" + t.expr(x.X) + ")"
	case token.SUB:
		return wrapTo(intInfo(t.typeOf(x)), "(-"+t.expr(x.X)+")")
	case token.ADD:
		return t.expr(x.X)
	case token.AND:
		if t.ltOf(x.X).k == kStruct {
			// &T{…} anywhere, &v only as a returned value: a pointer to a struct is the struct value (see the
			// subset description); a pointer to a local that is still live could observe later writes to it.
			if _, isLit := ast.Unparen(x.X).(*ast.CompositeLit); !isLit && !t.inReturn {
				bail("address of a variable outside a return statement at %s", t.pos(x))
			}
			return t.expr(x.X)
		}
		bail("address-of a non-struct at %s", t.pos(x))
	}
	bail("unary %s at %s", x.Op, t.pos(x))
	return ""
}

func (t *tr) isNil(e ast.Expr) bool {
	e = ast.Unparen(e)
	id, ok := e.(*ast.Ident)
	if !ok || id.Name != "nil" {
		return false
	}
	_, isNil := t.p.info.Uses[id].(*types.Nil)
	return isNil
}

func (t *tr) nilCompare(other ast.Expr, eq bool, at ast.Node) string {
	lt := t.ltOf(other)
	switch lt.k {
	case kErr:
		if eq {
			return "(" + t.expr(other) + ").isNone"
		}
		return "(" + t.expr(other) + ").isSome"
	case kOpaque:
		if eq {
			return "(!" + t.expr(other) + ")"
		}
		return t.expr(other)
	}
	bail("comparison of %s with nil (nil-ness of this type is not modelled) at %s", t.typeOf(other), t.pos(at))
	return ""
}

func (t *tr) binary(x *ast.BinaryExpr) string {
	if x.Op == token.EQL || x.Op == token.NEQ {
		if t.isNil(x.Y) {
			return t.nilCompare(x.X, x.Op == token.EQL, x)
		}
		if t.isNil(x.X) {
			return t.nilCompare(x.Y, x.Op == token.EQL, x)
		}
	}
	if x.Op == token.LAND || x.Op == token.LOR {
		a := t.expr(x.X)
		saved := t.binds
		t.binds = nil
		b := t.expr(x.Y)
		inner := t.binds
		t.binds = saved
		if len(inner) == 0 {
			if x.Op == token.LAND {
				return "(" + a + " && " + b + ")"
			}
			return "(" + a + " || " + b + ")"
		}
		if t.eff && !(len(inner) > 0 && !strings.Contains(strings.Join(inner, ""), "let ")) {
			// the right operand has effects (and may panic): evaluate it, and advance the synthetic state, only
			// when Go would
			vars := t.effVars()
			n := t.fresh1("t_")
			names := []string{}
			tys := []string{"Bool"}
			for _, v := range vars {
				names = append(names, t.names[v])
				if et := t.effTypeOf(v); et != "" {
					tys = append(tys, "("+et+")")
				} else {
					tys = append(tys, t.ltVar(v, "receiver").lean)
				}
			}
			tup := func(first string) string { return "(" + strings.Join(append([]string{first}, names...), ", ") + ")" }
			short := "false"
			if x.Op == token.LOR {
				short = "true"
			}
			body := "    " + strings.Join(inner, "    ")
			if pureLets(inner) {
				yes, no := body+"    "+tup(b), tup(short)
				if x.Op == token.LOR {
					t.binds = append(t.binds, fmt.Sprintf("let %s := ((if %s then %s else\n%s) : %s)\n", tup(n), a, no, yes, strings.Join(tys, " × ")))
				} else {
					t.binds = append(t.binds, fmt.Sprintf("let %s := ((if %s then\n%s else %s) : %s)\n", tup(n), a, yes, no, strings.Join(tys, " × ")))
				}
				return n
			}
			if !t.optMode {
				panic(needOption{})
			}
			yes, no := body+"    (some "+tup(b)+")", "(some "+tup(short)+")"
			if x.Op == token.LOR {
				t.binds = append(t.binds, fmt.Sprintf("((if %s then %s else\n%s) : Option (%s)).bind fun %s =>\n", a, no, yes, strings.Join(tys, " × "), tup(n)))
			} else {
				t.binds = append(t.binds, fmt.Sprintf("((if %s then\n%s else %s) : Option (%s)).bind fun %s =>\n", a, yes, no, strings.Join(tys, " × "), tup(n)))
			}
			return n
		}
		// the right operand can panic: evaluate it only when Go would
		body := strings.Join(inner, "") + "(some " + b + ")"
		if x.Op == token.LAND {
			return t.hoist(fmt.Sprintf("if %s then (%s) else (some false)", a, body))
		}
		return t.hoist(fmt.Sprintf("if %s then (some true) else (%s)", a, body))
	}
	lx, ly := t.ltOf(x.X), t.ltOf(x.Y)
	switch x.Op {
	case token.EQL, token.NEQ:
		if lx.k == kErr || lx.k == kOpaque || ly.k == kErr || ly.k == kOpaque {
			bail("comparison of errors / references at %s", t.pos(x))
		}
		a, b := t.bytesOrExpr(x.X, lx), t.bytesOrExpr(x.Y, ly)
		if x.Op == token.EQL {
			return "(" + a + " == " + b + ")"
		}
		return "(" + a + " != " + b + ")"
	}
	if lx.k != kInt || ly.k != kInt {
		bail("operator %s on non-integer operands at %s", x.Op, t.pos(x))
	}
	a, b := t.expr(x.X), t.expr(x.Y)
	rt := intInfo(t.typeOf(x))
	opT := intInfo(t.typeOf(x.X))
	switch x.Op {
	case token.ADD:
		return wrapTo(rt, "("+a+" + "+b+")")
	case token.SUB:
		return wrapTo(rt, "("+a+" - "+b+")")
	case token.MUL:
		return wrapTo(rt, "("+a+" * "+b+")")
	case token.QUO, token.REM:
		if _, isConst := t.constInt(x.Y); !isConst {
			// division by zero panics
			b = t.hoist(fmt.Sprintf("if %s == 0 then none else some %s", b, b))
		}
		if x.Op == token.QUO {
			s := "(Int.tdiv " + a + " " + b + ")"
			if rt.signed {
				return wrapTo(rt, s)
			}
			return s
		}
		return "(Int.tmod " + a + " " + b + ")"
	case token.LSS:
		return "(decide (" + a + " < " + b + "))"
	case token.LEQ:
		return "(decide (" + a + " ≤ " + b + "))"
	case token.GTR:
		return "(decide (" + a + " > " + b + "))"
	case token.GEQ:
		return "(decide (" + a + " ≥ " + b + "))"
	case token.AND, token.OR, token.XOR:
		yt := intInfo(t.typeOf(x.Y))
		if (opT.signed && opT.realBits != 0) || (yt.signed && yt.realBits != 0) || rt.signed {
			// signed operands: only when both are syntactically non-negative (Go.band/bor/bxor are defined on
			// non-negative values) and the type is int/int64 (unbounded in the model, so no sign bit is reached)
			if !(t.nonneg(x.X) && t.nonneg(x.Y)) || rt.bits != 0 {
				bail("bitwise %s on signed operands that are not evidently non-negative at %s", x.Op, t.pos(x))
			}
		}
		f := map[token.Token]string{token.AND: "Go.band", token.OR: "Go.bor", token.XOR: "Go.bxor"}[x.Op]
		return "(" + f + " " + a + " " + b + ")"
	case token.SHL, token.SHR:
		st := intInfo(t.typeOf(x.Y))
		if c, isConst := t.constInt(x.Y); isConst {
			if c < 0 {
				bail("negative shift count at %s", t.pos(x))
			}
		} else if st.signed {
			bail("shift by a signed non-constant amount (panics when negative) at %s", t.pos(x))
		}
		if x.Op == token.SHL {
			if rt.bits == 0 && rt.realBits != 0 {
				// int << k: unbounded in the model
				return "(Go.shl " + a + " " + b + ")"
			}
			return wrapTo(rt, "(Go.shl "+a+" "+b+")")
		}
		return "(Go.shr " + a + " " + b + ")"
	}
	bail("binary %s at %s", x.Op, t.pos(x))
	return ""
}

// nonneg: e is non-negative by its syntax alone: a non-negative constant, a conversion from an unsigned type
// narrower than 64 bits, len(…), and shifts / | & ^ of such.
func (t *tr) nonneg(e ast.Expr) bool {
	e = ast.Unparen(e)
	if c, ok := t.constInt(e); ok {
		return c >= 0
	}
	switch x := e.(type) {
	case *ast.CallExpr:
		if tv, ok := t.p.info.Types[x.Fun]; ok && tv.IsType() && len(x.Args) == 1 {
			from := intInfo(t.typeOf(x.Args[0]))
			to := intInfo(tv.Type)
			if from.isInteger && to.isInteger && !from.signed && from.realBits < 64 && (to.bits == 0 || to.bits > from.realBits) {
				return true
			}
			return false
		}
		if id, ok := ast.Unparen(x.Fun).(*ast.Ident); ok && id.Name == "len" {
			_, isB := t.p.info.Uses[id].(*types.Builtin)
			return isB
		}
	case *ast.BinaryExpr:
		switch x.Op {
		case token.SHL, token.SHR:
			return t.nonneg(x.X)
		case token.AND, token.OR, token.XOR:
			return t.nonneg(x.X) && t.nonneg(x.Y)
		}
	}
	return false
}

func (t *tr) bytesOrExpr(e ast.Expr, lt ltype) string {
	if lt.k == kBytes {
		return t.bytesArg(e)
	}
	return t.expr(e)
}

func (t *tr) index(x *ast.IndexExpr) string {
	lt := t.ltOf(x.X)
	if lt.k == kList {
		return t.hoist(fmt.Sprintf("Go.idxL? %s %s", t.expr(x.X), t.expr(x.Index)))
	}
	if lt.k != kBytes {
		bail("index into %s at %s", t.typeOf(x.X), t.pos(x))
	}
	base := t.bytesArg(x.X)
	if n, ok := t.staticLen(x.X); ok {
		if c, ok := t.constInt(x.Index); ok && 0 <= c && c < int64(n) {
			return fmt.Sprintf("(Go.getB %s %d)", base, c)
		}
	}
	return t.hoist(fmt.Sprintf("Go.idx? %s %s", base, t.expr(x.Index)))
}

func (t *tr) slice(x *ast.SliceExpr) string {
	if x.Slice3 {
		bail("three-index slice at %s", t.pos(x))
	}
	lt := t.ltOf(x.X)
	if lt.k != kBytes {
		bail("slice of %s at %s", t.typeOf(x.X), t.pos(x))
	}
	base := t.bytesArg(x.X)
	if n, ok := t.staticLen(x.X); ok {
		if x.Low == nil && x.High == nil {
			return base
		}
		lo, hi := int64(0), int64(n)
		okc := true
		if x.Low != nil {
			lo, okc = t.constInt(x.Low)
		}
		if okc && x.High != nil {
			hi, okc = t.constInt(x.High)
		}
		if okc && 0 <= lo && lo <= hi && hi <= int64(n) {
			return fmt.Sprintf("(Go.slice %s %d %d)", base, lo, hi)
		}
	}
	lo := "0"
	if x.Low != nil {
		lo = t.expr(x.Low)
	}
	hi := "(Go.len " + base + ")"
	if x.High != nil {
		hi = t.expr(x.High)
	}
	if x.Low == nil && x.High == nil {
		return base
	}
	return t.hoist(fmt.Sprintf("Go.slice? %s %s %s", base, lo, hi))
}

func (t *tr) composite(x *ast.CompositeLit) string {
	ty := t.typeOf(x)
	if isTimeTime(ty) && len(x.Elts) == 0 {
		return "0" // time.Time{}
	}
	lt := t.lt(ty, "composite literal at "+t.pos(x))
	switch lt.k {
	case kStruct:
		st := ty.Underlying().(*types.Struct)
		var sets []string
		for i, el := range x.Elts {
			var fname string
			var val ast.Expr
			if kv, ok := el.(*ast.KeyValueExpr); ok {
				fname = kv.Key.(*ast.Ident).Name
				val = kv.Value
			} else {
				fname = st.Field(i).Name()
				val = el
			}
			var ft types.Type
			for j := 0; j < st.NumFields(); j++ {
				if st.Field(j).Name() == fname {
					ft = st.Field(j).Type()
				}
			}
			flt := t.g.leanType(ft, true)
			if flt.k == kDrop {
				bail("composite literal sets field %s of untranslatable type %s at %s", fname, ft, t.pos(x))
			}
			sets = append(sets, leanField(fname)+" := "+t.exprAs(val, ft, true))
		}
		if len(sets) == 0 {
			return lt.st.lean + ".zero"
		}
		return "{ " + lt.st.lean + ".zero with " + strings.Join(sets, ", ") + " }"
	case kBytes:
		var els []string
		for _, el := range x.Elts {
			if _, ok := el.(*ast.KeyValueExpr); ok {
				bail("keyed array literal at %s", t.pos(x))
			}
			els = append(els, "Go.byte "+t.expr(el))
		}
		s := "([" + strings.Join(els, ", ") + "] : Go.Bytes)"
		if lt.arrLen >= 0 && len(els) < lt.arrLen {
			s = fmt.Sprintf("(%s ++ List.replicate %d 0)", s, lt.arrLen-len(els))
		}
		return s
	}
	bail("composite literal of %s at %s", ty, t.pos(x))
	return ""
}

// exprAs translates e for a destination of Go type dst (assignment, argument, result, field).
func (t *tr) exprAs(e ast.Expr, dst types.Type, inField bool) string {
	dlt := t.g.leanType(dst, inField)
	if dlt.k == kDrop {
		bail("destination type %s is not translatable at %s", dst, t.pos(e))
	}
	if t.isNil(e) {
		switch dlt.k {
		case kErr:
			return "none"
		case kOpaque:
			return "false"
		case kBytes:
			if dlt.arrLen < 0 {
				return "([] : Go.Bytes)"
			}
		case kList:
			return "[]"
		}
		bail("nil as a value of %s at %s", dst, t.pos(e))
	}
	if dlt.k == kOpaque {
		bail("a non-nil value of reference type %s is not representable at %s", dst, t.pos(e))
	}
	slt := t.g.leanType(t.typeOf(e), false)
	if slt.k != dlt.k || slt.lean != dlt.lean {
		bail("value of type %s used as %s: different representations at %s", t.typeOf(e), dst, t.pos(e))
	}
	return t.expr(e)
}

// ---------- calls ----------

func (t *tr) calleeFunc(fun ast.Expr) *types.Func {
	switch f := ast.Unparen(fun).(type) {
	case *ast.Ident:
		fn, _ := t.p.info.Uses[f].(*types.Func)
		return fn
	case *ast.SelectorExpr:
		if sel, ok := t.p.info.Selections[f]; ok {
			fn, _ := sel.Obj().(*types.Func)
			return fn
		}
		fn, _ := t.p.info.Uses[f.Sel].(*types.Func)
		return fn
	}
	return nil
}

// qualified name of an external callee, e.g. "encoding/binary.BigEndian.Uint16", "fmt.Errorf".
func (t *tr) externalName(fun ast.Expr) string {
	sel, ok := ast.Unparen(fun).(*ast.SelectorExpr)
	if !ok {
		return ""
	}
	switch x := sel.X.(type) {
	case *ast.Ident:
		if pn, ok := t.p.info.Uses[x].(*types.PkgName); ok {
			if strings.HasPrefix(pn.Imported().Path(), modPath) {
				return "" // a function of the repository: translated, not interpreted
			}
			return pn.Imported().Path() + "." + sel.Sel.Name
		}
	case *ast.SelectorExpr:
		if id, ok := x.X.(*ast.Ident); ok {
			if pn, ok := t.p.info.Uses[id].(*types.PkgName); ok {
				return pn.Imported().Path() + "." + x.Sel.Name + "." + sel.Sel.Name
			}
		}
	}
	return ""
}

func (t *tr) uintN(args []ast.Expr, n int, at ast.Node) string {
	if len(args) != 1 {
		bail("binary.BigEndian.Uint%d arity at %s", n*8, t.pos(at))
	}
	b := t.bytesArg(args[0])
	if sl, ok := t.staticLen(args[0]); ok && sl >= n {
		return fmt.Sprintf("(Go.beU%d %s)", n*8, b)
	}
	return t.hoist(fmt.Sprintf("Go.beU%d? %s", n*8, b))
}

func (t *tr) errorf(x *ast.CallExpr) string {
	if len(x.Args) == 0 {
		bail("fmt.Errorf without format at %s", t.pos(x))
	}
	tv := t.p.info.Types[x.Args[0]]
	if tv.Value == nil || tv.Value.Kind() != constant.String {
		bail("fmt.Errorf with a non-constant format at %s", t.pos(x))
	}
	format := constant.StringVal(tv.Value)
	// evaluate the arguments (for their panics), find the %w operand
	verbs := []byte{}
	for i := 0; i < len(format); i++ {
		if format[i] != '%' {
			continue
		}
		i++
		for i < len(format) && strings.IndexByte("+-# 0123456789.[]*", format[i]) >= 0 {
			if format[i] == '*' || format[i] == '[' {
				bail("fmt.Errorf with * or [n] in the format at %s", t.pos(x))
			}
			i++
		}
		if i < len(format) && format[i] != '%' {
			verbs = append(verbs, format[i])
		}
	}
	if len(verbs) != len(x.Args)-1 {
		bail("fmt.Errorf: %d verbs for %d operands at %s", len(verbs), len(x.Args)-1, t.pos(x))
	}
	res := ""
	for i, a := range x.Args[1:] {
		lt := t.ltOf(a)
		var s string
		if lt.k == kBytes {
			s = t.bytesArg(a)
		} else {
			s = t.expr(a)
		}
		if verbs[i] == 'w' {
			if lt.k != kErr {
				bail("%%w operand is not an error at %s", t.pos(x))
			}
			if res != "" {
				// several %w verbs: the FIRST operand identifies the error (the others are evaluated and dropped)
				continue
			}
			if !strings.HasPrefix(s, "(some \"") {
				// wrapping an error VALUE: identified by what it wraps (the format when it is nil)
				s = fmt.Sprintf("(Go.wrapErr %q %s)", format, s)
			}
			res = s
		}
	}
	if res == "" {
		res = fmt.Sprintf("(some %q)", format)
	}
	return res
}

// call translates a call expression. stmt: the call is an expression statement (result unused).
func (t *tr) call(x *ast.CallExpr, stmt bool) string {
	// conversions
	if tv, ok := t.p.info.Types[x.Fun]; ok && tv.IsType() {
		if len(x.Args) != 1 {
			bail("conversion arity at %s", t.pos(x))
		}
		return t.conversion(tv.Type, x.Args[0], x)
	}
	// builtins
	if id, ok := ast.Unparen(x.Fun).(*ast.Ident); ok {
		if _, isB := t.p.info.Uses[id].(*types.Builtin); isB {
			return t.builtin(id.Name, x)
		}
	}
	if s, ok := t.atomicCall(x); ok {
		return s
	}
	if name := t.calleeName(x); name != "" && ignoredCallee(name) {
		return t.ignoredCall(name, x, stmt)
	}
	if s, ok := t.paramCall(x, stmt); ok {
		return s
	}
	if name, ok := t.ioCallName(x); ok {
		return t.ioCall(name, x, stmt)
	}
	switch name := t.externalName(x.Fun); name {
	case "encoding/binary.BigEndian.Uint16":
		return t.uintN(x.Args, 2, x)
	case "encoding/binary.BigEndian.Uint32":
		return t.uintN(x.Args, 4, x)
	case "encoding/binary.BigEndian.Uint64":
		return t.uintN(x.Args, 8, x)
	case "encoding/binary.BigEndian.AppendUint16", "encoding/binary.BigEndian.AppendUint32", "encoding/binary.BigEndian.AppendUint64":
		bail("binary.BigEndian.AppendUintN outside `x = AppendUintN(x, v)` / return at %s", t.pos(x))
	case "errors.New":
		tv := t.p.info.Types[x.Args[0]]
		if tv.Value == nil || tv.Value.Kind() != constant.String {
			bail("errors.New with a non-constant message at %s", t.pos(x))
		}
		return fmt.Sprintf("(some %q)", constant.StringVal(tv.Value))
	case "fmt.Errorf":
		return t.errorf(x)
	case "":
	default:
		bail("call of %s at %s", name, t.pos(x))
	}
	if fn := t.calleeFunc(x.Fun); fn != nil && fn.FullName() == "(time.Time).Sub" && len(x.Args) == 1 {
		sel := ast.Unparen(x.Fun).(*ast.SelectorExpr)
		a := t.expr(sel.X)
		b := t.expr(x.Args[0])
		return "(" + a + " - " + b + ")" // saturation at ±2^63 ns is outside the model
	}
	if fn := t.calleeFunc(x.Fun); fn != nil && fn.FullName() == "(time.Time).Add" && len(x.Args) == 1 {
		sel := ast.Unparen(x.Fun).(*ast.SelectorExpr)
		a := t.expr(sel.X)
		b := t.expr(x.Args[0])
		return "(" + a + " + " + b + ")" // an instant plus a duration, both in nanoseconds (overflow outside the model)
	}
	fn := t.calleeFunc(x.Fun)
	if fn == nil {
		// a function value: only a function-valued struct field, as an effect (translate_eff.go)
		if name := t.calleeName(x); name != "" {
			if sig, ok := t.typeOf(x.Fun).Underlying().(*types.Signature); ok {
				return t.effectCall(name, x, sig, stmt)
			}
		}
		bail("call of a function value / unresolved callee at %s", t.pos(x))
	}
	sig := fn.Type().(*types.Signature)
	if sig.TypeParams() != nil && sig.TypeParams().Len() > 0 {
		bail("call of generic function %s at %s", fn.Name(), t.pos(x))
	}
	if sig.Variadic() {
		bail("call of variadic function %s at %s", fn.Name(), t.pos(x))
	}
	var args []string
	key, ok := keyOfFunc(fn)
	if !ok {
		bail("call of %s (outside the repository) at %s", fn.FullName(), t.pos(x))
	}
	if r := sig.Recv(); r != nil {
		sel := ast.Unparen(x.Fun).(*ast.SelectorExpr)
		rt := t.typeOf(sel.X)
		// interface receiver: devirtualise
		if _, isIface := rt.Underlying().(*types.Interface); isIface {
			n, isNamed := rt.(*types.Named)
			if !isNamed {
				bail("call through an unnamed interface at %s", t.pos(x))
			}
			rel, _ := relOf(n.Obj().Pkg())
			impl, ok := t.g.devirtOf(rel+"."+n.Obj().Name(), false)
			if !ok {
				// a method of an interface value: an effect (translate_eff.go)
				return t.effectCall(t.calleeName(x), x, sig, stmt)
			}
			key = impl + "." + fn.Name()
		}
		if asEffectCallee(key) {
			return t.effectCall(key, x, sig, stmt)
		}
		// promoted method through embedded fields
		recvExpr := t.expr(sel.X)
		if s, ok := t.p.info.Selections[sel]; ok && len(s.Index()) > 1 {
			recvExpr = t.fieldPath(recvExpr, rt, s.Index()[:len(s.Index())-1], x)
		}
		if rk := t.ltOf(sel.X).k; rk != kStruct {
			// a method of a named integer / boolean / byte-string type with a VALUE receiver gets the value
			_, ptrRecv := r.Type().Underlying().(*types.Pointer)
			if ptrRecv || (rk != kInt && rk != kBool && rk != kBytes) {
				bail("method call on a receiver that is not a translatable struct at %s", t.pos(x))
			}
		}
		args = append(args, recvExpr)
	}
	if asEffectCallee(key) && sig.Recv() == nil {
		return t.effectCall(key, x, sig, stmt)
	}
	callee := t.g.translate(key)
	if !callee.ok {
		bail("calls %s, which is not translatable (%s)", key, callee.why)
	}
	t.out.deps[callee.rel] = true
	var backTo []*types.Var // the caller's variables that receive the in-out values back, in callee.inout order
	for i, a := range x.Args {
		if i < len(callee.dropParam) && callee.dropParam[i] {
			t.harmless(a, "an argument for an opaque parameter") // nothing is handed over
			continue
		}
		isInout := false
		for _, j := range callee.inout {
			isInout = isInout || j == i
		}
		if isInout {
			s, v := t.inoutArg(a, sig.Params().At(i).Type())
			for _, w := range backTo {
				if w == v {
					bail("the same variable is handed over twice as an in-out argument at %s", t.pos(x))
				}
			}
			backTo = append(backTo, v)
			args = append(args, s)
			continue
		}
		args = append(args, t.argFor(a, sig.Params().At(i).Type()))
	}
	if callee.eff {
		return t.effCalleeCall(callee, x, sig, args, backTo)
	}
	if len(callee.inout) > 0 {
		bail("internal: in-out parameters on a pure callee at %s", t.pos(x))
	}
	if sig.Recv() != nil {
		t.mergeCallee(callee, ast.Unparen(x.Fun).(*ast.SelectorExpr).X)
	}
	s := "(" + callee.lean + " " + strings.Join(args, " ") + ")"
	if len(args) == 0 {
		s = callee.lean
	}
	if callee.partial {
		return t.hoist(s)
	}
	return s
}

func (t *tr) argFor(a ast.Expr, pt types.Type) string {
	s := t.exprAs(a, pt, false)
	if !strings.HasPrefix(s, "(") && strings.ContainsAny(s, " ") {
		s = "(" + s + ")"
	}
	if strings.HasPrefix(s, "-") {
		s = "(" + s + ")"
	}
	return s
}

func (t *tr) conversion(to types.Type, arg ast.Expr, at ast.Node) string {
	dlt := t.lt(to, "conversion at "+t.pos(at))
	if t.isNil(arg) {
		if dlt.k == kBytes && dlt.arrLen < 0 {
			return "([] : Go.Bytes)"
		}
		bail("conversion of nil to %s at %s", to, t.pos(at))
	}
	if dlt.k == kInt && isFloat(t.typeOf(arg)) {
		return t.floatToInt(to, arg, at) // an oracle value (translate_io.go)
	}
	slt := t.ltOf(arg)
	switch {
	case dlt.k == kInt && slt.k == kInt:
		return convInt(intInfo(t.typeOf(arg)), intInfo(to), t.expr(arg))
	case dlt.k == kBytes && slt.k == kBytes:
		if dlt.arrLen >= 0 {
			// slice -> array
			if n, ok := t.staticLen(arg); ok && n >= dlt.arrLen {
				if n == dlt.arrLen {
					return t.bytesArg(arg)
				}
				return fmt.Sprintf("(Go.slice %s 0 %d)", t.bytesArg(arg), dlt.arrLen)
			}
			return t.hoist(fmt.Sprintf("Go.toArray? %d %s", dlt.arrLen, t.bytesArg(arg)))
		}
		if slt.arrLen >= 0 {
			bail("conversion of an array to a slice type at %s", t.pos(at))
		}
		// string <-> []byte: a copy in Go, the same value here
		return t.bytesArg(arg)
	case dlt.k == kStruct && slt.k == kStruct && dlt.lean == slt.lean:
		return t.expr(arg)
	}
	bail("conversion from %s to %s at %s", t.typeOf(arg), to, t.pos(at))
	return ""
}

func (t *tr) builtin(name string, x *ast.CallExpr) string {
	switch name {
	case "len":
		if t.ltOf(x.Args[0]).k == kList {
			return "(Go.lenL " + t.expr(x.Args[0]) + ")"
		}
		if t.ltOf(x.Args[0]).k != kBytes {
			bail("len of %s at %s", t.typeOf(x.Args[0]), t.pos(x))
		}
		return "(Go.len " + t.bytesArg(x.Args[0]) + ")"
	case "min", "max":
		if len(x.Args) < 1 || t.ltOf(x.Args[0]).k != kInt {
			bail("%s on non-integers at %s", name, t.pos(x))
		}
		s := t.expr(x.Args[0])
		for _, a := range x.Args[1:] {
			s = "(" + name + " " + s + " " + t.expr(a) + ")"
		}
		return s
	case "make":
		if t.ltOf(x).k != kBytes || len(x.Args) < 2 {
			bail("make of %s at %s", t.typeOf(x), t.pos(x))
		}
		n := t.expr(x.Args[1])
		c := n
		if len(x.Args) == 3 {
			c = t.expr(x.Args[2])
		}
		if cn, ok := t.constInt(x.Args[1]); ok && cn >= 0 && len(x.Args) == 2 {
			return fmt.Sprintf("(List.replicate %d (0 : UInt8))", cn)
		}
		return t.hoist(fmt.Sprintf("Go.make? %s %s", n, c))
	case "append":
		bail("append outside `x = append(x, …)` / `x := append(<fresh>, …)` / `return append(x, …)` at %s", t.pos(x))
	case "panic":
		bail("panic in expression position at %s", t.pos(x))
	}
	bail("builtin %s at %s", name, t.pos(x))
	return ""
}

// isFreshBytes: an expression that denotes newly allocated (or no) memory.
func (t *tr) isFreshBytes(e ast.Expr) bool {
	e = ast.Unparen(e)
	if t.isNil(e) {
		return true
	}
	switch x := e.(type) {
	case *ast.CompositeLit:
		return true
	case *ast.CallExpr:
		if tv, ok := t.p.info.Types[x.Fun]; ok && tv.IsType() && len(x.Args) == 1 {
			return t.isNil(x.Args[0])
		}
		if id, ok := ast.Unparen(x.Fun).(*ast.Ident); ok {
			if _, isB := t.p.info.Uses[id].(*types.Builtin); isB {
				switch id.Name {
				case "make":
					return true
				case "append":
					return t.isFreshBytes(x.Args[0])
				}
			}
		}
		if _, isAlloc := allocators[t.calleeName(x)]; isAlloc {
			return true
		}
	case *ast.Ident:
		if v := t.varOf(x); v != nil {
			return t.fresh[v]
		}
	}
	return false
}

// appendCall translates append(base, …) / binary.BigEndian.AppendUintN(base, v); the caller has checked
// that the result replaces base (or is returned).
func (t *tr) appendCall(x *ast.CallExpr) (string, bool) {
	if id, ok := ast.Unparen(x.Fun).(*ast.Ident); ok && id.Name == "append" {
		if _, isB := t.p.info.Uses[id].(*types.Builtin); !isB {
			return "", false
		}
		if t.ltOf(x).k != kBytes {
			bail("append to %s at %s", t.typeOf(x), t.pos(x))
		}
		base := t.appendBase(x.Args[0])
		if x.Ellipsis.IsValid() {
			if len(x.Args) != 2 || t.ltOf(x.Args[1]).k != kBytes {
				bail("append(x, y...) with y not a byte string at %s", t.pos(x))
			}
			return "(" + base + " ++ " + t.bytesArg(x.Args[1]) + ")", true
		}
		var els []string
		for _, a := range x.Args[1:] {
			els = append(els, "Go.byte "+t.expr(a))
		}
		return "(" + base + " ++ [" + strings.Join(els, ", ") + "])", true
	}
	switch t.externalName(x.Fun) {
	case "encoding/binary.BigEndian.AppendUint16":
		return "(" + t.appendBase(x.Args[0]) + " ++ Go.be16 " + t.expr(x.Args[1]) + ")", true
	case "encoding/binary.BigEndian.AppendUint32":
		return "(" + t.appendBase(x.Args[0]) + " ++ Go.be32 " + t.expr(x.Args[1]) + ")", true
	case "encoding/binary.BigEndian.AppendUint64":
		return "(" + t.appendBase(x.Args[0]) + " ++ Go.be64 " + t.expr(x.Args[1]) + ")", true
	}
	return "", false
}

func (t *tr) appendBase(e ast.Expr) string {
	if t.isNil(e) {
		return "([] : Go.Bytes)"
	}
	if c, ok := ast.Unparen(e).(*ast.CallExpr); ok {
		if s, ok := t.appendCall(c); ok {
			return s
		}
	}
	return t.bytesArg(e)
}

// appendTarget: the variable (if any) that append's first argument names.
func (t *tr) appendTarget(x *ast.CallExpr) (*types.Var, bool) {
	a := ast.Unparen(x.Args[0])
	if t.isFreshBytes(a) {
		if id, ok := a.(*ast.Ident); ok {
			return t.varOf(id), true
		}
		return nil, true
	}
	if id, ok := a.(*ast.Ident); ok {
		return t.varOf(id), true
	}
	return nil, false
}
