// emit.go: which functions are translated, and how the results are laid out in lean/GoSecs/Gen.
package main

import (
	"fmt"
	"os"
	"path/filepath"
	"sort"
	"strings"
)

// legacyFuncs go to Funcs.lean, which the model driver links (keep this file small and stable).
var legacyFuncs = []string{
	"secs2.headerLen",
	"secs2.clampInt64",
	"secs2.clampUint64",
	"hsms.transition",
	"hsms.IsValidSType",
	"hsmsss.linktestFailureStep",
	"hsmsss.linktestDisconnectRecheck",
}

// targets: every function a `_gen` theorem is stated about (their callees are translated on demand).
var targets = []string{
	// secs1: block header packing / extraction, checksum, wire form, parse, split (C17, C18)
	"secs1.buildHeader",
	"secs1.block.deviceID", "secs1.block.rBit", "secs1.block.stream", "secs1.block.waitBit", "secs1.block.function",
	"secs1.block.blockNumber", "secs1.block.eBit", "secs1.block.systemBytes", "secs1.block.messageHeader",
	"secs1.block.appendTo", "secs1.parseBlock", "secs1.splitBody", "secs1.assembleFrame",
	// internal/wire: the body views the above go through
	"internal/wire.ChunkOf", "internal/wire.Chunk.Len", "internal/wire.Chunk.AppendTo", "internal/wire.chunkView",
	"internal/wire.AdoptBody", "internal/wire.rawFrameBody.Len", "internal/wire.rawFrameBody.AppendTo", "internal/wire.rawFrameBody.Chunk",
	// hsms: header accessors, serialisation, control-message construction, reply classification (C03, C04, C06, C08)
	"hsms.DataMessage.SessionID", "hsms.DataMessage.SystemBytes", "hsms.DataMessage.HeaderBytes", "hsms.DataMessage.Stream",
	"hsms.DataMessage.Function", "hsms.DataMessage.WaitBit", "hsms.DataMessage.ID", "hsms.DataMessage.ToBytes",
	"hsms.isSecondaryReply", "hsms.ToSystemBytes", "hsms.FromSystemBytes", "hsms.kindOf",
	"hsms.ControlMessage.Type", "hsms.ControlMessage.SessionID", "hsms.ControlMessage.SystemBytes", "hsms.ControlMessage.HeaderBytes",
	"hsms.ControlMessage.ToBytes", "hsms.ControlMessage.WaitBit", "hsms.ControlMessage.ID",
	"hsms.ControlMessage.WithSessionID", "hsms.ControlMessage.WithSystemBytes",
	"hsms.NewSelectReq", "hsms.NewSelectRsp", "hsms.NewDeselectReq", "hsms.NewDeselectRsp", "hsms.NewLinktestReq", "hsms.NewLinktestRsp",
	"hsms.NewSeparateReq", "hsms.NewRejectReqRaw",
	// secs2: item header composition and EncodedLen arithmetic (C01, C02)
	"secs2.appendHeaderBytesFC",
	"secs2.ASCIIItem.EncodedLen", "secs2.JIS8Item.EncodedLen", "secs2.BinaryItem.EncodedLen", "secs2.BooleanItem.EncodedLen",
	"secs2.LocalizedStrItem.EncodedLen", "secs2.IntItem.EncodedLen", "secs2.UintItem.EncodedLen", "secs2.FloatItem.EncodedLen",
	"secs2.LocalizedStrItem.Size",
	// windows (see translate_stmt.go): length gates of the frame decoders / the stream reader (C03, C04), the item
	// header parse of the SECS-II decoder (C02)
	"hsms.DecodeHSMSMessage#guards", "hsms.DecodeHSMSPayload#guards", "hsmsss.transport.readFrame#lengthGate",
	"secs2.decodeItem#header",
	// sml: error positions and scanner helpers (C14)
	"sml.newParseError", "sml.Parser.checkASCIICloseQuote", "sml.toUpperRune", "sml.getIntFormatCode",
	// EFFECT MODE (translate_eff.go): the supervisor's per-goroutine code (C05)
	"hsms.fsmEvent.withTag", "hsms.fsmEvent.split",
	"hsms.supervisor.step", "hsms.supervisor.fireTransition", "hsms.supervisor.resolveCloseTimeout",
	"hsms.supervisor.CommitConnected", "hsms.supervisor.CommitSelected", "hsms.supervisor.CommitSelectLost",
	"hsms.supervisor.injectDisconnect", "hsms.supervisor.injectT7Timeout", "hsms.supervisor.State",
	// EFFECT MODE: the HSMS-SS receive-side dispatcher and responders (C08)
	"hsmsss.transport.dispatchFrame", "hsmsss.transport.handleControlReq", "hsmsss.transport.handleSelectReq",
	"hsmsss.transport.handleDeselectReq", "hsmsss.transport.handleLinktestReq", "hsmsss.transport.handleSeparateReq",
	"hsmsss.transport.sendReject", "hsmsss.transport.sendRejectNotSelected", "hsmsss.transport.sendRejectTransactionNotOpen",
	"hsmsss.selectStatus",
	// EFFECT MODE: the SECS-I inbound assembler (C17)
	"secs1.assembler.accept", "secs1.assembler.beginMessage", "secs1.assembler.startMessage",
	"secs1.assembler.appendBlock", "secs1.assembler.complete", "secs1.assembler.reset", "secs1.assembler.report",
	// EFFECT MODE + I/O (translate_io.go): the SECS-I line engine (C18, C17) and the HSMS-SS frame reader (C04)
	"secs1.lineIO.readByte", "secs1.lineIO.readFull", "secs1.lineIO.writeByte", "secs1.lineIO.writeAll",
	"secs1.lineIO.drainUntilSilence", "secs1.lineIO.receiveBlock",
	"secs1.lineIO.sendBlockData", "secs1.lineIO.sendBlockOnce", "secs1.lineIO.sendBlock",
	"hsmsss.readN", "hsmsss.transport.readFrame",
	// the reconnect backoff's clamp, the float product as an oracle value (C11)
	"hsms.nextBackoffDelay",
}

// probes are known to be outside the subset; they are attempted on every run so that status.json records
// the construct that keeps each of them out (and so that a refactoring which makes one translatable shows up).
var probes = []string{
	"hsms.supervisor.run", "hsms.supervisor.emit", "hsms.supervisor.requestClose", "hsms.DecodeHSMSMessage", "hsms.decodeOwnedFrame", "hsms.NewDataMessage",
	"hsms.replyRegistry.route", "hsmsss.transport.recvLoop", "secs2.decodeItem",
	"secs2.ListItem.EncodedLen", "secs1.newAssembler", "sml.Parser.skipSpace",
}

func fileOfRel(rel string) string {
	base := rel[strings.LastIndex(rel, "/")+1:]
	return strings.ToUpper(base[:1]) + base[1:]
}

func emitFunctions(out string, status map[string]string) {
	g := newG()
	for _, k := range legacyFuncs {
		g.legacy[k] = true
	}
	for _, k := range append(append([]string{}, legacyFuncs...), targets...) {
		o := g.translate(k)
		if o.ok {
			status[k] = "ok"
		} else {
			status[k] = "untranslatable: " + o.why
		}
	}
	for _, k := range probes {
		o := g.translate(k)
		if o.ok {
			status[k] = "ok (probe: now translatable)"
		} else {
			status[k] = "outside the subset (expected): " + o.why
		}
	}
	// callees translated on demand are recorded too
	for _, k := range g.order {
		if _, ok := status[k]; !ok {
			status[k] = "ok"
		}
	}

	header := "-- GENERATED by tools/go2lean from /repo's working tree. Do not edit.\n"

	// Funcs.lean: the legacy set, no structures
	var fs strings.Builder
	fs.WriteString(header + "import GoSecs.GoPrelude\nset_option linter.unusedVariables false\nnamespace GoSecs.Gen\n\n")
	for _, k := range legacyFuncs {
		o := g.fns[k]
		if o != nil && o.ok {
			fs.WriteString(o.text)
		} else {
			why := "not found"
			if o != nil {
				why = o.why
			}
			fmt.Fprintf(&fs, "-- UNTRANSLATABLE %s: %s\n\n", k, why)
		}
	}
	fs.WriteString("end GoSecs.Gen\n")
	must(os.WriteFile(filepath.Join(out, "Funcs.lean"), []byte(fs.String()), 0o644))

	// per-package files
	type file struct {
		rel     string
		structs []*structInfo
		fns     []*fnOut
		imports map[string]bool
		notes   []string
	}
	files := map[string]*file{}
	get := func(rel string) *file {
		f, ok := files[rel]
		if !ok {
			f = &file{rel: rel, imports: map[string]bool{}}
			files[rel] = f
		}
		return f
	}
	// only structures that an emitted function (or an emitted structure) mentions are emitted
	needed := map[string]bool{}
	mentions := func(text string) {
		for changed := true; changed; {
			changed = false
			for _, k := range g.structOrd {
				si := g.structs[k]
				if !needed[k] && containsIdent(text, si.lean) {
					needed[k] = true
					changed = true
					for _, sf := range si.fields {
						if sf.lt.k == kStruct {
							text += " " + sf.lt.lean
						}
					}
				}
			}
		}
	}
	for _, k := range g.order {
		mentions(g.fns[k].text)
	}
	ofValsNeeded := map[string]bool{}
	for changed := true; changed; {
		changed = false
		for _, k := range g.structOrd {
			si := g.structs[k]
			if ofValsNeeded[k] {
				continue
			}
			want := false
			for _, fk := range g.order {
				if strings.Contains(g.fns[fk].text, si.lean+".ofVals ") {
					want = true
				}
			}
			for _, k2 := range g.structOrd {
				if ofValsNeeded[k2] {
					for _, sf := range g.structs[k2].fields {
						if sf.lt.k == kStruct && sf.lt.st == si {
							want = true
						}
					}
				}
			}
			if want {
				ofValsNeeded[k] = true
				changed = true
			}
		}
	}
	toValsNeeded := map[string]bool{}
	for changed := true; changed; {
		changed = false
		for _, k := range g.structOrd {
			si := g.structs[k]
			if toValsNeeded[k] {
				continue
			}
			want := false
			for _, fk := range g.order {
				if strings.Contains(g.fns[fk].text, si.lean+".toVals ") {
					want = true
				}
			}
			for _, k2 := range g.structOrd {
				if toValsNeeded[k2] {
					for _, sf := range g.structs[k2].fields {
						if sf.lt.k == kStruct && sf.lt.st == si {
							want = true
						}
					}
				}
			}
			if want {
				toValsNeeded[k] = true
				changed = true
			}
		}
	}
	for _, k := range g.structOrd {
		si := g.structs[k]
		if !needed[k] {
			continue
		}
		f := get(si.rel)
		f.structs = append(f.structs, si)
		for _, sf := range si.fields {
			if sf.lt.k == kStruct && sf.lt.st.rel != si.rel {
				f.imports[sf.lt.st.rel] = true
			}
		}
	}
	for _, k := range g.order {
		o := g.fns[k]
		if g.legacy[k] {
			continue
		}
		f := get(o.rel)
		f.fns = append(f.fns, o)
		for d := range o.deps {
			if d != o.rel {
				f.imports[d] = true
			}
		}
	}
	for _, k := range targets {
		if o := g.fns[k]; o != nil && !o.ok {
			f := get(o.rel)
			f.notes = append(f.notes, fmt.Sprintf("-- UNTRANSLATABLE %s: %s", k, o.why))
		}
	}
	var rels []string
	for r := range files {
		rels = append(rels, r)
	}
	sort.Strings(rels)
	// the import graph between the generated files must be acyclic
	state := map[string]int{}
	var visit func(r string)
	visit = func(r string) {
		switch state[r] {
		case 1:
			fmt.Fprintln(os.Stderr, "go2lean: cyclic dependency between generated files at", r)
			os.Exit(1)
		case 2:
			return
		}
		state[r] = 1
		if f, ok := files[r]; ok {
			var imps []string
			for i := range f.imports {
				imps = append(imps, i)
			}
			sort.Strings(imps)
			for _, i := range imps {
				visit(i)
			}
		}
		state[r] = 2
	}
	for _, r := range rels {
		visit(r)
	}
	for _, r := range rels {
		f := files[r]
		var sb strings.Builder
		sb.WriteString(header + "import GoSecs.GoPrelude\nimport GoSecs.Gen.Funcs\n")
		var imps []string
		for i := range f.imports {
			if _, ok := files[i]; ok {
				imps = append(imps, i)
			}
		}
		sort.Strings(imps)
		for _, i := range imps {
			fmt.Fprintf(&sb, "import GoSecs.Gen.%s\n", fileOfRel(i))
		}
		hasEff := false
		for _, o := range f.fns {
			hasEff = hasEff || o.eff
		}
		if hasEff {
			sb.WriteString(effectTablesDoc())
		}
		fmt.Fprintf(&sb, "set_option linter.unusedVariables false\nnamespace GoSecs.Gen\n\n-- package %s\n\n", r)
		for _, si := range f.structs {
			fmt.Fprintf(&sb, "/-- Go struct %s (fields of untranslatable type are omitted; reference fields are `Bool` = non-nil) -/\n", si.key)
			fmt.Fprintf(&sb, "structure %s where\n", si.lean)
			var zs []string
			for _, sf := range si.fields {
				fmt.Fprintf(&sb, "  %s : %s\n", leanField(sf.goName), sf.lt.lean)
				zs = append(zs, leanField(sf.goName)+" := "+zeroOf(sf.lt))
			}
			sb.WriteString("  deriving DecidableEq, Repr, Inhabited\n\n")
			fmt.Fprintf(&sb, "/-- the zero value of %s -/\ndef %s.zero : %s := { %s }\n\n", si.key, si.lean, si.lean, strings.Join(zs, ", "))
			if toValsNeeded[si.key] {
				var vs []string
				for _, sf := range si.fields {
					fn := "x." + leanField(sf.goName)
					switch sf.lt.k {
					case kInt:
						vs = append(vs, "[.int "+fn+"]")
					case kBool:
						vs = append(vs, "[.bool "+fn+"]")
					case kBytes:
						vs = append(vs, "[.bytes "+fn+"]")
					case kErr:
						vs = append(vs, "[.err "+fn+"]")
					case kStruct:
						vs = append(vs, sf.lt.st.lean+".toVals "+fn)
					default:
						vs = append(vs, "[.opaque]")
					}
				}
				fmt.Fprintf(&sb, "/-- %s as effect-argument values: its fields in order (a nested struct contributes its own) -/\ndef %s.toVals (x : %s) : List Go.Val := %s\n\n", si.key, si.lean, si.lean, joinVals(vs))
			}
			if ofValsNeeded[si.key] {
				// the inverse direction: a struct-valued oracle result reads its leaves off the oracle list
				body := ""
				var sets []string
				for _, sf := range si.fields {
					fn := leanField(sf.goName)
					switch sf.lt.k {
					case kInt:
						body += fmt.Sprintf("  let %s := (Go.orc o).asInt\n  let o := o.tail\n", fn)
					case kBool, kOpaque:
						body += fmt.Sprintf("  let %s := (Go.orc o).asBool\n  let o := o.tail\n", fn)
					case kBytes:
						body += fmt.Sprintf("  let %s := (Go.orc o).asBytes\n  let o := o.tail\n", fn)
					case kErr:
						body += fmt.Sprintf("  let %s := (Go.orc o).asErr\n  let o := o.tail\n", fn)
					case kStruct:
						body += fmt.Sprintf("  let (%s, o) := %s.ofVals o\n", fn, sf.lt.st.lean)
					default:
						body += fmt.Sprintf("  let %s := %s\n", fn, zeroOf(sf.lt))
					}
					sets = append(sets, fn+" := "+fn)
				}
				fmt.Fprintf(&sb, "/-- %s as a struct-valued oracle result: its fields in order off the oracle list -/\ndef %s.ofVals (o : List Go.Val) : %s × List Go.Val :=\n%s  ({ %s }, o)\n\n", si.key, si.lean, si.lean, body, strings.Join(sets, ", "))
			}
		}
		for _, o := range f.fns {
			sb.WriteString(o.text)
		}
		for _, n := range f.notes {
			sb.WriteString(n + "\n\n")
		}
		sb.WriteString("end GoSecs.Gen\n")
		must(os.WriteFile(filepath.Join(out, fileOfRel(r)+".lean"), []byte(sb.String()), 0o644))
	}
}

// containsIdent: name occurs in text as a whole identifier (not as a prefix of a longer one).
func containsIdent(text, name string) bool {
	isIdent := func(c byte) bool {
		return c == '_' || c >= '0' && c <= '9' || c >= 'a' && c <= 'z' || c >= 'A' && c <= 'Z'
	}
	for i := 0; ; {
		j := strings.Index(text[i:], name)
		if j < 0 {
			return false
		}
		end := i + j + len(name)
		if end >= len(text) || !isIdent(text[end]) {
			return true
		}
		i = end
	}
}
