// translate_io.go: the I/O part of the effect discipline (see "I/O: readers, writers, deadlines, clocks" in the subset
// description at the top of translate.go): calls on objects OUTSIDE the repository (net.Conn, *bufio.Reader,
// context.Context) as effects with oracle results, `Read(p)` as an oracle-fed copy into p, opaque (interface- and
// function-typed) parameters, in-out parameters (`*bool`, a []byte a reader fills), the non-blocking context poll,
// and the loop fuel as a parameter.
package main

import (
	"fmt"
	"go/ast"
	"go/token"
	"go/types"
	"sort"
	"strings"
)

// ---------- the tables (part of the trusted-base description; printed in the header of the generated files) ----------

// foreignEffects: methods of types OUTSIDE the repository whose calls are recorded as `Effect.call "<key>" args`, results
// (when used) from the oracle list — exactly like a method of an interface value of the repository. The receiver
// expression must be something the translation holds no value for (a reference field, an opaque parameter). The
// value says what the call is, for the reader of a theorem that mentions the effect.
var foreignEffects = map[string]string{
	"net.Conn.SetReadDeadline": "sets the absolute deadline of later Reads (argument: the instant; 0 = time.Time{} = no deadline); result: error",
	"net.Conn.Write":           "writes the bytes of the argument; results: n, error (the oracle's n is NOT constrained to 0..len)",
	"bufio.Reader.ReadByte":    "one byte from the connection's reader; results: byte (wrapped to 0..255), error",
	"context.Context.Err":      "the context's error (non-nil once cancelled); result: error",
}

// readInto: `n, err := r.Read(p)` for these callees is a READ INTO p: the trace gets `Effect.call "<key>" [.int len(p)]`,
// the oracle supplies TWO values, `.bytes data` and `.err e`; the call stores data.take(len p) at the front of p
// (exactly like `n = copy(p, data)`), n is the number of bytes stored, err is e. This is the io.Reader contract
// (0 <= n <= len(p), bytes arrive in p[:n]) plus ONE assumption: p[n:] is left unchanged (io.Reader permits a reader to
// use all of p as scratch space; the translated callers overwrite or drop those bytes before reading them).
var readInto = map[string]string{
	"net.Conn.Read":     "Read on the connection",
	"bufio.Reader.Read": "Read on the connection's buffered reader",
}

// allocators: function-valued fields whose []byte result is taken to be memory that no other name in the translated
// function refers to (so it may be written through, e.g. filled by a reader).
var allocators = map[string]string{
	"hsmsss.transport.allocFrame": "the frame allocator (production value makeFrame = make([]byte, n))",
}

// fuelFuncs: functions whose loops without an evident trip count take their fuel from a PARAMETER `fuel_ : Nat`
// (placed after the Go parameters, before `orc_`) instead of the constant loopFuel; a function that calls one of them
// (or, transitively, such a caller) gets the parameter too and passes it on unchanged. `none` still means "a panic, OR
// some loop was still running after fuel_ iterations"; the tie theorems prove `= some _` for every fuel_ above a bound
// computed from the oracle script.
var fuelFuncs = map[string]bool{
	"hsmsss.readN":                   true,
	"secs1.lineIO.readFull":          true,
	"secs1.lineIO.writeAll":          true,
	"secs1.lineIO.drainUntilSilence": true,
	"secs1.lineIO.sendBlockOnce":     true,
	"secs1.lineIO.sendBlock":         true,
}

// ctxPollEffect: the trace entry of `select { case <-ctx.Done(): A; default: B }` (ctx of type context.Context): one
// oracle Bool is consumed, true = the Done channel is ready (the context is cancelled): A runs, otherwise B.
const ctxPollEffect = "context.Context.Done.poll"

func ioTablesDoc() string {
	var sb strings.Builder
	keys := func(m map[string]string) []string {
		var ks []string
		for k := range m {
			ks = append(ks, k)
		}
		sort.Strings(ks)
		return ks
	}
	sb.WriteString("-- I/O (tools/go2lean/translate_io.go): foreign methods recorded as `Effect.call`, results from the oracle list:\n")
	for _, k := range keys(foreignEffects) {
		sb.WriteString("--   " + k + ": " + foreignEffects[k] + "\n")
	}
	sb.WriteString("-- READ INTO p (`Effect.call key [.int len(p)]`; oracle: .bytes data, .err e; p[:n] := data.take(len p), n = its length; p[n:] unchanged):\n")
	for _, k := range keys(readInto) {
		sb.WriteString("--   " + k + ": " + readInto[k] + "\n")
	}
	sb.WriteString("-- allocators (their []byte result is unaliased memory):\n")
	for _, k := range keys(allocators) {
		sb.WriteString("--   " + k + ": " + allocators[k] + "\n")
	}
	sb.WriteString("-- `select { case <-ctx.Done(): A; default: B }` = `Effect.call \"" + ctxPollEffect + "\" []` + one oracle Bool (true: A).\n")
	sb.WriteString("-- `T(<float expression>)`, T an integer type = `Effect.call \"" + floatToIntEffect + "\" [.opaque]` + one oracle Int (floats are not represented).\n")
	var fs []string
	for k := range fuelFuncs {
		fs = append(fs, k)
	}
	sort.Strings(fs)
	sb.WriteString("-- loop fuel as a parameter `fuel_` (and in every function that calls one of these): " + strings.Join(fs, ", ") + "\n")
	return sb.String()
}

// ---------- parameters ----------

// scanParams classifies the parameters before anything is translated: opaque (interface / function type: dropped from
// the Lean signature) and in-out through a pointer to a boolean / integer.
func (t *tr) scanParams(sig *types.Signature) {
	t.opaqueParams = map[*types.Var]bool{}
	t.inoutSet = map[*types.Var]bool{}
	for i := 0; i < sig.Params().Len(); i++ {
		v := sig.Params().At(i)
		if isFloat(v.Type()) {
			t.opaqueParams[v] = true // floats are not represented: only ever part of a dropped float expression
			continue
		}
		switch u := v.Type().Underlying().(type) {
		case *types.Interface, *types.Signature:
			// (an interface with a devirtualisation entry is a value, and so is error)
			if t.g.leanType(v.Type(), false).k == kOpaque {
				t.opaqueParams[v] = true
			}
		case *types.Pointer:
			if b, ok := u.Elem().Underlying().(*types.Basic); ok && b.Info()&(types.IsBoolean|types.IsInteger) != 0 {
				t.inoutSet[v] = true
			}
		}
	}
}

// inoutPtr: v is an in-out parameter of pointer type (`*p` reads it, `*p = x` writes it).
func (t *tr) inoutPtr(v *types.Var) bool {
	if v == nil || !t.inoutSet[v] {
		return false
	}
	_, isPtr := v.Type().Underlying().(*types.Pointer)
	return isPtr
}

// inoutElem: the Go type of the value an in-out parameter carries.
func inoutElem(v *types.Var) types.Type {
	if p, ok := v.Type().Underlying().(*types.Pointer); ok {
		return p.Elem()
	}
	return v.Type()
}

// inoutParams: the in-out parameters in declaration order, with their Go parameter index.
func (t *tr) inoutParams() (vs []*types.Var, idx []int) {
	sig := t.p.info.Defs[t.fd.Name].(*types.Func).Type().(*types.Signature)
	for i := 0; i < sig.Params().Len(); i++ {
		if v := sig.Params().At(i); t.inoutSet[v] {
			vs = append(vs, v)
			idx = append(idx, i)
		}
	}
	return
}

// ---------- calls ----------

// ioCallName: x is a call of a foreignEffects / readInto callee; its key.
func (t *tr) ioCallName(x *ast.CallExpr) (string, bool) {
	sel, ok := ast.Unparen(x.Fun).(*ast.SelectorExpr)
	if !ok {
		return "", false
	}
	if _, ok := t.p.info.Selections[sel]; !ok {
		return "", false
	}
	fn := t.calleeFunc(x.Fun)
	if fn == nil {
		return "", false
	}
	if _, inRepo := relOf(fn.Pkg()); inRepo {
		return "", false
	}
	name := t.calleeName(x)
	if _, ok := foreignEffects[name]; ok {
		return name, true
	}
	if _, ok := readInto[name]; ok {
		return name, true
	}
	return "", false
}

// readIntoDst: x is a READ INTO call; its destination expression.
func (t *tr) readIntoDst(x *ast.CallExpr) ast.Expr {
	if name, ok := t.ioCallName(x); ok {
		if _, isRead := readInto[name]; isRead && len(x.Args) == 1 {
			return x.Args[0]
		}
	}
	return nil
}

// inoutArgsOf: for a call of a translated repository function with in-out parameters, the argument expressions that
// are handed over in-out (nil otherwise). Only called for calls that pass `&x` or a byte slice rooted at a local.
func (t *tr) inoutArgsOf(x *ast.CallExpr) []ast.Expr {
	fn := t.calleeFunc(x.Fun)
	if fn == nil {
		return nil
	}
	key, ok := keyOfFunc(fn)
	if !ok || asEffectCallee(key) || key == t.key {
		return nil
	}
	cand := false
	for _, a := range x.Args {
		a = ast.Unparen(a)
		if u, ok := a.(*ast.UnaryExpr); ok && u.Op == token.AND {
			cand = true
		}
		if v := t.rootVar(a); v != nil && t.isLocal(v) {
			if tv, ok := t.p.info.Types[a]; ok && tv.Type != nil {
				if _, isSl := tv.Type.Underlying().(*types.Slice); isSl {
					cand = true
				}
				if _, isPtr := tv.Type.Underlying().(*types.Pointer); isPtr && t.inoutSet[v] {
					cand = true
				}
			}
		}
	}
	if !cand {
		return nil
	}
	sig := fn.Type().(*types.Signature)
	if r := sig.Recv(); r != nil {
		if _, isIface := r.Type().Underlying().(*types.Interface); isIface {
			return nil
		}
	}
	callee := t.g.translate(key)
	if !callee.ok {
		return nil
	}
	var out []ast.Expr
	for _, i := range callee.inout {
		if i < len(x.Args) {
			out = append(out, x.Args[i])
		}
	}
	return out
}

// writtenByCall: the lvalues a call writes behind an ordinary-looking argument list: the destination of a READ INTO
// call, the in-out arguments of a translated callee (`&x` counts as x).
func (t *tr) writtenByCall(x *ast.CallExpr) []ast.Expr {
	if d := t.readIntoDst(x); d != nil {
		return []ast.Expr{d}
	}
	var out []ast.Expr
	for _, a := range t.inoutArgsOf(x) {
		a = ast.Unparen(a)
		if u, ok := a.(*ast.UnaryExpr); ok && u.Op == token.AND {
			a = u.X
		}
		out = append(out, a)
	}
	return out
}

// ioCall: a foreignEffects / readInto call.
func (t *tr) ioCall(name string, x *ast.CallExpr, stmt bool) string {
	fn := t.calleeFunc(x.Fun)
	sig := fn.Type().(*types.Signature)
	if _, isRead := readInto[name]; !isRead {
		t.wrapOrc = true
		defer func() { t.wrapOrc = false }()
		return t.effectCall(name, x, sig, stmt)
	}
	// READ INTO: n, err := r.Read(dst)
	if len(x.Args) != 1 || sig.Results().Len() != 2 {
		bail("read call %s of unexpected shape at %s", name, t.pos(x))
	}
	t.needOrc()
	sel := ast.Unparen(x.Fun).(*ast.SelectorExpr)
	t.receiverIsOpaque(sel.X, name, x)
	lv, off, cur := t.window(x.Args[0])
	root := t.rootVar(lv)
	if root == nil || !t.isLocal(root) {
		bail("read into something that is not rooted at a local variable at %s", t.pos(x))
	}
	t.emitEffect(fmt.Sprintf(".call %q [.int (Go.len %s)]", name, cur))
	data := t.fresh1("t_")
	t.let(data, "Go.Bytes", fmt.Sprintf("((Go.orc orc_).asBytes).take (%s).length", cur))
	t.let("orc_", "List Go.Val", "orc_.tail")
	e := t.fresh1("t_")
	t.let(e, "Go.Err", "(Go.orc orc_).asErr")
	t.let("orc_", "List Go.Val", "orc_.tail")
	nv := fmt.Sprintf("(Go.copy %s %s)", cur, data)
	if off != "" {
		nv = fmt.Sprintf("(Go.splice %s %s %s)", t.bytesArg(lv), off, nv)
	}
	r, text := t.update(lv, nv)
	t.let(t.names[r], t.ltVar(r, "variable "+r.Name()).lean, text)
	if stmt {
		return "()"
	}
	return "((Go.len " + data + "), " + e + ")"
}

// paramCall: a call of an opaque function-typed parameter: `Effect.call "<function key>.<parameter>" args`.
func (t *tr) paramCall(x *ast.CallExpr, stmt bool) (string, bool) {
	id, ok := ast.Unparen(x.Fun).(*ast.Ident)
	if !ok {
		return "", false
	}
	v := t.varOf(id)
	if v == nil || !t.opaqueParams[v] {
		return "", false
	}
	sig, ok := v.Type().Underlying().(*types.Signature)
	if !ok {
		return "", false
	}
	return t.effectCall(t.key+"."+v.Name(), x, sig, stmt), true
}

// inoutArg: the value handed over for an in-out parameter, and the caller's variable that receives the value back.
func (t *tr) inoutArg(a ast.Expr, pt types.Type) (string, *types.Var) {
	a = ast.Unparen(a)
	if _, isPtr := pt.Underlying().(*types.Pointer); isPtr {
		if u, ok := a.(*ast.UnaryExpr); ok && u.Op == token.AND {
			if id, ok := ast.Unparen(u.X).(*ast.Ident); ok {
				v := t.varOf(id)
				if v != nil && t.isLocal(v) && !t.inoutSet[v] {
					if _, isBasic := v.Type().Underlying().(*types.Basic); isBasic {
						return t.expr(id), v
					}
				}
			}
		}
		if id, ok := a.(*ast.Ident); ok {
			if v := t.varOf(id); t.inoutPtr(v) {
				return t.names[v], v // our own in-out parameter, passed on
			}
		}
		bail("argument for an in-out pointer parameter that is not &<local> / an in-out parameter at %s", t.pos(a))
	}
	// a byte slice the callee writes into: a whole local array, or a slice variable that holds memory owned here
	if sl, ok := a.(*ast.SliceExpr); ok && sl.Low == nil && sl.High == nil && !sl.Slice3 {
		if id, ok := ast.Unparen(sl.X).(*ast.Ident); ok {
			if v := t.varOf(id); v != nil && t.isLocal(v) {
				if _, isArr := v.Type().Underlying().(*types.Array); isArr {
					return t.bytesArg(id), v
				}
			}
		}
	}
	if id, ok := a.(*ast.Ident); ok {
		if v := t.varOf(id); v != nil && t.isLocal(v) {
			t.checkWritable(id, a)
			return t.bytesArg(id), v
		}
	}
	bail("argument for an in-out []byte parameter that is not <local array>[:] / a local slice variable at %s", t.pos(a))
	return "", nil
}

// ---------- floats ----------

func isFloat(ty types.Type) bool {
	if ty == nil {
		return false
	}
	b, ok := ty.Underlying().(*types.Basic)
	return ok && b.Info()&types.IsFloat != 0
}

// floatToIntEffect: the trace entry of a conversion `T(<float expression>)` to an integer type T.
const floatToIntEffect = "float.toInt"

// floatToInt: floats are outside the subset, but the INTEGER a float expression is converted to can be an oracle
// value: `T(f)` for an integer type T and a float expression f (built from conversions, arithmetic and float
// parameters; dropped, so it must be harmless()) is `Effect.call "float.toInt" [.opaque]` + one oracle Int, wrapped
// into T's range when T is bounded. (Go leaves the conversion of NaN / ±Inf / out-of-range values to the
// implementation: "any value of T" is exactly what the oracle says.)
func (t *tr) floatToInt(to types.Type, arg ast.Expr, at ast.Node) string {
	t.harmless(arg, "the float operand of a conversion to an integer")
	ast.Inspect(arg, func(n ast.Node) bool {
		if id, ok := n.(*ast.Ident); ok {
			if v := t.varOf(id); v != nil && t.isLocal(v) && !t.isParam(v) && isFloat(v.Type()) {
				bail("float local %s at %s", id.Name, t.pos(id))
			}
		}
		return true
	})
	t.needOrc()
	t.emitEffect(fmt.Sprintf(".call %q [.opaque]", floatToIntEffect))
	n := t.fresh1("t_")
	val := "(Go.orc orc_).asInt"
	if it := intInfo(to); it.isInteger && it.bits != 0 {
		val = wrapTo(it, val)
	}
	t.let(n, "Int", val)
	t.let("orc_", "List Go.Val", "orc_.tail")
	return n
}

// ---------- select: the non-blocking context poll ----------

// ctxPoll: s is `select { case <-ctx.Done(): …; default: … }` with ctx an opaque parameter of type context.Context.
func (t *tr) ctxPoll(s *ast.SelectStmt) (done, def *ast.CommClause, ok bool) {
	if s.Body == nil || len(s.Body.List) != 2 {
		return nil, nil, false
	}
	for _, c := range s.Body.List {
		cc, isCC := c.(*ast.CommClause)
		if !isCC {
			return nil, nil, false
		}
		if cc.Comm == nil {
			def = cc
			continue
		}
		es, isES := cc.Comm.(*ast.ExprStmt)
		if !isES {
			return nil, nil, false
		}
		u, isU := ast.Unparen(es.X).(*ast.UnaryExpr)
		if !isU || u.Op != token.ARROW {
			return nil, nil, false
		}
		call, isCall := ast.Unparen(u.X).(*ast.CallExpr)
		if !isCall || len(call.Args) != 0 {
			return nil, nil, false
		}
		sel, isSel := ast.Unparen(call.Fun).(*ast.SelectorExpr)
		if !isSel || sel.Sel.Name != "Done" {
			return nil, nil, false
		}
		id, isId := ast.Unparen(sel.X).(*ast.Ident)
		if !isId {
			return nil, nil, false
		}
		v := t.varOf(id)
		if v == nil || v.Type().String() != "context.Context" {
			return nil, nil, false
		}
		done = cc
	}
	return done, def, done != nil && def != nil
}

func (t *tr) selectStmt(s *ast.SelectStmt, tail []ast.Stmt, k func() string, ind string) string {
	done, def, ok := t.ctxPoll(s)
	if !ok {
		bail("select other than the non-blocking context poll at %s", t.pos(s))
	}
	t.needOrc()
	t.emitEffect(fmt.Sprintf(".call %q []", ctxPollEffect))
	c := t.fresh1("t_")
	t.let(c, "Bool", "(Go.orc orc_).asBool")
	t.let("orc_", "List Go.Val", "orc_.tail")
	pre := t.flush(ind)
	in := ind + "  "
	savedBrk := t.brk
	defer func() { t.brk = savedBrk }()
	if !t.escapes(s) {
		vars := t.assignedOuter(s)
		t.checkDeclared(vars, s)
		t.brk = func() string { return t.wrapVal(t.tupleOf(vars)) }
		e := fmt.Sprintf("if %s then\n%s%s\n%selse\n%s%s", c, in, t.block(done.Body, vars, in), ind, in, t.block(def.Body, vars, in))
		t.brk = savedBrk
		return pre + t.rebind(vars, e, ind) + t.stmts(tail, k, ind)
	}
	var after func() string
	if len(tail) > 0 || k != nil {
		after = func() string {
			b := t.brk
			t.brk = savedBrk
			defer func() { t.brk = b }()
			return t.stmts(tail, k, in)
		}
	}
	t.brk = after
	thenS := t.stmts(done.Body, after, in)
	elseS := t.stmts(def.Body, after, in)
	return pre + fmt.Sprintf("if %s then\n%s%s\n%selse\n%s%s", c, in, thenS, ind, in, elseS)
}

// ---------- fuel ----------

func (t *tr) needFuel() {
	t.needEff()
	if !t.fuelP {
		panic(needMode{fuel: true})
	}
}

// ---------- named loop pieces ----------

// identIn: name occurs in text as a whole identifier that is not a field selection (`x.name`).
func identIn(text, name string) bool {
	isIdent := func(c byte) bool {
		return c == '_' || c == '\'' || c >= '0' && c <= '9' || c >= 'a' && c <= 'z' || c >= 'A' && c <= 'Z' || c >= 0x80
	}
	for i := 0; i+len(name) <= len(text); {
		j := strings.Index(text[i:], name)
		if j < 0 {
			return false
		}
		a, b := i+j, i+j+len(name)
		if (a == 0 || !(isIdent(text[a-1]) || text[a-1] == '.')) && (b >= len(text) || !isIdent(text[b])) {
			return true
		}
		i = a + 1
	}
	return false
}

// namedLoop: in a function whose fuel is a parameter, the three pieces of a Go.loopWhileM loop are emitted as
// definitions of their own, `<fn>_loop<k>_cond / _body / _post`, lambda-lifted over the variables in scope on entry
// that they mention (and fuel_), so that an inductive tie proof can name them. The loop expression is their
// application; nothing else changes.
func (t *tr) namedLoop(sigma, rho, condF, bodyF, postF string, scope, state []*types.Var, initTuple string) string {
	t.loopN++
	base := fmt.Sprintf("%s_loop%d", t.out.lean, t.loopN)
	text := condF + "\n" + bodyF + "\n" + postF
	inState := map[*types.Var]bool{}
	for _, v := range state {
		inState[v] = true
	}
	var params, args []string
	for _, v := range scope {
		n := t.names[v]
		if inState[v] || n == "" || n == "_" || !identIn(text, n) {
			continue
		}
		ty := t.effTypeOf(v)
		if ty == "" {
			ty = t.ltVar(v, "variable "+v.Name()).lean
		}
		params = append(params, fmt.Sprintf("(%s : %s)", n, ty))
		args = append(args, n)
	}
	if identIn(text, "fuel_") {
		params = append(params, "(fuel_ : Nat)")
		args = append(args, "fuel_")
	}
	ps, as := "", ""
	if len(params) > 0 {
		ps, as = " "+strings.Join(params, " "), " "+strings.Join(args, " ")
	}
	piece := func(suffix, ty, lam string) string {
		return fmt.Sprintf("/-- %s of loop %d of %s (see Go.loopWhileM) -/\ndef %s_%s%s : %s :=\n  %s\n\n", suffix, t.loopN, t.key, base, suffix, ps, ty, lam)
	}
	t.auxDefs = append(t.auxDefs,
		piece("cond", fmt.Sprintf("(%s) → Option (Bool × (%s))", sigma, sigma), condF),
		piece("body", fmt.Sprintf("(%s) → Option (Go.Ctl (%s) (%s))", sigma, sigma, rho), bodyF),
		piece("post", fmt.Sprintf("(%s) → Option (%s)", sigma, sigma), postF))
	call := func(suffix string) string {
		if as == "" {
			return base + "_" + suffix
		}
		return "(" + base + "_" + suffix + as + ")"
	}
	return fmt.Sprintf("Go.loopWhileM (σ := %s) (ρ := %s) %s %s %s fuel_ %s", sigma, rho, call("cond"), call("body"), call("post"), initTuple)
}
