module go2lean

go 1.26.0
