// translate_eff.go: the EFFECT/STATE discipline (see "Effect mode" in the subset description at the top of
// translate.go; the Lean side of the vocabulary is the last section of lean/GoSecs/GoPrelude.lean).
package main

import (
	"fmt"
	"go/ast"
	"go/token"
	"go/types"
	"sort"
	"strings"
)

// ---------- the tables (part of the trusted-base description; printed in the header of every generated file) ----------

// ignoredCallees leave NO trace: the call, the evaluation of its arguments and of its receiver expression are
// dropped. Accepted only in statement position (or `_ = f()`), and only when the dropped expressions contain
// nothing but conversions, len/cap/min/max, calls of functions outside the repository, calls of repository
// functions that translate as PURE functions, and calls of other ignored / pure-getter callees (harmless()).
// A trailing * matches any suffix.
var ignoredCallees = []string{
	// diagnostics
	"logger.*",
	// mutual exclusion: the translated code is ONE goroutine's code, locks only order it against others
	"sync.Mutex.Lock", "sync.Mutex.Unlock", "sync.RWMutex.Lock", "sync.RWMutex.Unlock", "sync.RWMutex.RLock", "sync.RWMutex.RUnlock",
	// counters that no model observes
	"hsmsss.ConnectionMetrics.*", "hsms.ConnectionMetrics.*",
}

// pureGetters: repository callees that are not translated, have no effect, and whose result is only ever
// dropped together with an ignored call (configuration getters feeding diagnostics).
var pureGetters = map[string]bool{
	"hsmsss.ConnectionConfig.Logger": true,
	"hsms.ConnectionConfig.Logger":   true,
	"secs1.ConnectionConfig.Logger":  true,
	"hsmsss.hexDumpFrame":            true, // hex.EncodeToString of the frame, for the trace log
	"hsmsss.transport.clock":         true, // the injectable clock (t.now, or time.Now): only ever passed for an opaque parameter
}

// asEffect: repository functions / methods that are NOT translated although they have a body: a call is
// recorded as `Effect.call "<key>" args` (and its result, when used, comes from the oracle list). The value is
// the reason, and what the callee does, for the reader of a theorem that mentions the effect. For a method
// called on the translated function's own receiver the translator checks that the receiver fields the callee
// may write (opaqueWritesOf) are disjoint from the fields the translated code touches.
var asEffect = map[string]string{
	"hsms.supervisor.inject": "select{ events <- ev | <-runDone }: the guaranteed command-queue send",
	"hsms.supervisor.emit":   "select-based non-blocking drop-oldest send on notify (bumps droppedNotify when it drops)",
	"hsms.epoch.teardown":    "initiates teardown of the pinned epoch (another object; closeOnce)",
	// hsmsss transport: timer / goroutine management of the generation (mutex + goroutines)
	"hsmsss.transport.armT7":         "arms the T7 NOT-SELECTED dwell timer goroutine on the generation bundle",
	"hsmsss.transport.cancelT7":      "cancels the T7 dwell timer",
	"hsmsss.transport.startLinktest": "starts the auto-linktest goroutine on the generation bundle",
	"hsmsss.transport.stopLinktest":  "stops the auto-linktest goroutine",
	"hsmsss.decodeControlFrame":      "hsms.DecodeHSMSMessage on the 10-byte control frame (returns an interface value)",
	// secs1: the block-level counters are observable in the model (Secs1.AEv)
	"secs1.ConnectionMetrics.inc*": "one atomic counter increment on the metrics object (another object)",
}

// loopFuel: how often a `for` loop without an evident trip count is unrolled (Go.loopWhileM).
const loopFuel = 4

// asEffectCallee: key is listed in asEffect (a trailing * in an entry matches any suffix).
func asEffectCallee(key string) bool {
	if _, ok := asEffect[key]; ok {
		return true
	}
	for p := range asEffect {
		if strings.HasSuffix(p, "*") && strings.HasPrefix(key, strings.TrimSuffix(p, "*")) {
			return true
		}
	}
	return false
}

func isTimeTime(ty types.Type) bool {
	if ty == nil {
		return false
	}
	n, ok := types.Unalias(ty).(*types.Named)
	return ok && n.Obj().Pkg() != nil && n.Obj().Pkg().Path() == "time" && n.Obj().Name() == "Time"
}

// listFieldOK: []T may be a struct FIELD (a List) for these element types only (each one widens the generated
// structure of every struct that has such a field).
func listFieldOK(n *types.Named) bool {
	rel, ok := relOf(n.Obj().Pkg())
	return ok && rel+"."+n.Obj().Name() == "secs1.block"
}

func ignoredCallee(name string) bool {
	for _, p := range ignoredCallees {
		if strings.HasSuffix(p, "*") {
			if strings.HasPrefix(name, strings.TrimSuffix(p, "*")) {
				return true
			}
		} else if p == name {
			return true
		}
	}
	return false
}

// effectTablesDoc: the tables above, as Lean comment lines for the header of the generated files.
func effectTablesDoc() string {
	var sb strings.Builder
	sb.WriteString("-- Effect mode (tools/go2lean/translate_eff.go): calls that leave NO trace (ignore table):\n")
	sb.WriteString("--   " + strings.Join(ignoredCallees, ", ") + "\n")
	var ks []string
	for k := range pureGetters {
		ks = append(ks, k)
	}
	sort.Strings(ks)
	sb.WriteString("-- getters only ever dropped together with an ignored call: " + strings.Join(ks, ", ") + "\n")
	sb.WriteString("-- repository callees recorded as `Effect.call` instead of being translated (asEffect table):\n")
	ks = nil
	for k := range asEffect {
		ks = append(ks, k)
	}
	sort.Strings(ks)
	for _, k := range ks {
		sb.WriteString("--   " + k + ": " + asEffect[k] + "\n")
	}
	fmt.Fprintf(&sb, "-- loops without an evident trip count are unrolled %d times (Go.loopWhileM; none = still running).\n", loopFuel)
	sb.WriteString(ioTablesDoc())
	return sb.String()
}

// ---------- modes ----------

func (t *tr) needEff() {
	if t.winMode || t.iter != nil {
		bail("effects inside a window / iterator function")
	}
	if !t.eff {
		panic(needMode{})
	}
}

func (t *tr) needRecvW() {
	t.needEff()
	if !t.recvW {
		panic(needMode{recvW: true})
	}
}

func (t *tr) needOrc() {
	t.needEff()
	if !t.useOrc {
		panic(needMode{orc: true})
	}
}

// effVars: the synthetic state of an effect-mode function, in tuple order.
func (t *tr) effVars() []*types.Var {
	if !t.eff {
		return nil
	}
	var vs []*types.Var
	if t.recvW {
		vs = append(vs, t.recvParam)
	}
	vs = append(vs, t.trVar)
	if t.useOrc {
		vs = append(vs, t.orcVar)
	}
	return vs
}

// setupEff declares the synthetic locals (positions: inside the function name, i.e. after the receiver and
// before every parameter, so that the position-sorted state tuples are deterministic).
func (t *tr) setupEff() string {
	if !t.eff {
		return ""
	}
	t.trVar = types.NewVar(t.fd.Name.Pos(), t.p.pkg, "tr_", nil)
	t.names[t.trVar] = "tr_"
	t.used["tr_"] = true
	t.orcVar = types.NewVar(t.fd.Name.Pos()+1, t.p.pkg, "orc_", nil)
	t.names[t.orcVar] = "orc_"
	t.used["orc_"] = true
	return "let tr_ : List Go.Effect := []\n  "
}

// effTypeOf: the Lean type of a synthetic local ("" for an ordinary variable).
func (t *tr) effTypeOf(v *types.Var) string {
	switch {
	case v == nil:
		return ""
	case v == t.trVar:
		return "List Go.Effect"
	case v == t.orcVar:
		return "List Go.Val"
	}
	return ""
}

// ltVar: the representation of a local variable (an "opaque local" is a Bool: non-nil).
func (t *tr) ltVar(v *types.Var, what string) ltype {
	if t.opaqueVars[v] {
		return ltype{k: kOpaque, lean: "Bool", arrLen: -1}
	}
	if t.inoutPtr(v) {
		return t.lt(inoutElem(v), what)
	}
	return t.lt(v.Type(), what)
}

// effectful: n contains something that can change the synthetic state.
func (t *tr) effectful(n ast.Node) bool {
	if !t.eff || n == nil {
		return false
	}
	found := false
	ast.Inspect(n, func(n ast.Node) bool {
		switch x := n.(type) {
		case *ast.SendStmt:
			found = true
		case *ast.CallExpr:
			if tv, ok := t.p.info.Types[x.Fun]; ok && tv.IsType() {
				return true
			}
			if id, ok := ast.Unparen(x.Fun).(*ast.Ident); ok {
				if _, isB := t.p.info.Uses[id].(*types.Builtin); isB {
					return true
				}
			}
			found = true
		}
		return !found
	})
	return found
}

// resParts: the components of the generated function's value for Go results `vals`.
func (t *tr) resParts(vals []string) []string {
	if !t.eff {
		return vals
	}
	var parts []string
	if t.recvW {
		parts = append(parts, t.names[t.recvParam])
	}
	parts = append(parts, vals...)
	vs, _ := t.inoutParams()
	for _, v := range vs {
		parts = append(parts, t.names[v]) // in-out parameters: their final values
	}
	parts = append(parts, "tr_")
	if t.useOrc {
		parts = append(parts, "orc_")
	}
	return parts
}

// retVals: the text for "the function returns the Go values vals" at the current position.
func (t *tr) retVals(vals []string) string {
	parts := t.resParts(vals)
	v := strings.Join(parts, ", ")
	if len(parts) > 1 {
		v = "(" + v + ")"
	}
	return t.ret(v)
}

// ---------- receiver bookkeeping ----------

// noteRecvField records that the translated code touches a first-level field of its own receiver.
func (t *tr) noteRecvField(x *ast.SelectorExpr, sel *types.Selection, write bool) {
	id, ok := ast.Unparen(x.X).(*ast.Ident)
	if !ok || t.recvParam == nil || t.varOf(id) != t.recvParam {
		return
	}
	ty := t.recvParam.Type()
	if p, ok := ty.Underlying().(*types.Pointer); ok {
		ty = p.Elem()
	}
	if st, ok := ty.Underlying().(*types.Struct); ok && len(sel.Index()) > 0 && sel.Index()[0] < st.NumFields() {
		t.out.touched[st.Field(sel.Index()[0]).Name()] = true
	}
}

// isRecvRooted: e is a path rooted at the function's own receiver.
func (t *tr) isRecvRooted(e ast.Expr) bool {
	return t.recvParam != nil && t.rootVar(e) == t.recvParam
}

// mergeCallee: a translated callee invoked on our own receiver touches our fields too.
func (t *tr) mergeCallee(callee *fnOut, recvExpr ast.Expr) {
	id, ok := ast.Unparen(recvExpr).(*ast.Ident)
	if !ok || t.recvParam == nil || t.varOf(id) != t.recvParam {
		// a callee on a sub-object: everything below that first-level field counts as touched (selector() did it)
		return
	}
	for f := range callee.touched {
		t.out.touched[f] = true
	}
	for f, by := range callee.opaqueWrites {
		t.out.opaqueWrites[f] = by
	}
}

// checkOpaqueWrites: the receiver fields that asEffect callees may write behind the translation's back must
// not be fields the translated code reads or writes (its receiver result would be wrong about them).
func (t *tr) checkOpaqueWrites() {
	var fs []string
	for f := range t.out.opaqueWrites {
		fs = append(fs, f)
	}
	sort.Strings(fs)
	for _, f := range fs {
		if t.out.touched[f] {
			bail("receiver field %s is used by the translated code and may be written by the untranslated callee %s", f, t.out.opaqueWrites[f])
		}
	}
}

// checkRecvNoEscape (state passing): the receiver may only be used as `recv.field…` / `recv.method(…)`; it is
// never copied, passed, stored, returned, compared or captured, and no address below it is taken.
func (t *tr) checkRecvNoEscape() {
	if t.recvParam == nil {
		return
	}
	var stack []ast.Node
	ast.Inspect(t.fd.Body, func(n ast.Node) bool {
		if n == nil {
			stack = stack[:len(stack)-1]
			return true
		}
		switch x := n.(type) {
		case *ast.Ident:
			if t.varOf(x) == t.recvParam {
				ok := false
				if len(stack) > 0 {
					if sel, isSel := stack[len(stack)-1].(*ast.SelectorExpr); isSel && sel.X == x {
						ok = true
					}
				}
				if !ok {
					bail("the receiver %s escapes (used other than as %s.field / %s.method(…)) at %s", x.Name, x.Name, x.Name, t.pos(x))
				}
			}
		case *ast.UnaryExpr:
			if x.Op == token.AND && t.isRecvRooted(x.X) {
				bail("address of a receiver field is taken (aliasing) at %s", t.pos(x))
			}
		case *ast.FuncLit:
			bail("function literal at %s", t.pos(x))
		}
		stack = append(stack, n)
		return true
	})
}

// opaqueWritesOf: the first-level receiver fields that the method `key` (not translated: asEffect) may write,
// found syntactically: assignments / ++ / -- rooted at the receiver, mutating atomic operations, channel
// operations and close() on receiver fields, and the same for methods it calls on its receiver. Any other use
// of the receiver (passed on, stored, captured by a goroutine's argument list) makes the answer "unknown".
func (g *G) opaqueWritesOf(key string, visiting map[string]bool) (map[string]bool, string) {
	out := map[string]bool{}
	if visiting[key] {
		return out, ""
	}
	visiting[key] = true
	rel, recv, name := splitKey(key)
	p, err := loadPkg(repoRoot, rel)
	if err != nil || p.pkg == nil {
		return nil, "package not loadable"
	}
	fd := findFunc(p, recv, name)
	if fd == nil || fd.Body == nil || fd.Recv == nil || len(fd.Recv.List) != 1 || len(fd.Recv.List[0].Names) != 1 {
		return nil, "no such method / unnamed receiver"
	}
	rv, _ := p.info.Defs[fd.Recv.List[0].Names[0]].(*types.Var)
	if rv == nil {
		return nil, "no receiver"
	}
	isRecv := func(e ast.Expr) bool {
		id, ok := ast.Unparen(e).(*ast.Ident)
		if !ok {
			return false
		}
		return p.info.Uses[id] == rv
	}
	// first-level field of a path rooted at the receiver ("" when e is not such a path)
	var firstField func(e ast.Expr) string
	firstField = func(e ast.Expr) string {
		switch x := ast.Unparen(e).(type) {
		case *ast.SelectorExpr:
			if isRecv(x.X) {
				return x.Sel.Name
			}
			return firstField(x.X)
		case *ast.IndexExpr:
			return firstField(x.X)
		case *ast.SliceExpr:
			return firstField(x.X)
		case *ast.StarExpr:
			return firstField(x.X)
		}
		return ""
	}
	why := ""
	var stack []ast.Node
	ast.Inspect(fd.Body, func(n ast.Node) bool {
		if n == nil {
			stack = stack[:len(stack)-1]
			return true
		}
		switch x := n.(type) {
		case *ast.Ident:
			if p.info.Uses[x] == rv {
				ok := false
				if len(stack) > 0 {
					if sel, isSel := stack[len(stack)-1].(*ast.SelectorExpr); isSel && sel.X == x {
						ok = true
					}
				}
				if !ok && why == "" {
					why = "its receiver escapes at " + p.fset.Position(x.Pos()).String()
				}
			}
		case *ast.AssignStmt:
			for _, l := range x.Lhs {
				if f := firstField(l); f != "" {
					out[f] = true
				}
			}
		case *ast.IncDecStmt:
			if f := firstField(x.X); f != "" {
				out[f] = true
			}
		case *ast.SendStmt:
			if f := firstField(x.Chan); f != "" {
				out[f] = true
			}
		case *ast.UnaryExpr:
			if x.Op == token.ARROW {
				if f := firstField(x.X); f != "" {
					out[f] = true
				}
			}
			if x.Op == token.AND {
				if f := firstField(x.X); f != "" {
					out[f] = true // address taken: assume written
				}
			}
		case *ast.CallExpr:
			if id, ok := ast.Unparen(x.Fun).(*ast.Ident); ok && id.Name == "close" && len(x.Args) == 1 {
				if f := firstField(x.Args[0]); f != "" {
					out[f] = true
				}
			}
			if sel, ok := ast.Unparen(x.Fun).(*ast.SelectorExpr); ok {
				if isRecv(sel.X) {
					// a method on the same receiver (or a function-valued field: reads it only)
					if s, ok := p.info.Selections[sel]; ok && s.Kind() == types.MethodVal {
						if fn, ok := s.Obj().(*types.Func); ok {
							if k, ok := keyOfFunc(fn); ok {
								sub, w := g.opaqueWritesOf(k, visiting)
								if w != "" && why == "" {
									why = w
								}
								for f := range sub {
									out[f] = true
								}
							}
						}
					}
				} else if tv, ok := p.info.Types[sel.X]; ok && atomicKind(tv.Type) != "" {
					switch sel.Sel.Name {
					case "Store", "Add", "Swap", "CompareAndSwap", "And", "Or":
						if f := firstField(sel.X); f != "" {
							out[f] = true
						}
					}
				}
			}
		}
		stack = append(stack, n)
		return true
	})
	return out, why
}

// noteOpaqueCallee: an asEffect method is called on our own receiver.
func (t *tr) noteOpaqueCallee(key string, at ast.Node) {
	ws, why := t.g.opaqueWritesOf(key, map[string]bool{})
	if why != "" {
		bail("untranslated callee %s on the receiver: cannot bound what it writes (%s) at %s", key, why, t.pos(at))
	}
	for f := range ws {
		t.out.opaqueWrites[f] = key
	}
}

// ---------- binds ----------

func (t *tr) let(name, ty, val string) {
	t.binds = append(t.binds, fmt.Sprintf("let %s : %s := %s\n", name, ty, val))
}

func (t *tr) emitEffect(e string) {
	t.binds = append(t.binds, fmt.Sprintf("let tr_ : List Go.Effect := tr_ ++ [%s]\n", e))
}

// pureLets: every pending bind is a plain `let` (no Option bind).
func pureLets(binds []string) bool {
	for _, b := range binds {
		if !strings.HasPrefix(b, "let ") {
			return false
		}
	}
	return true
}

// ---------- atomics ----------

func atomicKind(ty types.Type) string {
	if ty == nil {
		return ""
	}
	n, ok := types.Unalias(ty).(*types.Named)
	if !ok || n.Obj().Pkg() == nil || n.Obj().Pkg().Path() != "sync/atomic" {
		return ""
	}
	switch n.Obj().Name() {
	case "Uint32", "Uint64", "Uintptr", "Int32", "Int64", "Bool", "Pointer", "Value":
		return n.Obj().Name()
	}
	return ""
}

func atomicWrap(kind, s string) string {
	switch kind {
	case "Uint32":
		return "(Go.wrapU 32 " + s + ")"
	case "Uint64", "Uintptr":
		return "(Go.wrapU 64 " + s + ")"
	case "Int32":
		return "(Go.wrapS 32 " + s + ")"
	}
	return s // Int64: unbounded in the model, like int64 everywhere else
}

// typeName: "<Type>" of the (possibly pointer) named type of v.
func typeNameOf(ty types.Type) string {
	if p, ok := ty.Underlying().(*types.Pointer); ok {
		ty = p.Elem()
	}
	if p, ok := ty.(*types.Pointer); ok {
		ty = p.Elem()
	}
	if n, ok := types.Unalias(ty).(*types.Named); ok {
		return n.Obj().Name()
	}
	return "?"
}

// pathName: "<RootType>.<field>.<field>" of a field path rooted at a local variable.
func (t *tr) pathName(e ast.Expr) string {
	var fields []string
	for {
		switch x := ast.Unparen(e).(type) {
		case *ast.SelectorExpr:
			fields = append([]string{x.Sel.Name}, fields...)
			e = x.X
			continue
		case *ast.Ident:
			if v := t.varOf(x); v != nil {
				return typeNameOf(v.Type()) + "." + strings.Join(fields, ".")
			}
		}
		bail("effect on something that is not a field path rooted at a local variable at %s", t.pos(e))
	}
}

// atomicCall: x is `<field path>.<Op>(…)` on a field of a sync/atomic type.
func (t *tr) atomicCall(x *ast.CallExpr) (string, bool) {
	sel, ok := ast.Unparen(x.Fun).(*ast.SelectorExpr)
	if !ok {
		return "", false
	}
	tv, ok := t.p.info.Types[sel.X]
	if !ok {
		return "", false
	}
	kind := atomicKind(tv.Type)
	if kind == "" {
		return "", false
	}
	fsel, ok := ast.Unparen(sel.X).(*ast.SelectorExpr)
	if !ok {
		bail("atomic value that is not a struct field at %s", t.pos(x))
	}
	fs, ok := t.p.info.Selections[fsel]
	if !ok || fs.Kind() != types.FieldVal {
		bail("atomic value that is not a struct field at %s", t.pos(x))
	}
	root := t.rootVar(fsel)
	if root == nil || !t.isLocal(root) {
		bail("atomic field of something that is not a local variable / the receiver at %s", t.pos(x))
	}
	t.needEff()
	op := sel.Sel.Name
	flt := t.g.leanType(tv.Type, true)
	if flt.k == kDrop {
		bail("atomic.%s at %s", kind, t.pos(x))
	}
	obj := t.pathName(fsel)
	t.noteRecvField(fsel, fs, op != "Load")
	t.allowAtomic = true
	cur := t.fieldPath(t.expr(fsel.X), t.typeOf(fsel.X), fs.Index(), fsel)
	t.allowAtomic = false
	val := func(s string) string {
		switch flt.k {
		case kBool:
			return ".bool " + s
		case kInt:
			return ".int " + s
		}
		return ".opaque"
	}
	fn := t.calleeFunc(x.Fun)
	if fn == nil {
		bail("atomic operation %s at %s", op, t.pos(x))
	}
	sig := fn.Type().(*types.Signature)
	argOf := func(i int) string {
		if kind == "Pointer" {
			bail("atomic.Pointer.%s (only Load is modelled) at %s", op, t.pos(x))
		}
		v := t.exprAs(x.Args[i], sig.Params().At(i).Type(), false)
		if simpleAtom(v) && v != t.names[root] {
			return v // a literal or a local name: nothing to capture
		}
		n := t.fresh1("t_")
		t.let(n, flt.lean, v)
		return n
	}
	write := func(newRoot string) {
		if t.isRecvRooted(fsel) {
			if t.winRead {
				bail("receiver field read and atomic write in one expression (evaluation order) at %s", t.pos(x))
			}
			t.winMut = true
		}
		r, text := t.update(fsel, newRoot)
		_ = r
		t.let(t.names[root], t.lt(root.Type(), "variable "+root.Name()).lean, text)
	}
	switch op {
	case "Load":
		n := t.fresh1("t_")
		t.let(n, flt.lean, cur)
		t.emitEffect(fmt.Sprintf(".atomic %q \"Load\" []", obj))
		return n, true
	case "Store":
		v := argOf(0)
		write(v)
		t.emitEffect(fmt.Sprintf(".atomic %q \"Store\" [%s]", obj, val(v)))
		return "()", true
	case "Swap":
		v := argOf(0)
		old := t.fresh1("t_")
		t.let(old, flt.lean, cur)
		write(v)
		t.emitEffect(fmt.Sprintf(".atomic %q \"Swap\" [%s]", obj, val(v)))
		return old, true
	case "Add":
		if flt.k != kInt {
			bail("atomic.%s.Add at %s", kind, t.pos(x))
		}
		d := argOf(0)
		n := t.fresh1("t_")
		t.let(n, "Int", atomicWrap(kind, "("+cur+" + "+d+")"))
		write(n)
		t.emitEffect(fmt.Sprintf(".atomic %q \"Add\" [%s]", obj, val(d)))
		return n, true
	case "CompareAndSwap":
		o := argOf(0)
		nw := argOf(1)
		okn := t.fresh1("t_")
		t.let(okn, "Bool", "("+cur+" == "+o+")")
		if t.isRecvRooted(fsel) {
			if t.winRead {
				bail("receiver field read and atomic write in one expression (evaluation order) at %s", t.pos(x))
			}
			t.winMut = true
		}
		_, text := t.update(fsel, nw)
		t.let(t.names[root], t.lt(root.Type(), "variable "+root.Name()).lean, fmt.Sprintf("if %s then %s else %s", okn, text, t.names[root]))
		t.emitEffect(fmt.Sprintf(".atomic %q \"CompareAndSwap\" [%s, %s]", obj, val(o), val(nw)))
		return okn, true
	}
	bail("atomic operation %s.%s at %s", kind, op, t.pos(x))
	return "", false
}

// simpleAtom: s is an integer / boolean literal or a plain local name.
func simpleAtom(s string) bool {
	if s == "" {
		return false
	}
	for i := 0; i < len(s); i++ {
		c := s[i]
		if !(c == '_' || c == '\'' || c >= '0' && c <= '9' || c >= 'a' && c <= 'z' || c >= 'A' && c <= 'Z') {
			return false
		}
	}
	return true
}

// ---------- callee names ----------

func qualOf(pkg *types.Package) string {
	if pkg == nil {
		return ""
	}
	if rel, ok := relOf(pkg); ok {
		return rel
	}
	return pkg.Path()
}

func namedOf(ty types.Type) *types.Named {
	if ty == nil {
		return nil
	}
	ty = types.Unalias(ty)
	if p, ok := ty.(*types.Pointer); ok {
		ty = types.Unalias(p.Elem())
	}
	n, _ := ty.(*types.Named)
	return n
}

// calleeName: "<pkg>.<Func>", "<pkg>.<Type>.<Method>" (the STATIC type of the receiver expression, so an
// interface method is named after the interface), "<pkg>.<Type>.<field>" for a function-valued field.
func (t *tr) calleeName(x *ast.CallExpr) string {
	fun := ast.Unparen(x.Fun)
	if fn := t.calleeFunc(fun); fn != nil {
		sig, ok := fn.Type().(*types.Signature)
		if !ok {
			return ""
		}
		if r := sig.Recv(); r != nil {
			var named *types.Named
			if sel, ok := fun.(*ast.SelectorExpr); ok {
				if tv, ok := t.p.info.Types[sel.X]; ok {
					named = namedOf(tv.Type)
				}
			}
			if named == nil {
				named = namedOf(r.Type())
			}
			if named == nil {
				return ""
			}
			return qualOf(named.Obj().Pkg()) + "." + named.Obj().Name() + "." + fn.Name()
		}
		return qualOf(fn.Pkg()) + "." + fn.Name()
	}
	if sel, ok := fun.(*ast.SelectorExpr); ok {
		if s, ok := t.p.info.Selections[sel]; ok && s.Kind() == types.FieldVal {
			if named := namedOf(s.Recv()); named != nil {
				return qualOf(named.Obj().Pkg()) + "." + named.Obj().Name() + "." + sel.Sel.Name
			}
		}
	}
	return ""
}

// ---------- dropped expressions ----------

// harmless: dropping the evaluation of e loses no effect (panics inside e are not modelled: ignore table).
func (t *tr) harmless(e ast.Expr, what string) {
	if e == nil {
		return
	}
	dropLoads := strings.HasPrefix(what, "the dropped call")
	ast.Inspect(e, func(n ast.Node) bool {
		switch x := n.(type) {
		case *ast.FuncLit:
			bail("function literal inside %s at %s", what, t.pos(x))
		case *ast.UnaryExpr:
			if x.Op == token.ARROW {
				bail("channel receive inside %s at %s", what, t.pos(x))
			}
			if x.Op == token.AND {
				if _, isLit := ast.Unparen(x.X).(*ast.CompositeLit); !isLit {
					bail("address-of inside %s at %s", what, t.pos(x))
				}
			}
		case *ast.CallExpr:
			if tv, ok := t.p.info.Types[x.Fun]; ok && tv.IsType() {
				return true
			}
			if id, ok := ast.Unparen(x.Fun).(*ast.Ident); ok {
				if _, isB := t.p.info.Uses[id].(*types.Builtin); isB {
					switch id.Name {
					case "len", "cap", "min", "max":
						return true
					}
					bail("builtin %s inside %s at %s", id.Name, what, t.pos(x))
				}
			}
			if sel, ok := ast.Unparen(x.Fun).(*ast.SelectorExpr); ok {
				if tv2, ok := t.p.info.Types[sel.X]; ok && atomicKind(tv2.Type) != "" {
					if sel.Sel.Name == "Load" && dropLoads {
						return true // an atomic read that is dropped with a diagnostic
					}
					bail("atomic operation inside %s at %s", what, t.pos(x))
				}
			}
			name := t.calleeName(x)
			if name == "" {
				bail("call of a function value inside %s at %s", what, t.pos(x))
			}
			if ignoredCallee(name) || pureGetters[name] {
				return true
			}
			fn := t.calleeFunc(x.Fun)
			if fn == nil {
				bail("call of a function value inside %s at %s", what, t.pos(x))
			}
			if _, inRepo := relOf(fn.Pkg()); !inRepo {
				return true // outside the repository: cannot reach the translated state (no addresses are passed)
			}
			sig := fn.Type().(*types.Signature)
			if r := sig.Recv(); r != nil {
				if _, isIface := r.Type().Underlying().(*types.Interface); isIface {
					bail("interface method call %s inside %s at %s", name, what, t.pos(x))
				}
			}
			key, ok := keyOfFunc(fn)
			if !ok {
				bail("call of %s inside %s at %s", name, what, t.pos(x))
			}
			if ignoredCallee(key) || pureGetters[key] {
				return true
			}
			callee := t.g.translate(key)
			if !callee.ok || callee.eff {
				bail("%s calls %s, which is not a pure translatable function, at %s", what, key, t.pos(x))
			}
		}
		return true
	})
}

// ignoredCall: a callee of the ignore table.
func (t *tr) ignoredCall(name string, x *ast.CallExpr, stmt bool) string {
	if !stmt {
		if tv, ok := t.p.info.Types[x]; ok && tv.Type != nil {
			if tup, isTup := tv.Type.(*types.Tuple); !isTup || tup.Len() > 0 {
				bail("the result of %s (ignore table) is used at %s", name, t.pos(x))
			}
		}
	}
	what := "the dropped call of " + name
	for _, a := range x.Args {
		t.harmless(a, what)
	}
	if sel, ok := ast.Unparen(x.Fun).(*ast.SelectorExpr); ok {
		if _, isPkg := t.p.info.Uses[rootIdentOf(sel.X)].(*types.PkgName); !isPkg {
			t.harmless(sel.X, what)
		}
	}
	return "()"
}

func rootIdentOf(e ast.Expr) *ast.Ident {
	for {
		switch x := ast.Unparen(e).(type) {
		case *ast.Ident:
			return x
		case *ast.SelectorExpr:
			e = x.X
		case *ast.CallExpr:
			e = x.Fun
		case *ast.IndexExpr:
			e = x.X
		case *ast.StarExpr:
			e = x.X
		default:
			return nil
		}
	}
}

// ---------- effect calls ----------

// valsOf: the `List Go.Val` an argument contributes to an effect: its translated value (a struct: its leaves),
// or [.opaque] when it is outside the subset (then it must be harmless to drop).
func (t *tr) valsOf(a ast.Expr, pt types.Type) (res string) {
	if t.isNil(a) {
		if pt != nil && pt.String() == "error" {
			return "[.err none]"
		}
		return "[.opaque]"
	}
	savedBinds := append([]string{}, t.binds...)
	savedTmp := t.tmp
	defer func() {
		if r := recover(); r != nil {
			if _, ok := r.(untranslatable); !ok {
				panic(r)
			}
			t.binds = savedBinds
			t.tmp = savedTmp
			t.harmless(a, "an untranslatable effect argument")
			res = "[.opaque]"
		}
	}()
	lt := t.g.leanType(t.typeOf(a), false)
	switch lt.k {
	case kInt:
		return "[.int " + t.expr(a) + "]"
	case kBool:
		return "[.bool " + t.expr(a) + "]"
	case kBytes:
		return "[.bytes " + t.bytesArg(a) + "]"
	case kErr:
		return "[.err " + t.expr(a) + "]"
	case kStruct:
		if id, ok := ast.Unparen(a).(*ast.Ident); ok && t.opaqueVars[t.varOf(id)] {
			break
		}
		t.out.deps[lt.st.rel] = true
		return "(" + lt.st.lean + ".toVals " + parenArg(t.expr(a)) + ")"
	}
	bail("argument of a kind that has no Go.Val at %s", t.pos(a))
	return ""
}

func parenArg(s string) string {
	if !strings.HasPrefix(s, "(") && !strings.HasPrefix(s, "{") && strings.ContainsAny(s, " ") {
		return "(" + s + ")"
	}
	if strings.HasPrefix(s, "-") {
		return "(" + s + ")"
	}
	return s
}

func joinVals(parts []string) string {
	if len(parts) == 0 {
		return "[]"
	}
	allLit := true
	for _, p := range parts {
		if !strings.HasPrefix(p, "[") {
			allLit = false
		}
	}
	if allLit {
		var inner []string
		for _, p := range parts {
			if in := strings.TrimSuffix(strings.TrimPrefix(p, "["), "]"); in != "" {
				inner = append(inner, in)
			}
		}
		return "[" + strings.Join(inner, ", ") + "]"
	}
	return "(" + strings.Join(parts, " ++ ") + ")"
}

// oracleResult: bind the next oracle value as a result of Go type ty.
func (t *tr) oracleResult(ty types.Type, at ast.Node) string {
	lt := t.g.leanType(ty, false)
	var conv string
	switch lt.k {
	case kInt:
		conv = "asInt"
	case kBool, kOpaque:
		conv = "asBool"
	case kBytes:
		if lt.arrLen >= 0 {
			bail("oracle result of array type at %s", t.pos(at))
		}
		conv = "asBytes"
	case kErr:
		conv = "asErr"
	case kStruct:
		// a struct result: its leaves, in field order, from the oracle list (T.ofVals)
		t.out.deps[lt.st.rel] = true
		n := t.fresh1("t_")
		t.binds = append(t.binds, fmt.Sprintf("let (%s, orc_) := (%s.ofVals orc_)\n", n, lt.st.lean))
		return n
	default:
		bail("the result (%s) of an untranslated call is used but has no oracle representation at %s", ty, t.pos(at))
	}
	n := t.fresh1("t_")
	val := "(Go.orc orc_)." + conv
	if lt.k == kInt && t.wrapOrc {
		if it := intInfo(ty); it.isInteger && it.bits != 0 {
			val = wrapTo(it, val) // foreignEffects: a result of a bounded integer type is in its range whatever the oracle says
		}
	}
	t.let(n, lt.lean, val)
	t.let("orc_", "List Go.Val", "orc_.tail")
	return n
}

// effectCall: the call is recorded in the trace; its results (when used) are the next oracle values.
func (t *tr) effectCall(name string, x *ast.CallExpr, sig *types.Signature, stmt bool) string {
	if name == "" {
		bail("call of an unnamed function value at %s", t.pos(x))
	}
	t.needEff()
	if sig.Variadic() {
		bail("variadic effect callee %s at %s", name, t.pos(x))
	}
	used := !stmt && sig.Results().Len() > 0
	if used {
		t.needOrc()
	}
	var parts []string
	for i, a := range x.Args {
		parts = append(parts, t.valsOf(a, sig.Params().At(i).Type()))
	}
	if sel, ok := ast.Unparen(x.Fun).(*ast.SelectorExpr); ok {
		if fn := t.calleeFunc(x.Fun); fn != nil {
			// a method: on our own receiver (bound what it writes), or on an object the translation does not hold
			if id, isId := ast.Unparen(sel.X).(*ast.Ident); isId && t.recvParam != nil && t.varOf(id) == t.recvParam {
				if key, ok := keyOfFunc(fn); ok {
					if _, isIface := fn.Type().(*types.Signature).Recv().Type().Underlying().(*types.Interface); !isIface {
						t.noteOpaqueCallee(key, x)
					}
				}
			} else {
				t.receiverIsOpaque(sel.X, name, x)
			}
		} else {
			// a function-valued field: reading the field is a use of the object it lives in
			if s, ok := t.p.info.Selections[sel]; ok {
				t.noteRecvField(sel, s, false)
			}
		}
	}
	t.emitEffect(fmt.Sprintf(".call %q %s", name, joinVals(parts)))
	if !used {
		return "()"
	}
	var ns []string
	for i := 0; i < sig.Results().Len(); i++ {
		ns = append(ns, t.oracleResult(sig.Results().At(i).Type(), x))
	}
	if len(ns) == 1 {
		return ns[0]
	}
	return "(" + strings.Join(ns, ", ") + ")"
}

// receiverIsOpaque: the receiver expression of an effect call must denote something the translation holds no
// value for (a reference field, an opaque local, an interface value) — otherwise the callee could change a
// value the translated code keeps using.
func (t *tr) receiverIsOpaque(e ast.Expr, name string, at ast.Node) {
	if id, ok := ast.Unparen(e).(*ast.Ident); ok {
		if v := t.varOf(id); v != nil && t.opaqueVars[v] {
			return
		}
	}
	tv, ok := t.p.info.Types[e]
	if !ok {
		bail("receiver of the effect call %s at %s", name, t.pos(at))
	}
	if _, isCall := ast.Unparen(e).(*ast.CallExpr); isCall {
		bail("receiver of the effect call %s is itself a call at %s", name, t.pos(at))
	}
	_, isSel := ast.Unparen(e).(*ast.SelectorExpr)
	lt := t.g.leanType(tv.Type, isSel)
	if lt.k != kOpaque {
		bail("effect call %s on a receiver the translation holds by value (%s) at %s", name, tv.Type, t.pos(at))
	}
	if sel, ok := ast.Unparen(e).(*ast.SelectorExpr); ok {
		if s, ok := t.p.info.Selections[sel]; ok {
			t.noteRecvField(sel, s, false)
		}
	}
}

// effCalleeCall: a call of a translated effect-mode function.
func (t *tr) effCalleeCall(callee *fnOut, x *ast.CallExpr, sig *types.Signature, args []string, backTo []*types.Var) string {
	t.needEff()
	if callee.fuel {
		t.needFuel()
		args = append(args, "fuel_")
	}
	if callee.useOrc {
		t.needOrc()
		args = append(args, "orc_")
	}
	var recvAST ast.Expr
	if sig.Recv() != nil {
		recvAST = ast.Unparen(x.Fun).(*ast.SelectorExpr).X
		t.mergeCallee(callee, recvAST)
	}
	var pat []string
	rn := ""
	if callee.recvW {
		if recvAST == nil {
			bail("internal: state-passing callee without receiver at %s", t.pos(x))
		}
		if t.isRecvRooted(recvAST) {
			t.needRecvW()
			if t.winRead {
				bail("receiver field read and a receiver-writing call in one expression (evaluation order) at %s", t.pos(x))
			}
			t.winMut = true
		}
		rn = t.fresh1("t_")
		pat = append(pat, rn)
	}
	var vals []string
	for i := 0; i < callee.nres; i++ {
		n := t.fresh1("t_")
		vals = append(vals, n)
		pat = append(pat, n)
	}
	var backNames []string
	for range callee.inout {
		n := t.fresh1("t_")
		backNames = append(backNames, n)
		pat = append(pat, n)
	}
	trn := t.fresh1("t_")
	pat = append(pat, trn)
	orn := ""
	if callee.useOrc {
		orn = t.fresh1("t_")
		pat = append(pat, orn)
	}
	p := pat[0]
	if len(pat) > 1 {
		p = "(" + strings.Join(pat, ", ") + ")"
	}
	call := "(" + callee.lean + " " + strings.Join(args, " ") + ")"
	if len(args) == 0 {
		call = callee.lean
	}
	if callee.partial {
		if !t.optMode {
			panic(needOption{})
		}
		t.binds = append(t.binds, fmt.Sprintf("(%s).bind fun %s =>\n", call, p))
	} else {
		t.binds = append(t.binds, fmt.Sprintf("let %s := %s\n", p, call))
	}
	if callee.recvW {
		root, text := t.update(recvAST, rn)
		t.let(t.names[root], t.ltVar(root, "variable "+root.Name()).lean, text)
	}
	for i, v := range backTo {
		// the in-out arguments take their values back
		t.let(t.names[v], t.ltVar(v, "variable "+v.Name()).lean, backNames[i])
	}
	t.let("tr_", "List Go.Effect", "tr_ ++ "+trn)
	if callee.useOrc {
		t.let("orc_", "List Go.Val", orn)
	}
	switch len(vals) {
	case 0:
		return "()"
	case 1:
		return vals[0]
	}
	return "(" + strings.Join(vals, ", ") + ")"
}

// sendStmt: `ch <- v` on a channel field.
func (t *tr) sendStmt(s *ast.SendStmt, ind string) string {
	t.needEff()
	sel, ok := ast.Unparen(s.Chan).(*ast.SelectorExpr)
	if !ok {
		bail("send on a channel that is not a struct field at %s", t.pos(s))
	}
	if fs, ok := t.p.info.Selections[sel]; ok {
		t.noteRecvField(sel, fs, true)
	}
	name := t.pathName(sel)
	ch, ok := t.typeOf(s.Chan).Underlying().(*types.Chan)
	if !ok {
		bail("send on a non-channel at %s", t.pos(s))
	}
	v := t.valsOf(s.Value, ch.Elem())
	t.emitEffect(fmt.Sprintf(".send %q %s", name, v))
	return t.flush(ind)
}

// typeAssert2: `v, ok := x.(*T)` where x's interface type stands for T in this scope (devirt / devirtIn): the
// assertion succeeds and v is x. Every other type assertion is rejected.
func (t *tr) typeAssert2(s *ast.AssignStmt, ta *ast.TypeAssertExpr, ind string) string {
	if ta.Type == nil {
		bail("type switch guard at %s", t.pos(s))
	}
	xt := t.typeOf(ta.X)
	n, ok := types.Unalias(xt).(*types.Named)
	if !ok {
		bail("type assertion on an unnamed interface at %s", t.pos(s))
	}
	if _, isIface := n.Underlying().(*types.Interface); !isIface {
		bail("type assertion on a non-interface at %s", t.pos(s))
	}
	rel, _ := relOf(n.Obj().Pkg())
	impl, ok := t.g.devirtOf(rel+"."+n.Obj().Name(), false)
	if !ok {
		bail("type assertion on %s (no devirtualisation entry) at %s", n.Obj().Name(), t.pos(s))
	}
	tn := namedOf(t.typeOf(ta.Type))
	if tn == nil {
		bail("type assertion to an unnamed type at %s", t.pos(s))
	}
	trel, _ := relOf(tn.Obj().Pkg())
	if trel+"."+tn.Obj().Name() != impl {
		bail("type assertion of %s to %s, but it stands for %s here, at %s", n.Obj().Name(), tn.Obj().Name(), impl, t.pos(s))
	}
	val := t.expr(ta.X)
	out := t.flush(ind)
	if id, ok := s.Lhs[0].(*ast.Ident); ok && id.Name != "_" {
		v := t.varOf(id)
		lt := t.lt(v.Type(), "variable "+id.Name)
		out += fmt.Sprintf("let %s : %s := %s\n%s", t.declare(v), lt.lean, val, ind)
	}
	if id, ok := s.Lhs[1].(*ast.Ident); ok && id.Name != "_" {
		v := t.varOf(id)
		out += fmt.Sprintf("let %s : Bool := true\n%s", t.declare(v), ind)
	}
	return out
}

// listAssign: `x.f = rhs` where f is a []T field held as a List: the accepted right-hand sides are
// append(x.f, v…) ↦ x.f ++ [v…], append(x.f[:0], v…) ↦ [v…], x.f[:0] ↦ [], nil ↦ []. (The backing array is
// reused by the Go code; as a VALUE the field is the list of its current elements, which is all the translated
// code can observe: the field is never given a second name.)
func (t *tr) listAssign(lhs, rhs ast.Expr) string {
	same := func(e ast.Expr) bool { return types.ExprString(ast.Unparen(e)) == types.ExprString(ast.Unparen(lhs)) }
	zeroSlice := func(e ast.Expr) bool {
		sl, ok := ast.Unparen(e).(*ast.SliceExpr)
		if !ok || sl.Slice3 || sl.Low != nil || sl.High == nil || !same(sl.X) {
			return false
		}
		c, ok := t.constInt(sl.High)
		return ok && c == 0
	}
	rhs = ast.Unparen(rhs)
	if t.isNil(rhs) || zeroSlice(rhs) {
		return "[]"
	}
	if c, ok := rhs.(*ast.CallExpr); ok {
		if id, ok := ast.Unparen(c.Fun).(*ast.Ident); ok && id.Name == "append" && !c.Ellipsis.IsValid() && len(c.Args) >= 1 {
			if _, isB := t.p.info.Uses[id].(*types.Builtin); isB {
				elemT := t.typeOf(lhs).Underlying().(*types.Slice).Elem()
				var els []string
				for _, a := range c.Args[1:] {
					els = append(els, t.exprAs(a, elemT, false))
				}
				lit := "[" + strings.Join(els, ", ") + "]"
				switch {
				case same(c.Args[0]):
					return "(" + t.expr(lhs) + " ++ " + lit + ")"
				case zeroSlice(c.Args[0]):
					return lit
				}
			}
		}
	}
	bail("assignment to a []struct field that is not append(f, …) / append(f[:0], …) / f[:0] / nil at %s", t.pos(lhs))
	return ""
}

// ---------- opaque locals ----------

// isOpaqueSource: rhs denotes a reference the translation holds no value for.
func (t *tr) isOpaqueSource(rhs ast.Expr) bool {
	rhs = ast.Unparen(rhs)
	if t.isNil(rhs) {
		return true
	}
	switch x := rhs.(type) {
	case *ast.CallExpr:
		if sel, ok := ast.Unparen(x.Fun).(*ast.SelectorExpr); ok && sel.Sel.Name == "Load" {
			if tv, ok := t.p.info.Types[sel.X]; ok && atomicKind(tv.Type) == "Pointer" {
				return true
			}
		}
	case *ast.SelectorExpr:
		if s, ok := t.p.info.Selections[x]; ok && s.Kind() == types.FieldVal {
			return t.g.leanType(s.Type(), true).k == kOpaque
		}
	case *ast.Ident:
		if v := t.varOf(x); v != nil {
			return t.opaqueVars[v]
		}
	}
	return false
}

// findOpaqueVars: locals of pointer-to-struct type that only ever receive opaque sources are opaque (Bool).
func (t *tr) findOpaqueVars(body *ast.BlockStmt) {
	t.opaqueVars = map[*types.Var]bool{}
	bad := map[*types.Var]bool{}
	isPtrStruct := func(v *types.Var) bool {
		p, ok := v.Type().Underlying().(*types.Pointer)
		if !ok {
			return false
		}
		_, isSt := p.Elem().Underlying().(*types.Struct)
		return isSt
	}
	for pass := 0; pass < 2; pass++ {
		ast.Inspect(body, func(n ast.Node) bool {
			as, ok := n.(*ast.AssignStmt)
			if !ok || len(as.Lhs) != len(as.Rhs) {
				return true
			}
			for i, l := range as.Lhs {
				id, ok := l.(*ast.Ident)
				if !ok {
					continue
				}
				v := t.varOf(id)
				if v == nil || !t.isLocal(v) || !isPtrStruct(v) {
					continue
				}
				if t.isOpaqueSource(as.Rhs[i]) && !t.isNil(as.Rhs[i]) {
					t.opaqueVars[v] = true
				} else if !t.isNil(as.Rhs[i]) {
					bad[v] = true
				}
			}
			return true
		})
	}
	for v := range bad {
		delete(t.opaqueVars, v)
	}
}

// ---------- loops without an evident trip count ----------

func (t *tr) whileLoop(s *ast.ForStmt, tail []ast.Stmt, k func() string, ind string) string {
	if !t.optMode {
		panic(needOption{}) // out of fuel = none
	}
	in := ind + "    "
	out := ""
	initVars := map[*types.Var]bool{}
	if s.Init != nil {
		as, ok := s.Init.(*ast.AssignStmt)
		if !ok {
			bail("for loop whose init is not an assignment at %s", t.pos(s))
		}
		out += t.assign(as, ind)
		for _, l := range as.Lhs {
			if id, ok := l.(*ast.Ident); ok {
				if v, ok := t.p.info.Defs[id].(*types.Var); ok {
					initVars[v] = true
				}
			}
		}
	}
	var nodes []ast.Node
	nodes = append(nodes, s.Body)
	if s.Cond != nil {
		nodes = append(nodes, s.Cond)
	}
	if s.Post != nil {
		nodes = append(nodes, s.Post)
	}
	var vars []*types.Var
	for _, v := range t.assignedIn(nodes...) {
		if v.Pos() < s.Pos() || v.Pos() >= s.End() || initVars[v] {
			vars = append(vars, v)
		}
	}
	t.checkDeclared(vars, s)
	sigma := t.tupleType(vars)
	st := t.fresh1("st_")
	initTuple := t.tupleOf(vars)
	// the variables in scope on entry (candidates for the parameters of the named loop pieces, translate_io.go)
	var scope []*types.Var
	for v := range t.names {
		scope = append(scope, v)
	}
	sort.Slice(scope, func(i, j int) bool { return scope[i].Pos() < scope[j].Pos() })

	savedLoop, savedBrk, savedCont := t.inLoop, t.brk, t.cont
	defer func() { t.inLoop, t.brk, t.cont = savedLoop, savedBrk, savedCont }()
	t.inLoop = true
	t.brk, t.cont = nil, nil

	// condition
	condS := "true"
	condPre := ""
	if s.Cond != nil {
		condS = t.expr(s.Cond)
		condPre = t.flush(in)
	}
	condF := fmt.Sprintf("(fun (%s : %s) =>\n%s%s%ssome (%s, %s))", st, sigma, in, t.unpack(vars, st, in), condPre, condS, t.tupleOf(vars))
	// body
	t.brk = func() string { return t.wrapVal("(.brk " + t.tupleOf(vars) + ")") }
	t.cont = func() string { return t.wrapVal("(.next " + t.tupleOf(vars) + ")") }
	bodyS := t.unpack(vars, st, in) + t.stmts(s.Body.List, func() string { return t.wrapVal("(.next " + t.tupleOf(vars) + ")") }, in)
	bodyF := fmt.Sprintf("(fun (%s : %s) =>\n%s%s)", st, sigma, in, bodyS)
	// post
	t.brk, t.cont = nil, nil
	postS := t.unpack(vars, st, in)
	if s.Post != nil {
		postS += t.stmts([]ast.Stmt{s.Post}, func() string { return t.wrapVal(t.tupleOf(vars)) }, in)
	} else {
		postS += t.wrapVal(t.tupleOf(vars))
	}
	postF := fmt.Sprintf("(fun (%s : %s) =>\n%s%s)", st, sigma, in, postS)
	t.inLoop, t.brk, t.cont = savedLoop, savedBrk, savedCont

	rho := t.resLean()
	fuel := fmt.Sprint(loopFuel)
	if t.fuelP {
		fuel = "fuel_"
	}
	e := fmt.Sprintf("Go.loopWhileM (σ := %s) (ρ := %s)\n%s  %s\n%s  %s\n%s  %s\n%s  %s %s", sigma, rho, ind, condF, ind, bodyF, ind, postF, ind, fuel, initTuple)
	if t.fuelP {
		e = t.namedLoop(sigma, rho, condF, bodyF, postF, scope, vars, initTuple)
	}
	r := t.fresh1("r_")
	okPat := t.tupleOf(vars)
	if len(vars) == 0 {
		okPat = "_"
	}
	var after string
	if len(tail) == 0 && k == nil {
		// nothing follows the loop: legal Go only for `for { … }` that is never left by break
		if s.Cond != nil || hasBreak(s.Body) {
			bail("loop at the end of a function without a following return at %s", t.pos(s))
		}
		after = "none" // unreachable: Go.loopWhileM with a constant-true condition and no .brk never yields .ok
	} else {
		after = t.stmts(tail, k, ind+"    ")
	}
	m := fmt.Sprintf("| .error %s => %s\n%s  | .ok %s =>\n%s    %s", r, t.ret(r), ind, okPat, ind, after)
	res := t.fresh1("res_")
	return out + fmt.Sprintf("(%s).bind fun %s =>\n%s(match %s with\n%s  %s)", e, res, ind, res, ind, m)
}

// hasBreak: body contains a break that targets the enclosing loop.
func hasBreak(body *ast.BlockStmt) bool {
	found := false
	var walk func(n ast.Node, depth int)
	walk = func(n ast.Node, depth int) {
		if n == nil || found {
			return
		}
		switch s := n.(type) {
		case *ast.BranchStmt:
			if s.Tok == token.BREAK && (depth == 0 || s.Label != nil) {
				found = true
			}
		case *ast.ForStmt:
			walk(s.Body, depth+1)
		case *ast.RangeStmt:
			walk(s.Body, depth+1)
		case *ast.SwitchStmt:
			walk(s.Body, depth+1)
		case *ast.SelectStmt:
			walk(s.Body, depth+1)
		case *ast.BlockStmt:
			for _, c := range s.List {
				walk(c, depth)
			}
		case *ast.IfStmt:
			walk(s.Body, depth)
			walk(s.Else, depth)
		case *ast.CaseClause:
			for _, c := range s.Body {
				walk(c, depth)
			}
		case *ast.CommClause:
			for _, c := range s.Body {
				walk(c, depth)
			}
		case *ast.LabeledStmt:
			walk(s.Stmt, depth)
		}
	}
	walk(body, 0)
	return found
}
