// provenance.go: the ownership fact tables for property C12 (DESIGN §1.2 "structural fact tables").
//
// A purely syntactic (go/ast + go/types) may-alias analysis over packages secs2, hsms and
// internal/wire (internal/framecodec is loaded for call resolution only). It emits
// <out>/Provenance.lean with
//
//	returnProvenance : List (String × String × String)
//	    (pkg.Type.Method | pkg.Func, result position, class) for every EXPORTED-name method/function
//	    whose result type is a slice, array, pointer-to-array or string
//	paramRetention   : List (String × String × String)
//	    (function, parameter, copied | retained | unknown:<callee>) for every exported-name function
//	    taking a parameter that can carry a caller-owned mutable backing array (slice, variadic,
//	    pointer-to-array, `any`, or a struct wrapping one such as the framecodec capability token)
//
// How it works. Every expression is abstracted to a set of SOURCES:
//
//	nil | string | value | fresh | clone | param(i) | param-elem(i) | view(root, Type.field) | via(callee) | unknown(text)
//
// param(i) is "the backing array of parameter i" (receiver = -1), param-elem(i) "a mutable backing array
// reachable as an element of parameter i" (the []byte inside `values ...any`). Local variables are
// flow-insensitively the union of everything ever assigned to them (worst class wins). Every function
// (exported or not) gets a SUMMARY — the sources of each result in terms of its own parameters, and for
// each parameter whether its backing array / its elements' backing arrays reach a retention sink
// (struct field store, struct composite literal, package variable, closure capture, channel send, or a
// callee that retains). Summaries are substituted at call sites (interface calls: union over all
// implementations in the analysed packages) and iterated to a global fixed point, so `via:` chains
// inside the analysed packages are fully resolved; only calls that leave them can remain `via:`.
//
// Trusted assumptions (stated in props.d/C12.json): callees outside the analysed packages do not
// retain their slice arguments (the io.Writer contract) except the wrappers listed in pvExternalAlias;
// external functions named Append* return their first argument extended; slices.Clone / bytes.Clone copy.
package main

import (
	"fmt"
	"go/ast"
	"go/parser"
	"go/token"
	"go/types"
	"os"
	"path/filepath"
	"sort"
	"strings"
)

const pvModule = "github.com/arloliu/go-secs/v2/"

// ---------- sources ----------

type pvKind int

const (
	pvNil pvKind = iota
	pvString
	pvValue
	pvFresh
	pvClone
	pvParam     // idx = parameter index (-1 receiver)
	pvParamElem // idx = parameter index
	pvVia       // text = unresolved callee
	pvView      // idx = root parameter (-2 none), text = Type.field
	pvUnknown   // text
)

type pvSrc struct {
	kind pvKind
	idx  int
	text string
}

type pvSet map[pvSrc]struct{}

func pvOf(ss ...pvSrc) pvSet {
	s := pvSet{}
	for _, x := range ss {
		s[x] = struct{}{}
	}
	return s
}

func (s pvSet) addAll(o pvSet) bool {
	ch := false
	for k := range o {
		if _, ok := s[k]; !ok {
			s[k] = struct{}{}
			ch = true
		}
	}
	return ch
}

func (s pvSet) sorted() []pvSrc {
	out := make([]pvSrc, 0, len(s))
	for k := range s {
		out = append(out, k)
	}
	sort.Slice(out, func(i, j int) bool {
		a, b := out[i], out[j]
		if a.kind != b.kind {
			return a.kind > b.kind
		}
		if a.text != b.text {
			return a.text < b.text
		}
		return a.idx < b.idx
	})
	return out
}

// class renders the worst source of a set as the table's class string.
func (s pvSet) class() string {
	if len(s) == 0 {
		return "unknown:no-returned-expression"
	}
	w := s.sorted()[0]
	switch w.kind {
	case pvNil:
		return "nil"
	case pvString:
		return "string"
	case pvValue:
		return "value"
	case pvFresh:
		return "fresh"
	case pvClone:
		return "clone"
	case pvParam, pvParamElem:
		return "append-param"
	case pvVia:
		return "via:" + w.text
	case pvView:
		return "view:" + w.text
	}
	return "unknown:" + w.text
}

// ---------- loading (dependency order, real cross-package types) ----------

type pvPkg struct {
	short string
	rel   string
	fset  *token.FileSet
	files []*ast.File
	info  *types.Info
	pkg   *types.Package
}

func pvLoad(repo, rel string) (*pvPkg, error) {
	dir := filepath.Join(repo, rel)
	fset := token.NewFileSet()
	ents, err := os.ReadDir(dir)
	if err != nil {
		return nil, err
	}
	var files []*ast.File
	for _, e := range ents {
		n := e.Name()
		if !strings.HasSuffix(n, ".go") || strings.HasSuffix(n, "_test.go") {
			continue
		}
		src, err := os.ReadFile(filepath.Join(dir, n))
		if err != nil {
			return nil, err
		}
		if strings.Contains(string(src), "//go:build verif") {
			continue
		}
		f, err := parser.ParseFile(fset, filepath.Join(dir, n), src, parser.SkipObjectResolution)
		if err != nil {
			return nil, fmt.Errorf("parse %s: %w", n, err)
		}
		files = append(files, f)
	}
	info := &types.Info{
		Types:      map[ast.Expr]types.TypeAndValue{},
		Defs:       map[*ast.Ident]types.Object{},
		Uses:       map[*ast.Ident]types.Object{},
		Implicits:  map[ast.Node]types.Object{},
		Selections: map[*ast.SelectorExpr]*types.Selection{},
	}
	conf := types.Config{Importer: imp, Error: func(error) {}, DisableUnusedImportCheck: true}
	pkg, _ := conf.Check(pvModule+rel, fset, files, info)
	imp.cache[pvModule+rel] = pkg // later packages import the real thing
	return &pvPkg{short: rel[strings.LastIndex(rel, "/")+1:], rel: rel, fset: fset, files: files, info: info, pkg: pkg}, nil
}

// ---------- function summaries ----------

type pvFunc struct {
	key      string
	p        *pvPkg
	decl     *ast.FuncDecl
	obj      *types.Func
	params   []*types.Var // positional (receiver excluded)
	recv     *types.Var
	variadic bool
	results  []pvSet
	retSelf  map[int]string // param index -> reason: the parameter's own backing array is retained
	retElem  map[int]string // param index -> reason: a backing array held as an element is retained
	unkCall  map[int]string // param index -> callee of unknown retention behaviour (declared in analysed code, no body found)
}

type pvWorld struct {
	pkgs   []*pvPkg
	byObj  map[*types.Func]*pvFunc
	funcs  []*pvFunc
	named  []*types.Named // all named (non-interface) types of the analysed packages
	inPkgs map[*types.Package]bool
}

func pvRecvTypeName(t types.Type) string {
	if p, ok := t.(*types.Pointer); ok {
		t = p.Elem()
	}
	if n, ok := t.(*types.Named); ok {
		return n.Obj().Name()
	}
	return "?"
}

func (w *pvWorld) collect(p *pvPkg) {
	for _, f := range p.files {
		for _, d := range f.Decls {
			fd, ok := d.(*ast.FuncDecl)
			if !ok || fd.Body == nil {
				continue
			}
			obj, _ := p.info.Defs[fd.Name].(*types.Func)
			if obj == nil {
				continue
			}
			sig := obj.Type().(*types.Signature)
			fn := &pvFunc{p: p, decl: fd, obj: obj, recv: sig.Recv(), variadic: sig.Variadic(),
				retSelf: map[int]string{}, retElem: map[int]string{}, unkCall: map[int]string{}}
			fn.key = p.short + "." + fd.Name.Name
			if sig.Recv() != nil {
				fn.key = p.short + "." + pvRecvTypeName(sig.Recv().Type()) + "." + fd.Name.Name
			}
			for i := 0; i < sig.Params().Len(); i++ {
				fn.params = append(fn.params, sig.Params().At(i))
			}
			for i := 0; i < sig.Results().Len(); i++ {
				fn.results = append(fn.results, pvSet{})
			}
			w.byObj[obj] = fn
			w.funcs = append(w.funcs, fn)
		}
	}
	sc := p.pkg.Scope()
	for _, n := range sc.Names() {
		if tn, ok := sc.Lookup(n).(*types.TypeName); ok {
			if nt, ok := tn.Type().(*types.Named); ok {
				if _, isIface := nt.Underlying().(*types.Interface); !isIface {
					w.named = append(w.named, nt)
				}
			}
		}
	}
}

// ---------- type predicates ----------

// pvCarries: can a value of this type carry a reference to a caller-mutable backing array?
// (slices, pointers to arrays, `any`, type parameters, structs / arrays containing those)
func pvCarries(t types.Type, depth int) bool {
	if t == nil || depth > 6 {
		return true
	}
	switch u := t.Underlying().(type) {
	case *types.Basic:
		return u.Kind() == types.Invalid || u.Kind() == types.UnsafePointer
	case *types.Slice:
		return true
	case *types.Pointer:
		// *byte (unsafe.SliceData) and *[N]T point into arrays; pointers to structs are objects, not buffers
		switch e := u.Elem().Underlying().(type) {
		case *types.Array:
			return true
		case *types.Basic:
			return true
		case *types.Struct:
			_ = e
			return false
		}
		return false
	case *types.Interface:
		return u.NumMethods() == 0 // `any` may hold a slice; method-bearing interfaces here are immutable objects
	case *types.Struct:
		for i := 0; i < u.NumFields(); i++ {
			if pvCarries(u.Field(i).Type(), depth+1) {
				return true
			}
		}
		return false
	case *types.Array:
		return pvCarries(u.Elem(), depth+1)
	case *types.TypeParam:
		return true
	case *types.Map, *types.Chan:
		return true
	case *types.Signature:
		return false
	}
	return false
}

// pvRefLike: does a value of this type alias storage at all (used for field reads: is `x.f` a view?)
func pvRefLike(t types.Type) bool {
	if t == nil {
		return true
	}
	switch u := t.Underlying().(type) {
	case *types.Basic:
		return u.Kind() == types.Invalid || u.Kind() == types.UnsafePointer
	case *types.Slice, *types.Pointer, *types.Map, *types.Chan, *types.Interface, *types.Signature, *types.TypeParam:
		return true
	case *types.Struct:
		return pvCarries(t, 0)
	case *types.Array:
		return pvCarries(t, 0)
	}
	return false
}

func pvInvalid(t types.Type) bool {
	if t == nil {
		return true
	}
	b, ok := t.Underlying().(*types.Basic)
	return ok && b.Kind() == types.Invalid
}

func pvIsString(t types.Type) bool {
	if t == nil {
		return false
	}
	b, ok := t.Underlying().(*types.Basic)
	return ok && b.Info()&types.IsString != 0
}

func pvIsArray(t types.Type) bool {
	if t == nil {
		return false
	}
	_, ok := t.Underlying().(*types.Array)
	return ok
}

func pvListedResult(t types.Type) bool {
	switch u := t.Underlying().(type) {
	case *types.Slice, *types.Array:
		return true
	case *types.Pointer:
		_, ok := u.Elem().Underlying().(*types.Array)
		return ok
	case *types.Basic:
		return u.Info()&types.IsString != 0
	}
	return false
}

// ---------- per-function analysis ----------

type pvRef struct {
	e    ast.Expr
	k    int  // result index when e is a multi-value call / comma-ok expression (else -1)
	elem bool // the variable receives an ELEMENT of e (range value)
	zero types.Type
}

type pvAn struct {
	w      *pvWorld
	fn     *pvFunc
	info   *types.Info
	pidx   map[*types.Var]int // parameter -> index (-1 receiver)
	vars   map[*types.Var]pvSet
	binds  map[*types.Var][]pvRef
	locals map[*types.Var]bool
}

func (a *pvAn) typeOf(e ast.Expr) types.Type {
	if tv, ok := a.info.Types[e]; ok {
		// comma-ok forms (v, ok := x.(T) / m[k] / <-ch) are recorded with a tuple type: the value is its first component
		if tup, isTup := tv.Type.(*types.Tuple); isTup {
			if _, isCall := e.(*ast.CallExpr); !isCall && tup.Len() > 0 {
				return tup.At(0).Type()
			}
		}
		return tv.Type
	}
	return nil
}

func (a *pvAn) varOf(id *ast.Ident) *types.Var {
	if o, ok := a.info.Uses[id].(*types.Var); ok {
		return o
	}
	if o, ok := a.info.Defs[id].(*types.Var); ok {
		return o
	}
	return nil
}

func pvRootIdent(e ast.Expr) *ast.Ident {
	for {
		switch x := e.(type) {
		case *ast.Ident:
			return x
		case *ast.SelectorExpr:
			e = x.X
		case *ast.IndexExpr:
			e = x.X
		case *ast.StarExpr:
			e = x.X
		case *ast.ParenExpr:
			e = x.X
		case *ast.SliceExpr:
			e = x.X
		case *ast.TypeAssertExpr:
			e = x.X
		case *ast.UnaryExpr:
			e = x.X
		default:
			return nil
		}
	}
}

// elemOf maps the sources of a container to the sources of one of its elements of type et.
func pvElemOf(s pvSet, et types.Type) pvSet {
	if pvIsString(et) {
		return pvOf(pvSrc{kind: pvString})
	}
	if !pvCarries(et, 0) {
		return pvOf(pvSrc{kind: pvValue})
	}
	out := pvSet{}
	for k := range s {
		switch k.kind {
		case pvParam, pvParamElem:
			out[pvSrc{kind: pvParamElem, idx: k.idx}] = struct{}{}
		case pvView, pvVia, pvUnknown:
			out[k] = struct{}{}
		case pvNil:
			out[k] = struct{}{}
		default:
			out[pvSrc{kind: pvUnknown, text: "element-of-local-slice"}] = struct{}{}
		}
	}
	return out
}

func (a *pvAn) rootParam(e ast.Expr) int {
	id := pvRootIdent(e)
	if id == nil {
		return -2
	}
	v := a.varOf(id)
	if v == nil {
		return -2
	}
	if i, ok := a.pidx[v]; ok {
		return i
	}
	for k := range a.vars[v] {
		if k.kind == pvParam || k.kind == pvParamElem || (k.kind == pvView && k.idx > -2) {
			return k.idx
		}
	}
	return -2
}

func (a *pvAn) fieldOwner(sel *ast.SelectorExpr) string {
	if s, ok := a.info.Selections[sel]; ok {
		return pvRecvTypeName(s.Recv()) + "." + sel.Sel.Name
	}
	return pvRecvTypeName(a.typeOf(sel.X)) + "." + sel.Sel.Name
}

func (a *pvAn) srcs(e ast.Expr) pvSet {
	t := a.typeOf(e)
	switch x := e.(type) {
	case *ast.ParenExpr:
		return a.srcs(x.X)
	case *ast.BasicLit:
		if x.Kind == token.STRING {
			return pvOf(pvSrc{kind: pvString})
		}
		return pvOf(pvSrc{kind: pvValue})
	case *ast.FuncLit:
		return pvOf(pvSrc{kind: pvFresh})
	case *ast.Ident:
		if x.Name == "nil" {
			if _, ok := a.info.Uses[x].(*types.Nil); ok {
				return pvOf(pvSrc{kind: pvNil})
			}
		}
		switch o := a.info.Uses[x].(type) {
		case *types.Const:
			if pvIsString(o.Type()) {
				return pvOf(pvSrc{kind: pvString})
			}
			return pvOf(pvSrc{kind: pvValue})
		case *types.Func, *types.TypeName, *types.Builtin, *types.PkgName:
			return pvOf(pvSrc{kind: pvValue})
		}
		v := a.varOf(x)
		if v == nil {
			return pvOf(pvSrc{kind: pvUnknown, text: "ident " + x.Name})
		}
		if pvIsString(v.Type()) {
			// a string variable: immutable unless it was minted from caller bytes through unsafe (tracked)
			out := pvOf(pvSrc{kind: pvString})
			for k := range a.vars[v] {
				if k.kind != pvString && k.kind != pvValue && k.kind != pvNil && k.kind != pvFresh && k.kind != pvClone {
					out[k] = struct{}{}
				}
			}
			return out
		}
		if !pvRefLike(v.Type()) {
			return pvOf(pvSrc{kind: pvValue})
		}
		out := pvSet{}
		if i, ok := a.pidx[v]; ok {
			out[pvSrc{kind: pvParam, idx: i}] = struct{}{}
		} else if !a.locals[v] && v.Parent() == a.fn.p.pkg.Scope() {
			out[pvSrc{kind: pvView, idx: -2, text: "package-var " + v.Name()}] = struct{}{}
		}
		out.addAll(a.vars[v])
		return out
	case *ast.CompositeLit:
		if t == nil {
			return pvOf(pvSrc{kind: pvFresh})
		}
		switch u := t.Underlying().(type) {
		case *types.Array:
			if !pvCarries(u.Elem(), 0) {
				return pvOf(pvSrc{kind: pvValue})
			}
		case *types.Slice:
			out := pvOf(pvSrc{kind: pvFresh})
			if pvCarries(u.Elem(), 0) {
				for _, el := range x.Elts {
					if kv, ok := el.(*ast.KeyValueExpr); ok {
						el = kv.Value
					}
					for k := range a.srcs(el) {
						if k.kind >= pvParam {
							out[k] = struct{}{}
						}
					}
				}
			}
			return out
		}
		out := pvOf(pvSrc{kind: pvFresh})
		for _, el := range x.Elts {
			if kv, ok := el.(*ast.KeyValueExpr); ok {
				el = kv.Value
			}
			if et := a.typeOf(el); et == nil || pvCarries(et, 0) {
				for k := range a.srcs(el) {
					if k.kind >= pvParam {
						out[k] = struct{}{}
					}
				}
			}
		}
		return out
	case *ast.UnaryExpr:
		if x.Op == token.AND {
			return a.srcs(x.X)
		}
		if x.Op == token.ARROW {
			return pvOf(pvSrc{kind: pvUnknown, text: "channel-receive"})
		}
		return pvOf(pvSrc{kind: pvValue})
	case *ast.StarExpr:
		return a.srcs(x.X)
	case *ast.BinaryExpr:
		if pvIsString(t) {
			return pvOf(pvSrc{kind: pvString})
		}
		return pvOf(pvSrc{kind: pvValue})
	case *ast.SliceExpr:
		xt := a.typeOf(x.X)
		if pvIsString(xt) {
			return a.srcs(x.X)
		}
		if pvIsArray(xt) {
			// slicing an array VALUE: a local (or by-value parameter) array is this call's own storage
			if id, ok := x.X.(*ast.Ident); ok {
				if v := a.varOf(id); v != nil && (a.locals[v] || a.isParam(v)) {
					return pvOf(pvSrc{kind: pvFresh})
				}
			}
			if sel, ok := x.X.(*ast.SelectorExpr); ok {
				return pvOf(pvSrc{kind: pvView, idx: a.rootParam(sel.X), text: a.fieldOwner(sel)})
			}
			return pvOf(pvSrc{kind: pvUnknown, text: "slice-of-array-expression"})
		}
		return a.srcs(x.X)
	case *ast.IndexExpr:
		if tv, ok := a.info.Types[x.X]; ok && !tv.IsValue() {
			return pvOf(pvSrc{kind: pvValue}) // generic instantiation
		}
		if pvIsString(t) {
			return pvOf(pvSrc{kind: pvString})
		}
		if t != nil && !pvRefLike(t) {
			return pvOf(pvSrc{kind: pvValue})
		}
		return pvElemOf(a.srcs(x.X), t)
	case *ast.TypeAssertExpr:
		if x.Type != nil && t != nil && !pvRefLike(t) && !pvIsString(t) {
			return pvOf(pvSrc{kind: pvValue})
		}
		if pvIsString(t) {
			return pvOf(pvSrc{kind: pvString})
		}
		return a.srcs(x.X)
	case *ast.SelectorExpr:
		if id, ok := x.X.(*ast.Ident); ok {
			if _, isPkg := a.info.Uses[id].(*types.PkgName); isPkg {
				switch o := a.info.Uses[x.Sel].(type) {
				case *types.Var:
					if pvIsString(o.Type()) {
						return pvOf(pvSrc{kind: pvString})
					}
					if pvRefLike(o.Type()) {
						return pvOf(pvSrc{kind: pvView, idx: -2, text: "package-var " + id.Name + "." + x.Sel.Name})
					}
				}
				return pvOf(pvSrc{kind: pvValue})
			}
		}
		if s, ok := a.info.Selections[x]; ok && s.Kind() != types.FieldVal {
			return pvOf(pvSrc{kind: pvValue}) // method value
		}
		if pvIsString(t) {
			// a string field: immutable (decoded items hold strings minted over the decode buffer, which
			// paramRetention accounts for at the decode entry point)
			return pvOf(pvSrc{kind: pvString})
		}
		if t != nil && !pvRefLike(t) {
			return pvOf(pvSrc{kind: pvValue})
		}
		return pvOf(pvSrc{kind: pvView, idx: a.rootParam(x.X), text: a.fieldOwner(x)})
	case *ast.CallExpr:
		return a.callSrcs(x, 0)
	case *ast.KeyValueExpr:
		return a.srcs(x.Value)
	}
	return pvOf(pvSrc{kind: pvUnknown, text: fmt.Sprintf("%T", e)})
}

func (a *pvAn) isParam(v *types.Var) bool { _, ok := a.pidx[v]; return ok }

// external wrappers whose RESULT aliases their first argument
var pvExternalAlias = map[string]bool{
	"unsafe.Slice": true, "unsafe.SliceData": true, "unsafe.String": true, "unsafe.StringData": true,
	"bytes.NewBuffer": true, "bytes.NewReader": true, "bytes.TrimSpace": true, "bytes.Trim": true,
	"bytes.TrimLeft": true, "bytes.TrimRight": true, "bytes.TrimPrefix": true, "bytes.TrimSuffix": true,
	"bytes.Fields": true, "bytes.Split": true, "slices.Clip": true, "slices.Grow": true,
}

var pvExternalClone = map[string]bool{"slices.Clone": true, "bytes.Clone": true, "bytes.Repeat": false}

func (a *pvAn) calleeText(fun ast.Expr) string {
	switch f := fun.(type) {
	case *ast.Ident:
		return f.Name
	case *ast.SelectorExpr:
		if id, ok := f.X.(*ast.Ident); ok {
			if _, isPkg := a.info.Uses[id].(*types.PkgName); isPkg {
				return id.Name + "." + f.Sel.Name
			}
		}
		if s, ok := a.info.Selections[f]; ok {
			return pvRecvTypeName(s.Recv()) + "." + f.Sel.Name
		}
		return "?." + f.Sel.Name
	case *ast.ParenExpr:
		return a.calleeText(f.X)
	case *ast.IndexExpr:
		return a.calleeText(f.X)
	}
	return fmt.Sprintf("%T", fun)
}

// resolve returns the analysed functions a call may dispatch to, the receiver expression (nil for
// plain functions) and whether the callee is declared in analysed code at all.
func (a *pvAn) resolve(call *ast.CallExpr) (targets []*pvFunc, recv ast.Expr, declared bool) {
	fun := call.Fun
	for {
		if p, ok := fun.(*ast.ParenExpr); ok {
			fun = p.X
			continue
		}
		if ix, ok := fun.(*ast.IndexExpr); ok { // explicit instantiation f[T](...)
			fun = ix.X
			continue
		}
		break
	}
	var obj *types.Func
	switch f := fun.(type) {
	case *ast.Ident:
		obj, _ = a.info.Uses[f].(*types.Func)
	case *ast.SelectorExpr:
		obj, _ = a.info.Uses[f.Sel].(*types.Func)
		if s, ok := a.info.Selections[f]; ok && s.Kind() == types.MethodVal {
			recv = f.X
		}
	}
	if obj == nil {
		return nil, recv, false
	}
	obj = obj.Origin()
	if !a.w.inPkgs[obj.Pkg()] {
		return nil, recv, false
	}
	if fn := a.w.byObj[obj]; fn != nil {
		return []*pvFunc{fn}, recv, true
	}
	// interface method: every implementation in the analysed packages
	sig := obj.Type().(*types.Signature)
	if sig.Recv() != nil {
		if iface, ok := sig.Recv().Type().Underlying().(*types.Interface); ok {
			seen := map[*pvFunc]bool{}
			for _, nt := range a.w.named {
				for _, T := range []types.Type{nt, types.NewPointer(nt)} {
					if nt.TypeParams().Len() > 0 || !types.Implements(T, iface) {
						continue
					}
					m, _, _ := types.LookupFieldOrMethod(T, true, obj.Pkg(), obj.Name())
					if mf, ok := m.(*types.Func); ok {
						if fn := a.w.byObj[mf.Origin()]; fn != nil && !seen[fn] {
							seen[fn] = true
							targets = append(targets, fn)
						}
					}
				}
			}
		}
	}
	return targets, recv, true
}

// argSrcs returns the sources bound to callee parameter i (and, for param-elem substitution, the
// sources of the elements bound to it).
func (a *pvAn) argSrcs(call *ast.CallExpr, fn *pvFunc, recv ast.Expr, i int) (self pvSet, elem pvSet) {
	self, elem = pvSet{}, pvSet{}
	if i == -1 {
		if recv != nil {
			self = a.srcs(recv)
		}
		return
	}
	if i >= len(fn.params) {
		return
	}
	pt := fn.params[i].Type()
	last := len(fn.params) - 1
	if fn.variadic && i == last {
		if call.Ellipsis.IsValid() && len(call.Args) == len(fn.params) {
			self = a.srcs(call.Args[i])
			if sl, ok := pt.Underlying().(*types.Slice); ok {
				elem = pvElemOf(self, sl.Elem())
			}
			return
		}
		// the implicit variadic slice is fresh; its elements are the arguments
		self = pvOf(pvSrc{kind: pvFresh})
		for j := last; j < len(call.Args); j++ {
			if at := a.typeOf(call.Args[j]); at == nil || pvCarries(at, 0) {
				elem.addAll(a.srcs(call.Args[j]))
			}
		}
		return
	}
	if i < len(call.Args) {
		self = a.srcs(call.Args[i])
		switch u := pt.Underlying().(type) {
		case *types.Slice:
			elem = pvElemOf(self, u.Elem())
		case *types.Interface:
			elem = self // an `any` holding a slice: its "element" is what it holds
		}
	}
	return
}

func (a *pvAn) substitute(call *ast.CallExpr, fn *pvFunc, recv ast.Expr, s pvSet) pvSet {
	out := pvSet{}
	for k := range s {
		switch k.kind {
		case pvParam:
			self, _ := a.argSrcs(call, fn, recv, k.idx)
			out.addAll(self)
		case pvParamElem:
			_, elem := a.argSrcs(call, fn, recv, k.idx)
			out.addAll(elem)
		case pvView:
			root := -2
			if k.idx > -2 {
				self, _ := a.argSrcs(call, fn, recv, k.idx)
				for q := range self {
					if q.kind == pvParam || q.kind == pvParamElem || (q.kind == pvView && q.idx > -2) {
						root = q.idx
					}
				}
			}
			out[pvSrc{kind: pvView, idx: root, text: k.text}] = struct{}{}
		default:
			out[k] = struct{}{}
		}
	}
	return out
}

// callSrcs: sources of result k of a call.
func (a *pvAn) callSrcs(call *ast.CallExpr, k int) pvSet {
	// conversions
	if tv, ok := a.info.Types[call.Fun]; ok && tv.IsType() && len(call.Args) == 1 {
		to, from := tv.Type, a.typeOf(call.Args[0])
		switch {
		case pvIsString(to) && !pvIsString(from):
			return pvOf(pvSrc{kind: pvString}) // string(bytes) copies
		case pvIsString(from) && !pvIsString(to):
			return pvOf(pvSrc{kind: pvFresh}) // []byte(string) copies
		}
		return a.srcs(call.Args[0])
	}
	name := a.calleeText(call.Fun)
	if id, ok := call.Fun.(*ast.Ident); ok {
		if _, isB := a.info.Uses[id].(*types.Builtin); isB {
			switch id.Name {
			case "make", "new":
				return pvOf(pvSrc{kind: pvFresh})
			case "append":
				if len(call.Args) == 0 {
					return pvOf(pvSrc{kind: pvNil})
				}
				base := a.srcs(call.Args[0])
				out := pvSet{}
				for s := range base {
					if s.kind == pvNil {
						if call.Ellipsis.IsValid() {
							out[pvSrc{kind: pvClone}] = struct{}{}
						} else {
							out[pvSrc{kind: pvFresh}] = struct{}{}
						}
						continue
					}
					out[s] = struct{}{}
				}
				var et types.Type
				if sl, ok := a.typeOf(call.Args[0]).Underlying().(*types.Slice); ok {
					et = sl.Elem()
				}
				if et == nil || pvCarries(et, 0) {
					for j := 1; j < len(call.Args); j++ {
						s := a.srcs(call.Args[j])
						if call.Ellipsis.IsValid() && j == len(call.Args)-1 {
							s = pvElemOf(s, et)
						}
						for q := range s {
							if q.kind >= pvParam {
								out[q] = struct{}{}
							}
						}
					}
				}
				return out
			default:
				return pvOf(pvSrc{kind: pvValue})
			}
		}
	}
	targets, recv, declared := a.resolve(call)
	if len(targets) > 0 {
		out := pvSet{}
		for _, fn := range targets {
			if k < len(fn.results) {
				out.addAll(a.substitute(call, fn, recv, fn.results[k]))
			}
		}
		return out
	}
	// result type decides for non-aliasing kinds
	var rt types.Type
	if t := a.typeOf(call); t != nil {
		if tup, ok := t.(*types.Tuple); ok {
			if k < tup.Len() {
				rt = tup.At(k).Type()
			}
		} else {
			rt = t
		}
	}
	if pvExternalAlias[name] && len(call.Args) > 0 {
		return a.srcs(call.Args[0])
	}
	if pvIsString(rt) {
		return pvOf(pvSrc{kind: pvString})
	}
	if rt != nil && !pvRefLike(rt) {
		return pvOf(pvSrc{kind: pvValue})
	}
	if v, ok := pvExternalClone[name]; ok && v {
		return pvOf(pvSrc{kind: pvClone})
	}
	if !declared {
		base := name[strings.LastIndex(name, ".")+1:]
		if strings.HasPrefix(base, "Append") && len(call.Args) > 0 {
			return a.srcs(call.Args[0]) // strconv.AppendInt, binary.BigEndian.AppendUint16, fmt.Appendf, ...
		}
	}
	if rt != nil {
		if _, isErr := rt.Underlying().(*types.Interface); isErr && rt.String() == "error" {
			return pvOf(pvSrc{kind: pvValue})
		}
	}
	return pvOf(pvSrc{kind: pvVia, text: name})
}

func (a *pvAn) refSrcs(r pvRef) pvSet {
	if r.e == nil {
		switch {
		case r.zero == nil:
			return pvOf(pvSrc{kind: pvNil})
		case pvIsString(r.zero):
			return pvOf(pvSrc{kind: pvString})
		case pvIsArray(r.zero) || !pvRefLike(r.zero):
			return pvOf(pvSrc{kind: pvValue})
		}
		return pvOf(pvSrc{kind: pvNil})
	}
	var s pvSet
	if r.k >= 0 {
		switch x := r.e.(type) {
		case *ast.CallExpr:
			s = a.callSrcs(x, r.k)
		default:
			if r.k == 0 {
				s = a.srcs(r.e)
			} else {
				s = pvOf(pvSrc{kind: pvValue})
			}
		}
	} else {
		s = a.srcs(r.e)
	}
	if r.elem {
		var et types.Type
		switch u := a.typeOf(r.e).(type) {
		case nil:
		default:
			switch c := u.Underlying().(type) {
			case *types.Slice:
				et = c.Elem()
			case *types.Array:
				et = c.Elem()
			case *types.Map:
				et = c.Elem()
			case *types.Pointer:
				if arr, ok := c.Elem().Underlying().(*types.Array); ok {
					et = arr.Elem()
				}
			case *types.Basic:
				return pvOf(pvSrc{kind: pvValue}) // range over string / int
			}
		}
		return pvElemOf(s, et)
	}
	return s
}

// bind collects every assignment to a variable in the function body.
func (a *pvAn) collectBinds() {
	add := func(id *ast.Ident, r pvRef) {
		if id == nil || id.Name == "_" {
			return
		}
		if v := a.varOf(id); v != nil {
			if _, isDef := a.info.Defs[id]; isDef {
				a.locals[v] = true
			}
			a.binds[v] = append(a.binds[v], r)
		}
	}
	ast.Inspect(a.fn.decl.Body, func(n ast.Node) bool {
		switch s := n.(type) {
		case *ast.AssignStmt:
			if s.Tok != token.ASSIGN && s.Tok != token.DEFINE {
				return true
			}
			for i, l := range s.Lhs {
				var r pvRef
				if len(s.Lhs) == len(s.Rhs) {
					r = pvRef{e: s.Rhs[i], k: -1}
				} else if len(s.Rhs) == 1 {
					r = pvRef{e: s.Rhs[0], k: i}
				} else {
					continue
				}
				switch lx := l.(type) {
				case *ast.Ident:
					add(lx, r)
				case *ast.IndexExpr:
					// storing a reference INTO a local slice taints the slice
					if id, ok := lx.X.(*ast.Ident); ok {
						if v := a.varOf(id); v != nil && !a.isParam(v) {
							if et := a.typeOf(lx); et == nil || pvCarries(et, 0) {
								a.binds[v] = append(a.binds[v], r)
							}
						}
					}
				}
			}
		case *ast.DeclStmt:
			gd, ok := s.Decl.(*ast.GenDecl)
			if !ok || gd.Tok != token.VAR {
				return true
			}
			for _, sp := range gd.Specs {
				vs := sp.(*ast.ValueSpec)
				for i, nm := range vs.Names {
					switch {
					case len(vs.Values) == len(vs.Names):
						add(nm, pvRef{e: vs.Values[i], k: -1})
					case len(vs.Values) == 1:
						add(nm, pvRef{e: vs.Values[0], k: i})
					default:
						if v := a.varOf(nm); v != nil {
							a.locals[v] = true
							a.binds[v] = append(a.binds[v], pvRef{zero: v.Type()})
						}
					}
				}
			}
		case *ast.RangeStmt:
			if s.Tok == token.DEFINE || s.Tok == token.ASSIGN {
				if id, ok := s.Key.(*ast.Ident); ok {
					if v := a.varOf(id); v != nil {
						a.locals[v] = true
					}
				}
				if id, ok := s.Value.(*ast.Ident); ok {
					add(id, pvRef{e: s.X, k: -1, elem: true})
				}
			}
		case *ast.TypeSwitchStmt:
			as, ok := s.Assign.(*ast.AssignStmt)
			if !ok || len(as.Rhs) != 1 {
				return true
			}
			ta, ok := as.Rhs[0].(*ast.TypeAssertExpr)
			if !ok {
				return true
			}
			for _, c := range s.Body.List {
				if v, ok := a.info.Implicits[c].(*types.Var); ok {
					a.locals[v] = true
					if pvRefLike(v.Type()) && !pvIsString(v.Type()) {
						a.binds[v] = append(a.binds[v], pvRef{e: ta.X, k: -1})
					} else {
						a.binds[v] = append(a.binds[v], pvRef{zero: v.Type()})
					}
				}
			}
		}
		return true
	})
	// named results start at their zero value
	sig := a.fn.obj.Type().(*types.Signature)
	for i := 0; i < sig.Results().Len(); i++ {
		if v := sig.Results().At(i); v.Name() != "" && v.Name() != "_" {
			a.locals[v] = true
			a.binds[v] = append(a.binds[v], pvRef{zero: v.Type()})
		}
	}
}

func (a *pvAn) solveVars() {
	for v := range a.binds {
		a.vars[v] = pvSet{}
	}
	for iter := 0; iter < 40; iter++ {
		ch := false
		for v, rs := range a.binds {
			for _, r := range rs {
				if a.vars[v].addAll(a.refSrcs(r)) {
					ch = true
				}
			}
		}
		if !ch {
			return
		}
	}
}

// sink records that expression sources reach a retention point.
func (a *pvAn) sink(s pvSet, why string) bool {
	ch := false
	for k := range s {
		switch k.kind {
		case pvParam:
			if k.idx >= 0 {
				if _, ok := a.fn.retSelf[k.idx]; !ok {
					a.fn.retSelf[k.idx] = why
					ch = true
				}
			}
		case pvParamElem:
			if k.idx >= 0 {
				if _, ok := a.fn.retElem[k.idx]; !ok {
					a.fn.retElem[k.idx] = why
					ch = true
				}
			}
		case pvView:
			if k.idx >= 0 {
				if _, ok := a.fn.retSelf[k.idx]; !ok {
					a.fn.retSelf[k.idx] = why + " (through " + k.text + ")"
					ch = true
				}
			}
		}
	}
	return ch
}

func (a *pvAn) carriesExpr(e ast.Expr) bool {
	t := a.typeOf(e)
	return t == nil || pvCarries(t, 0) || pvIsString(t)
}

func (a *pvAn) findSinks() bool {
	ch := false
	pos := func(n ast.Node) string {
		p := a.fn.p.fset.Position(n.Pos())
		return fmt.Sprintf("%s:%d", filepath.Base(p.Filename), p.Line)
	}
	var litDepth []*ast.FuncLit
	var walk func(n ast.Node) bool
	walk = func(n ast.Node) bool {
		switch s := n.(type) {
		case *ast.AssignStmt:
			if s.Tok == token.ASSIGN || s.Tok == token.DEFINE {
				for i, l := range s.Lhs {
					var r pvRef
					if len(s.Lhs) == len(s.Rhs) {
						r = pvRef{e: s.Rhs[i], k: -1}
					} else if len(s.Rhs) == 1 {
						r = pvRef{e: s.Rhs[0], k: i}
					} else {
						continue
					}
					stored := false
					switch lx := l.(type) {
					case *ast.SelectorExpr, *ast.StarExpr:
						stored = true
					case *ast.IndexExpr:
						if id, ok := lx.X.(*ast.Ident); ok {
							if v := a.varOf(id); v != nil && (a.locals[v] || a.isParam(v)) {
								break // element store into a local slice: tracked as a binding
							}
						}
						stored = true
					case *ast.Ident:
						if v := a.varOf(lx); v != nil && !a.locals[v] && !a.isParam(v) {
							stored = true // package-level variable
						}
					}
					if stored {
						if lt := a.typeOf(l); lt == nil || pvCarries(lt, 0) || pvIsString(lt) {
							if a.sink(a.refSrcs(r), "stored at "+pos(s)) {
								ch = true
							}
						}
					}
				}
			}
		case *ast.CompositeLit:
			t := a.typeOf(s)
			if t != nil {
				if _, isStruct := t.Underlying().(*types.Struct); isStruct {
					for _, el := range s.Elts {
						if kv, ok := el.(*ast.KeyValueExpr); ok {
							el = kv.Value
						}
						if a.carriesExpr(el) {
							if a.sink(a.srcs(el), "placed in a "+pvRecvTypeName(t)+" literal at "+pos(s)) {
								ch = true
							}
						}
					}
				}
			}
		case *ast.SendStmt:
			if a.sink(a.srcs(s.Value), "sent on a channel at "+pos(s)) {
				ch = true
			}
		case *ast.GoStmt:
			for _, arg := range s.Call.Args {
				if a.sink(a.srcs(arg), "passed to a goroutine at "+pos(s)) {
					ch = true
				}
			}
		case *ast.FuncLit:
			// captured variables escape with the closure
			ast.Inspect(s.Body, func(m ast.Node) bool {
				if id, ok := m.(*ast.Ident); ok {
					if v, ok := a.info.Uses[id].(*types.Var); ok && !v.IsField() {
						if v.Pos() < s.Pos() || v.Pos() > s.End() {
							if a.sink(a.srcs(id), "captured by a closure at "+pos(s)) {
								ch = true
							}
						}
					}
				}
				return true
			})
			litDepth = append(litDepth, s)
		case *ast.CallExpr:
			targets, recv, declared := a.resolve(s)
			for _, fn := range targets {
				for i, why := range fn.retSelf {
					self, _ := a.argSrcs(s, fn, recv, i)
					if a.sink(self, "passed to "+fn.key+" which retains it ("+why+")") {
						ch = true
					}
				}
				for i, why := range fn.retElem {
					_, elem := a.argSrcs(s, fn, recv, i)
					if a.sink(elem, "passed to "+fn.key+" which retains an element ("+why+")") {
						ch = true
					}
				}
				for i, callee := range fn.unkCall {
					self, elem := a.argSrcs(s, fn, recv, i)
					if a.unknownSink(self, callee) || a.unknownSink(elem, callee) {
						ch = true
					}
				}
			}
			if declared && len(targets) == 0 {
				// declared in analysed code but no body (interface without implementation here, func value field)
				name := a.calleeText(s.Fun)
				for _, arg := range s.Args {
					if a.carriesExpr(arg) && !pvIsString(a.typeOf(arg)) {
						if a.unknownSink(a.srcs(arg), name) {
							ch = true
						}
					}
				}
			} else if !declared {
				if _, isFuncValue := a.typeOf(s.Fun).(*types.Signature); isFuncValue {
					if tv, ok := a.info.Types[s.Fun]; ok && tv.IsValue() && a.isFuncValueCall(s) {
						name := a.calleeText(s.Fun)
						for _, arg := range s.Args {
							if a.carriesExpr(arg) && !pvIsString(a.typeOf(arg)) {
								if a.unknownSink(a.srcs(arg), "func-value "+name) {
									ch = true
								}
							}
						}
					}
				}
			}
		}
		return true
	}
	ast.Inspect(a.fn.decl.Body, walk)
	_ = litDepth
	return ch
}

// isFuncValueCall: the callee is a variable / field / parameter of function type (a callback), not a
// declared function or method.
func (a *pvAn) isFuncValueCall(call *ast.CallExpr) bool {
	switch f := call.Fun.(type) {
	case *ast.Ident:
		_, isVar := a.info.Uses[f].(*types.Var)
		return isVar
	case *ast.SelectorExpr:
		if s, ok := a.info.Selections[f]; ok {
			return s.Kind() == types.FieldVal
		}
	}
	return false
}

func (a *pvAn) unknownSink(s pvSet, callee string) bool {
	ch := false
	for k := range s {
		if (k.kind == pvParam || k.kind == pvParamElem || k.kind == pvView) && k.idx >= 0 {
			if _, ok := a.fn.unkCall[k.idx]; !ok {
				a.fn.unkCall[k.idx] = callee
				ch = true
			}
		}
	}
	return ch
}

func (a *pvAn) collectReturns() bool {
	ch := false
	sig := a.fn.obj.Type().(*types.Signature)
	n := sig.Results().Len()
	if n == 0 {
		return false
	}
	var visit func(node ast.Node) bool
	visit = func(node ast.Node) bool {
		switch s := node.(type) {
		case *ast.FuncLit:
			return false // its returns are its own
		case *ast.ReturnStmt:
			switch {
			case len(s.Results) == n:
				for j, r := range s.Results {
					if a.fn.results[j].addAll(a.srcs(r)) {
						ch = true
					}
				}
			case len(s.Results) == 1:
				if call, ok := s.Results[0].(*ast.CallExpr); ok {
					for j := 0; j < n; j++ {
						if a.fn.results[j].addAll(a.callSrcs(call, j)) {
							ch = true
						}
					}
				}
			case len(s.Results) == 0:
				for j := 0; j < n; j++ {
					v := sig.Results().At(j)
					set := pvSet{}
					if pvIsString(v.Type()) {
						set[pvSrc{kind: pvString}] = struct{}{}
					} else if !pvRefLike(v.Type()) {
						set[pvSrc{kind: pvValue}] = struct{}{}
					}
					set.addAll(a.vars[v])
					if a.fn.results[j].addAll(set) {
						ch = true
					}
				}
			}
		}
		return true
	}
	ast.Inspect(a.fn.decl.Body, visit)
	return ch
}

func (w *pvWorld) analyse(fn *pvFunc) bool {
	a := &pvAn{w: w, fn: fn, info: fn.p.info, pidx: map[*types.Var]int{}, vars: map[*types.Var]pvSet{},
		binds: map[*types.Var][]pvRef{}, locals: map[*types.Var]bool{}}
	if fn.recv != nil {
		a.pidx[fn.recv] = -1
	}
	for i, p := range fn.params {
		a.pidx[p] = i
	}
	a.collectBinds()
	a.solveVars()
	ch := a.collectReturns()
	if a.findSinks() {
		ch = true
	}
	return ch
}

// ---------- emission ----------

func pvExported(fn *pvFunc) bool { return ast.IsExported(fn.decl.Name.Name) }

func pvReasons(s pvSet) string {
	var parts []string
	for _, k := range s.sorted() {
		switch k.kind {
		case pvNil:
			parts = append(parts, "nil")
		case pvString:
			parts = append(parts, "string")
		case pvValue:
			parts = append(parts, "value")
		case pvFresh:
			parts = append(parts, "fresh")
		case pvClone:
			parts = append(parts, "clone")
		case pvParam:
			parts = append(parts, fmt.Sprintf("param#%d", k.idx))
		case pvParamElem:
			parts = append(parts, fmt.Sprintf("param-elem#%d", k.idx))
		case pvVia:
			parts = append(parts, "via:"+k.text)
		case pvView:
			parts = append(parts, "view:"+k.text)
		case pvUnknown:
			parts = append(parts, "unknown:"+k.text)
		}
	}
	return strings.Join(parts, " | ")
}

func emitProvenance(repo, out string) error {
	w := &pvWorld{byObj: map[*types.Func]*pvFunc{}, inPkgs: map[*types.Package]bool{}}
	// dependency order: framecodec <- secs2 <- internal/wire <- hsms
	for _, rel := range []string{"internal/framecodec", "secs2", "internal/wire", "hsms"} {
		p, err := pvLoad(repo, rel)
		if err != nil {
			return err
		}
		w.pkgs = append(w.pkgs, p)
		w.inPkgs[p.pkg] = true
	}
	for _, p := range w.pkgs {
		w.collect(p)
	}
	rounds := 0
	for ; rounds < 60; rounds++ {
		ch := false
		for _, fn := range w.funcs {
			if w.analyse(fn) {
				ch = true
			}
		}
		if !ch {
			break
		}
	}
	sort.Slice(w.funcs, func(i, j int) bool { return w.funcs[i].key < w.funcs[j].key })
	emitPkgs := map[string]bool{"secs2": true, "hsms": true, "wire": true}

	var sb strings.Builder
	sb.WriteString("-- GENERATED by tools/go2lean (provenance.go) from /repo's working tree. Do not edit.\n")
	sb.WriteString("namespace GoSecs.Gen\n\n")
	// (the number of rounds depends on map iteration order and is not printed: the generated file is deterministic)
	_ = rounds
	fmt.Fprintf(&sb, "-- may-alias analysis run to its fixed point over %d functions\n\n", len(w.funcs))
	sb.WriteString("/-- (pkg.Type.Method | pkg.Func, result position, provenance class) for every exported-name function of\n")
	sb.WriteString("    secs2, hsms and internal/wire whose result is a slice, array, pointer-to-array or string. -/\n")
	sb.WriteString("def returnProvenance : List (String × String × String) := [\n")
	var rows []string
	for _, fn := range w.funcs {
		if !pvExported(fn) || !emitPkgs[fn.p.short] {
			continue
		}
		sig := fn.obj.Type().(*types.Signature)
		for j := 0; j < sig.Results().Len(); j++ {
			if !pvListedResult(sig.Results().At(j).Type()) {
				continue
			}
			rows = append(rows, fmt.Sprintf("  (%s, %s, %s)", leanStr(fn.key), leanStr(fmt.Sprint(j)), leanStr(fn.results[j].class()))+
				"\x00  -- "+pvReasons(fn.results[j]))
		}
	}
	pvWriteRows(&sb, rows)
	sb.WriteString("]\n\n")

	sb.WriteString("/-- (function, parameter, copied | retained | unknown:<callee>) for every exported-name function of secs2, hsms\n")
	sb.WriteString("    and internal/wire with a parameter that can carry a caller-owned mutable backing array. -/\n")
	sb.WriteString("def paramRetention : List (String × String × String) := [\n")
	rows = nil
	for _, fn := range w.funcs {
		if !pvExported(fn) || !emitPkgs[fn.p.short] {
			continue
		}
		for i, p := range fn.params {
			if !pvCarries(p.Type(), 0) || pvInvalid(p.Type()) {
				continue // (types imported from packages outside the analysed set are opaque: not listed)
			}
			name := p.Name()
			if name == "" || name == "_" {
				name = fmt.Sprintf("#%d", i)
			}
			class, why := "copied", ""
			if r, ok := fn.retSelf[i]; ok {
				class, why = "retained", r
			} else if r, ok := fn.retElem[i]; ok {
				class, why = "retained", "element: "+r
			} else if c, ok := fn.unkCall[i]; ok {
				class, why = "unknown:"+c, "handed to a callee whose body is not in the analysed packages"
			}
			row := fmt.Sprintf("  (%s, %s, %s)", leanStr(fn.key), leanStr(name), leanStr(class))
			if why != "" {
				row += "\x00  -- " + why
			}
			rows = append(rows, row)
		}
	}
	pvWriteRows(&sb, rows)
	sb.WriteString("]\n\nend GoSecs.Gen\n")
	return os.WriteFile(filepath.Join(out, "Provenance.lean"), []byte(sb.String()), 0o644)
}

// pvWriteRows writes rows separated by commas, keeping the trailing comment (after \x00) behind the comma.
func pvWriteRows(sb *strings.Builder, rows []string) {
	for i, r := range rows {
		row, comment, _ := strings.Cut(r, "\x00")
		sb.WriteString(row)
		if i != len(rows)-1 {
			sb.WriteString(",")
		}
		sb.WriteString(comment)
		sb.WriteString("\n")
	}
}
