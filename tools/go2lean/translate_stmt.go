// translate_stmt.go: statements, loops and whole functions (see translate.go for the accepted subset).
package main

import (
	"fmt"
	"go/ast"
	"go/token"
	"go/types"
	"path/filepath"
	"sort"
	"strings"
)

// ---------- control-flow analysis ----------

// escapes reports whether control can leave n other than by falling off its end: a return, a break that
// targets a statement enclosing n, or a continue that targets a loop enclosing n.
func (t *tr) escapes(n ast.Node) bool {
	found := false
	var walk func(n ast.Node, brk, cont int)
	walk = func(n ast.Node, brk, cont int) {
		if n == nil || found {
			return
		}
		switch s := n.(type) {
		case *ast.ReturnStmt:
			found = true
		case *ast.BranchStmt:
			if s.Label != nil || s.Tok == token.GOTO || s.Tok == token.FALLTHROUGH {
				found = true
				return
			}
			if s.Tok == token.BREAK && brk == 0 {
				found = true
			}
			if s.Tok == token.CONTINUE && cont == 0 {
				found = true
			}
		case *ast.ForStmt:
			walk(s.Body, brk+1, cont+1)
		case *ast.RangeStmt:
			walk(s.Body, brk+1, cont+1)
		case *ast.SwitchStmt:
			walk(s.Body, brk+1, cont)
		case *ast.SelectStmt:
			walk(s.Body, brk+1, cont) // only the context poll is accepted (translate_io.go); a break targets the select
		case *ast.CommClause:
			for _, c := range s.Body {
				walk(c, brk, cont)
			}
		case *ast.TypeSwitchStmt, *ast.FuncLit:
			// rejected elsewhere
		case *ast.BlockStmt:
			for _, c := range s.List {
				walk(c, brk, cont)
			}
		case *ast.IfStmt:
			if t.isYieldIf(s) != nil {
				return
			}
			walk(s.Body, brk, cont)
			walk(s.Else, brk, cont)
		case *ast.CaseClause:
			for _, c := range s.Body {
				walk(c, brk, cont)
			}
		case *ast.LabeledStmt:
			found = true
		}
	}
	switch s := n.(type) {
	case *ast.SwitchStmt:
		walk(s.Body, 1, 0)
	case *ast.SelectStmt:
		walk(s.Body, 1, 0)
	case *ast.ForStmt:
		walk(s.Body, 1, 1)
	case *ast.RangeStmt:
		walk(s.Body, 1, 1)
	default:
		walk(n, 0, 0)
	}
	return found
}

// lvalueRoot: the variable an assignment target is rooted at.
func (t *tr) lvalueRoot(e ast.Expr) *types.Var { return t.rootVar(e) }

// dstOfCall: for copy(dst, …) and binary.BigEndian.PutUintN(dst, …) the destination expression.
func (t *tr) dstOfCall(x *ast.CallExpr) ast.Expr {
	if id, ok := ast.Unparen(x.Fun).(*ast.Ident); ok && id.Name == "copy" && len(x.Args) == 2 {
		if _, isB := t.p.info.Uses[id].(*types.Builtin); isB {
			return x.Args[0]
		}
	}
	switch t.externalName(x.Fun) {
	case "encoding/binary.BigEndian.PutUint16", "encoding/binary.BigEndian.PutUint32", "encoding/binary.BigEndian.PutUint64":
		if len(x.Args) == 2 {
			return x.Args[0]
		}
	}
	return nil
}

// assignedIn: variables assigned anywhere inside the nodes (syntactically), in declaration order.
func (t *tr) assignedIn(nodes ...ast.Node) []*types.Var {
	set := map[*types.Var]bool{}
	add := func(e ast.Expr) {
		if v := t.lvalueRoot(e); v != nil && t.isLocal(v) {
			set[v] = true
		}
	}
	for _, n := range nodes {
		if n == nil {
			continue
		}
		ast.Inspect(n, func(n ast.Node) bool {
			switch s := n.(type) {
			case *ast.AssignStmt:
				for _, l := range s.Lhs {
					if id, ok := l.(*ast.Ident); ok && s.Tok == token.DEFINE {
						if _, isDef := t.p.info.Defs[id].(*types.Var); isDef {
							continue // a new variable, not an assignment to an existing one
						}
					}
					add(l)
				}
			case *ast.IncDecStmt:
				add(s.X)
			case *ast.CallExpr:
				if t.isYieldCall(s) != nil {
					set[t.iter.acc] = true
				}
				for _, d := range t.writtenByCall(s) {
					add(d)
				}
			case *ast.ExprStmt:
				if c, ok := s.X.(*ast.CallExpr); ok {
					if d := t.dstOfCall(c); d != nil {
						add(d)
					}
				}
			case *ast.RangeStmt:
				if s.Tok == token.ASSIGN {
					if s.Key != nil {
						add(s.Key)
					}
					if s.Value != nil {
						add(s.Value)
					}
				}
			}
			return true
		})
	}
	for _, n := range nodes {
		if t.effectful(n) {
			for _, v := range t.effVars() {
				set[v] = true
			}
		}
	}
	var out []*types.Var
	for v := range set {
		out = append(out, v)
	}
	sort.Slice(out, func(i, j int) bool { return out[i].Pos() < out[j].Pos() })
	return out
}

// assignedOuter: the variables assigned inside n that are declared outside it (the state n updates).
func (t *tr) assignedOuter(n ast.Node, more ...ast.Node) []*types.Var {
	var out []*types.Var
	for _, v := range t.assignedIn(append([]ast.Node{n}, more...)...) {
		if v.Pos() < n.Pos() || v.Pos() >= n.End() {
			out = append(out, v)
		}
	}
	return out
}

func (t *tr) varsUsed(e ast.Node) map[*types.Var]bool {
	out := map[*types.Var]bool{}
	if e == nil {
		return out
	}
	ast.Inspect(e, func(n ast.Node) bool {
		if id, ok := n.(*ast.Ident); ok {
			if v := t.varOf(id); v != nil {
				out[v] = true
			}
		}
		return true
	})
	return out
}

// prescan computes, flow-insensitively, which locals are written through (element writes, copy / Put
// destinations) and which slice-typed locals only ever hold memory allocated in this function.
func (t *tr) prescan(body *ast.BlockStmt) {
	t.findOpaqueVars(body)
	t.writePos = map[*types.Var][]token.Pos{}
	t.nonFreshPos = map[*types.Var][]token.Pos{}
	t.loops = nil
	markWrite := func(v *types.Var, at ast.Node) {
		t.written[v] = true
		t.writePos[v] = append(t.writePos[v], at.Pos())
	}
	ast.Inspect(body, func(n ast.Node) bool {
		switch s := n.(type) {
		case *ast.ForStmt:
			t.loops = append(t.loops, [2]token.Pos{s.Pos(), s.End()})
		case *ast.RangeStmt:
			t.loops = append(t.loops, [2]token.Pos{s.Pos(), s.End()})
		}
		switch s := n.(type) {
		case *ast.FuncLit:
			if t.iter == nil || s != t.iter.lit {
				bail("function literal at %s", t.pos(s))
			}
		case *ast.AssignStmt:
			for _, l := range s.Lhs {
				if hasIndexStep(l) {
					if v := t.lvalueRoot(l); v != nil {
						markWrite(v, s)
					}
				}
			}
		case *ast.IncDecStmt:
			if hasIndexStep(s.X) {
				if v := t.lvalueRoot(s.X); v != nil {
					markWrite(v, s)
				}
			}
		case *ast.ExprStmt:
			if c, ok := s.X.(*ast.CallExpr); ok {
				if d := t.dstOfCall(c); d != nil {
					if v := t.lvalueRoot(d); v != nil {
						markWrite(v, s)
					}
				}
			}
		case *ast.SelectStmt:
			if _, _, ok := t.ctxPoll(s); !ok {
				bail("statement %T (other than the non-blocking context poll) at %s", n, t.pos(n))
			}
		case *ast.GoStmt, *ast.DeferStmt, *ast.TypeSwitchStmt, *ast.LabeledStmt:
			bail("statement %T at %s", n, t.pos(n))
		}
		if c, ok := n.(*ast.CallExpr); ok {
			// a READ INTO destination / an in-out argument is written by the call (translate_io.go)
			for _, d := range t.writtenByCall(c) {
				if v := t.lvalueRoot(d); v != nil {
					if _, isSlice := v.Type().Underlying().(*types.Slice); isSlice {
						markWrite(v, c)
						if t.isParam(v) {
							t.inoutSet[v] = true // our own []byte parameter is written into: handed back to the caller
						}
					} else if _, isArr := v.Type().Underlying().(*types.Array); isArr {
						markWrite(v, c)
					}
				}
			}
		}
		return true
	})
	// freshness: optimistic fixed point over all assignments to slice-typed locals
	type asg struct {
		v    *types.Var
		rhs  ast.Expr  // nil: not an expression we can classify
		rhs0 token.Pos // where the assignment is
	}
	var asgs []asg
	ast.Inspect(body, func(n ast.Node) bool {
		switch s := n.(type) {
		case *ast.AssignStmt:
			for i, l := range s.Lhs {
				id, ok := l.(*ast.Ident)
				if !ok {
					continue
				}
				v := t.varOf(id)
				if v == nil {
					continue
				}
				if _, isSlice := v.Type().Underlying().(*types.Slice); !isSlice {
					continue
				}
				if len(s.Lhs) == len(s.Rhs) {
					asgs = append(asgs, asg{v, s.Rhs[i], s.Pos()})
				} else {
					asgs = append(asgs, asg{v, nil, s.Pos()})
				}
			}
		case *ast.ValueSpec:
			for i, id := range s.Names {
				v := t.varOf(id)
				if v == nil {
					continue
				}
				if _, isSlice := v.Type().Underlying().(*types.Slice); !isSlice {
					continue
				}
				if len(s.Values) > i {
					asgs = append(asgs, asg{v, s.Values[i], s.Pos()})
				} else {
					t.fresh[v] = true // zero value: nil
					if _, ok := t.nonFreshPos[v]; !ok {
						t.nonFreshPos[v] = nil
					}
				}
			}
		}
		return true
	})
	for _, a := range asgs {
		t.fresh[a.v] = true
	}
	if t.fd.Type.Params != nil {
		for _, fl := range t.fd.Type.Params.List {
			for _, n := range fl.Names {
				if v := t.varOf(n); v != nil {
					delete(t.fresh, v)
				}
			}
		}
	}
	for changed := true; changed; {
		changed = false
		for _, a := range asgs {
			if !t.fresh[a.v] {
				continue
			}
			if a.rhs == nil || !t.isFreshBytes(a.rhs) {
				// x = append(x, …) keeps x fresh when x is: isFreshBytes(append(x,…)) = fresh[x] (true here)
				t.fresh[a.v] = false
				changed = true
			}
		}
	}
	// per assignment: does it (re)bind the variable to memory allocated here (or to itself extended)?
	for _, a := range asgs {
		if a.rhs == nil || !t.allocOrSelfAppend(a.rhs, a.v) {
			t.nonFreshPos[a.v] = append(t.nonFreshPos[a.v], a.rhs0)
		}
	}
}

// allocOrSelfAppend: rhs is make / a literal / a nil conversion, or append / AppendUintN of v itself or of such.
func (t *tr) allocOrSelfAppend(rhs ast.Expr, v *types.Var) bool {
	e := ast.Unparen(rhs)
	if t.isNil(e) {
		return true
	}
	switch x := e.(type) {
	case *ast.CompositeLit:
		return true
	case *ast.Ident:
		return t.varOf(x) == v
	case *ast.CallExpr:
		if tv, ok := t.p.info.Types[x.Fun]; ok && tv.IsType() && len(x.Args) == 1 {
			return t.isNil(x.Args[0])
		}
		if id, ok := ast.Unparen(x.Fun).(*ast.Ident); ok {
			if _, isB := t.p.info.Uses[id].(*types.Builtin); isB {
				switch id.Name {
				case "make":
					return true
				case "append":
					return t.allocOrSelfAppend(x.Args[0], v)
				}
			}
		}
		if strings.HasPrefix(t.externalName(x.Fun), "encoding/binary.BigEndian.AppendUint") {
			return t.allocOrSelfAppend(x.Args[0], v)
		}
		if _, isAlloc := allocators[t.calleeName(x)]; isAlloc {
			return true
		}
	}
	return false
}

// sameLoop: some loop of the function contains both positions.
func (t *tr) sameLoop(p, q token.Pos) bool {
	for _, l := range t.loops {
		if l[0] <= p && p < l[1] && l[0] <= q && q < l[1] {
			return true
		}
	}
	return false
}

// ownedAt: at position `at`, slice variable v still holds only memory allocated in this function: every
// assignment that could bind it to foreign memory comes later in the source and shares no loop with `at`.
func (t *tr) ownedAt(v *types.Var, at token.Pos) bool {
	if t.fresh[v] {
		return true
	}
	if _, isAsg := t.nonFreshPos[v]; !isAsg {
		return false // a parameter, or never assigned in the scanned range
	}
	for _, p := range t.nonFreshPos[v] {
		if p <= at || t.sameLoop(p, at) {
			return false
		}
	}
	return true
}

// noWriteAfter: no element write to v happens after position `at` (so a new name for v's memory is harmless).
func (t *tr) noWriteAfter(v *types.Var, at token.Pos) bool {
	for _, p := range t.writePos[v] {
		if p >= at || t.sameLoop(p, at) {
			return false
		}
	}
	return true
}

func hasIndexStep(e ast.Expr) bool {
	for {
		switch x := e.(type) {
		case *ast.IndexExpr:
			return true
		case *ast.SelectorExpr:
			e = x.X
		case *ast.ParenExpr:
			e = x.X
		case *ast.StarExpr:
			e = x.X
		default:
			return false
		}
	}
}

// ---------- state tuples ----------

func (t *tr) tupleOf(vars []*types.Var) string {
	if len(vars) == 0 {
		return "()"
	}
	var ns []string
	for _, v := range vars {
		ns = append(ns, t.names[v])
	}
	if len(ns) == 1 {
		return ns[0]
	}
	return "(" + strings.Join(ns, ", ") + ")"
}

func (t *tr) tupleType(vars []*types.Var) string {
	if len(vars) == 0 {
		return "Unit"
	}
	var ts []string
	for _, v := range vars {
		if t.iter != nil && v == t.iter.acc {
			ts = append(ts, "("+t.iter.accLean+")")
			continue
		}
		if et := t.effTypeOf(v); et != "" {
			ts = append(ts, "("+et+")")
			continue
		}
		ts = append(ts, t.ltVar(v, "variable "+v.Name()).lean)
	}
	return strings.Join(ts, " × ")
}

func (t *tr) checkDeclared(vars []*types.Var, at ast.Node) {
	for _, v := range vars {
		if _, ok := t.names[v]; !ok {
			bail("variable %s is assigned before its declaration was translated at %s", v.Name(), t.pos(at))
		}
	}
}

// rebind: bind the tuple produced by block expression e (of the block-result type) to vars.
func (t *tr) rebind(vars []*types.Var, e string, ind string) string {
	ty := t.tupleType(vars)
	if t.optMode {
		pat := t.tupleOf(vars)
		if len(vars) == 0 {
			pat = "(_ : Unit)"
		}
		return fmt.Sprintf("((%s) : Option (%s)).bind fun %s =>\n%s", e, ty, pat, ind)
	}
	if len(vars) == 0 {
		return ""
	}
	if len(vars) == 1 {
		return fmt.Sprintf("let %s : %s := (%s)\n%s", t.tupleOf(vars), ty, e, ind)
	}
	return fmt.Sprintf("let %s := ((%s) : %s)\n%s", t.tupleOf(vars), e, ty, ind)
}

// unpack: inside a loop-body lambda, bind the state parameter st to vars.
func (t *tr) unpack(vars []*types.Var, st string, ind string) string {
	if len(vars) == 0 {
		return ""
	}
	if len(vars) == 1 {
		return fmt.Sprintf("let %s : %s := %s\n%s", t.tupleOf(vars), t.tupleType(vars), st, ind)
	}
	return fmt.Sprintf("let %s := %s\n%s", t.tupleOf(vars), st, ind)
}

// block translates a statement list whose value is the tuple of vars when control falls off its end.
func (t *tr) block(list []ast.Stmt, vars []*types.Var, ind string) string {
	return t.stmts(list, func() string { return t.wrapVal(t.tupleOf(vars)) }, ind)
}

// ---------- statements ----------

func (t *tr) resLean() string {
	var rs []string
	if t.eff && t.recvW {
		rs = append(rs, t.lt(t.recvParam.Type(), "receiver").lean)
	}
	for _, r := range t.res {
		rs = append(rs, r.lean)
	}
	if t.eff {
		vs, _ := t.inoutParams()
		for _, v := range vs {
			rs = append(rs, t.ltVar(v, "in-out parameter "+v.Name()).lean)
		}
		rs = append(rs, "List Go.Effect")
		if t.useOrc {
			rs = append(rs, "List Go.Val")
		}
	}
	return strings.Join(rs, " × ")
}

// ret: the text for "the function returns v" at the current position.
func (t *tr) ret(v string) string {
	if t.inLoop {
		return t.wrapVal("(.ret " + v + ")")
	}
	if t.winMode {
		return t.wrapVal("(.error " + v + ")")
	}
	return t.wrapVal(v)
}

func (t *tr) stmts(list []ast.Stmt, k func() string, ind string) string {
	if len(list) == 0 {
		if k == nil {
			bail("control reaches the end of the function without a return")
		}
		return k()
	}
	rest := func() string { return t.stmts(list[1:], k, ind) }
	switch s := list[0].(type) {
	case *ast.ReturnStmt:
		return t.returnStmt(s, ind)
	case *ast.BlockStmt:
		return t.stmts(append(append([]ast.Stmt{}, s.List...), list[1:]...), k, ind)
	case *ast.AssignStmt:
		return t.assign(s, ind) + rest()
	case *ast.IncDecStmt:
		op := token.ADD_ASSIGN
		if s.Tok == token.DEC {
			op = token.SUB_ASSIGN
		}
		one := &ast.BasicLit{Kind: token.INT, Value: "1"}
		return t.opAssign(s.X, op, one, "1", ind) + rest()
	case *ast.DeclStmt:
		gd, ok := s.Decl.(*ast.GenDecl)
		if !ok || gd.Tok != token.VAR {
			if ok && gd.Tok == token.CONST {
				return rest() // constants are folded at their uses
			}
			bail("declaration at %s", t.pos(s))
		}
		out := ""
		for _, sp := range gd.Specs {
			vs := sp.(*ast.ValueSpec)
			for i, n := range vs.Names {
				v := t.varOf(n)
				lt := t.lt(v.Type(), "variable "+n.Name)
				val := zeroOf(lt)
				if len(vs.Values) > i {
					val = t.rhsFor(vs.Values[i], v.Type(), v)
				} else if len(vs.Values) > 0 {
					bail("multi-value var declaration at %s", t.pos(s))
				}
				pre := t.flush(ind)
				name := t.declare(v)
				if name == "_" {
					out += pre
					continue
				}
				out += pre + fmt.Sprintf("let %s : %s := %s\n%s", name, lt.lean, val, ind)
			}
		}
		return out + rest()
	case *ast.IfStmt:
		if s.Init != nil {
			c := *s
			c.Init = nil
			return t.stmts(append([]ast.Stmt{s.Init, &c}, list[1:]...), k, ind)
		}
		return t.ifStmt(s, list[1:], k, ind)
	case *ast.SwitchStmt:
		if s.Init != nil {
			c := *s
			c.Init = nil
			return t.stmts(append([]ast.Stmt{s.Init, &c}, list[1:]...), k, ind)
		}
		return t.switchStmt(s, list[1:], k, ind)
	case *ast.ForStmt:
		return t.forStmt(s, list[1:], k, ind)
	case *ast.RangeStmt:
		return t.rangeStmt(s, list[1:], k, ind)
	case *ast.BranchStmt:
		if s.Label != nil {
			bail("labelled %s at %s", s.Tok, t.pos(s))
		}
		switch s.Tok {
		case token.BREAK:
			if t.brk == nil {
				bail("break outside a loop or switch at %s", t.pos(s))
			}
			return t.brk()
		case token.CONTINUE:
			if t.cont == nil {
				bail("continue outside a loop at %s", t.pos(s))
			}
			return t.cont()
		}
		bail("%s at %s", s.Tok, t.pos(s))
	case *ast.EmptyStmt:
		return rest()
	case *ast.ExprStmt:
		return t.exprStmt(s, list[1:], k, ind)
	case *ast.SendStmt:
		return t.sendStmt(s, ind) + rest()
	case *ast.SelectStmt:
		return t.selectStmt(s, list[1:], k, ind)
	}
	bail("statement %T at %s", list[0], t.pos(list[0]))
	return ""
}

func (t *tr) returnStmt(s *ast.ReturnStmt, ind string) string {
	if t.iter != nil {
		if t.iter.inClosure {
			if len(s.Results) != 0 {
				bail("return with values inside an iterator body at %s", t.pos(s))
			}
			return t.ret("(" + t.names[t.iter.acc] + ", none)")
		}
		if len(s.Results) != 2 {
			bail("return arity at %s", t.pos(s))
		}
		if lit, ok := s.Results[0].(*ast.FuncLit); ok && lit == t.iter.lit {
			if !t.isNil(s.Results[1]) {
				bail("iterator closure returned together with a non-nil error at %s", t.pos(s))
			}
			t.iter.inClosure = true
			defer func() { t.iter.inClosure = false }()
			n := t.declare(t.iter.acc)
			return fmt.Sprintf("let %s : %s := []\n%s", n, t.iter.accLean, ind) +
				t.stmts(lit.Body.List, func() string { return t.ret("(" + t.names[t.iter.acc] + ", none)") }, ind)
		}
		if !t.isNil(s.Results[0]) {
			bail("guard return that is not `return nil, err` in an iterator function at %s", t.pos(s))
		}
		e := t.exprAs(s.Results[1], types.Universe.Lookup("error").Type(), false)
		return t.flush(ind) + t.ret("([], "+e+")")
	}
	if len(s.Results) == 0 {
		if len(t.named) == 0 {
			if len(t.res) == 0 {
				if t.eff {
					return t.retVals(nil)
				}
				bail("function without results")
			}
			bail("bare return at %s", t.pos(s))
		}
		var ns []string
		for _, v := range t.named {
			ns = append(ns, t.names[v])
		}
		return t.retVals(ns)
	}
	sig := t.p.info.Defs[t.fd.Name].(*types.Func).Type().(*types.Signature)
	if len(s.Results) == 1 && len(t.res) > 1 {
		// return f(…) forwarding a multi-value call
		c, ok := ast.Unparen(s.Results[0]).(*ast.CallExpr)
		if !ok {
			bail("return of a single non-call value from a multi-result function at %s", t.pos(s))
		}
		tup, ok := t.typeOf(c).(*types.Tuple)
		if !ok || tup.Len() != len(t.res) {
			bail("return arity at %s", t.pos(s))
		}
		for i := 0; i < tup.Len(); i++ {
			l := t.g.leanType(tup.At(i).Type(), false)
			if l.k != t.res[i].k || l.lean != t.res[i].lean {
				bail("forwarded result %d has a different representation at %s", i, t.pos(s))
			}
		}
		v := t.call(c, false)
		if t.eff {
			// the forwarded values become components of the result tuple
			var ns []string
			for range t.res {
				ns = append(ns, t.fresh1("t_"))
			}
			t.binds = append(t.binds, fmt.Sprintf("let (%s) := %s\n", strings.Join(ns, ", "), v))
			return t.flush(ind) + t.retVals(ns)
		}
		return t.flush(ind) + t.ret(v)
	}
	if len(s.Results) != len(t.res) {
		bail("return arity at %s", t.pos(s))
	}
	var parts []string
	t.inReturn = true
	defer func() { t.inReturn = false }()
	for i, r := range s.Results {
		rt := sig.Results().At(i).Type()
		if c, ok := ast.Unparen(r).(*ast.CallExpr); ok {
			if a, ok := t.appendCall(c); ok {
				parts = append(parts, a)
				continue
			}
		}
		if id, ok := ast.Unparen(r).(*ast.Ident); ok && !t.isNil(id) {
			// returning a written slice by name is fine: nothing is written afterwards
			slt := t.g.leanType(t.typeOf(id), false)
			dlt := t.g.leanType(rt, false)
			if slt.k == kBytes && dlt.k == kBytes {
				parts = append(parts, t.expr0(id, true))
				continue
			}
		}
		if t.isNil(r) && t.res[i].k == kStruct {
			parts = append(parts, t.res[i].st.lean+".zero") // `return nil, err`: see the subset description
			continue
		}
		parts = append(parts, t.exprAs(r, rt, false))
	}
	return t.flush(ind) + t.retVals(parts)
}

// rhsFor translates the right-hand side of `v = rhs` / `v := rhs` (append forms are accepted here).
func (t *tr) rhsFor(rhs ast.Expr, dst types.Type, lhs *types.Var) string {
	if c, ok := ast.Unparen(rhs).(*ast.CallExpr); ok {
		if isAppendLike(t, c) {
			target, ok := t.appendTarget(c)
			if !ok || (target != nil && target != lhs) {
				bail("append whose result does not replace its first argument (aliasing) at %s", t.pos(rhs))
			}
			s, _ := t.appendCall(c)
			return s
		}
	}
	return t.exprAs(rhs, dst, false)
}

func isAppendLike(t *tr, c *ast.CallExpr) bool {
	if id, ok := ast.Unparen(c.Fun).(*ast.Ident); ok && id.Name == "append" {
		_, isB := t.p.info.Uses[id].(*types.Builtin)
		return isB
	}
	return strings.HasPrefix(t.externalName(c.Fun), "encoding/binary.BigEndian.AppendUint")
}

func (t *tr) assign(s *ast.AssignStmt, ind string) string {
	switch s.Tok {
	case token.DEFINE, token.ASSIGN:
	default:
		if len(s.Lhs) != 1 || len(s.Rhs) != 1 {
			bail("multi-value op-assignment at %s", t.pos(s))
		}
		ops := map[token.Token]token.Token{token.ADD_ASSIGN: token.ADD, token.SUB_ASSIGN: token.SUB, token.MUL_ASSIGN: token.MUL,
			token.QUO_ASSIGN: token.QUO, token.REM_ASSIGN: token.REM, token.AND_ASSIGN: token.AND, token.OR_ASSIGN: token.OR,
			token.XOR_ASSIGN: token.XOR, token.SHL_ASSIGN: token.SHL, token.SHR_ASSIGN: token.SHR}
		if _, ok := ops[s.Tok]; !ok {
			bail("assignment operator %s at %s", s.Tok, t.pos(s))
		}
		return t.opAssign(s.Lhs[0], s.Tok, s.Rhs[0], "", ind)
	}
	// multi-value call: a, b := f(…)
	if len(s.Lhs) > 1 && len(s.Rhs) == 1 {
		if ta, isTA := ast.Unparen(s.Rhs[0]).(*ast.TypeAssertExpr); isTA && len(s.Lhs) == 2 {
			return t.typeAssert2(s, ta, ind)
		}
		c, ok := ast.Unparen(s.Rhs[0]).(*ast.CallExpr)
		if !ok {
			bail("multi-value assignment from a non-call (map index, type assertion, channel receive) at %s", t.pos(s))
		}
		tup, ok := t.typeOf(c).(*types.Tuple)
		if !ok || tup.Len() != len(s.Lhs) {
			bail("multi-value assignment arity at %s", t.pos(s))
		}
		val := t.call(c, false)
		pre := t.flush(ind)
		var pats, tys []string
		for i, l := range s.Lhs {
			id, ok := l.(*ast.Ident)
			if !ok {
				bail("multi-value assignment to a non-identifier at %s", t.pos(s))
			}
			rl := t.g.leanType(tup.At(i).Type(), false)
			if rl.k == kDrop {
				bail("multi-value assignment: result %d has untranslatable type %s at %s", i, tup.At(i).Type(), t.pos(s))
			}
			tys = append(tys, rl.lean)
			if id.Name == "_" {
				pats = append(pats, "_")
				continue
			}
			v := t.varOf(id)
			if t.inoutSet[v] || t.opaqueParams[v] {
				bail("assignment to the in-out / opaque parameter %s itself at %s", id.Name, t.pos(s))
			}
			vl := t.lt(v.Type(), "variable "+id.Name)
			if vl.k != rl.k || vl.lean != rl.lean {
				bail("multi-value assignment: result %d changes representation at %s", i, t.pos(s))
			}
			if _, isSlice := v.Type().Underlying().(*types.Slice); isSlice && t.written[v] {
				bail("slice %s written in this function receives a call result (aliasing) at %s", v.Name(), t.pos(s))
			}
			pats = append(pats, t.declare(v))
		}
		return pre + fmt.Sprintf("let (%s) := (%s : %s)\n%s", strings.Join(pats, ", "), val, strings.Join(tys, " × "), ind)
	}
	if len(s.Lhs) != len(s.Rhs) {
		bail("assignment arity at %s", t.pos(s))
	}
	if len(s.Lhs) == 1 {
		return t.assign1(s.Lhs[0], s.Rhs[0], ind)
	}
	// parallel assignment: evaluate every right-hand side first
	var vals, pats, tys []string
	var vars []*types.Var
	for i, l := range s.Lhs {
		id, ok := l.(*ast.Ident)
		if !ok {
			bail("parallel assignment to a non-identifier at %s", t.pos(s))
		}
		if id.Name == "_" {
			t.expr(s.Rhs[i])
			continue
		}
		v := t.varOf(id)
		if t.inoutSet[v] || t.opaqueParams[v] {
			bail("assignment to the in-out / opaque parameter %s itself at %s", id.Name, t.pos(s))
		}
		vals = append(vals, t.rhsFor(s.Rhs[i], v.Type(), v))
		tys = append(tys, t.lt(v.Type(), "variable "+id.Name).lean)
		vars = append(vars, v)
	}
	pre := t.flush(ind)
	for _, v := range vars {
		pats = append(pats, t.declare(v))
	}
	if len(vars) == 1 {
		return pre + fmt.Sprintf("let %s : %s := %s\n%s", pats[0], tys[0], vals[0], ind)
	}
	return pre + fmt.Sprintf("let (%s) := ((%s) : %s)\n%s", strings.Join(pats, ", "), strings.Join(vals, ", "), strings.Join(tys, " × "), ind)
}

func (t *tr) assign1(lhs, rhs ast.Expr, ind string) string {
	if id, ok := ast.Unparen(lhs).(*ast.Ident); ok {
		if id.Name == "_" {
			if c, ok := ast.Unparen(rhs).(*ast.CallExpr); ok {
				if tv, isT := t.p.info.Types[c.Fun]; !(isT && tv.IsType()) {
					if _, isTuple := t.typeOf(c).(*types.Tuple); !isTuple {
						t.call(c, true) // `_ = f(…)`: a call whose value is dropped
						return t.flush(ind)
					}
				}
			}
			// evaluated for its panics only
			lt := t.ltOf(rhs)
			if lt.k == kBytes {
				t.bytesArg(rhs)
			} else {
				t.expr(rhs)
			}
			return t.flush(ind)
		}
		v := t.varOf(id)
		if v == nil || !t.isLocal(v) {
			bail("assignment to %s, which is not a local variable, at %s", id.Name, t.pos(lhs))
		}
		if t.inoutSet[v] || t.opaqueParams[v] {
			bail("assignment to the in-out / opaque parameter %s itself at %s", id.Name, t.pos(lhs))
		}
		if t.opaqueVars[v] {
			// an opaque local: only its nil-ness is kept
			if !t.isOpaqueSource(rhs) {
				bail("opaque local %s assigned from a non-opaque source at %s", id.Name, t.pos(lhs))
			}
			val := "false"
			if !t.isNil(rhs) {
				val = t.expr(rhs)
			}
			pre := t.flush(ind)
			return pre + fmt.Sprintf("let %s : Bool := %s\n%s", t.declare(v), val, ind)
		}
		lt := t.lt(v.Type(), "variable "+id.Name)
		val := t.rhsFor(rhs, v.Type(), v)
		pre := t.flush(ind)
		return pre + fmt.Sprintf("let %s : %s := %s\n%s", t.declare(v), lt.lean, val, ind)
	}
	dt := t.typeOf(lhs)
	if t.g.leanType(dt, true).k == kList {
		if _, isSel := ast.Unparen(lhs).(*ast.SelectorExpr); isSel {
			return t.store(lhs, t.listAssign(lhs, rhs), ind)
		}
	}
	val := t.exprAs(rhs, dt, false)
	return t.store(lhs, val, ind)
}

func (t *tr) opAssign(lhs ast.Expr, tok token.Token, rhs ast.Expr, rhsText string, ind string) string {
	ops := map[token.Token]token.Token{token.ADD_ASSIGN: token.ADD, token.SUB_ASSIGN: token.SUB, token.MUL_ASSIGN: token.MUL,
		token.QUO_ASSIGN: token.QUO, token.REM_ASSIGN: token.REM, token.AND_ASSIGN: token.AND, token.OR_ASSIGN: token.OR,
		token.XOR_ASSIGN: token.XOR, token.SHL_ASSIGN: token.SHL, token.SHR_ASSIGN: token.SHR}
	op := ops[tok]
	if t.ltOf(lhs).k != kInt {
		bail("%s on a non-integer at %s", tok, t.pos(lhs))
	}
	cur := t.expr(lhs)
	it := intInfo(t.typeOf(lhs))
	b := rhsText
	if b == "" {
		b = t.expr(rhs)
		if t.ltOf(rhs).k != kInt {
			bail("%s with a non-integer operand at %s", tok, t.pos(lhs))
		}
	}
	var val string
	switch op {
	case token.ADD:
		val = wrapTo(it, "("+cur+" + "+b+")")
	case token.SUB:
		val = wrapTo(it, "("+cur+" - "+b+")")
	case token.MUL:
		val = wrapTo(it, "("+cur+" * "+b+")")
	case token.AND, token.OR, token.XOR:
		if it.signed {
			bail("bitwise %s on a signed operand type at %s", tok, t.pos(lhs))
		}
		if rhs != nil {
			if rt := intInfo(t.typeOf(rhs)); rt.signed && rt.realBits != 0 {
				bail("bitwise %s on a signed operand type at %s", tok, t.pos(lhs))
			}
		}
		f := map[token.Token]string{token.AND: "Go.band", token.OR: "Go.bor", token.XOR: "Go.bxor"}[op]
		val = "(" + f + " " + cur + " " + b + ")"
	case token.SHR:
		if _, isConst := t.constInt(rhs); !isConst {
			bail("shift by a non-constant amount in %s at %s", tok, t.pos(lhs))
		}
		val = "(Go.shr " + cur + " " + b + ")"
	case token.SHL:
		if _, isConst := t.constInt(rhs); !isConst {
			bail("shift by a non-constant amount in %s at %s", tok, t.pos(lhs))
		}
		val = wrapTo(it, "(Go.shl "+cur+" "+b+")")
	default:
		bail("assignment operator %s at %s", tok, t.pos(lhs))
	}
	return t.store(lhs, val, ind)
}

// store emits `lhs = val` for an lvalue path (identifier, field, element) rooted at a local variable.
func (t *tr) store(lhs ast.Expr, val string, ind string) string {
	root, text := t.update(lhs, val)
	pre := t.flush(ind)
	lt := t.ltVar(root, "variable "+root.Name())
	return pre + fmt.Sprintf("let %s : %s := %s\n%s", t.names[root], lt.lean, text, ind)
}

// update: the new value of the root variable of lvalue e after e := val.
func (t *tr) update(e ast.Expr, val string) (*types.Var, string) {
	switch x := ast.Unparen(e).(type) {
	case *ast.StarExpr:
		if id, ok := ast.Unparen(x.X).(*ast.Ident); ok && t.inoutPtr(t.varOf(id)) {
			return t.varOf(id), val // `*p = v` on an in-out parameter (translate_io.go)
		}
		bail("write through a pointer at %s", t.pos(e))
	case *ast.Ident:
		v := t.varOf(x)
		if v == nil || !t.isLocal(v) {
			bail("assignment to %s, which is not a local variable, at %s", x.Name, t.pos(e))
		}
		if t.inoutPtr(v) || t.opaqueParams[v] {
			bail("assignment to the parameter %s at %s", x.Name, t.pos(e))
		}
		if _, ok := t.names[v]; !ok {
			bail("assignment to %s before its declaration at %s", x.Name, t.pos(e))
		}
		if _, isPtr := v.Type().Underlying().(*types.Pointer); isPtr {
			if v != t.recvParam {
				bail("write through pointer %s at %s", x.Name, t.pos(e))
			}
			t.needRecvW() // state passing: the receiver is a value that is handed back (translate_eff.go)
		}
		return v, val
	case *ast.SelectorExpr:
		sel, ok := t.p.info.Selections[x]
		if !ok || sel.Kind() != types.FieldVal {
			bail("assignment to selector %s at %s", x.Sel.Name, t.pos(e))
		}
		if _, isPtr := t.typeOf(x.X).Underlying().(*types.Pointer); isPtr || sel.Indirect() {
			// only through the receiver itself, in state-passing mode (the Ident case below checks it)
			if id, ok := ast.Unparen(x.X).(*ast.Ident); !ok || t.recvParam == nil || t.varOf(id) != t.recvParam || len(sel.Index()) != 1 {
				bail("write through a pointer (field %s) at %s", x.Sel.Name, t.pos(e))
			}
		}
		t.noteRecvField(x, sel, true)
		base := t.expr(x.X)
		// build nested `with` for promoted fields
		idx := sel.Index()
		var build func(cur string, ty types.Type, idx []int) string
		build = func(cur string, ty types.Type, idx []int) string {
			if p, ok := ty.Underlying().(*types.Pointer); ok {
				ty = p.Elem()
			}
			st := ty.Underlying().(*types.Struct)
			f := st.Field(idx[0])
			if t.g.leanType(f.Type(), true).k == kDrop {
				bail("assignment to field %s of untranslatable type at %s", f.Name(), t.pos(e))
			}
			if len(idx) == 1 {
				return "{ " + cur + " with " + leanField(f.Name()) + " := " + val + " }"
			}
			return "{ " + cur + " with " + leanField(f.Name()) + " := " + build(cur+"."+leanField(f.Name()), f.Type(), idx[1:]) + " }"
		}
		if t.ltOf(x.X).k != kStruct {
			bail("assignment to a field of a non-struct at %s", t.pos(e))
		}
		return t.update(x.X, build(base, t.typeOf(x.X), idx))
	case *ast.IndexExpr:
		if t.ltOf(x.X).k != kBytes {
			bail("element assignment into %s at %s", t.typeOf(x.X), t.pos(e))
		}
		t.checkWritable(x.X, e)
		base := t.bytesArg(x.X)
		if n, ok := t.staticLen(x.X); ok {
			if c, ok := t.constInt(x.Index); ok && 0 <= c && c < int64(n) {
				return t.update(x.X, fmt.Sprintf("(Go.set %s %d %s)", base, c, val))
			}
		}
		nv := t.hoist(fmt.Sprintf("Go.set? %s %s %s", base, t.expr(x.Index), val))
		return t.update(x.X, nv)
	}
	bail("assignment target %T at %s", e, t.pos(e))
	return nil, ""
}

// checkWritable: base (the operand of an element write / copy destination) must be memory owned by this
// function: an array (a value), or a slice variable that only ever holds memory allocated here.
func (t *tr) checkWritable(base ast.Expr, at ast.Node) {
	base = ast.Unparen(base)
	ty := t.typeOf(base)
	if _, isArr := ty.Underlying().(*types.Array); isArr {
		return // the path to it is checked by update (no pointers)
	}
	if id, ok := base.(*ast.Ident); ok {
		if v := t.varOf(id); v != nil && t.ownedAt(v, at.Pos()) {
			return
		}
		if v := t.varOf(id); v != nil && t.inoutSet[v] {
			return // our own in-out []byte parameter: the caller handed it over and takes the value back
		}
	}
	bail("write into memory that is not (or no longer) owned by this function (%s) at %s", ty, t.pos(at))
}

// window decomposes a copy / Put destination into (lvalue to replace, offset within it or "" for whole,
// current contents of the window).
func (t *tr) window(dst ast.Expr) (lv ast.Expr, off string, cur string) {
	dst = ast.Unparen(dst)
	if sl, ok := dst.(*ast.SliceExpr); ok {
		if sl.Slice3 {
			bail("three-index slice at %s", t.pos(dst))
		}
		t.checkWritable(sl.X, dst)
		cur = t.bytesArg(sl)
		if sl.Low == nil {
			if sl.High == nil {
				return sl.X, "", cur
			}
			return sl.X, "0", cur
		}
		if c, ok := t.constInt(sl.Low); ok && c >= 0 {
			return sl.X, fmt.Sprint(c), cur
		}
		return sl.X, "(Int.toNat " + t.expr(sl.Low) + ")", cur
	}
	t.checkWritable(dst, dst)
	return dst, "", t.bytesArg(dst)
}

func (t *tr) exprStmt(s *ast.ExprStmt, tail []ast.Stmt, k func() string, ind string) string {
	c, ok := ast.Unparen(s.X).(*ast.CallExpr)
	if !ok {
		bail("expression statement at %s", t.pos(s))
	}
	rest := func() string { return t.stmts(tail, k, ind) }
	if id, ok := ast.Unparen(c.Fun).(*ast.Ident); ok {
		if _, isB := t.p.info.Uses[id].(*types.Builtin); isB && id.Name == "panic" {
			// arguments are not evaluated: whatever they are, the outcome is a panic
			if !t.optMode {
				panic(needOption{})
			}
			return "none"
		}
		if yc := t.isYieldCall(c); yc != nil && t.iter.inClosure {
			return t.yieldStmt(yc, ind) + rest()
		}
	}
	if d := t.dstOfCall(c); d != nil {
		lv, off, cur := t.window(d)
		var nv string
		if id, ok := ast.Unparen(c.Fun).(*ast.Ident); ok && id.Name == "copy" {
			if t.ltOf(c.Args[1]).k != kBytes {
				bail("copy from %s at %s", t.typeOf(c.Args[1]), t.pos(s))
			}
			nv = fmt.Sprintf("(Go.copy %s %s)", cur, t.bytesArg(c.Args[1]))
		} else {
			name := t.externalName(c.Fun)
			n := map[string]int{"16": 2, "32": 4, "64": 8}[name[len(name)-2:]]
			be := fmt.Sprintf("(Go.be%d %s)", n*8, t.expr(c.Args[1]))
			if sl, ok := t.staticLen(d); ok && sl >= n {
				nv = fmt.Sprintf("(Go.copy %s %s)", cur, be)
			} else {
				nv = t.hoist(fmt.Sprintf("Go.put? %s %s", cur, be))
			}
		}
		if off != "" {
			nv = fmt.Sprintf("(Go.splice %s %s %s)", t.bytesArg(lv), off, nv)
		}
		return t.store(lv, nv, ind) + rest()
	}
	// any other call in statement position: its value is dropped; what remains are its panics (pure callee) and
	// its effects (effect mode, translate_eff.go)
	t.call(c, true)
	return t.flush(ind) + rest()
}

// ---------- if / switch ----------

func (t *tr) ifStmt(s *ast.IfStmt, tail []ast.Stmt, k func() string, ind string) string {
	if s.Init != nil {
		c := *s
		c.Init = nil
		return t.stmts(append([]ast.Stmt{s.Init, &c}, tail...), k, ind)
	}
	if yc := t.isYieldIf(s); yc != nil && t.iter.inClosure {
		return t.yieldStmt(yc, ind) + t.stmts(tail, k, ind)
	}
	cond := t.expr(s.Cond)
	pre := t.flush(ind)
	in := ind + "  "
	if !t.escapes(s) {
		vars := t.assignedOuter(s)
		t.checkDeclared(vars, s)
		thenS := t.block(s.Body.List, vars, in)
		var elseS string
		switch e := s.Else.(type) {
		case nil:
			elseS = t.wrapVal(t.tupleOf(vars))
		case *ast.BlockStmt:
			elseS = t.block(e.List, vars, in)
		case *ast.IfStmt:
			elseS = t.block([]ast.Stmt{e}, vars, in)
		}
		e := fmt.Sprintf("if %s then\n%s%s\n%selse\n%s%s", cond, in, thenS, ind, in, elseS)
		return pre + t.rebind(vars, e, ind) + t.stmts(tail, k, ind)
	}
	var after func() string
	if len(tail) > 0 || k != nil {
		after = func() string { return t.stmts(tail, k, in) }
	}
	thenS := t.stmts(s.Body.List, after, in)
	var elseS string
	switch e := s.Else.(type) {
	case nil:
		if after == nil {
			bail("if without else at the end of the function at %s", t.pos(s))
		}
		elseS = after()
	case *ast.BlockStmt:
		elseS = t.stmts(e.List, after, in)
	case *ast.IfStmt:
		elseS = t.stmts([]ast.Stmt{e}, after, in)
	}
	return pre + fmt.Sprintf("if %s then\n%s%s\n%selse\n%s%s", cond, in, thenS, ind, in, elseS)
}

func (t *tr) switchStmt(s *ast.SwitchStmt, tail []ast.Stmt, k func() string, ind string) string {
	in := ind + "  "
	pre := ""
	tag := ""
	if s.Tag != nil {
		tl := t.ltOf(s.Tag)
		if tl.k != kInt && tl.k != kBool && tl.k != kBytes {
			bail("switch on %s at %s", t.typeOf(s.Tag), t.pos(s))
		}
		if tl.k == kBytes {
			tag = t.bytesArg(s.Tag)
		} else {
			tag = t.expr(s.Tag)
		}
		pre = t.flush(ind)
		if len(tag) > 40 {
			n := t.fresh1("sw_")
			pre += fmt.Sprintf("let %s : %s := %s\n%s", n, tl.lean, tag, ind)
			tag = n
		}
	}
	type arm struct {
		list []ast.Expr
		body []ast.Stmt
	}
	var arms []arm
	var def *ast.CaseClause
	for _, c := range s.Body.List {
		cc := c.(*ast.CaseClause)
		for _, st := range cc.Body {
			if br, ok := st.(*ast.BranchStmt); ok && br.Tok == token.FALLTHROUGH {
				bail("fallthrough at %s", t.pos(br))
			}
		}
		if cc.List == nil {
			def = cc
			continue
		}
		arms = append(arms, arm{cc.List, cc.Body})
	}
	// condOf translates the case expressions of one arm where Go evaluates them: after every earlier arm has
	// failed to match. What they bind (effects of an atomic Load, …) is returned as a prefix that lives in the
	// else-branch of the earlier arms. Only plain lets are accepted there (a case expression that can panic is
	// rejected, as is one with effects when the arm lists several expressions).
	condOf := func(a arm, in string) (string, string) {
		var conds []string
		for _, e := range a.list {
			if s.Tag != nil {
				conds = append(conds, "("+tag+" == "+t.expr(e)+")")
			} else {
				conds = append(conds, t.expr(e))
			}
			if len(t.binds) > 0 {
				if !pureLets(t.binds) {
					bail("case expression that can panic at %s", t.pos(e))
				}
				if len(a.list) > 1 {
					bail("case list with effects at %s", t.pos(e))
				}
			}
		}
		return t.flush(in), strings.Join(conds, " || ")
	}
	savedBrk := t.brk
	defer func() { t.brk = savedBrk }()
	if !t.escapes(s) {
		vars := t.assignedOuter(s)
		t.checkDeclared(vars, s)
		t.brk = func() string { return t.wrapVal(t.tupleOf(vars)) }
		e := ""
		for i, a := range arms {
			cpre, cond := condOf(a, ind)
			if cpre != "" && i > 0 {
				cpre = "\n" + ind + cpre
			}
			e += cpre + fmt.Sprintf("if %s then\n%s%s\n%selse ", cond, in, t.block(a.body, vars, in), ind)
		}
		if len(arms) > 0 {
			e += "\n" + in
		}
		if def != nil {
			e += t.block(def.Body, vars, in)
		} else {
			e += t.wrapVal(t.tupleOf(vars))
		}
		t.brk = savedBrk
		return pre + t.rebind(vars, e, ind) + t.stmts(tail, k, ind)
	}
	var after func() string
	if len(tail) > 0 || k != nil {
		after = func() string {
			b := t.brk
			t.brk = savedBrk
			defer func() { t.brk = b }()
			return t.stmts(tail, k, in)
		}
	}
	if after != nil {
		t.brk = after
	} else {
		t.brk = nil
	}
	out := pre
	for i, a := range arms {
		cpre, cond := condOf(a, ind)
		if cpre != "" && i > 0 {
			cpre = "\n" + ind + cpre
		}
		out += cpre + fmt.Sprintf("if %s then\n%s%s\n%selse ", cond, in, t.stmts(a.body, after, in), ind)
	}
	if len(arms) > 0 {
		out += "\n" + in
	}
	if def != nil {
		out += t.stmts(def.Body, after, in)
	} else {
		if after == nil {
			bail("switch without default falls through to the end of the function at %s", t.pos(s))
		}
		out += after()
	}
	return out
}

// ---------- loops ----------

// loopShell emits a loop given the combinator call pieces.
//
//	comb:   "Go.foldB" / "Go.foldUp" (M / loop variants are derived)
//	head:   the arguments before the body lambda (e.g. the byte string, or lo hi step)
//	params: the lambda's leading parameters (index / value), already declared
func (t *tr) loopShell(kind string, head string, params string, loop ast.Stmt, body *ast.BlockStmt, tail []ast.Stmt, k func() string, ind string) string {
	in := ind + "    "
	vars := t.assignedOuter(loop)
	t.checkDeclared(vars, loop)
	sigma := t.tupleType(vars)
	st := t.fresh1("st_")
	initTuple := t.tupleOf(vars)
	jumping := t.escapes(body)
	pre := t.flush(ind)

	savedLoop, savedBrk, savedCont := t.inLoop, t.brk, t.cont
	defer func() { t.inLoop, t.brk, t.cont = savedLoop, savedBrk, savedCont }()

	name := "Go.fold" + kind
	if !jumping {
		t.brk, t.cont = nil, nil
		b := t.unpack(vars, st, in) + t.block(body.List, vars, in)
		if t.optMode {
			name += "M"
		}
		e := fmt.Sprintf("%s (σ := %s) %s (fun %s (%s : %s) =>\n%s%s)\n%s  %s", name, sigma, head, params, st, sigma, in, b, ind, initTuple)
		t.inLoop, t.brk, t.cont = savedLoop, savedBrk, savedCont
		if t.optMode {
			// foldM already yields Option σ
			pat := t.tupleOf(vars)
			if len(vars) == 0 {
				pat = "(_ : Unit)"
			}
			return pre + fmt.Sprintf("(%s).bind fun %s =>\n%s", e, pat, ind) + t.stmts(tail, k, ind)
		}
		if len(vars) == 0 {
			return pre + t.stmts(tail, k, ind)
		}
		if len(vars) == 1 {
			return pre + fmt.Sprintf("let %s : %s := (%s)\n%s", t.tupleOf(vars), sigma, e, ind) + t.stmts(tail, k, ind)
		}
		return pre + fmt.Sprintf("let %s := (%s)\n%s", t.tupleOf(vars), e, ind) + t.stmts(tail, k, ind)
	}
	name = "Go.loop" + kind
	if t.optMode {
		name += "M"
	}
	rho := t.resLean()
	t.inLoop = true
	t.brk = func() string { return t.wrapVal("(.brk " + t.tupleOf(vars) + ")") }
	t.cont = func() string { return t.wrapVal("(.next " + t.tupleOf(vars) + ")") }
	b := t.unpack(vars, st, in) + t.stmts(body.List, func() string { return t.wrapVal("(.next " + t.tupleOf(vars) + ")") }, in)
	t.inLoop, t.brk, t.cont = savedLoop, savedBrk, savedCont
	e := fmt.Sprintf("%s (σ := %s) (ρ := %s) %s (fun %s (%s : %s) =>\n%s%s)\n%s  %s", name, sigma, rho, head, params, st, sigma, in, b, ind, initTuple)
	r := t.fresh1("r_")
	okPat := t.tupleOf(vars)
	if len(vars) == 0 {
		okPat = "_"
	}
	var after string
	if len(tail) > 0 || k != nil {
		after = t.stmts(tail, k, ind+"    ")
	} else {
		// nothing follows the loop: Go requires a terminating statement, so this is unreachable code
		bail("loop at the end of a function without a following return at %s", t.pos(loop))
	}
	m := fmt.Sprintf("| .error %s => %s\n%s  | .ok %s =>\n%s    %s", r, t.ret(r), ind, okPat, ind, after)
	if t.optMode {
		res := t.fresh1("res_")
		return pre + fmt.Sprintf("(%s).bind fun %s =>\n%s(match %s with\n%s  %s)", e, res, ind, res, ind, m)
	}
	return pre + fmt.Sprintf("(match (%s) with\n%s  %s)", e, ind, m)
}

func (t *tr) rangeStmt(s *ast.RangeStmt, tail []ast.Stmt, k func() string, ind string) string {
	if s.Tok == token.ASSIGN {
		bail("range assigning to existing variables at %s", t.pos(s))
	}
	xt := t.typeOf(s.X)
	assigned := map[*types.Var]bool{}
	for _, v := range t.assignedIn(s.Body) {
		assigned[v] = true
	}
	for v := range t.varsUsed(s.X) {
		if assigned[v] {
			bail("range operand mentions %s, which the loop body assigns, at %s", v.Name(), t.pos(s))
		}
	}
	declParam := func(e ast.Expr) string {
		if e == nil {
			return "(_ : Int)"
		}
		id, ok := e.(*ast.Ident)
		if !ok {
			bail("range variable is not an identifier at %s", t.pos(s))
		}
		if id.Name == "_" {
			return "(_ : Int)"
		}
		v := t.varOf(id)
		if t.lt(v.Type(), "range variable").k != kInt {
			bail("range variable %s of type %s at %s", id.Name, v.Type(), t.pos(s))
		}
		return "(" + t.declare(v) + " : Int)"
	}
	if it := intInfo(xt); it.isInteger {
		// for i := range n
		if s.Value != nil {
			bail("range over an integer with two variables at %s", t.pos(s))
		}
		hi := t.expr(s.X)
		head := fmt.Sprintf("0 %s 1", hi)
		return t.loopShell("Up", head, declParam(s.Key), s, s.Body, tail, k, ind)
	}
	lt := t.lt(xt, "range operand")
	if lt.k == kList {
		// for i, v := range <slice of structs>: the value is the element itself
		x := t.expr(s.X)
		if !strings.HasPrefix(x, "(") && strings.Contains(x, " ") {
			x = "(" + x + ")"
		}
		val := "(_ : " + lt.elem.lean + ")"
		if s.Value != nil {
			id, ok := s.Value.(*ast.Ident)
			if !ok {
				bail("range variable is not an identifier at %s", t.pos(s))
			}
			if id.Name != "_" {
				val = "(" + t.declare(t.varOf(id)) + " : " + lt.elem.lean + ")"
			}
		}
		return t.loopShell("L", "(α := "+lt.elem.lean+") "+x, declParam(s.Key)+" "+val, s, s.Body, tail, k, ind)
	}
	if lt.k != kBytes {
		bail("range over %s at %s", xt, t.pos(s))
	}
	if b, ok := xt.Underlying().(*types.Basic); ok && b.Info()&types.IsString != 0 {
		bail("range over a string (iterates runes, not bytes) at %s", t.pos(s))
	}
	x := t.bytesArg(s.X)
	if !strings.HasPrefix(x, "(") && strings.Contains(x, " ") {
		x = "(" + x + ")"
	}
	params := declParam(s.Key) + " " + declParam(s.Value)
	return t.loopShell("B", x, params, s, s.Body, tail, k, ind)
}

func (t *tr) forStmt(s *ast.ForStmt, tail []ast.Stmt, k func() string, ind string) string {
	if !t.countedLoop(s) {
		// no evident trip count: unrolled loopFuel times (translate_eff.go)
		return t.whileLoop(s, tail, k, ind)
	}
	why := func(m string) { bail("for loop without an obvious bound (%s) at %s", m, t.pos(s)) }
	init, ok := s.Init.(*ast.AssignStmt)
	if !ok || init.Tok != token.DEFINE || len(init.Lhs) != 1 || len(init.Rhs) != 1 {
		why("init is not `i := lo`")
	}
	id, ok := init.Lhs[0].(*ast.Ident)
	if !ok {
		why("init is not `i := lo`")
	}
	iv := t.varOf(id)
	it := intInfo(iv.Type())
	if !it.isInteger {
		why("counter is not an integer")
	}
	cond, ok := s.Cond.(*ast.BinaryExpr)
	if !ok || (cond.Op != token.LSS && cond.Op != token.LEQ) {
		why("condition is not `i < hi` / `i <= hi`")
	}
	cid, ok := ast.Unparen(cond.X).(*ast.Ident)
	if !ok || t.varOf(cid) != iv {
		why("condition is not `i < hi` / `i <= hi`")
	}
	step := int64(0)
	switch p := s.Post.(type) {
	case *ast.IncDecStmt:
		if pid, ok := p.X.(*ast.Ident); ok && t.varOf(pid) == iv && p.Tok == token.INC {
			step = 1
		}
	case *ast.AssignStmt:
		if p.Tok == token.ADD_ASSIGN && len(p.Lhs) == 1 {
			if pid, ok := p.Lhs[0].(*ast.Ident); ok && t.varOf(pid) == iv {
				if c, ok := t.constInt(p.Rhs[0]); ok && c > 0 {
					step = c
				}
			}
		}
	}
	if step == 0 {
		why("post is not `i++` / `i += c` with constant c > 0")
	}
	if it.bits != 0 && (step != 1 || cond.Op != token.LSS) {
		why("a counter of a wrapping type needs `i < hi; i++`")
	}
	assigned := map[*types.Var]bool{}
	for _, v := range t.assignedIn(s.Body) {
		assigned[v] = true
	}
	if assigned[iv] {
		why("the body assigns the counter")
	}
	for v := range t.varsUsed(cond.Y) {
		if assigned[v] {
			why("the body assigns " + v.Name() + ", which the bound mentions")
		}
	}
	lo := t.exprAs(init.Rhs[0], iv.Type(), false)
	hi := t.expr(cond.Y)
	if cond.Op == token.LEQ {
		hi = "(" + hi + " + 1)"
	}
	paren := func(s string) string {
		if strings.HasPrefix(s, "(") || !strings.ContainsAny(s, " -") {
			return s
		}
		return "(" + s + ")"
	}
	head := fmt.Sprintf("%s %s %d", paren(lo), paren(hi), step)
	pre := t.flush(ind)
	param := "(" + t.declare(iv) + " : Int)"
	return pre + t.loopShell("Up", head, param, s, s.Body, tail, k, ind)
}

// countedLoop: s has the shape `for i := lo; i < hi; i++|i += c` with a trip count known on entry (forStmt).
func (t *tr) countedLoop(s *ast.ForStmt) bool {
	init, ok := s.Init.(*ast.AssignStmt)
	if !ok || init.Tok != token.DEFINE || len(init.Lhs) != 1 || len(init.Rhs) != 1 {
		return false
	}
	id, ok := init.Lhs[0].(*ast.Ident)
	if !ok {
		return false
	}
	iv := t.varOf(id)
	if iv == nil {
		return false
	}
	it := intInfo(iv.Type())
	if !it.isInteger {
		return false
	}
	cond, ok := s.Cond.(*ast.BinaryExpr)
	if !ok || (cond.Op != token.LSS && cond.Op != token.LEQ) {
		return false
	}
	cid, ok := ast.Unparen(cond.X).(*ast.Ident)
	if !ok || t.varOf(cid) != iv {
		return false
	}
	step := int64(0)
	switch p := s.Post.(type) {
	case *ast.IncDecStmt:
		if pid, ok := p.X.(*ast.Ident); ok && t.varOf(pid) == iv && p.Tok == token.INC {
			step = 1
		}
	case *ast.AssignStmt:
		if p.Tok == token.ADD_ASSIGN && len(p.Lhs) == 1 {
			if pid, ok := p.Lhs[0].(*ast.Ident); ok && t.varOf(pid) == iv {
				if c, ok := t.constInt(p.Rhs[0]); ok && c > 0 {
					step = c
				}
			}
		}
	}
	if step == 0 {
		return false
	}
	if it.bits != 0 && (step != 1 || cond.Op != token.LSS) {
		return false
	}
	assigned := map[*types.Var]bool{}
	for _, v := range t.assignedIn(s.Body) {
		assigned[v] = true
	}
	if assigned[iv] {
		return false
	}
	for v := range t.varsUsed(cond.Y) {
		if assigned[v] {
			return false
		}
	}
	return true
}

// ---------- whole function ----------

func (t *tr) function() {
	fd := t.fd
	if fd.Type.TypeParams != nil {
		bail("generic function")
	}
	fn := t.p.info.Defs[fd.Name].(*types.Func)
	sig := fn.Type().(*types.Signature)
	if sig.Variadic() {
		bail("variadic function")
	}
	isIter := t.detectIter(sig)
	if isIter {
		t.setupIter()
	}
	if r := sig.Recv(); r != nil && r.Name() != "" && r.Name() != "_" {
		t.recvParam = r
	}
	t.scanParams(sig)
	t.prescan(fd.Body)
	if t.fuelP || len(t.inoutSet) > 0 {
		t.needEff()
	}
	var params []string
	t.out.dropParam, t.out.inout = nil, nil
	addParam := func(v *types.Var, what string) {
		if t.opaqueParams[v] {
			return // not a parameter of the Lean function (translate_io.go)
		}
		var lt ltype
		if t.inoutPtr(v) {
			lt = t.lt(inoutElem(v), what)
		} else {
			lt = t.lt(v.Type(), what)
		}
		if lt.k == kOpaque {
			bail("%s of reference type %s", what, v.Type())
		}
		n := t.declare(v)
		if n == "_" {
			n = t.fresh1("x_")
		}
		params = append(params, fmt.Sprintf("(%s : %s)", n, lt.lean))
	}
	if r := sig.Recv(); r != nil {
		if r.Name() == "" || r.Name() == "_" {
			v := r
			lt := t.lt(v.Type(), "receiver")
			params = append(params, fmt.Sprintf("(%s : %s)", t.fresh1("recv_"), lt.lean))
		} else {
			addParam(r, "receiver "+r.Name())
		}
	}
	for i := 0; i < sig.Params().Len(); i++ {
		v := sig.Params().At(i)
		addParam(v, "parameter "+v.Name())
		t.out.dropParam = append(t.out.dropParam, t.opaqueParams[v])
		if t.inoutSet[v] {
			if v.Name() == "" || v.Name() == "_" {
				bail("unnamed in-out parameter")
			}
			t.out.inout = append(t.out.inout, i)
		}
	}
	if t.fuelP {
		params = append(params, "(fuel_ : Nat)")
	}
	if t.eff && t.useOrc {
		params = append(params, "(orc_ : List Go.Val)")
	}
	if t.eff && isIter {
		bail("effects in an iterator function")
	}
	pre := t.setupEff()
	for i := 0; i < sig.Results().Len(); i++ {
		r := sig.Results().At(i)
		if isIter && i == 0 {
			if r.Name() != "" {
				bail("named results in an iterator function")
			}
			t.res = append(t.res, ltype{k: kDrop, lean: "(" + t.iter.accLean + ")", arrLen: -1})
			continue
		}
		lt := t.lt(r.Type(), "result")
		t.res = append(t.res, lt)
		if r.Name() != "" && r.Name() != "_" {
			t.named = append(t.named, r)
			pre += fmt.Sprintf("let %s : %s := %s\n  ", t.declare(r), lt.lean, zeroOf(lt))
		}
	}
	var k func() string
	if len(t.res) == 0 {
		t.needEff() // a function without results is its effects
		k = func() string { return t.retVals(nil) }
	}
	if len(t.named) != 0 && len(t.named) != len(t.res) {
		bail("partly named results")
	}
	if t.recvW {
		t.checkRecvNoEscape()
	}
	body := t.stmts(fd.Body.List, k, "  ")
	t.checkOpaqueWrites()
	t.emit(params, t.resLean(), pre+body)
}

func (t *tr) emit(params []string, res string, body string) {
	fd := t.fd
	if t.optMode {
		res = "Option (" + res + ")"
	}
	var out strings.Builder
	shape := ""
	if t.eff {
		var parts []string
		if t.recvW {
			parts = append(parts, "receiver after the call")
		}
		for range t.res {
			parts = append(parts, "result")
		}
		vs, _ := t.inoutParams()
		for _, v := range vs {
			parts = append(parts, "in-out "+v.Name())
		}
		parts = append(parts, "effect trace")
		if t.useOrc {
			parts = append(parts, "unused oracle values")
		}
		shape = "; effect mode: value = (" + strings.Join(parts, ", ") + ")"
	}
	for _, a := range t.auxDefs {
		out.WriteString(a)
	}
	fmt.Fprintf(&out, "/-- translated from %s (%s)%s -/\n", t.key, filepath.Base(t.p.fset.Position(fd.Pos()).Filename), shape)
	sep := " "
	if len(params) == 0 {
		sep = ""
	}
	fmt.Fprintf(&out, "def %s%s%s : %s :=\n  %s\n\n", t.out.lean, sep, strings.Join(params, " "), res, body)
	t.out.text = out.String()
	t.out.resLean = res
	t.out.nres = len(t.res)
}

// ---------- iterator functions ----------
//
//	func f(…) (iter.Seq[T], error) { <guards: return nil, err>; return func(yield func(T) bool) { BODY }, nil }
//
// is translated to a function returning (List T × Go.Err): the values BODY passes to yield, in order, for a
// consumer that never asks to stop. The sequence is an extra local variable of BODY (the accumulator);
//
//	yield(v)                     appends v
//	if !yield(v) { return }      appends v and goes on (the consumer never stops)
//	return                       ends the iteration: the function's value is (accumulator, nil)
//
// any other use of yield is rejected. Guard returns before the closure must be `return nil, err`.

type iterCtx struct {
	lit       *ast.FuncLit
	yield     *types.Var
	elem      ltype
	elemGo    types.Type
	acc       *types.Var
	accLean   string
	inClosure bool
}

func (t *tr) detectIter(sig *types.Signature) bool {
	if sig.Results().Len() != 2 {
		return false
	}
	n, ok := sig.Results().At(0).Type().(*types.Named)
	if !ok || n.Obj().Pkg() == nil || n.Obj().Pkg().Path() != "iter" || n.Obj().Name() != "Seq" {
		return false
	}
	return sig.Results().At(1).Type().String() == "error"
}

func (t *tr) setupIter() {
	var lit *ast.FuncLit
	ast.Inspect(t.fd.Body, func(n ast.Node) bool {
		if r, ok := n.(*ast.ReturnStmt); ok && len(r.Results) == 2 {
			if l, ok := r.Results[0].(*ast.FuncLit); ok {
				if lit != nil {
					bail("iterator function with two closures")
				}
				lit = l
			}
		}
		return true
	})
	if lit == nil || len(lit.Type.Params.List) != 1 || len(lit.Type.Params.List[0].Names) != 1 {
		bail("iterator function without `return func(yield func(T) bool) {…}, nil`")
	}
	yv := t.varOf(lit.Type.Params.List[0].Names[0])
	ysig, ok := yv.Type().(*types.Signature)
	if !ok || ysig.Params().Len() != 1 {
		bail("yield is not func(T) bool")
	}
	et := ysig.Params().At(0).Type()
	elem := t.lt(et, "iterator element")
	acc := types.NewVar(lit.Pos()-1, t.p.pkg, "out", et) // declared just before the closure
	t.iter = &iterCtx{lit: lit, yield: yv, elem: elem, elemGo: et, acc: acc, accLean: "List " + elem.lean}
}

func (t *tr) isYieldCall(e ast.Expr) *ast.CallExpr {
	if t.iter == nil {
		return nil
	}
	c, ok := ast.Unparen(e).(*ast.CallExpr)
	if !ok {
		return nil
	}
	id, ok := ast.Unparen(c.Fun).(*ast.Ident)
	if !ok || t.varOf(id) != t.iter.yield || len(c.Args) != 1 {
		return nil
	}
	return c
}

// isYieldIf: `if !yield(v) { return }`.
func (t *tr) isYieldIf(s *ast.IfStmt) *ast.CallExpr {
	if t.iter == nil || s.Init != nil || s.Else != nil || len(s.Body.List) != 1 {
		return nil
	}
	u, ok := ast.Unparen(s.Cond).(*ast.UnaryExpr)
	if !ok || u.Op != token.NOT {
		return nil
	}
	r, ok := s.Body.List[0].(*ast.ReturnStmt)
	if !ok || len(r.Results) != 0 {
		return nil
	}
	return t.isYieldCall(u.X)
}

func (t *tr) yieldStmt(c *ast.CallExpr, ind string) string {
	v := t.exprAs(c.Args[0], t.iter.elemGo, false)
	pre := t.flush(ind)
	n := t.names[t.iter.acc]
	return pre + fmt.Sprintf("let %s : %s := (%s ++ [%s])\n%s", n, t.iter.accLean, n, v, ind)
}

// ---------- windows ----------
//
// A window is a contiguous range of the TOP-LEVEL statements of a function that is translated on its own,
// for functions whose interesting arithmetic (length gates, header parsing) sits between calls that are
// outside the subset. The generated function takes the variables the window reads but does not declare
// (in declaration order) and returns `Except ρ σ`:
//
//	.error r   the window executed `return r` (ρ = the function's result tuple)
//	.ok s      control reached the statement after the window; s = the variables the window declares at
//	           its top level or assigns, in declaration order
//
// The window's first statement is given by `from` ("" = the first statement, "def:x" = the statement
// declaring x) and the statement after its end by `until` ("def:x", "switch:x" = the switch on x, "call:f" =
// the first statement that calls f, "last" = the function's last statement). The anchors are names, not line
// numbers; a window whose anchors are not found is reported as untranslatable.

type windowSpec struct {
	from, until string
}

var windows = map[string]*windowSpec{
	// the length gates of the two HSMS frame decoders and of the stream reader (C03, C04)
	"hsms.DecodeHSMSMessage#guards":         {"", "last"},
	"hsms.DecodeHSMSPayload#guards":         {"", "def:owned"},
	"hsmsss.transport.readFrame#lengthGate": {"def:msgLen", "def:frame"},
	// the item header parse of the SECS-II decoder (C02)
	"secs2.decodeItem#header": {"", "switch:formatCode"},
}

func (t *tr) anchor(list []ast.Stmt, a string) int {
	if a == "last" {
		return len(list) - 1
	}
	i := strings.Index(a, ":")
	if i < 0 {
		bail("bad window anchor %q", a)
	}
	kind, name := a[:i], a[i+1:]
	for idx, s := range list {
		switch kind {
		case "def":
			switch x := s.(type) {
			case *ast.AssignStmt:
				if x.Tok == token.DEFINE {
					for _, l := range x.Lhs {
						if id, ok := l.(*ast.Ident); ok && id.Name == name {
							return idx
						}
					}
				}
			case *ast.DeclStmt:
				if gd, ok := x.Decl.(*ast.GenDecl); ok {
					for _, sp := range gd.Specs {
						if vs, ok := sp.(*ast.ValueSpec); ok {
							for _, n := range vs.Names {
								if n.Name == name {
									return idx
								}
							}
						}
					}
				}
			}
		case "switch":
			if x, ok := s.(*ast.SwitchStmt); ok && x.Tag != nil {
				if id, ok := ast.Unparen(x.Tag).(*ast.Ident); ok && id.Name == name {
					return idx
				}
			}
		case "call":
			found := false
			ast.Inspect(s, func(n ast.Node) bool {
				if c, ok := n.(*ast.CallExpr); ok && calleeName(c.Fun) == name {
					found = true
				}
				return !found
			})
			if found {
				return idx
			}
		}
	}
	bail("window anchor %q not found", a)
	return -1
}

func (t *tr) windowFunction(w *windowSpec) {
	fd := t.fd
	if fd.Type.TypeParams != nil {
		bail("generic function")
	}
	fn := t.p.info.Defs[fd.Name].(*types.Func)
	sig := fn.Type().(*types.Signature)
	list := fd.Body.List
	lo := 0
	if w.from != "" {
		lo = t.anchor(list, w.from)
	}
	hi := t.anchor(list, w.until)
	if hi <= lo {
		bail("empty window (%q .. %q)", w.from, w.until)
	}
	win := &ast.BlockStmt{Lbrace: list[lo].Pos(), List: list[lo:hi], Rbrace: list[hi-1].End()}
	t.prescan(win)
	t.winMode = true
	for i := 0; i < sig.Results().Len(); i++ {
		r := sig.Results().At(i)
		if r.Name() != "" && r.Name() != "_" {
			bail("window in a function with named results")
		}
		t.res = append(t.res, t.lt(r.Type(), "result"))
	}
	if len(t.res) == 0 {
		bail("no results")
	}
	// inputs: variables the window mentions that are declared outside it
	used := t.varsUsed(win)
	var ins []*types.Var
	for v := range used {
		if t.isLocal(v) && (v.Pos() < win.Pos() || v.Pos() >= win.End()) {
			ins = append(ins, v)
		}
	}
	sort.Slice(ins, func(i, j int) bool { return ins[i].Pos() < ins[j].Pos() })
	var params []string
	for _, v := range ins {
		lt := t.lt(v.Type(), "window input "+v.Name())
		if lt.k == kOpaque {
			bail("window input %s of reference type %s", v.Name(), v.Type())
		}
		params = append(params, fmt.Sprintf("(%s : %s)", t.declare(v), lt.lean))
	}
	// outputs: declared at the window's top level, or assigned in it
	outSet := map[*types.Var]bool{}
	for _, v := range t.assignedOuter(win) {
		outSet[v] = true
	}
	for _, s := range win.List {
		switch x := s.(type) {
		case *ast.AssignStmt:
			if x.Tok == token.DEFINE {
				for _, l := range x.Lhs {
					if id, ok := l.(*ast.Ident); ok && id.Name != "_" {
						if v, ok := t.p.info.Defs[id].(*types.Var); ok {
							outSet[v] = true
						}
					}
				}
			}
		case *ast.DeclStmt:
			if gd, ok := x.Decl.(*ast.GenDecl); ok && gd.Tok == token.VAR {
				for _, sp := range gd.Specs {
					for _, n := range sp.(*ast.ValueSpec).Names {
						if v, ok := t.p.info.Defs[n].(*types.Var); ok && n.Name != "_" {
							outSet[v] = true
						}
					}
				}
			}
		}
	}
	var outs []*types.Var
	for v := range outSet {
		outs = append(outs, v)
	}
	sort.Slice(outs, func(i, j int) bool { return outs[i].Pos() < outs[j].Pos() })
	body := t.stmts(win.List, func() string { return t.wrapVal("(.ok " + t.tupleOf(outs) + ")") }, "  ")
	var outNames []string
	for _, v := range outs {
		outNames = append(outNames, v.Name())
	}
	t.emitWindow(params, fmt.Sprintf("Except (%s) (%s)", t.resLean(), t.tupleType(outs)), body,
		fmt.Sprintf("statements %s .. %s of", t.pos(list[lo]), t.pos(list[hi-1])), strings.Join(outNames, ", "))
}

func (t *tr) emitWindow(params []string, res string, body string, what string, outs string) {
	if t.optMode {
		res = "Option (" + res + ")"
	}
	var out strings.Builder
	fmt.Fprintf(&out, "/-- translated from %s %s (.error = returned, .ok = fell through with (%s)) -/\n", what, t.key, outs)
	sep := " "
	if len(params) == 0 {
		sep = ""
	}
	fmt.Fprintf(&out, "def %s%s%s : %s :=\n  %s\n\n", t.out.lean, sep, strings.Join(params, " "), res, body)
	t.out.text = out.String()
	t.out.resLean = res
	t.out.nres = len(t.res)
}

// isParam: v is a parameter of the function being translated (not the receiver).
func (t *tr) isParam(v *types.Var) bool {
	sig := t.p.info.Defs[t.fd.Name].(*types.Func).Type().(*types.Signature)
	for i := 0; i < sig.Params().Len(); i++ {
		if sig.Params().At(i) == v {
			return true
		}
	}
	return false
}
