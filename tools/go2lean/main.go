// go2lean: the translator tie (T1) between /repo's Go source and the Lean development.
//
// It re-reads the working tree on every run and emits, under <out>/:
//
//	Consts.lean  – named constants (incl. iota) as Int definitions
//	Funcs.lean   – a restricted subset of pure Go functions as Lean functions over Int/Bool
//	Facts.lean   – structural fact tables (call sites, atomic write sites, package-level vars)
//
// The subset is deliberately tiny (see DESIGN.md §1.2). Anything outside it makes the function
// "untranslatable": it is reported in status.json and NOT emitted, so the theorems that mention it
// stop building and the check falls back to differential testing for that function.
package main

import (
	"encoding/json"
	"flag"
	"fmt"
	"go/ast"
	"go/constant"
	"go/importer"
	"go/parser"
	"go/token"
	"go/types"
	"os"
	"path/filepath"
	"sort"
	"strings"
)

type pkgInfo struct {
	name  string
	dir   string
	fset  *token.FileSet
	files []*ast.File
	info  *types.Info
	pkg   *types.Package
}

type fakeImporter struct {
	cache map[string]*types.Package
	repo  string
}

const modPath = "github.com/arloliu/go-secs/v2/"

func (f *fakeImporter) Import(path string) (*types.Package, error) {
	if p, ok := f.cache[path]; ok {
		return p, nil
	}
	// packages of the repository itself are type-checked from the working tree, so that
	// cross-package constants (hsms.maxHSMSMsgLen = secs2.MaxByteSize) resolve
	if strings.HasPrefix(path, modPath) && f.repo != "" {
		f.cache[path] = types.NewPackage(path, path[strings.LastIndex(path, "/")+1:]) // cycle guard
		if pi, err := loadPkg(f.repo, strings.TrimPrefix(path, modPath)); err == nil && pi.pkg != nil {
			f.cache[path] = pi.pkg
			return pi.pkg, nil
		}
	}
	// std packages: try the real importer first (gives time.Duration etc.), fall back to an empty package.
	if !strings.Contains(path, ".") {
		if p, err := importer.ForCompiler(token.NewFileSet(), "source", nil).Import(path); err == nil {
			f.cache[path] = p
			return p, nil
		}
	}
	base := path[strings.LastIndex(path, "/")+1:]
	p := types.NewPackage(path, base)
	p.MarkComplete()
	f.cache[path] = p
	return p, nil
}

var imp = &fakeImporter{cache: map[string]*types.Package{}}

func loadPkg(repo, rel string) (*pkgInfo, error) {
	dir := filepath.Join(repo, rel)
	fset := token.NewFileSet()
	ents, err := os.ReadDir(dir)
	if err != nil {
		return nil, err
	}
	var files []*ast.File
	for _, e := range ents {
		n := e.Name()
		if !strings.HasSuffix(n, ".go") || strings.HasSuffix(n, "_test.go") {
			continue
		}
		src, err := os.ReadFile(filepath.Join(dir, n))
		if err != nil {
			return nil, err
		}
		// skip verif-tagged hook files: they are ours, not the code under verification
		if strings.Contains(string(src), "//go:build verif") {
			continue
		}
		f, err := parser.ParseFile(fset, filepath.Join(dir, n), src, parser.ParseComments|parser.SkipObjectResolution)
		if err != nil {
			return nil, fmt.Errorf("parse %s: %w", n, err)
		}
		files = append(files, f)
	}
	info := &types.Info{
		Types: map[ast.Expr]types.TypeAndValue{},
		Defs:  map[*ast.Ident]types.Object{},
		Uses:  map[*ast.Ident]types.Object{},
	}
	conf := types.Config{Importer: imp, Error: func(error) {}, DisableUnusedImportCheck: true}
	pkg, _ := conf.Check("github.com/arloliu/go-secs/v2/"+rel, fset, files, info)
	return &pkgInfo{name: rel, dir: dir, fset: fset, files: files, info: info, pkg: pkg}, nil
}

func leanName(pkg, name string) string {
	return strings.ReplaceAll(pkg, "/", "_") + "_" + name
}

// ---------- constants ----------

func emitConsts(sb *strings.Builder, p *pkgInfo, status map[string]string) {
	scope := p.pkg.Scope()
	names := scope.Names()
	sort.Strings(names)
	for _, n := range names {
		c, ok := scope.Lookup(n).(*types.Const)
		if !ok {
			continue
		}
		v := c.Val()
		switch v.Kind() {
		case constant.Int:
			fmt.Fprintf(sb, "def %s : Int := %s\n", leanName(p.name, n), intLit(v.ExactString()))
		case constant.Bool:
			fmt.Fprintf(sb, "def %s : Bool := %v\n", leanName(p.name, n), constant.BoolVal(v))
		case constant.String:
			fmt.Fprintf(sb, "def %s : String := %q\n", leanName(p.name, n), constant.StringVal(v))
		default:
			// floats etc.: not needed
		}
	}
}

func intLit(s string) string {
	if strings.HasPrefix(s, "-") {
		return "(" + s + ")"
	}
	return s
}

// ---------- pure functions ----------

type untranslatable struct{ why string }

func bail(format string, a ...any) { panic(untranslatable{fmt.Sprintf(format, a...)}) }

type tr struct {
	p     *pkgInfo
	nres  int
	named []string // named results
}

func (t *tr) leanType(ty types.Type) string {
	switch u := ty.Underlying().(type) {
	case *types.Basic:
		switch {
		case u.Info()&types.IsInteger != 0:
			return "Int"
		case u.Info()&types.IsBoolean != 0:
			return "Bool"
		}
	}
	bail("unsupported type %s", ty)
	return ""
}

func intBits(ty types.Type) (bits int, signed bool, ok bool) {
	b, isB := ty.Underlying().(*types.Basic)
	if !isB || b.Info()&types.IsInteger == 0 {
		return 0, false, false
	}
	switch b.Kind() {
	case types.Int8:
		return 8, true, true
	case types.Int16:
		return 16, true, true
	case types.Int32:
		return 32, true, true
	case types.Int64, types.Int:
		return 64, true, true
	case types.Uint8:
		return 8, false, true
	case types.Uint16:
		return 16, false, true
	case types.Uint32:
		return 32, false, true
	case types.Uint64, types.Uint, types.Uintptr:
		return 64, false, true
	case types.UntypedInt:
		return 0, true, true
	}
	return 0, false, false
}

func (t *tr) expr(e ast.Expr) string {
	if tv, ok := t.p.info.Types[e]; ok && tv.Value != nil {
		switch tv.Value.Kind() {
		case constant.Int:
			return intLit(tv.Value.ExactString())
		case constant.Bool:
			if constant.BoolVal(tv.Value) {
				return "true"
			}
			return "false"
		}
	}
	switch x := e.(type) {
	case *ast.ParenExpr:
		return "(" + t.expr(x.X) + ")"
	case *ast.Ident:
		switch x.Name {
		case "true", "false":
			return x.Name
		}
		obj := t.p.info.Uses[x]
		if obj == nil {
			obj = t.p.info.Defs[x]
		}
		if _, ok := obj.(*types.Var); ok {
			return x.Name
		}
		bail("identifier %s is not a local variable or constant", x.Name)
	case *ast.BasicLit:
		if x.Kind == token.INT {
			tv := t.p.info.Types[e]
			if tv.Value != nil {
				return intLit(tv.Value.ExactString())
			}
		}
		bail("literal %s", x.Value)
	case *ast.UnaryExpr:
		switch x.Op {
		case token.NOT:
			return "(!" + t.expr(x.X) + ")"
		case token.SUB:
			return "(-" + t.expr(x.X) + ")"
		}
		bail("unary %s", x.Op)
	case *ast.BinaryExpr:
		a, b := t.expr(x.X), t.expr(x.Y)
		switch x.Op {
		case token.ADD:
			return "(" + a + " + " + b + ")"
		case token.SUB:
			return "(" + a + " - " + b + ")"
		case token.MUL:
			return "(" + a + " * " + b + ")"
		case token.QUO:
			return "(Int.tdiv " + a + " " + b + ")"
		case token.REM:
			return "(Int.tmod " + a + " " + b + ")"
		case token.EQL:
			return "(" + a + " == " + b + ")"
		case token.NEQ:
			return "(" + a + " != " + b + ")"
		case token.LSS:
			return "(decide (" + a + " < " + b + "))"
		case token.LEQ:
			return "(decide (" + a + " ≤ " + b + "))"
		case token.GTR:
			return "(decide (" + a + " > " + b + "))"
		case token.GEQ:
			return "(decide (" + a + " ≥ " + b + "))"
		case token.LAND:
			return "(" + a + " && " + b + ")"
		case token.LOR:
			return "(" + a + " || " + b + ")"
		}
		bail("binary %s", x.Op)
	case *ast.CallExpr:
		// conversions T(x) between integer types only
		if tv, ok := t.p.info.Types[x.Fun]; ok && tv.IsType() && len(x.Args) == 1 {
			bits, signed, ok := intBits(tv.Type)
			_, _, okArg := intBits(t.p.info.Types[x.Args[0]].Type)
			if ok && okArg {
				a := t.expr(x.Args[0])
				if signed {
					return fmt.Sprintf("(Go.wrapS %d %s)", bits, a)
				}
				return fmt.Sprintf("(Go.wrapU %d %s)", bits, a)
			}
		}
		bail("call expression")
	}
	bail("expression %T", e)
	return ""
}

// stmts translates a statement list in continuation style. k is the Lean text of "what happens
// after this list falls through" ("" = falling through is impossible / not allowed).
func (t *tr) stmts(list []ast.Stmt, k string, ind string) string {
	if len(list) == 0 {
		if k == "" {
			bail("control reaches end of function without return")
		}
		return k
	}
	rest := func() string { return t.stmts(list[1:], k, ind) }
	switch s := list[0].(type) {
	case *ast.ReturnStmt:
		if len(s.Results) == 0 {
			if len(t.named) == 0 {
				bail("bare return")
			}
			return "(" + strings.Join(t.named, ", ") + ")"
		}
		var parts []string
		for _, r := range s.Results {
			parts = append(parts, t.expr(r))
		}
		if len(parts) == 1 {
			return parts[0]
		}
		return "(" + strings.Join(parts, ", ") + ")"
	case *ast.AssignStmt:
		if len(s.Lhs) != len(s.Rhs) {
			bail("multi-value assignment")
		}
		out := ""
		for i := range s.Lhs {
			id, ok := s.Lhs[i].(*ast.Ident)
			if !ok {
				bail("assignment to non-identifier")
			}
			rhs := t.expr(s.Rhs[i])
			switch s.Tok {
			case token.DEFINE, token.ASSIGN:
			case token.ADD_ASSIGN:
				rhs = "(" + id.Name + " + " + rhs + ")"
			case token.SUB_ASSIGN:
				rhs = "(" + id.Name + " - " + rhs + ")"
			default:
				bail("assignment op %s", s.Tok)
			}
			if id.Name == "_" {
				continue
			}
			out += fmt.Sprintf("let %s := %s\n%s", id.Name, rhs, ind)
		}
		return out + rest()
	case *ast.IncDecStmt:
		id, ok := s.X.(*ast.Ident)
		if !ok {
			bail("inc/dec of non-identifier")
		}
		op := "+"
		if s.Tok == token.DEC {
			op = "-"
		}
		return fmt.Sprintf("let %s := (%s %s 1)\n%s", id.Name, id.Name, op, ind) + rest()
	case *ast.DeclStmt:
		gd, ok := s.Decl.(*ast.GenDecl)
		if !ok || gd.Tok != token.VAR {
			bail("declaration")
		}
		out := ""
		for _, sp := range gd.Specs {
			vs := sp.(*ast.ValueSpec)
			for i, n := range vs.Names {
				if len(vs.Values) > i {
					out += fmt.Sprintf("let %s := %s\n%s", n.Name, t.expr(vs.Values[i]), ind)
					continue
				}
				ty := t.leanType(t.p.info.Defs[n].Type())
				zero := "0"
				if ty == "Bool" {
					zero = "false"
				}
				out += fmt.Sprintf("let %s : %s := %s\n%s", n.Name, ty, zero, ind)
			}
		}
		return out + rest()
	case *ast.IfStmt:
		if s.Init != nil {
			// "if x := e; cond" – hoist the init (shadowing is harmless in continuation style
			// only when the name is not used after the if; require that by refusing reuse).
			pre := t.stmts([]ast.Stmt{s.Init}, "«k»", ind)
			body := t.ifStmt(s, list[1:], k, ind)
			return strings.Replace(pre, "«k»", body, 1)
		}
		return t.ifStmt(s, list[1:], k, ind)
	case *ast.SwitchStmt:
		if s.Init != nil {
			bail("switch with init")
		}
		after := ""
		if len(list) > 1 || k != "" {
			after = t.stmts(list[1:], k, ind+"  ")
		}
		var def *ast.CaseClause
		type arm struct {
			cond string
			body []ast.Stmt
		}
		var arms []arm
		for _, c := range s.Body.List {
			cc := c.(*ast.CaseClause)
			if cc.List == nil {
				def = cc
				continue
			}
			var conds []string
			for _, e := range cc.List {
				if s.Tag != nil {
					conds = append(conds, "("+t.expr(s.Tag)+" == "+t.expr(e)+")")
				} else {
					conds = append(conds, t.expr(e))
				}
			}
			arms = append(arms, arm{strings.Join(conds, " || "), cc.Body})
		}
		for _, a := range arms {
			for _, st := range a.body {
				if br, ok := st.(*ast.BranchStmt); ok {
					bail("branch statement %s in switch", br.Tok)
				}
			}
		}
		out := ""
		closeN := 0
		for _, a := range arms {
			out += fmt.Sprintf("if %s then\n%s  %s\n%selse ", a.cond, ind, t.stmts(a.body, after, ind+"  "), ind)
			closeN++
		}
		if def != nil {
			out += t.stmts(def.Body, after, ind+"  ")
		} else {
			if after == "" {
				bail("switch without default falls through to end of function")
			}
			out += after
		}
		return out
	case *ast.EmptyStmt:
		return rest()
	case *ast.ExprStmt:
		// `_ = v` style no-ops only
		bail("expression statement")
	}
	bail("statement %T", list[0])
	return ""
}

func (t *tr) ifStmt(s *ast.IfStmt, tail []ast.Stmt, k string, ind string) string {
	after := ""
	if len(tail) > 0 || k != "" {
		after = t.stmts(tail, k, ind+"  ")
	}
	thenS := t.stmts(s.Body.List, after, ind+"  ")
	var elseS string
	switch e := s.Else.(type) {
	case nil:
		if after == "" {
			bail("if without else at end of function")
		}
		elseS = after
	case *ast.BlockStmt:
		elseS = t.stmts(e.List, after, ind+"  ")
	case *ast.IfStmt:
		elseS = t.ifStmt(e, nil, after, ind+"  ")
	}
	return fmt.Sprintf("if %s then\n%s  %s\n%selse\n%s  %s", t.expr(s.Cond), ind, thenS, ind, ind, elseS)
}

func emitFunc(sb *strings.Builder, p *pkgInfo, name string, status map[string]string) {
	key := p.name + "." + name
	var fd *ast.FuncDecl
	for _, f := range p.files {
		for _, d := range f.Decls {
			if x, ok := d.(*ast.FuncDecl); ok && x.Recv == nil && x.Name.Name == name {
				fd = x
			}
		}
	}
	if fd == nil {
		status[key] = "missing"
		fmt.Fprintf(sb, "-- UNTRANSLATABLE %s: function not found\n\n", key)
		return
	}
	defer func() {
		if r := recover(); r != nil {
			u, ok := r.(untranslatable)
			if !ok {
				panic(r)
			}
			status[key] = "untranslatable: " + u.why
			fmt.Fprintf(sb, "-- UNTRANSLATABLE %s: %s\n\n", key, u.why)
		}
	}()
	t := &tr{p: p}
	var params []string
	for _, fl := range fd.Type.Params.List {
		ty := t.leanType(p.info.Types[fl.Type].Type)
		for _, n := range fl.Names {
			params = append(params, fmt.Sprintf("(%s : %s)", n.Name, ty))
		}
	}
	var res []string
	pre := ""
	if fd.Type.Results != nil {
		for _, fl := range fd.Type.Results.List {
			ty := t.leanType(p.info.Types[fl.Type].Type)
			if len(fl.Names) == 0 {
				res = append(res, ty)
			}
			for _, n := range fl.Names {
				res = append(res, ty)
				t.named = append(t.named, n.Name)
				zero := "0"
				if ty == "Bool" {
					zero = "false"
				}
				pre += fmt.Sprintf("let %s : %s := %s\n  ", n.Name, ty, zero)
			}
		}
	}
	if len(res) == 0 {
		bail("no results")
	}
	body := t.stmts(fd.Body.List, "", "  ")
	var out strings.Builder
	fmt.Fprintf(&out, "/-- translated from %s (%s) -/\n", key, filepath.Base(p.fset.Position(fd.Pos()).Filename))
	fmt.Fprintf(&out, "def %s %s : %s :=\n  %s%s\n\n", leanName(p.name, name), strings.Join(params, " "), strings.Join(res, " × "), pre, body)
	sb.WriteString(out.String())
	status[key] = "ok"
}

// ---------- facts ----------

type callSite struct {
	Pkg, File, Func, Callee string
}

// collectCalls lists every call whose selector/identifier name is in want, with the enclosing function.
func collectCalls(p *pkgInfo, want map[string]bool) []callSite {
	var out []callSite
	for _, f := range p.files {
		file := filepath.Base(p.fset.Position(f.Pos()).Filename)
		for _, d := range f.Decls {
			fd, ok := d.(*ast.FuncDecl)
			if !ok || fd.Body == nil {
				continue
			}
			fn := fd.Name.Name
			if fd.Recv != nil && len(fd.Recv.List) == 1 {
				fn = recvName(fd.Recv.List[0].Type) + "." + fn
			}
			ast.Inspect(fd.Body, func(n ast.Node) bool {
				ce, ok := n.(*ast.CallExpr)
				if !ok {
					return true
				}
				name := calleeName(ce.Fun)
				if want[name] {
					out = append(out, callSite{p.name, file, fn, name})
				}
				return true
			})
		}
	}
	return out
}

func recvName(e ast.Expr) string {
	switch x := e.(type) {
	case *ast.StarExpr:
		return recvName(x.X)
	case *ast.Ident:
		return x.Name
	case *ast.IndexExpr:
		return recvName(x.X)
	}
	return "?"
}

// calleeName renders a.b.c(...) as "b.c" (last two components) or f(...) as "f".
func calleeName(e ast.Expr) string {
	switch x := e.(type) {
	case *ast.Ident:
		return x.Name
	case *ast.SelectorExpr:
		switch y := x.X.(type) {
		case *ast.Ident:
			return y.Name + "." + x.Sel.Name
		case *ast.SelectorExpr:
			return y.Sel.Name + "." + x.Sel.Name
		case *ast.CallExpr:
			return "()." + x.Sel.Name
		}
		return "?." + x.Sel.Name
	}
	return ""
}

// packageVars lists package-level `var` names with whether any function assigns to them.
func packageVars(p *pkgInfo) (names []string, written map[string]bool) {
	written = map[string]bool{}
	set := map[string]bool{}
	for _, f := range p.files {
		for _, d := range f.Decls {
			gd, ok := d.(*ast.GenDecl)
			if !ok || gd.Tok != token.VAR {
				continue
			}
			for _, sp := range gd.Specs {
				for _, n := range sp.(*ast.ValueSpec).Names {
					if n.Name != "_" {
						set[n.Name] = true
					}
				}
			}
		}
	}
	for _, f := range p.files {
		for _, d := range f.Decls {
			fd, ok := d.(*ast.FuncDecl)
			if !ok || fd.Body == nil {
				continue
			}
			ast.Inspect(fd.Body, func(n ast.Node) bool {
				switch s := n.(type) {
				case *ast.AssignStmt:
					for _, l := range s.Lhs {
						if id := rootIdent(l); id != nil && set[id.Name] {
							if _, isVar := p.info.Uses[id].(*types.Var); isVar && p.info.Uses[id].Parent() == p.pkg.Scope() {
								written[id.Name] = true
							}
						}
					}
				case *ast.IncDecStmt:
					if id := rootIdent(s.X); id != nil && set[id.Name] {
						if o := p.info.Uses[id]; o != nil && o.Parent() == p.pkg.Scope() {
							written[id.Name] = true
						}
					}
				}
				return true
			})
		}
	}
	for n := range set {
		names = append(names, n)
	}
	sort.Strings(names)
	return
}

func rootIdent(e ast.Expr) *ast.Ident {
	for {
		switch x := e.(type) {
		case *ast.Ident:
			return x
		case *ast.SelectorExpr:
			e = x.X
		case *ast.IndexExpr:
			e = x.X
		case *ast.StarExpr:
			e = x.X
		case *ast.ParenExpr:
			e = x.X
		default:
			return nil
		}
	}
}

// stateWrites lists every write to a field named `state` through an atomic method, with constant args.
type stateWrite struct {
	Func, Op string
	Args     []string
}

func stateWrites(p *pkgInfo) []stateWrite {
	var out []stateWrite
	for _, f := range p.files {
		for _, d := range f.Decls {
			fd, ok := d.(*ast.FuncDecl)
			if !ok || fd.Body == nil {
				continue
			}
			fn := fd.Name.Name
			if fd.Recv != nil && len(fd.Recv.List) == 1 {
				fn = recvName(fd.Recv.List[0].Type) + "." + fn
			}
			ast.Inspect(fd.Body, func(n ast.Node) bool {
				ce, ok := n.(*ast.CallExpr)
				if !ok {
					return true
				}
				sel, ok := ce.Fun.(*ast.SelectorExpr)
				if !ok {
					return true
				}
				inner, ok := sel.X.(*ast.SelectorExpr)
				if !ok || inner.Sel.Name != "state" {
					return true
				}
				switch sel.Sel.Name {
				case "Store", "CompareAndSwap", "Swap", "Add":
					w := stateWrite{Func: fn, Op: sel.Sel.Name}
					for _, a := range ce.Args {
						w.Args = append(w.Args, argText(p, a))
					}
					out = append(out, w)
				}
				return true
			})
		}
	}
	return out
}

func argText(p *pkgInfo, e ast.Expr) string {
	if tv, ok := p.info.Types[e]; ok && tv.Value != nil && tv.Value.Kind() == constant.Int {
		return tv.Value.ExactString()
	}
	if ce, ok := e.(*ast.CallExpr); ok && len(ce.Args) == 1 {
		return argText(p, ce.Args[0])
	}
	if id, ok := e.(*ast.Ident); ok {
		return id.Name
	}
	return "?"
}

func leanStr(s string) string { return fmt.Sprintf("%q", s) }

func main() {
	repo := flag.String("repo", "/repo", "repository root")
	out := flag.String("out", "", "output directory (lean/GoSecs/Gen)")
	flag.Parse()
	if *out == "" {
		fmt.Fprintln(os.Stderr, "usage: go2lean -repo /repo -out DIR")
		os.Exit(2)
	}
	if err := os.MkdirAll(*out, 0o755); err != nil {
		panic(err)
	}
	imp.repo = *repo
	status := map[string]string{}
	pkgs := map[string]*pkgInfo{}
	for _, rel := range []string{"secs2", "hsms", "hsmsss", "secs1", "sml", "internal/wire"} {
		p, err := loadPkg(*repo, rel)
		if err != nil {
			fmt.Fprintln(os.Stderr, "go2lean:", err)
			os.Exit(1)
		}
		pkgs[rel] = p
	}

	var cs strings.Builder
	cs.WriteString("-- GENERATED by tools/go2lean from /repo's working tree. Do not edit.\nnamespace GoSecs.Gen\n\n")
	for _, rel := range []string{"secs2", "hsms", "hsmsss", "secs1", "sml"} {
		fmt.Fprintf(&cs, "-- package %s\n", rel)
		emitConsts(&cs, pkgs[rel], status)
		cs.WriteString("\n")
	}
	cs.WriteString("end GoSecs.Gen\n")
	must(os.WriteFile(filepath.Join(*out, "Consts.lean"), []byte(cs.String()), 0o644))

	var fs strings.Builder
	fs.WriteString("-- GENERATED by tools/go2lean from /repo's working tree. Do not edit.\nimport GoSecs.GoPrelude\nnamespace GoSecs.Gen\n\n")
	funcs := []struct{ pkg, name string }{
		{"secs2", "headerLen"},
		{"secs2", "clampInt64"},
		{"secs2", "clampUint64"},
		{"hsms", "transition"},
		{"hsms", "IsValidSType"},
		{"hsmsss", "linktestFailureStep"},
		{"hsmsss", "linktestDisconnectRecheck"},
	}
	for _, f := range funcs {
		emitFunc(&fs, pkgs[f.pkg], f.name, status)
	}
	fs.WriteString("end GoSecs.Gen\n")
	must(os.WriteFile(filepath.Join(*out, "Funcs.lean"), []byte(fs.String()), 0o644))

	// facts
	var ft strings.Builder
	ft.WriteString("-- GENERATED by tools/go2lean from /repo's working tree. Do not edit.\nnamespace GoSecs.Gen\n\n")
	ft.WriteString("/-- (function, atomic op, constant args) for every atomic write to a field named `state` in package hsms. -/\n")
	ft.WriteString("def hsms_stateWrites : List (String × String × List String) := [\n")
	sw := stateWrites(pkgs["hsms"])
	for i, w := range sw {
		var args []string
		for _, a := range w.Args {
			args = append(args, leanStr(a))
		}
		sep := ","
		if i == len(sw)-1 {
			sep = ""
		}
		fmt.Fprintf(&ft, "  (%s, %s, [%s])%s\n", leanStr(w.Func), leanStr(w.Op), strings.Join(args, ", "), sep)
	}
	ft.WriteString("]\n\n")

	want := map[string]bool{}
	for _, n := range []string{"tr.Write", "metrics.incDataMsgSend", "metrics.incDataMsgRecv", "metrics.incDataMsgInflight",
		"metrics.decDataMsgInflight", "metrics.incConnRetry", "metrics.decConnRetry", "replies.register", "replies.deregister",
		"replies.deliver", "metrics.incDataMsgErr", "wire.FromItem", "wire.AdoptBody", "nextBackoffDelay"} {
		want[n] = true
	}
	ft.WriteString("/-- (package, file, enclosing function, callee) for the tracked chokepoint calls. -/\n")
	ft.WriteString("def callSites : List (String × String × String × String) := [\n")
	var all []callSite
	for _, rel := range []string{"hsms", "hsmsss", "secs1"} {
		all = append(all, collectCalls(pkgs[rel], want)...)
	}
	for i, c := range all {
		sep := ","
		if i == len(all)-1 {
			sep = ""
		}
		fmt.Fprintf(&ft, "  (%s, %s, %s, %s)%s\n", leanStr(c.Pkg), leanStr(c.File), leanStr(c.Func), leanStr(c.Callee), sep)
	}
	ft.WriteString("]\n\n")

	// C08: where the HSMS-SS transport arms / cancels T7, starts / stops the linktest, commits the logical state and
	// drops the link — the hand model (Model/Responder) places these effects; the table pins their call sites.
	ctlWant := map[string]bool{}
	for _, n := range []string{"t.armT7", "t.cancelT7", "t.startLinktest", "t.stopLinktest", "rt.TCPDown", "rt.CommitSelected",
		"rt.SelectLost", "rt.T7Expired", "rt.TCPUp"} {
		ctlWant[n] = true
	}
	ft.WriteString("/-- (file, enclosing function, callee) for every timer / state-commit / link-drop call in package hsmsss (non-hook files). -/\n")
	ft.WriteString("def hsmsss_controlSites : List (String × String × String) := [\n")
	var ctl []callSite
	for _, cs := range collectCalls(pkgs["hsmsss"], ctlWant) {
		if !strings.HasPrefix(cs.File, "verif_hooks") {
			ctl = append(ctl, cs)
		}
	}
	for i, c := range ctl {
		sep := ","
		if i == len(ctl)-1 {
			sep = ""
		}
		fmt.Fprintf(&ft, "  (%s, %s, %s)%s\n", leanStr(c.File), leanStr(c.Func), leanStr(c.Callee), sep)
	}
	ft.WriteString("]\n\n")

	ft.WriteString("/-- package-level variables of package sml and whether any function body assigns to them. -/\n")
	ft.WriteString("def sml_packageVars : List (String × Bool) := [\n")
	names, written := packageVars(pkgs["sml"])
	for i, n := range names {
		sep := ","
		if i == len(names)-1 {
			sep = ""
		}
		fmt.Fprintf(&ft, "  (%s, %v)%s\n", leanStr(n), written[n], sep)
	}
	ft.WriteString("]\n\nend GoSecs.Gen\n")
	must(os.WriteFile(filepath.Join(*out, "Facts.lean"), []byte(ft.String()), 0o644))

	must(emitProvenance(*repo, *out)) // C12 ownership tables (provenance.go) -> Provenance.lean

	js, _ := json.MarshalIndent(status, "", " ")
	must(os.WriteFile(filepath.Join(*out, "status.json"), js, 0o644))
	bad := 0
	for k, v := range status {
		if v != "ok" {
			fmt.Fprintf(os.Stderr, "go2lean: %s: %s\n", k, v)
			bad++
		}
	}
	fmt.Printf("go2lean: %d functions translated, %d not\n", len(status)-bad, bad)
}

func must(err error) {
	if err != nil {
		panic(err)
	}
}
