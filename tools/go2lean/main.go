// go2lean: the translator tie (T1) between /repo's Go source and the Lean development.
//
// It re-reads the working tree on every run and emits, under <out>/:
//
//	Consts.lean      – named constants (incl. iota) as Int / Bool / String definitions
//	Funcs.lean       – the original small set of pure Go functions (linked by the model driver)
//	<Pkg>.lean       – one file per Go package (Secs1, Hsms, Secs2, Sml, Wire, …) with the structures and
//	                   functions translated from that package (imports the files of the packages it uses)
//	Facts.lean       – structural fact tables (call sites, atomic write sites, package-level vars)
//	Provenance.lean  – ownership tables (provenance.go)
//	status.json      – per function: "ok" or "untranslatable: <construct> at <file:line>"
//
// THE ACCEPTED SUBSET OF GO IS DOCUMENTED AT THE TOP OF translate.go; the meaning of the emitted
// vocabulary (Go.wrapU, Go.slice?, Go.foldB, …) is lean/GoSecs/GoPrelude.lean. Anything outside the subset
// makes the function "untranslatable": it is reported in status.json with the function name and the
// offending construct and NOT emitted, so the theorems that mention it stop building and the check
// reports the broken tie (and falls back to differential testing for a failing input).
package main

import (
	"encoding/json"
	"flag"
	"fmt"
	"go/ast"
	"go/constant"
	"go/importer"
	"go/parser"
	"go/token"
	"go/types"
	"os"
	"path/filepath"
	"sort"
	"strings"
)

type pkgInfo struct {
	name  string
	dir   string
	fset  *token.FileSet
	files []*ast.File
	info  *types.Info
	pkg   *types.Package
}

type fakeImporter struct {
	cache map[string]*types.Package
	repo  string
}

const modPath = "github.com/arloliu/go-secs/v2/"

func (f *fakeImporter) Import(path string) (*types.Package, error) {
	if p, ok := f.cache[path]; ok {
		return p, nil
	}
	// packages of the repository itself are type-checked from the working tree, so that
	// cross-package constants (hsms.maxHSMSMsgLen = secs2.MaxByteSize) resolve
	if strings.HasPrefix(path, modPath) && f.repo != "" {
		f.cache[path] = types.NewPackage(path, path[strings.LastIndex(path, "/")+1:]) // cycle guard
		if pi, err := loadPkg(f.repo, strings.TrimPrefix(path, modPath)); err == nil && pi.pkg != nil {
			f.cache[path] = pi.pkg
			return pi.pkg, nil
		}
	}
	// std packages: try the real importer first (gives time.Duration etc.), fall back to an empty package.
	if !strings.Contains(path, ".") {
		if p, err := importer.ForCompiler(token.NewFileSet(), "source", nil).Import(path); err == nil {
			f.cache[path] = p
			return p, nil
		}
	}
	base := path[strings.LastIndex(path, "/")+1:]
	p := types.NewPackage(path, base)
	p.MarkComplete()
	f.cache[path] = p
	return p, nil
}

var imp = &fakeImporter{cache: map[string]*types.Package{}}

var pkgCache = map[string]*pkgInfo{}
var repoRoot string

func loadPkg(repo, rel string) (*pkgInfo, error) {
	if p, ok := pkgCache[repo+"\x00"+rel]; ok {
		return p, nil
	}
	p, err := loadPkg0(repo, rel)
	if err == nil {
		pkgCache[repo+"\x00"+rel] = p
	}
	return p, err
}

func loadPkg0(repo, rel string) (*pkgInfo, error) {
	dir := filepath.Join(repo, rel)
	fset := token.NewFileSet()
	ents, err := os.ReadDir(dir)
	if err != nil {
		return nil, err
	}
	var files []*ast.File
	for _, e := range ents {
		n := e.Name()
		if !strings.HasSuffix(n, ".go") || strings.HasSuffix(n, "_test.go") {
			continue
		}
		src, err := os.ReadFile(filepath.Join(dir, n))
		if err != nil {
			return nil, err
		}
		// skip verif-tagged hook files: they are ours, not the code under verification
		if strings.Contains(string(src), "//go:build verif") {
			continue
		}
		f, err := parser.ParseFile(fset, filepath.Join(dir, n), src, parser.ParseComments|parser.SkipObjectResolution)
		if err != nil {
			return nil, fmt.Errorf("parse %s: %w", n, err)
		}
		files = append(files, f)
	}
	info := &types.Info{
		Types:      map[ast.Expr]types.TypeAndValue{},
		Defs:       map[*ast.Ident]types.Object{},
		Uses:       map[*ast.Ident]types.Object{},
		Selections: map[*ast.SelectorExpr]*types.Selection{},
	}
	conf := types.Config{Importer: imp, Error: func(error) {}, DisableUnusedImportCheck: true}
	pkg, _ := conf.Check("github.com/arloliu/go-secs/v2/"+rel, fset, files, info)
	return &pkgInfo{name: rel, dir: dir, fset: fset, files: files, info: info, pkg: pkg}, nil
}

func leanName(pkg, name string) string {
	return strings.ReplaceAll(pkg, "/", "_") + "_" + name
}

// ---------- constants ----------

func emitConsts(sb *strings.Builder, p *pkgInfo, status map[string]string) {
	scope := p.pkg.Scope()
	names := scope.Names()
	sort.Strings(names)
	for _, n := range names {
		c, ok := scope.Lookup(n).(*types.Const)
		if !ok {
			continue
		}
		v := c.Val()
		switch v.Kind() {
		case constant.Int:
			fmt.Fprintf(sb, "def %s : Int := %s\n", leanName(p.name, n), intLit(v.ExactString()))
		case constant.Bool:
			fmt.Fprintf(sb, "def %s : Bool := %v\n", leanName(p.name, n), constant.BoolVal(v))
		case constant.String:
			fmt.Fprintf(sb, "def %s : String := %q\n", leanName(p.name, n), constant.StringVal(v))
		default:
			// floats etc.: not needed
		}
	}
}

func intLit(s string) string {
	if strings.HasPrefix(s, "-") {
		return "(" + s + ")"
	}
	return s
}

// ---------- facts ----------

type callSite struct {
	Pkg, File, Func, Callee string
}

// collectCalls lists every call whose selector/identifier name is in want, with the enclosing function.
func collectCalls(p *pkgInfo, want map[string]bool) []callSite {
	var out []callSite
	for _, f := range p.files {
		file := filepath.Base(p.fset.Position(f.Pos()).Filename)
		for _, d := range f.Decls {
			fd, ok := d.(*ast.FuncDecl)
			if !ok || fd.Body == nil {
				continue
			}
			fn := fd.Name.Name
			if fd.Recv != nil && len(fd.Recv.List) == 1 {
				fn = recvName(fd.Recv.List[0].Type) + "." + fn
			}
			ast.Inspect(fd.Body, func(n ast.Node) bool {
				ce, ok := n.(*ast.CallExpr)
				if !ok {
					return true
				}
				name := calleeName(ce.Fun)
				if want[name] {
					out = append(out, callSite{p.name, file, fn, name})
				}
				return true
			})
		}
	}
	return out
}

func recvName(e ast.Expr) string {
	switch x := e.(type) {
	case *ast.StarExpr:
		return recvName(x.X)
	case *ast.Ident:
		return x.Name
	case *ast.IndexExpr:
		return recvName(x.X)
	}
	return "?"
}

// calleeName renders a.b.c(...) as "b.c" (last two components) or f(...) as "f".
func calleeName(e ast.Expr) string {
	switch x := e.(type) {
	case *ast.Ident:
		return x.Name
	case *ast.SelectorExpr:
		switch y := x.X.(type) {
		case *ast.Ident:
			return y.Name + "." + x.Sel.Name
		case *ast.SelectorExpr:
			return y.Sel.Name + "." + x.Sel.Name
		case *ast.CallExpr:
			return "()." + x.Sel.Name
		}
		return "?." + x.Sel.Name
	}
	return ""
}

// packageVars lists package-level `var` names with whether any function assigns to them.
func packageVars(p *pkgInfo) (names []string, written map[string]bool) {
	written = map[string]bool{}
	set := map[string]bool{}
	for _, f := range p.files {
		for _, d := range f.Decls {
			gd, ok := d.(*ast.GenDecl)
			if !ok || gd.Tok != token.VAR {
				continue
			}
			for _, sp := range gd.Specs {
				for _, n := range sp.(*ast.ValueSpec).Names {
					if n.Name != "_" {
						set[n.Name] = true
					}
				}
			}
		}
	}
	for _, f := range p.files {
		for _, d := range f.Decls {
			fd, ok := d.(*ast.FuncDecl)
			if !ok || fd.Body == nil {
				continue
			}
			ast.Inspect(fd.Body, func(n ast.Node) bool {
				switch s := n.(type) {
				case *ast.AssignStmt:
					for _, l := range s.Lhs {
						if id := rootIdent(l); id != nil && set[id.Name] {
							if _, isVar := p.info.Uses[id].(*types.Var); isVar && p.info.Uses[id].Parent() == p.pkg.Scope() {
								written[id.Name] = true
							}
						}
					}
				case *ast.IncDecStmt:
					if id := rootIdent(s.X); id != nil && set[id.Name] {
						if o := p.info.Uses[id]; o != nil && o.Parent() == p.pkg.Scope() {
							written[id.Name] = true
						}
					}
				}
				return true
			})
		}
	}
	for n := range set {
		names = append(names, n)
	}
	sort.Strings(names)
	return
}

func rootIdent(e ast.Expr) *ast.Ident {
	for {
		switch x := e.(type) {
		case *ast.Ident:
			return x
		case *ast.SelectorExpr:
			e = x.X
		case *ast.IndexExpr:
			e = x.X
		case *ast.StarExpr:
			e = x.X
		case *ast.ParenExpr:
			e = x.X
		default:
			return nil
		}
	}
}

// stateWrites lists every write to a field named `state` through an atomic method, with constant args.
type stateWrite struct {
	Func, Op string
	Args     []string
}

func stateWrites(p *pkgInfo) []stateWrite {
	var out []stateWrite
	for _, f := range p.files {
		for _, d := range f.Decls {
			fd, ok := d.(*ast.FuncDecl)
			if !ok || fd.Body == nil {
				continue
			}
			fn := fd.Name.Name
			if fd.Recv != nil && len(fd.Recv.List) == 1 {
				fn = recvName(fd.Recv.List[0].Type) + "." + fn
			}
			ast.Inspect(fd.Body, func(n ast.Node) bool {
				ce, ok := n.(*ast.CallExpr)
				if !ok {
					return true
				}
				sel, ok := ce.Fun.(*ast.SelectorExpr)
				if !ok {
					return true
				}
				inner, ok := sel.X.(*ast.SelectorExpr)
				if !ok || inner.Sel.Name != "state" {
					return true
				}
				switch sel.Sel.Name {
				case "Store", "CompareAndSwap", "Swap", "Add":
					w := stateWrite{Func: fn, Op: sel.Sel.Name}
					for _, a := range ce.Args {
						w.Args = append(w.Args, argText(p, a))
					}
					out = append(out, w)
				}
				return true
			})
		}
	}
	return out
}

func argText(p *pkgInfo, e ast.Expr) string {
	if tv, ok := p.info.Types[e]; ok && tv.Value != nil && tv.Value.Kind() == constant.Int {
		return tv.Value.ExactString()
	}
	if ce, ok := e.(*ast.CallExpr); ok && len(ce.Args) == 1 {
		return argText(p, ce.Args[0])
	}
	if id, ok := e.(*ast.Ident); ok {
		return id.Name
	}
	return "?"
}

func leanStr(s string) string { return fmt.Sprintf("%q", s) }

func main() {
	repo := flag.String("repo", "/repo", "repository root")
	out := flag.String("out", "", "output directory (lean/GoSecs/Gen)")
	show := flag.String("show", "", "debugging: comma-separated function keys (rel.Func / rel.Type.Method) to translate and print")
	flag.Parse()
	if *show != "" {
		imp.repo = *repo
		repoRoot = *repo
		g := newG()
		for _, k := range strings.Split(*show, ",") {
			o := g.translate(k)
			if o.ok {
				fmt.Print(o.text)
			} else {
				fmt.Printf("-- UNTRANSLATABLE %s: %s\n\n", k, o.why)
			}
		}
		return
	}
	if *out == "" {
		fmt.Fprintln(os.Stderr, "usage: go2lean -repo /repo -out DIR")
		os.Exit(2)
	}
	if err := os.MkdirAll(*out, 0o755); err != nil {
		panic(err)
	}
	imp.repo = *repo
	repoRoot = *repo
	status := map[string]string{}
	pkgs := map[string]*pkgInfo{}
	for _, rel := range []string{"secs2", "hsms", "hsmsss", "secs1", "sml", "internal/wire"} {
		p, err := loadPkg(*repo, rel)
		if err != nil {
			fmt.Fprintln(os.Stderr, "go2lean:", err)
			os.Exit(1)
		}
		pkgs[rel] = p
	}

	var cs strings.Builder
	cs.WriteString("-- GENERATED by tools/go2lean from /repo's working tree. Do not edit.\nnamespace GoSecs.Gen\n\n")
	for _, rel := range []string{"secs2", "hsms", "hsmsss", "secs1", "sml"} {
		fmt.Fprintf(&cs, "-- package %s\n", rel)
		emitConsts(&cs, pkgs[rel], status)
		cs.WriteString("\n")
	}
	cs.WriteString("end GoSecs.Gen\n")
	must(os.WriteFile(filepath.Join(*out, "Consts.lean"), []byte(cs.String()), 0o644))

	emitFunctions(*out, status)

	// facts
	var ft strings.Builder
	ft.WriteString("-- GENERATED by tools/go2lean from /repo's working tree. Do not edit.\nnamespace GoSecs.Gen\n\n")
	ft.WriteString("/-- (function, atomic op, constant args) for every atomic write to a field named `state` in package hsms. -/\n")
	ft.WriteString("def hsms_stateWrites : List (String × String × List String) := [\n")
	sw := stateWrites(pkgs["hsms"])
	for i, w := range sw {
		var args []string
		for _, a := range w.Args {
			args = append(args, leanStr(a))
		}
		sep := ","
		if i == len(sw)-1 {
			sep = ""
		}
		fmt.Fprintf(&ft, "  (%s, %s, [%s])%s\n", leanStr(w.Func), leanStr(w.Op), strings.Join(args, ", "), sep)
	}
	ft.WriteString("]\n\n")

	want := map[string]bool{}
	for _, n := range []string{"tr.Write", "metrics.incDataMsgSend", "metrics.incDataMsgRecv", "metrics.incDataMsgInflight",
		"metrics.decDataMsgInflight", "metrics.incConnRetry", "metrics.decConnRetry", "replies.register", "replies.deregister",
		"replies.deliver", "metrics.incDataMsgErr", "wire.FromItem", "wire.AdoptBody", "nextBackoffDelay", "c.writeFrame"} {
		want[n] = true
	}
	ft.WriteString("/-- (package, file, enclosing function, callee) for the tracked chokepoint calls. -/\n")
	ft.WriteString("def callSites : List (String × String × String × String) := [\n")
	var all []callSite
	for _, rel := range []string{"hsms", "hsmsss", "secs1"} {
		all = append(all, collectCalls(pkgs[rel], want)...)
	}
	for i, c := range all {
		sep := ","
		if i == len(all)-1 {
			sep = ""
		}
		fmt.Fprintf(&ft, "  (%s, %s, %s, %s)%s\n", leanStr(c.Pkg), leanStr(c.File), leanStr(c.Func), leanStr(c.Callee), sep)
	}
	ft.WriteString("]\n\n")

	// C08: where the HSMS-SS transport arms / cancels T7, starts / stops the linktest, commits the logical state and
	// drops the link — the hand model (Model/Responder) places these effects; the table pins their call sites.
	ctlWant := map[string]bool{}
	for _, n := range []string{"t.armT7", "t.cancelT7", "t.startLinktest", "t.stopLinktest", "rt.TCPDown", "rt.CommitSelected",
		"rt.SelectLost", "rt.T7Expired", "rt.TCPUp"} {
		ctlWant[n] = true
	}
	ft.WriteString("/-- (file, enclosing function, callee) for every timer / state-commit / link-drop call in package hsmsss (non-hook files). -/\n")
	ft.WriteString("def hsmsss_controlSites : List (String × String × String) := [\n")
	var ctl []callSite
	for _, cs := range collectCalls(pkgs["hsmsss"], ctlWant) {
		if !strings.HasPrefix(cs.File, "verif_hooks") {
			ctl = append(ctl, cs)
		}
	}
	for i, c := range ctl {
		sep := ","
		if i == len(ctl)-1 {
			sep = ""
		}
		fmt.Fprintf(&ft, "  (%s, %s, %s)%s\n", leanStr(c.File), leanStr(c.Func), leanStr(c.Callee), sep)
	}
	ft.WriteString("]\n\n")

	// C20: the error classes a failed data send does NOT count as a data-message error — the body of hsms
	// `isCountedSendErr` as the list of its errors.Is targets, plus the number of its other statements/calls
	ft.WriteString("/-- the `errors.Is(err, X)` targets of hsms `isCountedSendErr`, in source order, and how many OTHER calls its body makes. -/\n")
	var targets []string
	other := 0
	for _, f := range pkgs["hsms"].files {
		for _, d := range f.Decls {
			fd, ok := d.(*ast.FuncDecl)
			if !ok || fd.Body == nil || fd.Recv != nil || fd.Name.Name != "isCountedSendErr" {
				continue
			}
			ast.Inspect(fd.Body, func(n ast.Node) bool {
				ce, ok := n.(*ast.CallExpr)
				if !ok {
					return true
				}
				if calleeName(ce.Fun) == "errors.Is" && len(ce.Args) == 2 {
					targets = append(targets, leanStr(calleeName(ce.Args[1])))
				} else {
					other++
				}
				return true
			})
		}
	}
	fmt.Fprintf(&ft, "def hsms_countedSendErrExclusions : List String × Nat := ([%s], %d)\n\n", strings.Join(targets, ", "), other)

	// C10: the active Start's dial / seal-guard / publish order (a socket dialed into a sealed transport is closed there)
	stWant := map[string]bool{}
	for _, n := range []string{"cfg.dial", "startGate.RLock", "startGate.RUnlock", "procCancel", "conn.Close", "rt.TCPUp"} {
		stWant[n] = true
	}
	ft.WriteString("/-- (callee) in source order for the dial / seal-guard / close / TCP-up calls of hsmsss `transport.startActive`. -/\n")
	ft.WriteString("def hsmsss_startActiveSites : List String := [\n")
	var sts []string
	for _, cs := range collectCalls(pkgs["hsmsss"], stWant) {
		if cs.Func == "transport.startActive" && !strings.HasPrefix(cs.File, "verif_hooks") {
			sts = append(sts, leanStr(cs.Callee))
		}
	}
	ft.WriteString("  " + strings.Join(sts, ", ") + "\n]\n\n")

	ft.WriteString("/-- package-level variables of package sml and whether any function body assigns to them. -/\n")
	ft.WriteString("def sml_packageVars : List (String × Bool) := [\n")
	names, written := packageVars(pkgs["sml"])
	for i, n := range names {
		sep := ","
		if i == len(names)-1 {
			sep = ""
		}
		fmt.Fprintf(&ft, "  (%s, %v)%s\n", leanStr(n), written[n], sep)
	}
	ft.WriteString("]\n\nend GoSecs.Gen\n")
	must(os.WriteFile(filepath.Join(*out, "Facts.lean"), []byte(ft.String()), 0o644))

	must(emitProvenance(*repo, *out)) // C12 ownership tables (provenance.go) -> Provenance.lean

	js, _ := json.MarshalIndent(status, "", " ")
	must(os.WriteFile(filepath.Join(*out, "status.json"), js, 0o644))
	bad := 0
	var keys []string
	for k := range status {
		keys = append(keys, k)
	}
	sort.Strings(keys)
	ok := 0
	for _, k := range keys {
		switch v := status[k]; {
		case strings.HasPrefix(v, "ok"):
			ok++
		case strings.HasPrefix(v, "untranslatable"):
			fmt.Fprintf(os.Stderr, "go2lean: %s: %s\n", k, v)
			bad++
		}
	}
	fmt.Printf("go2lean: %d functions translated, %d not (%d probes outside the subset)\n", ok, bad, len(status)-ok-bad)
}

func must(err error) {
	if err != nil {
		panic(err)
	}
}
