#!/bin/bash
# usage: tools/seedcheck.sh <out-dir/changeN> <id> <Cxx> [more Cxx...]
# Confirms a seeded change independently in a scratch worktree (applies, builds, full test suite passes, the
# demonstration fails with it and passes without it), then runs the named quick checks against /repo with the
# change applied (undone straight afterwards) and stores everything under /verif/seeded/<id>/.
set -u
SRC="$1"; ID="$2"; shift 2
export GOFLAGS=-mod=mod GOPROXY=off
WT=/tmp/seedcheck_$ID
DEST=/verif/seeded/$ID
rm -rf "$WT"; git -C /repo worktree prune
git -C /repo worktree add -q --detach "$WT" "${SEED_BASE:-HEAD}" || exit 2
cleanup() { git -C /repo worktree remove --force "$WT" 2>/dev/null; }
trap cleanup EXIT
mkdir -p "$DEST"
cp "$SRC/patch.diff" "$DEST/patch.diff"
[ -f "$SRC/README.md" ] && cp "$SRC/README.md" "$DEST/README.md"
DEMO=""; [ -f "$SRC/demo_test.go" ] && DEMO=test; [ -d "$SRC/demo" ] && DEMO=prog
[ "$DEMO" = test ] && cp "$SRC/demo_test.go" "$DEST/"; [ "$DEMO" = prog ] && cp -r "$SRC/demo" "$DEST/"
PKG="${SEED_PKG:-}"
# run only the demonstration's own tests unless told otherwise
if [ -z "${SEED_RUN:-}" ] && [ -f "$SRC/demo_test.go" ]; then SEED_RUN="^($(grep -oE '^func (Test[A-Za-z0-9_]*)' "$SRC/demo_test.go" | awk '{print $2}' | paste -sd'|'))\$"; fi
run_demo() {
  if [ "$DEMO" = test ]; then
    cp "$SRC/demo_test.go" "$WT/$PKG/zz_seed_demo_test.go"
    (cd "$WT/$PKG" && timeout 600 go test -vet=off -count=1 ${SEED_TESTFLAGS:-} -run "${SEED_RUN:-.}" . > /tmp/seed_demo_$ID.log 2>&1); rc=$?
    rm -f "$WT/$PKG/zz_seed_demo_test.go"; return $rc
  else
    mkdir -p "$WT/zz_seed_demo" && cp "$SRC"/demo/*.go "$WT/zz_seed_demo/"
    (cd "$WT" && timeout 600 go run ./zz_seed_demo > /tmp/seed_demo_$ID.log 2>&1); rc=$?
    rm -rf "$WT/zz_seed_demo"; return $rc
  fi
}
R="{\"id\":\"$ID\""
run_demo; base=$?; echo "demo without change: exit $base"
(cd "$WT" && git apply "$DEST/patch.diff") || { echo "PATCH DOES NOT APPLY"; exit 3; }
(cd "$WT" && go build ./... ) || { echo "DOES NOT BUILD"; exit 3; }
run_demo; with=$?; echo "demo with change: exit $with"; tail -5 /tmp/seed_demo_$ID.log
(cd "$WT" && go test -vet=off -count=1 ./... > /tmp/seed_tests_$ID.log 2>&1); tests=$?
if [ "$tests" != 0 ]; then
  # the suite has load-sensitive timing tests: re-run only the failing packages, alone, up to 3 times
  tests=0
  for pkg in $(grep -E "^FAIL\s+github.com" /tmp/seed_tests_$ID.log | awk '{print $2}' | sed 's#github.com/arloliu/go-secs/v2/##'); do
    okp=1
    for try in 1 2 3; do
      (cd "$WT" && go test -vet=off -count=1 ./$pkg/ > /tmp/seed_tests_${ID}_retry.log 2>&1) && { okp=0; break; }
    done
    echo "retry of failing package $pkg alone: $( [ $okp = 0 ] && echo passes || echo STILL FAILS )"
    [ $okp != 0 ] && tests=1
  done
fi
echo "test suite with change: exit $tests"
caught=""
if [ "$base" = 0 ] && [ "$with" != 0 ] && [ "$tests" = 0 ]; then
  # run the checks from a private copy of the framework against the patched scratch worktree, so that
  # /repo and /verif are never touched and several seeded changes can be examined at once
  V=/tmp/seedverif_$ID
  rm -rf "$V"; rsync -a --exclude .git --exclude evidence/replays /verif/ "$V/"
  sed -i "s#=> /repo#=> $WT#" "$V/harness/go.mod"
  for c in "$@"; do
    out=$(cd "$V" && VERIF_REPO="$WT" ./check "$c" quick 2>&1); rc=$?
    echo "$out" | grep -E "VIOLATION|^\[check\]   |\] $c:" | cut -c1-260
    [ $rc != 0 ] && caught="$caught $c"
    echo "$out" > "$DEST/check_$c.log"
  done
  rm -rf "$V"
fi
cleanup; trap - EXIT
echo "SUMMARY id=$ID demo_base=$base demo_with=$with tests=$tests caught_by=[$caught ]"
