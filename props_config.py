"""Per-property configuration for ./check and tools/mkmanifest.py.

Each claimed property has one file props.d/<Cxx>.json with keys:
  technique, level_text, level_note          -> MANIFEST.json
  trusted_base (list), assumptions (list)    -> evidence
  harness (bool, default true), race (bool), extra_targets (list of lake targets),
  timeout_quick / timeout_thorough (seconds), leanchecker (bool, default true)
NOT_APPLICABLE holds the reason for every property that is not claimed.
"""
import glob
import json
import os

_ROOT = os.path.dirname(os.path.abspath(__file__))
PROPS = {}
for _f in sorted(glob.glob(os.path.join(_ROOT, "props.d", "C*.json"))):
    PROPS[os.path.basename(_f)[:-5]] = json.load(open(_f))

NOT_APPLICABLE = {}
_na = os.path.join(_ROOT, "props.d", "not_applicable.json")
if os.path.exists(_na):
    NOT_APPLICABLE = {k: v for k, v in json.load(open(_na)).items() if k not in PROPS}
for _p in ["C%02d" % i for i in range(1, 21)]:
    if _p not in PROPS and _p not in NOT_APPLICABLE:
        NOT_APPLICABLE[_p] = "check not built yet in this round (model and theorems planned in DESIGN.md section 5); nothing is claimed for it"

# commits in /repo that add verif-tagged hooks
HOOK_COMMITS = []
_hc = os.path.join(_ROOT, "props.d", "hook_commits.json")
if os.path.exists(_hc):
    HOOK_COMMITS = json.load(open(_hc))
