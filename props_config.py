"""Per-property configuration for ./check (what to build, what is assumed). Keep in step with MANIFEST.json."""

COMMON_ASSUME = [
    "Go int/int64 arithmetic in translated functions is modelled on unbounded Int (no overflow) unless stated",
    "the Go compiler/toolchain (go1.26.0 from the module cache) and runtime behave as specified",
]

PROPS = {
    "C01": {
        "technique": "Lean 4 theorem (mutual structural induction: decode∘encode round trip, length, minimal header) + go/ast-regenerated headerLen/constants + differential run of the real codec against the compiled model",
        "level_text": "Kernel-checked theorems over every well-formed item tree (no bound on size, count or shape): decode(enc it ++ rest) returns it and consumes exactly |enc it|, |enc it| = EncodedLen, minimal length-byte count, big-endian payload, AppendTo prefix preservation, injectivity. `headerLen` and the format-code constants are regenerated from the Go source each run and proved equal to the E5 reference; the rest of the codec is tied by running the real constructors/ToBytes/Decode/Equal against the model on boundary-directed and random trees.",
        "level_note": "Trusted: Lean kernel; the hand-written E5 reference encoder in Model/Secs2.lean; go2lean; the harness generators (model validated only on what they reach); float32/float64 conversion is exercised, not modelled.",
        "trusted_base": [
            "Model/Secs2.lean `enc` is taken as the SEMI E5 reference encoding (hand-written from the standard)",
            "float payloads are bit patterns; float32<->float64 conversion is exercised by the harness, not modelled (DESIGN 4.3)",
        ],
        "assumptions": COMMON_ASSUME + [
            "signalling F4 NaNs cannot be passed to constructors unchanged (Go conversions quiet them); NaN payload is not part of the logical value",
        ],
    },
}

# Properties not (yet) claimed, with the reason. Kept current as checks are built.
NOT_APPLICABLE = {
}
for _p in ["C%02d" % i for i in range(1, 21)]:
    if _p not in PROPS:
        NOT_APPLICABLE[_p] = "check not built yet in this round (model and theorems planned in DESIGN.md §5); nothing is claimed for it"

# commits in /repo that add verif-tagged hooks
HOOK_COMMITS = []
