package main

// C20 (and the socket machinery of c19_writefail.go), scenario family "a send whose transport WRITE genuinely fails on a
// live, Selected link" — the outcome the conservation clause calls "failed": no refusal (the link is Selected), no T3 (no
// reply wait was ever entered), no teardown in progress (the write failure is what STARTS the teardown).
//
// The histories of router_run.go reach a write error only through a peer that closes the generation (drop modes stall /
// queued): the error is then always "closed pipe", and it races the teardown the peer's close started.  Here the link is
// healthy when the send begins and the failure is the write path's own:
//
//   deadline        the peer stays Selected but stops reading after `At` bytes of the frame (a wedged / zero-window peer);
//                   the core's bounded write (hsms.WithWriteTimeout, 100 ms here) really expires inside net.Pipe: the
//                   error is the net layer's `i/o timeout` (os.ErrDeadlineExceeded, Timeout() == true), after a partial
//                   frame
//   inject-timeout  the harness-owned socket (wfConn, the connection's end of the generation's net.Pipe) fails ONE chosen
//                   Write — the 14-byte prefix or the body after it — with *net.OpError{os.ErrDeadlineExceeded}
//   inject-broken   ... with *net.OpError{EPIPE}, and the socket really is broken afterwards
//   reset           the peer takes `At` bytes of the frame and closes the connection under the write
//   slow            the peer stops reading for a third of the write timeout and resumes: the send must SUCCEED
//
// for every send kind (s: W-bit SendDataMessage, f: W clear, fw: ForwardDataMessage, a: SendDataMessageAsync, fa:
// ForwardDataMessageAsync), optionally with further synchronous senders queued on the write lock behind the failing one.
// After a failure the library drops the generation and reconnects by itself (or, should the link survive, goes on using
// it); more traffic follows on the new generation, then the next failure, ... and finally Close.
//
// Oracles (implementation side, counters read at quiescent points: every call has returned, the link is Selected again,
// a barrier Linktest round trip has flushed both directions):
//   outcome-counter-delta            per step, the counters moved by exactly what is documented for the outcomes of its calls
//                                    (synchronous write failure: DataMsgErr +1 and nothing else; async write failure:
//                                    AsyncSendErr +1 and nothing else, the error handler called once; success: DataMsgSend +1)
//   inflight-not-zero-at-quiescence  the in-flight gauge reads 0 at every such point, also after the reconnect and after Close
//   gauge-negative                   ... and is never negative in between (sampler)
//   sent-counter-differs-from-wire   DataMsgSendCount = complete data frames the peer received over all generations
//   recv-counter-differs-from-wire   DataMsgRecvCount = data frames the peer wrote
//   write-failure-outcome            a failed write is reported to the caller as an error (never nil / a reply), an async one
//                                    to the error handler; a slow but successful write is not an error
//   send-never-returned              a call did not return

import (
	"context"
	"encoding/binary"
	"errors"
	"fmt"
	"net"
	"os"
	"strings"
	"sync"
	"sync/atomic"
	"syscall"
	"time"

	"github.com/arloliu/go-secs/v2/hsms"
	"github.com/arloliu/go-secs/v2/hsmsss"
	"github.com/arloliu/go-secs/v2/secs2"
)

// ---- the harness-owned socket

type wfArm struct {
	gen     int
	mode    string // inject-timeout | inject-broken
	body    bool   // fail the write after the 14-byte prefix went through (the frame is cut in the middle)
	state   atomic.Int32
	inWrite chan struct{} // closed when the chosen write has been reached
	goFail  chan struct{} // the write fails once this is closed
	fired   chan struct{} // closed when the error has been returned
}

type wfNet struct {
	peer  *rPeer
	mu    sync.Mutex
	conns []*wfConn
	arm   atomic.Pointer[wfArm]
}

type wfConn struct {
	net.Conn
	gen int
	net *wfNet
}

func (n *wfNet) dial(ctx context.Context, network, addr string) (net.Conn, error) {
	c, err := n.peer.dial(ctx, network, addr)
	if err != nil {
		return nil, err
	}
	n.mu.Lock()
	w := &wfConn{Conn: c, gen: len(n.conns), net: n}
	n.conns = append(n.conns, w)
	n.mu.Unlock()
	return w, nil
}

func wfInjectedErr(mode string) error {
	if mode == "inject-timeout" {
		return &net.OpError{Op: "write", Net: "pipe", Err: os.ErrDeadlineExceeded}
	}
	return &net.OpError{Op: "write", Net: "pipe", Err: os.NewSyscallError("write", syscall.EPIPE)}
}

func (w *wfConn) fail(a *wfArm) (int, error) {
	close(a.inWrite)
	select {
	case <-a.goFail:
	case <-time.After(10 * time.Second):
	}
	if a.mode == "inject-broken" {
		_ = w.Conn.Close() // a broken socket stays broken
	}
	w.net.arm.Store(nil)
	close(a.fired)
	return 0, wfInjectedErr(a.mode)
}

func (w *wfConn) Write(b []byte) (int, error) {
	if a := w.net.arm.Load(); a != nil && a.gen == w.gen {
		prefix := len(b) == 14 && b[8] == 0 && b[9] == 0 && binary.BigEndian.Uint32(b[:4]) > 10
		switch {
		case prefix && !a.body && a.state.CompareAndSwap(0, 2):
			return w.fail(a)
		case prefix && a.body && a.state.CompareAndSwap(0, 1):
			return w.Conn.Write(b) // the next write of this frame fails
		case !prefix && a.state.CompareAndSwap(1, 2):
			return w.fail(a)
		}
	}
	return w.Conn.Write(b)
}

// ---- the connection under test

type wfConnOpts struct {
	T3, T6, WriteTimeout, Linktest time.Duration
	CloseTimeout                   time.Duration // 0: 3 s
	QueueSize                      int           // 0: 64
	Threshold                      int
	Suppress                       bool
	AsyncErr                       func(hsms.Message, error)
}

func wfNewConn(n *wfNet, o wfConnOpts) (hsmsss.Connection, error) {
	copt := func(op hsms.ConnOption) hsmsss.Option { return hsmsss.WithConnectionOption(op) }
	if o.Threshold < 1 {
		o.Threshold = 1
	}
	if o.CloseTimeout == 0 {
		o.CloseTimeout = 3 * time.Second
	}
	if o.QueueSize == 0 {
		o.QueueSize = 64
	}
	opts := []hsmsss.Option{hsmsss.WithActive(), hsmsss.WithDialer(n.dial),
		copt(hsms.WithT3(o.T3)), copt(hsms.WithT6(o.T6)), copt(hsms.WithT5(50 * time.Millisecond)), copt(hsms.WithT7(10 * time.Second)),
		copt(hsms.WithT8(5 * time.Second)), copt(hsms.WithLinktestInterval(o.Linktest)), copt(hsms.WithCloseTimeout(o.CloseTimeout)),
		copt(hsms.WithWriteTimeout(o.WriteTimeout)), copt(hsms.WithReconnectBackoff(5*time.Millisecond, 1.5)),
		copt(hsms.WithSenderQueueSize(o.QueueSize)), copt(hsms.WithLogger(rNopLogger{})),
		copt(hsms.WithLinktestFailThreshold(o.Threshold)), copt(hsms.WithLinktestSuppression(o.Suppress))}
	if o.AsyncErr != nil {
		opts = append(opts, copt(hsms.WithAsyncSendErrorHandler(o.AsyncErr)))
	}
	cfg, err := hsmsss.NewConfig("127.0.0.1", 5000, opts...)
	if err != nil {
		return nil, err
	}
	return hsmsss.New(cfg)
}

// wfSelectedOn reports whether generation id (or a later one) is up: the peer answered its Select.req, the connection says
// Selected and the reconnect loop has returned.
func wfSelectedOn(p *rPeer, conn hsmsss.Connection, minGen int) bool {
	g := p.last()
	if g == nil || g.id < minGen || g.closed.Load() {
		return false
	}
	select {
	case <-g.selected:
	default:
		return false
	}
	return conn.State() == hsms.SelectedState && conn.Metrics().Reconnecting() == 0
}

// ---- the sequential scenario (C20)

type wfStep struct {
	Kind   string `json:"kind"`             // s f fw a fa
	Fail   string `json:"fail,omitempty"`   // "" | deadline | inject-timeout | inject-broken | reset | slow
	At     int    `json:"at,omitempty"`     // deadline / reset / slow: bytes of the 10+n byte frame the peer takes before it stops; inject: 0 prefix, 1 body
	Queued int    `json:"queued,omitempty"` // synchronous senders started while the failing write is in progress
}

type wfSpec struct {
	Name         string        `json:"name"`
	Steps        []wfStep      `json:"steps"`
	WriteTimeout time.Duration `json:"write_timeout"`
	Linktest     time.Duration `json:"linktest"` // >0: the auto-linktest shares the write path (the peer answers)
	T3           time.Duration `json:"t3"`
}

type wfFail struct{ kind, what, detail string }

type wfCallRec struct {
	Step    int    `json:"step"`
	Role    string `json:"role"`
	Kind    string `json:"kind"`
	Outcome string `json:"outcome"`
	Err     string `json:"err,omitempty"`
	Timeout bool   `json:"err_is_net_timeout,omitempty"`
	TookMs  int64  `json:"took_ms"`
	Tag     uint32 `json:"tag"`
}

type wfSnapRec struct {
	Label string `json:"label"`
	M     string `json:"counters_sent_recv_inflight_err_drop_asyncErr_retry"`
	Gen   int    `json:"generation"`
}

func wfDoCall(conn hsmsss.Connection, kind string, tag uint32, sb uint32) (rc rCallResult, netTimeout bool) {
	item := secs2.NewUintItem(4, tag)
	stream, fn := byte(1+tag%100), byte(1+2*(tag%100))
	var reply *hsms.DataMessage
	var err error
	switch kind {
	case "s", "f":
		reply, err = conn.SendDataMessage(context.Background(), stream, fn, kind == "s", item)
	case "a":
		err = conn.SendDataMessageAsync(context.Background(), stream, fn, false, item)
	case "fw", "fa":
		var sba [4]byte
		binary.BigEndian.PutUint32(sba[:], sb)
		var msg *hsms.DataMessage
		msg, err = hsms.NewDataMessage(stream, fn, false, conn.SessionID(), sba, item)
		if err == nil && kind == "fw" {
			err = conn.ForwardDataMessage(context.Background(), msg)
		} else if err == nil {
			err = conn.ForwardDataMessageAsync(context.Background(), msg)
		}
	}
	rc.Kind = kind
	rClassify(reply, err, &rc)
	if rc.Outcome == "nilnil" {
		rc.Outcome = "sent"
	}
	var te interface{ Timeout() bool }
	netTimeout = err != nil && errors.As(err, &te) && te.Timeout() && !errors.Is(err, hsms.ErrT3Timeout)
	return rc, netTimeout
}

// wfRunOnce runs one scenario with every timer multiplied by scale.  staged != "": it could not be set up (no verdict).
func wfRunOnce(sp wfSpec, scale int) (fails []wfFail, replay map[string]any, staged string) {
	wt := sp.WriteTimeout * time.Duration(scale)
	n := &wfNet{peer: newRPeer()}
	replay = map[string]any{"family": "transport write fails on a live Selected link", "spec": sp, "timer_scale": scale}
	fail := func(what, format string, a ...any) {
		fails = append(fails, wfFail{"property", what, fmt.Sprintf(format, a...)})
	}
	var asyncErrs atomic.Int64
	conn, err := wfNewConn(n, wfConnOpts{T3: sp.T3 * time.Duration(scale), T6: 3 * time.Second, WriteTimeout: wt, Linktest: sp.Linktest * time.Duration(scale),
		Suppress: true, AsyncErr: func(hsms.Message, error) { asyncErrs.Add(1) }})
	if err != nil {
		return nil, replay, "config: " + err.Error()
	}
	var notesMu sync.Mutex
	var notes []string
	conn.AddConnStateChangeHandler(func(prev, next hsms.ConnState) {
		notesMu.Lock()
		notes = append(notes, fmt.Sprintf("%v>%v", prev, next))
		notesMu.Unlock()
	})
	// the peer answers every complete W-bit primary it reads
	var pwg sync.WaitGroup
	n.peer.onFrame = func(g *rGen, f rFrame) {
		if !f.IsData() || !f.W() {
			return
		}
		pwg.Add(1)
		go func() {
			defer pwg.Done()
			n.peer.sendData(g, f.Stream(), f.Fn()+1, false, f.SB, f.Session)
		}()
	}
	// gauge sampler
	stopSampler := make(chan struct{})
	var samplerWG sync.WaitGroup
	var negSeen atomic.Int64
	samplerWG.Add(1)
	go func() {
		defer samplerWG.Done()
		for {
			select {
			case <-stopSampler:
				return
			default:
			}
			if v := conn.Metrics().DataMsgInflightCount(); v < 0 {
				negSeen.Store(v)
			}
			time.Sleep(100 * time.Microsecond)
		}
	}()
	var callWG sync.WaitGroup
	cleanup := func() {
		if a := n.arm.Load(); a != nil {
			select {
			case <-a.goFail:
			default:
				close(a.goFail)
			}
		}
		_ = conn.Close()
		n.peer.closeAll()
		pwg.Wait()
		fin := make(chan struct{})
		go func() { callWG.Wait(); close(fin) }()
		select {
		case <-fin:
		case <-time.After(10 * time.Second):
		}
		select {
		case <-stopSampler:
		default:
			close(stopSampler)
		}
		samplerWG.Wait()
	}
	octx, ocancel := context.WithTimeout(context.Background(), 10*time.Second)
	err = conn.Open(octx, hsms.OpenWaitSelected)
	ocancel()
	if err != nil {
		cleanup()
		return nil, replay, "open: " + err.Error()
	}
	var calls []wfCallRec
	var snaps []wfSnapRec
	var barrierCtr uint32
	// snap: a quiescent point — no call running, link Selected, a barrier round trip done
	snap := func(label string) (rMetrics, bool) {
		g := n.peer.last()
		ok := true
		if label != "closed" {
			barrierCtr++
			ok = n.peer.barrier(g, 0x7e000000+barrierCtr, 5*time.Second)
		}
		m := rReadMetrics(conn)
		snaps = append(snaps, wfSnapRec{label, m.String(), g.id})
		if m.Inflight != 0 {
			fail("inflight-not-zero-at-quiescence", "snapshot %q (generation %d): in-flight gauge = %d with no send call running and no reply outstanding", label, g.id, m.Inflight)
		}
		if m.Retry != 0 {
			fail("retry-gauge-not-zero-at-quiescence", "snapshot %q (quiescent Selected / closed): reconnecting gauge = %d", label, m.Retry)
		}
		return m, ok
	}
	finish := func() {
		replay["calls"] = calls
		replay["snapshots"] = snaps
		notesMu.Lock()
		replay["notifications"] = append([]string(nil), notes...)
		notesMu.Unlock()
		replay["generations"] = n.peer.numGens()
	}
	prev, ok := snap("selected")
	if !ok {
		finish()
		cleanup()
		return nil, replay, "the first barrier was not answered"
	}
	var tag uint32
	for si, st := range sp.Steps {
		g := n.peer.last()
		var arm *wfArm
		switch st.Fail {
		case "deadline", "reset", "slow":
			g.StallT.Store(0)
			g.stallAt.Store(int64(st.At))
		case "inject-timeout", "inject-broken":
			arm = &wfArm{gen: g.id, mode: st.Fail, body: st.At != 0, inWrite: make(chan struct{}), goFail: make(chan struct{}), fired: make(chan struct{})}
			n.arm.Store(arm)
		}
		type one struct {
			rc      rCallResult
			timeout bool
			took    time.Duration
			role    string
			tag     uint32
		}
		nCalls := 1 + st.Queued
		res := make([]one, nCalls)
		done := make(chan int, nCalls)
		start := func(k int, kind, role string) {
			tag++
			tg := tag
			callWG.Add(1)
			go func() {
				defer callWG.Done()
				t0 := time.Now()
				rc, to := wfDoCall(conn, kind, tg, 0x77000000+tg)
				res[k] = one{rc, to, time.Since(t0), role, tg}
				done <- k
			}()
		}
		role := "healthy link"
		if st.Fail != "" {
			role = "its transport write: " + st.Fail
		}
		start(0, st.Kind, role)
		// the failing write is in progress: queue further senders on the write lock, then let it fail
		inProgress := false
		switch st.Fail {
		case "deadline", "reset", "slow":
			inProgress = c09WaitFor(func() bool { return g.StallT.Load() != 0 }, 5*time.Second)
		case "inject-timeout", "inject-broken":
			select {
			case <-arm.inWrite:
				inProgress = true
			case <-time.After(5 * time.Second):
			}
		}
		if st.Fail != "" && !inProgress {
			finish()
			cleanup()
			return nil, replay, fmt.Sprintf("step %d: the %s write never reached the chosen point", si, st.Kind)
		}
		for k := 1; k <= st.Queued; k++ {
			start(k, []string{"s", "f", "fw"}[(k-1)%3], "queued on the write lock behind the failing write")
		}
		if st.Queued > 0 {
			time.Sleep(time.Duration(2*scale) * time.Millisecond)
		}
		switch st.Fail {
		case "reset":
			g.closeGen()
		case "slow":
			time.Sleep(wt / 3)
			g.unstall()
		case "inject-timeout", "inject-broken":
			close(arm.goFail)
		}
		hung := false
		for k := 0; k < nCalls && !hung; k++ {
			select {
			case <-done:
			case <-time.After(wt + sp.T3*time.Duration(scale) + 20*time.Second):
				hung = true
			}
		}
		if hung {
			fail("send-never-returned", "step %d (%s, %s): a call did not return", si, st.Kind, st.Fail)
			finish()
			cleanup()
			return fails, replay, ""
		}
		if arm != nil {
			// an async frame is written by the sender goroutine after the call returned
			select {
			case <-arm.fired:
			case <-time.After(5 * time.Second):
				finish()
				cleanup()
				return nil, replay, fmt.Sprintf("step %d: the armed write was never made", si)
			}
		}
		failing := st.Fail != "" && st.Fail != "slow"
		if failing {
			// the library drops the generation and reconnects by itself; a link that survives the failed write keeps being used
			survived := false
			up := c09WaitFor(func() bool {
				if wfSelectedOn(n.peer, conn, g.id+1) {
					return true
				}
				return false
			}, time.Duration(1500*scale)*time.Millisecond)
			if !up && arm != nil && st.Fail == "inject-timeout" && n.peer.last().id == g.id && conn.State() == hsms.SelectedState && !g.closed.Load() {
				survived = true // (not what this library does; the scenario goes on on the same generation)
			}
			if !up && !survived {
				up = c09WaitFor(func() bool { return wfSelectedOn(n.peer, conn, g.id+1) }, 10*time.Second)
				if !up {
					for k := range res {
						calls = append(calls, wfCallRec{si, res[k].role, res[k].rc.Kind, res[k].rc.Outcome, res[k].rc.Err, res[k].timeout, res[k].took.Milliseconds(), res[k].tag})
					}
					finish()
					cleanup()
					return nil, replay, fmt.Sprintf("step %d: after the failed write no later generation was selected within 11 s (state %v)", si, conn.State())
				}
			}
		}
		cur, ok := snap(fmt.Sprintf("after-step-%d", si))
		// what the calls of this step are documented to have done to the counters
		var wSent, wErr, wDrop, wAsync uint64
		onWire := map[uint32]bool{}
		for gi := 0; gi < n.peer.numGens(); gi++ {
			for _, f := range n.peer.gen(gi).inbound() {
				if f.IsData() && f.Tag >= 0 {
					onWire[uint32(f.Tag)] = true
				}
			}
		}
		for k := range res {
			r := res[k]
			calls = append(calls, wfCallRec{si, r.role, r.rc.Kind, r.rc.Outcome, r.rc.Err, r.timeout, r.took.Milliseconds(), r.tag})
			async := r.rc.Kind == "a" || r.rc.Kind == "fa"
			switch {
			case async && r.rc.Outcome == "sent" && onWire[r.tag]:
				wSent++
			case async && r.rc.Outcome == "sent":
				wAsync++ // accepted, written by the sender goroutine, the write failed
			case r.rc.Outcome == "reply" || r.rc.Outcome == "sent":
				wSent++
			case r.rc.Outcome == "writeerr":
				wErr++
			case r.rc.Outcome == "notselected":
				wDrop++
			}
			if k == 0 {
				switch {
				case failing && !async && r.rc.Outcome != "writeerr":
					if r.rc.Outcome == "reply" || r.rc.Outcome == "sent" {
						fail("write-failure-outcome", "step %d: the %s call whose transport write failed (%s) returned success (%s)", si, st.Kind, st.Fail, r.rc.Outcome)
					} else {
						finish()
						cleanup()
						return nil, replay, fmt.Sprintf("step %d: the call whose write was to fail returned %s (%s)", si, r.rc.Outcome, r.rc.Err)
					}
				case failing && async && r.rc.Outcome != "sent":
					finish()
					cleanup()
					return nil, replay, fmt.Sprintf("step %d: the async call was not accepted: %s (%s)", si, r.rc.Outcome, r.rc.Err)
				case failing && async && onWire[r.tag]:
					fail("write-failure-outcome", "step %d: the %s frame whose transport write failed (%s) was received complete by the peer", si, st.Kind, st.Fail)
				case !failing && st.Kind == "s" && r.rc.Outcome != "reply", !failing && st.Kind != "s" && r.rc.Outcome != "sent":
					if st.Fail == "slow" && r.rc.Outcome == "writeerr" && r.took < wt*9/10 {
						fail("write-failure-outcome", "step %d: a %s write that the peer took after %v (write timeout %v) failed after %v: %s", si, st.Kind, wt/3, wt, r.took, r.rc.Err)
					} else {
						finish()
						cleanup()
						return nil, replay, fmt.Sprintf("step %d: a %s call on the healthy link returned %s (%s) after %v", si, st.Kind, r.rc.Outcome, r.rc.Err, r.took)
					}
				}
			}
		}
		if !ok {
			finish()
			cleanup()
			return nil, replay, fmt.Sprintf("step %d: the barrier after the step was not answered", si)
		}
		dS, dE, dD, dA := cur.Sent-prev.Sent, cur.Err-prev.Err, cur.Drop-prev.Drop, cur.AsyncEr-prev.AsyncEr
		if dS != wSent || dE != wErr || dD != wDrop || dA != wAsync {
			var outs []string
			for k := range res {
				outs = append(outs, res[k].rc.Kind+":"+res[k].rc.Outcome)
			}
			fail("outcome-counter-delta", "step %d (%s, write %s): calls ended %v (%q); counters moved by sent+%d err+%d drop+%d asyncErr+%d, documented sent+%d err+%d drop+%d asyncErr+%d",
				si, st.Kind, map[bool]string{true: st.Fail, false: "ok"}[st.Fail != ""], outs, res[0].rc.Err, dS, dE, dD, dA, wSent, wErr, wDrop, wAsync)
		}
		prev = cur
	}
	q, _ := snap("quiescent")
	dataIn, dataOut := 0, 0
	for gi := 0; gi < n.peer.numGens(); gi++ {
		for _, f := range n.peer.gen(gi).inbound() {
			if f.IsData() {
				dataIn++
			}
		}
		for _, f := range n.peer.gen(gi).outbound() {
			if f.IsData() && f.WriteOK {
				dataOut++
			}
		}
	}
	if int(q.Sent) != dataIn {
		fail("sent-counter-differs-from-wire", "DataMsgSendCount = %d but the peer received %d complete data frames over %d generations", q.Sent, dataIn, n.peer.numGens())
	}
	if int(q.Recv) != dataOut {
		fail("recv-counter-differs-from-wire", "DataMsgRecvCount = %d but the peer wrote %d data frames", q.Recv, dataOut)
	}
	if h := asyncErrs.Load(); uint64(h) != q.AsyncEr {
		fail("async-error-handler-differs-from-counter", "AsyncSendErrCount = %d but the async send error handler was called %d times", q.AsyncEr, h)
	}
	_ = conn.Close()
	close(stopSampler)
	samplerWG.Wait()
	snap("closed")
	if v := negSeen.Load(); v < 0 {
		fail("gauge-negative", "the in-flight gauge was observed at %d", v)
	}
	finish()
	cleanup()
	return fails, replay, ""
}

// wfRetryNote records why an attempt of a wall-clock scenario was not accepted (it is then repeated with scaled timers).
func wfRetryNote(c *Ctx, family, name string, scale int, fails []wfFail, staged string) {
	why := staged
	if why == "" && len(fails) > 0 {
		why = fails[0].what + ": " + fails[0].detail
	}
	c.Note("%s/%s, timers x%d, attempt repeated: %s", family, name, scale, clip(why, 300))
}

// wfScaled runs a scenario; a failing or unstageable run is repeated with every timer x3 (a loaded machine) and reported only
// if it fails again.
func wfScaled(c *Ctx, sp wfSpec) (fails []wfFail, replay map[string]any, staged string, retried bool) {
	for attempt, scale := range []int{1, 3, 6} {
		fails, replay, staged = wfRunOnce(sp, scale)
		if staged == "" && len(fails) == 0 {
			break
		}
		wfRetryNote(c, "writefail", sp.Name, scale, fails, staged)
		if attempt == 0 {
			retried = true
		}
		if staged == "" && attempt >= 1 {
			break // failed twice
		}
	}
	return
}

func c20WriteFailSpecs(c *Ctx) []wfSpec {
	r := c.Rng
	wt := 100 * time.Millisecond
	kinds := []string{"s", "f", "fw", "a", "fa"}
	ok := func(k string) wfStep { return wfStep{Kind: k} }
	each := func(name, fail string, at func(i int) int, lt time.Duration) wfSpec {
		sp := wfSpec{Name: name, WriteTimeout: wt, T3: 5 * time.Second, Linktest: lt}
		ks := append([]string(nil), kinds...)
		r.Shuffle(len(ks), func(a, b int) { ks[a], ks[b] = ks[b], ks[a] })
		sp.Steps = append(sp.Steps, ok("s"))
		for i, k := range ks {
			sp.Steps = append(sp.Steps, wfStep{Kind: k, Fail: fail, At: at(i)}, ok(kinds[r.IntN(len(kinds))]))
		}
		sp.Steps = append(sp.Steps, ok("s"))
		return sp
	}
	specs := []wfSpec{
		// the core's own bounded write expires against a wedged peer, at every depth of the frame (1..9: inside the header,
		// 10: the prefix went through, 11..15: inside the body)
		each("write-deadline-each-kind", "deadline", func(i int) int { return []int{10, 1 + r.IntN(9), 11 + r.IntN(5), 5, 13}[i] }, 0),
		each("injected-timeout-each-kind", "inject-timeout", func(i int) int { return i % 2 }, 0),
		each("broken-socket-each-kind", "inject-broken", func(i int) int { return (i + 1) % 2 }, 0),
		// with the auto-linktest sharing the write path (control frames are never stalled: At >= 10)
		each("write-deadline-with-linktest", "deadline", func(i int) int { return 10 + r.IntN(6) }, 25*time.Millisecond),
		{Name: "peer-reset-under-write-and-queued-senders", WriteTimeout: wt, T3: 5 * time.Second, Steps: []wfStep{ok("s"),
			{Kind: "s", Fail: "reset", At: 7}, ok("s"), {Kind: "s", Fail: "deadline", At: 10, Queued: 3}, ok("a"), ok("s"),
			{Kind: "f", Fail: "inject-broken", At: 1, Queued: 2}, ok("s"), {Kind: "fw", Fail: "reset", At: 12}, ok("f"),
			{Kind: "s", Fail: "slow", At: 10}, {Kind: "f", Fail: "slow", At: 3}, ok("s")}},
	}
	nRand := c.Pick(1, 12)
	for k := 0; k < nRand; k++ {
		sp := wfSpec{Name: fmt.Sprintf("random-%d", k), WriteTimeout: wt, T3: 5 * time.Second}
		if r.IntN(2) == 0 {
			sp.Linktest = 25 * time.Millisecond
		}
		for i := 0; i < 8+r.IntN(6); i++ {
			st := wfStep{Kind: kinds[r.IntN(len(kinds))]}
			switch x := r.IntN(10); {
			case x < 2:
				st.Fail, st.At = "deadline", 10+r.IntN(6)
				if sp.Linktest == 0 && r.IntN(2) == 0 {
					st.At = 1 + r.IntN(9)
				}
			case x == 2:
				st.Fail, st.At = "inject-timeout", r.IntN(2)
			case x == 3:
				st.Fail, st.At = "inject-broken", r.IntN(2)
			case x == 4:
				st.Fail, st.At = "reset", 10+r.IntN(6)
			case x == 5:
				st.Fail, st.At = "slow", 10+r.IntN(6)
			}
			if st.Fail != "" && st.Fail != "slow" && st.Kind != "a" && st.Kind != "fa" && r.IntN(3) == 0 {
				st.Queued = 1 + r.IntN(3)
			}
			sp.Steps = append(sp.Steps, st)
		}
		sp.Steps = append(sp.Steps, ok("s"))
		specs = append(specs, sp)
	}
	return specs
}

// c20WriteFail runs the family for C20.
func c20WriteFail(c *Ctx) {
	specs := c20WriteFailSpecs(c)
	type result struct {
		fails   []wfFail
		replay  map[string]any
		staged  string
		retried bool
	}
	out := make([]result, len(specs))
	var wg sync.WaitGroup
	sem := make(chan struct{}, 3)
	t0 := time.Now()
	for i := range specs {
		i := i
		wg.Add(1)
		sem <- struct{}{}
		go func() {
			defer wg.Done()
			defer func() { <-sem }()
			var o result
			o.fails, o.replay, o.staged, o.retried = wfScaled(c, specs[i])
			out[i] = o
		}()
	}
	wg.Wait()
	c.StatN("writefail-wall-ms", int(time.Since(t0).Milliseconds()))
	for i, sp := range specs {
		o := out[i]
		if o.retried {
			c.Stat("writefail-retried-with-scaled-timers")
		}
		if o.staged != "" {
			c.Violate("correspondence", "scenario-did-not-start", "writefail/"+sp.Name+": "+o.staged, o.replay)
			continue
		}
		for _, f := range o.fails {
			c.Violate(f.kind, f.what, "writefail/"+sp.Name+": "+f.detail, o.replay)
		}
		var sig []string
		for _, st := range sp.Steps {
			sig = append(sig, fmt.Sprintf("%s/%s@%d+%d", st.Kind, st.Fail, st.At, st.Queued))
		}
		c.Count("writefail|"+strings.Join(sig, ","), true)
		c.Stat("scenario:writefail")
		if cl, ok := o.replay["calls"].([]wfCallRec); ok {
			for _, x := range cl {
				what := "ok"
				if strings.HasPrefix(x.Role, "its transport write") {
					what = strings.TrimPrefix(x.Role, "its transport write: ")
				} else if strings.HasPrefix(x.Role, "queued") {
					what = "queued"
				}
				c.Stat("writefail-outcome:" + x.Kind + ":" + what + ":" + x.Outcome)
			}
		}
		if i == 0 {
			c.Sample(map[string]any{"scenario": "writefail/" + sp.Name, "calls": o.replay["calls"], "snapshots": o.replay["snapshots"]})
		}
	}
}
