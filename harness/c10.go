package main

// C10 — Open/Close safe from any state: bounded, idempotent, leak-free, reopenable.
//
// History mode.  Each history is a random program: up to 8 goroutines issue overlapping
// Open(wait|background) / Close / SendDataMessage / SendDataMessageAsync / UpdateConfigOptions /
// State / Metrics calls against ONE real hsmsss connection whose every net.Conn / net.Listener is
// harness-owned, while the scripted peer connects, drops, stalls, refuses or BLACKHOLES (neither accepts
// nor refuses: the harness dialer blocks until the dial context is done, as net.Dialer does to a filtered
// address) per dial attempt; blackholed histories run with no connect timeout, one below and one above
// the (short) close timeout, on HSMS-SS and SECS-I, with Close / Close racing Close / Close racing Open
// issued while the first dial, a cold background retry or a re-dial after a drop is in flight.
//
// Run-time oracles (OBSERVED per history — leak freedom, wall-clock bounds and absence of panics are
// not theorems): no API call panics; every call returns within its bound (Close: close-timeout + slack
// + the ctx budgets of Open(wait) calls it had to queue behind on lifeMu); Close on a closed connection
// returns the same result again; after the final Close no dial/listen happens, every generation ctx is
// cancelled, every harness-owned conn/listener is closed, no reconnect loop is pending, no library
// goroutine is left (global dump after each batch, polled with a deadline); the closed connection can
// be opened again and carries a round trip; a reconnect dial in flight when a Close is called is aborted by
// that Close's teardown within the lifeMu queueing budget (never after riding out its connect timeout) and
// no dial is pending once the final Close has returned.
// Correspondence: the observed history (API calls/returns by goroutine, dial outcomes, in one total
// order) must be a trace of the Lean lifecycle model (`life.hist +freefail`).
//
// A separate stress loop races Close against a reconnect's Start and records State() after Close
// (DESIGN §7 F4): State() must read NotConnected once Close has returned.

import (
	"bytes"
	"context"
	"encoding/json"
	"errors"
	"fmt"
	"io"
	"net"
	"os"
	"strings"
	"sync"
	"sync/atomic"
	"time"

	"github.com/arloliu/go-secs/v2/hsms"
	"github.com/arloliu/go-secs/v2/hsmsss"
	"github.com/arloliu/go-secs/v2/secs1"
	"github.com/arloliu/go-secs/v2/secs2"
)

func init() {
	register("C10", "histories: role x per-attempt peer behaviour (connect/drop/stall/refuse/blackhole) x connect timeout (none/below/above the close timeout) x 2..8 goroutines x random overlapping "+
		"Open(wait|bg)/Close/send/sendAsync/UpdateConfigOptions/State programs, plus directed histories (double open, close never-opened, "+
		"close during backoff / dial / in-flight blackholed (re)dial / select, reopen cycles); distinct = distinct (role, behaviours, program) text; non-trivial = the history "+
		"contains at least one Open and one Close issued by different goroutines or a peer fault", runC10)
}

const (
	c10S1Dev        = 0x0042
	c10CloseTimeout = 2 * time.Second
	c10T6           = 800 * time.Millisecond
	c10T7           = 800 * time.Millisecond
)

type c10Op struct {
	Kind    string `json:"kind"` // openWait openBg close send sendAsync config state sleep
	Arg     int    `json:"arg"`  // ms (openWait ctx budget, sleep) / selector (config)
	started time.Time
	dur     time.Duration
	res     string
	panicV  any
}

type c10History struct {
	ID    int       `json:"id"`
	Role  string    `json:"role"`
	Behs  []string  `json:"peer_behaviours"` // per dial/listen attempt: connect | drop | dropLate | stall | refuse
	Progs [][]c10Op `json:"programs"`
	Tag   string    `json:"tag"`
	// LongBackoff configures initial backoff 5 s / T5 10 s (Close must interrupt the sleep).
	LongBackoff bool `json:"long_backoff,omitempty"`
	// Transport "" = HSMS-SS, "secs1" = SECS-I (raw E4 peer of peer_life_s1.go; S1Equip = library is equipment).
	Transport string `json:"transport,omitempty"`
	S1Equip   bool   `json:"s1_equipment,omitempty"`
	// ConnectTimeoutMs > 0 configures WithConnectTimeout (the per-attempt dial deadline); CloseTimeoutMs > 0
	// overrides the close timeout (default c10CloseTimeout). Used with the "blackhole" peer behaviour: a dial
	// that neither connects nor is refused, so the dialer blocks until its ctx is done.
	ConnectTimeoutMs int `json:"connect_timeout_ms,omitempty"`
	CloseTimeoutMs   int `json:"close_timeout_ms,omitempty"`
	// NoWriteTimeout configures hsms.WithWriteTimeout(0) ("no write deadline", a documented setting): whatever the
	// library writes on its own behalf during a teardown (the farewell Separate) must still be bounded.
	NoWriteTimeout bool `json:"no_write_timeout,omitempty"`
	// LongWriteTimeout configures a write timeout (5 s) far above the close timeout: the farewell Separate has its own
	// short bound and must not inherit the data path's (after seeded change C09f-2).
	LongWriteTimeout bool `json:"long_write_timeout,omitempty"`
}

func (h c10History) closeTimeout() time.Duration {
	if h.CloseTimeoutMs > 0 {
		return time.Duration(h.CloseTimeoutMs) * time.Millisecond
	}
	return c10CloseTimeout
}

func (h c10History) connectTimeout() time.Duration {
	return time.Duration(h.ConnectTimeoutMs) * time.Millisecond
}

func (h c10History) text() string {
	var sb strings.Builder
	sb.WriteString(h.Transport + fmt.Sprint(h.S1Equip) + "|" + h.Role + "|" + strings.Join(h.Behs, ",") + "|")
	if h.ConnectTimeoutMs != 0 || h.CloseTimeoutMs != 0 {
		fmt.Fprintf(&sb, "ct=%d,cl=%d|", h.ConnectTimeoutMs, h.CloseTimeoutMs)
	}
	for _, p := range h.Progs {
		for _, o := range p {
			fmt.Fprintf(&sb, "%s:%d ", o.Kind, o.Arg)
		}
		sb.WriteString("/")
	}
	return sb.String()
}

func c10GenHistory(c *Ctx, id int) c10History {
	r := c.Rng
	h := c10History{ID: id, Tag: "random"}
	if r.IntN(2) == 0 {
		h.Role = "active"
	} else {
		h.Role = "passive"
	}
	// a third of the active histories meet blackholed dials, with a connect timeout absent / below / above
	// a short close timeout
	holey := h.Role == "active" && r.IntN(3) == 0
	if holey {
		h.CloseTimeoutMs = 400
		switch x := r.IntN(10); {
		case x < 4:
		case x < 9:
			h.ConnectTimeoutMs = 60 + r.IntN(200)
		default:
			slack := 2 * time.Second
			if c.Thorough() {
				slack = 4 * time.Second
			}
			h.ConnectTimeoutMs = c10AboveMs(h.CloseTimeoutMs, slack)
		}
	}
	nb := 3 + r.IntN(8)
	for i := 0; i < nb; i++ {
		if holey && r.IntN(3) == 0 {
			h.Behs = append(h.Behs, "blackhole")
			continue
		}
		switch x := r.IntN(10); {
		case x < 4:
			h.Behs = append(h.Behs, "connect")
		case x < 6:
			h.Behs = append(h.Behs, "drop")
		case x < 7:
			h.Behs = append(h.Behs, "dropLate")
		case x < 8:
			h.Behs = append(h.Behs, "stall")
		default:
			h.Behs = append(h.Behs, "refuse")
		}
	}
	ng := 2 + r.IntN(7)
	for g := 0; g < ng; g++ {
		var prog []c10Op
		n := 1 + r.IntN(5)
		for i := 0; i < n; i++ {
			switch x := r.IntN(20); {
			case x < 3:
				prog = append(prog, c10Op{Kind: "openWait", Arg: 20 + r.IntN(150)})
			case x < 6:
				prog = append(prog, c10Op{Kind: "openBg"})
			case x < 10:
				prog = append(prog, c10Op{Kind: "close"})
			case x < 12:
				prog = append(prog, c10Op{Kind: "send", Arg: 10 + r.IntN(60)})
			case x < 13:
				prog = append(prog, c10Op{Kind: "sendAsync"})
			case x < 15:
				prog = append(prog, c10Op{Kind: "config", Arg: r.IntN(5)})
			case x < 16:
				prog = append(prog, c10Op{Kind: "state"})
			default:
				prog = append(prog, c10Op{Kind: "sleep", Arg: r.IntN(40)})
			}
		}
		h.Progs = append(h.Progs, prog)
	}
	return h
}

func c10Directed() []c10History {
	op := func(k string, a int) c10Op { return c10Op{Kind: k, Arg: a} }
	var out []c10History
	for _, role := range []string{"active", "passive"} {
		out = append(out,
			c10History{Role: role, Tag: "close-never-opened", Behs: []string{"connect"}, Progs: [][]c10Op{{op("close", 0), op("close", 0)}}},
			c10History{Role: role, Tag: "double-open", Behs: []string{"connect", "connect"}, Progs: [][]c10Op{{op("openBg", 0), op("openBg", 0), op("openWait", 100), op("close", 0)}}},
			c10History{Role: role, Tag: "double-open-concurrent", Behs: []string{"connect", "connect"}, Progs: [][]c10Op{{op("openBg", 0)}, {op("openBg", 0)}, {op("openWait", 80)}, {op("sleep", 30), op("close", 0)}}},
			c10History{Role: role, Tag: "close-during-backoff", Behs: []string{"drop", "refuse", "refuse", "refuse", "refuse", "refuse"}, Progs: [][]c10Op{{op("openBg", 0), op("sleep", 60), op("close", 0)}}},
			c10History{Role: role, Tag: "close-during-long-backoff", LongBackoff: true, Behs: []string{"drop", "refuse", "refuse"}, Progs: [][]c10Op{{op("openBg", 0), op("sleep", 80), op("close", 0)}}},
			c10History{Role: role, Tag: "close-during-select-stall", Behs: []string{"stall", "stall", "stall"}, Progs: [][]c10Op{{op("openBg", 0), op("sleep", 20), op("close", 0)}}},
			c10History{Role: role, Tag: "openwait-timeout-then-close", Behs: []string{"stall", "stall"}, Progs: [][]c10Op{{op("openWait", 40), op("close", 0), op("close", 0)}}},
			c10History{Role: role, Tag: "reopen-cycles", Behs: []string{"connect", "connect", "connect", "connect"}, Progs: [][]c10Op{{op("openWait", 300), op("close", 0), op("openWait", 300), op("close", 0), op("openBg", 0), op("close", 0)}}},
			c10History{Role: role, Tag: "close-storm", Behs: []string{"connect", "drop", "connect"}, Progs: [][]c10Op{{op("openBg", 0)}, {op("close", 0)}, {op("close", 0)}, {op("close", 0)}, {op("sleep", 5), op("close", 0)}, {op("openBg", 0)}}},
			c10History{Role: role, Tag: "first-dial-refused-wait", Behs: []string{"refuse", "connect"}, Progs: [][]c10Op{{op("openWait", 100), op("openWait", 200), op("close", 0)}}},
			c10History{Role: role, Tag: "first-dial-refused-bg", Behs: []string{"refuse", "refuse", "connect"}, Progs: [][]c10Op{{op("openBg", 0), op("sleep", 120), op("close", 0)}}},
			c10History{Role: role, Tag: "send-during-close", Behs: []string{"connect"}, Progs: [][]c10Op{{op("openWait", 300), op("sleep", 10), op("close", 0)}, {op("sleep", 8), op("send", 50), op("send", 50)}, {op("sleep", 9), op("sendAsync", 0), op("config", 1)}}},
		)
	}
	return out
}

// c10AboveMs is a connect timeout safely ABOVE the close timeout: if a teardown failed to abort a dial in
// flight, the call waiting for it would overshoot its bound (close timeout + slack) by about 3 s.
func c10AboveMs(closeMs int, slack time.Duration) int {
	return closeMs + int(slack/time.Millisecond) + 3000
}

// c10BlackholeDirected: Close (alone, racing another Close, racing an Open) issued while a dial is in
// flight to a peer that neither accepts nor refuses — the first dial of an Open, a cold background
// retry, a re-dial after a drop before and after Selected — with no connect timeout, one below and one
// above the close timeout. Active role, every transport.
func c10BlackholeDirected(slack time.Duration) []c10History {
	op := func(k string, a int) c10Op { return c10Op{Kind: k, Arg: a} }
	const closeMs = 400
	holes := func(pre ...string) []string {
		out := append([]string(nil), pre...)
		for i := 0; i < 14; i++ {
			out = append(out, "blackhole")
		}
		return out
	}
	var out []c10History
	type tr struct {
		name  string
		equip bool
	}
	for _, t := range []tr{{"", false}, {"secs1", false}, {"secs1", true}} {
		for _, ct := range []int{0, 150, c10AboveMs(closeMs, slack)} {
			mkh := func(tag string, behs []string, progs [][]c10Op) c10History {
				return c10History{Role: "active", Transport: t.name, S1Equip: t.equip, Tag: tag, Behs: behs, Progs: progs,
					ConnectTimeoutMs: ct, CloseTimeoutMs: closeMs}
			}
			out = append(out,
				mkh("blackhole-redial-close", holes("drop"), [][]c10Op{{op("openBg", 0), op("sleep", 80), op("close", 0)}}),
				mkh("blackhole-cold-bg-close", holes("refuse"), [][]c10Op{{op("openBg", 0), op("sleep", 60), op("close", 0)}}),
				mkh("blackhole-redial-close-storm", holes("drop"), [][]c10Op{{op("openBg", 0), op("sleep", 70), op("close", 0)},
					{op("sleep", 72), op("close", 0)}, {op("sleep", 71), op("openBg", 0)}, {op("sleep", 74), op("close", 0), op("openBg", 0), op("sleep", 40), op("close", 0)}}),
				mkh("blackhole-after-selected-close", holes("dropLate"), [][]c10Op{{op("openWait", 400), op("sleep", 150), op("close", 0)}, {op("sleep", 200), op("state", 0)}}),
			)
			if ct != 0 {
				out = append(out, mkh("blackhole-first-dial", holes(), [][]c10Op{{op("openBg", 0)}, {op("sleep", 20), op("close", 0)},
					{op("sleep", 25), op("openWait", 50), op("sleep", 30), op("close", 0)}}))
			}
		}
	}
	return out
}

// c10LateAcceptDirected: a passive endpoint still waiting for its peer is closed, and at that very instant the
// listener's Accept yields an established connection (every transport; after a drop as well as on the first
// listen). Close must still return within its bound and leave neither the adopted socket nor its receive loop behind.
func c10LateAcceptDirected() []c10History {
	op := func(k string, a int) c10Op { return c10Op{Kind: k, Arg: a} }
	var out []c10History
	for _, t := range []struct {
		name  string
		equip bool
	}{{"", false}, {"secs1", false}, {"secs1", true}} {
		lates := func(pre ...string) []string {
			o := append([]string(nil), pre...)
			for i := 0; i < 6; i++ {
				o = append(o, "lateAccept")
			}
			return o
		}
		mkh := func(tag string, behs []string, progs [][]c10Op) c10History {
			return c10History{Role: "passive", Transport: t.name, S1Equip: t.equip, Tag: tag, Behs: behs, Progs: progs}
		}
		out = append(out,
			mkh("late-accept-first-listen", lates(), [][]c10Op{{op("openBg", 0), op("sleep", 40), op("close", 0)}, {op("sleep", 120), op("state", 0)}}),
			mkh("late-accept-after-drop", lates("drop"), [][]c10Op{{op("openBg", 0), op("sleep", 90), op("close", 0)}}),
			mkh("late-accept-close-reopen", lates(), [][]c10Op{{op("openBg", 0), op("sleep", 40), op("close", 0), op("openBg", 0), op("sleep", 40), op("close", 0)}}),
			mkh("late-accept-close-storm", lates(), [][]c10Op{{op("openBg", 0), op("sleep", 40), op("close", 0)}, {op("sleep", 41), op("close", 0)}, {op("sleep", 39), op("openBg", 0)}}),
		)
	}
	return out
}

// c10WedgedPeerDirected: Close (graceful, from Selected) against a peer that stopped reading, with the write timeout
// at its default and switched off (WithWriteTimeout(0)); both roles, HSMS-SS (the farewell Separate is an HSMS frame).
// Close must return within the close timeout plus slack and leave nothing behind (after seeded change C10d-2).
func c10WedgedPeerDirected() []c10History {
	op := func(k string, a int) c10Op { return c10Op{Kind: k, Arg: a} }
	var out []c10History
	for _, role := range []string{"active", "passive"} {
		out = append(out, c10History{Role: role, Tag: "wedged-peer-close-long-write-timeout", Behs: []string{"stallRead", "stallRead"}, LongWriteTimeout: true,
			Progs: [][]c10Op{{op("openWait", 600), op("sleep", 60), op("close", 0)}, {op("sleep", 900), op("state", 0)}}})
		for _, nowt := range []bool{false, true} {
			behs := []string{"stallRead", "stallRead", "stallRead", "stallRead"}
			out = append(out,
				c10History{Role: role, Tag: "wedged-peer-close", Behs: behs, NoWriteTimeout: nowt,
					Progs: [][]c10Op{{op("openWait", 600), op("sleep", 60), op("close", 0)}, {op("sleep", 900), op("state", 0)}}},
				c10History{Role: role, Tag: "wedged-peer-close-reopen", Behs: behs, NoWriteTimeout: nowt,
					Progs: [][]c10Op{{op("openWait", 600), op("sleep", 60), op("close", 0), op("openBg", 0), op("sleep", 150), op("close", 0)}}},
			)
		}
	}
	return out
}

type c10Result struct {
	h          c10History
	obs        []string
	calls      []c10Op // flattened, with results
	finalErr1  error
	finalErr2  error
	finalDur   time.Duration
	afterDial  int
	openRes    []string
	liveCtx    int
	stateEnd   hsms.ConnState
	snapEnd    hsms.VerifLifeSnapshot
	reopenErr  string
	reopenRT   string
	closeAfter string
	setup      string
	attempts   int
	hung       bool
	dials      []lifeAttempt // every dial / listen attempt (blackholed ones carry how and when they ended)
	finalRet   time.Time     // when the final Close returned
}

func c10ClassOpen(err error) string {
	switch {
	case err == nil:
		return "ok"
	case errors.Is(err, hsms.ErrAlreadyOpen):
		return "already"
	case strings.Contains(err.Error(), ": dial "):
		// tr.Start's dial error (Open rolled back). It can WRAP context.DeadlineExceeded — a dial that ran
		// into WithConnectTimeout — which must not be mistaken for the caller's ctx expiring in waitSelected.
		return "err"
	case errors.Is(err, context.DeadlineExceeded), errors.Is(err, context.Canceled), errors.Is(err, hsms.ErrConnClosed):
		return "waiterr"
	default:
		return "err"
	}
}

func c10ClassClose(err error) string {
	switch {
	case err == nil:
		return "ok"
	case errors.Is(err, hsms.ErrNotOpen):
		return "notopen"
	case errors.Is(err, hsms.ErrCloseTimeout):
		return "timeout"
	default:
		return "other:" + err.Error()
	}
}

func c10RunHistory(h c10History) (res c10Result) {
	res.h = h
	ln := &lifeNet{}
	libActive := h.Role == "active"
	var pmu sync.Mutex
	var peers []*lifePeer
	var phase atomic.Int32 // 0 = scripted behaviours, 1 = reopen phase (always cooperate)
	mk := func(conn net.Conn, beh lifeBehaviour) *lifePeer {
		p := newLifePeer(conn, libActive, beh)
		pmu.Lock()
		id := len(peers)
		peers = append(peers, p)
		pmu.Unlock()
		ln.debugf("peer#%d start kind=%s", id, beh.Kind)
		p.onExit = func(why string) { ln.debugf("peer#%d exit: %s", id, why) }
		return p
	}
	isS1 := h.Transport == "secs1"
	var s1peers []*lifeS1Peer
	mkS1 := func(conn net.Conn, kind string) *lifeS1Peer {
		p := newLifeS1Peer(conn, h.S1Equip, lifeS1Beh{Kind: kind})
		pmu.Lock()
		s1peers = append(s1peers, p)
		pmu.Unlock()
		return p
	}
	defer func() {
		pmu.Lock()
		for _, p := range peers {
			p.stop()
			_ = p.conn.Close()
		}
		for _, p := range s1peers {
			p.stop()
			_ = p.conn.Close()
		}
		pmu.Unlock()
		ln.waitPeers()
	}()
	behOf := func(n int) string {
		if phase.Load() == 1 {
			return "connect"
		}
		if n < len(h.Behs) {
			return h.Behs[n]
		}
		return "refuse"
	}
	servePeer := func(conn net.Conn, b string) {
		if isS1 {
			switch b {
			case "connect":
				mkS1(conn, "serve").run(c10S1Dev)
			case "drop":
				_ = conn.Close()
			case "dropLate":
				p := mkS1(conn, "serve")
				go func() { time.Sleep(20 * time.Millisecond); _ = conn.Close() }()
				p.run(c10S1Dev)
			case "stall": // a peer that never answers ENQ: sends exhaust their retries, the core drops the line
				mkS1(conn, "silent").run(c10S1Dev)
			}
			return
		}
		switch b {
		case "connect":
			mk(conn, lifeBehaviour{Kind: "serve"}).run()
		case "drop":
			_ = conn.Close()
		case "dropLate":
			p := mk(conn, lifeBehaviour{Kind: "serve"})
			go func() {
				select {
				case <-p.selected:
					time.Sleep(5 * time.Millisecond)
				case <-time.After(300 * time.Millisecond):
				}
				_ = conn.Close()
			}()
			p.run()
		case "stallRead": // completes the select, then stops reading for good (a wedged peer): every later write of the library blocks
			mk(conn, lifeBehaviour{Kind: "stallRead"}).run()
		case "stall":
			if libActive {
				mk(conn, lifeBehaviour{Kind: "stallSelect"}).run()
			} else {
				mk(conn, lifeBehaviour{Kind: "noSelect"}).run()
			}
		}
	}
	ln.plan = func(n int) (bool, func(net.Conn)) {
		b := behOf(n)
		if b == "refuse" || b == "blackhole" { // (blackhole reaches here only where it cannot apply)
			return false, nil
		}
		return true, func(conn net.Conn) { servePeer(conn, b) }
	}
	if libActive {
		ln.hole = func(n int) bool { return behOf(n) == "blackhole" }
	}
	ln.onListen = func(n int, l *lifeListener) {
		b := behOf(n)
		if b == "blackhole" { // a listener that nobody ever connects to
			return
		}
		if b == "lateAccept" { // nobody connects until the library closes the listener: then Accept yields a peer
			l.late = func(conn net.Conn) { _, _ = io.Copy(io.Discard, conn); _ = conn.Close() }
			return
		}
		ln.debugf("listen#%d up, behaviour %s", n, b)
		if conn := l.deliver(); conn != nil {
			ln.debugf("listen#%d delivered", n)
			servePeer(conn, b)
		} else {
			ln.debugf("listen#%d closed before delivery", n)
		}
	}
	co := []hsms.ConnOption{
		hsms.WithT3(300 * time.Millisecond), hsms.WithT5(40 * time.Millisecond), hsms.WithT6(c10T6), hsms.WithT7(c10T7), hsms.WithT8(300 * time.Millisecond),
		hsms.WithReconnectBackoff(5*time.Millisecond, 2), hsms.WithCloseTimeout(h.closeTimeout()), hsms.WithLogger(lifeNullLogger{}),
		hsms.WithWriteTimeout(300 * time.Millisecond),
	}
	if h.NoWriteTimeout {
		co = append(co, hsms.WithWriteTimeout(0))
	}
	if h.LongWriteTimeout {
		co = append(co, hsms.WithWriteTimeout(5*time.Second))
	}
	if h.LongBackoff {
		co = append(co, hsms.WithT5(10*time.Second), hsms.WithReconnectBackoff(5*time.Second, 2))
	}
	var conn hsms.Connection
	if isS1 {
		so := []secs1.Option{secs1.WithDeviceID(c10S1Dev), secs1.WithT1(300 * time.Millisecond), secs1.WithT2(400 * time.Millisecond),
			secs1.WithT4(2 * time.Second), secs1.WithRetryLimit(2)}
		for _, o := range co {
			so = append(so, secs1.WithConnectionOption(o))
		}
		if h.S1Equip {
			so = append(so, secs1.WithEquipment())
		} else {
			so = append(so, secs1.WithHost())
		}
		if h.ConnectTimeoutMs > 0 {
			so = append(so, secs1.WithConnectTimeout(h.connectTimeout()))
		}
		if libActive {
			so = append(so, secs1.WithActive(), secs1.WithDialer(ln.dial))
		} else {
			so = append(so, secs1.WithPassive(), secs1.WithListener(ln.listen))
		}
		cfg, err := secs1.NewConfig("lifepipe", 1, so...)
		if err != nil {
			res.setup = err.Error()
			return
		}
		c1, err := secs1.New(cfg)
		if err != nil {
			res.setup = err.Error()
			return
		}
		conn = c1
	} else {
		var opts []hsmsss.Option
		for _, o := range co {
			opts = append(opts, hsmsss.WithConnectionOption(o))
		}
		if h.ConnectTimeoutMs > 0 {
			opts = append(opts, hsmsss.WithConnectTimeout(h.connectTimeout()))
		}
		if libActive {
			opts = append(opts, hsmsss.WithActive(), hsmsss.WithDialer(ln.dial))
		} else {
			opts = append(opts, hsmsss.WithPassive(), hsmsss.WithListener(ln.listen))
		}
		cfg, err := hsmsss.NewConfig("lifepipe", 1, opts...)
		if err != nil {
			res.setup = err.Error()
			return
		}
		c2, err := hsmsss.New(cfg)
		if err != nil {
			res.setup = err.Error()
			return
		}
		conn = c2
	}
	var hung atomic.Bool
	// guarded runs one blocking API call under a watchdog: a call that does not return within
	// `limit` is reported as hung and abandoned (its goroutine leaks; the history stops).
	guarded := func(limit time.Duration, f func()) bool {
		done := make(chan struct{})
		go func() { defer close(done); f() }()
		select {
		case <-done:
			return true
		case <-time.After(limit):
			hung.Store(true)
			return false
		}
	}
	// An Open whose own synchronous dial is blackholed legitimately holds lifeMu for the whole connect timeout, and
	// every other Open/Close of the history queues behind it: the watchdog allows for all of them in a row. (A
	// thorough sweep reported `api-call-hung` on a random history with a 7.4 s connect timeout and four OpenWait
	// calls behind blackholed dials — 4 x 7.4 s of legitimate waiting against the fixed 20 s: false alarm, corrected.)
	hangLimit := 20 * time.Second
	if h.ConnectTimeoutMs > 0 {
		nOpen := 0
		for _, pr := range h.Progs {
			for _, o := range pr {
				if o.Kind == "openWait" || o.Kind == "openBg" {
					nOpen++
				}
			}
		}
		hangLimit += time.Duration(nOpen+1) * h.connectTimeout()
	}
	var cmu sync.Mutex
	record := func(o c10Op) {
		cmu.Lock()
		res.calls = append(res.calls, o)
		cmu.Unlock()
	}
	doOp := func(tid int, o c10Op) {
		o.started = time.Now()
		defer func() {
			o.dur = time.Since(o.started)
			if p := recover(); p != nil {
				o.panicV = p
				o.res = fmt.Sprint("panic: ", p)
			}
			record(o)
		}()
		switch o.Kind {
		case "openWait":
			ctx, cancel := context.WithTimeout(context.Background(), time.Duration(o.Arg)*time.Millisecond)
			defer cancel()
			ln.log(fmt.Sprintf("call.open.wait:%d", tid))
			var e error
			if !guarded(hangLimit, func() { e = conn.Open(ctx, hsms.OpenWaitSelected) }) {
				o.res = "hung"
				return
			}
			o.res = c10ClassOpen(e)
			ln.log(fmt.Sprintf("ret.open.%s:%d", o.res, tid))
		case "openBg":
			ln.log(fmt.Sprintf("call.open.bg:%d", tid))
			var e error
			if !guarded(hangLimit, func() { e = conn.Open(context.Background(), hsms.OpenBackground) }) {
				o.res = "hung"
				return
			}
			o.res = c10ClassOpen(e)
			ln.log(fmt.Sprintf("ret.open.%s:%d", o.res, tid))
		case "close":
			ln.log(fmt.Sprintf("call.close:%d", tid))
			var e error
			if !guarded(hangLimit, func() { e = conn.Close() }) {
				o.res = "hung"
				return
			}
			o.res = c10ClassClose(e)
			cls := o.res
			if cls != "notopen" {
				cls = "ok"
			}
			ln.log(fmt.Sprintf("ret.close.%s:%d", cls, tid))
		case "send":
			ctx, cancel := context.WithTimeout(context.Background(), time.Duration(o.Arg)*time.Millisecond)
			defer cancel()
			_, e := conn.SendDataMessage(ctx, 1, 1, true, secs2.A("X"))
			o.res = fmt.Sprint(e == nil)
		case "sendBig": // a multi-block message on SECS-I (about nine blocks), a large frame on HSMS-SS
			ctx, cancel := context.WithTimeout(context.Background(), time.Duration(o.Arg)*time.Millisecond)
			defer cancel()
			_, e := conn.SendDataMessage(ctx, 6, 11, false, secs2.B(bytes.Repeat([]byte{0x5a}, 2000)))
			o.res = fmt.Sprint(e == nil)
		case "sendAsync":
			e := conn.SendDataMessageAsync(context.Background(), 1, 3, false, secs2.A("Y"))
			o.res = fmt.Sprint(e == nil)
		case "config":
			var opt hsms.ConnOption
			switch o.Arg {
			case 0:
				opt = hsms.WithT5(25 * time.Millisecond)
			case 1:
				opt = hsms.WithCloseTimeout(h.closeTimeout())
			case 2:
				opt = hsms.WithReconnectBackoff(3*time.Millisecond, 1.5)
			case 3:
				opt = hsms.WithT6(c10T6)
			default:
				opt = hsms.WithT5(-1) // invalid: must be rejected without effect
			}
			e := conn.UpdateConfigOptions(opt)
			o.res = fmt.Sprint(e == nil)
			if o.Arg >= 4 && e == nil {
				o.res = "invalid-accepted"
			}
		case "state":
			_ = conn.State()
			_ = conn.Metrics().Reconnects()
			_ = conn.Metrics().Reconnecting()
		case "sleep":
			time.Sleep(time.Duration(o.Arg) * time.Millisecond)
		}
	}
	var wg sync.WaitGroup
	for g, prog := range h.Progs {
		wg.Add(1)
		go func(tid int, prog []c10Op) {
			defer wg.Done()
			for _, o := range prog {
				if hung.Load() {
					return
				}
				doOp(tid, o)
			}
		}(g+1, prog)
	}
	wg.Wait()
	if hung.Load() {
		res.hung = true
		res.obs = ln.observations()
		return
	}
	// final Close (twice: idempotence)
	ln.log("call.close:99")
	t0 := time.Now()
	if !guarded(hangLimit, func() { res.finalErr1 = conn.Close() }) {
		res.hung = true
		res.obs = ln.observations()
		return
	}
	res.finalDur = time.Since(t0)
	res.finalRet = time.Now()
	if errors.Is(res.finalErr1, hsms.ErrNotOpen) {
		ln.log("ret.close.notopen:99")
	} else {
		ln.log("ret.close.ok:99")
	}
	res.finalErr2 = conn.Close()
	res.snapEnd = hsms.VerifLifeSnap(conn)
	res.stateEnd = conn.State()
	before := ln.nAttempts()
	time.Sleep(120 * time.Millisecond) // > 2 x T5 (40 ms) + the largest configured backoff
	res.afterDial = ln.nAttempts() - before
	lifeWait(time.Second, func() bool { return len(ln.openResources()) == 0 })
	res.openRes = ln.openResources()
	res.liveCtx = ln.liveCtxs()
	res.obs = ln.observations()
	res.attempts = ln.nAttempts()
	res.dials = ln.attemptsCopy()
	// reopen: a closed connection behaves like a fresh one
	if !errors.Is(res.finalErr1, hsms.ErrNotOpen) || true {
		phase.Store(1)
		// Background open + a generous wait for Selected: under -race / heavy load a first select can outlast
		// T6 and be retried by the reconnect loop, which is recovery, not a failure of the reopen.
		mode := hsms.OpenBackground
		ctx, cancel := context.WithTimeout(context.Background(), 3*time.Second)
		var e error
		if !guarded(hangLimit, func() { e = conn.Open(ctx, mode) }) {
			cancel()
			res.hung = true
			return
		}
		cancel()
		if e != nil {
			res.reopenErr = e.Error()
		} else {
			// up to three tries: on a loaded machine (-race) a protocol timer can expire on the harness peer's
			// slowness; the connection then reconnects by itself, which is still "works like a fresh one"
			for try := 0; try < 3; try++ {
				res.reopenRT = ""
				if !lifeWait(8*time.Second, func() bool { return conn.State() == hsms.SelectedState }) {
					res.reopenRT = "reopened connection never reached Selected"
					break
				}
				ctx, cancel := context.WithTimeout(context.Background(), 3*time.Second)
				rsp, e := conn.SendDataMessage(ctx, 1, 13, true, secs2.A("PING"))
				cancel()
				switch {
				case e != nil:
					res.reopenRT = e.Error() + fmt.Sprintf(" | state=%v attempts=%d obs=%v dbg=%v", conn.State(), ln.nAttempts(), ln.observations(), ln.debugLog())
				case rsp == nil || rsp.Function() != 14:
					res.reopenRT = "bad reply"
				}
				if res.reopenRT == "" {
					break
				}
				time.Sleep(50 * time.Millisecond)
			}
		}
		var ce error
		if !guarded(hangLimit, func() { ce = conn.Close() }) {
			res.hung = true
			return
		}
		if ce != nil {
			res.closeAfter = ce.Error()
		}
		lifeWait(time.Second, func() bool { return len(ln.openResources()) == 0 })
		if r := ln.openResources(); len(r) != 0 {
			res.closeAfter += fmt.Sprint(" open after reopen-close: ", r)
		}
	}
	return
}

func c10Judge(c *Ctx, pool *lifeLeanPool, r c10Result, slack time.Duration) {
	h := r.h
	nontrivial := false
	opens, closes := 0, 0
	for _, p := range h.Progs {
		for _, o := range p {
			if strings.HasPrefix(o.Kind, "open") {
				opens++
			}
			if o.Kind == "close" {
				closes++
			}
		}
	}
	fault := false
	for _, b := range h.Behs {
		if b != "connect" {
			fault = true
		}
	}
	nontrivial = (opens > 0 && closes > 0 && len(h.Progs) > 1) || (opens > 0 && fault)
	c.Count(h.text(), nontrivial)
	c.Stat("hist:role:" + h.Role)
	if h.Transport == "secs1" {
		c.Stat("hist:transport:secs1")
	} else {
		c.Stat("hist:transport:hsmsss")
	}
	c.Stat("hist:tag:" + h.Tag)
	c.Stat(fmt.Sprintf("hist:goroutines:%d", len(h.Progs)))
	rep := map[string]any{"history": h, "observations": r.obs, "final_close": fmt.Sprint(r.finalErr1), "final_close_again": fmt.Sprint(r.finalErr2),
		"final_close_ms": r.finalDur.Milliseconds(), "dial_attempts": r.attempts}
	var callLog []string
	for _, o := range r.calls {
		if o.Kind == "sleep" || o.Kind == "state" {
			continue
		}
		callLog = append(callLog, fmt.Sprintf("%s(%d)=%s in %v", o.Kind, o.Arg, o.res, o.dur.Round(time.Millisecond)))
		c.Stat("op:" + o.Kind + ":" + o.res)
	}
	rep["calls"] = callLog
	if r.setup != "" {
		c.Violate("property", "c10-setup", r.setup, rep)
		return
	}
	if r.hung {
		c.Violate("property", "api-call-hung", "an Open/Close call did not return within the watchdog limit (20 s plus every Open's connect timeout; close-timeout is 2 s); history abandoned", rep)
		return
	}
	// ---- run-time oracles ----
	closeTO := h.closeTimeout()
	var waitBudget time.Duration
	for _, o := range r.calls {
		if o.Kind == "openWait" {
			waitBudget += time.Duration(o.Arg) * time.Millisecond
		}
	}
	// An Open whose own synchronous dial is blackholed holds lifeMu for the whole connect timeout (its
	// documented bound); every call queued behind it inherits that budget.
	var holeBudget time.Duration
	var holeLog []string
	for _, a := range r.dials {
		if !a.Hole {
			continue
		}
		from := "open"
		if a.FromLoop {
			from = "loop"
		} else {
			holeBudget += h.connectTimeout()
		}
		c.Stat("blackhole:" + from + ":" + a.CtxErr)
		holeLog = append(holeLog, fmt.Sprintf("dial#%d from %s: blocked %v, ended %s", a.N, from, a.Ret.Sub(a.At).Round(time.Millisecond), a.CtxErr))
	}
	if len(holeLog) != 0 {
		rep["blackholed_dials"] = holeLog
		rep["connect_timeout"] = h.connectTimeout().String()
		rep["close_timeout"] = closeTO.String()
	}
	for _, o := range r.calls {
		if o.panicV != nil {
			c.Violate("property", "api-panic", fmt.Sprintf("%s panicked: %v", o.Kind, o.panicV), rep)
		}
		var bound time.Duration
		switch o.Kind {
		case "close", "openBg", "openWait":
			// may queue on lifeMu behind every Open(wait) budget and one bounded Close
			bound = closeTO + waitBudget + holeBudget + slack
		case "send", "sendBig":
			bound = time.Duration(o.Arg)*time.Millisecond + 300*time.Millisecond + slack // ctx budget, else T3
		case "sendAsync", "config":
			bound = slack
		default:
			continue
		}
		if o.dur > bound {
			c.Violate("property", "api-call-exceeds-bound:"+o.Kind, fmt.Sprintf("%s took %v, bound %v", o.Kind, o.dur, bound), rep)
		}
		if o.res == "timeout" {
			c.Violate("property", "close-timeout-without-blocking-handler", "Close returned ErrCloseTimeout although no handler blocks", rep)
		}
		if o.res == "invalid-accepted" {
			c.Violate("property", "invalid-config-accepted", "UpdateConfigOptions(WithT5(-1)) returned nil", rep)
		}
	}
	if r.finalDur > closeTO+slack {
		c.Violate("property", "close-exceeds-bound", fmt.Sprintf("final Close took %v (close-timeout %v)", r.finalDur, closeTO), rep)
	}
	// ---- blackholed dials: a teardown must abort a (re)dial in flight; nothing may be pending after Close ----
	abortSlack := slack / 2
	type closeCall struct {
		at  time.Time
		who string
	}
	var closeCalls []closeCall
	for _, o := range r.calls {
		if o.Kind == "close" && o.res != "hung" {
			closeCalls = append(closeCalls, closeCall{o.started, "Close"})
		}
	}
	closeCalls = append(closeCalls, closeCall{r.finalRet.Add(-r.finalDur), "final Close"})
	for _, a := range r.dials {
		if !a.Hole {
			continue
		}
		if a.Ret.IsZero() || a.CtxErr == "stuck" {
			c.Violate("property", "blackholed-dial-never-released", fmt.Sprintf("dial attempt #%d: its context was neither cancelled nor timed out within 45 s", a.N), rep)
			continue
		}
		if a.Ret.After(r.finalRet) {
			c.Violate("property", "reconnect-dial-pending-after-close",
				fmt.Sprintf("dial attempt #%d was still in flight %v after the final Close returned", a.N, a.Ret.Sub(r.finalRet).Round(time.Millisecond)), rep)
		}
		if a.CtxErr == "deadline" && (!a.HadDeadline || a.Ret.Sub(a.At) < h.connectTimeout()-30*time.Millisecond) {
			c.Violate("property", "dial-context-deadline-wrong", fmt.Sprintf("dial attempt #%d ended with DeadlineExceeded after %v (connect timeout %v, deadline configured: %v)",
				a.N, a.Ret.Sub(a.At), h.connectTimeout(), a.HadDeadline), rep)
		}
		if !a.FromLoop {
			continue
		}
		// a reconnect attempt in flight when a Close is called must be aborted by that Close's teardown
		// (its dial context is the generation's): it ends — with context.Canceled, unless its own deadline
		// happened to fall in the window — within the lifeMu queueing budget, never after riding out the
		// connect timeout.
		for _, k := range closeCalls {
			if !(k.at.After(a.At) && k.at.Before(a.Ret)) {
				continue
			}
			lag := a.Ret.Sub(k.at)
			if lag > waitBudget+holeBudget+abortSlack {
				c.Violate("property", "redial-not-aborted-by-close",
					fmt.Sprintf("%s was called %v after reconnect dial #%d started; the dial was not aborted: it ended %v later with %s (connect timeout %v, close timeout %v)",
						k.who, k.at.Sub(a.At).Round(time.Millisecond), a.N, lag.Round(time.Millisecond), a.CtxErr, h.connectTimeout(), closeTO), rep)
				break
			}
			if a.CtxErr == "canceled" {
				c.Stat("blackhole:aborted-by-close")
			}
		}
	}
	if fmt.Sprint(r.finalErr1) != fmt.Sprint(r.finalErr2) && !(r.finalErr1 == nil && r.finalErr2 == nil) {
		c.Violate("property", "close-not-idempotent", fmt.Sprintf("Close returned %v then %v", r.finalErr1, r.finalErr2), rep)
	}
	if r.finalErr1 != nil && !errors.Is(r.finalErr1, hsms.ErrNotOpen) {
		c.Violate("property", "final-close-error", fmt.Sprintf("final Close returned %v", r.finalErr1), rep)
	}
	if r.afterDial != 0 {
		c.Violate("property", "dial-after-close", fmt.Sprintf("%d dial/listen attempts after Close returned", r.afterDial), rep)
	}
	if len(r.openRes) != 0 {
		c.Violate("property", "resource-left-open", fmt.Sprintf("harness-owned %v not closed after Close", r.openRes), rep)
	}
	if r.liveCtx != 0 {
		c.Violate("property", "generation-not-torn-down", fmt.Sprintf("%d generation contexts still live after Close", r.liveCtx), rep)
	}
	if r.snapEnd.Reconnecting != 0 {
		c.Violate("property", "reconnect-pending-after-close", fmt.Sprintf("Reconnecting() = %d after Close", r.snapEnd.Reconnecting), rep)
	}
	if r.snapEnd.HasCur && (!r.snapEnd.CurDone || !r.snapEnd.CurCancelled) {
		c.Violate("property", "current-generation-not-joined", "cur epoch not cancelled/done after Close", rep)
	}
	if r.snapEnd.HasSup && (!r.snapEnd.SupStopped || !r.snapEnd.Shutdown) {
		c.Violate("property", "supervisor-alive-after-close", fmt.Sprintf("after Close: supStopped=%v shutdown=%v", r.snapEnd.SupStopped, r.snapEnd.Shutdown), rep)
	}
	if r.stateEnd != hsms.NotConnectedState {
		// DESIGN §7 F4 (fixed in the repo by "Close publishes NotConnected after all joins"): a closed
		// connection must read NotConnected, otherwise it does not behave like a fresh one.
		c.Violate("property", "state-after-close-not-notconnected",
			fmt.Sprintf("State() == %s after Close returned", r.stateEnd), rep)
	}
	if r.reopenErr != "" {
		c.Violate("property", "reopen-failed", "Open on a closed connection failed: "+r.reopenErr, rep)
	} else if r.reopenRT != "" {
		c.Violate("property", "reopen-not-fresh", "reopened connection does not work like a fresh one: "+r.reopenRT, rep)
	}
	if r.closeAfter != "" {
		c.Violate("property", "close-after-reopen", r.closeAfter, rep)
	}
	// ---- correspondence: the history is a model trace ----
	if pool != nil {
		pool.submit(func(l *Lean) {
			t0 := time.Now()
			ans := l.Ask("life.hist " + h.Role + " +freefail " + strings.Join(r.obs, " "))
			if d := time.Since(t0); d > 5*time.Second {
				c.Note("slow model check (%v, %d observations) for history %d", d.Round(time.Millisecond), len(r.obs), h.ID)
			}
			c.mu.Lock()
			c.Res.Traces++
			c.mu.Unlock()
			if !strings.HasPrefix(ans, "ok") {
				c.Violate("correspondence", "history-not-a-model-trace", "observed history rejected by the lifecycle model: "+ans, rep)
			}
		})
	}
}

// lifeLeanPool runs model queries on several driver processes (the history check is CPU-bound).
type lifeLeanPool struct {
	jobs chan func(*Lean)
	wg   sync.WaitGroup
	ls   []*Lean
}

func newLifeLeanPool(c *Ctx, n int) *lifeLeanPool {
	if c.Lean == nil {
		return nil
	}
	p := &lifeLeanPool{jobs: make(chan func(*Lean), 4096)}
	for i := 0; i < n; i++ {
		l, err := StartLean(c.Lean.cmd.Path)
		if err != nil {
			break
		}
		p.ls = append(p.ls, l)
	}
	if len(p.ls) == 0 {
		p.ls = []*Lean{c.Lean}
	}
	for _, l := range p.ls {
		p.wg.Add(1)
		go func(l *Lean) {
			defer p.wg.Done()
			for j := range p.jobs {
				j(l)
			}
		}(l)
	}
	return p
}

func (p *lifeLeanPool) submit(f func(*Lean)) { p.jobs <- f }

// finish waits for all queued queries and folds the op counts into the main driver's counter.
func (p *lifeLeanPool) finish(c *Ctx) {
	close(p.jobs)
	p.wg.Wait()
	for _, l := range p.ls {
		if l != c.Lean {
			c.Lean.ops += l.ops
			l.Close()
		}
	}
}

// ---- shared by the deterministic race and the stress loop: an ACTIVE connection on either transport ----

type c10Tr struct {
	name  string // "" = HSMS-SS, "secs1" = SECS-I
	equip bool   // SECS-I: the library is the equipment
}

func (t c10Tr) String() string {
	if t.name == "" {
		return "hsmsss"
	}
	if t.equip {
		return "secs1-equipment"
	}
	return "secs1-host"
}

var c10ActiveTransports = []c10Tr{{"", false}, {"secs1", false}, {"", false}, {"secs1", true}}

// c10NewActive builds an active connection of transport t whose dialer is ln.dial.
func c10NewActive(t c10Tr, ln *lifeNet, co []hsms.ConnOption) (hsms.Connection, error) {
	if t.name == "secs1" {
		so := []secs1.Option{secs1.WithDeviceID(c10S1Dev), secs1.WithT1(300 * time.Millisecond), secs1.WithT2(400 * time.Millisecond),
			secs1.WithT4(2 * time.Second), secs1.WithRetryLimit(2), secs1.WithActive(), secs1.WithDialer(ln.dial)}
		if t.equip {
			so = append(so, secs1.WithEquipment())
		} else {
			so = append(so, secs1.WithHost())
		}
		for _, o := range co {
			so = append(so, secs1.WithConnectionOption(o))
		}
		cfg, err := secs1.NewConfig("lifepipe", 1, so...)
		if err != nil {
			return nil, err
		}
		return secs1.New(cfg)
	}
	opts := []hsmsss.Option{hsmsss.WithActive(), hsmsss.WithDialer(ln.dial)}
	for _, o := range co {
		opts = append(opts, hsmsss.WithConnectionOption(o))
	}
	cfg, err := hsmsss.NewConfig("lifepipe", 1, opts...)
	if err != nil {
		return nil, err
	}
	return hsmsss.New(cfg)
}

// c10PeerSet runs cooperative peers of transport t and stops them all.
type c10PeerSet struct {
	t     c10Tr
	mu    sync.Mutex
	stops []func()
}

// serve runs a cooperative peer on the harness end of a pipe (blocks until the line ends).
func (ps *c10PeerSet) serve(conn net.Conn) {
	if ps.t.name == "secs1" {
		p := newLifeS1Peer(conn, ps.t.equip, lifeS1Beh{Kind: "serve"})
		ps.mu.Lock()
		ps.stops = append(ps.stops, func() { p.stop(); _ = conn.Close() })
		ps.mu.Unlock()
		p.run(c10S1Dev)
		return
	}
	p := newLifePeer(conn, true, lifeBehaviour{Kind: "serve"})
	ps.mu.Lock()
	ps.stops = append(ps.stops, func() { p.stop(); _ = conn.Close() })
	ps.mu.Unlock()
	p.run()
}

func (ps *c10PeerSet) stopAll() {
	ps.mu.Lock()
	for _, f := range ps.stops {
		f()
	}
	ps.mu.Unlock()
}

// ---- stress: Close racing a reconnect's Start (DESIGN §7 F4: State() after Close) ----

func c10StressF4(c *Ctx, iters int) {
	notNC, sealed, ran := 0, 0, 0
	var example []string
	began := time.Now()
	budget := time.Duration(c.Pick(20, 240)) * time.Second
	for it := 0; it < iters; it++ {
		if time.Since(began) > budget {
			c.Note("F4 stress stopped after %d iterations (time budget %v)", it, budget)
			break
		}
		ln := &lifeNet{}
		tr := c10ActiveTransports[it%len(c10ActiveTransports)]
		opened := make(chan struct{})
		closeNow := make(chan struct{})
		var once sync.Once
		delay := time.Duration(c.Rng.IntN(400)) * time.Microsecond
		peers := &c10PeerSet{t: tr}
		ln.plan = func(n int) (bool, func(net.Conn)) {
			if n >= 1 {
				once.Do(func() { close(closeNow) })
				spin := time.Now()
				for time.Since(spin) < delay {
				}
			}
			return true, func(conn net.Conn) {
				if n == 0 {
					go func() { <-opened; _ = conn.Close() }()
				}
				peers.serve(conn)
			}
		}
		conn, err := c10NewActive(tr, ln, []hsms.ConnOption{hsms.WithT5(5 * time.Millisecond), hsms.WithT6(c10T6), hsms.WithReconnectBackoff(time.Millisecond, 1),
			hsms.WithCloseTimeout(c10CloseTimeout), hsms.WithLogger(lifeNullLogger{})})
		if err != nil {
			c.Note("F4 stress: cannot build a %v connection: %v", tr, err)
			return
		}
		ctx, cancel := context.WithTimeout(context.Background(), 2*time.Second)
		ln.log("call.open.wait:1")
		err = conn.Open(ctx, hsms.OpenWaitSelected)
		cancel()
		ln.log("ret.open." + c10ClassOpen(err) + ":1")
		ln.log("drop")
		close(opened)
		if err != nil {
			_ = conn.Close()
			peers.stopAll()
			ln.waitPeers()
			continue
		}
		select {
		case <-closeNow:
		case <-time.After(2 * time.Second):
			_ = conn.Close()
			peers.stopAll()
			ln.waitPeers()
			continue
		}
		ln.log("call.close:1")
		t0 := time.Now()
		cerr := conn.Close()
		ln.log("ret.close.ok:1")
		if d := time.Since(t0); cerr != nil || d > c10CloseTimeout {
			c.Violate("property", "stress-close-slow-or-failed", fmt.Sprintf("Close racing a reconnect took %v and returned %v", d, cerr),
				map[string]any{"observations": ln.observations(), "stress_iteration": it, "transport": tr.String()})
			return
		}
		ran++
		c.Stat("f4:stress:" + tr.String())
		st := conn.State()
		if st != hsms.NotConnectedState {
			notNC++
			if len(example) == 0 {
				example = append(ln.observations(), "State()="+st.String())
			}
			c.Violate("property", "state-after-close-not-notconnected",
				fmt.Sprintf("stress (Close racing a reconnect's Start): State() == %s after Close returned", st),
				map[string]any{"observations": ln.observations(), "stress_iteration": it, "dial_spin": delay.String(), "transport": tr.String()})
		}
		if n := ln.nAttempts(); n >= 2 {
			sealed++
		}
		peers.stopAll()
		ln.waitPeers()
		if r := ln.openResources(); len(r) != 0 {
			c.Violate("property", "resource-left-open", fmt.Sprintf("stress: harness-owned %v not closed after Close", r), map[string]any{"stress_iteration": it, "transport": tr.String()})
		}
	}
	c.StatN("f4:stress-iterations", ran)
	c.StatN("f4:stress-state-not-NC-after-close", notNC)
	c.Note("stress (Close racing a reconnect's Start, %d iterations): State() != NotConnected after Close returned in %d %v", ran, notNC, example)
}

// ---- directed race: Close vs. the reconnect loop's publish, both parked at publishMu ----
//
// The window between Close's first `cur.Load()` and its fence is a few instructions wide, so random
// histories never hit it. Using the loop's existing test seam and a hook that holds publishMu, both
// contenders are parked AT the mutex and released together, in both arrival orders. Whatever order
// the mutex grants, after Close returns there must be no dial, no open socket, no live generation,
// no pending reconnect (the "no orphan generation" argument, on the real code).
func c10RacePublish(c *Ctx, iters int) {
	for it := 0; it < iters; it++ {
		loopFirst := it%2 == 0
		tr := c10ActiveTransports[(it/2)%len(c10ActiveTransports)] // both arrival orders on every transport
		ln := &lifeNet{}
		opened := make(chan struct{})
		peers := &c10PeerSet{t: tr}
		ln.plan = func(n int) (bool, func(net.Conn)) {
			return true, func(conn net.Conn) {
				if n == 0 {
					go func() { <-opened; _ = conn.Close() }()
				}
				peers.serve(conn)
			}
		}
		conn, err := c10NewActive(tr, ln, []hsms.ConnOption{hsms.WithT5(5 * time.Millisecond), hsms.WithT6(c10T6), hsms.WithReconnectBackoff(time.Millisecond, 1),
			hsms.WithCloseTimeout(c10CloseTimeout), hsms.WithLogger(lifeNullLogger{})})
		if err != nil {
			c.Note("race-publish: cannot build a %v connection: %v", tr, err)
			return
		}
		atHook := make(chan struct{}, 64)
		releaseHook := make(chan struct{})
		var armed atomic.Bool
		if !hsms.VerifSetConnectLoopHook(conn, func() {
			if armed.Load() {
				atHook <- struct{}{}
				<-releaseHook
			}
		}) {
			c.Note("race-publish: loop hook unavailable")
			return
		}
		cleanup := func() {
			peers.stopAll()
			ln.waitPeers()
		}
		ctx, cancel := context.WithTimeout(context.Background(), 2*time.Second)
		ln.log("call.open.wait:1")
		err = conn.Open(ctx, hsms.OpenWaitSelected)
		cancel()
		ln.log("ret.open." + c10ClassOpen(err) + ":1")
		if err != nil {
			_ = conn.Close()
			cleanup()
			continue
		}
		armed.Store(true)
		ln.log("drop")
		close(opened)
		select {
		case <-atHook:
		case <-time.After(3 * time.Second):
			armed.Store(false)
			_ = conn.Close()
			cleanup()
			c.Violate("property", "no-recovery", "race-publish: the reconnect loop never reached its fence after a drop", map[string]any{"observations": ln.observations()})
			return
		}
		unlock, _ := hsms.VerifLockPublishMu(conn)
		closeDone := make(chan error, 1)
		startClose := func() {
			go func() {
				ln.log("call.close:2")
				e := conn.Close()
				ln.log("ret.close.ok:2")
				closeDone <- e
			}()
		}
		armed.Store(false)
		if loopFirst {
			close(releaseHook)
			time.Sleep(3 * time.Millisecond)
			startClose()
			time.Sleep(3 * time.Millisecond)
		} else {
			startClose()
			time.Sleep(3 * time.Millisecond)
			close(releaseHook)
			time.Sleep(3 * time.Millisecond)
		}
		unlock()
		var cerr error
		t0 := time.Now()
		select {
		case cerr = <-closeDone:
		case <-time.After(20 * time.Second):
			c.Violate("property", "api-call-hung", "race-publish: Close did not return within 20 s", map[string]any{"observations": ln.observations(), "loop_first": loopFirst})
			return
		}
		closeDur := time.Since(t0)
		st := conn.State()
		snap := hsms.VerifLifeSnap(conn)
		before := ln.nAttempts()
		time.Sleep(40 * time.Millisecond)
		after := ln.nAttempts() - before
		lifeWait(time.Second, func() bool { return len(ln.openResources()) == 0 })
		obs := ln.observations()
		rep := map[string]any{"observations": obs, "loop_first": loopFirst, "iteration": it, "state_after_close": st.String(), "dial_attempts": ln.nAttempts(), "transport": tr.String()}
		c.Count(fmt.Sprintf("race-publish|%v|%v|%d", tr, loopFirst, before), true)
		c.Stat(fmt.Sprintf("race:%v:loopFirst=%v:dials=%d", tr, loopFirst, before))
		if cerr != nil || closeDur > c10CloseTimeout {
			c.Violate("property", "close-exceeds-bound", fmt.Sprintf("race-publish: Close took %v and returned %v", closeDur, cerr), rep)
		}
		if after != 0 {
			c.Violate("property", "dial-after-close", fmt.Sprintf("race-publish: %d dial attempts after Close returned", after), rep)
		}
		if r := ln.openResources(); len(r) != 0 {
			c.Violate("property", "resource-left-open", fmt.Sprintf("race-publish: harness-owned %v not closed after Close", r), rep)
		}
		if n := ln.liveCtxs(); n != 0 {
			c.Violate("property", "generation-not-torn-down", fmt.Sprintf("race-publish: %d generation contexts still live after Close (orphaned generation)", n), rep)
		}
		if snap.Reconnecting != 0 || !snap.SupStopped || !snap.CurDone {
			c.Violate("property", "reconnect-pending-after-close", fmt.Sprintf("race-publish: after Close reconnecting=%d supStopped=%v curDone=%v", snap.Reconnecting, snap.SupStopped, snap.CurDone), rep)
		}
		if st != hsms.NotConnectedState {
			c.Violate("property", "state-after-close-not-notconnected",
				fmt.Sprintf("race-publish: State() == %s after Close returned", st), rep)
		}
		if c.Lean != nil {
			ans := c.Lean.Ask("life.hist active +freefail " + strings.Join(obs, " "))
			c.Res.Traces++
			if !strings.HasPrefix(ans, "ok") {
				c.Violate("correspondence", "history-not-a-model-trace", "race-publish history rejected by the lifecycle model: "+ans, rep)
			}
		}
		cleanup()
		if c.Failed() {
			return
		}
	}
	if left := lifeWaitNoLibGoroutines(3 * time.Second); len(left) != 0 {
		c.Violate("property", "goroutine-left-after-close", fmt.Sprintf("race-publish: %d library goroutines still running", len(left)), map[string]any{"stacks": left})
	}
}

// c10Replay re-runs the history stored in a replay file (as written by ./check) several times.
func c10Replay(c *Ctx, slack time.Duration) bool {
	if c.ReplayIn == "" {
		return false
	}
	raw, err := os.ReadFile(c.ReplayIn)
	if err != nil {
		c.Violate("property", "replay-unreadable", err.Error(), nil)
		return true
	}
	var doc struct {
		Replay struct {
			History *c10History `json:"history"`
		} `json:"replay"`
	}
	if err := json.Unmarshal(raw, &doc); err != nil || doc.Replay.History == nil {
		c.Note("replay file has no history (a stress / race finding): running the normal tier instead")
		return false
	}
	pool := newLifeLeanPool(c, 4)
	if pool != nil {
		defer pool.finish(c)
	}
	for i := 0; i < 40 && !c.Failed(); i++ {
		c10Judge(c, pool, c10RunHistory(*doc.Replay.History), slack)
	}
	if left := lifeWaitNoLibGoroutines(3 * time.Second); len(left) != 0 {
		c.Violate("property", "goroutine-left-after-close", fmt.Sprintf("%d library goroutines still running after replay", len(left)), map[string]any{"stacks": left})
	}
	return true
}

func runC10(c *Ctx) {
	slack := 2 * time.Second
	if c.Thorough() {
		slack = 4 * time.Second
	}
	if c10Replay(c, slack) {
		return
	}
	pool := newLifeLeanPool(c, 8)
	if pool != nil {
		defer pool.finish(c)
	}
	hs := c10Directed()
	// the same directed histories on SECS-I (both E4 roles alternate), plus Close in the middle of a multi-block send
	for i, d := range c10Directed() {
		d.Transport, d.S1Equip = "secs1", i%2 == 1
		hs = append(hs, d)
	}
	for i, role := range []string{"active", "passive", "active", "passive"} {
		hs = append(hs, c10History{Role: role, Transport: "secs1", S1Equip: i >= 2, Tag: "close-mid-block", Behs: []string{"connect", "connect"},
			Progs: [][]c10Op{{{Kind: "openBg"}, {Kind: "sleep", Arg: 20}, {Kind: "sendBig", Arg: 800}}, {{Kind: "sleep", Arg: 28 + 3*i}, {Kind: "close"}}}})
	}
	hs = append(hs, c10BlackholeDirected(slack)...)
	hs = append(hs, c10LateAcceptDirected()...)
	hs = append(hs, c10WedgedPeerDirected()...)
	for i := 0; i < c.Pick(150, 2400); i++ {
		hs = append(hs, c10GenHistory(c, 0))
	}
	for i := 0; i < c.Pick(40, 600); i++ {
		g := c10GenHistory(c, 0)
		g.Transport, g.S1Equip = "secs1", i%2 == 1
		hs = append(hs, g)
	}
	if v := os.Getenv("VERIF_C10_MAX"); v != "" { // debugging aid: run only the first N histories
		var n int
		fmt.Sscan(v, &n)
		if n > 0 && n < len(hs) {
			hs = hs[:n]
		}
	}
	for i := range hs {
		hs[i].ID = i
	}
	batch := 24
	for lo := 0; lo < len(hs); lo += batch {
		hi := lo + batch
		if hi > len(hs) {
			hi = len(hs)
		}
		outs := make([]c10Result, hi-lo)
		var wg sync.WaitGroup
		for i := lo; i < hi; i++ {
			wg.Add(1)
			go func(i int) {
				defer wg.Done()
				defer func() {
					if p := recover(); p != nil {
						outs[i-lo].h = hs[i]
						outs[i-lo].setup = fmt.Sprint("panic escaped a history: ", p)
					}
				}()
				outs[i-lo] = c10RunHistory(hs[i])
			}(i)
		}
		wg.Wait()
		for _, o := range outs {
			c10Judge(c, pool, o, slack)
		}
		if left := lifeWaitNoLibGoroutines(3 * time.Second); len(left) != 0 {
			var tags []string
			for i := lo; i < hi; i++ {
				tags = append(tags, fmt.Sprintf("%d:%s/%s", i, hs[i].Role, hs[i].Tag))
			}
			c.Violate("property", "goroutine-left-after-close", fmt.Sprintf("%d library goroutines still running after every connection of the batch was closed", len(left)),
				map[string]any{"stacks": left, "batch": tags, "histories": hs[lo:hi]})
			return
		}
		if c.Failed() {
			c.Note("stopped after the first failing batch (%d of %d histories run)", hi, len(hs))
			return
		}
		if lo == 0 && len(outs) > 0 {
			for i := 0; i < len(outs) && i < 3; i++ {
				c.Sample(map[string]any{"tag": outs[i].h.Tag, "role": outs[i].h.Role, "observations": outs[i].obs})
			}
		}
	}
	c10RacePublish(c, c.Pick(40, 600))
	if c.Failed() {
		return
	}
	c10StressF4(c, c.Pick(300, 5000))
	c10RedundantOpen(c)
}
