package main

// C11 — recovery after any link failure.
//
//  A. function mode: hsms.VerifNextBackoffDelay (the real nextBackoffDelay) against the model's integer
//     clamp on boundary / NaN / Inf / huge / tiny multipliers, with the float product computed here and
//     handed to the model as a parameter; property oracle on the implementation: result in (0, ceil],
//     never below min(cur, ceil) for multiplier >= 1, cur <= 2^53.
//  B. Go-side sweep validating the theorems' hypothesis `scaled >= cur or out of range` for
//     cur <= 2^53 ns, multiplier >= 1.
//  C. whole backoff sequences (initial, multiplier, T5) against `life.backoff`.
//  D. end to end: a real hsmsss connection against a scripted peer that kills the link at every byte
//     offset x direction of the select / data / linktest exchanges, by every timer-covered stall, by
//     select rejection, after 0..6 failed re-dials, under three backoff configurations, both roles:
//     dial timestamps vs. the model's sleeps (wide margins), recovery + round trip, Reconnects(),
//     no dial after Close, history accepted by the model (`life.hist`), final state vs `life.run`.

import (
	"context"
	"fmt"
	"math"
	"net"
	"strings"
	"sync"
	"time"

	"github.com/arloliu/go-secs/v2/hsms"
	"github.com/arloliu/go-secs/v2/hsmsss"
	"github.com/arloliu/go-secs/v2/logger"
	"github.com/arloliu/go-secs/v2/secs2"
)

func init() {
	register("C11", "function cases: (cur, multiplier, ceil) triples over boundary sets (0, 1, ms..s, 2^53-1..2^53+1, 2^62, MaxInt64; "+
		"multipliers 1, 1+ulp, 1.5, 2, 10, 1e9, 1e300, MaxFloat64, +-Inf, NaN, 0, <1, negative) + random; sequences: 3+ backoff configs x lengths; "+
		"end-to-end: (role, failure kind, cut exchange x direction x byte offset, failed-dial run 0..6, backoff config) scenarios; "+
		"distinct = distinct case tuple; non-trivial = multiplier >= 1 and cur > 0 (function) / every executed scenario (end-to-end)", runC11)
}

// ---- silent logger ----

type lifeNullLogger struct{}

func (lifeNullLogger) Debug(string, ...any)        {}
func (lifeNullLogger) Info(string, ...any)         {}
func (lifeNullLogger) Warn(string, ...any)         {}
func (lifeNullLogger) Error(string, ...any)        {}
func (lifeNullLogger) Fatal(string, ...any)        {}
func (l lifeNullLogger) With(...any) logger.Logger { return l }
func (lifeNullLogger) Level() logger.LogLevel      { return logger.LogLevel(0) }
func (lifeNullLogger) SetLevel(logger.LogLevel)    {}

// ---- A/B/C: the pure backoff step ----

func c11Scaled(cur time.Duration, mult float64) time.Duration {
	return time.Duration(float64(cur) * mult) // the expression in nextBackoffDelay; a PARAMETER of the model
}

func runC11Function(c *Ctx) {
	curs := []int64{0, 1, 2, 3, 999, 1000, 1e6, 20e6, 100e6, 1e9, 10e9, 3600e9, 1<<53 - 1, 1 << 53, 1<<53 + 1, 1 << 62, math.MaxInt64, -1, -1e9, math.MinInt64}
	mults := []float64{1, math.Nextafter(1, 2), 1.5, 2, 3, 10, 1e9, 1e18, 1e19, 1e300, math.MaxFloat64, math.Inf(1), math.Inf(-1), math.NaN(),
		0, math.SmallestNonzeroFloat64, 0.5, math.Nextafter(1, 0), -1, -2, -1e300}
	ceils := []int64{1, 1000, 1e6, 80e6, 10e9, 1 << 53, math.MaxInt64, 0, -5}
	type fc struct {
		cur  int64
		mult float64
		ceil int64
	}
	var cases []fc
	for _, cu := range curs {
		for _, m := range mults {
			for _, ce := range ceils {
				cases = append(cases, fc{cu, m, ce})
			}
		}
	}
	r := c.Rng
	for i := 0; i < c.Pick(20000, 400000); i++ {
		var cu int64
		switch r.IntN(4) {
		case 0:
			cu = r.Int64N(1e9)
		case 1:
			cu = r.Int64N(1 << 53)
		case 2:
			cu = int64(1)<<uint(r.IntN(63)) + r.Int64N(3) - 1
		default:
			cu = r.Int64()
		}
		var m float64
		switch r.IntN(5) {
		case 0:
			m = 1 + r.Float64()
		case 1:
			m = 1 + r.Float64()*100
		case 2:
			m = math.Float64frombits(r.Uint64())
		case 3:
			m = math.Exp(r.Float64()*200 - 20)
		default:
			m = float64(1 + r.IntN(4))
		}
		var ce int64
		switch r.IntN(3) {
		case 0:
			ce = 1 + r.Int64N(20e9)
		case 1:
			ce = int64(1) << uint(r.IntN(63))
		default:
			ce = cu + r.Int64N(5) - 2
		}
		cases = append(cases, fc{cu, m, ce})
	}
	var lines []string
	for _, k := range cases {
		sc := c11Scaled(time.Duration(k.cur), k.mult)
		lines = append(lines, fmt.Sprintf("life.clamp %d %d", int64(sc), k.ceil))
	}
	var ans []string
	if c.Lean != nil {
		ans = c.Lean.AskAll(lines)
	}
	for i, k := range cases {
		got := int64(hsms.VerifNextBackoffDelay(time.Duration(k.cur), k.mult, time.Duration(k.ceil)))
		nontrivial := k.mult >= 1 && k.cur > 0
		c.Count(fmt.Sprintf("f|%d|%x|%d", k.cur, math.Float64bits(k.mult), k.ceil), nontrivial)
		switch {
		case math.IsNaN(k.mult):
			c.Stat("fn:mult-nan")
		case math.IsInf(k.mult, 0):
			c.Stat("fn:mult-inf")
		case k.mult < 1:
			c.Stat("fn:mult<1")
		default:
			c.Stat("fn:mult>=1")
		}
		rep := map[string]any{"cur_ns": k.cur, "multiplier_bits": fmt.Sprintf("%016x", math.Float64bits(k.mult)), "multiplier": fmt.Sprint(k.mult), "ceil_ns": k.ceil, "got_ns": got}
		if ans != nil && ans[i] != fmt.Sprint(got) {
			c.Violate("correspondence", "nextBackoffDelay-vs-clampNext",
				fmt.Sprintf("nextBackoffDelay(%d, %v, %d) = %d but the model clamp gives %s", k.cur, k.mult, k.ceil, got, ans[i]), rep)
		}
		// property oracle (valid configurations only: ceil = T5 > 0)
		if k.ceil > 0 {
			if got <= 0 || got > k.ceil {
				c.Violate("property", "backoff-exceeds-T5-or-nonpositive",
					fmt.Sprintf("nextBackoffDelay(%d, %v, %d) = %d is outside (0, T5]", k.cur, k.mult, k.ceil, got), rep)
			}
			if k.mult >= 1 && k.cur > 0 && k.cur <= 1<<53 {
				lo := k.cur
				if lo > k.ceil {
					lo = k.ceil
				}
				if got < lo {
					c.Violate("property", "backoff-decreases",
						fmt.Sprintf("nextBackoffDelay(%d, %v, %d) = %d is below min(cur, T5) = %d", k.cur, k.mult, k.ceil, got, lo), rep)
				}
			}
		}
	}
	c.Sample(map[string]any{"kind": "function", "cur_ns": 20000000, "multiplier": 2.0, "ceil_ns": 80000000,
		"impl": int64(hsms.VerifNextBackoffDelay(20*time.Millisecond, 2, 80*time.Millisecond))})

	// B: hypothesis sweep — for cur <= 2^53 and multiplier >= 1 the product never shrinks the delay
	// (or it is out of int64 range and converts to a non-positive / huge value, which the clamp covers).
	bad := 0
	sweep := c.Pick(300000, 5000000)
	for i := 0; i < sweep; i++ {
		var cu int64
		switch i % 4 {
		case 0:
			cu = 1 + r.Int64N(1<<53)
		case 1:
			cu = 1<<53 - r.Int64N(1000)
		case 2:
			cu = 1 + r.Int64N(1e10)
		default:
			cu = int64(1)<<uint(r.IntN(54)) - r.Int64N(2)
			if cu < 1 {
				cu = 1
			}
		}
		var m float64
		switch i % 3 {
		case 0:
			m = 1 + r.Float64()
		case 1:
			m = math.Nextafter(1, 2) + float64(r.IntN(3))*math.SmallestNonzeroFloat64
		default:
			m = math.Exp(r.Float64() * 700)
		}
		sc := int64(c11Scaled(time.Duration(cu), m))
		if !(sc >= cu || sc <= 0) {
			bad++
			c.Violate("property", "scaled-below-cur",
				fmt.Sprintf("time.Duration(float64(%d)*%v) = %d < cur although multiplier >= 1 and cur <= 2^53 (hypothesis ScaledOK of the backoff theorems fails)", cu, m, sc),
				map[string]any{"cur_ns": cu, "multiplier_bits": fmt.Sprintf("%016x", math.Float64bits(m))})
		}
	}
	c.StatN("fn:hypothesis-sweep", sweep)
	c.Res.Evaluations += sweep
	if bad == 0 {
		c.Note("hypothesis ScaledOK (scaled >= cur or out of range) held on %d sampled (cur <= 2^53 ns, multiplier >= 1) pairs", sweep)
	}
}

type c11Backoff struct {
	Initial time.Duration
	Mult    float64
	T5      time.Duration
}

// modelSleeps asks the model for the sleeps of n attempts; the float products are computed here.
func c11ModelSleeps(c *Ctx, b c11Backoff, n int) ([]time.Duration, []string) {
	delay := b.Initial
	args := []string{fmt.Sprint(int64(b.Initial))}
	var trace []string
	for k := 0; k < n; k++ {
		sc := c11Scaled(delay, b.Mult)
		args = append(args, fmt.Sprint(int64(sc)), fmt.Sprint(int64(b.T5)))
		nx := c.Lean.Ask(fmt.Sprintf("life.clamp %d %d", int64(sc), int64(b.T5)))
		var v int64
		fmt.Sscan(nx, &v)
		trace = append(trace, fmt.Sprintf("delay=%d scaled=%d next=%d", delay, sc, v))
		delay = time.Duration(v)
	}
	out := c.Lean.Ask("life.backoff " + strings.Join(args, " "))
	var sleeps []time.Duration
	for _, f := range strings.Fields(out) {
		var v int64
		fmt.Sscan(f, &v)
		sleeps = append(sleeps, time.Duration(v))
	}
	return sleeps, trace
}

// specSleep is the property's own reading: min(initial * multiplier^k, T5), in real arithmetic.
func c11SpecSleep(b c11Backoff, k int) time.Duration {
	v := float64(b.Initial) * math.Pow(b.Mult, float64(k))
	if v > float64(b.T5) || math.IsInf(v, 0) || math.IsNaN(v) {
		return b.T5
	}
	return time.Duration(v)
}

func runC11Sequences(c *Ctx) {
	cfgs := []c11Backoff{
		{100 * time.Millisecond, 2, 10 * time.Second}, {20 * time.Millisecond, 2, 80 * time.Millisecond},
		{30 * time.Millisecond, 1, 10 * time.Second}, {15 * time.Millisecond, 8, 60 * time.Millisecond},
		{time.Nanosecond, 1.0000001, time.Second}, {5 * time.Second, 1.5, time.Second}, {time.Millisecond, 1e300, time.Hour},
		{time.Duration(1 << 53), 2, time.Duration(math.MaxInt64)}, {7 * time.Millisecond, math.Nextafter(1, 2), 8 * time.Millisecond},
	}
	r := c.Rng
	for i := 0; i < c.Pick(300, 5000); i++ {
		cfgs = append(cfgs, c11Backoff{time.Duration(1 + r.Int64N(2e9)), 1 + r.Float64()*float64(1+r.IntN(9)), time.Duration(1 + r.Int64N(30e9))})
	}
	for _, b := range cfgs {
		n := 2 + r.IntN(40)
		// implementation-side sequence through the real nextBackoffDelay
		impl := make([]time.Duration, n)
		delay := b.Initial
		for k := 0; k < n; k++ {
			s := delay
			if s > b.T5 {
				s = b.T5
			}
			impl[k] = s
			delay = hsms.VerifNextBackoffDelay(delay, b.Mult, b.T5)
		}
		c.Count(fmt.Sprintf("seq|%d|%x|%d|%d", b.Initial, math.Float64bits(b.Mult), b.T5, n), true)
		c.Stat("seq:configs")
		rep := map[string]any{"initial_ns": int64(b.Initial), "multiplier": b.Mult, "T5_ns": int64(b.T5), "attempts": n, "impl_sleeps_ns": impl}
		// property oracle
		first := b.Initial
		if first > b.T5 {
			first = b.T5
		}
		if impl[0] != first {
			c.Violate("property", "backoff-start", fmt.Sprintf("first sleep %v, configured initial %v (T5 %v)", impl[0], b.Initial, b.T5), rep)
		}
		for k := 0; k < n; k++ {
			if impl[k] > b.T5 || impl[k] <= 0 {
				c.Violate("property", "backoff-exceeds-T5-or-nonpositive", fmt.Sprintf("sleep %d = %v outside (0, T5=%v]", k, impl[k], b.T5), rep)
			}
			if k > 0 && impl[k] < impl[k-1] {
				c.Violate("property", "backoff-decreases", fmt.Sprintf("sleep %d = %v < sleep %d = %v", k, impl[k], k-1, impl[k-1]), rep)
			}
		}
		if c.Lean != nil {
			model, _ := c11ModelSleeps(c, b, n)
			if fmt.Sprint(model) != fmt.Sprint(impl) {
				rep["model_sleeps_ns"] = model
				c.Violate("correspondence", "backoff-sequence", fmt.Sprintf("implementation sleeps %v, model %v", impl, model), rep)
			}
		}
	}
}

// ---- D: end to end ----

type c11Scenario struct {
	ID      int           `json:"id"`
	Role    string        `json:"role"` // active | passive
	Beh     lifeBehaviour `json:"behaviour"`
	Fails   int           `json:"failed_redials"`
	Backoff c11Backoff    `json:"backoff"`
	Cold    bool          `json:"cold_start"` // active only: the FIRST dials fail (Open background), no prior generation
	// SECS-I scenarios (c11_s1.go): Transport == "secs1", S1 is the peer's behaviour on the failing line,
	// S1Equip the library's E4 role (equipment = master). Beh is then only a label for statistics / the model.
	Transport string    `json:"transport,omitempty"`
	S1        lifeS1Beh `json:"s1,omitempty"`
	S1Equip   bool      `json:"s1_equipment,omitempty"`
}

func (s c11Scenario) key() string {
	return fmt.Sprintf("e2e|%s|%s|%s|%s|%d|%d|%v|%d|%v|%v|%s|%s|%d|%v", s.Role, s.Beh.Kind, s.Beh.Cut.Exchange, s.Beh.Cut.Dir, s.Beh.Cut.Off, s.Fails,
		s.Backoff.Initial, math.Float64bits(s.Backoff.Mult), s.Backoff.T5, s.Cold, s.Transport, s.S1.Kind, s.S1.Off, s.S1Equip)
}

var c11Backoffs = []c11Backoff{
	{20 * time.Millisecond, 2, 80 * time.Millisecond},
	{30 * time.Millisecond, 1, 10 * time.Second},
	{15 * time.Millisecond, 8, 60 * time.Millisecond},
	// initial ABOVE the T5 ceiling (nothing validates initial against T5): every delay, the first one
	// included, must still be capped at T5 (added after seeded change C11a-2 was missed)
	// (initial is far above T5 + the timing slack, so an uncapped first delay cannot hide in the margin)
	{6 * time.Second, 2, 60 * time.Millisecond},
	{5 * time.Second, 1, 50 * time.Millisecond},
	// huge multipliers: the un-clamped product leaves the int64 range after a few failed dials; every delay must
	// still be T5 (a wrapped, negative delay sleeps for zero time: back-to-back dials; after seeded change C11b-2)
	{10 * time.Millisecond, 1000, 30 * time.Millisecond},
	{20 * time.Millisecond, 1e6, 40 * time.Millisecond},
	{5 * time.Millisecond, 1e300, 25 * time.Millisecond},
}

const (
	c11T6       = 150 * time.Millisecond
	c11T7       = 150 * time.Millisecond
	c11T8       = 100 * time.Millisecond
	c11Linktest = 30 * time.Millisecond
	c11WriteTO  = 120 * time.Millisecond
)

// detectBound is how long the library may legitimately take to notice the failure.
func (s c11Scenario) detectBound() time.Duration {
	if s.Transport == "secs1" {
		return c11S1T2 + c11S1T1 // a dead line is noticed at the next read; allow one protocol timeout
	}
	switch s.Beh.Kind {
	case "stallSelect":
		return c11T6
	case "noSelect", "selectStatus1Hold", "deselectHold":
		return c11T7
	case "stallMidFrame":
		return c11T8 + c11T6
	case "stallFrameSel":
		return c11T8 + c11T6
	case "stallLinktest":
		return 2 * (c11Linktest + c11T6)
	case "stallRead", "stallReadShortCtx":
		return c11WriteTO + c11T6
	}
	return 0
}

func c11Scenarios(c *Ctx) []c11Scenario {
	var out []c11Scenario
	r := c.Rng
	add := func(role string, beh lifeBehaviour) {
		s := c11Scenario{Role: role, Beh: beh, Fails: r.IntN(7), Backoff: c11Backoffs[r.IntN(len(c11Backoffs))]}
		out = append(out, s)
	}
	for _, role := range []string{"active", "passive"} {
		// every byte offset x direction of the select exchange (14-byte control frames)
		for off := 0; off <= 13; off++ {
			add(role, lifeBehaviour{Kind: "cut", Cut: lifeCut{"select", "toPeer", off}})
			add(role, lifeBehaviour{Kind: "cut", Cut: lifeCut{"select", "toLib", off}})
		}
		// linktest exchange
		for off := 0; off <= 13; off++ {
			add(role, lifeBehaviour{Kind: "cut", Cut: lifeCut{"linktest", "toPeer", off}})
			add(role, lifeBehaviour{Kind: "cut", Cut: lifeCut{"linktest", "toLib", off}})
		}
		// data exchange: primary S1F1 W with a 6-byte body (20 bytes on the wire), header-only reply (14)
		for off := 0; off <= 19; off++ {
			add(role, lifeBehaviour{Kind: "cut", Cut: lifeCut{"data", "toPeer", off}})
		}
		for off := 0; off <= 13; off++ {
			add(role, lifeBehaviour{Kind: "cut", Cut: lifeCut{"data", "toLib", off}})
		}
		// timer-covered stalls and rejection
		kinds := []string{"stallMidFrame", "stallLinktest", "stallRead", "stallReadShortCtx", "deselectHold"}
		if role == "active" {
			kinds = append(kinds, "stallSelect", "rejectSelect", "selectStatus1Hold")
		} else {
			kinds = append(kinds, "noSelect")
		}
		for _, k := range kinds {
			for rep := 0; rep < 2; rep++ {
				add(role, lifeBehaviour{Kind: k})
			}
		}
		// a stall at every byte offset inside a frame (incl. exactly after the 4-byte length prefix): T8 must
		// cover each of them (added after seeded change C11a-1 was caught by C04 only)
		for off := 1; off <= 13; off++ {
			add(role, lifeBehaviour{Kind: "stallMidFrame", Cut: lifeCut{"", "", off}})
			// the same inside an established Selected session, where T6/T7 cannot mask a missing T8
			add(role, lifeBehaviour{Kind: "stallFrameSel", Cut: lifeCut{"", "", off}})
		}
	}
	// every failed-dial run length x backoff configuration, both roles, one representative cut
	for _, role := range []string{"active", "passive"} {
		for n := 0; n <= 6; n++ {
			for _, b := range c11Backoffs {
				out = append(out, c11Scenario{Role: role, Beh: lifeBehaviour{Kind: "cut", Cut: lifeCut{"data", "toPeer", 7}}, Fails: n, Backoff: b})
			}
		}
	}
	// cold start (active, OpenBackground): the first 1..6 dials fail, then the peer appears
	for n := 1; n <= 6; n++ {
		out = append(out, c11Scenario{Role: "active", Beh: lifeBehaviour{Kind: "serve"}, Fails: n, Backoff: c11Backoffs[n%len(c11Backoffs)], Cold: true})
	}
	if c.Thorough() {
		base := append([]c11Scenario(nil), out...)
		for rep := 0; rep < 3; rep++ {
			for _, s := range base {
				s.Fails = r.IntN(7)
				if s.Cold && s.Fails == 0 {
					s.Fails = 1 // a cold start needs at least one refused first dial
				}
				s.Backoff = c11Backoffs[r.IntN(len(c11Backoffs))]
				out = append(out, s)
			}
		}
	}
	for i := range out {
		out[i].ID = i
	}
	return out
}

type c11Outcome struct {
	sc        c11Scenario
	gaps      []time.Duration // gap before loop attempt k (k = 0: from the failure, else from the previous failed dial's return)
	attempts  int
	recovered bool
	rtOK      bool
	rtErr     string
	reconn    uint64
	reconning int64
	stateEnd  string
	afterDial int // dial attempts observed after Close returned
	openRes   []string
	liveCtx   int
	closeErr  error
	closeDur  time.Duration
	obs       []string
	notes     []string
	failNote  string
}

func lifeWait(d time.Duration, cond func() bool) bool {
	deadline := time.Now().Add(d)
	for {
		if cond() {
			return true
		}
		if time.Now().After(deadline) {
			return false
		}
		time.Sleep(2 * time.Millisecond)
	}
}

func c11ConnOptions(s c11Scenario) []hsmsss.Option {
	co := []hsms.ConnOption{
		hsms.WithT3(800 * time.Millisecond), hsms.WithT5(s.Backoff.T5), hsms.WithT6(c11T6), hsms.WithT7(c11T7), hsms.WithT8(c11T8),
		hsms.WithReconnectBackoff(s.Backoff.Initial, s.Backoff.Mult), hsms.WithCloseTimeout(3 * time.Second),
		hsms.WithLogger(lifeNullLogger{}), hsms.WithWriteTimeout(c11WriteTO),
	}
	if s.Beh.Cut.Exchange == "linktest" || s.Beh.Kind == "stallLinktest" {
		co = append(co, hsms.WithLinktestInterval(c11Linktest), hsms.WithLinktestFailThreshold(1), hsms.WithLinktestSuppression(false))
	}
	var opts []hsmsss.Option
	for _, o := range co {
		opts = append(opts, hsmsss.WithConnectionOption(o))
	}
	return opts
}

func c11RunScenario(s c11Scenario, slack time.Duration) (o c11Outcome) {
	o.sc = s
	ln := &lifeNet{}
	var pmu sync.Mutex
	var peers []*lifePeer
	firstPeer := make(chan *lifePeer, 1)
	lastPeer := make(chan *lifePeer, 1)
	libActive := s.Role == "active"
	mkPeer := func(conn net.Conn, beh lifeBehaviour) *lifePeer {
		p := newLifePeer(conn, libActive, beh)
		p.onFail = func() { ln.log("drop") }
		pmu.Lock()
		peers = append(peers, p)
		pmu.Unlock()
		return p
	}
	defer func() {
		pmu.Lock()
		for _, p := range peers {
			p.stop()
			_ = p.conn.Close()
		}
		pmu.Unlock()
		ln.waitPeers()
	}()
	// attempt numbering: without cold start, attempt 0 is the generation that fails, 1..Fails are refused,
	// Fails+1 is served. With cold start attempts 0..Fails-1 are refused and attempt Fails is served.
	firstOK, lastOK := 0, s.Fails+1
	if s.Cold {
		firstOK, lastOK = -1, s.Fails
	}
	ln.plan = func(n int) (bool, func(net.Conn)) {
		switch {
		case n == firstOK:
			return true, func(c net.Conn) { p := mkPeer(c, s.Beh); firstPeer <- p; p.run() }
		case n == lastOK:
			return true, func(c net.Conn) { p := mkPeer(c, lifeBehaviour{Kind: "serve"}); lastPeer <- p; p.run() }
		case n > lastOK:
			return true, func(c net.Conn) { mkPeer(c, lifeBehaviour{Kind: "serve"}).run() }
		}
		return false, nil
	}
	ln.onListen = func(n int, l *lifeListener) {
		switch {
		case n == firstOK:
			if c := l.deliver(); c != nil {
				p := mkPeer(c, s.Beh)
				firstPeer <- p
				p.run()
			}
		case n >= lastOK:
			if c := l.deliver(); c != nil {
				p := mkPeer(c, lifeBehaviour{Kind: "serve"})
				if n == lastOK {
					lastPeer <- p
				}
				p.run()
			}
		}
	}
	opts := c11ConnOptions(s)
	if libActive {
		opts = append(opts, hsmsss.WithActive(), hsmsss.WithDialer(ln.dial))
	} else {
		opts = append(opts, hsmsss.WithPassive(), hsmsss.WithListener(ln.listen))
	}
	cfg, err := hsmsss.NewConfig("lifepipe", 1, opts...)
	if err != nil {
		o.failNote = "config: " + err.Error()
		return
	}
	conn, err := hsmsss.New(cfg)
	if err != nil {
		o.failNote = "new: " + err.Error()
		return
	}
	closed := false
	defer func() {
		if !closed {
			_ = conn.Close()
		}
	}()
	ln.log("call.open.bg:1")
	if err := conn.Open(context.Background(), hsms.OpenBackground); err != nil {
		ln.log("ret.open.err:1")
		o.failNote = "open: " + err.Error()
		return
	}
	ln.log("ret.open.ok:1")

	var failAt time.Time
	if !s.Cold {
		var fp *lifePeer
		select {
		case fp = <-firstPeer:
		case <-time.After(5 * time.Second):
			o.failNote = "first peer connection never established"
			return
		}
		// drive the exchange that is going to fail
		needSelected := s.Beh.Cut.Exchange == "data" || s.Beh.Cut.Exchange == "linktest" || s.Beh.Kind == "stallLinktest" || s.Beh.Kind == "stallRead" || s.Beh.Kind == "stallReadShortCtx" || s.Beh.Kind == "stallFrameSel"
		if needSelected {
			if !lifeWait(5*time.Second, func() bool { return conn.State() == hsms.SelectedState }) {
				o.failNote = "first generation never reached Selected"
				return
			}
			if s.Beh.Cut.Exchange == "data" || s.Beh.Kind == "stallRead" || s.Beh.Kind == "stallReadShortCtx" {
				go func() {
					to := 2 * time.Second
					if s.Beh.Kind == "stallReadShortCtx" {
						// the CALLER gives up long before the write timeout fires: the failed write must still take
						// the dead link down (after seeded change C11f-1)
						to = 20 * time.Millisecond
					}
					ctx, cancel := context.WithTimeout(context.Background(), to)
					defer cancel()
					_, _ = conn.SendDataMessage(ctx, 1, 1, true, secs2.A("ABCD"))
				}()
			}
		}
		select {
		case failAt = <-fp.failedAt:
		case <-time.After(5 * time.Second):
			o.failNote = "the scripted failure never happened"
			return
		}
	} else {
		failAt = time.Now() // informational only; the first loop attempt is measured from dial #0's return
	}

	// expected total time: detection + sum of sleeps
	var total time.Duration
	for k := 0; k <= s.Fails; k++ {
		total += c11SpecSleep(s.Backoff, k)
	}
	budget := s.detectBound() + total + slack + 3*time.Second
	var lp *lifePeer
	select {
	case lp = <-lastPeer:
	case <-time.After(budget):
	}
	if lp != nil {
		o.recovered = lifeWait(5*time.Second, func() bool { return conn.State() == hsms.SelectedState })
	}
	atts := ln.attemptsCopy()
	o.attempts = len(atts)
	// gaps
	if s.Cold {
		for k := 1; k < len(atts) && k <= s.Fails; k++ {
			o.gaps = append(o.gaps, atts[k].At.Sub(atts[k-1].Ret))
		}
	} else {
		for k := 1; k < len(atts) && k <= s.Fails+1; k++ {
			if k == 1 {
				o.gaps = append(o.gaps, atts[1].At.Sub(failAt))
			} else {
				o.gaps = append(o.gaps, atts[k].At.Sub(atts[k-1].Ret))
			}
		}
	}
	if o.recovered {
		ctx, cancel := context.WithTimeout(context.Background(), 3*time.Second)
		rsp, err := conn.SendDataMessage(ctx, 1, 13, true, secs2.A("PING"))
		cancel()
		switch {
		case err != nil:
			o.rtErr = err.Error()
		case rsp == nil:
			o.rtErr = "nil reply without error"
		case rsp.Stream() != 1 || rsp.Function() != 14:
			o.rtErr = fmt.Sprintf("reply S%dF%d, want S1F14", rsp.Stream(), rsp.Function())
		default:
			o.rtOK = true
		}
		lifeWait(time.Second, func() bool { return conn.Metrics().Reconnecting() == 0 })
	}
	o.reconn = conn.Metrics().Reconnects()
	o.reconning = conn.Metrics().Reconnecting()
	// Close and watch for late dials
	ln.log("call.close:1")
	t0 := time.Now()
	o.closeErr = conn.Close()
	o.closeDur = time.Since(t0)
	ln.log("ret.close.ok:1")
	closed = true
	before := ln.nAttempts()
	quiet := 2*s.Backoff.T5 + 50*time.Millisecond
	if quiet > 250*time.Millisecond {
		quiet = 250 * time.Millisecond
	}
	time.Sleep(quiet)
	o.afterDial = ln.nAttempts() - before
	o.stateEnd = conn.State().String()
	lifeWait(time.Second, func() bool { return len(ln.openResources()) == 0 })
	o.openRes = ln.openResources()
	o.liveCtx = ln.liveCtxs()
	o.obs = ln.observations()
	return
}

// c11ModelScript is the model action list of a scenario (every action must be enabled: `!`).
func c11ModelScript(s c11Scenario) (string, int) {
	role := s.Role
	var a []string
	add := func(xs ...string) {
		for _, x := range xs {
			a = append(a, "!"+x)
		}
	}
	join := func(e int) {
		add(fmt.Sprintf("joinSeal:%d", e), fmt.Sprintf("joinStop:%d", e), fmt.Sprintf("joinDone:%d", e))
	}
	up := func() { // the served generation gets selected
		if role == "passive" {
			add("envAccept")
		}
		add("envSelected")
	}
	epoch := 0
	add("openEnter.bg", "openArm")
	if s.Cold {
		add("openStartFail")
		join(0)
		add("openColdDone", "loopWake:0")
	} else {
		add("openStartOk")
		// how far did the failing generation get?
		switch {
		case s.Beh.Cut.Exchange == "data" || s.Beh.Cut.Exchange == "linktest" || s.Beh.Kind == "stallLinktest" || s.Beh.Kind == "stallRead" || s.Beh.Kind == "stallReadShortCtx" || s.Beh.Kind == "stallFrameSel":
			up()
			add("envDown")
		case s.Beh.Kind == "noSelect":
			add("envAccept", "envT7")
		case s.Beh.Kind == "deselectHold":
			up()
			add("envSelectLost", "envT7")
		case s.Beh.Kind == "selectStatus1Hold":
			add("envT7")
		default: // select-phase failures: NotSelected
			if role == "passive" {
				add("envAccept")
			}
			add("envDown")
		}
		add("supStep", "reactCheck", "reactSpawn", "reactTeardown")
		join(0)
		add("loopWake:0")
	}
	fails := s.Fails
	if s.Cold {
		fails = s.Fails - 1
	}
	for k := 0; k < fails; k++ {
		epoch++
		add("loopSleep:0", "loopFence:0", "loopPublish:0", "loopStartFail:0")
		join(epoch)
		add("loopFailDone:0")
	}
	epoch++
	add("loopSleep:0", "loopFence:0", "loopPublish:0", "loopStartOk:0")
	up()
	return role + " " + strings.Join(a, " "), epoch
}

func c11CloseScript(lastEpoch int) string {
	e := lastEpoch
	return fmt.Sprintf(" !closeEnter !closeRequest !supStep !reactCheck !reactTeardown !closeTeardown !joinSeal:%d !joinStop:%d !joinDone:%d !closeEpochDone !supExit !closeSupDone !closeLoopsDone", e, e, e)
}

func c11Judge(c *Ctx, o c11Outcome, slack time.Duration) {
	s := o.sc
	c.Count(s.key(), true)
	c.Stat("e2e:role:" + s.Role)
	if s.Cold {
		c.Stat("e2e:kind:coldStart")
	} else if s.Beh.Kind == "cut" {
		c.Stat("e2e:cut:" + s.Beh.Cut.Exchange + ":" + s.Beh.Cut.Dir)
	} else {
		c.Stat("e2e:kind:" + s.Beh.Kind)
	}
	c.Stat(fmt.Sprintf("e2e:failed-redials:%d", s.Fails))
	c.Stat(fmt.Sprintf("e2e:backoff:%v/x%v/T5=%v", s.Backoff.Initial, s.Backoff.Mult, s.Backoff.T5))
	gapsMs := make([]float64, len(o.gaps))
	for i, g := range o.gaps {
		gapsMs[i] = float64(g.Microseconds()) / 1000
	}
	rep := map[string]any{"scenario": s, "gaps_ms": gapsMs, "attempts": o.attempts, "recovered": o.recovered, "round_trip_ok": o.rtOK, "round_trip_err": o.rtErr,
		"reconnects": o.reconn, "reconnecting": o.reconning, "state_after_close": o.stateEnd, "dials_after_close": o.afterDial, "open_resources": o.openRes,
		"observations": o.obs, "close_ms": o.closeDur.Milliseconds(), "note": o.failNote}
	if o.failNote != "" {
		c.Violate("property", "c11-scenario-setup", "scenario could not be driven: "+o.failNote, rep)
		return
	}
	// --- property oracles on the implementation ---
	if !o.recovered {
		c.Violate("property", "no-recovery", fmt.Sprintf("%s connection did not return to Selected after %s (attempts seen %d, want %d)", s.Role, s.Beh.Kind, o.attempts, s.Fails+2), rep)
		return
	}
	if !o.rtOK {
		c.Violate("property", "post-recovery-round-trip", "recovered session does not carry a primary/secondary round trip: "+o.rtErr, rep)
	}
	wantAttempts := s.Fails + 2
	wantReconn := uint64(1)
	if s.Cold {
		wantAttempts, wantReconn = s.Fails+1, 0
	}
	if o.attempts != wantAttempts {
		c.Violate("property", "dial-count", fmt.Sprintf("%d dial/listen attempts, want %d", o.attempts, wantAttempts), rep)
	}
	if o.reconn != wantReconn {
		c.Violate("property", "reconnect-counter", fmt.Sprintf("Reconnects() = %d after one involuntary loss and %d failed re-dials, want %d", o.reconn, s.Fails, wantReconn), rep)
	}
	if o.reconning != 0 {
		c.Violate("property", "reconnecting-gauge", fmt.Sprintf("Reconnecting() = %d after recovery", o.reconning), rep)
	}
	if o.afterDial != 0 {
		c.Violate("property", "dial-after-close", fmt.Sprintf("%d dial/listen attempts after Close returned", o.afterDial), rep)
	}
	if o.stateEnd != hsms.NotConnectedState.String() {
		c.Violate("property", "state-after-close-not-notconnected", "State() == "+o.stateEnd+" after Close returned", rep)
	}
	if len(o.openRes) != 0 {
		c.Violate("property", "resource-left-open", fmt.Sprintf("harness-owned %v not closed after Close", o.openRes), rep)
	}
	if o.liveCtx != 0 {
		c.Violate("property", "generation-not-torn-down", fmt.Sprintf("%d generation contexts still live after Close", o.liveCtx), rep)
	}
	for k, g := range o.gaps {
		want := c11SpecSleep(s.Backoff, k)
		lo := want * 8 / 10
		hi := want + slack
		if k == 0 && !s.Cold {
			hi += s.detectBound()
		}
		if g < lo {
			c.Violate("property", "backoff-too-short", fmt.Sprintf("re-dial %d came %v after the previous failure; the backoff at that attempt is %v", k, g, want), rep)
		}
		if g > hi {
			c.Violate("property", "backoff-too-long", fmt.Sprintf("re-dial %d came %v after the previous failure; the backoff at that attempt is %v (T5 %v)", k, g, want, s.Backoff.T5), rep)
		}
	}
	// --- correspondence with the model ---
	if c.Lean == nil {
		return
	}
	if len(o.gaps) > 0 {
		model, _ := c11ModelSleeps(c, s.Backoff, len(o.gaps))
		rep["model_sleeps_ns"] = model
		for k, g := range o.gaps {
			if k >= len(model) {
				break
			}
			hi := model[k] + slack
			if k == 0 && !s.Cold {
				hi += s.detectBound()
			}
			if g < model[k]*8/10 || g > hi {
				c.Violate("correspondence", "dial-gap-vs-model-sleep", fmt.Sprintf("re-dial %d gap %v, model sleep %v", k, g, model[k]), rep)
			}
		}
	}
	script, last := c11ModelScript(s)
	got := c.Lean.Ask("life.run " + script)
	want := fmt.Sprintf("st=S idle=1 shutdown=0 dials=%d reconnects=%d liveloops=0", o.attempts, o.reconn)
	if !strings.HasPrefix(got, want) {
		rep["model_script"] = script
		c.Violate("correspondence", "recovered-state-vs-model", fmt.Sprintf("implementation: %s ; model: %s", want, got), rep)
	}
	got2 := c.Lean.Ask("life.run " + script + c11CloseScript(last))
	want2 := fmt.Sprintf("st=NC idle=1 shutdown=1 dials=%d reconnects=%d liveloops=0 undone=0 owner=0 sup=exited", o.attempts, o.reconn)
	if !strings.Contains(got2, want2) {
		c.Violate("correspondence", "closed-state-vs-model", fmt.Sprintf("implementation: %s ; model: %s", want2, got2), rep)
	}
	role := s.Role
	h := c.Lean.Ask("life.hist " + role + " " + strings.Join(o.obs, " "))
	c.Res.Traces++
	if !strings.HasPrefix(h, "ok") {
		c.Violate("correspondence", "history-not-a-model-trace", "observed history rejected by the model: "+h, rep)
	}
}

func runC11EndToEnd(c *Ctx) {
	scs := append(c11Scenarios(c), c11S1Scenarios(c)...)
	for i := range scs {
		scs[i].ID = i
	}
	slack := 1500 * time.Millisecond
	if c.Thorough() {
		slack = 2500 * time.Millisecond
	}
	par := 12
	outs := make([]c11Outcome, len(scs))
	var wg sync.WaitGroup
	sem := make(chan struct{}, par)
	for i := range scs {
		wg.Add(1)
		sem <- struct{}{}
		go func(i int) {
			defer wg.Done()
			defer func() { <-sem }()
			defer func() {
				if p := recover(); p != nil {
					outs[i].sc = scs[i]
					outs[i].failNote = fmt.Sprint("panic: ", p)
				}
			}()
			if scs[i].Transport == "secs1" {
				outs[i] = c11RunS1Scenario(scs[i], slack)
			} else {
				outs[i] = c11RunScenario(scs[i], slack)
			}
		}(i)
	}
	wg.Wait()
	reproduced := 0
	for i, o := range outs {
		// an outcome that would be reported is first reproduced ALONE (the parallel batch itself loads the machine;
		// a thorough sweep at load average 60 produced a "scripted failure never happened" setup alarm), twice at most
		for attempt := 0; attempt < 2; attempt++ {
			sc := c.Scratch()
			c11Judge(sc, o, slack)
			if !sc.Failed() || reproduced >= 8 {
				break // (a systematic failure is not reproduced case by case: the first eight are enough)
			}
			reproduced++
			c.Stat("e2e:reproduced-alone")
			func() {
				defer func() {
					if p := recover(); p != nil {
						o = c11Outcome{sc: scs[i], failNote: fmt.Sprint("panic: ", p)}
					}
				}()
				if scs[i].Transport == "secs1" {
					o = c11RunS1Scenario(scs[i], slack)
				} else {
					o = c11RunScenario(scs[i], slack)
				}
			}()
			outs[i] = o
		}
		c11Judge(c, o, slack)
	}
	for i, o := range outs {
		if i%37 == 0 && len(c.Res.Samples) < 8 {
			g := make([]string, len(o.gaps))
			for k, d := range o.gaps {
				g[k] = d.Round(time.Millisecond).String()
			}
			c.Sample(map[string]any{"kind": "end-to-end", "scenario": o.sc, "redial_gaps": g, "reconnects": o.reconn, "recovered": o.recovered})
		}
	}
	if left := lifeWaitNoLibGoroutines(3 * time.Second); len(left) != 0 {
		c.Violate("property", "goroutine-left-after-close", fmt.Sprintf("%d library goroutines still running after every connection was closed", len(left)),
			map[string]any{"stacks": left})
	}
}

func runC11(c *Ctx) {
	runC11Function(c)
	runC11Sequences(c)
	runC11EndToEnd(c)
}
