package main

// C18 against a scripted peer on a real secs1 connection (net.Pipe):
//  (a) retransmissions — the peer treats the connection's ACK as lost and sends the block it just sent once more:
//      a lone block numbered 0 with the E-bit (legal per E4; this library's own sender numbers single blocks 1),
//      a single block numbered 1, and the last block of a two-block message. Every message is delivered exactly once.
//      Added after seeded change C18g-2 (a fast path for block 0 skipping the duplicate-detection state).
//  (b) a slow line — a full 244-byte block arriving in pieces, every gap below T1 but the whole block taking far
//      longer than T1: T1 is the inter-character timeout, so the block is ACKed and its message delivered once.
//      Added after seeded change C17g-1 (T1 armed once for the whole block).

import (
	"bytes"
	"encoding/hex"
	"fmt"
	"strings"
	"time"

	"github.com/arloliu/go-secs/v2/secs1"
	"github.com/arloliu/go-secs/v2/secs2"
)

func c18Retransmit(c *Ctx) {
	for _, isEquip := range []bool{false, true} {
		tag := fmt.Sprintf("equip=%v", isEquip)
		e, err := newS1Endpoint(isEquip, !isEquip, 0x0123)
		if err != nil {
			c.Violate("correspondence", "peer-setup", "cannot bring a real secs1 connection up over net.Pipe ("+tag+"): "+err.Error(), map[string]any{"role": tag})
			continue
		}
		c18RetransmitRole(c, e, tag)
		e.close()
	}
}

func c18RetransmitRole(c *Ctx, e *s1Endpoint, tag string) {
	base := len(e.deliveries())
	to := !e.isEquip
	sys := uint32(0x7100)
	mk := func(stream, fn uint8) secs1.VerifHeader {
		sys++
		return secs1.VerifHeader{DeviceID: e.dev, RBit: to, Stream: stream, Function: fn,
			SystemBytes: [4]byte{byte(sys >> 24), byte(sys >> 16), byte(sys >> 8), byte(sys)}}
	}
	item := func(n int, fill byte) []byte { return secs2.NewBinaryItem(bytes.Repeat([]byte{fill}, n)).ToBytes() }
	type step struct {
		b     secs1.VerifBlock
		what  string
		paced bool
	}
	var script []step
	b0 := secs1.VerifBlock{Header: secs1.VerifBuildHeader(mk(1, 3), 0, true), Body: item(4, 0x51)}
	script = append(script, step{b0, "block0-E", false}, step{b0, "retransmission-of-block0-E", false})
	b1 := secs1.VerifBlock{Header: secs1.VerifBuildHeader(mk(1, 5), 1, true), Body: item(6, 0x52)}
	script = append(script, step{b1, "single", false}, step{b1, "retransmission-of-single", false}, step{b1, "second-retransmission-of-single", false})
	h2 := mk(6, 11)
	bs2, _ := secs1.VerifSplitBody(item(300, 0x53), h2)
	script = append(script, step{bs2[0], "multi-1", false}, step{bs2[0], "retransmission-of-multi-1", false}, step{bs2[1], "multi-2", false}, step{bs2[1], "retransmission-of-multi-2", false})
	// a second lone block 0 with different system bytes is a NEW message
	b0b := secs1.VerifBlock{Header: secs1.VerifBuildHeader(mk(1, 3), 0, true), Body: item(4, 0x54)}
	script = append(script, step{b0b, "another-block0-E", false}, step{b0b, "retransmission-of-another-block0-E", false})
	// slow line: full blocks in pieces
	h3 := mk(7, 1)
	bs3, _ := secs1.VerifSplitBody(item(400, 0x55), h3)
	script = append(script, step{bs3[0], "paced-multi-1", true}, step{bs3[1], "paced-multi-2", true})

	ref := &e4Ref{isEquip: e.isEquip, dev: e.dev, t4: int64(30 * time.Second)}
	var want [][]byte
	var ops []string
	for i, s := range script {
		ops = append(ops, s.what)
		w := secs1.VerifAppendTo(nil, s.b)
		var ans byte
		if s.paced {
			ans = e.peer.sendWirePaced(w, 7, 60*time.Millisecond) // T1 = 150 ms (newS1Endpoint); 6 gaps of 60 ms = 360 ms
		} else {
			ans = e.peer.sendWire(w)
		}
		c.Count(fmt.Sprintf("retransmit|%s|%d|%s", tag, i, s.what), true)
		c.Stat("retransmit:" + s.what)
		replay := map[string]any{"role": tag, "step": i, "what": s.what, "script": ops, "line": e.peer.lineLog}
		if ans != 0x06 {
			if s.paced {
				// a machine so slow that a 60 ms pause became 150 ms: try once more with nothing else to conclude
				c.Stat("retransmit:paced-retry")
				ans = e.peer.sendWirePaced(w, 7, 60*time.Millisecond)
			}
			if ans != 0x06 {
				what := "peer-valid-block-not-acked"
				if s.paced {
					what = "slow-block-not-acked"
				}
				c.Violate("property", what, fmt.Sprintf("step %d (%s): an intact, correctly addressed block was answered %#02x, want ACK", i, s.what, ans), replay)
				continue
			}
		}
		if f := ref.step(0, s.b); f != nil {
			want = append(want, f)
		}
	}
	e.peer.serveUntil(func() bool { return len(e.deliveries())-base >= len(want) }, 5*time.Second)
	e.peer.serveUntil(func() bool { return false }, 150*time.Millisecond)
	got := e.deliveries()[base:]
	var gs, ws []string
	for _, g := range got {
		gs = append(gs, hex.EncodeToString(g.frame))
	}
	for _, w := range want {
		ws = append(ws, hex.EncodeToString(w))
	}
	if strings.Join(gs, ";") != strings.Join(ws, ";") {
		what := "retransmission-delivered-twice"
		if len(gs) <= len(ws) {
			what = "peer-deliveries-not-per-E4"
		}
		c.Violate("property", what, fmt.Sprintf("the peer retransmitted blocks the connection had ACKed: handler saw %d messages, E4 says %d: got %s want %s", len(gs), len(ws),
			s1clip(strings.Join(gs, ";"), 300), s1clip(strings.Join(ws, ";"), 300)), map[string]any{"role": tag, "script": ops, "line": e.peer.lineLog})
	}
}

// sendWirePaced is sendWire with the block written in `pieces` pieces separated by `gap`.
func (p *s1RawPeer) sendWirePaced(w []byte, pieces int, gap time.Duration) byte {
	for attempt := 0; attempt < 4; attempt++ {
		if p.write(0x05) != nil {
			return 0
		}
		granted := false
		deadline := time.Now().Add(p.t2)
		for !granted && time.Now().Before(deadline) {
			b, ok := p.readByte(time.Until(deadline))
			if !ok {
				break
			}
			switch {
			case b == 0x04:
				granted = true
			case b == 0x05 && !p.master:
				p.grantAndReceive()
				deadline = time.Now()
			}
		}
		if !granted {
			continue
		}
		n := (len(w) + pieces - 1) / pieces
		for off := 0; off < len(w); off += n {
			if off > 0 {
				time.Sleep(gap)
			}
			if p.write(w[off:min(off+n, len(w))]...) != nil {
				return 0
			}
		}
		for {
			b, ok := p.readByte(p.t2)
			if !ok {
				return 0
			}
			if b == 0x06 || b == 0x15 {
				p.logf("peer: -> paced block %x… answer %02x", w[1:min(11, len(w))], b)
				return b
			}
		}
	}
	return 0
}
