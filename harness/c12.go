package main

// C12 — items and messages are immutable, alias-free and safe for concurrent readers.
//
// ALIAS PROBING in function mode (tie T2 of DESIGN §5 C12): for every concrete item type x provenance
// (constructed through each argument shape / Decode / DecodeOwned on a harness-owned copy / list children /
// message bodies) x size class, snapshot EVERY observation, then flip every slice that was handed to a constructor
// or a copying decode entry point and every slice returned by any accessor / serializer / append helper (including
// the spare capacity of returned slices and of the caller's append buffer), re-observing after each step: any
// difference is a `property` violation what=alias-…. The same for HSMS messages and their re-stamped / derived
// copies. A random operation-sequence part replays the Lean region model (`own.run`) against real BinaryItems.
// Concurrency: N goroutines perform first calls of the lazy paths and all accessors; every observation must equal a
// sequential reference, the lazy decode must be shared (one item pointer for all copies and callers) and a counted
// item body must be encoded exactly once. In a race-instrumented build that part runs in a child process and a race
// report becomes what=data-race.

import (
	"bytes"
	"encoding/hex"
	"fmt"
	"math"
	"math/rand/v2"
	"os"
	"os/exec"
	"path/filepath"
	"reflect"
	"runtime/debug"
	"strconv"
	"strings"
	"sync"
	"sync/atomic"
	"time"

	"encoding/json"

	"github.com/arloliu/go-secs/v2/hsms"
	"github.com/arloliu/go-secs/v2/secs2"
)

func init() {
	register("C12", "alias probing: 16 item kinds x size classes {0,1,2,many,255/256} x constructor argument shapes (typed slices of every Go "+
		"type, scalars, strings, mixed) x provenance (constructed / Decode / DecodeOwned / list child / message body) x every "+
		"accessor, serializer and append helper, mutating every input and every returned slice incl. spare capacity; HSMS data and "+
		"control messages x construction / three decode entry points / UnmarshalBinary x re-stamped and derived copies; random "+
		"region-model operation sequences; concurrent first calls of lazy paths by 8..32 goroutines. distinct = provenance + shape + "+
		"protocol text of the logical item (or message header+body); non-trivial = the item has at least one element or the message a body",
		runC12)
}

// ---------- observation ----------

type c12Obs []string // "name=value" entries in a fixed order

func (o c12Obs) diff(p c12Obs) string {
	for i := range o {
		if i >= len(p) {
			return "missing " + clip(o[i], 80)
		}
		if o[i] != p[i] {
			return fmt.Sprintf("%s  (was %s)", clip(p[i], 160), clip(o[i], 160))
		}
	}
	if len(p) != len(o) {
		return "extra entries"
	}
	return ""
}

func c12Err(err error) string {
	if err == nil {
		return "ok"
	}
	return "err:" + err.Error()
}

func c12F64s(vs []float64) string {
	var sb strings.Builder
	for _, v := range vs {
		if v != v {
			sb.WriteString("nan ")
		} else {
			sb.WriteString(strconv.FormatUint(math.Float64bits(v), 16) + " ")
		}
	}
	return sb.String()
}

// c12Indexes: the element indexes probed by the …At accessors (all for small items, ends for large).
func c12Indexes(n int) []int {
	idx := []int{-1}
	if n <= 12 {
		for i := 0; i < n; i++ {
			idx = append(idx, i)
		}
	} else {
		idx = append(idx, 0, 1, 2, n/2, n-2, n-1)
	}
	return append(idx, n, n+1)
}

// c12Observe calls every accessor of the Item interface and renders the results.
func c12Observe(it secs2.Item) c12Obs {
	var o c12Obs
	add := func(name string, format string, a ...any) { o = append(o, name+"="+fmt.Sprintf(format, a...)) }
	add("Describe", "%s", Describe(it))
	add("Type", "%s", it.Type())
	add("Size", "%d", it.Size())
	add("Error", "%s", c12Err(it.Error()))
	add("Is", "%v", []bool{it.IsEmpty(), it.IsList(), it.IsBinary(), it.IsBoolean(), it.IsASCII(), it.IsJIS8(), it.IsLocalizedStr(),
		it.IsInt8(), it.IsInt16(), it.IsInt32(), it.IsInt64(), it.IsUint8(), it.IsUint16(), it.IsUint32(), it.IsUint64(), it.IsFloat32(), it.IsFloat64()})
	add("EncodedLen", "%d", it.EncodedLen())
	add("ToBytes", "%s", hexs(it.ToBytes()))
	add("AppendTo(nil)", "%s", hexs(it.AppendTo(nil)))
	pre := []byte{0xA5, 0x5A}
	add("AppendTo(pre)", "%s", hexs(it.AppendTo(append(make([]byte, 0, 2+it.EncodedLen()), pre...))))
	add("AppendBinaryTo(nil)", "%s", hexs(it.AppendBinaryTo(nil)))
	add("ToSML", "%s", it.ToSML())
	n := it.Size()
	{
		v, err := it.ToBinary()
		add("ToBinary", "%s %s", hexs(v), c12Err(err))
	}
	{
		v, err := it.ToBoolean()
		add("ToBoolean", "%v %s", v, c12Err(err))
	}
	{
		v, err := it.ToASCII()
		add("ToASCII", "%q %s", v, c12Err(err))
	}
	{
		v, err := it.ToJIS8()
		add("ToJIS8", "%q %s", v, c12Err(err))
	}
	{
		v, err := it.ToLocalizedStr()
		h, err2 := it.ToLocalizedStrHeader()
		add("ToLocalizedStr", "%q %s %d %s", v, c12Err(err), h, c12Err(err2))
	}
	{
		v, err := it.ToInt()
		add("ToInt", "%v %s", v, c12Err(err))
	}
	{
		v, err := it.ToUint()
		add("ToUint", "%v %s", v, c12Err(err))
	}
	{
		v, err := it.ToFloat()
		add("ToFloat", "%s %s", c12F64s(v), c12Err(err))
	}
	{
		kids, err := it.ToList()
		var sb strings.Builder
		for _, k := range kids {
			sb.WriteString(Describe(k) + ";")
		}
		add("ToList", "%d %s %s", len(kids), sb.String(), c12Err(err))
	}
	var at strings.Builder
	for _, i := range c12Indexes(n) {
		b, e1 := it.ByteAt(i)
		o1, e2 := it.BoolAt(i)
		i1, e3 := it.IntAt(i)
		u1, e4 := it.UintAt(i)
		f1, e5 := it.FloatAt(i)
		k, e6 := it.ItemAt(i)
		kd := "-"
		if k != nil {
			kd = Describe(k)
		}
		fmt.Fprintf(&at, "[%d:%d%v %v%v %d%v %d%v %s%v %s%v]", i, b, e1 == nil, o1, e2 == nil, i1, e3 == nil, u1, e4 == nil,
			c12F64s([]float64{f1}), e5 == nil, kd, e6 == nil)
	}
	add("At", "%s", at.String())
	{
		var sb strings.Builder
		for k := range it.Items() {
			sb.WriteString(Describe(k) + ";")
		}
		add("Items", "%s", sb.String())
		var bs []bool
		for v := range it.Bools() {
			bs = append(bs, v)
		}
		var is []int64
		for v := range it.Ints() {
			is = append(is, v)
		}
		var us []uint64
		for v := range it.Uints() {
			us = append(us, v)
		}
		var fs []float64
		for v := range it.Floats() {
			fs = append(fs, v)
		}
		add("Iter", "%v %v %v %s", bs, is, us, c12F64s(fs))
	}
	{
		g0, e0 := it.Get()
		d0 := "-"
		if g0 != nil {
			d0 = Describe(g0)
		}
		g1, e1 := it.Get(0)
		d1 := "-"
		if g1 != nil {
			d1 = Describe(g1)
		}
		g2, e2 := it.Get(0, 0)
		d2 := "-"
		if g2 != nil {
			d2 = Describe(g2)
		}
		add("Get", "%s %v | %s %v | %s %v", d0, e0 == nil, d1, e1 == nil, d2, e2 == nil)
	}
	return o
}

// ---------- mutation helpers ----------

var c12Decoy = secs2.NewASCIIItem("ALIASED")

// c12Flip overwrites every element (over the FULL capacity) of any slice with a different value.
func c12Flip(slice any) {
	switch s := slice.(type) {
	case []byte:
		s = s[:cap(s)]
		for i := range s {
			s[i] ^= 0xFF
		}
		return
	case []secs2.Item:
		s = s[:cap(s)]
		for i := range s {
			if i%3 == 2 {
				s[i] = nil
			} else {
				s[i] = c12Decoy
			}
		}
		return
	case []any:
		s = s[:cap(s)]
		for i := range s {
			s[i] = 0x5A // different from what was there (slices held as elements are flipped by their own mutator)
		}
		return
	}
	v := reflect.ValueOf(slice)
	if v.Kind() != reflect.Slice {
		return
	}
	v = v.Slice(0, v.Cap())
	for i := 0; i < v.Len(); i++ {
		e := v.Index(i)
		switch e.Kind() {
		case reflect.Int, reflect.Int8, reflect.Int16, reflect.Int32, reflect.Int64:
			e.SetInt(^e.Int())
		case reflect.Uint, reflect.Uint8, reflect.Uint16, reflect.Uint32, reflect.Uint64:
			e.SetUint(^e.Uint() & (1<<(8*uint(e.Type().Size())-1)<<1 - 1))
		case reflect.Bool:
			e.SetBool(!e.Bool())
		case reflect.Float32, reflect.Float64:
			e.SetFloat(-(e.Float() + 1.5))
		case reflect.String:
			e.SetString("77")
		}
	}
}

// ---------- building items while keeping hold of every argument slice ----------

type c12Built struct {
	item  secs2.Item
	muts  []func() // each flips one slice that was handed to a constructor
	nargs int
}

type c12Integer interface {
	~int | ~int8 | ~int16 | ~int32 | ~int64 | ~uint | ~uint8 | ~uint16 | ~uint32 | ~uint64
}

func c12Typed[T c12Integer, S int64 | uint64](vs []S) any {
	s := make([]T, len(vs), len(vs)+2)
	for i, v := range vs {
		s[i] = T(v)
	}
	return s
}

// c12IntSlices returns every typed slice representation able to hold vs exactly.
func c12IntSlices(lo, hi int64, vs []int64) []any {
	var out []any
	fits := func(a, b int64) bool { return lo >= a && hi <= b }
	if fits(math.MinInt8, math.MaxInt8) {
		out = append(out, c12Typed[int8](vs))
	}
	if fits(math.MinInt16, math.MaxInt16) {
		out = append(out, c12Typed[int16](vs))
	}
	if fits(math.MinInt32, math.MaxInt32) {
		out = append(out, c12Typed[int32](vs))
	}
	out = append(out, c12Typed[int](vs), c12Typed[int64](vs))
	if fits(0, math.MaxUint8) {
		out = append(out, c12Typed[uint8](vs))
	}
	if fits(0, math.MaxUint16) {
		out = append(out, c12Typed[uint16](vs))
	}
	if fits(0, math.MaxUint32) {
		out = append(out, c12Typed[uint32](vs))
	}
	if fits(0, math.MaxInt64) {
		out = append(out, c12Typed[uint](vs), c12Typed[uint64](vs))
	}
	return out
}

func c12UintSlices(hi uint64, vs []uint64) []any {
	var out []any
	if hi <= math.MaxInt8 {
		out = append(out, c12Typed[int8](vs))
	}
	if hi <= math.MaxInt16 {
		out = append(out, c12Typed[int16](vs))
	}
	if hi <= math.MaxInt32 {
		out = append(out, c12Typed[int32](vs))
	}
	if hi <= math.MaxInt64 {
		out = append(out, c12Typed[int](vs), c12Typed[int64](vs))
	}
	if hi <= math.MaxUint8 {
		out = append(out, c12Typed[uint8](vs))
	}
	if hi <= math.MaxUint16 {
		out = append(out, c12Typed[uint16](vs))
	}
	if hi <= math.MaxUint32 {
		out = append(out, c12Typed[uint32](vs))
	}
	return append(out, c12Typed[uint](vs), c12Typed[uint64](vs))
}

const c12Shapes = 5

// c12Args turns one candidate typed slice + the scalar view of the same values into an argument list per shape:
// 0 one typed slice, 1 scalars, 2 a differently typed slice, 3 strings ([]string or scalar strings), 4 slice+scalars+slice.
func c12Args(r *rand.Rand, shape int, slices []any, scalars []any, strs []string) []any {
	n := len(scalars)
	pick := func() any {
		s := slices[r.IntN(len(slices))]
		// a private copy per use so every argument has its own backing array
		v := reflect.ValueOf(s)
		c := reflect.MakeSlice(v.Type(), v.Len(), v.Len()+1)
		reflect.Copy(c, v)
		return c.Interface()
	}
	sub := func(s any, a, b int) any { return reflect.ValueOf(s).Slice(a, b).Interface() }
	switch shape {
	case 0:
		return []any{slices[len(slices)-1]}
	case 1:
		return append(make([]any, 0, n+1), scalars...)
	case 2:
		return []any{pick()}
	case 3:
		if strs == nil {
			return []any{pick()}
		}
		if r.IntN(2) == 0 {
			return []any{append([]string(nil), strs...)}
		}
		out := make([]any, n)
		for i := range strs {
			out[i] = strs[i]
		}
		return out
	default:
		if n < 3 {
			return []any{pick()}
		}
		a, b := n/3, 2*n/3
		out := []any{sub(pick(), 0, a)}
		out = append(out, scalars[a:b]...)
		return append(out, sub(pick(), b, n))
	}
}

func c12BuildItem(r *rand.Rand, it *LItem, shape int) c12Built {
	var b c12Built
	track := func(args []any) []any {
		b.nargs += len(args)
		for _, a := range args {
			if a != nil && reflect.TypeOf(a).Kind() == reflect.Slice {
				a := a
				b.muts = append(b.muts, func() { c12Flip(a) })
			}
		}
		b.muts = append(b.muts, func() { c12Flip(args) }) // the variadic backing array itself
		return args
	}
	switch it.Kind {
	case "E":
		b.item = secs2.NewEmptyItem()
	case "L":
		kids := make([]secs2.Item, 0, len(it.Kids)+2)
		for _, k := range it.Kids {
			kb := c12BuildItem(r, k, shape)
			kids = append(kids, kb.item)
			b.muts = append(b.muts, kb.muts...)
			b.nargs += kb.nargs
		}
		if shape%2 == 0 {
			b.item = secs2.NewListItem(kids...)
		} else {
			b.item = secs2.L(kids...)
		}
		b.muts = append(b.muts, func() { c12Flip(kids) })
	case "A":
		b.item = secs2.NewASCIIItem(string(it.Bytes))
	case "J":
		b.item = secs2.NewJIS8Item(string(it.Bytes))
	case "W":
		b.item = secs2.NewLocalizedStrItem(it.LSH, string(it.Bytes))
	case "B":
		n := len(it.Bytes)
		scal := make([]any, n)
		strs := make([]string, n)
		for i, v := range it.Bytes {
			if i%2 == 0 {
				scal[i] = v
			} else {
				scal[i] = int(v)
			}
			strs[i] = fmt.Sprintf("0x%x", v)
		}
		var args []any
		if shape == 3 { // NewBinaryItem takes scalar strings only
			args = make([]any, n)
			for i := range strs {
				args[i] = strs[i]
			}
		} else {
			own := append(make([]byte, 0, n+3), it.Bytes...)
			args = c12Args(r, shape, []any{own}, scal, nil)
		}
		if shape%2 == 0 {
			b.item = secs2.NewBinaryItem(track(args)...)
		} else {
			b.item = secs2.B(track(args)...)
		}
	case "O":
		n := len(it.Bytes)
		bs := make([]bool, n, n+2)
		scal := make([]any, n)
		for i, v := range it.Bytes {
			bs[i] = v != 0
			scal[i] = v != 0
		}
		args := c12Args(r, shape, []any{bs}, scal, nil)
		if shape%2 == 0 {
			b.item = secs2.NewBooleanItem(track(args)...)
		} else {
			b.item = secs2.BOOLEAN(track(args)...)
		}
	case "I":
		lo, hi := int64(0), int64(0)
		scal := make([]any, len(it.Ints))
		strs := make([]string, len(it.Ints))
		for i, v := range it.Ints {
			lo, hi = min(lo, v), max(hi, v)
			scal[i] = v
			if i%2 == 1 {
				scal[i] = int(v)
			}
			strs[i] = strconv.FormatInt(v, 10)
		}
		b.item = secs2.NewIntItem(it.W, track(c12Args(r, shape, c12IntSlices(lo, hi, it.Ints), scal, strs))...)
	case "U":
		hi := uint64(0)
		scal := make([]any, len(it.Uints))
		strs := make([]string, len(it.Uints))
		for i, v := range it.Uints {
			hi = max(hi, v)
			scal[i] = v
			if i%2 == 1 {
				scal[i] = uint(v)
			}
			strs[i] = "0x" + strconv.FormatUint(v, 16)
		}
		b.item = secs2.NewUintItem(it.W, track(c12Args(r, shape, c12UintSlices(hi, it.Uints), scal, strs))...)
	case "F":
		n := len(it.Bits)
		f64 := make([]float64, n, n+1)
		f32 := make([]float32, n, n+1)
		scal := make([]any, n)
		for i, bits := range it.Bits {
			if it.W == 4 {
				f32[i] = math.Float32frombits(uint32(bits))
				f64[i] = float64(f32[i])
				scal[i] = f32[i]
				if i%2 == 1 {
					scal[i] = f64[i]
				}
			} else {
				f64[i] = math.Float64frombits(bits)
				scal[i] = f64[i]
			}
		}
		sl := []any{f64}
		if it.W == 4 {
			sl = []any{f64, f32}
		}
		b.item = secs2.NewFloatItem(it.W, track(c12Args(r, shape, sl, scal, nil))...)
	default:
		panic("c12: bad kind " + it.Kind)
	}
	return b
}

// ---------- scribbling over everything an item hands out ----------

type c12Step struct {
	name string
	fn   func()
}

func c12ScribbleSteps(it secs2.Item, depth int) []c12Step {
	var st []c12Step
	add := func(name string, fn func()) { st = append(st, c12Step{name, fn}) }
	add("ToBytes", func() { c12Flip(it.ToBytes()) })
	add("AppendTo(nil)", func() { c12Flip(it.AppendTo(nil)) })
	add("AppendTo(spare)", func() {
		buf := make([]byte, 3, 3+it.EncodedLen()+9)
		out := it.AppendTo(buf)
		c12Flip(out)
		c12Flip(buf)
	})
	add("AppendTo(tight)", func() {
		buf := []byte{1, 2, 3}
		out := it.AppendTo(buf[:3:3])
		c12Flip(out)
		c12Flip(buf)
	})
	add("AppendBinaryTo", func() {
		c12Flip(it.AppendBinaryTo(nil))
		buf := make([]byte, 2, 2+it.Size()+5)
		out := it.AppendBinaryTo(buf)
		c12Flip(out)
		c12Flip(buf)
	})
	add("ToBinary", func() { v, _ := it.ToBinary(); c12Flip(v) })
	add("ToBoolean", func() { v, _ := it.ToBoolean(); c12Flip(v) })
	add("ToInt", func() { v, _ := it.ToInt(); c12Flip(v) })
	add("ToUint", func() { v, _ := it.ToUint(); c12Flip(v) })
	add("ToFloat", func() { v, _ := it.ToFloat(); c12Flip(v) })
	add("Get(indices)", func() {
		idx := []int{0, 0}
		_, _ = it.Get(idx...)
		_, _ = it.Get(idx[:1]...)
		idx[0], idx[1] = 7, 9
	})
	if it.IsList() {
		kids, _ := it.ToList()
		live := append([]secs2.Item(nil), kids...)
		add("ToList", func() { c12Flip(kids) })
		if depth < 3 {
			for i, k := range live {
				if i >= 6 || k == nil {
					break
				}
				for _, s := range c12ScribbleSteps(k, depth+1) {
					add(fmt.Sprintf("child[%d].%s", i, s.name), s.fn)
				}
			}
		}
	}
	return st
}

// c12Probe: observe, mutate inputs, scribble outputs, re-observing after each step when fine is set.
// want is the canonical text the accessors must render (empty = do not check against a reference).
func c12Probe(c *Ctx, it secs2.Item, inputs []func(), noInputFlip bool, prov, kind, want string, fine bool, replay map[string]any) bool {
	var before c12Obs
	if p := safely(func() { before = c12Observe(it) }); p != nil {
		c.Violate("property", "accessor-panic-"+prov, fmt.Sprintf("an accessor panicked: %v", p), replay)
		return false
	}
	if want != "" && before[0] != "Describe="+want {
		c.Violate("property", "observed-values-"+prov+"-"+kind, "accessors do not render the supplied values: "+clip(before[0], 300), replay)
		return false
	}
	ok := true
	check := func(stage string) {
		var after c12Obs
		if p := safely(func() { after = c12Observe(it) }); p != nil {
			c.Violate("property", "accessor-panic-"+prov, fmt.Sprintf("an accessor panicked after %s: %v", stage, p), replay)
			ok = false
			return
		}
		if d := before.diff(after); d != "" {
			r := map[string]any{"after": stage}
			for k, v := range replay {
				r[k] = v
			}
			c.Violate("property", "alias-"+stage+"-"+kind+"-"+prov,
				fmt.Sprintf("observation changed after the caller mutated %s: %s", stage, d), r)
			ok = false
		}
	}
	if !noInputFlip {
		for _, m := range inputs {
			m()
		}
		if len(inputs) > 0 {
			check("input")
			c.StatN("mutations:input-slices", len(inputs))
		}
	}
	steps := c12ScribbleSteps(it, 0)
	for _, s := range steps {
		if p := safely(s.fn); p != nil {
			c.Violate("property", "accessor-panic-"+prov, fmt.Sprintf("%s panicked: %v", s.name, p), replay)
			return false
		}
		if fine && ok {
			name := s.name
			if i := strings.Index(name, "."); i >= 0 && strings.HasPrefix(name, "child[") {
				name = "child." + name[i+1:]
			}
			check("output-" + name)
		}
	}
	c.StatN("mutations:output-steps", len(steps))
	if ok {
		check("outputs")
	}
	return ok
}

// ---------- part A: items ----------

type c12Case struct {
	it    *LItem
	shape int
	tag   string
}

func c12ItemCases(c *Ctx) []c12Case {
	r := c.Rng
	var cs []c12Case
	sizes := []int{0, 1, 2, 3, 17}
	for _, k := range kinds[1:] {
		for _, n := range sizes {
			for shape := 0; shape < c12Shapes; shape++ {
				cs = append(cs, c12Case{GenLeaf(r, k, n), shape, "leaf"})
			}
		}
		for _, n := range []int{255, 256, 300} {
			cs = append(cs, c12Case{GenLeaf(r, k, n), r.IntN(c12Shapes), "leaf-many"})
		}
		if c.Thorough() {
			cs = append(cs, c12Case{GenLeaf(r, k, 65536/8), r.IntN(c12Shapes), "leaf-large"})
		}
	}
	cs = append(cs, c12Case{&LItem{Kind: "E"}, 0, "empty"})
	// lists: 0, 1, many children; nesting; slab-chunk boundaries of same-kind single-element leaves
	for _, n := range []int{0, 1, 2, 5, 22} {
		for shape := 0; shape < c12Shapes; shape++ {
			it := &LItem{Kind: "L"}
			for i := 0; i < n; i++ {
				it.Kids = append(it.Kids, GenLeaf(r, kinds[1+(i+shape)%(len(kinds)-1)], []int{0, 1, 3}[i%3]))
			}
			cs = append(cs, c12Case{it, shape, "list"})
		}
	}
	for d := 1; d <= 4; d++ {
		cs = append(cs, c12Case{Nest(GenLeaf(r, kinds[1+d], 2), d), d % c12Shapes, "nested"})
	}
	for _, k := range []string{"B", "A", "I2", "U4", "F8", "O"} {
		it := &LItem{Kind: "L"}
		for i := 0; i < 6; i++ {
			it.Kids = append(it.Kids, GenLeaf(r, k, 1))
		}
		cs = append(cs, c12Case{it, 0, "slab"})
	}
	for i := 0; i < c.Pick(250, 2000); i++ {
		budget := 1 + r.IntN(25)
		cs = append(cs, c12Case{GenTree(r, r.IntN(4), &budget), r.IntN(c12Shapes), "random"})
	}
	return cs
}

func c12KindTag(it *LItem) string {
	if it.Kind == "I" || it.Kind == "U" || it.Kind == "F" {
		return fmt.Sprintf("%s%d", it.Kind, it.W)
	}
	return it.Kind
}

func c12SizeClass(it *LItem) string {
	n := len(it.Bytes) + len(it.Ints) + len(it.Uints) + len(it.Bits) + len(it.Kids)
	switch {
	case n == 0:
		return "0"
	case n == 1:
		return "1"
	}
	return "many"
}

func c12Items(c *Ctx) {
	cases := c12ItemCases(c)
	for ci, cs := range cases {
		logical := cs.it.Normalize()
		want := logical.TextCanon()
		kind := c12KindTag(logical)
		fine := cs.tag != "leaf-large" && cs.tag != "leaf-many"
		text := logical.Text()
		base := map[string]any{"item": clip(text, 2000), "shape": cs.shape, "tag": cs.tag}
		c.Stat("tag:" + cs.tag)
		c.Stat("kind:" + kind + "/size:" + c12SizeClass(logical))
		if ci%173 == 0 {
			c.Sample(map[string]any{"part": "item", "tag": cs.tag, "shape": cs.shape, "item": clip(text, 160)})
		}
		with := func(prov string) map[string]any {
			m := map[string]any{"provenance": prov}
			for k, v := range base {
				m[k] = v
			}
			return m
		}
		// 1. constructed through this argument shape
		var b c12Built
		if p := safely(func() { b = c12BuildItem(c.Rng, cs.it, cs.shape) }); p != nil {
			c.Violate("property", "constructor-panic", fmt.Sprintf("constructor panicked: %v", p), base)
			continue
		}
		if err := b.item.Error(); err != nil {
			c.Violate("correspondence", "c12-constructor-error", "valid arguments produced a deferred error: "+err.Error(), base)
			continue
		}
		c.Count(fmt.Sprintf("constructed|%d|%s", cs.shape, text), len(text) > 4)
		c.Stat("provenance:constructed")
		c.Stat(fmt.Sprintf("shape:%d", cs.shape))
		if !c12Probe(c, b.item, b.muts, false, "constructed", kind, want, fine, with("constructed")) || logical.Kind == "E" {
			continue // (a corrupted item would only produce follow-up noise in the derived provenances)
		}
		wire := b.item.ToBytes()
		ref := append([]byte(nil), wire...)
		// 2. Decode of a harness-owned copy, then the copy is overwritten
		for _, early := range []bool{false, true} {
			buf := append(make([]byte, 0, len(wire)+4), wire...)
			dec, err := secs2.Decode(buf)
			if err != nil {
				c.Violate("property", "c12-decode-error", "Decode rejects ToBytes of an error-free item: "+err.Error(), base)
				break
			}
			flip := []func(){func() { c12Flip(buf) }}
			prov := "decoded"
			if early {
				// overwrite the input BEFORE the first observation: everything must still come from the private copy
				flip[0]()
				flip = nil
				prov = "decoded-input-overwritten-first"
			}
			c.Count(prov+"|"+text, len(text) > 4)
			c.Stat("provenance:" + prov)
			wantDec := want
			if logical.HasEmpty() {
				wantDec = ""
			}
			if c12Probe(c, dec, flip, false, prov, kind, wantDec, fine && !early, with(prov)) {
				if got := dec.ToBytes(); !bytes.Equal(got, ref) {
					c.Violate("property", "alias-input-"+kind+"-"+prov, "decoded item no longer serializes to the bytes it was decoded from", with(prov))
				}
			}
		}
		// 3. DecodeOwned on a harness-owned copy: the documented contract (the caller does not touch the buffer again);
		//    everything the item hands out is still scribbled over
		{
			buf := append([]byte(nil), wire...)
			dec, err := secs2.DecodeOwned(buf)
			if err != nil {
				c.Violate("property", "c12-decode-error", "DecodeOwned rejects ToBytes of an error-free item: "+err.Error(), base)
			} else {
				c.Count("decode-owned|"+text, len(text) > 4)
				c.Stat("provenance:decode-owned")
				wantDec := want
				if logical.HasEmpty() {
					wantDec = ""
				}
				if c12Probe(c, dec, nil, true, "decode-owned", kind, wantDec, fine, with("decode-owned")) {
					if !bytes.Equal(dec.ToBytes(), ref) || !bytes.Equal(buf, ref) {
						c.Violate("property", "alias-outputs-"+kind+"-decode-owned", "DecodeOwned item or its buffer changed although the caller honoured the contract", with("decode-owned"))
					}
				}
			}
		}
		// 4. list children as items in their own right (constructed parent and decoded parent)
		if logical.Kind == "L" && len(logical.Kids) > 0 {
			dec, err := secs2.Decode(wire)
			parents := []struct {
				prov string
				it   secs2.Item
			}{{"child-of-constructed", b.item}}
			if err == nil {
				parents = append(parents, struct {
					prov string
					it   secs2.Item
				}{"child-of-decoded", dec})
			}
			for _, p := range parents {
				pb := c12Observe(p.it)
				for i := 0; i < len(logical.Kids) && i < 4; i++ {
					var kid secs2.Item
					switch i % 3 {
					case 0:
						kid, _ = p.it.ItemAt(i)
					case 1:
						l, _ := p.it.ToList()
						kid = l[i]
					default:
						kid, _ = p.it.Get(i)
					}
					if kid == nil {
						c.Violate("property", "c12-child-missing", "child accessor returned nil", with(p.prov))
						continue
					}
					c.Count(fmt.Sprintf("%s|%d|%s", p.prov, i, text), true)
					c.Stat("provenance:" + p.prov)
					c12Probe(c, kid, nil, true, p.prov, c12KindTag(logical.Kids[i]), logical.Kids[i].TextCanon(), false, with(p.prov))
				}
				if d := pb.diff(c12Observe(p.it)); d != "" {
					c.Violate("property", "alias-outputs-L-"+p.prov, "parent observation changed after its children's outputs were mutated: "+d, with(p.prov))
				}
			}
		}
	}
	// items carrying a deferred error: observations (errors included) are just as stable
	for i, it := range []secs2.Item{secs2.NewBinaryItem(300), secs2.NewBinaryItem([]byte{1, 2}, "x"), secs2.NewIntItem(3, 1, 2), secs2.NewUintItem(1, -1),
		secs2.NewBooleanItem(1), secs2.NewFloatItem(2, 1.0), secs2.NewListItem(secs2.NewBinaryItem(1), secs2.NewBinaryItem(256)), secs2.NewIntItem(1, "zz")} {
		c.Count(fmt.Sprintf("errored|%d", i), true)
		c.Stat("provenance:errored")
		c12Probe(c, it, nil, true, "errored", it.Type(), "", true, map[string]any{"errored-item": i})
	}
}

// ---------- part B: messages ----------

func c12ObserveMsg(m hsms.Message) c12Obs {
	var o c12Obs
	add := func(name string, format string, a ...any) { o = append(o, name+"="+fmt.Sprintf(format, a...)) }
	hb := m.HeaderBytes()
	sb := m.SystemBytes()
	add("Type", "%d", m.Type())
	add("SessionID", "%d", m.SessionID())
	add("SystemBytes", "%x", sb[:])
	add("HeaderBytes", "%x", hb[:])
	add("ToBytes", "%s", hexs(m.ToBytes()))
	add("FrameBytes", "%s", hexs(hsms.VerifFrameBytes(m)))
	dm, isData := m.ToDataMessage()
	add("ToDataMessage", "%v %v", isData, dm != nil)
	if isData {
		add("SFW", "%d %d %v %d", dm.Stream(), dm.Function(), dm.WaitBit(), dm.ID())
		add("BodyLen", "%d", dm.BodyLen())
		add("AppendBodyTo(nil)", "%s", hexs(dm.AppendBodyTo(nil)))
		add("AppendBodyTo(pre)", "%s", hexs(dm.AppendBodyTo(append(make([]byte, 0, 1+dm.BodyLen()), 0x77))))
		it, err := dm.Item()
		add("Item.err", "%s %s", c12Err(err), c12Err(dm.DecodeErr()))
		if it != nil {
			for _, e := range c12Observe(it) {
				o = append(o, "Item."+e)
			}
		}
		mb, err := dm.Codec().MarshalBinary()
		add("MarshalBinary", "%s %s", hexs(mb), c12Err(err))
		add("EqualSelf", "%v", dm.Equal(dm))
		if d2, err := dm.Derive().Build(); err == nil {
			add("Derive.Build", "%s", hexs(d2.ToBytes()))
		} else {
			add("Derive.Build", "%s", c12Err(err))
		}
	} else if cm, ok := m.(*hsms.ControlMessage); ok {
		rc, err := cm.RejectReasonCode()
		add("Control", "%v %d %d %s", cm.WaitBit(), cm.ID(), rc, c12Err(err))
	}
	return o
}

func c12MsgScribble(m hsms.Message) []c12Step {
	var st []c12Step
	add := func(name string, fn func()) { st = append(st, c12Step{name, fn}) }
	add("ToBytes", func() { c12Flip(m.ToBytes()) })
	add("HeaderBytes", func() {
		h := m.HeaderBytes()
		s := m.SystemBytes()
		c12Flip(h[:])
		c12Flip(s[:])
	})
	if dm, ok := m.ToDataMessage(); ok {
		add("AppendBodyTo(nil)", func() { c12Flip(dm.AppendBodyTo(nil)) })
		add("AppendBodyTo(spare)", func() {
			buf := make([]byte, 2, 2+dm.BodyLen()+7)
			out := dm.AppendBodyTo(buf)
			c12Flip(out)
			c12Flip(buf)
		})
		add("AppendBodyTo(empty-spare)", func() {
			buf := make([]byte, 0, dm.BodyLen()+3)
			out := dm.AppendBodyTo(buf)
			c12Flip(out)
			c12Flip(buf)
		})
		add("MarshalBinary", func() { b, _ := dm.Codec().MarshalBinary(); c12Flip(b) })
		add("Codec.ToBytes", func() { c12Flip(dm.Codec().ToBytes()) })
		if it, _ := dm.Item(); it != nil {
			for _, s := range c12ScribbleSteps(it, 1) {
				add("Item."+s.name, s.fn)
			}
		}
	}
	return st
}

// c12ProbeMsgs observes a family of messages sharing one body (the original and its re-stamped / derived copies),
// mutates the inputs, scribbles over every output of every member, and re-observes ALL members after each step.
func c12ProbeMsgs(c *Ctx, fam map[string]hsms.Message, order []string, inputs []func(), prov string, wantFrame []byte, replay map[string]any) {
	before := map[string]c12Obs{}
	for _, k := range order {
		before[k] = c12ObserveMsg(fam[k])
	}
	if wantFrame != nil {
		if got := fam[order[0]].ToBytes(); !bytes.Equal(got, wantFrame) {
			c.Violate("property", "msg-bytes-"+prov, "message does not serialize to the frame it was built/decoded from", replay)
		}
	}
	ok := true
	check := func(stage string, members []string) {
		for _, k := range members {
			if d := before[k].diff(c12ObserveMsg(fam[k])); d != "" {
				r := map[string]any{"after": stage, "member": k}
				for kk, v := range replay {
					r[kk] = v
				}
				c.Violate("property", "alias-msg-"+stage+"-"+prov, fmt.Sprintf("observation of %s changed after the caller mutated %s: %s", k, stage, d), r)
				ok = false
				return
			}
		}
	}
	for _, m := range inputs {
		m()
	}
	if len(inputs) > 0 {
		check("input", order)
	}
	for _, k := range order {
		itemSteps := false
		for _, s := range c12MsgScribble(fam[k]) {
			if p := safely(s.fn); p != nil {
				c.Violate("property", "accessor-panic-msg-"+prov, fmt.Sprintf("%s panicked: %v", s.name, p), replay)
				return
			}
			if strings.HasPrefix(s.name, "Item.") {
				itemSteps = true // attributed item by item in part A; here checked once per member
				continue
			}
			if ok {
				check("output-"+s.name, []string{k, order[0]})
			}
		}
		if ok && itemSteps {
			check("output-Item", []string{k, order[0]})
		}
		if ok {
			check("outputs", order) // every member of the family, after all of this member's results were overwritten
		}
	}
	c.StatN("mutations:msg-members", len(order))
}

func c12Family(base hsms.Message, r *rand.Rand) (map[string]hsms.Message, []string) {
	fam := map[string]hsms.Message{"base": base}
	order := []string{"base"}
	sys := [4]byte{byte(r.IntN(256)), 2, 3, byte(r.IntN(256))}
	if dm, ok := base.ToDataMessage(); ok {
		fam["WithSessionID"] = dm.WithSessionID(uint16(r.IntN(65536)))
		fam["WithSystemBytes"] = dm.WithSystemBytes(sys)
		fam["WithID"] = dm.WithSessionID(7).WithID(r.Uint32())
		order = append(order, "WithSessionID", "WithSystemBytes", "WithID")
		if d, err := dm.Derive().WithSessionID(9).WithSystemBytes(sys).Build(); err == nil {
			fam["Derive"] = d
			order = append(order, "Derive")
		}
		if d, err := hsms.NewDataMessageFromHeader(dm.HeaderBytes(), func() secs2.Item { it, _ := dm.Item(); return it }()); err == nil {
			fam["FromHeader"] = d
			order = append(order, "FromHeader")
		}
	} else if cm, ok := base.(*hsms.ControlMessage); ok {
		fam["WithSessionID"] = cm.WithSessionID(uint16(r.IntN(65536)))
		fam["WithSystemBytes"] = cm.WithSystemBytes(sys)
		order = append(order, "WithSessionID", "WithSystemBytes")
	}
	return fam, order
}

func c12Messages(c *Ctx) {
	r := c.Rng
	var bodies []*LItem
	bodies = append(bodies, &LItem{Kind: "E"})
	for _, k := range kinds[1:] {
		for _, n := range []int{0, 1, 9} {
			bodies = append(bodies, GenLeaf(r, k, n))
		}
	}
	for i := 0; i < c.Pick(60, 400); i++ {
		budget := 1 + r.IntN(20)
		bodies = append(bodies, &LItem{Kind: "L", Kids: []*LItem{GenTree(r, 3, &budget), GenLeaf(r, "B", i%5)}})
	}
	for bi, body := range bodies {
		logical := body.Normalize()
		st, fn, w := uint8(r.IntN(128)), uint8(r.IntN(256)), r.IntN(2) == 0
		if w {
			fn |= 1
		}
		sid := uint16(r.IntN(65536))
		sys := [4]byte{byte(r.IntN(256)), byte(r.IntN(256)), byte(r.IntN(256)), byte(r.IntN(256))}
		replay := map[string]any{"stream": st, "function": fn, "wbit": w, "session": sid, "system": hex.EncodeToString(sys[:]), "body": clip(logical.Text(), 1500)}
		b := c12BuildItem(r, body, bi%c12Shapes)
		var item secs2.Item = b.item
		if bi%7 == 3 && logical.Kind == "E" {
			item = nil
		}
		msg, err := hsms.NewDataMessage(st, fn, w, sid, sys, item)
		if err != nil {
			c.Violate("correspondence", "c12-newdatamessage-error", "valid arguments refused: "+err.Error(), replay)
			continue
		}
		key := fmt.Sprintf("%d|%d|%v|%d|%x|%s", st, fn, w, sid, sys, logical.Text())
		nontrivial := logical.Kind != "E"
		if bi%41 == 0 {
			c.Sample(map[string]any{"part": "message", "header": hex.EncodeToString(func() []byte { h := msg.HeaderBytes(); return h[:] }()), "body": clip(logical.Text(), 120)})
		}
		frame := append([]byte(nil), msg.ToBytes()...)
		// constructed (the item's own constructor arguments are the inputs; sysbytes arrays are values)
		c.Count("msg-constructed|"+key, nontrivial)
		c.Stat("msg:constructed")
		fam, order := c12Family(msg, r)
		sysArg := sys
		ins := append(append([]func(){}, b.muts...), func() { c12Flip(sysArg[:]) })
		c12ProbeMsgs(c, fam, order, ins, "constructed", frame, replay)
		// decoded through each entry point; the input buffer is overwritten before the FIRST Item() call half the time
		type dec struct {
			name  string
			owned bool
			fn    func(buf []byte) (hsms.Message, error)
			in    func() []byte
		}
		decs := []dec{
			{"DecodeHSMSMessage", false, hsms.DecodeHSMSMessage, func() []byte { return append(make([]byte, 0, len(frame)+5), frame...) }},
			{"DecodeHSMSPayload", false, hsms.DecodeHSMSPayload, func() []byte { return append([]byte(nil), frame[4:]...) }},
			{"UnmarshalBinary", false, func(buf []byte) (hsms.Message, error) {
				var cdc hsms.DataMessageCodec
				if err := cdc.UnmarshalBinary(buf); err != nil {
					return nil, err
				}
				return cdc.Message, nil
			}, func() []byte { return append([]byte(nil), frame...) }},
			{"DecodeOwnedHSMSPayload", true, hsms.DecodeOwnedHSMSPayload, func() []byte { return append([]byte(nil), frame[4:]...) }},
		}
		for di, d := range decs {
			buf := d.in()
			m2, err := d.fn(buf)
			if err != nil {
				c.Violate("property", "c12-msg-decode-error", d.name+" rejects a frame produced by ToBytes: "+err.Error(), replay)
				continue
			}
			c.Count("msg-"+d.name+"|"+key, nontrivial)
			c.Stat("msg:" + d.name)
			var ins []func()
			prov := d.name
			if !d.owned {
				if (bi+di)%2 == 0 {
					c12Flip(buf) // before anything was observed or lazily decoded
					prov += "-input-overwritten-first"
				} else {
					ins = []func(){func() { c12Flip(buf) }}
				}
			}
			fam, order := c12Family(m2, r)
			c12ProbeMsgs(c, fam, order, ins, prov, frame, replay)
			// the decoded body must still be the logical item
			if dm, ok := m2.ToDataMessage(); ok && !logical.HasEmpty() {
				it, err := dm.Item()
				if err != nil || it == nil || Describe(it) != logical.TextCanon() {
					c.Violate("property", "alias-msg-input-"+prov, "decoded body no longer renders the item that was sent", replay)
				}
			}
			if d.owned && !bytes.Equal(buf, frame[4:]) {
				c.Violate("property", "msg-owned-buffer-written", "DecodeOwnedHSMSPayload's buffer was modified by the library", replay)
			}
		}
	}
	// control messages
	ctl := func(i int) []hsms.Message {
		sid := uint16(r.IntN(65536))
		sys := [4]byte{byte(i), byte(r.IntN(256)), 0xFE, byte(r.IntN(256))}
		sq, dq, lq := hsms.NewSelectReq(sid, sys), hsms.NewDeselectReq(sid, sys), hsms.NewLinktestReq(sys)
		sr, _ := hsms.NewSelectRsp(sq, byte(i))
		dr, _ := hsms.NewDeselectRsp(dq, byte(i))
		lr, _ := hsms.NewLinktestRsp(lq)
		return []hsms.Message{sq, dq, lq, sr, dr, lr, hsms.NewSeparateReq(sid, sys), hsms.NewRejectReq(sq, byte(1+i%4)), hsms.NewRejectReqRaw(sid, 3, 9, sys, byte(i))}
	}
	for i := 0; i < c.Pick(6, 60); i++ {
		for j, m := range ctl(i) {
			replay := map[string]any{"control": hexs(m.ToBytes())}
			frame := append([]byte(nil), m.ToBytes()...)
			c.Count("ctl|"+hexs(frame), true)
			c.Stat("msg:control")
			fam, order := c12Family(m, r)
			c12ProbeMsgs(c, fam, order, nil, "control", frame, replay)
			for _, payloadOnly := range []bool{false, true} {
				buf := append([]byte(nil), frame...)
				var m2 hsms.Message
				var err error
				if payloadOnly {
					buf = buf[4:]
					m2, err = hsms.DecodeHSMSPayload(buf)
				} else {
					m2, err = hsms.DecodeHSMSMessage(buf)
				}
				if err != nil {
					c.Violate("property", "c12-msg-decode-error", "control frame rejected: "+err.Error(), replay)
					continue
				}
				c.Count(fmt.Sprintf("ctl-decoded|%v|%d|%s", payloadOnly, j, hexs(frame)), true)
				c.Stat("msg:control-decoded")
				fam, order := c12Family(m2, r)
				c12ProbeMsgs(c, fam, order, []func(){func() { c12Flip(buf) }}, "control-decoded", frame, replay)
			}
		}
	}
}

// ---------- part C: the region model against real BinaryItems ----------

func c12Regions(c *Ctx) {
	r := c.Rng
	type region struct {
		b     []byte
		reach bool
		wire  bool // content is exactly one encoded binary item (header never touched, never appended to)
		kept  bool // an item aliases it in breach of the contract: appending could silently move the caller to a new array
	}
	type item struct {
		it   secs2.Item
		wire bool // observation is ToBytes (decoded from a wire region) rather than ToBinary
		born string
		safe bool // created by a safe-kind operation
	}
	obsOf := func(it item) []byte {
		if it.wire {
			return it.it.ToBytes()
		}
		v, _ := it.it.ToBinary()
		return v
	}
	var lines []string
	var wants []string
	n := c.Pick(400, 6000)
	for s := 0; s < n; s++ {
		var regs []*region
		var items []item
		var toks []string
		unsafe := s%5 == 4 // every fifth sequence also violates the DecodeOwned contract on purpose
		steps := 4 + r.IntN(22)
		for k := 0; k < steps; k++ {
			switch op := r.IntN(9); {
			case op <= 1 || len(regs) == 0:
				payload := genBytes(r, r.IntN(6))
				b := append([]byte{0x21, byte(len(payload))}, payload...)
				regs = append(regs, &region{b: b, reach: true, wire: true})
				toks = append(toks, "a:"+hexs(b))
			case op == 2:
				ri := r.IntN(len(regs))
				toks = append(toks, fmt.Sprintf("c:%d", ri))
				if regs[ri] == nil || !regs[ri].reach {
					break // not a buffer the caller holds: the model treats it as a no-op too
				}
				if regs[ri].wire && r.IntN(2) == 0 {
					it, err := secs2.Decode(regs[ri].b)
					if err != nil {
						c.Violate("property", "c12-decode-error", "Decode rejected a binary item encoding: "+err.Error(), map[string]any{"bytes": hexs(regs[ri].b)})
						return
					}
					items = append(items, item{it, true, hexs(regs[ri].b), true})
				} else {
					items = append(items, item{secs2.NewBinaryItem(regs[ri].b), false, hexs(regs[ri].b), true})
				}
				regs = append(regs, nil) // the item's private copy takes the next region id
			case op == 3:
				ri := r.IntN(len(regs))
				if regs[ri] == nil || !regs[ri].wire {
					continue
				}
				tok := "t"
				if unsafe && r.IntN(2) == 0 {
					tok = "k"
				}
				toks = append(toks, fmt.Sprintf("%s:%d", tok, ri))
				if !regs[ri].reach {
					break
				}
				it, err := secs2.DecodeOwned(regs[ri].b)
				if err != nil {
					c.Violate("property", "c12-decode-error", "DecodeOwned rejected a binary item encoding: "+err.Error(), map[string]any{"bytes": hexs(regs[ri].b)})
					return
				}
				items = append(items, item{it, true, hexs(regs[ri].b), tok == "t"})
				if tok == "t" {
					regs[ri].reach = false // the documented contract: the caller lets go of the buffer
				} else {
					regs[ri].kept = true
				}
			case op == 4:
				if len(items) == 0 {
					continue
				}
				ii := r.IntN(len(items))
				toks = append(toks, fmt.Sprintf("f:%d", ii))
				regs = append(regs, &region{b: obsOf(items[ii]), reach: true, wire: items[ii].wire})
			case op == 5:
				if len(items) == 0 {
					continue
				}
				ii, ri := r.IntN(len(items)), r.IntN(len(regs))
				if regs[ri] == nil || regs[ri].kept {
					continue
				}
				toks = append(toks, fmt.Sprintf("p:%d:%d", ii, ri))
				if !regs[ri].reach {
					break
				}
				if items[ii].wire {
					regs[ri].b = items[ii].it.AppendTo(regs[ri].b)
				} else {
					regs[ri].b = items[ii].it.AppendBinaryTo(regs[ri].b)
				}
				regs[ri].wire = false
			default:
				ri := r.IntN(len(regs))
				if regs[ri] == nil || len(regs[ri].b) <= 2 {
					continue
				}
				idx := 2 + r.IntN(len(regs[ri].b)-2)
				v := byte(r.IntN(256))
				toks = append(toks, fmt.Sprintf("m:%d:%d:%d", ri, idx, v))
				if regs[ri].reach {
					regs[ri].b[idx] = v
				}
			}
		}
		// implementation-side oracle: every item created by a safe operation still reads what it read at birth,
		// provided the caller never broke the transfer contract in this sequence
		var got []string
		for i, it := range items {
			o := hexs(obsOf(it))
			got = append(got, o)
			if !unsafe && o != it.born {
				c.Violate("property", "alias-sequence", fmt.Sprintf("item %d reads %s, was %s when constructed", i, o, it.born), map[string]any{"ops": strings.Join(toks, " ")})
			}
		}
		var reach []string
		next := 0
		for i, g := range regs {
			next = i + 1
			if g != nil && g.reach {
				reach = append(reach, strconv.Itoa(i))
			}
		}
		j := func(xs []string) string {
			if len(xs) == 0 {
				return "-"
			}
			return strings.Join(xs, ",")
		}
		c.Count("seq|"+strings.Join(toks, " "), len(items) > 0)
		if unsafe {
			c.Stat("sequence:with-contract-violation")
		} else {
			c.Stat("sequence:safe")
		}
		lines = append(lines, "own.run "+strings.Join(toks, " "))
		wants = append(wants, fmt.Sprintf("next=%d items=%s caller=%s", next, j(got), j(reach)))
		if s == 0 {
			c.Sample(map[string]any{"part": "region-sequence", "ops": strings.Join(toks, " "), "result": wants[0]})
		}
	}
	if c.Lean != nil {
		ans := c.Lean.AskAll(lines)
		for i := range ans {
			if ans[i] != wants[i] {
				c.Violate("correspondence", "region-model-differs", fmt.Sprintf("implementation: %s ; model: %s", clip(wants[i], 300), clip(ans[i], 300)),
					map[string]any{"ops": strings.TrimPrefix(lines[i], "own.run ")})
				break
			}
		}
		c.Res.Traces += len(lines)
	}
}

// ---------- part D: concurrent readers ----------

// c12Counted is a caller-defined Item that counts how often its encoding is produced.
type c12Counted struct {
	secs2.Item
	appends atomic.Int64
}

func (ci *c12Counted) AppendTo(dst []byte) []byte {
	ci.appends.Add(1)
	return ci.Item.AppendTo(dst)
}
func (ci *c12Counted) ToBytes() []byte { return ci.AppendTo(make([]byte, 0, ci.EncodedLen())) }

func c12Concurrent(c *Ctx) {
	r := c.Rng
	rounds := c.Pick(40, 400)
	for round := 0; round < rounds; round++ {
		budget := 2 + r.IntN(30)
		body := (&LItem{Kind: "L", Kids: []*LItem{GenTree(r, 3, &budget), GenLeaf(r, kinds[1+round%(len(kinds)-1)], round%4)}}).Normalize()
		real := Build(body, round%6)
		st, fn := uint8(round%128), uint8(2*round+1)
		sys := [4]byte{1, byte(round), 3, 4}
		src, err := hsms.NewDataMessage(st, fn, true, uint16(round), sys, real)
		if err != nil {
			c.Violate("correspondence", "c12-newdatamessage-error", err.Error(), nil)
			return
		}
		frame := src.ToBytes()
		replay := map[string]any{"frame": clip(hexs(frame), 600), "round": round}
		mk := func() []hsms.Message {
			m, err := hsms.DecodeHSMSMessage(frame)
			if err != nil {
				return nil
			}
			dm, _ := m.ToDataMessage()
			c1 := dm.WithSessionID(0x1234)
			return []hsms.Message{dm, c1, dm.WithSystemBytes([4]byte{9, 9, 9, 9}), c1.WithID(77)}
		}
		refMsgs := mk()
		if refMsgs == nil {
			c.Violate("property", "c12-msg-decode-error", "DecodeHSMSMessage rejects ToBytes output", replay)
			return
		}
		refs := make([]c12Obs, len(refMsgs))
		for i, m := range refMsgs {
			refs[i] = c12ObserveMsg(m) // sequential reference on an independent decode
		}
		live := mk()
		n := 8 + r.IntN(25)
		var start, done sync.WaitGroup
		start.Add(1)
		obs := make([]c12Obs, n)
		ptrs := make([]secs2.Item, n)
		for g := 0; g < n; g++ {
			done.Add(1)
			go func(g int) {
				defer done.Done()
				m := live[g%len(live)]
				dm, _ := m.ToDataMessage()
				start.Wait()
				// first calls of the lazy paths, in a goroutine-dependent order
				switch g % 3 {
				case 0:
					ptrs[g], _ = dm.Item()
					_ = dm.DecodeErr()
					_ = dm.ToBytes()
				case 1:
					_ = dm.DecodeErr()
					_ = dm.ToBytes()
					ptrs[g], _ = dm.Item()
				default:
					_ = dm.ToBytes()
					ptrs[g], _ = dm.Item()
				}
				obs[g] = c12ObserveMsg(m)
				c12Flip(dm.ToBytes()) // and scribble over private results while others read
				if it := ptrs[g]; it != nil {
					v := it.ToBytes()
					c12Flip(v)
				}
			}(g)
		}
		start.Done()
		done.Wait()
		c.Count(fmt.Sprintf("concurrent|%s", hexs(frame)), true)
		c.StatN("concurrent:goroutines", n)
		for g := 0; g < n; g++ {
			if d := refs[g%len(live)].diff(obs[g]); d != "" {
				c.Violate("property", "concurrent-observation-differs", fmt.Sprintf("goroutine %d of %d observed something else than the sequential reference: %s", g, n, d), replay)
				break
			}
			if ptrs[g] != ptrs[0] {
				c.Violate("property", "lazy-decode-not-shared", "Item() returned different item objects to concurrent callers / copies of one message: the lazy decode ran more than once", replay)
				break
			}
		}
		// constructed body: the encoding memo runs exactly once however many copies and callers serialize concurrently
		counted := &c12Counted{Item: real}
		cm, err := hsms.NewDataMessage(st, fn, true, 1, sys, counted)
		if err != nil {
			c.Violate("correspondence", "c12-newdatamessage-error", "caller-defined item refused: "+err.Error(), replay)
			return
		}
		copies := []*hsms.DataMessage{cm, cm.WithSessionID(5), cm.WithSystemBytes([4]byte{5, 5, 5, 5}), cm.WithSessionID(6).WithID(1)}
		want := make([]string, len(copies))
		for i, m := range copies {
			h := m.HeaderBytes()
			want[i] = hexs(append(append([]byte{0, 0, byte((10 + len(frame) - 14) >> 8), byte(10 + len(frame) - 14)}, h[:]...), frame[14:]...))
		}
		var start2, done2 sync.WaitGroup
		start2.Add(1)
		got := make([]string, n)
		for g := 0; g < n; g++ {
			done2.Add(1)
			go func(g int) {
				defer done2.Done()
				m := copies[g%len(copies)]
				start2.Wait()
				if g%2 == 0 {
					got[g] = hexs(m.ToBytes())
					_ = m.AppendBodyTo(nil)
				} else {
					_ = m.AppendBodyTo(make([]byte, 0, 8))
					_ = hsms.VerifFrameBytes(m)
					got[g] = hexs(m.ToBytes())
				}
				it, _ := m.Item()
				_ = it.Size()
			}(g)
		}
		start2.Done()
		done2.Wait()
		for g := 0; g < n; g++ {
			if got[g] != want[g%len(copies)] {
				c.Violate("property", "concurrent-observation-differs", fmt.Sprintf("concurrent ToBytes of a constructed message (goroutine %d) differs from the expected frame", g), replay)
				break
			}
		}
		if k := counted.appends.Load(); k != 1 {
			c.Violate("property", "lazy-encode-not-once", fmt.Sprintf("the body of a constructed message was encoded %d times for %d concurrent serializations over 4 copies (want exactly 1)", k, n), replay)
		}
		// plain items read concurrently while every reader scribbles over what it got
		shared := Build(body, (round+1)%6)
		ref := c12Observe(shared)
		iobs := make([]c12Obs, n)
		var start3, done3 sync.WaitGroup
		start3.Add(1)
		for g := 0; g < n; g++ {
			done3.Add(1)
			go func(g int) {
				defer done3.Done()
				start3.Wait()
				iobs[g] = c12Observe(shared)
				for _, s := range c12ScribbleSteps(shared, 2) {
					s.fn()
				}
			}(g)
		}
		start3.Done()
		done3.Wait()
		for g := 0; g < n; g++ {
			if d := ref.diff(iobs[g]); d != "" {
				c.Violate("property", "concurrent-observation-differs", fmt.Sprintf("item observed concurrently by goroutine %d differs from the sequential reference: %s", g, d), replay)
				break
			}
		}
		if d := ref.diff(c12Observe(shared)); d != "" {
			c.Violate("property", "alias-outputs-concurrent", "item changed after concurrent readers mutated their results: "+d, replay)
		}
	}
}

func c12RaceBuild() bool {
	if bi, ok := debug.ReadBuildInfo(); ok {
		for _, s := range bi.Settings {
			if s.Key == "-race" && s.Value == "true" {
				return true
			}
		}
	}
	return false
}

// c12ConcurrentChild runs the concurrency part in a child process of this (race-instrumented) binary and converts
// a race report (stderr "WARNING: DATA RACE", exit code 66) into a property violation.
// c12ConcurrentConstructed: concurrent FIRST observations of freshly constructed items — wide lists in particular
// (lazily memoised lengths / encodings often sit behind a size threshold), nested in other lists and inside messages
// and their re-stamped copies. Every goroutine must read what a sequential reader of an independently built twin
// reads; under -race this is also where unsynchronised memo fills show (after seeded change C12e-2).
func c12ConcurrentConstructed(c *Ctx) {
	r := c.Rng
	widths := []int{2, 31, 32, 33, 64, 300}
	for round := 0; round < c.Pick(60, 600); round++ {
		w := widths[round%len(widths)]
		tree := &LItem{Kind: "L"}
		for i := 0; i < w; i++ {
			tree.Kids = append(tree.Kids, GenLeaf(r, kinds[1+(i+round)%(len(kinds)-1)], 1+i%3))
		}
		if round%2 == 1 {
			tree = &LItem{Kind: "L", Kids: []*LItem{GenLeaf(r, "A", 3), tree, GenLeaf(r, "U2", 2)}}
		}
		tree = tree.Normalize()
		twin := Build(tree, 0)
		wantLen, wantBytes := twin.EncodedLen(), hexs(twin.ToBytes())
		live := Build(tree, 0)
		msg, err := hsms.NewDataMessage(1, 1, true, 7, [4]byte{0, 0, 0, byte(round)}, live)
		if err != nil {
			c.Violate("correspondence", "c12-newdatamessage-error", err.Error(), nil)
			return
		}
		tm, _ := hsms.NewDataMessage(1, 1, true, 7, [4]byte{0, 0, 0, byte(round)}, twin)
		wantFrame, wantBody := hexs(tm.ToBytes()), tm.BodyLen()
		cp := msg.WithSessionID(7)
		n := 8
		var start, done sync.WaitGroup
		start.Add(1)
		bad := make([]string, n)
		for g := 0; g < n; g++ {
			done.Add(1)
			go func(g int) {
				defer done.Done()
				start.Wait()
				switch g % 4 {
				case 0:
					if l := live.EncodedLen(); l != wantLen {
						bad[g] = fmt.Sprintf("EncodedLen() = %d, a sequential reader of an identical item gets %d", l, wantLen)
					}
				case 1:
					if b := hexs(live.ToBytes()); b != wantBytes {
						bad[g] = "ToBytes() differs from a sequential reader's"
					}
				case 2:
					if b := hexs(msg.ToBytes()); b != wantFrame {
						bad[g] = fmt.Sprintf("message ToBytes() differs from a sequential reader's (length prefix %s vs %s)", b[:8], wantFrame[:8])
					}
				default:
					if l := cp.BodyLen(); l != wantBody {
						bad[g] = fmt.Sprintf("BodyLen() of a re-stamped copy = %d, want %d", l, wantBody)
					}
				}
			}(g)
		}
		start.Done()
		done.Wait()
		c.Count(fmt.Sprintf("concurrent-constructed|%d|%d", w, round), true)
		c.Stat("concurrent:constructed-rounds")
		for g, b := range bad {
			if b != "" {
				c.Violate("property", "concurrent-observation-differs", fmt.Sprintf("constructed list of %d children, goroutine %d: %s", w, g, b),
					map[string]any{"width": w, "nested": round%2 == 1, "item": clip(tree.Text(), 600)})
				return
			}
		}
	}
}

func c12ConcurrentChild(c *Ctx) {
	exe, err := os.Executable()
	if err != nil {
		c.Note("cannot locate own executable (%v): concurrency part run in-process, race reports would not be attributed", err)
		c12Concurrent(c)
		c12ConcurrentConstructed(c)
		return
	}
	dir, err := os.MkdirTemp("", "c12race")
	if err != nil {
		c12Concurrent(c)
		c12ConcurrentConstructed(c)
		return
	}
	defer os.RemoveAll(dir)
	out := filepath.Join(dir, "child.json")
	cmd := exec.Command(exe, "-prop", "C12", "-tier", c.Tier, "-seed", fmt.Sprint(c.Seed), "-nomodel", "-out", out)
	cmd.Env = append(os.Environ(), "C12_CHILD=concurrent", "GORACE=halt_on_error=0 exitcode=66")
	var stderr bytes.Buffer
	cmd.Stderr = &stderr
	cmd.Stdout = &stderr
	runErr := cmd.Run()
	log := stderr.String()
	if i := strings.Index(log, "WARNING: DATA RACE"); i >= 0 {
		c.Violate("property", "data-race", "the race detector reported a data race among concurrent readers: "+clip(log[i:], 1800), map[string]any{"race_report": clip(log[i:], 6000)})
	} else if ee, ok := runErr.(*exec.ExitError); ok && ee.ExitCode() == 66 {
		c.Violate("property", "data-race", "the race-instrumented child exited with the race detector's exit code", map[string]any{"stderr": clip(log, 3000)})
	}
	js, err := os.ReadFile(out)
	if err != nil {
		c.Violate("property", "concurrent-crash", fmt.Sprintf("the process running the concurrent readers died without a result (%v): %s", runErr, clip(log, 1500)),
			map[string]any{"stderr": clip(log, 6000)})
		return
	}
	var res Result
	if err := json.Unmarshal(js, &res); err != nil {
		c.Violate("property", "concurrent-child-failed", "unreadable child result: "+err.Error(), nil)
		return
	}
	for _, v := range res.Violations {
		c.Violate(v.Kind, v.What, v.Detail, v.Replay)
	}
	c.mu.Lock()
	c.Res.Evaluations += res.Evaluations
	for k, v := range res.Stats {
		c.Res.Stats[k] += v
	}
	for i := 0; i < res.Distinct; i++ {
		c.distinct[uint64(0xC12<<40)+uint64(i)] = struct{}{}
	}
	c.mu.Unlock()
	c.Stat("concurrent:child-process-runs")
	c.Note("concurrency part ran in a child process (race-instrumented: %v): %d evaluations, race reports: %d", c12RaceBuild(), res.Evaluations, strings.Count(log, "WARNING: DATA RACE"))
}

func runC12(c *Ctx) {
	if os.Getenv("C12_CHILD") == "concurrent" {
		c12Concurrent(c)
		c12ConcurrentConstructed(c)
		return
	}
	t0 := time.Now()
	lap := func(part string) {
		c.Note("%s: %.1fs", part, time.Since(t0).Seconds())
		t0 = time.Now()
	}
	c12Items(c)
	lap("items")
	c12Messages(c)
	lap("messages")
	c12Regions(c)
	lap("region sequences")
	defer lap("concurrent readers")
	// always in a child process: concurrent readers of a (mutant) library that exposes shared storage can crash the
	// runtime outright (torn interface values), which must become a violation rather than a lost run
	c12ConcurrentChild(c)
	if c.Thorough() && !c12RaceBuild() {
		c.Note("thorough tier without a race-instrumented build: data races would go unreported")
	}
}
