package main

// C07, "between reconnect generations" way of being not-selected: a peer that NEVER selects streams data frames at
// a passive endpoint until the endpoint's T7 timer drops the link, generation after generation. No endpoint is ever
// Selected during the run, so the property's oracle is exact and timing-free on the accepting side: zero handler
// deliveries, DataMsgRecvCount == 0, no transition into Selected. What is timing-dependent is only whether a
// defective library shows itself (a frame dispatched between the state leaving NotSelected for NotConnected and the
// generation's socket being closed), hence the repetition. Added after seeded change C07b-2.

import (
	"context"
	"encoding/binary"
	"fmt"
	"io"
	"net"
	"strconv"
	"sync"
	"sync/atomic"
	"time"

	"github.com/arloliu/go-secs/v2/hsms"
	"github.com/arloliu/go-secs/v2/hsmsss"
)

func c07Flood(c *Ctx) {
	workers := c.Pick(4, 8)
	gens := c.Pick(120, 600)
	const framesPerChunk = 256
	chunk := make([]byte, 0, framesPerChunk*14)
	for i := 0; i < framesPerChunk; i++ {
		var f [14]byte
		binary.BigEndian.PutUint32(f[0:4], 10)
		f[4], f[5] = 0xFF, 0xFF
		f[6], f[7] = 0x01, 0x01 // S1F1, W clear
		binary.BigEndian.PutUint32(f[10:14], uint32(i+1))
		chunk = append(chunk, f[:]...)
	}
	var delivered, accepted, rejects, selected, generations atomic.Int64
	var firstSys atomic.Value
	var wg sync.WaitGroup
	deadline := time.Now().Add(time.Duration(c.Pick(40, 180)) * time.Second)
	setupFail := ""
	var mu sync.Mutex
	for w := 0; w < workers; w++ {
		ln, err := net.Listen("tcp", "127.0.0.1:0")
		if err != nil {
			setupFail = err.Error()
			break
		}
		port := ln.Addr().(*net.TCPAddr).Port
		_ = ln.Close()
		cfg, err := hsmsss.NewConfig("127.0.0.1", port,
			hsmsss.WithPassive(),
			hsmsss.WithConnectionOption(hsms.WithT7(time.Duration(3+w)*time.Millisecond)),
			hsmsss.WithConnectionOption(hsms.WithLinktestInterval(0)),
			hsmsss.WithConnectionOption(hsms.WithReconnectBackoff(time.Millisecond, 1.0)),
			hsmsss.WithConnectionOption(hsms.WithSenderQueueSize(4096)),
		)
		if err != nil {
			setupFail = err.Error()
			break
		}
		conn, err := hsmsss.New(cfg)
		if err != nil {
			setupFail = err.Error()
			break
		}
		conn.AddDataMessageHandler(func(msg *hsms.DataMessage, _ hsms.SECS2Endpoint) {
			if delivered.Add(1) == 1 {
				firstSys.Store(fmt.Sprintf("%x", msg.SystemBytes()))
			}
		})
		conn.AddConnStateChangeHandler(func(_, next hsms.ConnState) {
			if next == hsms.SelectedState {
				selected.Add(1)
			}
		})
		if err := conn.Open(context.Background(), hsms.OpenBackground); err != nil {
			mu.Lock()
			setupFail = err.Error()
			mu.Unlock()
			_ = conn.Close()
			break
		}
		wg.Add(1)
		go func() {
			defer wg.Done()
			defer func() {
				accepted.Add(int64(conn.Metrics().DataMsgRecvCount()))
				rejects.Add(int64(conn.ControlMetrics().RejectSentCount()))
				if conn.State() == hsms.SelectedState {
					selected.Add(1)
				}
				_ = conn.Close()
			}()
			for done := 0; done < gens && time.Now().Before(deadline) && delivered.Load() == 0; {
				peer, err := net.DialTimeout("tcp", net.JoinHostPort("127.0.0.1", strconv.Itoa(port)), time.Second)
				if err != nil {
					time.Sleep(time.Millisecond)
					continue
				}
				go func() { _, _ = io.Copy(io.Discard, peer) }()
				_ = peer.SetWriteDeadline(time.Now().Add(2 * time.Second))
				for {
					if _, err := peer.Write(chunk); err != nil {
						break
					}
				}
				_ = peer.Close()
				done++
				generations.Add(1)
			}
		}()
	}
	wg.Wait()
	c.StatN("flood:t7-generations", int(generations.Load()))
	c.StatN("flood:rejects-sent", int(rejects.Load()))
	replay := map[string]any{"scenario": "never-selecting peer floods S1F1 until T7 drops the link", "workers": workers,
		"generations": generations.Load(), "delivered": delivered.Load(), "DataMsgRecvCount": accepted.Load(),
		"rejects": rejects.Load(), "first_delivered_system_bytes": firstSys.Load()}
	if setupFail != "" {
		c.Violate("correspondence", "gate-setup-failed", "flood scenario: "+setupFail, replay)
		return
	}
	c.Count("flood/never-selected", generations.Load() > 0)
	if selected.Load() != 0 {
		c.Violate("correspondence", "gate-setup-failed", "flood scenario: an endpoint became Selected although the peer never selects", replay)
		return
	}
	if delivered.Load() != 0 || accepted.Load() != 0 {
		c.Violate("property", "inbound-data-delivered-while-not-selected",
			fmt.Sprintf("peer never selected, yet %d data messages reached the handlers and DataMsgRecvCount=%d over %d T7 drops",
				delivered.Load(), accepted.Load(), generations.Load()), replay)
	}
	if generations.Load() > 0 && rejects.Load() == 0 {
		c.Violate("property", "inbound-data-not-rejected-4", "no Reject was sent for any flooded data frame", replay)
	}
}
