package main

import (
	"bytes"
	"context"
	"encoding/binary"
	"encoding/hex"
	"errors"
	"fmt"
	"io"
	"strings"
	"time"

	"github.com/arloliu/go-secs/v2/hsms"
	"github.com/arloliu/go-secs/v2/secs2"
)

func init() {
	register("C03", "data messages: stream {0,1,63,64,126,127,128,255} x function 0..255 x W x session ids / system bytes with distinct bytes and "+
		"high bits x bodies (nil, empty, errored, every leaf kind at sizes 0..3, random trees); all nine control kinds x all 256 status/reason bytes "+
		"(+ wrong-type requests, 256x256 PType x SType raw rejects in thorough); re-stamp chains of length 0..6 and Derive..Build overrides; the E5-maximum body "+
		"against the frame cap; distinct = distinct (kind, header tuple, body text, chain); non-trivial = the message was accepted by its constructor", runC03)
}

var c03Streams = []uint8{0, 1, 63, 64, 126, 127, 128, 255}
var c03Sids = []uint16{0, 1, 0x0102, 0x8000, 0x0080, 0xFFFE, 0xFFFF, 0x7F80, 0x00FF, 0xFF00}
var c03Sys = [][4]byte{{0, 0, 0, 0}, {0, 0, 0, 1}, {1, 2, 3, 4}, {0x80, 0, 0, 0}, {0, 0, 0, 0x80}, {0xFF, 0xFF, 0xFF, 0xFE},
	{0xFF, 0, 0xFF, 0}, {0, 0xFF, 0, 0xFF}, {0xDE, 0xAD, 0xBE, 0xEF}, {0x7F, 0x80, 0x01, 0xFE}}

// c03Body is one body argument for NewDataMessage.
type c03Body struct {
	arg  string // protocol text: "nil", "err", or item text
	item *LItem // nil for nil/err
	real secs2.Item
	err  bool
}

func c03Bodies(c *Ctx) []c03Body {
	r := c.Rng
	bs := []c03Body{
		{arg: "nil"},
		{arg: "E", item: &LItem{Kind: "E"}, real: secs2.NewEmptyItem()},
		{arg: "err", real: secs2.NewBinaryItem(300), err: true},
		{arg: "err", real: secs2.NewIntItem(3, 1), err: true},
		{arg: "err", real: secs2.NewListItem(secs2.NewASCIIItem("ok"), secs2.NewListItem(secs2.NewBinaryItem(-1))), err: true},
	}
	add := func(it *LItem, shape int) {
		it = it.Normalize()
		bs = append(bs, c03Body{arg: it.Text(), item: it, real: Build(it, shape)})
	}
	for _, k := range kinds[1:] {
		for _, n := range []int{0, 1, 2, 3} {
			add(GenLeaf(r, k, n), r.IntN(6))
		}
	}
	add(&LItem{Kind: "L"}, 0)
	add(Nest(GenLeaf(r, "U1", 1), 64), 0)
	add(GenLeaf(r, "B", 255), 0)
	add(GenLeaf(r, "A", 256), 0)
	add(GenLeaf(r, "U2", 700), 0)
	// payload lengths around the 1/2/3-byte length-field boundaries for every leaf family whose payload is not
	// simply its element count (localized strings carry a 2-byte header inside the payload): Body.Len(), the
	// frame length field and the bytes written must agree exactly there (after seeded change C03b-1)
	for _, k := range []string{"A", "J", "W", "B", "U1", "O"} {
		for _, n := range []int{252, 253, 254, 255, 256, 257} {
			add(GenLeaf(r, k, n), r.IntN(6))
		}
	}
	for _, n := range []int{65532, 65533, 65534, 65535, 65536} {
		add(GenLeaf(r, "W", n), 0)
		add(GenLeaf(r, "A", n), 0)
	}
	add(&LItem{Kind: "L", Kids: []*LItem{GenLeaf(r, "W", 254), GenLeaf(r, "W", 255), GenLeaf(r, "I2", 127), GenLeaf(r, "I2", 128)}}, 0)
	for i := 0; i < c.Pick(60, 600); i++ {
		budget := 1 + r.IntN(40)
		add(GenTree(r, r.IntN(6), &budget), r.IntN(6))
	}
	return bs
}

func sysHex(s [4]byte) string { return hex.EncodeToString(s[:]) }

func b2i(b bool) int {
	if b {
		return 1
	}
	return 0
}

type c03Data struct {
	st, f uint8
	w     bool
	sid   uint16
	sys   [4]byte
	body  c03Body
}

func (d c03Data) line() string {
	return fmt.Sprintf("hsms.data %d %d %d %d %s %s", d.st, d.f, b2i(d.w), d.sid, sysHex(d.sys), d.body.arg)
}

func (d c03Data) replay() map[string]any {
	return map[string]any{"stream": d.st, "function": d.f, "w": d.w, "session_id": d.sid, "system_bytes": sysHex(d.sys), "body": clip(d.body.arg, 2000)}
}

func bufsHex(bufs [][]byte) string {
	p := make([]string, len(bufs))
	for i, b := range bufs {
		p[i] = hexs(b)
	}
	return strings.Join(p, "|")
}

func runC03(c *Ctx) {
	c03DataMessages(c)
	c03Control(c)
	c03Restamp(c)
	c03Wire(c)
	c03Cap(c)
}

// ---------------------------------------------------------------- data messages

func c03DataMessages(c *Ctx) {
	r := c.Rng
	bodies := c03Bodies(c)
	var cases []c03Data
	i := 0
	for _, st := range c03Streams {
		for f := 0; f < 256; f++ {
			for _, w := range []bool{false, true} {
				cases = append(cases, c03Data{st, uint8(f), w, c03Sids[i%len(c03Sids)], c03Sys[(i/3)%len(c03Sys)], bodies[i%len(bodies)]})
				i++
			}
		}
	}
	for k := 0; k < c.Pick(10000, 300000); k++ {
		d := c03Data{uint8(r.IntN(256)), uint8(r.IntN(256)), r.IntN(2) == 0, uint16(r.IntN(65536)),
			[4]byte{byte(r.IntN(256)), byte(r.IntN(256)), byte(r.IntN(256)), byte(r.IntN(256))}, bodies[r.IntN(len(bodies))]}
		if r.IntN(4) > 0 {
			d.st &= 0x7F
		}
		if r.IntN(3) == 0 {
			d.sid = c03Sids[r.IntN(len(c03Sids))]
		}
		if r.IntN(3) == 0 {
			d.sys = c03Sys[r.IntN(len(c03Sys))]
		}
		cases = append(cases, d)
	}

	var ans []string
	if c.Lean != nil {
		lines := make([]string, len(cases))
		for i, d := range cases {
			lines[i] = d.line()
		}
		ans = c.Lean.AskAll(lines)
	}
	var decLines []string
	var decWant []string
	var decCase []int
	for i, d := range cases {
		replay := d.replay()
		var msg *hsms.DataMessage
		var err error
		if p := safely(func() { msg, err = hsms.NewDataMessage(d.st, d.f, d.w, d.sid, d.sys, d.body.real) }); p != nil {
			c.Violate("property", "newdatamessage-panic", fmt.Sprintf("NewDataMessage panicked: %v", p), replay)
			continue
		}
		c.Count(d.line(), err == nil)
		c.Stat("data:" + map[bool]string{true: "accepted", false: "rejected"}[err == nil])
		// ---- oracle: rejects exactly the invalid combinations, with the documented precedence
		wantKind := ""
		switch {
		case d.st > 127:
			wantKind = "invalidStream"
		case d.body.err:
			wantKind = "itemError"
		case d.w && d.f%2 == 0:
			wantKind = "invalidRspMsg"
		}
		gotKind := ""
		if err != nil {
			switch {
			case errors.Is(err, hsms.ErrInvalidStreamCode):
				gotKind = "invalidStream"
			case errors.Is(err, hsms.ErrInvalidRspMsg):
				gotKind = "invalidRspMsg"
			case d.body.real != nil && d.body.real.Error() != nil && err.Error() == d.body.real.Error().Error():
				gotKind = "itemError"
			default:
				gotKind = "other:" + err.Error()
			}
			c.Stat("reject:" + gotKind)
		}
		if gotKind != wantKind {
			c.Violate("property", "construct-gate", fmt.Sprintf("NewDataMessage verdict %q, the property requires %q", gotKind, wantKind), replay)
			continue
		}
		if ans != nil {
			want := "err " + wantKind
			if wantKind == "" {
				want = "ok"
			}
			if !strings.HasPrefix(ans[i], want) {
				c.Violate("correspondence", "construct-gate-model", fmt.Sprintf("implementation %q, model %q", gotKind, clip(ans[i], 80)), replay)
			}
		}
		if err != nil {
			if msg != nil {
				c.Violate("property", "construct-error-with-message", "NewDataMessage returned both a message and an error", replay)
			}
			continue
		}
		if i%509 == 0 {
			c.Sample(map[string]any{"kind": "data", "case": replay})
		}
		var body []byte
		if d.body.real != nil {
			body = d.body.real.ToBytes()
		}
		var b []byte
		var wire [][]byte
		if i%2 == 0 {
			// the message's very FIRST serialisation goes into a caller-owned scratch buffer which the caller then
			// reuses: whatever the message memoised must not live in that buffer (after seeded change C03e-1)
			safely(func() {
				scratch := make([]byte, 3, len(body)+64)
				out := msg.AppendBodyTo(scratch)
				for k := range out[:cap(out)] {
					out[:cap(out)][k] = 0xEE
				}
			})
		}
		if p := safely(func() { b = msg.ToBytes(); wire = hsms.VerifFrameBuffers(msg) }); p != nil {
			c.Violate("property", "tobytes-panic", fmt.Sprintf("ToBytes/buildFrameBuffers panicked: %v", p), replay)
			continue
		}
		// ---- oracle: E37 layout equations on the implementation's bytes
		if what := c03LayoutData(b, d, body); what != "" {
			c.Violate("property", "frame-layout-data", what+": "+clip(hexs(b), 120), replay)
			continue
		}
		hb := msg.HeaderBytes()
		if !bytes.Equal(hb[:], b[4:14]) || msg.Stream() != d.st || msg.Function() != d.f || msg.WaitBit() != d.w || msg.SessionID() != d.sid ||
			msg.SystemBytes() != d.sys || msg.ID() != binary.BigEndian.Uint32(d.sys[:]) || msg.Type() != hsms.DataMsgType || msg.BodyLen() != len(body) {
			c.Violate("property", "data-accessors", "accessors disagree with the constructor arguments", replay)
		}
		// ---- oracle: what the connection writes is ToBytes
		if !bytes.Equal(bytes.Join(wire, nil), b) || !bytes.Equal(hsms.VerifFrameBytes(msg), b) {
			c.Violate("property", "wire-differs-from-tobytes", fmt.Sprintf("buildFrameBuffers gives %s, ToBytes %s", clip(bufsHex(wire), 120), clip(hexs(b), 120)), replay)
		}
		if len(wire) == 0 || len(wire[0]) != 14 || len(wire) > 2 || (len(wire) == 2 && len(wire[1]) == 0) {
			c.Violate("property", "wire-buffer-shape", "unexpected buffer shape "+clip(bufsHex(wire), 120), replay)
		}
		if ans != nil {
			want := fmt.Sprintf("ok %s %s", hexs(b), bufsHex(wire))
			if ans[i] != want {
				c.Violate("correspondence", "data-frame-model", fmt.Sprintf("implementation %s, model %s", clip(want, 160), clip(ans[i], 160)), replay)
			}
		}
		// ---- oracle: decode back, three entry points
		c03RoundTrip(c, msg, b, d, replay)
		if c.Lean != nil && len(b) <= 4096 {
			decLines = append(decLines, "hsms.decode "+hex.EncodeToString(b))
			txt := "E"
			if d.body.item != nil {
				txt = d.body.item.TextCanon()
			}
			decWant = append(decWant, fmt.Sprintf("ok D %s %s %s item %s", hexs(b[4:14]), hexs(body), hexs(b), txt))
			decCase = append(decCase, i)
		}
	}
	if c.Lean != nil {
		got := c.Lean.AskAll(decLines)
		for j := range got {
			if got[j] != decWant[j] {
				c.Violate("correspondence", "data-decode-model", fmt.Sprintf("model decode %s, expected %s", clip(got[j], 200), clip(decWant[j], 200)), cases[decCase[j]].replay())
			}
		}
		c.Res.Traces += len(cases)
	}
}

// c03LayoutData evaluates the E37 byte equations on a serialised data message.
func c03LayoutData(b []byte, d c03Data, body []byte) string {
	if len(b) != 14+len(body) {
		return fmt.Sprintf("frame has %d bytes, want %d", len(b), 14+len(body))
	}
	if binary.BigEndian.Uint32(b[0:4]) != uint32(10+len(body)) {
		return "length field is not 10+|body|"
	}
	if b[4] != byte(d.sid>>8) || b[5] != byte(d.sid) {
		return "session id not big-endian in frame bytes 4-5"
	}
	wb := byte(0)
	if d.w {
		wb = 0x80
	}
	if b[6] != wb|d.st {
		return "frame byte 6 is not W<<7|stream"
	}
	if b[7] != d.f {
		return "frame byte 7 is not the function"
	}
	if b[8] != 0 || b[9] != 0 {
		return "PType/SType of a data message not 0"
	}
	if !bytes.Equal(b[10:14], d.sys[:]) {
		return "system bytes not in frame bytes 10-13"
	}
	if !bytes.Equal(b[14:], body) {
		return "body is not the SECS-II encoding of the item"
	}
	return ""
}

func c03RoundTrip(c *Ctx, msg *hsms.DataMessage, b []byte, d c03Data, replay any) {
	type entry struct {
		name string
		fn   func() (hsms.Message, error)
	}
	entries := []entry{
		{"DecodeHSMSMessage", func() (hsms.Message, error) { return hsms.DecodeHSMSMessage(b) }},
		{"DecodeHSMSPayload", func() (hsms.Message, error) { return hsms.DecodeHSMSPayload(b[4:]) }},
		{"DecodeOwnedHSMSPayload", func() (hsms.Message, error) { return hsms.DecodeOwnedHSMSPayload(append([]byte(nil), b[4:]...)) }},
	}
	for _, e := range entries {
		var dm hsms.Message
		var err error
		if p := safely(func() { dm, err = e.fn() }); p != nil {
			c.Violate("property", "decode-panic", fmt.Sprintf("%s panicked: %v", e.name, p), replay)
			continue
		}
		if err != nil {
			c.Violate("property", "roundtrip-decode-error", fmt.Sprintf("%s rejects the frame the library serialised: %v", e.name, err), replay)
			continue
		}
		dd, ok := dm.ToDataMessage()
		if !ok || dd == nil {
			c.Violate("property", "roundtrip-kind", e.name+" did not return a data message", replay)
			continue
		}
		if dd.HeaderBytes() != msg.HeaderBytes() || dd.Stream() != d.st || dd.Function() != d.f || dd.WaitBit() != d.w || dd.SessionID() != d.sid || dd.SystemBytes() != d.sys {
			c.Violate("property", "roundtrip-header", e.name+": decoded header fields differ", replay)
		}
		it, ierr := dd.Item()
		if ierr != nil || dd.DecodeErr() != nil {
			c.Violate("property", "roundtrip-body-error", fmt.Sprintf("%s: body of a valid message does not decode: %v", e.name, ierr), replay)
			continue
		}
		orig, _ := msg.Item()
		if !secs2.Equal(orig, it) || !msg.Equal(dd) || !dd.Equal(msg) {
			c.Violate("property", "roundtrip-body-not-equal", e.name+": decoded body is not Equal to the original", replay)
		}
		if d.body.item != nil {
			if got := Describe(it); got != d.body.item.TextCanon() {
				c.Violate("property", "roundtrip-body-values", e.name+": decoded values differ: "+clip(got, 200), replay)
			}
		}
		if rb := dd.ToBytes(); !bytes.Equal(rb, b) {
			c.Violate("property", "reserialise-differs", fmt.Sprintf("%s: re-serialised frame differs: %s", e.name, clip(hexs(rb), 120)), replay)
		}
		if wb := hsms.VerifFrameBytes(dd); !bytes.Equal(wb, b) {
			c.Violate("property", "wire-differs-from-tobytes", e.name+": buildFrameBuffers of the decoded message differs from the frame", replay)
		}
	}
}

// ---------------------------------------------------------------- control messages

type c03Ctl struct {
	line   string // model command
	kind   string
	build  func() (*hsms.ControlMessage, error)
	layout func(b []byte) string // "" when the E37 equations hold
	reply  bool
	stype  byte
	wantOK bool
}

func hdrHex(m hsms.Message) string {
	h := m.HeaderBytes()
	return hex.EncodeToString(h[:])
}

func c03Control(c *Ctx) {
	r := c.Rng
	var cs []c03Ctl
	sidAt := func(i int) uint16 { return c03Sids[i%len(c03Sids)] }
	sysAt := func(i int) [4]byte { return c03Sys[(i/2)%len(c03Sys)] }
	eq := func(b []byte, want ...byte) string {
		if !bytes.Equal(b, want) {
			return "frame is " + hexs(b) + ", E37 layout requires " + hexs(want)
		}
		return ""
	}
	frame := func(sid uint16, b2, b3, stype byte, sys [4]byte) []byte {
		return []byte{0, 0, 0, 10, byte(sid >> 8), byte(sid), b2, b3, 0, stype, sys[0], sys[1], sys[2], sys[3]}
	}
	n := 0
	// requests: session ids x system bytes
	for i := 0; i < len(c03Sids)*len(c03Sys); i++ {
		sid, sys := c03Sids[i%len(c03Sids)], c03Sys[i/len(c03Sids)]
		cs = append(cs,
			c03Ctl{fmt.Sprintf("hsms.ctl selectReq %d %s", sid, sysHex(sys)), "selectReq", func() (*hsms.ControlMessage, error) { return hsms.NewSelectReq(sid, sys), nil },
				func(b []byte) string { return eq(b, frame(sid, 0, 0, 1, sys)...) }, true, 1, true},
			c03Ctl{fmt.Sprintf("hsms.ctl deselectReq %d %s", sid, sysHex(sys)), "deselectReq", func() (*hsms.ControlMessage, error) { return hsms.NewDeselectReq(sid, sys), nil },
				func(b []byte) string { return eq(b, frame(sid, 0, 0, 3, sys)...) }, true, 3, true},
			c03Ctl{fmt.Sprintf("hsms.ctl separateReq %d %s", sid, sysHex(sys)), "separateReq", func() (*hsms.ControlMessage, error) { return hsms.NewSeparateReq(sid, sys), nil },
				func(b []byte) string { return eq(b, frame(sid, 0, 0, 9, sys)...) }, false, 9, true},
			c03Ctl{fmt.Sprintf("hsms.ctl linktestReq %s", sysHex(sys)), "linktestReq", func() (*hsms.ControlMessage, error) { return hsms.NewLinktestReq(sys), nil },
				func(b []byte) string { return eq(b, frame(0xFFFF, 0, 0, 5, sys)...) }, true, 5, true},
		)
	}
	// the pool of messages a response / reject may be derived from
	mkReqs := func(i int) map[string]*hsms.ControlMessage {
		sid, sys := sidAt(i), sysAt(i)
		m := map[string]*hsms.ControlMessage{
			"selectReq": hsms.NewSelectReq(sid, sys), "deselectReq": hsms.NewDeselectReq(sid, sys),
			"linktestReq": hsms.NewLinktestReq(sys), "separateReq": hsms.NewSeparateReq(sid, sys),
		}
		m["selectRsp"], _ = hsms.NewSelectRsp(m["selectReq"], byte(i))
		m["deselectRsp"], _ = hsms.NewDeselectRsp(m["deselectReq"], byte(i*7))
		m["linktestRsp"], _ = hsms.NewLinktestRsp(m["linktestReq"])
		m["rejectReq"] = hsms.NewRejectReqRaw(sid, byte(i*3), byte(i*5), sys, byte(i))
		return m
	}
	ctlKinds := []string{"selectReq", "selectRsp", "deselectReq", "deselectRsp", "linktestReq", "linktestRsp", "rejectReq", "separateReq"}
	// responses: all 256 status bytes, request from the right kind (and decoded copies of it)
	for s := 0; s < 256; s++ {
		status := byte(s)
		reqs := mkReqs(n)
		n++
		for _, rk := range []struct {
			name, from string
			stype      byte
			mk         func(req *hsms.ControlMessage) (*hsms.ControlMessage, error)
		}{
			{"selectRsp", "selectReq", 2, func(q *hsms.ControlMessage) (*hsms.ControlMessage, error) { return hsms.NewSelectRsp(q, status) }},
			{"deselectRsp", "deselectReq", 4, func(q *hsms.ControlMessage) (*hsms.ControlMessage, error) { return hsms.NewDeselectRsp(q, status) }},
			{"linktestRsp", "linktestReq", 6, func(q *hsms.ControlMessage) (*hsms.ControlMessage, error) { return hsms.NewLinktestRsp(q) }},
		} {
			rk := rk
			for _, from := range ctlKinds {
				if from != rk.from && s%16 != 0 {
					continue // wrong-type requests: a 16th of the status values
				}
				req := reqs[from]
				if s%2 == 1 { // use a decoded copy of the request (what a responder really holds)
					if dm, err := hsms.DecodeHSMSMessage(req.ToBytes()); err == nil {
						req = dm.(*hsms.ControlMessage)
					}
				}
				if s%4 == 2 && from == rk.from {
					// a request as a PEER may have sent it: right SType, arbitrary session id and header bytes 2/3
					// (a Linktest.req whose session id is not 0xFFFF, a Select.req with a non-zero byte 2)
					raw := frame(uint16(r.IntN(65536)), byte(r.IntN(256)), byte(r.IntN(256)), rk.stype-1, sysAt(n+s))
					if dm, err := hsms.DecodeHSMSMessage(raw); err == nil {
						if cm, ok := dm.(*hsms.ControlMessage); ok {
							req = cm
						}
					}
				}
				h := req.HeaderBytes()
				line := fmt.Sprintf("hsms.ctl %s %s", rk.name, hex.EncodeToString(h[:]))
				if rk.name != "linktestRsp" {
					line += fmt.Sprintf(" %d", status)
				}
				var want []byte
				sys := [4]byte{h[6], h[7], h[8], h[9]}
				if rk.name == "linktestRsp" {
					want = frame(0xFFFF, 0, 0, rk.stype, sys)
				} else {
					want = frame(uint16(h[0])<<8|uint16(h[1]), 0, status, rk.stype, sys)
				}
				cs = append(cs, c03Ctl{line, rk.name + "<-" + from, func() (*hsms.ControlMessage, error) { return rk.mk(req) },
					func(b []byte) string { return eq(b, want...) }, false, rk.stype, from == rk.from})
			}
		}
		// rejects: all 256 reasons x every kind of rejected message
		reason := status
		var dataRej hsms.Message
		dataRej, _ = hsms.NewDataMessage(uint8(s)&0x7F, uint8(s)|1, s%2 == 0, sidAt(n), sysAt(n), nil)
		rejs := map[string]hsms.Message{"data": dataRej}
		for k, v := range reqs {
			rejs[k] = v
		}
		for _, name := range append([]string{"data"}, ctlKinds...) {
			rej := rejs[name]
			h := rej.HeaderBytes()
			kind := "C"
			b2 := h[5]
			if reason == 2 {
				b2 = h[4]
			}
			if name == "data" {
				kind, b2 = "D", 0
			}
			want := frame(uint16(h[0])<<8|uint16(h[1]), b2, reason, 7, [4]byte{h[6], h[7], h[8], h[9]})
			cs = append(cs, c03Ctl{fmt.Sprintf("hsms.ctl rejectReq %s %s %d", kind, hex.EncodeToString(h[:]), reason), "rejectReq<-" + name,
				func() (*hsms.ControlMessage, error) { return hsms.NewRejectReq(rej, reason), nil },
				func(b []byte) string { return eq(b, want...) }, false, 7, true})
		}
		// raw rejects: reason x a few (ptype, stype) incl. distinct bytes
		for k := 0; k < 3; k++ {
			pt, stp := byte(r.IntN(256)), byte(r.IntN(256))
			if k == 0 {
				pt, stp = byte(s), byte(255-s)
			}
			sid, sys := sidAt(n+k), sysAt(n+k)
			b2 := stp
			if reason == 2 {
				b2 = pt
			}
			want := frame(sid, b2, reason, 7, sys)
			cs = append(cs, c03Ctl{fmt.Sprintf("hsms.ctl rejectRaw %d %d %d %s %d", sid, pt, stp, sysHex(sys), reason), "rejectRaw",
				func() (*hsms.ControlMessage, error) { return hsms.NewRejectReqRaw(sid, pt, stp, sys, reason), nil },
				func(b []byte) string { return eq(b, want...) }, false, 7, true})
		}
	}
	if c.Thorough() { // all PType x SType echoes for the two distinguished reasons
		for pt := 0; pt < 256; pt++ {
			for stp := 0; stp < 256; stp++ {
				pt, stp := byte(pt), byte(stp)
				reason := byte(1 + (int(pt)+int(stp))%2)
				b2 := stp
				if reason == 2 {
					b2 = pt
				}
				sid, sys := uint16(0x0102), [4]byte{9, 8, 7, 6}
				want := frame(sid, b2, reason, 7, sys)
				cs = append(cs, c03Ctl{fmt.Sprintf("hsms.ctl rejectRaw %d %d %d %s %d", sid, pt, stp, sysHex(sys), reason), "rejectRaw",
					func() (*hsms.ControlMessage, error) { return hsms.NewRejectReqRaw(sid, pt, stp, sys, reason), nil },
					func(b []byte) string { return eq(b, want...) }, false, 7, true})
			}
		}
	}

	var ans []string
	if c.Lean != nil {
		lines := make([]string, len(cs))
		for i := range cs {
			lines[i] = cs[i].line
		}
		ans = c.Lean.AskAll(lines)
	}
	for i, k := range cs {
		replay := map[string]any{"control": k.kind, "op": k.line}
		var m *hsms.ControlMessage
		var err error
		if p := safely(func() { m, err = k.build() }); p != nil {
			c.Violate("property", "control-factory-panic", fmt.Sprintf("%s panicked: %v", k.kind, p), replay)
			continue
		}
		c.Count(k.line, err == nil)
		c.Stat("ctl:" + strings.SplitN(k.kind, "<-", 2)[0])
		if (err == nil) != k.wantOK {
			c.Violate("property", "control-factory-gate", fmt.Sprintf("%s: error=%v, expected success=%v", k.kind, err, k.wantOK), replay)
			continue
		}
		if err != nil {
			c.Stat("ctl:wrong-request-type-refused")
			if ans != nil && ans[i] != "err wrongReqType" {
				c.Violate("correspondence", "control-gate-model", "model says "+ans[i], replay)
			}
			continue
		}
		if i%701 == 0 {
			c.Sample(map[string]any{"kind": "control", "op": k.line})
		}
		b := m.ToBytes()
		if what := k.layout(b); what != "" {
			c.Violate("property", "frame-layout-control", k.kind+": "+what, replay)
			continue
		}
		hb := m.HeaderBytes()
		if !bytes.Equal(hb[:], b[4:]) || m.Type() != hsms.MsgType(k.stype) || m.WaitBit() != k.reply ||
			m.SessionID() != binary.BigEndian.Uint16(b[4:6]) || m.ID() != binary.BigEndian.Uint32(b[10:14]) {
			c.Violate("property", "control-accessors", k.kind+": accessors disagree with the frame", replay)
		}
		if w := hsms.VerifFrameBuffers(m); len(w) != 1 || !bytes.Equal(w[0], b) {
			c.Violate("property", "wire-differs-from-tobytes", k.kind+": buildFrameBuffers gives "+bufsHex(w), replay)
		}
		if ans != nil {
			want := fmt.Sprintf("ok %s %v %d", hexs(b), k.reply, k.stype)
			if ans[i] != want {
				c.Violate("correspondence", "control-frame-model", fmt.Sprintf("implementation %s, model %s", want, ans[i]), replay)
			}
		}
		// decode back through the three entry points
		for name, fn := range map[string]func() (hsms.Message, error){
			"DecodeHSMSMessage":      func() (hsms.Message, error) { return hsms.DecodeHSMSMessage(b) },
			"DecodeHSMSPayload":      func() (hsms.Message, error) { return hsms.DecodeHSMSPayload(b[4:]) },
			"DecodeOwnedHSMSPayload": func() (hsms.Message, error) { return hsms.DecodeOwnedHSMSPayload(append([]byte(nil), b[4:]...)) },
		} {
			var dm hsms.Message
			var derr error
			if p := safely(func() { dm, derr = fn() }); p != nil {
				c.Violate("property", "decode-panic", fmt.Sprintf("%s panicked: %v", name, p), replay)
				continue
			}
			if derr != nil {
				c.Violate("property", "roundtrip-decode-error", fmt.Sprintf("%s rejects a control frame the library serialised: %v", name, derr), replay)
				continue
			}
			cm, ok := dm.(*hsms.ControlMessage)
			if !ok || cm.HeaderBytes() != m.HeaderBytes() || cm.Type() != m.Type() || cm.SessionID() != m.SessionID() || cm.SystemBytes() != m.SystemBytes() {
				c.Violate("property", "roundtrip-header", name+": decoded control message differs", replay)
				continue
			}
			if !bytes.Equal(cm.ToBytes(), b) || !bytes.Equal(hsms.VerifFrameBytes(cm), b) {
				c.Violate("property", "reserialise-differs", name+": re-serialised control frame differs", replay)
			}
		}
		if k.stype == 7 {
			code, rerr := m.RejectReasonCode()
			valid := b[7] >= 1 && b[7] <= 4
			if valid != (rerr == nil) || (valid && code != b[7]) {
				c.Violate("property", "reject-reason-accessor", "RejectReasonCode disagrees with header byte 3", replay)
			}
		}
	}
	if c.Lean != nil {
		c.Res.Traces += len(cs)
	}
}

// ---------------------------------------------------------------- re-stamping

type c03Stamp struct {
	kind byte // 's' 'y' 'i'
	sid  uint16
	sys  [4]byte
	id   uint32
}

func (s c03Stamp) tok() string {
	switch s.kind {
	case 's':
		return fmt.Sprintf("s:%d", s.sid)
	case 'y':
		return "y:" + sysHex(s.sys)
	}
	return fmt.Sprintf("i:%d", s.id)
}

func c03Restamp(c *Ctx) {
	r := c.Rng
	bodies := c03Bodies(c)
	type rc struct {
		base   hsms.Message
		chain  []c03Stamp
		line   string
		origin string
	}
	var cs []rc
	genStamp := func(data bool) c03Stamp {
		k := r.IntN(3)
		if !data && k == 2 {
			k = 1 // ControlMessage has no WithID
		}
		switch k {
		case 0:
			sid := uint16(r.IntN(65536))
			if r.IntN(2) == 0 {
				sid = c03Sids[r.IntN(len(c03Sids))]
			}
			return c03Stamp{kind: 's', sid: sid}
		case 1:
			sys := [4]byte{byte(r.IntN(256)), byte(r.IntN(256)), byte(r.IntN(256)), byte(r.IntN(256))}
			if r.IntN(2) == 0 {
				sys = c03Sys[r.IntN(len(c03Sys))]
			}
			return c03Stamp{kind: 'y', sys: sys}
		}
		ids := []uint32{0, 1, 0x01020304, 0x80000000, 0xFFFFFFFF, 0x00FF00FF, r.Uint32()}
		return c03Stamp{kind: 'i', id: ids[r.IntN(len(ids))]}
	}
	for i := 0; i < c.Pick(10000, 200000); i++ {
		var base hsms.Message
		origin := ""
		switch i % 4 {
		case 0, 1: // constructed or decoded data message
			var body c03Body
			for {
				body = bodies[r.IntN(len(bodies))]
				if !body.err {
					break
				}
			}
			dm, err := hsms.NewDataMessage(uint8(r.IntN(128)), uint8(r.IntN(256))|1, r.IntN(2) == 0, c03Sids[r.IntN(len(c03Sids))], c03Sys[r.IntN(len(c03Sys))], body.real)
			if err != nil {
				continue
			}
			base, origin = dm, "constructed-data"
			if i%4 == 1 {
				raw := dm.ToBytes()
				if r.IntN(3) == 0 && len(raw) > 15 { // a body that does not decode: the error must be shared too
					raw = append([]byte(nil), raw...)
					raw[14] = 0xFF
				}
				d2, err := hsms.DecodeHSMSMessage(raw)
				if err != nil {
					continue
				}
				base, origin = d2, "decoded-data"
			}
		case 2:
			base, origin = hsms.NewSelectReq(c03Sids[r.IntN(len(c03Sids))], c03Sys[r.IntN(len(c03Sys))]), "control"
		default:
			base, origin = hsms.NewRejectReqRaw(uint16(r.IntN(65536)), byte(r.IntN(256)), byte(r.IntN(256)), c03Sys[r.IntN(len(c03Sys))], byte(r.IntN(256))), "control"
		}
		_, isData := base.(*hsms.DataMessage)
		n := r.IntN(7)
		chain := make([]c03Stamp, n)
		toks := make([]string, n)
		for j := range chain {
			chain[j] = genStamp(isData)
			toks[j] = chain[j].tok()
		}
		b := base.ToBytes()
		kind := "C"
		if isData {
			kind = "D"
		}
		line := fmt.Sprintf("hsms.stamp %s %s %s %s", kind, hexs(b[4:14]), hexs(b[14:]), strings.Join(toks, " "))
		cs = append(cs, rc{base, chain, strings.TrimRight(line, " "), origin})
	}
	var ans []string
	if c.Lean != nil {
		lines := make([]string, len(cs))
		for i := range cs {
			lines[i] = cs[i].line
		}
		ans = c.Lean.AskAll(lines)
	}
	for i, k := range cs {
		replay := map[string]any{"op": clip(k.line, 2000), "origin": k.origin}
		c.Count(k.line, true)
		c.Stat(fmt.Sprintf("restamp:%s:len%d", k.origin, len(k.chain)))
		before := k.base.ToBytes()
		cur := k.base
		var holders []hsms.Message
		if p := safely(func() {
			for _, s := range k.chain {
				switch m := cur.(type) {
				case *hsms.DataMessage:
					switch s.kind {
					case 's':
						cur = m.WithSessionID(s.sid)
					case 'y':
						cur = m.WithSystemBytes(s.sys)
					default:
						cur = m.WithID(s.id)
					}
				case *hsms.ControlMessage:
					if s.kind == 's' {
						cur = m.WithSessionID(s.sid)
					} else {
						cur = m.WithSystemBytes(s.sys)
					}
				}
				holders = append(holders, cur)
			}
		}); p != nil {
			c.Violate("property", "restamp-panic", fmt.Sprintf("re-stamping panicked: %v", p), replay)
			continue
		}
		after := cur.ToBytes()
		// oracle: only bytes 4-5 / 10-13 change, to the last stamp of each field
		want := append([]byte(nil), before...)
		for _, s := range k.chain {
			switch s.kind {
			case 's':
				binary.BigEndian.PutUint16(want[4:6], s.sid)
			case 'y':
				copy(want[10:14], s.sys[:])
			default:
				binary.BigEndian.PutUint32(want[10:14], s.id)
			}
		}
		if !bytes.Equal(after, want) {
			c.Violate("property", "restamp-bytes", fmt.Sprintf("after the chain the frame is %s, expected %s", clip(hexs(after), 120), clip(hexs(want), 120)), replay)
		}
		if !bytes.Equal(k.base.ToBytes(), before) {
			c.Violate("property", "restamp-mutated-original", "re-stamping changed the original message", replay)
		}
		// every member of the re-stamp family is framed by the send path, oldest first: what one member put on
		// the wire must not leak into what another does (shared lazy state; after seeded change C03b-2)
		// first the buffers of ALL members are built (as overlapping senders do: writeFrame builds the frame before it
		// takes the write lock), only then are they read: a prefix kept in storage the copies share would be
		// overwritten by the later builds (after seeded change C03c-1)
		fam := append([]hsms.Message{k.base}, holders...)
		built := make([][][]byte, len(fam))
		for hi, h := range fam {
			built[hi] = hsms.VerifFrameBuffersRaw(h)
		}
		for hi, h := range fam {
			var cat []byte
			for _, b := range built[hi] {
				cat = append(cat, b...)
			}
			if !bytes.Equal(cat, h.ToBytes()) {
				c.Violate("property", "wire-differs-from-tobytes", fmt.Sprintf("frame buffers of member %d of a re-stamp family, read after the buffers of the whole family were built, differ from its ToBytes", hi), replay)
				break
			}
		}
		for hi, h := range fam {
			if !bytes.Equal(hsms.VerifFrameBytes(h), h.ToBytes()) {
				c.Violate("property", "wire-differs-from-tobytes", fmt.Sprintf("buildFrameBuffers of member %d of a re-stamp family differs from its ToBytes (after the earlier members were framed)", hi), replay)
				break
			}
		}
		if !bytes.Equal(hsms.VerifFrameBytes(cur), after) {
			c.Violate("property", "wire-differs-from-tobytes", "buildFrameBuffers of a re-stamped message differs from ToBytes", replay)
		}
		if !bytes.Equal(hsms.VerifFrameBytes(k.base), before) {
			c.Violate("property", "wire-differs-from-tobytes", "buildFrameBuffers of the original differs from ToBytes after its re-stamped copies were framed", replay)
		}
		if bd, ok := k.base.(*hsms.DataMessage); ok {
			it0, e0 := bd.Item()
			for _, h := range holders {
				hd := h.(*hsms.DataMessage)
				it1, e1 := hd.Item()
				if (e0 == nil) != (e1 == nil) || (e0 != nil && e0.Error() != e1.Error()) || (e0 == nil && !secs2.Equal(it0, it1)) ||
					(hd.DecodeErr() == nil) != (e0 == nil) {
					c.Violate("property", "restamp-body-changed", "a re-stamped copy reports a different body / body error", replay)
					break
				}
			}
			if e0 != nil {
				c.Stat("restamp:undecodable-body-shared")
			}
		}
		if ans != nil {
			wantAns := fmt.Sprintf("%s %s", hexs(after), bufsHex(hsms.VerifFrameBuffers(cur)))
			if ans[i] != wantAns {
				c.Violate("correspondence", "restamp-model", fmt.Sprintf("implementation %s, model %s", clip(wantAns, 160), clip(ans[i], 160)), replay)
			}
		}
	}
	// Derive ... Build with overrides == NewDataMessage of the overridden tuple
	var dl []string
	var dwant []string
	for i := 0; i < c.Pick(4000, 100000); i++ {
		var body c03Body
		for {
			body = bodies[r.IntN(len(bodies))]
			if !body.err {
				break
			}
		}
		st, f, w := uint8(r.IntN(128)), uint8(r.IntN(256)), r.IntN(2) == 0
		if w {
			f |= 1
		}
		sid, sys := c03Sids[r.IntN(len(c03Sids))], c03Sys[r.IntN(len(c03Sys))]
		base, err := hsms.NewDataMessage(st, f, w, sid, sys, body.real)
		if err != nil {
			continue
		}
		if i%2 == 1 {
			d2, err := hsms.DecodeHSMSMessage(base.ToBytes())
			if err != nil {
				continue
			}
			base = d2.(*hsms.DataMessage)
		}
		bld := base.Derive()
		desc := "derive"
		if r.IntN(2) == 0 {
			st = uint8(r.IntN(256))
			bld = bld.WithStream(st)
			desc += fmt.Sprintf(" stream=%d", st)
		}
		if r.IntN(2) == 0 {
			f = uint8(r.IntN(256))
			bld = bld.WithFunction(f)
			desc += fmt.Sprintf(" function=%d", f)
		}
		if r.IntN(2) == 0 {
			w = r.IntN(2) == 0
			bld = bld.WithWaitBit(w)
			desc += fmt.Sprintf(" w=%v", w)
		}
		if r.IntN(2) == 0 {
			sid = uint16(r.IntN(65536))
			bld = bld.WithSessionID(sid)
			desc += fmt.Sprintf(" sid=%d", sid)
		}
		switch r.IntN(3) {
		case 0:
			sys = c03Sys[r.IntN(len(c03Sys))]
			bld = bld.WithSystemBytes(sys)
			desc += " sys=" + sysHex(sys)
		case 1:
			id := r.Uint32()
			binary.BigEndian.PutUint32(sys[:], id)
			bld = bld.WithID(id)
			desc += fmt.Sprintf(" id=%d", id)
		}
		if r.IntN(3) == 0 {
			for {
				body = bodies[r.IntN(len(bodies))]
				if !body.err && body.real != nil {
					break
				}
			}
			bld = bld.WithItem(body.real)
			desc += " item"
		}
		if r.IntN(6) == 0 {
			// an explicit nil item means "no body" — also on a builder derived from a message that has one
			// (after seeded change C03e-2)
			body = c03Body{arg: "nil"}
			bld = bld.WithItem(nil)
			desc += " item=nil"
		}
		got, gerr := bld.Build()
		direct, derr := hsms.NewDataMessage(st, f, w, sid, sys, body.real)
		replay := map[string]any{"op": desc, "body": clip(body.arg, 1000)}
		c.Count("derive|"+desc+"|"+body.arg, gerr == nil)
		c.Stat("derive:" + map[bool]string{true: "built", false: "refused"}[gerr == nil])
		if (gerr == nil) != (derr == nil) || (gerr != nil && gerr.Error() != derr.Error()) {
			c.Violate("property", "derive-build-gate", fmt.Sprintf("Build error %v, NewDataMessage of the same tuple %v", gerr, derr), replay)
			continue
		}
		if gerr == nil && !bytes.Equal(got.ToBytes(), direct.ToBytes()) {
			c.Violate("property", "derive-build-bytes", "Derive..Build differs from NewDataMessage of the same tuple", replay)
		}
		if c.Lean != nil {
			d := c03Data{st, f, w, sid, sys, body} // a nil body derives as the empty item: same frame
			dl = append(dl, d.line())
			if gerr != nil {
				dwant = append(dwant, "err")
			} else {
				dwant = append(dwant, "ok "+hexs(got.ToBytes()))
			}
		}
	}
	if c.Lean != nil {
		got := c.Lean.AskAll(dl)
		for j := range got {
			if !strings.HasPrefix(got[j], dwant[j]) {
				c.Violate("correspondence", "derive-build-model", fmt.Sprintf("implementation %s, model %s", clip(dwant[j], 120), clip(got[j], 120)), map[string]any{"op": clip(dl[j], 1000)})
			}
		}
		c.Res.Traces += len(cs) + len(dl)
	}
}

// ---------------------------------------------------------------- the frame cap

// c03Cap replays theorem counterexample_valid_message_over_cap on the implementation: an error-free
// single item at the E5 size limit is accepted by NewDataMessage and serialised, but the library's own
// decoder refuses the frame. Also checks the last size that fits.
func c03Cap(c *Ctx) {
	capLen := int(hsms.VerifMaxHSMSMsgLen)
	for _, payload := range []int{capLen - 10 - 4, capLen - 10 - 4 + 1, 1<<24 - 1} {
		it := secs2.NewBinaryItem(make([]byte, payload))
		replay := map[string]any{"body": fmt.Sprintf("binary item of %d bytes (encoding %d bytes)", payload, payload+4), "stream": 1, "function": 1, "w": true}
		c.Count(fmt.Sprintf("cap|%d", payload), true)
		c.Stat("cap:probe")
		if it.Error() != nil {
			c.Violate("property", "cap-item-error", "item within the E5 limit reports an error: "+it.Error().Error(), replay)
			continue
		}
		msg, err := hsms.NewDataMessage(1, 1, true, 0, [4]byte{0, 0, 0, 1}, it)
		if err != nil {
			c.Violate("property", "construct-gate", "NewDataMessage refuses an error-free body: "+err.Error(), replay)
			continue
		}
		b := msg.ToBytes()
		if len(b) != 14+4+payload || binary.BigEndian.Uint32(b[:4]) != uint32(10+4+payload) || !bytes.Equal(hsms.VerifFrameBytes(msg), b) {
			c.Violate("property", "frame-layout-data", "large frame: wrong length field / wire bytes", replay)
			continue
		}
		dm, derr := hsms.DecodeHSMSMessage(b)
		fits := 10+4+payload <= capLen
		if derr != nil {
			if fits {
				c.Violate("property", "roundtrip-decode-error", "frame within the cap rejected: "+derr.Error(), replay)
			} else {
				c.Violate("property", "valid-message-over-frame-cap-undecodable",
					fmt.Sprintf("NewDataMessage accepts an error-free %d-byte body and ToBytes/the connection emit a frame with length field %d, but DecodeHSMSMessage (and readFrame) "+
						"refuse every length above maxHSMSMsgLen=%d: %v", 4+payload, 10+4+payload, capLen, derr), replay)
			}
			continue
		}
		if !fits {
			c.Note("frame above the former cap (%d) now decodes", 10+4+payload)
		}
		if !bytes.Equal(dm.ToBytes(), b) {
			c.Violate("property", "reserialise-differs", "large frame re-serialises differently", replay)
		}
	}
}

// ---------------------------------------------------------------- what a Selected connection writes

// c03Wire: a raw peer on the other end of a real, Selected connection reads what the connection writes for
// forwarded (sync and async), session-built async, synchronous reply-expected and reply sends, and compares it
// with ToBytes / the E37 layout / the model.
func c03Wire(c *Ctx) {
	c03WireRole(c, false)
	c03WireRole(c, true)
}

func c03WireRole(c *Ctx, passive bool) {
	r := c.Rng
	bodies := c03Bodies(c)
	pick := func() c03Body {
		for {
			b := bodies[r.IntN(len(bodies))]
			if !b.err {
				return b
			}
		}
	}
	replyItem := secs2.NewListItem(secs2.NewASCIIItem("ack"), secs2.NewUintItem(1, 0))
	role := map[bool]string{false: "active", true: "passive"}[passive]
	conn, client, err := c04OpenPipeRole(passive, func(msg *hsms.DataMessage, ep hsms.SECS2Endpoint) {
		if msg.WaitBit() {
			_ = ep.ReplyDataMessage(context.Background(), msg, replyItem)
		}
	}, hsms.WithSessionID(0x0102), hsms.WithT3(3*time.Second))
	if err != nil {
		c.Violate("correspondence", "wire-setup", "could not bring a pipe connection to Selected: "+err.Error(), nil)
		return
	}
	defer func() { client.Close(); conn.Close() }()
	readFrame := func() ([]byte, error) {
		client.SetReadDeadline(time.Now().Add(3 * time.Second))
		pre := make([]byte, 4)
		if _, err := io.ReadFull(client, pre); err != nil {
			return nil, err
		}
		l := binary.BigEndian.Uint32(pre)
		if l < 10 || l > 1<<22 {
			return pre, fmt.Errorf("peer read length field %d", l)
		}
		rest := make([]byte, l)
		if _, err := io.ReadFull(client, rest); err != nil {
			return append(pre, rest...), err
		}
		return append(pre, rest...), nil
	}
	var modelLines []string
	var modelWant []string
	var modelReplay []any
	n := c.Pick(200, 3000)
	for i := 0; i < n; i++ {
		body := pick()
		st, f, sys := uint8(c03Streams[r.IntN(6)]), uint8(r.IntN(256)), c03Sys[r.IntN(len(c03Sys))]
		sid := c03Sids[r.IntN(len(c03Sids))]
		mode := []string{"forward", "forward-async", "send-async", "send-sync", "reply", "forward-family"}[i%6]
		w := r.IntN(2) == 0 && f%2 == 1
		replay := map[string]any{"mode": mode, "role": role, "stream": st, "function": f, "w": w, "session_id": sid, "system_bytes": sysHex(sys), "body": clip(body.arg, 1000)}
		c.Count(fmt.Sprintf("wire|%s|%s|%d|%d|%v|%d|%s|%s", role, mode, st, f, w, sid, sysHex(sys), body.arg), true)
		c.Stat("wire:" + role + ":" + mode)
		var got, want []byte
		var rerr error
		ctx, cancel := context.WithTimeout(context.Background(), 4*time.Second)
		switch mode {
		case "forward", "forward-async":
			msg, err := hsms.NewDataMessage(st, f, w, sid, sys, body.real)
			if err != nil {
				cancel()
				continue
			}
			want = msg.ToBytes()
			if mode == "forward" {
				done := make(chan error, 1)
				go func() { done <- conn.ForwardDataMessage(ctx, msg) }() // net.Pipe: the write completes when the peer reads
				got, rerr = readFrame()
				if e := <-done; e != nil && rerr == nil {
					rerr = e
				}
			} else {
				if e := conn.ForwardDataMessageAsync(ctx, msg); e != nil {
					rerr = e
				} else {
					got, rerr = readFrame()
				}
			}
		case "forward-family":
			// the original is sent first, then a re-stamped copy of it (they share lazy state): the socket must
			// carry the copy's own header (after seeded change C03b-2)
			msg, err := hsms.NewDataMessage(st, f, w, sid, sys, body.real)
			if err != nil {
				cancel()
				continue
			}
			sys2 := c03Sys[r.IntN(len(c03Sys))]
			sid2 := c03Sids[r.IntN(len(c03Sids))]
			var cp hsms.Message = msg.WithSystemBytes(sys2)
			if r.IntN(2) == 0 {
				cp = cp.(*hsms.DataMessage).WithSessionID(sid2)
			} else {
				sid2 = sid
			}
			done := make(chan error, 1)
			go func() { done <- conn.ForwardDataMessage(ctx, msg) }()
			first, e1 := readFrame()
			if e := <-done; e != nil && e1 == nil {
				e1 = e
			}
			if e1 != nil {
				rerr = e1
				break
			}
			if !bytes.Equal(first, msg.ToBytes()) {
				c.Violate("property", "wire-differs-from-tobytes", "forward-family: the original went out differently from its ToBytes", replay)
			}
			go func() { done <- conn.ForwardDataMessage(ctx, cp.(*hsms.DataMessage)) }()
			got, rerr = readFrame()
			if e := <-done; e != nil && rerr == nil {
				rerr = e
			}
			want = cp.ToBytes()
			sid, sys = sid2, sys2
		case "send-async":
			if e := conn.SendDataMessageAsync(ctx, st, f, w, body.real); e != nil {
				rerr = e
				break
			}
			got, rerr = readFrame()
			if rerr == nil { // the connection stamps its own session id and fresh system bytes
				var sb [4]byte
				copy(sb[:], got[10:14])
				msg, _ := hsms.NewDataMessage(st, f, w, 0x0102, sb, body.real)
				want = msg.ToBytes()
				sid, sys = 0x0102, sb
			}
		case "send-sync":
			f |= 1
			type res struct {
				m *hsms.DataMessage
				e error
			}
			done := make(chan res, 1)
			go func() { m, e := conn.SendDataMessage(ctx, st, f, true, body.real); done <- res{m, e} }()
			got, rerr = readFrame()
			if rerr == nil {
				var sb [4]byte
				copy(sb[:], got[10:14])
				msg, _ := hsms.NewDataMessage(st, f, true, 0x0102, sb, body.real)
				want = msg.ToBytes()
				sid, sys, w = 0x0102, sb, true
				// the peer answers with the secondary: same system bytes, function+1
				sec, _ := hsms.NewDataMessage(st, f+1, false, 0x0102, sb, replyItem)
				client.SetWriteDeadline(time.Now().Add(3 * time.Second))
				if _, e := client.Write(sec.ToBytes()); e != nil {
					rerr = e
				}
				rr := <-done
				if rerr == nil && (rr.e != nil || rr.m == nil || !bytes.Equal(rr.m.ToBytes(), sec.ToBytes())) {
					c.Violate("property", "wire-reply-not-returned", fmt.Sprintf("SendDataMessage did not return the peer's secondary: %v", rr.e), replay)
				}
			} else {
				cancel()
				<-done
			}
		case "reply":
			f |= 1
			prim, _ := hsms.NewDataMessage(st, f, true, sid, sys, body.real)
			client.SetWriteDeadline(time.Now().Add(3 * time.Second))
			if _, e := client.Write(prim.ToBytes()); e != nil {
				rerr = e
				break
			}
			got, rerr = readFrame()
			sec, _ := hsms.NewDataMessage(st, f+1, false, 0x0102, sys, replyItem)
			want = sec.ToBytes()
			f, w, sid, body = f+1, false, 0x0102, c03Body{arg: "L 2 A 61636b U1 1 0", real: replyItem}
		}
		cancel()
		if rerr != nil {
			c.Violate("property", "wire-send-failed", fmt.Sprintf("%s: %v (peer read %s)", mode, rerr, clip(hexs(got), 120)), replay)
			return
		}
		if !bytes.Equal(got, want) {
			c.Violate("property", "wire-differs-from-tobytes", fmt.Sprintf("%s: the peer read %s, ToBytes is %s", mode, clip(hexs(got), 160), clip(hexs(want), 160)), replay)
			continue
		}
		var bb []byte
		if body.real != nil {
			bb = body.real.ToBytes()
		}
		if what := c03LayoutData(got, c03Data{st, f, w, sid, sys, body}, bb); what != "" {
			c.Violate("property", "frame-layout-data", mode+" on the wire: "+what, replay)
		}
		modelLines = append(modelLines, c03Data{st, f, w, sid, sys, body}.line())
		modelWant = append(modelWant, "ok "+hexs(got)+" ")
		modelReplay = append(modelReplay, replay)
	}
	if c.Lean != nil {
		ans := c.Lean.AskAll(modelLines)
		for j := range ans {
			if !strings.HasPrefix(ans[j], modelWant[j]) {
				c.Violate("correspondence", "wire-model", fmt.Sprintf("peer read %s, model %s", clip(modelWant[j], 160), clip(ans[j], 160)), modelReplay[j])
			}
		}
		c.Res.Traces += len(modelLines)
	}
}
