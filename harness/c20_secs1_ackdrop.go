package main

// C20 over the SECS-I transport: "the peer ACKs the last block of a message and drops the line at once".
//
// The engine's report of the completed send (req.done <- nil) and the generation's teardown broadcast (genDone, closed by the
// teardown the dropped line sets off) become ready within a few goroutine switches of each other; the sender sits in
// `select { <-req.done | <-gs.genDone }`.  A message whose blocks were ALL acknowledged by the peer is a sent message: the send
// call must not come back with the connection-closed WRITE outcome, and DataMsgSendCount must count it (finding fixed by c77bf45;
// theorems acked_in_full_is_counted / gap_trace_no_longer_enabled in Props/C20.lean).  The window is scheduling dependent, so the
// rounds are run in this process and in child processes of the harness binary with GOMAXPROCS=1 and GOMAXPROCS=2.
//
// Every in-process round is also recorded and replayed through the Lean model of the transport (s1t.replay): a sender that leaves
// Write through the teardown broadcast although the engine's report is in is a step the model does not allow.

import (
	"bytes"
	"context"
	"fmt"
	"net"
	"os"
	"os/exec"
	"strconv"
	"strings"
	"sync/atomic"
	"time"

	"github.com/arloliu/go-secs/v2/hsms"
	"github.com/arloliu/go-secs/v2/secs1"
	"github.com/arloliu/go-secs/v2/secs2"
)

func init() {
	if mode := os.Getenv("VERIF_S1ACK_CHILD"); mode != "" {
		c20AckDropChild(mode) // never returns
	}
}

type c20AckDropRound struct {
	Round   int    `json:"round"`
	Equip   bool   `json:"equipment_role"`
	Blocks  int    `json:"blocks"`
	W       bool   `json:"w_bit"`
	Acked   bool   `json:"peer_acked_every_block"`
	Outcome string `json:"outcome"`
	Err     string `json:"err,omitempty"`
	Sent    uint64 `json:"data_msg_send_count"`
	rec     *s1tRec
	calls   []s1tCall
	m       rMetrics
	blk     *secs1.ConnectionMetrics
}

// c20AckDropOne runs one round: a fresh connection, one message of `blocks` blocks, the raw peer grants and ACKs every block and
// closes the pipe right after the last ACK.
func c20AckDropOne(round int, equip bool, blocks int, wbit bool) (r c20AckDropRound, fail string) {
	r = c20AckDropRound{Round: round, Equip: equip, Blocks: blocks, W: wbit, rec: newS1tRec(map[bool]string{true: "equipment", false: "host"}[equip])}
	a, b := net.Pipe()
	var used atomic.Bool
	opts := []secs1.Option{secs1.WithActive(), secs1.WithDeviceID(1), secs1.WithT1(200 * time.Millisecond), secs1.WithT2(500 * time.Millisecond),
		secs1.WithRetryLimit(1), secs1.WithConnectionOption(hsms.WithCloseTimeout(time.Second)), secs1.WithConnectionOption(hsms.WithT3(2 * time.Second)),
		secs1.WithConnectionOption(hsms.WithLogger(rNopLogger{})),
		secs1.WithDialer(func(ctx context.Context, _, _ string) (net.Conn, error) {
			if used.Swap(true) {
				<-ctx.Done() // no second generation: the link stays down
				return nil, ctx.Err()
			}
			return r.rec.wrap(a), nil
		})}
	if equip {
		opts = append(opts, secs1.WithEquipment())
	} else {
		opts = append(opts, secs1.WithHost())
	}
	cfg, err := secs1.NewConfig("127.0.0.1", 5000, opts...)
	if err != nil {
		return r, err.Error()
	}
	conn, err := secs1.VerifNewTraced(cfg, r.rec.tr) // = secs1.New with the transport's calls bracketed by the recorder
	if err != nil {
		return r, err.Error()
	}
	r.rec.blockSend = conn.BlockMetrics().BlockSendCount
	acked := make(chan bool, 1)
	go func() {
		buf := make([]byte, 1)
		rd := func() (byte, bool) {
			_ = b.SetReadDeadline(time.Now().Add(3 * time.Second))
			if _, e := b.Read(buf); e != nil {
				return 0, false
			}
			return buf[0], true
		}
		for k := 0; k < blocks; k++ {
			for {
				c, ok := rd()
				if !ok {
					acked <- false
					return
				}
				if c == 0x05 {
					break
				}
			}
			if _, e := b.Write([]byte{0x04}); e != nil {
				acked <- false
				return
			}
			l, ok := rd()
			if !ok {
				acked <- false
				return
			}
			for i := 0; i < int(l)+2; i++ {
				if _, ok := rd(); !ok {
					acked <- false
					return
				}
			}
			if _, e := b.Write([]byte{0x06}); e != nil {
				acked <- false
				return
			}
		}
		r.rec.notePeerClose(0)
		_ = b.Close() // right after the last ACK
		acked <- true
	}()
	if err := conn.Open(context.Background(), hsms.OpenBackground); err != nil {
		_ = b.Close()
		return r, "open: " + err.Error()
	}
	for i := 0; i < 2000 && conn.State() != hsms.SelectedState; i++ {
		time.Sleep(time.Millisecond)
	}
	if conn.State() != hsms.SelectedState {
		_ = b.Close()
		_ = conn.Close()
		return r, "not selected"
	}
	var item secs2.Item = secs2.NewUintItem(4, uint32(round))
	if blocks > 1 {
		p := bytes.Repeat([]byte{0x5a}, 244*(blocks-1)+20)
		p[0], p[1], p[2], p[3] = byte(round>>24), byte(round>>16), byte(round>>8), byte(round)
		item = secs2.NewBinaryItem(p)
	}
	call := s1tCall{Idx: 0, Kind: map[bool]string{true: "s", false: "f"}[wbit], Tag: int64(round), StartSt: rStamp()}
	ctx, cancel := context.WithTimeout(context.Background(), 4*time.Second)
	reply, serr := conn.SendDataMessage(ctx, 1, 1, wbit, item)
	cancel()
	var cr rCallResult
	rClassify(reply, serr, &cr)
	if cr.Outcome == "nilnil" {
		cr.Outcome = "sent"
	}
	call.Outcome, call.EndSt = cr.Outcome, rStamp()
	r.Outcome, r.Err = cr.Outcome, cr.Err
	select {
	case r.Acked = <-acked:
	case <-time.After(5 * time.Second):
	}
	r.Sent = conn.Metrics().DataMsgSendCount()
	_ = conn.Close()
	_ = b.Close()
	r.calls, r.m, r.blk = []s1tCall{call}, rReadMetrics(conn), conn.BlockMetrics()
	return r, ""
}

// gap: the peer acknowledged every block, yet the message is not counted as sent or (non-W) the call did not return nil
func (r c20AckDropRound) gap() bool {
	if !r.Acked {
		return false
	}
	if r.Sent != 1 {
		return true
	}
	if !r.W {
		return r.Outcome != "sent"
	}
	return r.Outcome != "closed" && r.Outcome != "timeout" && r.Outcome != "reply" && r.Outcome != "ctx" // reply-wait outcomes
}

func c20AckDropShape(k int) (equip bool, blocks int, wbit bool) {
	return k%4 >= 2, []int{1, 1, 2, 1, 3}[k%5], k%3 == 2
}

// c20AckDropChild: `rounds` rounds without the model, under the GOMAXPROCS the parent set; one summary line on stdout.
func c20AckDropChild(mode string) {
	rounds, _ := strconv.Atoi(mode)
	acked, gaps, fails := 0, 0, 0
	first := ""
	for k := 0; k < rounds; k++ {
		eq, nb, w := c20AckDropShape(k)
		r, fail := c20AckDropOne(k, eq, nb, w)
		if fail != "" {
			fails++
			continue
		}
		if r.Acked {
			acked++
		}
		if r.gap() {
			gaps++
			if first == "" {
				first = fmt.Sprintf("round %d (%d block(s), W=%v, equipment=%v): outcome %s (%s), DataMsgSendCount %d", k, nb, w, eq, r.Outcome, r.Err, r.Sent)
			}
		}
	}
	fmt.Printf("ACKDROP rounds=%d acked=%d gaps=%d fails=%d first=%s\n", rounds, acked, gaps, fails, first)
	os.Exit(0)
}

func c20SECS1AckDrop(c *Ctx) {
	inproc := c.Pick(150, 600)
	acked, gaps := 0, 0
	for k := 0; k < inproc; k++ {
		if routerStop(c) {
			return
		}
		eq, nb, w := c20AckDropShape(k)
		r, fail := c20AckDropOne(k, eq, nb, w)
		if fail != "" {
			c.Stat("secs1-ackdrop-round-did-not-start")
			continue
		}
		if r.Acked {
			acked++
		}
		replay := map[string]any{"family": "secs1-peer-acks-last-block-and-drops", "round": r}
		if r.gap() {
			gaps++
			c.Violate("property", "secs1-acked-message-not-counted", fmt.Sprintf("SECS-I: the peer acknowledged every block of the message (%d block(s), W=%v, %s role) and dropped the line at once; the send call returned %s (%s) and DataMsgSendCount = %d: "+
				"a message the peer has received in full must come back as sent and be counted", r.Blocks, r.W, r.rec.Name, r.Outcome, r.Err, r.Sent), replay)
		}
		sv, srep := s1tCheck(c, r.rec, r.calls, s1tExpect{M: r.m, Blocks: r.blk, Checked: true})
		for _, v := range sv {
			if srep != nil {
				srep["round"] = r
			}
			c.Violate("correspondence", v[0], v[1], srep)
		}
		c.Count(fmt.Sprintf("secs1-ackdrop|%v|%d|%v", eq, nb, w), r.Acked)
	}
	c.StatN("secs1-ackdrop-rounds", inproc)
	c.StatN("secs1-ackdrop-acked", acked)
	// the same rounds under GOMAXPROCS 1 and 2, in child processes (oracle only)
	exe, err := os.Executable()
	if err != nil {
		c.Note("cannot find own executable: %v", err)
		return
	}
	for _, procs := range []int{1, 2} {
		rounds := c.Pick(120, 600)
		ctx, cancel := context.WithTimeout(context.Background(), 180*time.Second)
		cmd := exec.CommandContext(ctx, exe)
		cmd.Env = append(os.Environ(), fmt.Sprintf("VERIF_S1ACK_CHILD=%d", rounds), fmt.Sprintf("GOMAXPROCS=%d", procs))
		var out, errb bytes.Buffer
		cmd.Stdout, cmd.Stderr = &out, &errb
		runErr := cmd.Run()
		cancel()
		replay := map[string]any{"family": "secs1-peer-acks-last-block-and-drops", "child": true, "GOMAXPROCS": procs, "rounds": rounds}
		i := strings.Index(out.String(), "ACKDROP ")
		if runErr != nil || i < 0 {
			replay["stderr"] = clip(errb.String(), 2000)
			c.Violate("correspondence", "scenario-did-not-start", fmt.Sprintf("secs1 ack-and-drop child (GOMAXPROCS=%d) failed: %v", procs, runErr), replay)
			continue
		}
		var n, a, g, f int
		line := out.String()[i:]
		fmt.Sscanf(line, "ACKDROP rounds=%d acked=%d gaps=%d fails=%d", &n, &a, &g, &f)
		c.StatN(fmt.Sprintf("secs1-ackdrop-child-rounds-gomaxprocs-%d", procs), n)
		c.StatN("secs1-ackdrop-acked", a)
		if g > 0 {
			first := ""
			if j := strings.Index(line, "first="); j >= 0 {
				first = strings.TrimSpace(line[j+6:])
			}
			replay["first"] = first
			c.Violate("property", "secs1-acked-message-not-counted", fmt.Sprintf("SECS-I (GOMAXPROCS=%d): in %d of %d rounds the peer acknowledged every block and dropped the line at once, and the message was not counted as sent / the call returned connection-closed; first: %s", procs, g, a, first), replay)
		}
	}
	c.Stat("scenario:secs1-ack-then-drop")
}
