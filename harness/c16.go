package main

import (
	"context"
	"encoding/hex"
	"errors"
	"fmt"
	"math"
	"math/big"
	"strconv"
	"strings"
	"time"

	"github.com/arloliu/go-secs/v2/hsms"
	"github.com/arloliu/go-secs/v2/hsmsss"
	"github.com/arloliu/go-secs/v2/secs2"
)

func init() {
	register("C16", "constructor argument lists: {NewIntItem, NewUintItem} x byte sizes {1,2,4,8 and invalid} x values at and beyond every width's bounds "+
		"(min-1,min,-1,0,1,max,max+1, +-2^53+-1, 2^63, 2^64-1) x shapes (each of the ten Go integer types as scalar and slice, decimal/hex/signed/garbage/"+
		"overlong strings, []string, mixtures, unsupported types: float, bool, nil, struct, uintptr, named int); binary and boolean argument lists; float "+
		"constructors against an independent Go-side oracle; random list trees with errored / empty children; every send entry point on a live Selected "+
		"connection with an errored body; distinct = distinct (constructor, byte size, argument rendering); non-trivial = at least one argument", runC16)
}

type c16Arg struct {
	goVal any    // what is passed to the constructor
	tokI  string // model token for the int family
	tokU  string // model token for the uint family
}

var bigTwo64 = new(big.Int).Lsh(big.NewInt(1), 64)

// intScalar wraps a mathematical value into a Go integer type that can hold it (choice by pick).
func intScalar(v *big.Int, pick int) (any, bool) {
	type cand struct {
		lo, hi *big.Int
		mk     func(*big.Int) any
	}
	b := func(x int64) *big.Int { return big.NewInt(x) }
	cands := []cand{
		{b(math.MinInt8), b(math.MaxInt8), func(x *big.Int) any { return int8(x.Int64()) }},
		{b(0), b(math.MaxUint8), func(x *big.Int) any { return uint8(x.Uint64()) }},
		{b(math.MinInt16), b(math.MaxInt16), func(x *big.Int) any { return int16(x.Int64()) }},
		{b(0), b(math.MaxUint16), func(x *big.Int) any { return uint16(x.Uint64()) }},
		{b(math.MinInt32), b(math.MaxInt32), func(x *big.Int) any { return int32(x.Int64()) }},
		{b(0), b(math.MaxUint32), func(x *big.Int) any { return uint32(x.Uint64()) }},
		{b(math.MinInt64), b(math.MaxInt64), func(x *big.Int) any { return x.Int64() }},
		{b(math.MinInt64), b(math.MaxInt64), func(x *big.Int) any { return int(x.Int64()) }},
		{b(0), new(big.Int).Sub(bigTwo64, b(1)), func(x *big.Int) any { return x.Uint64() }},
		{b(0), new(big.Int).Sub(bigTwo64, b(1)), func(x *big.Int) any { return uint(x.Uint64()) }},
	}
	var fit []cand
	for _, c := range cands {
		if v.Cmp(c.lo) >= 0 && v.Cmp(c.hi) <= 0 {
			fit = append(fit, c)
		}
	}
	if len(fit) == 0 {
		return nil, false
	}
	return fit[pick%len(fit)].mk(v), true
}

// intSlice builds a typed slice holding all values, if one Go integer type fits them all.
func intSlice(vs []*big.Int, pick int) (any, bool) {
	mk := []func([]*big.Int) (any, bool){
		func(l []*big.Int) (any, bool) {
			o := make([]int64, len(l))
			for i, x := range l {
				if !x.IsInt64() {
					return nil, false
				}
				o[i] = x.Int64()
			}
			return o, true
		},
		func(l []*big.Int) (any, bool) {
			o := make([]uint64, len(l))
			for i, x := range l {
				if !x.IsUint64() {
					return nil, false
				}
				o[i] = x.Uint64()
			}
			return o, true
		},
		func(l []*big.Int) (any, bool) {
			o := make([]int, len(l))
			for i, x := range l {
				if !x.IsInt64() {
					return nil, false
				}
				o[i] = int(x.Int64())
			}
			return o, true
		},
		func(l []*big.Int) (any, bool) {
			o := make([]int32, len(l))
			for i, x := range l {
				if !x.IsInt64() || x.Int64() < math.MinInt32 || x.Int64() > math.MaxInt32 {
					return nil, false
				}
				o[i] = int32(x.Int64())
			}
			return o, true
		},
		func(l []*big.Int) (any, bool) {
			o := make([]uint16, len(l))
			for i, x := range l {
				if !x.IsUint64() || x.Uint64() > math.MaxUint16 {
					return nil, false
				}
				o[i] = uint16(x.Uint64())
			}
			return o, true
		},
		func(l []*big.Int) (any, bool) {
			o := make([]int8, len(l))
			for i, x := range l {
				if !x.IsInt64() || x.Int64() < math.MinInt8 || x.Int64() > math.MaxInt8 {
					return nil, false
				}
				o[i] = int8(x.Int64())
			}
			return o, true
		},
		func(l []*big.Int) (any, bool) {
			o := make([]uint, len(l))
			for i, x := range l {
				if !x.IsUint64() {
					return nil, false
				}
				o[i] = uint(x.Uint64())
			}
			return o, true
		},
		func(l []*big.Int) (any, bool) {
			o := make([]int16, len(l))
			for i, x := range l {
				if !x.IsInt64() || x.Int64() < math.MinInt16 || x.Int64() > math.MaxInt16 {
					return nil, false
				}
				o[i] = int16(x.Int64())
			}
			return o, true
		},
		func(l []*big.Int) (any, bool) {
			o := make([]uint32, len(l))
			for i, x := range l {
				if !x.IsUint64() || x.Uint64() > math.MaxUint32 {
					return nil, false
				}
				o[i] = uint32(x.Uint64())
			}
			return o, true
		},
		func(l []*big.Int) (any, bool) {
			o := make([]uint8, len(l))
			for i, x := range l {
				if !x.IsUint64() || x.Uint64() > math.MaxUint8 {
					return nil, false
				}
				o[i] = uint8(x.Uint64())
			}
			return o, true
		},
	}
	for k := 0; k < len(mk); k++ {
		if s, ok := mk[(pick+k)%len(mk)](vs); ok {
			return s, true
		}
	}
	return nil, false
}

func strTokI(s string) string {
	v, err := strconv.ParseInt(s, 0, 64)
	if err != nil {
		var ne *strconv.NumError
		if errors.As(err, &ne) && errors.Is(ne.Err, strconv.ErrRange) {
			return "r" + strconv.FormatInt(v, 10)
		}
		return "x"
	}
	return "v" + strconv.FormatInt(v, 10)
}

func strTokU(s string) string {
	v, err := strconv.ParseUint(s, 0, 64)
	if err != nil {
		var ne *strconv.NumError
		if errors.As(err, &ne) && errors.Is(ne.Err, strconv.ErrRange) {
			return "r" + strconv.FormatUint(v, 10)
		}
		return "x"
	}
	return "v" + strconv.FormatUint(v, 10)
}

func sTok(t string) string {
	if t == "x" {
		return "s:x"
	}
	return "s:" + t[:1] + ":" + t[1:]
}

type namedInt int

func c16Values() []*big.Int {
	var out []*big.Int
	add := func(x *big.Int) { out = append(out, x) }
	for _, k := range []uint{7, 8, 15, 16, 31, 32, 53, 63, 64} {
		p := new(big.Int).Lsh(big.NewInt(1), k)
		for _, d := range []int64{-2, -1, 0, 1} {
			add(new(big.Int).Add(p, big.NewInt(d)))
			add(new(big.Int).Neg(new(big.Int).Add(p, big.NewInt(d))))
		}
	}
	for _, v := range []int64{0, 1, -1, 2, 5, 100, -100, 127, 128, 255, 256} {
		add(big.NewInt(v))
	}
	var keep []*big.Int
	lo := new(big.Int).Neg(new(big.Int).Lsh(big.NewInt(1), 63))
	hi := new(big.Int).Sub(bigTwo64, big.NewInt(1))
	for _, v := range out {
		if v.Cmp(lo) >= 0 && v.Cmp(hi) <= 0 {
			keep = append(keep, v)
		}
	}
	return keep
}

var c16Strings = []string{"0", "1", "-1", "+5", "127", "128", "-128", "-129", "255", "256", "65535", "65536", "0x7f", "0xff", "0x100", "0XFFFF",
	"0b101", "0o17", "017", "1_000", "-0x80", "9223372036854775807", "9223372036854775808", "-9223372036854775808", "-9223372036854775809",
	"18446744073709551615", "18446744073709551616", "123456789012345678901234567890", " 1", "1 ", "", "1e3", "1.5", "abc", "0x", "--1", "٣"}

func genIntArg(c *Ctx, vals []*big.Int) c16Arg {
	r := c.Rng
	switch r.IntN(10) {
	case 0, 1, 2, 3: // scalar
		v := vals[r.IntN(len(vals))]
		g, _ := intScalar(v, r.IntN(16))
		return c16Arg{g, "i:" + v.String(), "i:" + v.String()}
	case 4, 5: // slice
		n := r.IntN(4)
		for tries := 0; ; tries++ {
			vs := make([]*big.Int, n)
			parts := make([]string, n)
			for i := range vs {
				vs[i] = vals[r.IntN(len(vals))]
				parts[i] = vs[i].String()
			}
			if g, ok := intSlice(vs, r.IntN(16)); ok {
				t := "is:" + strings.Join(parts, ",")
				return c16Arg{g, t, t}
			}
		}
	case 6, 7: // string
		s := c16Strings[r.IntN(len(c16Strings))]
		if r.IntN(3) == 0 {
			s = vals[r.IntN(len(vals))].String()
		}
		return c16Arg{s, sTok(strTokI(s)), sTok(strTokU(s))}
	case 8: // []string
		n := r.IntN(4)
		ss := make([]string, n)
		ti, tu := make([]string, n), make([]string, n)
		for i := range ss {
			ss[i] = c16Strings[r.IntN(len(c16Strings))]
			ti[i], tu[i] = strTokI(ss[i]), strTokU(ss[i])
		}
		return c16Arg{ss, "ss:" + strings.Join(ti, ";"), "ss:" + strings.Join(tu, ";")}
	default: // unsupported
		switch r.IntN(9) {
		case 0:
			return c16Arg{1.5, "f", "f"}
		case 1:
			return c16Arg{float32(2), "f", "f"}
		case 2:
			return c16Arg{[]float64{1}, "f", "f"}
		case 3:
			return c16Arg{true, "b:1", "b:1"}
		case 4:
			return c16Arg{nil, "o", "o"}
		case 5:
			return c16Arg{struct{}{}, "o", "o"}
		case 6:
			return c16Arg{uintptr(3), "o", "o"}
		case 7:
			return c16Arg{namedInt(3), "o", "o"}
		default:
			return c16Arg{[]any{1}, "o", "o"}
		}
	}
}

func runC16(c *Ctx) {
	r := c.Rng
	vals := c16Values()
	type cs struct {
		line  string
		fn    func() secs2.Item
		descr string
	}
	var cases []cs
	// valid widths, small invalid sizes, and invalid sizes that alias a valid width when truncated to 8/16/32 bits
	sizes := []int{1, 2, 4, 8, 1, 2, 4, 8, 0, 3, 5, 16, -1, 1<<32 + 1, 1<<32 + 2, 1<<32 + 4, 1<<32 + 8, -(1 << 32) + 4, 1<<16 + 2, 1<<8 + 1, 1<<63 - 1, -1 << 63, 1<<40 + 8}
	// directed: every value x every fitting scalar type x every valid width, both families
	for _, v := range vals {
		for pick := 0; pick < 10; pick++ {
			g, ok := intScalar(v, pick)
			if !ok {
				continue
			}
			for _, w := range []int{1, 2, 4, 8} {
				gg, ww, tok := g, w, "i:"+v.String()
				cases = append(cases, cs{fmt.Sprintf("c16.new int %d %s", w, tok), func() secs2.Item { return secs2.NewIntItem(ww, gg) }, fmt.Sprintf("NewIntItem(%d, %T(%v))", w, g, g)})
				cases = append(cases, cs{fmt.Sprintf("c16.new uint %d %s", w, tok), func() secs2.Item { return secs2.NewUintItem(ww, gg) }, fmt.Sprintf("NewUintItem(%d, %T(%v))", w, g, g)})
			}
		}
	}
	for _, s := range c16Strings {
		for _, w := range []int{1, 2, 4, 8} {
			ss, ww := s, w
			cases = append(cases, cs{fmt.Sprintf("c16.new int %d %s", w, sTok(strTokI(s))), func() secs2.Item { return secs2.NewIntItem(ww, ss) }, fmt.Sprintf("NewIntItem(%d, %q)", w, s)})
			cases = append(cases, cs{fmt.Sprintf("c16.new uint %d %s", w, sTok(strTokU(s))), func() secs2.Item { return secs2.NewUintItem(ww, ss) }, fmt.Sprintf("NewUintItem(%d, %q)", w, s)})
		}
	}
	for _, w := range sizes[8:] {
		ww := w
		cases = append(cases, cs{fmt.Sprintf("c16.new int %d i:5", w), func() secs2.Item { return secs2.NewIntItem(ww, 5) }, fmt.Sprintf("NewIntItem(%d, 5)", w)})
		cases = append(cases, cs{fmt.Sprintf("c16.new uint %d i:5", w), func() secs2.Item { return secs2.NewUintItem(ww, 5) }, fmt.Sprintf("NewUintItem(%d, 5)", w)})
		cases = append(cases, cs{fmt.Sprintf("c16.new uint %d is:5,6", w), func() secs2.Item { return secs2.NewUintItem(ww, []uint16{5, 6}) }, fmt.Sprintf("NewUintItem(%d, []uint16{5,6})", w)})
	}
	// random argument lists
	for n := 0; n < c.Pick(6000, 120000); n++ {
		w := sizes[r.IntN(len(sizes))]
		k := r.IntN(5)
		args := make([]c16Arg, k)
		gos := make([]any, k)
		ti, tu := make([]string, k), make([]string, k)
		for i := range args {
			args[i] = genIntArg(c, vals)
			gos[i], ti[i], tu[i] = args[i].goVal, args[i].tokI, args[i].tokU
		}
		ww := w
		d := fmt.Sprintf("%d %v", w, gos)
		cases = append(cases, cs{fmt.Sprintf("c16.new int %d %s", w, strings.Join(ti, " ")), func() secs2.Item { return secs2.NewIntItem(ww, gos...) }, "NewIntItem " + d})
		cases = append(cases, cs{fmt.Sprintf("c16.new uint %d %s", w, strings.Join(tu, " ")), func() secs2.Item { return secs2.NewUintItem(ww, gos...) }, "NewUintItem " + d})
	}
	// binary / boolean
	for n := 0; n < c.Pick(1500, 20000); n++ {
		k := r.IntN(5)
		gos := make([]any, k)
		tb, tl := make([]string, k), make([]string, k)
		for i := 0; i < k; i++ {
			switch r.IntN(8) {
			case 0:
				v := []int{-1, 0, 1, 255, 256, 1000}[r.IntN(6)]
				gos[i], tb[i], tl[i] = v, fmt.Sprintf("i:%d", v), fmt.Sprintf("i:%d", v)
			case 1:
				v := byte(r.IntN(256))
				gos[i], tb[i], tl[i] = v, fmt.Sprintf("i:%d", v), fmt.Sprintf("i:%d", v)
			case 2:
				m := r.IntN(4)
				b := make([]byte, m)
				parts := make([]string, m)
				for j := range b {
					b[j] = byte(r.IntN(256))
					parts[j] = strconv.Itoa(int(b[j]))
				}
				gos[i], tb[i], tl[i] = b, "is:"+strings.Join(parts, ","), "is:"+strings.Join(parts, ",")
			case 3:
				s := []string{"0", "255", "256", "0x7f", "-1", "abc", "", "1e2", "99999999999999999999"}[r.IntN(9)]
				t := "s:x"
				if v, err := strconv.ParseInt(s, 0, 0); err == nil {
					t = fmt.Sprintf("s:v:%d", v)
				}
				gos[i], tb[i], tl[i] = s, t, t
			case 4:
				v := r.IntN(2) == 0
				gos[i], tb[i], tl[i] = v, "b:"+c16bit(v), "b:"+c16bit(v)
			case 5:
				m := r.IntN(4)
				bs := make([]bool, m)
				var sb strings.Builder
				for j := range bs {
					bs[j] = r.IntN(2) == 0
					sb.WriteString(c16bit(bs[j]))
				}
				gos[i], tb[i], tl[i] = bs, "bs:"+sb.String(), "bs:"+sb.String()
			case 6:
				gos[i], tb[i], tl[i] = int16(5), "o", "o" // binary accepts only int/byte/[]byte/string
			default:
				gos[i], tb[i], tl[i] = nil, "o", "o"
			}
		}
		cases = append(cases, cs{"c16.new bin 0 " + strings.Join(tb, " "), func() secs2.Item { return secs2.NewBinaryItem(gos...) }, fmt.Sprintf("NewBinaryItem %v", gos)})
		cases = append(cases, cs{"c16.new bool 0 " + strings.Join(tl, " "), func() secs2.Item { return secs2.NewBooleanItem(gos...) }, fmt.Sprintf("NewBooleanItem %v", gos)})
	}
	var ans []string
	if c.Lean != nil {
		lines := make([]string, len(cases))
		for i, k := range cases {
			lines[i] = k.line
		}
		ans = c.Lean.AskAll(lines)
	}
	for i, k := range cases {
		c.Count(k.line, len(strings.Fields(k.line)) > 3)
		c.Stat("ctor:" + strings.Fields(k.line)[1])
		var it secs2.Item
		replay := map[string]any{"call": clip(k.descr, 400), "model_line": clip(k.line, 400)}
		if p := safely(func() { it = k.fn() }); p != nil {
			c.Violate("property", "constructor-panic", fmt.Sprintf("%s panicked: %v", clip(k.descr, 200), p), replay)
			continue
		}
		got := "err"
		if it.Error() == nil {
			got = "ok " + Describe(it)
			c.Stat("result:ok")
		} else {
			c.Stat("result:err")
			// an errored item is never equal to anything, is refused by the message constructor, encodes to nothing
			if secs2.Equal(it, it) {
				c.Violate("property", "errored-item-equal", "an item with a non-nil Error() is Equal to itself", replay)
			}
			if _, err := hsms.NewDataMessage(1, 1, true, 0, [4]byte{}, it); err == nil {
				c.Violate("property", "errored-item-accepted-by-message", "NewDataMessage accepted an item with a non-nil Error()", replay)
			}
			if _, err := hsms.NewDataMessage(1, 1, true, 0, [4]byte{}, secs2.L(secs2.A("x"), secs2.L(it))); err == nil {
				c.Violate("property", "errored-item-accepted-by-message", "NewDataMessage accepted a list with a nested errored item", replay)
			}
			// the header-based constructor is a message constructor too (added after seeded change C16f-2)
			hdr := [10]byte{0, 0, 0x81, 1, 0, 0, 0, 0, 0, 7}
			if m, err := hsms.NewDataMessageFromHeader(hdr, it); err == nil {
				c.Violate("property", "errored-item-accepted-by-message", fmt.Sprintf("NewDataMessageFromHeader accepted an item with a non-nil Error(); it would be written as % x", m.ToBytes()), replay)
			}
			if m, err := hsms.NewDataMessageFromHeader(hdr, secs2.L(secs2.A("x"), secs2.L(it))); err == nil {
				c.Violate("property", "errored-item-accepted-by-message", fmt.Sprintf("NewDataMessageFromHeader accepted a list with a nested errored item; it would be written as % x", m.ToBytes()), replay)
			}
		}
		if ans != nil && ans[i] != got {
			// The model is the property's reading of the constructors (clamp to the nearest bound, documented error classes).
			c.Violate("property", "constructor-differs-from-model", fmt.Sprintf("%s -> %s ; clamp/err model -> %s", clip(k.descr, 200), clip(got, 160), clip(ans[i], 160)), replay)
		}
		if i%3001 == 0 {
			c.Sample(map[string]any{"call": clip(k.descr, 160), "result": clip(got, 120)})
		}
	}
	c16Floats(c)
	c16Lists(c)
	c16Live(c)
	c.Res.Traces = len(cases)
}

func c16bit(b bool) string {
	if b {
		return "1"
	}
	return "0"
}

// c16Floats: float constructors against an independent oracle (IEEE arithmetic is not modelled in Lean).
func c16Floats(c *Ctx) {
	r := c.Rng
	maxF4 := float64(math.MaxFloat32)
	expectBits := func(w int, v float64) uint64 {
		if w == 4 {
			if !math.IsNaN(v) && !math.IsInf(v, 0) {
				if v > maxF4 {
					v = maxF4
				} else if v < -maxF4 {
					v = -maxF4
				}
			}
			return uint64(math.Float32bits(float32(v)))
		}
		return math.Float64bits(v)
	}
	for n := 0; n < c.Pick(4000, 60000); n++ {
		w := []int{4, 8, 4, 8, 4, 8, 0, 2, 16, 1<<32 + 4, 1<<32 + 8, -4}[r.IntN(12)]
		k := 1 + r.IntN(3)
		var gos []any
		exp := &LItem{Kind: "F", W: w}
		wantErr := w != 4 && w != 8
		for i := 0; i < k; i++ {
			switch r.IntN(7) {
			case 0, 1:
				v := math.Float64frombits(genFloatBits(r, 8))
				if r.IntN(3) == 0 {
					v = []float64{maxF4, maxF4 * 1.0000001, maxF4 * 2, -maxF4 * 2, math.MaxFloat64, 3.4028235677973366e+38, 1e39, -1e39}[r.IntN(8)]
				}
				gos = append(gos, v)
				exp.Bits = append(exp.Bits, expectBits(w, v))
			case 2:
				b := uint32(genFloatBits(r, 4))
				v := math.Float32frombits(b)
				gos = append(gos, v)
				exp.Bits = append(exp.Bits, expectBits(w, float64(v)))
			case 3:
				v := []int64{0, 1, -1, 1 << 53, 1<<53 + 1, -(1 << 53), -(1 << 53) - 1, math.MaxInt64, 1 << 24, 16777217}[r.IntN(10)]
				gos = append(gos, v)
				if v > 1<<53 || v < -(1<<53) {
					wantErr = true
				}
				exp.Bits = append(exp.Bits, expectBits(w, float64(v)))
			case 4:
				v := []uint64{0, 1 << 53, 1<<53 + 1, math.MaxUint64}[r.IntN(4)]
				gos = append(gos, v)
				if v > 1<<53 {
					wantErr = true
				}
				exp.Bits = append(exp.Bits, expectBits(w, float64(v)))
			case 5:
				s := []string{"1.5", "-0", "1e400", "-1e400", "NaN", "Inf", "3.5e38", "abc", "", "0x1p-2", "1_0"}[r.IntN(11)]
				gos = append(gos, s)
				v, err := strconv.ParseFloat(s, 64)
				if err != nil {
					wantErr = true
				}
				exp.Bits = append(exp.Bits, expectBits(w, v))
			default:
				gos = append(gos, []any{true, nil, struct{}{}}[r.IntN(3)])
				wantErr = true
			}
		}
		c.Count(fmt.Sprintf("float|%d|%v", w, gos), true)
		c.Stat("ctor:float")
		replay := map[string]any{"call": fmt.Sprintf("NewFloatItem(%d, %v)", w, gos)}
		var it secs2.Item
		if p := safely(func() { it = secs2.NewFloatItem(w, gos...) }); p != nil {
			c.Violate("property", "constructor-panic", fmt.Sprintf("NewFloatItem panicked: %v", p), replay)
			continue
		}
		if wantErr != (it.Error() != nil) {
			c.Violate("property", "float-constructor-error-class", fmt.Sprintf("expected error=%v, got Error()=%v", wantErr, it.Error()), replay)
			continue
		}
		if !wantErr {
			if d := Describe(it); d != exp.TextCanon() {
				c.Violate("property", "float-constructor-values", fmt.Sprintf("got %s want %s (clamped to +-MaxFloat32, never wrapped/inf)", clip(d, 160), clip(exp.TextCanon(), 160)), replay)
			}
		}
	}
}

// c16Lists: random trees with errored and empty children vs the model's error aggregation.
func c16Lists(c *Ctx) {
	r := c.Rng
	var gen func(d int) (string, secs2.Item)
	gen = func(d int) (string, secs2.Item) {
		switch x := r.IntN(7); {
		case x == 0:
			return "E", secs2.NewEmptyItem()
		case x == 1:
			return "X", secs2.NewIntItem(3, 1) // errored leaf (invalid byte size)
		case x <= 3 || d == 0:
			return "A", secs2.A("")
		default:
			n := r.IntN(4)
			toks := []string{"("}
			kids := make([]secs2.Item, n)
			for i := 0; i < n; i++ {
				t, k := gen(d - 1)
				toks = append(toks, t)
				kids[i] = k
			}
			toks = append(toks, ")")
			return strings.Join(toks, " "), secs2.NewListItem(kids...)
		}
	}
	// a list owns its children: the caller reusing the slice it passed to L(kids...) for an errored item afterwards must
	// not smuggle that item under a list whose Error() was computed at construction (after seeded change C16g-2)
	for n := 2; n <= 5; n++ {
		kids := make([]secs2.Item, n)
		for i := range kids {
			kids[i] = secs2.A(fmt.Sprint("k", i))
		}
		list := secs2.NewListItem(kids...)
		before := hex.EncodeToString(list.ToBytes())
		kids[n-1] = secs2.NewUintItem(2, "seven") // errored
		c.Count(fmt.Sprintf("list-owns-children|%d", n), true)
		c.Stat("ctor:list-caller-slice-reused")
		replay := map[string]any{"children": n, "step": "L(kids...) from clean children, then kids[last] = errored item, then NewDataMessage(list)"}
		m, err := hsms.NewDataMessage(1, 1, true, 0, [4]byte{}, list)
		switch {
		case list.Error() != nil && err == nil:
			c.Violate("property", "errored-item-accepted-by-message", "a list reporting Error() != nil was accepted by NewDataMessage", replay)
		case list.Error() == nil && err == nil:
			if body := hex.EncodeToString(m.ToBytes()[14:]); body != before {
				c.Violate("property", "errored-item-reaches-wire-under-clean-list", fmt.Sprintf("the caller reused its slice for an errored item after building the list: Error() is nil, NewDataMessage accepted it, and the body is %s (was %s)", body, before), replay)
			}
		}
	}
	type lc struct {
		tok string
		it  secs2.Item
	}
	var cases []lc
	for n := 0; n < c.Pick(3000, 40000); n++ {
		t, it := gen(4)
		if !strings.HasPrefix(t, "(") {
			t, it = "( "+t+" )", secs2.NewListItem(it)
		}
		cases = append(cases, lc{t, it})
	}
	var ans []string
	if c.Lean != nil {
		lines := make([]string, len(cases))
		for i, k := range cases {
			lines[i] = "c16.list " + k.tok
		}
		ans = c.Lean.AskAll(lines)
	}
	for i, k := range cases {
		c.Count("list|"+k.tok, strings.Contains(k.tok, "X") || strings.Contains(k.tok, "E"))
		c.Stat("ctor:list")
		errNonNil := k.it.Error() != nil
		_, merr := hsms.NewDataMessage(1, 1, true, 0, [4]byte{}, k.it)
		got := fmt.Sprintf("errored=%s error=%s accepts=%s size=%d", c16bit(strings.Contains(k.tok, "X")), c16bit(errNonNil), c16bit(merr == nil), k.it.Size())
		replay := map[string]any{"tree": k.tok}
		if strings.Contains(k.tok, "X") != errNonNil {
			c.Violate("property", "list-error-aggregation", fmt.Sprintf("tree %s: Error()!=nil is %v", k.tok, errNonNil), replay)
		}
		if errNonNil == (merr == nil) {
			c.Violate("property", "errored-item-accepted-by-message", fmt.Sprintf("tree %s: Error()!=nil=%v but NewDataMessage err=%v", k.tok, errNonNil, merr), replay)
		}
		if _, herr := hsms.NewDataMessageFromHeader([10]byte{0, 0, 0x81, 1, 0, 0, 0, 0, 0, 7}, k.it); errNonNil == (herr == nil) {
			c.Violate("property", "errored-item-accepted-by-message", fmt.Sprintf("tree %s: Error()!=nil=%v but NewDataMessageFromHeader err=%v", k.tok, errNonNil, herr), replay)
		}
		if secs2.Equal(k.it, k.it) == errNonNil {
			c.Violate("property", "errored-item-equal", fmt.Sprintf("tree %s: Equal(x,x)=%v with Error()!=nil=%v", k.tok, !errNonNil, errNonNil), replay)
		}
		if ans != nil && ans[i] != got {
			c.Violate("property", "list-differs-from-model", fmt.Sprintf("tree %s: implementation %s ; model %s", k.tok, got, ans[i]), replay)
		}
	}
}

// c16Live: every send entry point on a live Selected connection refuses an errored body and writes nothing.
func c16Live(c *Ctx) {
	peer := &recordingPeer{}
	cfg, err := hsmsss.NewConfig("127.0.0.1", 5000, hsmsss.WithActive(), hsmsss.WithDialer(peer.dial),
		hsmsss.WithConnectionOption(hsms.WithT3(300*time.Millisecond)),
		hsmsss.WithConnectionOption(hsms.WithLinktestInterval(time.Hour)))
	if err != nil {
		c.Note("c16 live setup failed: %v", err)
		return
	}
	conn, err := hsmsss.New(cfg)
	if err != nil {
		c.Note("c16 live setup failed: %v", err)
		return
	}
	ctx, cancel := context.WithTimeout(context.Background(), 3*time.Second)
	defer cancel()
	if err := conn.Open(ctx, hsms.OpenWaitSelected); err != nil {
		c.Violate("correspondence", "c16-live-open", "could not open a connection against the scripted peer: "+err.Error(), nil)
		return
	}
	defer conn.Close()
	bad := secs2.L(secs2.A("ok"), secs2.L(secs2.NewUintItem(2, -1)))
	good, _ := hsms.NewDataMessage(1, 1, true, 0, [4]byte{0, 0, 0, 9}, secs2.A("p"))
	calls := map[string]func() error{
		"SendDataMessage":      func() error { _, e := conn.SendDataMessage(ctx, 1, 1, true, bad); return e },
		"SendDataMessageAsync": func() error { return conn.SendDataMessageAsync(ctx, 1, 1, false, bad) },
		"SendSECS2Message":     func() error { _, e := conn.SendSECS2Message(ctx, secs2.NewMessage(1, 1, true, bad)); return e },
		"ReplyDataMessage":     func() error { return conn.ReplyDataMessage(ctx, good, bad) },
	}
	for name, f := range calls {
		c.Count("live|"+name, true)
		c.Stat("live-send")
		var e error
		if p := safely(func() { e = f() }); p != nil {
			c.Violate("property", "send-panic", fmt.Sprintf("%s with an errored body panicked: %v", name, p), map[string]any{"call": name})
			continue
		}
		if e == nil {
			c.Violate("property", "errored-body-sent", name+" accepted a body whose Error() is non-nil", map[string]any{"call": name})
		}
	}
	// a barrier round trip so anything wrongly written would have reached the peer by now
	if _, e := conn.SendDataMessage(ctx, 1, 13, false, secs2.A("barrier")); e != nil {
		c.Note("c16 live barrier send failed: %v", e)
	}
	time.Sleep(20 * time.Millisecond)
	if n := peer.dataFrames(); n != 1 {
		c.Violate("property", "errored-body-on-wire", fmt.Sprintf("peer received %d data frames, expected only the barrier", n), nil)
	}
}
