package main

// C19, timeline family "the link is probed — and a dead peer dropped after exactly `threshold` probe timeouts — also AFTER a
// data send whose socket write genuinely failed" (real connections, linktest + suppression on).
//
// Suppression rule 2 ("no probe while a reply is outstanding") and the liveness credit read a value the SEND path keeps: the
// number of W-bit data sends between "written" and "reply wait over".  The timelines of c19.go never make a send fail, so a
// send path that leaves that value off balance on an error branch silences the linktest without any of them noticing.  Here:
//
//   1. active connection (harness-owned socket, c20_writefail.go: wfNet / wfConn over the scripted peer's net.Pipe),
//      auto-linktest on (interval = T6 = 60 ms), threshold 1..3, suppression on (off as a control); healthy W-bit round trip
//   2. one or more sends whose transport write fails: the core's bounded write (100 ms) expires against a peer that stopped
//      reading mid-frame / the socket reports EPIPE or a net timeout on the prefix or on the body / the peer resets the
//      connection under the write.  The library drops the generation and reconnects by itself (a link that survives the
//      failed write keeps being used); a healthy W-bit round trip on the new generation
//   3. nothing is outstanding now (every call has returned).  The peer goes SILENT: it stays connected, reads, answers nothing.
//
// Oracles (implementation side): the library closes the connection (dead-link-not-dropped) after exactly `threshold`
// unanswered Linktest.req (dead-link-probe-count), no earlier than threshold x T6 + (threshold-1) x interval and no later than
// interval + threshold x (interval + T6) + 3 cycles + 1 s after the peer fell silent (dead-link-window); if not a single probe
// was sent in that time although the line was idle and no send was running: no-probe-sent-although-nothing-outstanding; the
// in-flight gauge reads 0 once every call has returned (inflight-gauge-nonzero-with-nothing-outstanding).  A timeline that
// misbehaves is run again with every timer x3 before it is reported.

import (
	"context"
	"fmt"
	"os"
	"strings"
	"sync"
	"time"

	"github.com/arloliu/go-secs/v2/hsms"
)

// debugging aid: VERIF_C19_ONLY=writefail runs this family alone (c19.go's init has registered the runner: files
// initialise in name order)
func init() {
	if r, ok := registry["C19"]; ok && os.Getenv("VERIF_C19_ONLY") == "writefail" {
		r.fn = c19WriteFail
		registry["C19"] = r
	}
}

type c19wfSpec struct {
	Name      string   `json:"name"`
	Fails     []wfStep `json:"failing_sends"` // in order; each followed by the reconnect and a healthy round trip
	Threshold int      `json:"threshold"`
	Suppress  bool     `json:"suppress"`
	// Queued: W-bit sends started while the failing write is blocked (deadline / reset kinds), so that they wait for the
	// write lock and are released by the generation's end without ever reaching the wire (connection-closed or not-selected:
	// outcomes that change no error counter — and must leave the in-flight gauge alone). After seeded change C19g-2.
	Queued int `json:"queued_behind_the_blocked_write,omitempty"`
}

func (s c19wfSpec) text() string {
	var p []string
	for _, f := range s.Fails {
		p = append(p, fmt.Sprintf("%s/%s@%d", f.Kind, f.Fail, f.At))
	}
	return fmt.Sprintf("writefail:%s suppress=%v k=%d queued=%d", strings.Join(p, ","), s.Suppress, s.Threshold, s.Queued)
}

// c19wfRunOnce runs one timeline with every timer multiplied by scale.
func c19wfRunOnce(sp c19wfSpec, scale int) (fails []wfFail, replay map[string]any, staged string) {
	interval := time.Duration(60*scale) * time.Millisecond
	t6 := time.Duration(60*scale) * time.Millisecond
	wt := time.Duration(100*scale) * time.Millisecond
	cycle := interval + t6
	k := sp.Threshold
	n := &wfNet{peer: newRPeer()}
	t0 := time.Now()
	var evMu sync.Mutex
	var events []string
	ev := func(format string, a ...any) {
		evMu.Lock()
		events = append(events, fmt.Sprintf("%6.1f ms  ", float64(time.Since(t0).Microseconds())/1000)+fmt.Sprintf(format, a...))
		evMu.Unlock()
	}
	replay = map[string]any{"family": "linktest after a data send whose transport write failed", "scenario": sp.text(), "spec": sp, "timer_scale": scale,
		"interval_ms": interval.Milliseconds(), "t6_ms": t6.Milliseconds(), "write_timeout_ms": wt.Milliseconds()}
	fail := func(what, format string, a ...any) {
		fails = append(fails, wfFail{"property", what, fmt.Sprintf(format, a...)})
	}
	conn, err := wfNewConn(n, wfConnOpts{T3: 20 * time.Second, T6: t6, WriteTimeout: wt, Linktest: interval, Threshold: k, Suppress: sp.Suppress})
	if err != nil {
		return nil, replay, "config: " + err.Error()
	}
	conn.AddConnStateChangeHandler(func(prev, next hsms.ConnState) { ev("notification %v > %v", prev, next) })
	var pwg sync.WaitGroup
	n.peer.onFrame = func(g *rGen, f rFrame) {
		if f.PType == 0 && f.SType == byte(hsms.LinktestReqType) {
			ev("peer: Linktest.req on generation %d (answered: %v)", g.id, !n.peer.muteLinktest.Load())
		}
		if !f.IsData() || !f.W() || n.peer.muteLinktest.Load() {
			return
		}
		pwg.Add(1)
		go func() {
			defer pwg.Done()
			n.peer.sendData(g, f.Stream(), f.Fn()+1, false, f.SB, f.Session)
		}()
	}
	var callWG sync.WaitGroup
	done := func() {
		if a := n.arm.Load(); a != nil {
			select {
			case <-a.goFail:
			default:
				close(a.goFail)
			}
		}
		_ = conn.Close()
		n.peer.closeAll()
		pwg.Wait()
		fin := make(chan struct{})
		go func() { callWG.Wait(); close(fin) }()
		select {
		case <-fin:
		case <-time.After(10 * time.Second):
		}
		evMu.Lock()
		replay["timeline"] = append([]string(nil), events...)
		evMu.Unlock()
	}
	octx, ocancel := context.WithTimeout(context.Background(), 10*time.Second)
	err = conn.Open(octx, hsms.OpenWaitSelected)
	ocancel()
	if err != nil {
		done()
		return nil, replay, "open: " + err.Error()
	}
	var tag uint32
	call := func(kind string) (rCallResult, bool) {
		tag++
		tg := tag
		res := make(chan rCallResult, 1)
		callWG.Add(1)
		go func() {
			defer callWG.Done()
			rc, _ := wfDoCall(conn, kind, tg, 0x79000000+tg)
			res <- rc
		}()
		select {
		case rc := <-res:
			return rc, true
		case <-time.After(30 * time.Second):
			return rCallResult{}, false
		}
	}
	roundTrip := func(where string) string {
		rc, ok := call("s")
		if !ok {
			return "the round trip " + where + " did not return"
		}
		ev("round trip %s: %s %s", where, rc.Outcome, rc.Err)
		if rc.Outcome != "reply" {
			return "the round trip " + where + " returned " + rc.Outcome + " " + rc.Err
		}
		return ""
	}
	if s := roundTrip("on generation 0"); s != "" {
		done()
		return nil, replay, s
	}
	for fi, st := range sp.Fails {
		g := n.peer.last()
		var arm *wfArm
		switch st.Fail {
		case "deadline", "reset":
			g.StallT.Store(0)
			g.stallAt.Store(int64(st.At)) // At >= 10: control frames (the probes) are never stalled
		default:
			arm = &wfArm{gen: g.id, mode: st.Fail, body: st.At != 0, inWrite: make(chan struct{}), goFail: make(chan struct{}), fired: make(chan struct{})}
			close(arm.goFail)
			n.arm.Store(arm)
		}
		if st.Fail == "reset" {
			go func() {
				if c09WaitFor(func() bool { return g.StallT.Load() != 0 }, 5*time.Second) {
					g.closeGen()
				}
			}()
		}
		var qwg sync.WaitGroup
		if sp.Queued > 0 && (st.Fail == "deadline" || st.Fail == "reset") {
			qwg.Add(1)
			go func(fi int) {
				defer qwg.Done()
				if !c09WaitFor(func() bool { return g.StallT.Load() != 0 }, 5*time.Second) {
					return
				}
				for q := 0; q < sp.Queued; q++ {
					qwg.Add(1)
					callWG.Add(1)
					go func(q int) {
						defer qwg.Done()
						defer callWG.Done()
						rc, _ := wfDoCall(conn, "s", uint32(0x100+16*fi+q), 0x7a000000+uint32(16*fi+q))
						ev("send %d queued behind the blocked write: %s %s", q, rc.Outcome, rc.Err)
					}(q)
				}
			}(fi)
		}
		rc, ok := call(st.Kind)
		if ok {
			qfin := make(chan struct{})
			go func() { qwg.Wait(); close(qfin) }()
			select {
			case <-qfin:
			case <-time.After(25 * time.Second):
				fail("send-never-returned", "a W-bit send queued behind the blocked write did not return within 25 s of the generation's end")
				done()
				return fails, replay, ""
			}
		}
		if !ok {
			fail("send-never-returned", "the %s call whose write fails (%s) did not return", st.Kind, st.Fail)
			done()
			return fails, replay, ""
		}
		ev("failing send %d (%s, write %s@%d) on generation %d: %s %s", fi, st.Kind, st.Fail, st.At, g.id, rc.Outcome, rc.Err)
		async := st.Kind == "a" || st.Kind == "fa"
		if (!async && rc.Outcome != "writeerr") || (async && rc.Outcome != "sent") {
			done()
			return nil, replay, fmt.Sprintf("failing send %d (%s, %s) returned %s %s", fi, st.Kind, st.Fail, rc.Outcome, rc.Err)
		}
		if arm != nil {
			select {
			case <-arm.fired:
			case <-time.After(5 * time.Second):
				done()
				return nil, replay, fmt.Sprintf("failing send %d: the armed write was never made", fi)
			}
		}
		up := c09WaitFor(func() bool { return wfSelectedOn(n.peer, conn, g.id+1) }, time.Duration(1500*scale)*time.Millisecond)
		survived := !up && st.Fail == "inject-timeout" && n.peer.last().id == g.id && conn.State() == hsms.SelectedState && !g.closed.Load()
		if !up && !survived {
			if !c09WaitFor(func() bool { return wfSelectedOn(n.peer, conn, g.id+1) }, 10*time.Second) {
				done()
				return nil, replay, fmt.Sprintf("after failing send %d no later generation was selected within 11 s (state %v)", fi, conn.State())
			}
		}
		ev("link up on generation %d (survived the failed write: %v)", n.peer.last().id, survived)
		if s := roundTrip(fmt.Sprintf("after failing send %d", fi)); s != "" {
			done()
			return nil, replay, s
		}
	}
	// every call has returned: nothing is outstanding
	gauge := conn.Metrics().DataMsgInflightCount()
	replay["inflight_gauge_with_nothing_outstanding"] = gauge
	if gauge != 0 {
		fail("inflight-gauge-nonzero-with-nothing-outstanding", "every send call has returned, yet the in-flight gauge (the \"a reply is outstanding\" input of suppression rule 2 and of the liveness credit) reads %d", gauge)
	}
	g := n.peer.last()
	cm := conn.ControlMetrics()
	send0, supp0 := cm.LinktestSendCount(), cm.LinktestSuppressedCount()
	n.peer.muteLinktest.Store(true)
	silentAt := time.Now()
	ev("peer falls silent on generation %d (LinktestSendCount %d, suppressed %d)", g.id, send0, supp0)
	limit := interval + time.Duration(k)*cycle + 3*cycle + time.Duration(scale)*time.Second
	dropped := false
	select {
	case <-g.readerEnd:
		dropped = true
	case <-time.After(limit):
	}
	elapsed := time.Since(silentAt)
	ev("generation %d closed by the library: %v (state %v)", g.id, dropped, conn.State())
	answered := map[uint32]bool{}
	for _, f := range g.outbound() {
		if f.PType == 0 && f.SType == byte(hsms.LinktestRspType) {
			answered[f.SB] = true
		}
	}
	probes := 0
	for _, f := range g.inbound() {
		if f.PType == 0 && f.SType == byte(hsms.LinktestReqType) && !answered[f.SB] {
			probes++
		}
	}
	replay["unanswered_probes"] = probes
	replay["dropped_after_ms"] = elapsed.Milliseconds()
	replay["linktest_counters"] = fmt.Sprintf("send %d recv %d err %d credited %d suppressed %d (at silence: send %d suppressed %d)", cm.LinktestSendCount(), cm.LinktestRecvCount(),
		cm.LinktestErrCount(), cm.LinktestCreditedCount(), cm.LinktestSuppressedCount(), send0, supp0)
	switch {
	case !dropped:
		fail("dead-link-not-dropped", "silent peer, threshold %d, nothing outstanding: still connected %v after it fell silent (%d unanswered probes; want a drop within %v); in-flight gauge %d, wake-ups suppressed since: %d",
			k, elapsed.Round(time.Millisecond), probes, limit, conn.Metrics().DataMsgInflightCount(), cm.LinktestSuppressedCount()-supp0)
		if probes == 0 && cm.LinktestSendCount() == send0 {
			fail("no-probe-sent-although-nothing-outstanding", "the line was idle for %v (%.0f intervals) with no send call running and no reply outstanding, yet not one Linktest.req was sent (%d wake-ups suppressed, in-flight gauge %d)",
				elapsed.Round(time.Millisecond), float64(elapsed)/float64(interval), cm.LinktestSuppressedCount()-supp0, conn.Metrics().DataMsgInflightCount())
		}
	default:
		if probes != k {
			fail("dead-link-probe-count", "silent peer dropped after %d unanswered probes, want exactly %d", probes, k)
		}
		lo := time.Duration(k)*t6 + time.Duration(k-1)*interval - 5*time.Millisecond
		if elapsed < lo || elapsed > limit {
			fail("dead-link-window", "dropped %v after the peer fell silent, want within [%v, %v]", elapsed.Round(time.Millisecond), lo, limit)
		}
	}
	done()
	return fails, replay, ""
}

func c19wfSpecs(c *Ctx) []c19wfSpec {
	r := c.Rng
	one := func(kind, fail string, at int) []wfStep { return []wfStep{{Kind: kind, Fail: fail, At: at}} }
	specs := []c19wfSpec{
		{Name: "wbit-write-deadline", Fails: one("s", "deadline", 10), Threshold: 2, Suppress: true},
		{Name: "wbit-broken-socket", Fails: one("s", "inject-broken", 0), Threshold: 1, Suppress: true},
		{Name: "wbit-net-timeout-mid-frame", Fails: one("s", "inject-timeout", 1), Threshold: 3, Suppress: true},
		{Name: "wbit-reset-under-write", Fails: one("s", "reset", 12), Threshold: 2, Suppress: true},
		{Name: "wbit-write-deadline-suppression-off", Fails: one("s", "deadline", 14), Threshold: 2, Suppress: false},
		{Name: "no-wbit-write-deadline", Fails: one("f", "deadline", 11), Threshold: 2, Suppress: true},
		{Name: "async-broken-socket", Fails: one("a", "inject-broken", 1), Threshold: 1, Suppress: true},
		{Name: "wbit-write-deadline-with-queued-senders", Fails: one("s", "deadline", 10), Threshold: 2, Suppress: true, Queued: 3},
		{Name: "wbit-reset-under-write-with-queued-senders", Fails: one("f", "reset", 12), Threshold: 1, Suppress: true, Queued: 2},
		{Name: "two-failed-writes", Fails: []wfStep{{Kind: "s", Fail: "deadline", At: 13}, {Kind: "s", Fail: "inject-broken", At: 1}}, Threshold: 2, Suppress: true},
	}
	kinds := []string{"s", "s", "s", "f", "fw", "a"}
	modes := []string{"deadline", "inject-timeout", "inject-broken", "reset"}
	for i := 0; i < c.Pick(2, 24); i++ {
		sp := c19wfSpec{Name: fmt.Sprintf("random-%d", i), Threshold: 1 + r.IntN(3), Suppress: r.IntN(4) != 0}
		for j := 0; j < 1+r.IntN(3); j++ {
			st := wfStep{Kind: kinds[r.IntN(len(kinds))], Fail: modes[r.IntN(len(modes))]}
			switch st.Fail {
			case "deadline", "reset":
				st.At = 10 + r.IntN(6)
			default:
				st.At = r.IntN(2)
			}
			sp.Fails = append(sp.Fails, st)
		}
		specs = append(specs, sp)
	}
	return specs
}

// c19WriteFail runs the family.
func c19WriteFail(c *Ctx) {
	specs := c19wfSpecs(c)
	t0 := time.Now()
	var wg sync.WaitGroup
	sem := make(chan struct{}, 6)
	for _, sp := range specs {
		sp := sp
		wg.Add(1)
		sem <- struct{}{}
		go func() {
			defer wg.Done()
			defer func() { <-sem }()
			var fails []wfFail
			var replay map[string]any
			var staged string
			// a timing glitch on a loaded machine must not raise an alarm: retry with stretched timers
			for attempt, scale := range []int{1, 3, 9} {
				fails, replay, staged = c19wfRunOnce(sp, scale)
				if staged == "" && len(fails) == 0 {
					break
				}
				c.Stat("timeline:retry")
				wfRetryNote(c, "c19-writefail", sp.Name, scale, fails, staged)
				if staged == "" && attempt >= 1 {
					break // misbehaved twice
				}
			}
			c.Count(sp.text(), true)
			c.Stat("timeline:writefail")
			if staged != "" {
				c.Violate("correspondence", "timeline-setup-failed", sp.text()+": "+staged, replay)
				return
			}
			for _, f := range fails {
				c.Violate(f.kind, f.what, sp.text()+": "+f.detail, replay)
			}
			if len(fails) == 0 {
				c.Stat("timeline:disconnected")
				if sp.Name == "wbit-write-deadline" {
					c.Sample(map[string]any{"timeline": sp.text(), "unanswered_probes": replay["unanswered_probes"], "dropped_after_ms": replay["dropped_after_ms"],
						"counters": replay["linktest_counters"], "events": replay["timeline"]})
				}
			}
		}()
	}
	wg.Wait()
	c.StatN("writefail-timelines-wall-ms", int(time.Since(t0).Milliseconds()))
}
