package main

import (
	"bytes"
	"context"
	"encoding/binary"
	"encoding/hex"
	"errors"
	"fmt"
	"io"
	"net"
	"runtime"
	"strconv"
	"strings"
	"sync"
	"sync/atomic"
	"time"

	"github.com/arloliu/go-secs/v2/hsms"
	"github.com/arloliu/go-secs/v2/hsmsss"
	"github.com/arloliu/go-secs/v2/secs2"
)

func init() {
	register("C04", "decode entry points: all 256x256 PType x SType header-only frames, length-field rewrites {0,9,10,11,n-1,n,n+1,cap,cap+1,2^31,2^32-1}, "+
		"every truncation / extension, byte mutations and random strings, invalid SECS-II bodies read by several holders concurrently; receive path (real recvLoop over net.Pipe): "+
		"valid and invalid frame streams cut at all single and all pairs of cut positions (frames <= 40 bytes, incl. inside the length prefix), byte-at-a-time, random multi-cuts, "+
		"idle / in-frame gaps (<= 20 ms or >= 240 ms against T8 = 80 ms) at every position, bad length fields with the allocation measured; "+
		"distinct = distinct input bytes (decode) or (stream, segmentation, delays) (receive); non-trivial = the input is at least a 4-byte length prefix", runC04)
}

const (
	c04T8      = 80 * time.Millisecond
	c04Short   = 8 * time.Millisecond
	c04Long    = 250 * time.Millisecond
	c04ShortNs = 8_000_000
	c04LongNs  = 250_000_000
	c04T8Ns    = 80_000_000
)

func runC04(c *Ctx) {
	c04Decode(c)
	c04BadBodies(c)
	// the allocation probe runs first and alone: if a hostile length is allocated before it is validated, the
	// scenarios that announce gigabytes are skipped instead of exhausting memory
	safe := c04Alloc(c)
	c04Recv(c, safe)
	c04RealConnection(c, safe)
}

// ---------------------------------------------------------------- decode entry points

func validSType(b byte) bool { return b <= 7 || b == 9 }

// c04WellFormed is the property's own definition of a well-formed frame.
func c04WellFormed(b []byte, capLen int) bool {
	if len(b) < 14 {
		return false
	}
	l := int(binary.BigEndian.Uint32(b[:4]))
	return l >= 10 && l <= capLen && len(b) == 4+l && b[8] == 0 && validSType(b[9])
}

func c04WellFormedPayload(p []byte, capLen int) bool {
	return len(p) >= 10 && len(p) <= capLen && p[4] == 0 && validSType(p[5])
}

// c04ErrClass maps a decode error to the small enum compared with the model.
func c04ErrClass(err error) string {
	switch {
	case err == nil:
		return "ok"
	case errors.Is(err, hsms.ErrInvalidHeaderLength):
		return "hdrlen"
	case errors.Is(err, hsms.ErrInvalidPType):
		return "ptype"
	case errors.Is(err, hsms.ErrInvalidControlMsgSType):
		return "stype"
	}
	return "lenBig"
}

func c04ModelClass(ans string) string {
	switch {
	case strings.HasPrefix(ans, "ok"):
		return "ok"
	case ans == "err tooShort", ans == "err lenSmall", ans == "err mismatch":
		return "hdrlen"
	case ans == "err ptype":
		return "ptype"
	case ans == "err stype":
		return "stype"
	case ans == "err lenBig":
		return "lenBig"
	}
	return "?" + ans
}

func c04SampleFrames(c *Ctx) [][]byte {
	r := c.Rng
	var fs [][]byte
	add := func(m hsms.Message) { fs = append(fs, m.ToBytes()) }
	for i := 0; i < 12; i++ {
		var it secs2.Item
		switch i % 4 {
		case 1:
			it = Build(GenLeaf(r, kinds[1+r.IntN(len(kinds)-1)], 1+r.IntN(3)), 0)
		case 2:
			budget := 6
			it = Build(GenTree(r, 2, &budget).Normalize(), 0)
		case 3:
			it = secs2.NewASCIIItem("segmentation")
		}
		m, err := hsms.NewDataMessage(uint8(r.IntN(128)), uint8(r.IntN(128))*2+1, r.IntN(2) == 0, c03Sids[r.IntN(len(c03Sids))], c03Sys[r.IntN(len(c03Sys))], it)
		if err == nil {
			add(m)
		}
	}
	add(hsms.NewSelectReq(1, [4]byte{0, 0, 0, 9}))
	add(hsms.NewLinktestReq([4]byte{1, 2, 3, 4}))
	add(hsms.NewSeparateReq(0xFFFF, [4]byte{0xFF, 0xFF, 0xFF, 0xFF}))
	add(hsms.NewRejectReqRaw(7, 1, 2, [4]byte{5, 6, 7, 8}, 3))
	return fs
}

func c04Decode(c *Ctx) {
	r := c.Rng
	capLen := int(hsms.VerifMaxHSMSMsgLen)
	seen := map[string]bool{}
	var inputs [][]byte
	var tags []string
	add := func(tag string, b []byte) {
		k := string(b)
		if seen[k] {
			return
		}
		seen[k] = true
		inputs = append(inputs, b)
		tags = append(tags, tag)
	}
	// all 256 x 256 PType x SType header-only frames
	for pt := 0; pt < 256; pt++ {
		for st := 0; st < 256; st++ {
			add("ptype-stype", []byte{0, 0, 0, 10, byte(pt + st), byte(st), byte(pt), byte(pt ^ st), byte(pt), byte(st), 1, 2, 3, byte(pt)})
		}
	}
	frames := c04SampleFrames(c)
	for _, f := range frames {
		n := len(f) - 4
		add("valid", f)
		// length rewrites
		for _, l := range []uint32{0, 9, 10, 11, uint32(n - 1), uint32(n), uint32(n + 1), uint32(capLen), uint32(capLen + 1), 1 << 31, 0xFFFFFFFF, uint32(n) | 0x01000000, uint32(n) << 8} {
			g := append([]byte(nil), f...)
			binary.BigEndian.PutUint32(g[:4], l)
			add("length-rewrite", g)
		}
		// truncations and extensions
		for k := 0; k <= len(f) && k <= 60; k++ {
			add("truncation", append([]byte(nil), f[:k]...))
		}
		for _, extra := range []int{1, 2, 10} {
			add("extension", append(append([]byte(nil), f...), make([]byte, extra)...))
		}
		// control kinds with a body; data frame stype rewritten; ptype rewritten
		for _, st := range []byte{1, 2, 5, 7, 8, 9, 10, 255} {
			g := append([]byte(nil), f...)
			g[9] = st
			add("stype-rewrite", g)
		}
		g := append([]byte(nil), f...)
		g[8] = byte(1 + r.IntN(255))
		add("ptype-rewrite", g)
		// byte mutations
		for k := 0; k < c.Pick(20, 200); k++ {
			g := append([]byte(nil), f...)
			for j := 0; j <= r.IntN(3); j++ {
				g[r.IntN(len(g))] = byte(r.IntN(256))
			}
			add("mutation", g)
		}
	}
	for k := 0; k < c.Pick(6000, 300000); k++ {
		n := r.IntN(41)
		b := genBytes(r, n)
		if n >= 4 && r.IntN(2) == 0 {
			binary.BigEndian.PutUint32(b[:4], uint32(n-4+r.IntN(3)-1))
		}
		if n >= 10 && r.IntN(2) == 0 {
			b[8] = 0
		}
		add("random", b)
	}

	var ans, pans []string
	if c.Lean != nil {
		l1 := make([]string, len(inputs))
		l2 := make([]string, len(inputs))
		for i, b := range inputs {
			l1[i] = "hsms.decode " + hexs(b)
			l2[i] = "hsms.payload " + hexs(b)
		}
		ans = c.Lean.AskAll(l1)
		pans = c.Lean.AskAll(l2)
	}
	for i, b := range inputs {
		replay := map[string]any{"input": clip(hexs(b), 400), "tag": tags[i]}
		c.Count("dec|"+string(b), len(b) >= 4)
		c.Stat("decode:" + tags[i])
		// ---- DecodeHSMSMessage
		var m hsms.Message
		var err error
		if p := safely(func() { m, err = hsms.DecodeHSMSMessage(append([]byte(nil), b...)) }); p != nil {
			c.Violate("property", "decode-panic", fmt.Sprintf("DecodeHSMSMessage panicked: %v", p), replay)
			continue
		}
		wf := c04WellFormed(b, capLen)
		if (err == nil) != wf {
			c.Violate("property", "accepts-iff-wellformed", fmt.Sprintf("DecodeHSMSMessage error=%v but well-formed=%v", err, wf), replay)
		}
		c.Stat("decode-class:" + c04ErrClass(err))
		if ans != nil {
			if mc := c04ModelClass(ans[i]); mc != c04ErrClass(err) {
				c.Violate("correspondence", "decode-class-model", fmt.Sprintf("implementation %s (%v), model %s", c04ErrClass(err), err, ans[i]), replay)
			} else if err == nil {
				c04CompareDecoded(c, m, ans[i], "DecodeHSMSMessage", replay)
			}
		}
		if err == nil {
			c04CheckDecoded(c, m, b, b[4:], "DecodeHSMSMessage", replay)
		}
		// ---- the payload entry points, same bytes taken as [header || body]
		for _, e := range []struct {
			name string
			fn   func([]byte) (hsms.Message, error)
		}{{"DecodeHSMSPayload", hsms.DecodeHSMSPayload}, {"DecodeOwnedHSMSPayload", hsms.DecodeOwnedHSMSPayload}, {"decodeOwnedFrame", hsms.VerifDecodeOwnedFrame}} {
			var pm hsms.Message
			var perr error
			in := append([]byte(nil), b...)
			if p := safely(func() { pm, perr = e.fn(in) }); p != nil {
				c.Violate("property", "decode-panic", fmt.Sprintf("%s panicked: %v", e.name, p), replay)
				continue
			}
			pwf := c04WellFormedPayload(b, capLen)
			if (perr == nil) != pwf {
				c.Violate("property", "accepts-iff-wellformed", fmt.Sprintf("%s error=%v but well-formed=%v", e.name, perr, pwf), replay)
			}
			if pans != nil {
				if mc := c04ModelClass(pans[i]); mc != c04ErrClass(perr) {
					c.Violate("correspondence", "decode-class-model", fmt.Sprintf("%s: implementation %s (%v), model %s", e.name, c04ErrClass(perr), perr, pans[i]), replay)
				} else if perr == nil {
					c04CompareDecoded(c, pm, pans[i], e.name, replay)
				}
			}
			if perr == nil {
				c04CheckDecoded(c, pm, append([]byte{0, 0, 0, 0}, b...), b, e.name, replay)
			}
		}
	}
	if c.Lean != nil {
		c.Res.Traces += len(inputs)
	}
	// the cap boundary with real 16 MiB inputs: exactly cap is a frame, cap+1 is not
	for _, l := range []int{capLen, capLen + 1} {
		b := make([]byte, 4+l)
		binary.BigEndian.PutUint32(b[:4], uint32(l))
		b[4+2], b[4+3] = 0x81, 0x01
		_, err := hsms.DecodeHSMSMessage(b)
		_, perr := hsms.DecodeHSMSPayload(b[4:])
		c.Count(fmt.Sprintf("dec-cap|%d", l), true)
		c.Stat("decode:cap-boundary")
		if (err == nil) != (l <= capLen) || (perr == nil) != (l <= capLen) {
			c.Violate("property", "accepts-iff-wellformed", fmt.Sprintf("length %d against cap %d: DecodeHSMSMessage error=%v, DecodeHSMSPayload error=%v", l, capLen, err, perr),
				map[string]any{"input": fmt.Sprintf("length field %d followed by that many zero bytes (stream 1 function 1 W)", l)})
		}
	}
}

// c04CheckDecoded: implementation-side oracle for an accepted input (payload = header || body).
func c04CheckDecoded(c *Ctx, m hsms.Message, frame, payload []byte, entry string, replay any) {
	hb := m.HeaderBytes()
	if !bytes.Equal(hb[:], payload[:10]) {
		c.Violate("property", "decoded-header", entry+": decoded header differs from the input's header bytes", replay)
	}
	switch mm := m.(type) {
	case *hsms.DataMessage:
		if payload[5] != 0 {
			c.Violate("property", "decoded-kind", entry+": non-zero SType decoded as a data message", replay)
		}
		rb := mm.ToBytes()
		if !bytes.Equal(rb[4:], payload) || binary.BigEndian.Uint32(rb[:4]) != uint32(len(payload)) {
			c.Violate("property", "reserialise-differs", entry+": accepted data frame does not re-serialise to itself", replay)
		}
	case *hsms.ControlMessage:
		if payload[5] == 0 {
			c.Violate("property", "decoded-kind", entry+": SType 0 decoded as a control message", replay)
		}
		if rb := mm.ToBytes(); !bytes.Equal(rb[4:], payload[:10]) || !bytes.Equal(rb[:4], []byte{0, 0, 0, 10}) {
			c.Violate("property", "reserialise-differs", entry+": accepted control frame does not re-serialise to its header", replay)
		}
	}
}

// c04CompareDecoded compares an accepted message with the model's "ok D hdr body reframe (item..|bodyerr k)" / "ok C hdr type reframe".
func c04CompareDecoded(c *Ctx, m hsms.Message, ans, entry string, replay any) {
	f := strings.SplitN(ans, " ", 6)
	if len(f) < 5 {
		c.Violate("correspondence", "decode-model-format", "unparsable model answer "+clip(ans, 100), replay)
		return
	}
	switch mm := m.(type) {
	case *hsms.DataMessage:
		it, ierr := mm.Item()
		body := "bodyerr"
		if ierr == nil {
			body = "item " + Describe(it)
		}
		got := fmt.Sprintf("ok D %s %s %s %s", hdrHex(m), hexs(mm.AppendBodyTo(nil)), hexs(m.ToBytes()), body)
		want := ans
		if ierr != nil && len(f) == 6 && strings.HasPrefix(f[5], "bodyerr") {
			want = strings.Join(f[:5], " ") + " bodyerr" // error kinds are C02's subject; here: error vs no error
		}
		if got != want {
			c.Violate("correspondence", "decode-model", fmt.Sprintf("%s: implementation %s, model %s", entry, clip(got, 200), clip(want, 200)), replay)
		}
	case *hsms.ControlMessage:
		got := fmt.Sprintf("ok C %s %d %s", hdrHex(m), mm.Type(), hexs(m.ToBytes()))
		if got != ans {
			c.Violate("correspondence", "decode-model", fmt.Sprintf("%s: implementation %s, model %s", entry, got, clip(ans, 200)), replay)
		}
	}
}

// ---------------------------------------------------------------- invalid bodies

func c04BadBodies(c *Ctx) {
	r := c.Rng
	bodies := [][]byte{{0xFF}, {0x01}, {0x01, 0x05}, {0x41, 0x05, 'a'}, {0x00}, {0xA5, 0x03, 1, 2, 3}, {0x69, 0x03, 0, 1, 2}, {0xFD, 1, 2}, {0x21, 0x01}}
	for k := 0; k < c.Pick(600, 20000); k++ {
		budget := 8
		enc := Build(GenTree(r, 3, &budget).Normalize(), 0).ToBytes()
		if len(enc) == 0 {
			continue
		}
		g := append([]byte(nil), enc...)
		switch r.IntN(3) {
		case 0:
			g = g[:r.IntN(len(g))]
		case 1:
			g[r.IntN(len(g))] ^= byte(1 << r.IntN(8))
		default:
			g[0] = byte(r.IntN(256))
		}
		if len(g) > 0 {
			bodies = append(bodies, g)
		}
	}
	var lines []string
	for _, body := range bodies {
		hdr := []byte{0x01, 0x02, 0x81, 0x0D, 0, 0, 9, 8, 7, 6}
		frame := binary.BigEndian.AppendUint32(nil, uint32(10+len(body)))
		frame = append(append(frame, hdr...), body...)
		lines = append(lines, "hsms.decode "+hexs(frame))
	}
	var ans []string
	if c.Lean != nil {
		ans = c.Lean.AskAll(lines)
		c.Res.Traces += len(lines)
	}
	for i, body := range bodies {
		frame, _ := hex.DecodeString(strings.TrimPrefix(lines[i], "hsms.decode "))
		replay := map[string]any{"frame": clip(hexs(frame), 400)}
		c.Count("badbody|"+string(body), true)
		m, err := hsms.DecodeHSMSMessage(frame)
		if err != nil {
			c.Violate("property", "bad-body-not-framed", "a data frame with an arbitrary body is refused at the frame level: "+err.Error(), replay)
			continue
		}
		dm := m.(*hsms.DataMessage)
		// several holders, first call raced from several goroutines, then repeated calls
		holders := []*hsms.DataMessage{dm, dm.WithSessionID(7), dm.WithSystemBytes([4]byte{1, 1, 1, 1}), dm.WithID(99).WithSessionID(3)}
		type res struct {
			txt string
			err string
		}
		out := make([]res, len(holders)*3)
		var wg sync.WaitGroup
		for j := range out {
			wg.Add(1)
			go func(j int) {
				defer wg.Done()
				defer func() {
					if p := recover(); p != nil {
						out[j] = res{err: fmt.Sprintf("PANIC %v", p)}
					}
				}()
				h := holders[j%len(holders)]
				if j%2 == 0 {
					it, e := h.Item()
					if e != nil {
						out[j] = res{err: e.Error()}
					} else {
						out[j] = res{txt: Describe(it)}
					}
				} else if e := h.DecodeErr(); e != nil {
					out[j] = res{err: e.Error()}
				} else {
					it, _ := h.Item()
					out[j] = res{txt: Describe(it)}
				}
			}(j)
		}
		wg.Wait()
		for j := range out {
			if out[j] != out[0] {
				c.Violate("property", "body-error-unstable", fmt.Sprintf("holders/calls disagree about the body: %q/%q vs %q/%q", out[0].txt, out[0].err, out[j].txt, out[j].err), replay)
				break
			}
			if strings.HasPrefix(out[j].err, "PANIC") {
				c.Violate("property", "decode-panic", "lazy body decode panicked: "+out[j].err, replay)
				break
			}
		}
		if out[0].err != "" {
			c.Stat("badbody:body-error")
		} else {
			c.Stat("badbody:body-decodes-after-mutation")
		}
		if !bytes.Equal(dm.ToBytes(), frame) {
			c.Violate("property", "reserialise-differs", "data frame with an invalid body does not re-serialise to itself", replay)
		}
		if ans != nil {
			modelErr := strings.Contains(ans[i], " bodyerr ")
			if !strings.HasPrefix(ans[i], "ok D") || modelErr != (out[0].err != "") {
				c.Violate("correspondence", "bad-body-model", fmt.Sprintf("implementation body error %q, model %s", out[0].err, clip(ans[i], 160)), replay)
			} else if !modelErr {
				if want := ans[i][strings.Index(ans[i], " item ")+6:]; want != out[0].txt {
					c.Violate("correspondence", "bad-body-model", fmt.Sprintf("decoded body %s, model %s", clip(out[0].txt, 120), clip(want, 120)), replay)
				}
			}
		}
	}
}

// ---------------------------------------------------------------- receive path

type c04Seg struct {
	gapNs int // 0, c04ShortNs or c04LongNs
	data  []byte
}

type c04Scenario struct {
	tag  string
	segs []c04Seg
	// expectation known by construction ("" = only the model is consulted)
	wantFrames [][]byte // every payload handed to dispatchFrame, in order
	wantDrop   string   // "eof" (none: we close at the end), "timeout", "protocol"
	timed      bool
	// localWrite: during the first scripted gap of at least T8 the APPLICATION sends a data message on the same
	// connection (S99F1, filtered out of the wire comparison): a local write — which brackets itself with write
	// deadlines — must not disturb the receiver's pending T8 (after seeded change C04f-1: SetWriteDeadline
	// implemented with SetDeadline).
	localWrite bool
}

func (s *c04Scenario) stream() []byte {
	var b []byte
	for _, g := range s.segs {
		b = append(b, g.data...)
	}
	return b
}

func (s *c04Scenario) line() string {
	var sb strings.Builder
	fmt.Fprintf(&sb, "framing.run %d %d", c04T8Ns, int(hsms.VerifMaxHSMSMsgLen))
	for _, g := range s.segs {
		fmt.Fprintf(&sb, " %d:%s", g.gapNs, hexs(g.data))
	}
	return sb.String()
}

func (s *c04Scenario) replay() map[string]any {
	segs := make([]string, len(s.segs))
	for i, g := range s.segs {
		segs[i] = fmt.Sprintf("%dms:%s", g.gapNs/1_000_000, clip(hexs(g.data), 120))
	}
	return map[string]any{"tag": s.tag, "t8_ms": 80, "segments": segs}
}

// cut splits b at the given ascending positions, all gaps 0.
func c04Cut(b []byte, cuts ...int) []c04Seg {
	var segs []c04Seg
	prev := 0
	for _, k := range cuts {
		if k <= prev || k >= len(b) {
			continue
		}
		segs = append(segs, c04Seg{0, b[prev:k]})
		prev = k
	}
	return append(segs, c04Seg{0, b[prev:]})
}

type c04Outcome struct {
	events []hsmsss.VerifRecvEvent
	allocs []int
	hung   bool
}

// c04RunRecv drives the real recvLoop with the scenario's writes.
func c04RunRecv(s *c04Scenario) c04Outcome { return c04RunRecvScaled(s, 1) }

// c04RunRecvScaled stretches T8 and every scripted gap by the same factor: the outcome the property prescribes
// depends only on the gap / T8 relation, so it is unchanged, while the involuntary delays a loaded machine adds
// between two writes (which count as in-frame gaps against the real T8) shrink relative to it.
func c04RunRecvScaled(s *c04Scenario, scale int) c04Outcome {
	client, server := net.Pipe()
	rec, err := hsmsss.VerifStartRecv(server, c04T8*time.Duration(scale), true)
	if err != nil {
		return c04Outcome{hung: true}
	}
	go func() {
		<-rec.Done()
		client.Close()
		server.Close()
	}()
	for _, g := range s.segs {
		if g.gapNs > 0 {
			time.Sleep(time.Duration(g.gapNs) * time.Duration(scale))
		}
		if len(g.data) == 0 {
			continue
		}
		client.SetWriteDeadline(time.Now().Add(5 * time.Second * time.Duration(scale)))
		if _, err := client.Write(g.data); err != nil {
			break // the receiver dropped the link (pipe closed)
		}
	}
	client.Close() // end of stream: the receiver sees EOF
	select {
	case <-rec.Done():
	case <-time.After(10 * time.Second * time.Duration(scale)):
		server.Close()
		return c04Outcome{events: rec.Events(), allocs: rec.Allocs(), hung: true}
	}
	return c04Outcome{events: rec.Events(), allocs: rec.Allocs()}
}

// c04Canon renders the outcome: one token per dispatched frame, then the drop class.
func c04Canon(o c04Outcome) (handled []string, drop string) {
	drop = "none"
	for _, e := range o.events {
		switch e.Kind {
		case "deliver":
			handled = append(handled, "deliver:"+hexs(e.Bytes))
		case "send":
			handled = append(handled, "send:"+hexs(e.Bytes))
		case "route":
			handled = append(handled, "route:"+hexs(e.Bytes))
		case "down":
			switch {
			case e.Timeout:
				drop = "timeout"
			case e.EOF:
				drop = "eof"
			default:
				drop = "protocol"
			}
		default:
			handled = append(handled, e.Kind)
		}
	}
	return
}

// c04Expect turns the model's answer into the same rendering.
func c04Expect(ans string) (handled []string, drop string, alloc int, ok bool) {
	kv := map[string]string{}
	for _, f := range strings.Fields(ans) {
		if i := strings.IndexByte(f, '='); i > 0 {
			kv[f[:i]] = f[i+1:]
		}
	}
	if _, has := kv["frames"]; !has {
		return nil, "", 0, false
	}
	var frames, classes []string
	if kv["frames"] != "" {
		frames = strings.Split(kv["frames"], "|")
		classes = strings.Split(kv["classes"], ",")
	}
	if len(frames) != len(classes) {
		return nil, "", 0, false
	}
	for i, f := range frames {
		cl := classes[i]
		switch {
		case cl == "data":
			handled = append(handled, "deliver:"+f)
		case strings.HasPrefix(cl, "reject"):
			handled = append(handled, "send:"+cl[strings.IndexByte(cl, ':')+1:])
		case cl == "control5": // Linktest.req is answered with Linktest.rsp (same system bytes)
			handled = append(handled, "send:0000000affff000000"+"06"+f[12:])
		case cl == "control2", cl == "control4", cl == "control6", cl == "control7":
			handled = append(handled, "route:0000000a"+f)
		default: // control requests (Select/Deselect/Separate.req) start responder procedures: C08's subject
			return nil, "skip", 0, true
		}
	}
	switch kv["drop"] {
	case "none":
		drop = "eof"
	case "timeout":
		drop = "timeout"
	default:
		drop = "protocol"
	}
	alloc, _ = strconv.Atoi(kv["alloc"])
	return handled, drop, alloc, true
}

func c04Payloads(c *Ctx) (valid [][]byte, named map[string][]byte) {
	r := c.Rng
	named = map[string][]byte{}
	mk := func(m hsms.Message) []byte { return m.ToBytes()[4:] }
	d0, _ := hsms.NewDataMessage(1, 1, true, 0x0102, [4]byte{0, 0, 0, 1}, nil)
	d1, _ := hsms.NewDataMessage(6, 11, true, 0xFFFE, [4]byte{0x80, 0, 0, 0x7F}, secs2.NewListItem(secs2.NewASCIIItem("ab"), secs2.NewUintItem(2, 65535)))
	d2, _ := hsms.NewDataMessage(127, 254, false, 0x8000, [4]byte{0xDE, 0xAD, 0xBE, 0xEF}, secs2.NewBinaryItem([]byte{0, 0, 0, 10, 0, 0, 0, 9}))
	bad := append(mk(d0), 0xFF, 0x01) // invalid SECS-II body: still a frame
	named["data-empty"], named["data-list"], named["data-len-like-body"], named["data-bad-body"] = mk(d0), mk(d1), mk(d2), bad
	named["linktest-req"] = mk(hsms.NewLinktestReq([4]byte{1, 2, 3, 4}))
	lr, _ := hsms.NewLinktestRsp(hsms.NewLinktestReq([4]byte{4, 3, 2, 1}))
	named["linktest-rsp"] = mk(lr)
	sr, _ := hsms.NewSelectRsp(hsms.NewSelectReq(9, [4]byte{0, 0, 1, 0}), 3)
	named["select-rsp-3"] = mk(sr)
	named["reject-req"] = mk(hsms.NewRejectReqRaw(5, 0, 8, [4]byte{9, 9, 9, 9}, 1))
	named["bad-ptype"] = []byte{0, 1, 0x81, 1, 7, 0, 0, 0, 0, 2}
	named["bad-stype"] = []byte{0, 1, 0, 0, 0, 8, 0, 0, 0, 3}
	named["bad-stype-255"] = []byte{0xFF, 0xFF, 0, 0, 0, 255, 1, 0, 0, 3, 0xAA}
	named["ctl-with-body"] = append(mk(hsms.NewLinktestReq([4]byte{6, 6, 6, 6})), 1, 2, 3)
	for _, k := range []string{"data-empty", "data-list", "data-len-like-body", "data-bad-body", "linktest-req", "linktest-rsp", "select-rsp-3", "reject-req", "bad-ptype", "bad-stype", "bad-stype-255", "ctl-with-body"} {
		valid = append(valid, named[k])
	}
	for i := 0; i < 6; i++ {
		budget := 5
		m, err := hsms.NewDataMessage(uint8(r.IntN(128)), uint8(r.IntN(128))*2+1, true, uint16(r.IntN(65536)), c03Sys[r.IntN(len(c03Sys))], Build(GenTree(r, 2, &budget).Normalize(), 0))
		if err == nil && len(m.ToBytes()) <= 60 {
			valid = append(valid, mk(m))
		}
	}
	return
}

func c04Frame(p []byte) []byte {
	return append(binary.BigEndian.AppendUint32(nil, uint32(len(p))), p...)
}

func c04Recv(c *Ctx, allocSafe bool) {
	r := c.Rng
	payloads, named := c04Payloads(c)
	var scen []*c04Scenario
	streamOf := func(ps ...[]byte) []byte {
		var b []byte
		for _, p := range ps {
			b = append(b, c04Frame(p)...)
		}
		return b
	}
	// --- untimed segmentations of well-formed streams: every frame must be handled, in order
	addCuts := func(tag string, ps [][]byte, cuts ...int) {
		scen = append(scen, &c04Scenario{tag: tag, segs: c04Cut(streamOf(ps...), cuts...), wantFrames: ps, wantDrop: "eof"})
	}
	// all single cut positions and all pairs for streams up to 40 bytes
	small := [][][]byte{{named["data-empty"]}, {named["data-list"]}, {named["data-empty"], named["linktest-req"]}, {named["bad-ptype"], named["data-len-like-body"]},
		{named["ctl-with-body"], named["data-empty"]}, {named["data-bad-body"], named["bad-stype"]}, {named["select-rsp-3"], named["reject-req"]}}
	for _, ps := range small {
		n := len(streamOf(ps...))
		addCuts("whole", ps)
		for i := 1; i < n; i++ {
			addCuts("single-cut", ps, i)
		}
		for i := 1; i < n; i++ {
			for j := i + 1; j < n; j++ {
				addCuts("pair-cut", ps, i, j)
			}
		}
		if c.Thorough() && n <= 30 {
			for i := 1; i < n; i++ {
				for j := i + 1; j < n; j++ {
					for k := j + 1; k < n; k++ {
						addCuts("triple-cut", ps, i, j, k)
					}
				}
			}
		}
		var all []int
		for i := 1; i < n; i++ {
			all = append(all, i)
		}
		addCuts("byte-at-a-time", ps, all...)
	}
	// long streams, random multi-cuts
	for k := 0; k < c.Pick(1500, 40000); k++ {
		var ps [][]byte
		for i := 0; i <= r.IntN(8); i++ {
			ps = append(ps, payloads[r.IntN(len(payloads))])
		}
		n := len(streamOf(ps...))
		var cuts []int
		pos := 0
		for {
			step := 1 + r.IntN(12)
			if r.IntN(4) == 0 {
				step = 1 + r.IntN(60)
			}
			pos += step
			if pos >= n {
				break
			}
			cuts = append(cuts, pos)
		}
		addCuts("random-multi-cut", ps, cuts...)
	}
	// --- bad length fields (drop, nothing delivered after, whatever follows)
	capLen := int(hsms.VerifMaxHSMSMsgLen)
	for _, l := range []uint32{0, 1, 9, uint32(capLen + 1), 1 << 31, 0xFFFFFFFF, 0x01000000} {
		if !allocSafe && l > uint32(capLen) {
			continue
		}
		for _, before := range [][][]byte{nil, {named["data-list"]}} {
			b := streamOf(before...)
			cutBase := len(b)
			b = binary.BigEndian.AppendUint32(b, l)
			b = append(b, c04Frame(named["data-empty"])...) // a perfectly good frame after it must NOT be delivered
			for _, cuts := range [][]int{nil, {cutBase + 1}, {cutBase + 2, cutBase + 3}, {cutBase + 4}, {cutBase + 1, cutBase + 2, cutBase + 3, cutBase + 4, cutBase + 5}} {
				scen = append(scen, &c04Scenario{tag: "bad-length", segs: c04Cut(b, cuts...), wantFrames: before, wantDrop: "protocol"})
			}
		}
	}
	// --- arbitrary byte streams (only the model knows)
	for k := 0; k < c.Pick(1500, 40000); k++ {
		var b []byte
		for i := 0; i <= r.IntN(4); i++ {
			f := c04Frame(payloads[r.IntN(len(payloads))])
			switch r.IntN(5) {
			case 0:
				f[r.IntN(len(f))] = byte(r.IntN(256))
			case 1:
				f[3] = byte(r.IntN(40))
			case 2:
				f = f[:r.IntN(len(f))]
			}
			b = append(b, f...)
		}
		if len(b) == 0 {
			continue
		}
		// keep the claimed lengths small so a mutation cannot ask for a megabyte legitimately
		var cuts []int
		for pos := 1 + r.IntN(9); pos < len(b); pos += 1 + r.IntN(9) {
			cuts = append(cuts, pos)
		}
		scen = append(scen, &c04Scenario{tag: "arbitrary-bytes", segs: c04Cut(b, cuts...)})
	}
	// --- timed scenarios
	timedAt := func(tag string, ps [][]byte, cut int, gapNs int, wantFrames [][]byte, wantDrop string) {
		b := streamOf(ps...)
		segs := c04Cut(b, cut)
		if len(segs) == 2 {
			segs[1].gapNs = gapNs
		}
		scen = append(scen, &c04Scenario{tag: tag, segs: segs, wantFrames: wantFrames, wantDrop: wantDrop, timed: true})
	}
	two := [][]byte{named["data-empty"], named["data-list"]}
	n0 := len(c04Frame(two[0]))
	nAll := len(streamOf(two...))
	step := c.Pick(2, 1)
	for cut := 1; cut < nAll; cut++ {
		if cut != n0 && cut > 5 && cut < nAll-2 && cut%step != 0 {
			continue
		}
		switch {
		case cut == n0: // the gap is between frames: idle, never times out
			timedAt("idle-gap-long", two, cut, c04LongNs, two, "eof")
		case cut < n0: // inside the first frame (positions 1..3 are inside its length prefix)
			timedAt("inframe-gap-long", two, cut, c04LongNs, nil, "timeout")
			timedAt("inframe-gap-short", two, cut, c04ShortNs, two, "eof")
		default:
			timedAt("inframe-gap-long", two, cut, c04LongNs, two[:1], "timeout")
			timedAt("inframe-gap-short", two, cut, c04ShortNs, two, "eof")
		}
	}
	// an idle wait BEFORE the first byte, and a long idle then a long in-frame gap
	{
		b := streamOf(two...)
		scen = append(scen, &c04Scenario{tag: "idle-gap-long", segs: []c04Seg{{c04LongNs, b[:n0]}, {c04LongNs, b[n0:]}}, wantFrames: two, wantDrop: "eof", timed: true})
		scen = append(scen, &c04Scenario{tag: "inframe-gap-long", segs: []c04Seg{{c04LongNs, b[:n0+2]}, {c04LongNs, b[n0+2:]}}, wantFrames: two[:1], wantDrop: "timeout", timed: true})
		// many short gaps inside one frame, together far beyond T8: the deadline is re-armed per read
		var segs []c04Seg
		for i := 0; i < len(b); i += 2 {
			e := i + 2
			if e > len(b) {
				e = len(b)
			}
			segs = append(segs, c04Seg{c04ShortNs, b[i:e]})
		}
		scen = append(scen, &c04Scenario{tag: "many-short-gaps", segs: segs, wantFrames: two, wantDrop: "eof", timed: true})
		// several gaps inside one frame, EACH below T8 but together beyond it, within one read phase (all cuts in the
		// length prefix, or all in header+body): T8 is an inter-byte-group timer re-armed before every read, so the frame
		// must come through (after seeded change C04e-1: a deadline pushed only when less than T8/2 was left)
		for _, gp := range [][2]int{{35, 80}, {45, 70}, {15, 92}, {20, 88}} { // the last two: a first gap too short to matter to a coalescing re-arm (after seeded change C04f-2)
			g1, g2 := c04T8Ns*gp[0]/100, c04T8Ns*gp[1]/100
			scen = append(scen, &c04Scenario{tag: "near-T8-gaps-prefix", segs: []c04Seg{{0, b[:1]}, {g1, b[1:2]}, {g2, b[2:]}}, wantFrames: two, wantDrop: "eof", timed: true})
			scen = append(scen, &c04Scenario{tag: "near-T8-gaps-body", segs: []c04Seg{{0, b[:6]}, {g1, b[6:9]}, {g2, b[9:]}}, wantFrames: two, wantDrop: "eof", timed: true})
			scen = append(scen, &c04Scenario{tag: "near-T8-gaps-second-frame", segs: []c04Seg{{0, b[:n0+5]}, {g1, b[n0+5 : n0+8]}, {g2, b[n0+8:]}}, wantFrames: two, wantDrop: "eof", timed: true})
		}
		// bad length after an idle gap; bad length with a long gap inside the prefix (timeout wins: the length is never completed)
		bl := binary.BigEndian.AppendUint32(nil, 0xFFFFFFFF)
		if !allocSafe {
			bl = binary.BigEndian.AppendUint32(nil, 3)
		}
		scen = append(scen, &c04Scenario{tag: "bad-length", segs: []c04Seg{{c04LongNs, bl[:2]}, {c04ShortNs, bl[2:]}}, wantDrop: "protocol", timed: true})
		scen = append(scen, &c04Scenario{tag: "inframe-gap-long", segs: []c04Seg{{0, bl[:2]}, {c04LongNs, bl[2:]}}, wantDrop: "timeout", timed: true})
	}

	// ---- model answers
	var ans []string
	if c.Lean != nil {
		lines := make([]string, len(scen))
		for i, s := range scen {
			lines[i] = s.line()
		}
		ans = c.Lean.AskAll(lines)
		c.Res.Traces += len(scen)
	}
	// ---- run (untimed: a few workers; timed: many, they mostly sleep)
	outs := make([]c04Outcome, len(scen))
	runSet := func(idx []int, workers int) {
		var wg sync.WaitGroup
		ch := make(chan int)
		for w := 0; w < workers; w++ {
			wg.Add(1)
			go func() {
				defer wg.Done()
				for i := range ch {
					outs[i] = c04RunRecv(scen[i])
				}
			}()
		}
		for _, i := range idx {
			ch <- i
		}
		close(ch)
		wg.Wait()
	}
	var untimed, timed []int
	for i, s := range scen {
		if s.timed {
			timed = append(timed, i)
		} else {
			untimed = append(untimed, i)
		}
	}
	runSet(untimed, 8)
	runSet(timed, 24)

	check := func(i int) (kind, what, detail string) {
		s, o := scen[i], outs[i]
		if o.hung {
			return "property", "recv-hung", "the receive loop did not terminate after the peer closed the stream"
		}
		handled, drop := c04Canon(o)
		if s.wantDrop != "" {
			var want []string
			for _, p := range s.wantFrames {
				want = append(want, hexs(p))
			}
			var got []string
			for _, h := range handled {
				got = append(got, h[strings.IndexByte(h, ':')+1:])
			}
			// implementation-side oracle: each expected frame is handled exactly once, in order (a data frame is
			// delivered as-is; the reaction to other frames is compared through the model below)
			if len(handled) != len(want) {
				return "property", "recv-" + s.tag + "-frames", fmt.Sprintf("%d frames handled, %d expected (handled: %s)", len(handled), len(want), clip(strings.Join(handled, ","), 300))
			}
			for j, p := range s.wantFrames {
				if p[4] == 0 && p[5] == 0 && handled[j] != "deliver:"+hexs(p) {
					return "property", "recv-" + s.tag + "-order", fmt.Sprintf("frame %d: got %s, expected delivery of %s", j, clip(handled[j], 120), clip(hexs(p), 120))
				}
			}
			_ = got
			if drop != s.wantDrop {
				return "property", "recv-" + s.tag + "-drop", fmt.Sprintf("link outcome %q, expected %q", drop, s.wantDrop)
			}
		}
		if ans != nil {
			mh, md, malloc, ok := c04Expect(ans[i])
			if !ok {
				return "correspondence", "recv-model-format", "unparsable model answer " + clip(ans[i], 200)
			}
			if md == "skip" {
				c.Stat("recv:skipped-control-procedure")
				return "", "", ""
			}
			if strings.Join(mh, ",") != strings.Join(handled, ",") || md != drop {
				return "correspondence", "recv-model", fmt.Sprintf("implementation handled [%s] drop=%s, model [%s] drop=%s", clip(strings.Join(handled, ","), 300), drop, clip(strings.Join(mh, ","), 300), md)
			}
			sum := 0
			for _, a := range o.allocs {
				sum += a
			}
			if sum != malloc {
				return "correspondence", "recv-model-alloc", fmt.Sprintf("allocFrame was asked for %v (total %d), model total %d", o.allocs, sum, malloc)
			}
		}
		return "", "", ""
	}
	for i, s := range scen {
		c.Count("recv|"+s.line(), len(s.stream()) >= 4)
		c.Stat("recv:" + s.tag)
		kind, what, detail := check(i)
		if kind != "" {
			// T8 is wall-clock time for EVERY scenario (on a loaded machine even two back-to-back writes can be more
			// than 80 ms apart, which the receiver rightly treats as an in-frame gap): confirm by reproductions with
			// T8 and all scripted gaps stretched x4 and x16 before reporting. (A thorough sweep under load average 60
			// reported two such scenarios with the unscaled retries: false alarm, corrected here.)
			for _, scale := range []int{4, 16} {
				if kind == "" {
					break
				}
				c.Stat("recv:timed-retry")
				outs[i] = c04RunRecvScaled(s, scale)
				kind, what, detail = check(i)
			}
		}
		if kind != "" {
			c.Violate(kind, what, detail, s.replay())
		}
		if i%997 == 0 || (s.timed && i%17 == 0) {
			h, d := c04Canon(outs[i])
			c.Sample(map[string]any{"kind": "recv", "scenario": s.replay(), "handled": len(h), "link": d})
		}
	}
}

// ---------------------------------------------------------------- allocation on a hostile length

func c04Alloc(c *Ctx) (safe bool) {
	safe = true
	capLen := int(hsms.VerifMaxHSMSMsgLen)
	for _, l := range []uint32{9, uint32(capLen + 1), 1 << 30, 1 << 31, 0xFFFFFFFF} {
		if !safe {
			break // already shown on a 16 MiB claim; do not ask the process for gigabytes
		}
		b := binary.BigEndian.AppendUint32(nil, l)
		b = append(b, make([]byte, 64)...)
		s := &c04Scenario{tag: "hostile-length", segs: c04Cut(b, 2)}
		runtime.GC()
		var m0, m1 runtime.MemStats
		runtime.ReadMemStats(&m0)
		o := c04RunRecv(s)
		runtime.ReadMemStats(&m1)
		grown := m1.TotalAlloc - m0.TotalAlloc
		c.Count(fmt.Sprintf("alloc|%d", l), true)
		c.Stat("recv:hostile-length")
		_, drop := c04Canon(o)
		replay := s.replay()
		if drop != "protocol" {
			c.Violate("property", "recv-bad-length-drop", fmt.Sprintf("length field %d: link outcome %q, expected a drop", l, drop), replay)
		}
		if len(o.allocs) != 0 || grown > 1<<20 {
			c.Violate("property", "recv-alloc-before-validation", fmt.Sprintf("length field %d: allocFrame calls %v, heap grew by %d bytes while handling it", l, o.allocs, grown), replay)
			safe = false
		}
	}
	// the largest acceptable length IS allocated (and only that), even though the body never arrives
	b := binary.BigEndian.AppendUint32(nil, uint32(capLen))
	b = append(b, 1, 2, 3)
	s := &c04Scenario{tag: "cap-length", segs: c04Cut(b)}
	o := c04RunRecv(s)
	c.Count("alloc|cap", true)
	c.Stat("recv:cap-length")
	if _, drop := c04Canon(o); drop != "eof" || len(o.allocs) != 1 || o.allocs[0] != capLen {
		c.Violate("property", "recv-cap-length", fmt.Sprintf("length field = cap: outcome %q, allocFrame calls %v", drop, o.allocs), s.replay())
	}
	if c.Lean != nil {
		_, md, malloc, ok := c04Expect(c.Lean.Ask(s.line()))
		if !ok || md != "eof" || malloc != capLen {
			c.Violate("correspondence", "recv-model-alloc", fmt.Sprintf("cap length: model drop=%s alloc=%d", md, malloc), s.replay())
		}
	}
	return safe
}

// ---------------------------------------------------------------- a real connection

type c04ConnOutcome struct {
	deliveries []string // frames handed to the data-message handler, hex of ToBytes()[4:]
	wire       []string // frames the connection wrote after the Select handshake (Separate.req farewells removed)
	dropped    bool     // the connection closed the socket before the peer did
	err        string
}

// c04OpenPipe builds a real hsmsss connection (active role) whose dialer hands out one end of a net.Pipe, plays
// the passive peer's side of the Select procedure on the other end and returns once the connection is Selected.
// T8 = 80 ms. Later dial attempts fail, so after a link drop the connection just retries until Close.
func c04OpenPipe(handler hsms.DataMessageHandler, extra ...hsms.ConnOption) (hsmsss.Connection, net.Conn, error) {
	return c04OpenPipeRole(false, handler, extra...)
}

// pipeListener is an in-memory net.Listener handing out queued conns (passive role).
type pipeListener struct {
	ch     chan net.Conn
	closed chan struct{}
	once   sync.Once
}

type pipeAddr struct{}

func (pipeAddr) Network() string { return "pipe" }
func (pipeAddr) String() string  { return "verif.pipe" }

func (l *pipeListener) Accept() (net.Conn, error) {
	select {
	case c := <-l.ch:
		return c, nil
	case <-l.closed:
		return nil, net.ErrClosed
	}
}
func (l *pipeListener) Close() error   { l.once.Do(func() { close(l.closed) }); return nil }
func (l *pipeListener) Addr() net.Addr { return pipeAddr{} }

// c04OpenPipeRole: passive = the connection listens (in-memory listener) and the scripted peer initiates Select.
func c04OpenPipeRole(passive bool, handler hsms.DataMessageHandler, extra ...hsms.ConnOption) (hsmsss.Connection, net.Conn, error) {
	client, server := net.Pipe()
	var dials atomic.Int32
	dial := func(ctx context.Context, network, addr string) (net.Conn, error) {
		if dials.Add(1) == 1 {
			return server, nil
		}
		return nil, errors.New("verif: peer gone")
	}
	opts := []hsmsss.Option{hsmsss.WithActive(), hsmsss.WithDialer(dial)}
	if passive {
		conns := make(chan net.Conn, 1)
		conns <- server
		listen := func(ctx context.Context, network, addr string) (net.Listener, error) {
			return &pipeListener{ch: conns, closed: make(chan struct{})}, nil
		}
		opts = []hsmsss.Option{hsmsss.WithPassive(), hsmsss.WithListener(listen)}
	}
	for _, o := range append([]hsms.ConnOption{hsms.WithT8(c04T8), hsms.WithT6(3 * time.Second), hsms.WithT7(5 * time.Second), hsms.WithT5(time.Second),
		hsms.WithCloseTimeout(2 * time.Second)}, extra...) {
		opts = append(opts, hsmsss.WithConnectionOption(o))
	}
	cfg, err := hsmsss.NewConfig("verif.pipe", 5000, opts...)
	if err != nil {
		return nil, nil, fmt.Errorf("config: %w", err)
	}
	conn, err := hsmsss.New(cfg)
	if err != nil {
		return nil, nil, fmt.Errorf("new: %w", err)
	}
	if handler != nil {
		conn.AddDataMessageHandler(handler)
	}
	hs := make(chan error, 1)
	go func() {
		buf := make([]byte, 14)
		client.SetDeadline(time.Now().Add(5 * time.Second))
		defer client.SetDeadline(time.Time{})
		if passive { // the peer is the active entity: Select.req out, Select.rsp (status 0) back
			req := hsms.NewSelectReq(0xFFFF, [4]byte{0x7F, 0xFF, 0xFF, 0x01})
			if _, err := client.Write(req.ToBytes()); err != nil {
				hs <- err
				return
			}
			if _, err := io.ReadFull(client, buf); err != nil {
				hs <- err
				return
			}
			want, _ := hsms.NewSelectRsp(req, 0)
			if !bytes.Equal(buf, want.ToBytes()) {
				hs <- fmt.Errorf("select.rsp on the wire is %x, expected %x", buf, want.ToBytes())
				return
			}
			hs <- nil
			return
		}
		if _, err := io.ReadFull(client, buf); err != nil {
			hs <- err
			return
		}
		req, err := hsms.DecodeHSMSMessage(buf)
		if err != nil {
			hs <- err
			return
		}
		rsp, err := hsms.NewSelectRsp(req.(*hsms.ControlMessage), 0)
		if err != nil {
			hs <- err
			return
		}
		_, err = client.Write(rsp.ToBytes())
		hs <- err
	}()
	ctx, cancel := context.WithTimeout(context.Background(), 8*time.Second)
	defer cancel()
	mode := hsms.OpenWaitSelected
	if passive {
		mode = hsms.OpenBackground
	}
	if err := conn.Open(ctx, mode); err != nil {
		client.Close()
		conn.Close()
		return nil, nil, fmt.Errorf("open: %w", err)
	}
	if err := <-hs; err != nil {
		client.Close()
		conn.Close()
		return nil, nil, fmt.Errorf("handshake: %w", err)
	}
	for deadline := time.Now().Add(5 * time.Second); conn.State() != hsms.SelectedState; time.Sleep(time.Millisecond) {
		if time.Now().After(deadline) {
			client.Close()
			conn.Close()
			return nil, nil, errors.New("connection did not reach Selected")
		}
	}
	return conn, client, nil
}

// c04RunConn feeds the scenario to a real hsmsss connection (active role, dialer = one end of a net.Pipe):
// Select handshake by the scripted peer, then the scenario's writes. wantHandled / wantWire / wantDrop tell it
// what to wait for (the model's prediction), so that it never sleeps a fixed time.
func c04RunConn(s *c04Scenario, passive bool, wantDeliveries, wantWire int, wantDrop bool) c04ConnOutcome {
	return c04RunConnScaled(s, passive, wantDeliveries, wantWire, wantDrop, 1)
}

// c04RunConnScaled: T8 and every scripted gap stretched by the same factor (see c04RunRecvScaled).
func c04RunConnScaled(s *c04Scenario, passive bool, wantDeliveries, wantWire int, wantDrop bool, scale int) c04ConnOutcome {
	var out c04ConnOutcome
	var mu sync.Mutex
	conn, client, err := c04OpenPipeRole(passive, func(msg *hsms.DataMessage, _ hsms.SECS2Endpoint) {
		mu.Lock()
		out.deliveries = append(out.deliveries, hexs(msg.ToBytes()[4:]))
		mu.Unlock()
	}, hsms.WithT8(c04T8*time.Duration(scale)))
	if err != nil {
		return c04ConnOutcome{err: err.Error()}
	}
	var wire []byte
	readerDone := make(chan struct{})
	go func() {
		buf := make([]byte, 4096)
		for {
			n, err := client.Read(buf)
			mu.Lock()
			wire = append(wire, buf[:n]...)
			mu.Unlock()
			if err != nil {
				close(readerDone)
				return
			}
		}
	}()
	for _, g := range s.segs {
		if g.gapNs > 0 {
			gap := time.Duration(g.gapNs) * time.Duration(scale)
			if s.localWrite && g.gapNs >= c04T8Ns {
				time.Sleep(gap / 5)
				ctx, cancel := context.WithTimeout(context.Background(), time.Second)
				_ = conn.SendDataMessageAsync(ctx, 99, 1, false, secs2.NewBinaryItem([]byte{1, 2, 3}))
				cancel()
				time.Sleep(gap - gap/5)
			} else {
				time.Sleep(gap)
			}
		}
		if len(g.data) == 0 {
			continue
		}
		client.SetWriteDeadline(time.Now().Add(3 * time.Second * time.Duration(scale)))
		if _, err := client.Write(g.data); err != nil {
			break
		}
	}
	frames := func() []string {
		mu.Lock()
		defer mu.Unlock()
		var fs []string
		w := wire
		for len(w) >= 14 {
			l := int(binary.BigEndian.Uint32(w[:4]))
			if l < 10 || len(w) < 4+l {
				break
			}
			if !(w[9] == 9 && l == 10) && !(w[9] == 0 && w[6]&0x7f == 99) { // Separate.req farewell of the teardown; the harness's own S99F1
				fs = append(fs, hexs(w[:4+l]))
			}
			w = w[4+l:]
		}
		return fs
	}
	deadline := time.Now().Add(3 * time.Second * time.Duration(scale))
	for time.Now().Before(deadline) {
		if wantDrop {
			select {
			case <-readerDone:
				out.dropped = true
			default:
			}
			if out.dropped {
				break
			}
		} else {
			mu.Lock()
			nd := len(out.deliveries)
			mu.Unlock()
			if nd >= wantDeliveries && len(frames()) >= wantWire {
				break
			}
		}
		time.Sleep(2 * time.Millisecond)
	}
	if !wantDrop {
		time.Sleep(5 * time.Millisecond) // anything in excess of the prediction gets a chance to show
		select {
		case <-readerDone:
			out.dropped = true
		default:
		}
	}
	client.Close()
	<-readerDone
	conn.Close()
	out.wire = frames()
	mu.Lock()
	out.deliveries = append([]string(nil), out.deliveries...)
	mu.Unlock()
	return out
}

// c04RealConnection: the same scenarios against a real connection — handler deliveries, what goes back on the wire,
// and whether the link is dropped — predicted by the model fold.
func c04RealConnection(c *Ctx, allocSafe bool) {
	if c.Lean == nil {
		return
	}
	r := c.Rng
	_, named := c04Payloads(c)
	streamOf := func(ps ...[]byte) []byte {
		var b []byte
		for _, p := range ps {
			b = append(b, c04Frame(p)...)
		}
		return b
	}
	var scen []*c04Scenario
	mixes := [][][]byte{
		{named["data-empty"], named["data-list"], named["data-len-like-body"]},
		{named["data-bad-body"], named["bad-ptype"], named["data-empty"], named["bad-stype"], named["data-list"]},
		{named["linktest-req"], named["data-list"], named["ctl-with-body"], named["linktest-rsp"], named["reject-req"], named["select-rsp-3"], named["data-empty"]},
		{named["bad-stype-255"], named["data-len-like-body"]},
	}
	for _, ps := range mixes {
		b := streamOf(ps...)
		n := len(b)
		scen = append(scen, &c04Scenario{tag: "conn-whole", segs: c04Cut(b)})
		var all []int
		for i := 1; i < n; i++ {
			all = append(all, i)
		}
		scen = append(scen, &c04Scenario{tag: "conn-byte-at-a-time", segs: c04Cut(b, all...)})
		for k := 0; k < c.Pick(15, 400); k++ {
			var cuts []int
			for pos := 1 + r.IntN(7); pos < n; pos += 1 + r.IntN(15) {
				cuts = append(cuts, pos)
			}
			scen = append(scen, &c04Scenario{tag: "conn-multi-cut", segs: c04Cut(b, cuts...)})
		}
		for _, cut := range []int{1, 2, 3, 4, 5, 13, 14, 15, 17, 18} {
			scen = append(scen, &c04Scenario{tag: "conn-single-cut", segs: c04Cut(b, cut)})
		}
	}
	// drops: bad length after good frames, long in-frame gap, long idle gap
	good := streamOf(named["data-list"])
	for _, l := range []uint32{0, 9, uint32(hsms.VerifMaxHSMSMsgLen) + 1, 0xFFFFFFFF} {
		if !allocSafe && l > 9 {
			continue
		}
		b := append(binary.BigEndian.AppendUint32(append([]byte(nil), good...), l), c04Frame(named["data-empty"])...)
		scen = append(scen, &c04Scenario{tag: "conn-bad-length", segs: c04Cut(b, len(good)+2)})
	}
	two := streamOf(named["data-empty"], named["data-list"])
	n0 := len(c04Frame(named["data-empty"]))
	for _, cut := range []int{2, 4, 9, n0 + 1, n0 + 4, n0 + 10} {
		scen = append(scen, &c04Scenario{tag: "conn-inframe-gap-long", segs: []c04Seg{{0, two[:cut]}, {c04LongNs, two[cut:]}}, timed: true})
		scen = append(scen, &c04Scenario{tag: "conn-inframe-gap-short", segs: []c04Seg{{0, two[:cut]}, {c04ShortNs, two[cut:]}}, timed: true})
	}
	scen = append(scen, &c04Scenario{tag: "conn-idle-gap-long", segs: []c04Seg{{c04LongNs, two[:n0]}, {c04LongNs, two[n0:]}}, timed: true})
	for _, cut := range []int{4, 9, n0 + 4, n0 + 10} {
		scen = append(scen, &c04Scenario{tag: "conn-inframe-gap-long-local-write", segs: []c04Seg{{0, two[:cut]}, {c04LongNs, two[cut:]}}, timed: true, localWrite: true})
	}

	lines := make([]string, len(scen))
	for i, s := range scen {
		lines[i] = s.line()
	}
	ans := c.Lean.AskAll(lines)
	c.Res.Traces += len(scen)

	type pred struct {
		deliveries, wire []string
		drop             bool
		skip             bool
	}
	preds := make([]pred, len(scen))
	for i := range scen {
		mh, md, _, ok := c04Expect(ans[i])
		if !ok || md == "skip" {
			preds[i].skip = true
			continue
		}
		preds[i].drop = md != "eof"
		for _, h := range mh {
			switch {
			case strings.HasPrefix(h, "deliver:"):
				preds[i].deliveries = append(preds[i].deliveries, h[8:])
			case strings.HasPrefix(h, "send:"):
				preds[i].wire = append(preds[i].wire, h[5:])
			case strings.HasPrefix(h, "route:"):
				// no transaction is open: an orphan response is answered with Reject(TransactionNotOpen); an orphan Reject.req is dropped
				f, _ := hex.DecodeString(h[6:])
				if f[9] != 7 {
					rj := hsms.NewRejectReqRaw(binary.BigEndian.Uint16(f[4:6]), 0, f[9], [4]byte{f[10], f[11], f[12], f[13]}, 3)
					preds[i].wire = append(preds[i].wire, hexs(rj.ToBytes()))
				}
			}
		}
	}
	outs := make([]c04ConnOutcome, len(scen))
	var wg sync.WaitGroup
	ch := make(chan int)
	for w := 0; w < 12; w++ {
		wg.Add(1)
		go func() {
			defer wg.Done()
			for i := range ch {
				if !preds[i].skip {
					outs[i] = c04RunConn(scen[i], i%2 == 1, len(preds[i].deliveries), len(preds[i].wire), preds[i].drop)
				}
			}
		}()
	}
	for i := range scen {
		ch <- i
	}
	close(ch)
	wg.Wait()
	check := func(i int) string {
		o, p := outs[i], preds[i]
		if o.err != "" {
			return "harness could not bring the connection to Selected: " + o.err
		}
		if strings.Join(o.deliveries, ",") != strings.Join(p.deliveries, ",") {
			return fmt.Sprintf("handler deliveries [%s], model predicts [%s]", clip(strings.Join(o.deliveries, ","), 300), clip(strings.Join(p.deliveries, ","), 300))
		}
		if strings.Join(o.wire, ",") != strings.Join(p.wire, ",") {
			return fmt.Sprintf("connection wrote [%s], model predicts [%s]", clip(strings.Join(o.wire, ","), 300), clip(strings.Join(p.wire, ","), 300))
		}
		if o.dropped != p.drop {
			return fmt.Sprintf("link dropped by the connection: %v, model predicts %v", o.dropped, p.drop)
		}
		return ""
	}
	for i, s := range scen {
		if preds[i].skip {
			continue
		}
		c.Count("conn|"+s.line(), true)
		c.Stat("conn:" + s.tag)
		c.Stat("conn-role:" + map[bool]string{false: "active", true: "passive"}[i%2 == 1])
		msg := check(i)
		// T8 is wall-clock time on a real connection too: any mismatch is reproduced with T8 and the scripted gaps
		// stretched x4 and x16 before it is reported (a thorough sweep at load average 150-240 reported
		// `conn-multi-cut` with back-to-back harness writes more than 80 ms apart: false alarm, corrected)
		for _, scale := range []int{4, 16} {
			if msg == "" {
				break
			}
			c.Stat("conn:timed-retry")
			outs[i] = c04RunConnScaled(s, i%2 == 1, len(preds[i].deliveries), len(preds[i].wire), preds[i].drop, scale)
			msg = check(i)
		}
		if msg != "" {
			kind := "correspondence"
			if strings.HasPrefix(s.tag, "conn-inframe-gap-long") || strings.HasPrefix(s.tag, "conn-inframe-gap-short") || s.tag == "conn-idle-gap-long" {
				kind = "property" // these expectations are the property's own clauses (in-frame gap > T8 drops; shorter gaps and idle gaps never do)
			}
			c.Violate(kind, "conn-"+s.tag, msg, s.replay())
		}
		if i%23 == 0 {
			c.Sample(map[string]any{"kind": "connection", "scenario": s.replay(), "deliveries": len(outs[i].deliveries), "wire_frames": len(outs[i].wire), "dropped": outs[i].dropped})
		}
	}
}
