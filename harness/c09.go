package main

import (
	"fmt"
	"os"
	"sort"
	"strings"
	"time"
)

func init() {
	register("C09", "histories on a real hsmsss connection whose TCP generation is dropped by the scripted peer at a chosen point of the sends "+
		"(awaiting reply / mid-write through a stalled pipe / frames queued in the async queue and writers queued on the write lock), "+
		"followed by reconnect (optionally through refused dials) and a second wave on the new generation; every frame is tagged with its "+
		"call, every peer frame with its generation; the history is replayed through the Lean router model; distinct = distinct (drop mode, "+
		"drop point, senders, outcome multiset); non-trivial = at least one call was cut by the drop", runC09)
}

func sortStrings(s []string) { sort.Strings(s) }

func runC09(c *Ctx) {
	if f := os.Getenv("VERIF_C09_ONLY"); f != "" { // debugging aid: run one scenario family only
		switch f {
		case "stale":
			c09StaleSenders(c)
		case "slowhandler":
			c09SlowHandlers(c)
		case "slowhandler2":
			c09SlowHandlerSuccessor(c)
		case "fullqueue":
			c09FullQueue(c)
		case "secs1":
			c09SECS1(c)
		case "slowreader":
			c09SlowReader(c)
		}
		return
	}
	// the generation is replaced while a sender sits between its write and its reply wait (held by the application's trace logger)
	c09StaleSenders(c)
	// the generation ends while an application handler still runs: waiters are released by the START of the teardown
	c09SlowHandlers(c)
	// ... the teardown gives up on the blocked handler, the successor generation is up, THEN the handler returns (c09_slowhandler2.go)
	c09SlowHandlerSuccessor(c)
	// async senders (and the receive loop) parked on a FULL fire-and-forget queue when the generation ends (c09_fullqueue.go)
	c09FullQueue(c)
	c09Farewell(c) // graceful Close against a wedged peer with a send waiting (c09_farewell.go)
	// senders of generation N pass the transport boundary only after N+1 is up, while N+1's peer reads a frame slowly (c09_slowreader.go)
	c09SlowReader(c)
	// the SECS-I transport: sends parked at the hand-off / mid-block / awaiting a reply when the generation ends
	c09SECS1(c)
	sizes := []int{1, 2, 3, 4, 8, 16, 32, 64}
	for k := 0; k < c.Pick(6, 24); k++ {
		for _, n := range sizes {
			for _, mode := range []string{"await", "stall", "queued"} {
				if routerStop(c) {
					return
				}
				evalHistoryC09(c, dropSpec(c, n, mode, k, (k+n)%3 == 0))
			}
		}
	}
}

func evalHistoryC09(c *Ctx, sp *rSpec) {
	h, notes, fail := runScenario(sp)
	if fail != "" {
		c.Violate("correspondence", "scenario-did-not-start", fail, map[string]any{"spec": sp})
		return
	}
	replay := map[string]any{"spec": sp, "calls": h.Calls, "peer_out": h.Out, "peer_in": h.In, "dials": h.Dials, "closes": h.Closes, "failed_dials": h.FailedDials}
	routerNotes(c, notes, replay)
	sig, cut := oracleC09(c, sp, h, replay)
	c.Count(sig, cut > 0)
	c.Stat("mode:" + sp.DropMode)
	if len(c.Res.Samples) < 8 && c.Res.Evaluations%7 == 2 {
		outs := map[string]int{}
		for _, cl := range h.Calls {
			outs[cl.Kind+":"+cl.Outcome]++
		}
		var gens []string
		for g := range h.In {
			gens = append(gens, fmt.Sprintf("gen%d: %d frames received, %d sent", g, len(h.In[g]), len(h.Out[g])))
		}
		c.Sample(map[string]any{"scenario": sp.Name, "drop_after": sp.DropAfter, "outcomes": outs, "generations": gens, "refused_dials": len(h.FailedDials)})
	}
	modelCheck(c, "C09", sp, h, replay)
}

func oracleC09(c *Ctx, sp *rSpec, h *rHistory, replay map[string]any) (string, int) {
	// where each call's frame was received
	genOf := map[int]int{}
	for g, in := range h.In {
		for _, f := range in {
			if !f.IsData() || f.Tag < 0 || int(f.Tag) >= len(sp.Plans) {
				continue
			}
			i := int(f.Tag)
			if _, dup := genOf[i]; dup {
				c.Violate("property", "frame-transmitted-twice", fmt.Sprintf("call %d's message reached the peer more than once", i), replay)
			}
			genOf[i] = g
			cl := h.Calls[i]
			// the call had returned before this generation was even dialled: the message was accepted on an earlier generation
			if cl.End > 0 && cl.End < h.Dials[g] {
				what := "stale-frame-on-later-generation"
				if cl.Kind == "a" {
					what = "queued-async-flushed-on-later-generation"
				}
				c.Violate("property", what, fmt.Sprintf("call %d (%s, returned %s) ended before generation %d was dialled, yet its message was transmitted on generation %d",
					i, cl.Kind, cl.Outcome, g, g), replay)
			}
			c.Stat(fmt.Sprintf("frame-on-gen:%d", min(g, 2)))
		}
	}
	frameGen := map[int]int{}
	for g, out := range h.Out {
		for _, f := range out {
			frameGen[f.Fid] = g
		}
	}
	cut := 0
	outs := map[string]int{}
	for i, cl := range h.Calls {
		outs[cl.Kind+":"+cl.Outcome]++
		c.Stat("outcome:" + cl.Outcome)
		if cl.Outcome == "reply" {
			g, ok := genOf[i]
			fg, ok2 := frameGen[int(cl.ReplyTag)]
			if ok && ok2 && g != fg {
				c.Violate("property", "reply-crossed-generations", fmt.Sprintf("call %d sent its primary on generation %d and was completed by a frame received on generation %d", i, g, fg), replay)
			}
		}
		// calls that were running when generation 0 was dropped
		if len(h.Closes) > 0 && h.Closes[0] > 0 && cl.Start < h.Closes[0] && cl.End > h.Closes[0] {
			cut++
			switch cl.Outcome {
			case "closed", "writeerr", "notselected", "timeout", "ctx":
			case "reply", "reject":
				// completed by a frame the peer had already written before it closed
			default:
				if !(cl.Kind != "s" && cl.Outcome == "sent") {
					c.Violate("property", "cut-call-outcome", fmt.Sprintf("call %d was running when its generation ended and returned %s", i, cl.Outcome), replay)
				}
			}
			// a call the application itself held (parked in its trace logger) is measured from its release
			from, bound := h.CloseT[0], 1500*time.Millisecond
			if h.ReleaseT > from {
				from = h.ReleaseT
			}
			if h.PromptBound > 0 {
				bound = h.PromptBound
			}
			if lat := time.Duration(cl.EndT.UnixNano() - from); lat > bound {
				c.Violate("property", "waiter-not-released-promptly", fmt.Sprintf("call %d returned %v after its generation was dropped (close timeout 3 s)", i, lat), replay)
			}
		}
		if sp.Plans[i].Wave == 1 && sp.Plans[i].Kind == "s" && cl.Outcome != "reply" {
			c.Violate("correspondence", "second-wave-failed", fmt.Sprintf("call %d on the re-established generation returned %s (%s)", i, cl.Outcome, cl.Err), replay)
		}
		if cl.Kind == "a" && cl.Outcome == "sent" {
			if _, ok := genOf[i]; !ok {
				c.Stat("async-discarded-with-generation")
			}
		}
	}
	var parts []string
	for k, v := range outs {
		parts = append(parts, fmt.Sprintf("%s=%d", k, v))
	}
	sortStrings(parts)
	return fmt.Sprintf("%s@%d/%d|%s", sp.DropMode, sp.DropAfter, len(sp.Plans), strings.Join(parts, ",")), cut
}
