package main

// C08 — HSMS-SS control procedures answer every peer frame sequence per SEMI E37.
//
// Scripted-peer mode: a real hsmsss connection (active and passive role, session-id validation on/off,
// equipment/host) talks to the byte-level peer of peer.go. The generator draws frame sequences over the
// full alphabet (SType 0..255 x PType {0,1,255} x {header-only, body} x session / system / status bytes);
// the peer writes them in random groupings and fences the library's outbound FIFO with a Linktest.req
// barrier; everything the library sent before the barrier's Linktest.rsp, the data messages handed to the
// application and Connection.State() are compared with (a) the Lean responder model (`rsp.run`,
// correspondence) and (b) a Go restatement of the E37 response table (property oracle).

import (
	"encoding/hex"
	"fmt"
	"math/rand/v2"
	"strings"
	"sync"
	"time"

	"github.com/arloliu/go-secs/v2/hsms"
	"github.com/arloliu/go-secs/v2/hsmsss"
)

func init() {
	register("C08", "frame scripts over SType 0..255 x PType {0,1,255} x {header-only, body} x session id {0xFFFF, own, other} x "+
		"system bytes {fresh, repeated, own pending Select} x status bytes, length <= 8 (quick) / <= 40 (thorough), random write "+
		"groupings incl. mid-frame cuts; roles active/passive x session-id validation on/off x equipment/host; second TCP "+
		"connection to a live passive endpoint; distinct = distinct (config, script text); non-trivial = script with >= 2 frame "+
		"classes or a state change", runC08)
}

// ---------------------------------------------------------------------------------------------
// scripts

type rspCfg struct {
	active   bool
	validate bool
	equip    bool
	session  uint16
}

func (c rspCfg) text() string {
	return fmt.Sprintf("role=%s validate=%v equip=%v session=%04x", map[bool]string{true: "active", false: "passive"}[c.active], c.validate, c.equip, c.session)
}

type rspOp struct {
	f          PFrame
	mayEnd     bool // handling this frame may end the link: fence before it, expect a close after it
	pause      bool // let asynchronous bookkeeping settle before this frame (reuse of the Select's system bytes)
	dial2      bool // passive: open a second TCP connection before this frame
	flushAfter bool // the reply is a DATA message (S9F1) queued on the async sender: fence right after it, or a following Deselect lets the write-boundary gate rightly drop it
	settle     int  // >0: a Deselect.req sent while Selected — first wait until the supervisor has reported this many entries to Selected
}

func frameLine(f PFrame) string { return hex.EncodeToString(f.H[:]) + " " + fmt.Sprint(len(f.Body)) }

func scriptText(ops []rspOp) string {
	var b strings.Builder
	for _, o := range ops {
		if o.dial2 {
			b.WriteString("<dial2> ")
		}
		b.WriteString(frameLine(o.f))
		b.WriteString("; ")
	}
	return b.String()
}

// e37State is the Go-side restatement of the E37 table's state (property oracle).
type e37State struct {
	up       bool
	selected bool
	openSel  *uint32 // system bytes of the library's own pending Select.req (active role)
}

func c08ValidSType(s byte) bool { return s <= 7 || s == 9 }

// e37Expect returns what E37 prescribes for frame f in state st: the frames sent back (canonical text), the
// deliveries, and it updates st. ends reports that the link ends.
func e37Expect(cfg rspCfg, st *e37State, f PFrame) (wire []string, deliv []string, ends bool) {
	if !st.up {
		return nil, nil, false
	}
	sys := uint32(f.H[6])<<24 | uint32(f.H[7])<<16 | uint32(f.H[8])<<8 | uint32(f.H[9])
	ctl := func(session uint16, b2, b3, stype byte) string {
		h := mkFrame(session, b2, b3, 0, stype, f.Sys(), nil).H
		return "C:" + hex.EncodeToString(h[:])
	}
	hit := st.openSel != nil && *st.openSel == sys
	switch {
	case f.PType() != 0:
		return []string{ctl(f.Session(), f.PType(), 2, 7)}, nil, false
	case !c08ValidSType(f.SType()):
		return []string{ctl(f.Session(), f.SType(), 1, 7)}, nil, false
	case f.SType() != 0 && len(f.Body) > 0:
		return []string{ctl(f.Session(), f.SType(), 1, 7)}, nil, false
	}
	switch f.SType() {
	case 0:
		if !st.selected {
			return []string{ctl(f.Session(), 0, 4, 7)}, nil, false
		}
		isS9F1 := f.B2()&0x7f == 9 && f.B3() == 1
		if cfg.validate && !isS9F1 && f.Session() != cfg.session {
			return []string{fmt.Sprintf("S9:%d:%s", cfg.session, hex.EncodeToString(f.H[:]))}, nil, false
		}
		// a data secondary never completes a CONTROL transaction (kind-aware reply registry): delivered
		return nil, []string{fmt.Sprintf("D:%s:%d", hex.EncodeToString(f.H[:]), len(f.Body))}, false
	case 1:
		if st.selected {
			return []string{ctl(f.Session(), 0, 1, 2)}, nil, false
		}
		st.selected = true
		return []string{ctl(f.Session(), 0, 0, 2)}, nil, false
	case 3:
		if st.selected {
			st.selected = false
			return []string{ctl(f.Session(), 0, 0, 4)}, nil, false
		}
		return []string{ctl(f.Session(), 0, 1, 4)}, nil, false
	case 5:
		return []string{ctl(0xFFFF, 0, 0, 6)}, nil, false
	case 9:
		if st.selected {
			st.up, st.selected = false, false
			return nil, nil, true
		}
		return nil, nil, false
	case 2, 4, 6, 7:
		if !hit {
			if f.SType() == 7 {
				return nil, nil, false
			}
			return []string{ctl(f.Session(), f.SType(), 3, 7)}, nil, false
		}
		st.openSel = nil
		if f.SType() == 2 && f.B3() == 0 {
			st.selected = true
			return nil, nil, false
		}
		if f.SType() == 2 && f.B3() == 1 {
			return nil, nil, false
		}
		st.up, st.selected = false, false
		return nil, nil, true
	}
	return nil, nil, false
}

type rspGen struct {
	r      *rand.Rand
	cfg    rspCfg
	selSys uint32 // system bytes of the library's Select.req (active), filled in when it is seen
	next   uint32
	used   []uint32
}

func (g *rspGen) sys() uint32 {
	r := g.r
	switch k := r.IntN(10); {
	case k < 6 || len(g.used) == 0:
		g.next++
		v := 0x10000000 + g.next
		g.used = append(g.used, v)
		return v
	case k < 8:
		return g.used[r.IntN(len(g.used))]
	default:
		return uint32(r.Uint64())&0x0fffffff | 0x20000000
	}
}

func (g *rspGen) session() uint16 {
	switch g.r.IntN(5) {
	case 0:
		return 0xFFFF
	case 1, 2:
		return g.cfg.session
	case 3:
		return g.cfg.session ^ 0x0101
	default:
		return uint16(g.r.Uint32())
	}
}

func (g *rspGen) body(must bool) []byte {
	r := g.r
	if !must && r.IntN(3) > 0 {
		return nil
	}
	n := 1 + r.IntN(12)
	b := make([]byte, n)
	for i := range b {
		b[i] = byte(r.Uint32())
	}
	if r.IntN(2) == 0 { // a well-formed item: A[n-2]
		if n >= 2 {
			b[0], b[1] = 0x41, byte(n-2)
		}
	}
	return b
}

// frame draws one frame; st is the oracle state so far (to aim at state-dependent rows).
func (g *rspGen) frame(st *e37State) rspOp {
	r := g.r
	var op rspOp
	ptype := byte(0)
	switch r.IntN(12) {
	case 0:
		ptype = 1
	case 1:
		ptype = 255
	}
	var stype byte
	switch k := r.IntN(20); {
	case k < 14:
		stype = []byte{0, 0, 0, 1, 1, 2, 3, 3, 4, 5, 6, 7, 9, 1}[k]
	case k < 16:
		stype = []byte{8, 10, 11, 127, 128, 254, 255}[r.IntN(7)]
	default:
		stype = byte(r.Uint32())
	}
	b2, b3 := byte(0), byte(0)
	var body []byte
	sys := g.sys()
	if stype == 0 {
		// data: stream/W and function chosen to hit primaries, secondaries, S9F1
		switch r.IntN(6) {
		case 0:
			b2, b3 = 9, 1
		case 1:
			b2, b3 = 0x80|byte(1+r.IntN(20)), byte(1+2*r.IntN(20))
		case 2:
			b2, b3 = byte(1+r.IntN(20)), byte(2*r.IntN(20))
		default:
			b2, b3 = byte(r.Uint32()), byte(r.Uint32())
		}
		body = g.body(false)
	} else {
		if r.IntN(8) == 0 {
			body = g.body(true)
		}
		switch r.IntN(4) {
		case 0:
			b3 = byte(r.IntN(4))
		case 1:
			b2, b3 = byte(r.Uint32()), byte(r.Uint32())
		}
	}
	// reach the Selected rows often enough: a well-formed Select.req while not selected
	if !st.selected && r.IntN(6) == 0 {
		stype, ptype, body = 1, 0, nil
	}
	// aim at our own pending Select's transaction now and then (active role)
	if st.openSel != nil && r.IntN(6) == 0 {
		sys = *st.openSel
		if r.IntN(2) == 0 {
			stype, ptype, body = 2, 0, nil
			b3 = []byte{0, 0, 0, 1, 2, 3, 255}[r.IntN(7)]
		}
	} else if g.selSys != 0 && st.openSel == nil && r.IntN(12) == 0 {
		sys = g.selSys // response to a transaction that is already closed: must be an orphan
		op.pause = true
	}
	op.f = mkFrame(g.session(), b2, b3, ptype, stype, sysOf(sys), body)
	return op
}

func (g *rspGen) script(n int, initial e37State) []rspOp {
	st := initial
	var ops []rspOp
	dialed := false
	for i := 0; i < n && st.up; i++ {
		op := g.frame(&st)
		// a frame that ends the link ends the script: keep most of those for the last position
		for try := 0; try < 6 && i < n-1 && g.r.IntN(8) != 0; try++ {
			probe := st
			if _, _, ends := e37Expect(g.cfg, &probe, op.f); !ends {
				break
			}
			op = g.frame(&st)
		}
		if !g.cfg.active && !dialed && g.r.IntN(10) == 0 {
			op.dial2 = true
			dialed = true
		}
		e37Expect(g.cfg, &st, op.f)
		ops = append(ops, op)
	}
	return annotate(g.cfg, ops, initial)
}

// settleBeforeDeselect makes the random scripts wait for the supervisor goroutine before a Deselect.req that
// follows a select commit. It was needed while go-secs re-stored Selected from a stale evSelectAccepted (found by
// this check, fixed upstream; c08PipelinedDeselect keeps watching that signature). Off: the random scripts
// pipeline select/deselect freely.
const settleBeforeDeselect = false

// annotate marks the frames that may end the link (fence before, expect a close after) and the Deselect.req
// frames sent while Selected (settle first, see c08PipelinedDeselect for the unsettled variant).
func annotate(cfg rspCfg, ops []rspOp, initial e37State) []rspOp {
	st := initial
	commits := 0
	for i := range ops {
		before := st
		w, _, ends := e37Expect(cfg, &st, ops[i].f)
		ops[i].mayEnd = ends
		for _, x := range w {
			if strings.HasPrefix(x, "S9:") {
				ops[i].flushAfter = true
			}
		}
		if !before.selected && st.selected {
			commits++
		}
		if before.selected && !st.selected && st.up && settleBeforeDeselect {
			ops[i].settle = commits
		}
	}
	return ops
}

// ---------------------------------------------------------------------------------------------
// running a script against the real connection

type rspRun struct {
	wire   []string // canonical text of every frame the library sent (barrier replies removed)
	deliv  []string
	state  hsms.ConnState
	closed bool // the library closed the stream
	dial2  string
	err    string
	selSys uint32
}

func canonOut(f PFrame) string {
	if f.SType() == 0 && f.PType() == 0 && f.B2()&0x7f == 9 && f.B3() == 1 && len(f.Body) == 12 && f.Body[0] == 0x21 && f.Body[1] == 10 {
		return fmt.Sprintf("S9:%d:%s", f.Session(), hex.EncodeToString(f.Body[2:]))
	}
	if len(f.Body) == 0 && f.PType() == 0 && f.SType() != 0 {
		return "C:" + hex.EncodeToString(f.H[:])
	}
	return "RAW:" + f.Text()
}

var barrierSeq struct {
	sync.Mutex
	n uint32
}

func nextBarrier() [4]byte {
	barrierSeq.Lock()
	defer barrierSeq.Unlock()
	barrierSeq.n++
	return sysOf(0xB0000000 + barrierSeq.n)
}

// fence sends a Linktest.req barrier and collects everything the library sent before its Linktest.rsp.
func fence(p *ScriptPeer, out *rspRun) bool {
	sb := nextBarrier()
	if err := p.Send(mkFrame(0xFFFF, 0, 0, 0, 5, sb, nil)); err != nil {
		out.closed = true
		return false
	}
	for {
		f, err := p.Recv(5 * time.Second)
		if err == errPeerClosed {
			out.closed = true
			return false
		}
		if err != nil {
			out.err = "barrier Linktest.rsp never arrived"
			return false
		}
		if f.SType() == 6 && f.Sys() == sb && len(f.Body) == 0 {
			return true
		}
		out.wire = append(out.wire, canonOut(f))
	}
}

func newRspEndpoint(cfg rspCfg) (*Endpoint, error) {
	copts := []hsms.ConnOption{hsms.WithSessionID(cfg.session), hsms.WithSessionIDValidation(cfg.validate)}
	var opts []hsmsss.Option
	if cfg.equip {
		opts = append(opts, hsmsss.WithEquipRole())
	}
	return NewEndpoint(cfg.active, copts, opts...)
}

// runScript plays ops against a fresh connection. gen (optional) is told the Select's system bytes before
// the script is generated (active role) through mk.
func runScript(rng *rand.Rand, cfg rspCfg, mk func(selSys uint32) []rspOp) (ops []rspOp, out rspRun) {
	ep, err := newRspEndpoint(cfg)
	if err != nil {
		out.err = err.Error()
		return
	}
	defer ep.Shutdown()
	if err := ep.Open(); err != nil {
		out.err = err.Error()
		return
	}
	p, err := ep.Attach(5 * time.Second)
	if err != nil {
		out.err = err.Error()
		return
	}
	defer p.Close()
	if cfg.active {
		f, err := p.Recv(5 * time.Second)
		if err != nil || f.SType() != 1 || f.Session() != cfg.session || len(f.Body) != 0 {
			out.err = fmt.Sprintf("active library did not open with Select.req from its session id: %s (%v)", f.Text(), err)
			return
		}
		s := f.Sys()
		out.selSys = uint32(s[0])<<24 | uint32(s[1])<<16 | uint32(s[2])<<8 | uint32(s[3])
	}
	ops = mk(out.selSys)
	var seg []byte
	flush := func() bool {
		if len(seg) > 0 {
			var cuts []int
			switch rng.IntN(3) {
			case 0: // one write
			case 1: // random cuts, possibly mid-frame
				for i := 0; i < 1+rng.IntN(4); i++ {
					cuts = append(cuts, rng.IntN(len(seg)+1))
				}
				sortInts(cuts)
			case 2: // byte by byte for short segments
				if len(seg) <= 48 {
					for i := 1; i < len(seg); i++ {
						cuts = append(cuts, i)
					}
				}
			}
			if err := p.WriteGrouped(seg, cuts, 200*time.Microsecond); err != nil {
				out.closed = true
				return false
			}
			seg = nil
		}
		return fence(p, &out)
	}
	for _, op := range ops {
		if op.dial2 {
			if !flush() {
				return
			}
			out.dial2 = secondDial(ep)
		}
		if op.pause || op.mayEnd || op.settle > 0 {
			if !flush() {
				return
			}
			if op.pause {
				time.Sleep(30 * time.Millisecond)
			}
			if op.settle > 0 {
				waitSelectedReports(ep, op.settle, 2*time.Second)
			}
		}
		seg = append(seg, op.f.Wire()...)
		if op.flushAfter {
			if !flush() {
				return
			}
		}
		if op.mayEnd {
			if err := p.WriteRaw(seg); err != nil {
				out.closed = true
				return
			}
			seg = nil
			// the link is expected to end: whatever still arrives is recorded, then the close
			for {
				f, err := p.Recv(3 * time.Second)
				if err == errPeerClosed {
					out.closed = true
					break
				}
				if err != nil {
					break
				}
				out.wire = append(out.wire, canonOut(f))
			}
			if out.closed {
				ep.WaitState(hsms.NotConnectedState, 2*time.Second)
			}
			out.state = ep.Conn.State()
			for _, d := range ep.Delivered() {
				out.deliv = append(out.deliv, fmt.Sprintf("D:%s:%d", hex.EncodeToString(d.H[:]), d.BodyLen))
			}
			return
		}
	}
	if !flush() {
		return
	}
	out.state = ep.Conn.State()
	for _, d := range ep.Delivered() {
		out.deliv = append(out.deliv, fmt.Sprintf("D:%s:%d", hex.EncodeToString(d.H[:]), d.BodyLen))
	}
	return
}

// waitSelectedReports waits until the state-change handler has seen n transitions into Selected, i.e. the
// supervisor goroutine has consumed the events of all select commits so far.
func waitSelectedReports(ep *Endpoint, n int, timeout time.Duration) bool {
	deadline := time.Now().Add(timeout)
	for {
		k := 0
		for _, s := range ep.States() {
			if strings.HasSuffix(s, ">2") {
				k++
			}
		}
		if k >= n {
			return true
		}
		if time.Now().After(deadline) {
			return false
		}
		time.Sleep(200 * time.Microsecond)
	}
}

// c08PipelinedDeselect: Select.req directly followed by Deselect.req (and a second Select.req) in ONE write,
// without giving the supervisor goroutine time to consume the first commit's event. E37: replies 0, 0, 0 and
// the session ends up Selected (variant A); Select+Deselect alone ends NotSelected (variant B).
func c08PipelinedDeselect(c *Ctx) {
	n := c.Pick(80, 1500)
	type res struct {
		variant string
		wire    []string
		state   hsms.ConnState
		err     string
	}
	out := make(chan res, 8)
	var wg sync.WaitGroup
	sem := make(chan struct{}, 8)
	wg.Add(n)
	go func() {
		wg.Wait()
		close(out)
	}()
	go func() {
		for i := 0; i < n; i++ {
			sem <- struct{}{}
			go func(i int) {
				defer wg.Done()
				defer func() { <-sem }()
				r := res{variant: c08Burst(i)}
				cfg := rspCfg{active: false, session: 0xFFFF}
				ep, err := newRspEndpoint(cfg)
				if err != nil {
					r.err = err.Error()
					out <- r
					return
				}
				defer ep.Shutdown()
				if err := ep.Open(); err != nil {
					r.err = err.Error()
					out <- r
					return
				}
				p, err := ep.Attach(5 * time.Second)
				if err != nil {
					r.err = err.Error()
					out <- r
					return
				}
				defer p.Close()
				var fs []PFrame
				for k, ch := range r.variant {
					st := byte(1) // Select.req
					if ch == 'D' {
						st = 3 // Deselect.req
					}
					fs = append(fs, mkFrame(0xFFFF, 0, 0, 0, st, sysOf(uint32(k+1)), nil))
				}
				if err := p.Send(fs...); err != nil {
					r.err = err.Error()
					out <- r
					return
				}
				var rr rspRun
				if !fence(p, &rr) {
					r.err = "barrier failed: " + rr.err
					out <- r
					return
				}
				time.Sleep(20 * time.Millisecond) // let every queued supervisor event be consumed
				r.wire, r.state = rr.wire, ep.Conn.State()
				out <- r
			}(i)
		}
	}()
	bad := 0
	for r := range out {
		c.Count("pipelined-deselect|"+r.variant, true)
		c.Stat("pipelined-deselect")
		if r.err != "" {
			c.Violate("correspondence", "script-run-failed", r.err, nil)
			continue
		}
		// E37 reference: a two-state machine over the burst
		var want []string
		sel := false
		for k, ch := range r.variant {
			status := 0
			if ch == 'S' {
				if sel {
					status = 1
				}
				sel = true
				want = append(want, fmt.Sprintf("C:ffff00%02x0002%08x", status, k+1))
			} else {
				if !sel {
					status = 1
				}
				sel = false
				want = append(want, fmt.Sprintf("C:ffff00%02x0004%08x", status, k+1))
			}
		}
		wantState := hsms.NotSelectedState
		if sel {
			wantState = hsms.SelectedState
		}
		if strings.Join(r.wire, " ") != strings.Join(want, " ") || r.state != wantState {
			bad++
			c.Violate("property", "deselect-overridden-by-stale-select-event",
				fmt.Sprintf("peer wrote %s in one TCP write: library answered %v and ended in state %d; E37 prescribes %v and state %d "+
					"(the supervisor consumes the queued evSelectAccepted AFTER the synchronous Deselect commit and stores Selected again)",
					r.variant, r.wire, r.state, want, wantState),
				map[string]any{"role": "passive", "frames_in_one_write": r.variant, "library_sent": r.wire, "state": int(r.state)})
		}
	}
	c.StatN("pipelined-deselect:violating-runs", bad)
}

// c08Burst is the i-th burst of Select.req (S) / Deselect.req (D) a peer writes in ONE TCP write to a freshly
// connected passive endpoint: the two shapes of finding F9 first, then longer alternations (two or more Deselect
// commits outstanding while the supervisor lags — after seeded change C08b-2), redundant requests, and a
// deterministic pseudo-random tail.
func c08Burst(i int) string {
	fixed := []string{"SDS", "SD", "SDSD", "SDSDS", "SDSDSD", "SDSDSDS", "SDSDSDSD", "SSD", "SDD", "SDDS", "SSDSD", "DSDSD", "DS", "SDSSD"}
	if i < 2*len(fixed) {
		return fixed[i%len(fixed)]
	}
	x := uint32(i)*2654435761 + 12345
	n := 3 + int(x>>28)%6
	b := make([]byte, n)
	for k := range b {
		x = x*1664525 + 1013904223
		if (x>>16)%4 == 0 { // mostly alternate, sometimes repeat
			if k > 0 {
				b[k] = b[k-1]
			} else {
				b[k] = 'S'
			}
		} else if k > 0 && b[k-1] == 'S' {
			b[k] = 'D'
		} else {
			b[k] = 'S'
		}
	}
	return string(b)
}

func sortInts(a []int) {
	for i := 1; i < len(a); i++ {
		for j := i; j > 0 && a[j] < a[j-1]; j-- {
			a[j], a[j-1] = a[j-1], a[j]
		}
	}
}

// secondDial opens a second TCP connection to a passive endpoint with a live session and reports what
// happened to it: "refused" (closed by the library without a byte), or a description of anything else.
func secondDial(ep *Endpoint) string {
	c2, err := ep.DialRaw(2 * time.Second)
	if err != nil {
		return "refused" // not even accepted
	}
	defer c2.Close()
	// a Select.req on the second connection must get no answer
	_, _ = c2.Write(mkFrame(0xFFFF, 0, 0, 0, 1, sysOf(0x2e000001), nil).Wire())
	_ = c2.SetReadDeadline(time.Now().Add(3 * time.Second))
	buf := make([]byte, 64)
	n, err := c2.Read(buf)
	if n > 0 {
		return fmt.Sprintf("second connection was served: got %x", buf[:n])
	}
	if err != nil && !isTimeout(err) {
		return "refused"
	}
	return "second connection left open"
}

func isTimeout(err error) bool {
	type to interface{ Timeout() bool }
	t, ok := err.(to)
	return ok && t.Timeout()
}

// ---------------------------------------------------------------------------------------------
// judging

func modelRun(c *Ctx, cfg rspCfg, selSys uint32, ops []rspOp) (perFrame []string, final string, ok bool) {
	if c.Lean == nil {
		return nil, "", false
	}
	sel := "-"
	if cfg.active {
		sel = fmt.Sprint(selSys)
	}
	var b strings.Builder
	fmt.Fprintf(&b, "rsp.run %d %d 1 %s -", c19bit(cfg.validate), cfg.session, sel)
	for _, o := range ops {
		b.WriteString(" " + frameLine(o.f))
	}
	ans := c.Lean.Ask(b.String())
	parts := strings.Split(ans, ";")
	if len(parts) != len(ops)+1 {
		return nil, ans, false
	}
	for _, p := range parts[:len(ops)] {
		perFrame = append(perFrame, strings.TrimSpace(p))
	}
	return perFrame, strings.TrimSpace(parts[len(ops)]), true
}

func judgeScript(c *Ctx, cfg rspCfg, ops []rspOp, out rspRun) {
	replay := map[string]any{"config": cfg.text(), "script": scriptText(ops), "select_system_bytes": out.selSys,
		"library_sent": out.wire, "delivered": out.deliv, "state": int(out.state), "closed": out.closed}
	if out.err != "" {
		c.Violate("correspondence", "script-run-failed", out.err, replay)
		return
	}
	// --- property oracle (Go restatement of the E37 table)
	st := e37State{up: true}
	if cfg.active {
		s := out.selSys
		st.openSel = &s
	}
	var wantWire, wantDeliv []string
	ended := false
	classes := map[string]bool{}
	for _, o := range ops {
		w, d, e := e37Expect(cfg, &st, o.f)
		wantWire = append(wantWire, w...)
		wantDeliv = append(wantDeliv, d...)
		for _, x := range w {
			switch {
			case strings.HasPrefix(x, "S9:"):
				classes["S9F1"] = true
			case len(x) >= 14 && x[12:14] == "07":
				classes["Reject/reason="+x[8:10]] = true
			case len(x) >= 14:
				classes["stype="+x[12:14]+"/status="+x[8:10]] = true
			}
		}
		if len(d) > 0 {
			classes["delivered"] = true
		}
		if e {
			ended = true
		}
	}
	if out.dial2 != "" {
		c.Stat("second-connection")
		if out.dial2 != "refused" {
			c.Violate("property", "second-connection-not-refused", out.dial2, replay)
		}
	}
	if strings.Join(out.wire, " ") != strings.Join(wantWire, " ") {
		what := "responses-differ-from-e37"
		for _, x := range out.wire {
			if strings.HasPrefix(x, "C:") && len(x) >= 14 && x[12:14] == "09" {
				what = "separate-sent-back"
			}
		}
		c.Violate("property", what, fmt.Sprintf("library sent %v, E37 prescribes %v", out.wire, wantWire), replay)
	}
	if strings.Join(out.deliv, " ") != strings.Join(wantDeliv, " ") {
		c.Violate("property", "deliveries-differ", fmt.Sprintf("delivered %v, want %v", out.deliv, wantDeliv), replay)
	}
	if ended != out.closed {
		if out.closed {
			c.Violate("property", "unexpected-disconnect", "the library closed the connection although E37 prescribes no disconnect for this script", replay)
		} else {
			c.Violate("property", "link-not-ended", "the script ends the session (Separate while Selected / failed Select) but the link stayed up", replay)
		}
	}
	wantState := hsms.NotSelectedState
	if st.selected {
		wantState = hsms.SelectedState
	}
	if !st.up {
		wantState = hsms.NotConnectedState
	}
	// after a link end the engine reconnects on its own: only NotConnected-or-later is observable
	if st.up && out.state != wantState {
		c.Violate("property", "state-differs", fmt.Sprintf("Connection.State()=%d, want %d", out.state, wantState), replay)
	}
	// --- correspondence with the Lean model
	if per, final, ok := modelRun(c, cfg, out.selSys, ops); ok {
		var mWire, mDeliv []string
		mEnded := false
		for _, p := range per {
			for _, tok := range strings.Fields(p) {
				switch {
				case strings.HasPrefix(tok, "C:"), strings.HasPrefix(tok, "S9:"):
					mWire = append(mWire, tok)
				case strings.HasPrefix(tok, "D:"):
					mDeliv = append(mDeliv, tok)
				case strings.HasPrefix(tok, "E:"):
					mEnded = true
				}
			}
		}
		if strings.Join(out.wire, " ") != strings.Join(mWire, " ") {
			c.Violate("correspondence", "responses-differ-from-model", fmt.Sprintf("library sent %v, model %v", out.wire, mWire), replay)
		}
		if strings.Join(out.deliv, " ") != strings.Join(mDeliv, " ") {
			c.Violate("correspondence", "deliveries-differ-from-model", fmt.Sprintf("delivered %v, model %v", out.deliv, mDeliv), replay)
		}
		if mEnded != out.closed {
			c.Violate("correspondence", "link-end-differs-from-model", fmt.Sprintf("closed=%v, model ends=%v", out.closed, mEnded), replay)
		}
		if !mEnded && !strings.HasPrefix(final, fmt.Sprintf("st=%d ", int(out.state))) {
			c.Violate("correspondence", "state-differs-from-model", fmt.Sprintf("Connection.State()=%d, model %s", out.state, final), replay)
		}
		c.mu.Lock()
		c.Res.Traces++
		c.mu.Unlock()
	} else if c.Lean != nil {
		c.Violate("correspondence", "model-run-failed", "driver answered: "+clip(final, 200), replay)
	}
	nontrivial := len(classes) >= 2 || st.selected || ended
	c.Count(cfg.text()+"|"+scriptText(ops), nontrivial)
	c.Stat(fmt.Sprintf("role:%s", map[bool]string{true: "active", false: "passive"}[cfg.active]))
	c.StatN("frames", len(ops))
	if ended {
		c.Stat("script:link-ended")
	}
	for k := range classes {
		c.Stat("reply:" + k)
	}
	if len(ops) > 0 && c.Rng.IntN(60) == 0 {
		c.Sample(map[string]any{"config": cfg.text(), "script": clip(scriptText(ops), 400), "library_sent": clip(strings.Join(out.wire, " "), 400), "state": int(out.state)})
	}
}

// fixed scripts: the rows of the E37 table from both starting states, and the DESIGN "Catches" scenarios.
func c08Fixed(cfg rspCfg) [][]rspOp {
	S := cfg.session
	sel := func(n uint32) rspOp { return rspOp{f: mkFrame(S, 0, 0, 0, 1, sysOf(n), nil)} }
	desel := func(n uint32) rspOp { return rspOp{f: mkFrame(S, 0, 0, 0, 3, sysOf(n), nil)} }
	lt := func(n uint32) rspOp { return rspOp{f: mkFrame(0xFFFF, 0, 0, 0, 5, sysOf(n), nil)} }
	sep := func(n uint32, end bool) rspOp { return rspOp{f: mkFrame(S, 0, 0, 0, 9, sysOf(n), nil), mayEnd: end} }
	data := func(n uint32) rspOp { return rspOp{f: mkFrame(S, 0x81, 1, 0, 0, sysOf(n), []byte{0x41, 1, 0x58})} }
	orphan := func(st byte, n uint32) rspOp { return rspOp{f: mkFrame(S, 0, 0, 0, st, sysOf(n), nil)} }
	junk := func(pt, st byte, n uint32, body bool) rspOp {
		var b []byte
		if body {
			b = []byte{1, 2, 3}
		}
		return rspOp{f: mkFrame(S, 0, 0, pt, st, sysOf(n), b)}
	}
	return [][]rspOp{
		{sel(1), sel(2), desel(3), desel(4), sel(5), lt(6)},
		{desel(1), sel(2), desel(3), sel(4), desel(5), sel(6), sel(7)},
		{sep(1, false), data(2), sel(3), data(4), sep(5, true)},
		{orphan(2, 1), orphan(4, 2), orphan(6, 3), orphan(7, 4), sel(5), orphan(7, 6), orphan(2, 7), sel(8)},
		{junk(1, 0, 1, false), junk(255, 9, 2, true), junk(0, 8, 3, false), junk(0, 255, 4, true), junk(0, 1, 5, true), junk(0, 9, 6, true), sel(7), junk(0, 5, 8, true)},
		{sel(1), junk(1, 1, 2, false), junk(0, 200, 3, false), orphan(6, 4), sel(5), desel(6), data(7), sep(8, false), sel(9)},
	}
}

func runC08(c *Ctx) {
	c08Timers(c)
	c08PipelinedDeselect(c)
	c08Storm(c) // reject storm against a slow-reading peer with a small send queue (c08_storm.go)
	type job struct {
		cfg rspCfg
		rng *rand.Rand
		mk  func(selSys uint32) []rspOp
	}
	var jobs []job
	sessions := []uint16{0xFFFF, 0x1234, 0x0000}
	maxLen := c.Pick(8, 40)
	// fixed scripts in every configuration
	for _, active := range []bool{false, true} {
		for _, validate := range []bool{false, true} {
			cfg := rspCfg{active, validate, validate != active, sessions[c19bit(active)+c19bit(validate)]}
			for _, fixed := range c08Fixed(cfg) {
				fixed := fixed
				jobs = append(jobs, job{cfg, rand.New(rand.NewPCG(c.Seed, uint64(len(jobs)))), func(sel uint32) []rspOp {
					st := e37State{up: true}
					if cfg.active {
						st.openSel = &sel
					}
					return annotate(cfg, fixed, st)
				}})
			}
		}
	}
	// active role, transactions of different KINDS sharing system bytes: a data secondary carrying the system bytes
	// of the still-open Select.req is NOT its reply (delivered, link kept); the Select.rsp that follows still is
	for _, validate := range []bool{false, true} {
		cfg := rspCfg{true, validate, false, 0xFFFF}
		jobs = append(jobs, job{cfg, rand.New(rand.NewPCG(c.Seed, uint64(len(jobs)))), func(sel uint32) []rspOp {
			ops := []rspOp{
				{f: mkFrame(0xFFFF, 0, 0, 0, 1, sysOf(0x51000001), nil)},
				{f: mkFrame(0xFFFF, 1, 2, 0, 0, sysOf(sel), []byte{0x41, 1, 0x58})},
				{f: mkFrame(0xFFFF, 0, 1, 0, 2, sysOf(sel), nil)},
				{f: mkFrame(0xFFFF, 1, 4, 0, 0, sysOf(sel), nil)},
				{f: mkFrame(0xFFFF, 0, 0, 0, 6, sysOf(sel), nil), pause: true},
			}
			st := e37State{up: true, openSel: &sel}
			return annotate(cfg, ops, st)
		}})
	}
	for i := 0; i < c.Pick(300, 6000); i++ {
		cfg := rspCfg{c.Rng.IntN(2) == 0, c.Rng.IntN(2) == 0, c.Rng.IntN(2) == 0, sessions[c.Rng.IntN(len(sessions))]}
		n := 1 + c.Rng.IntN(maxLen)
		jr := rand.New(rand.NewPCG(c.Seed, uint64(len(jobs))))
		jobs = append(jobs, job{cfg, jr, nil})
		j := &jobs[len(jobs)-1]
		j.mk = func(selSys uint32) []rspOp {
			g := &rspGen{r: jr, cfg: cfg, selSys: selSys}
			st := e37State{up: true}
			if cfg.active {
				s := selSys
				st.openSel = &s
			}
			return g.script(n, st)
		}
	}
	// every job owns its PRNG stream (seed, job index): deterministic per seed, run in parallel
	type prepared struct {
		cfg rspCfg
		ops []rspOp
		out rspRun
	}
	results := make(chan prepared, 16)
	var wg sync.WaitGroup
	ch := make(chan job)
	for w := 0; w < 8; w++ {
		wg.Add(1)
		go func() {
			defer wg.Done()
			for j := range ch {
				ops, out := runScript(j.rng, j.cfg, j.mk)
				results <- prepared{j.cfg, ops, out}
			}
		}()
	}
	go func() {
		for _, j := range jobs {
			ch <- j
		}
		close(ch)
		wg.Wait()
		close(results)
	}()
	for r := range results {
		judgeScript(c, r.cfg, r.ops, r.out)
	}
}
