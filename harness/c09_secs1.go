package main

// C09 over the SECS-I transport ("both transports"): a real secs1 connection (active host, net.Pipe per generation via
// WithDialer) against the raw E4 peer of c17_peer.go.  Sends are parked at every point of the SECS-I send path when the
// generation ends — at the hand-off to the line engine while the engine is busy in an inline application handler,
// behind such a send on the write lock / in the async queue, mid-block, awaiting the reply — by a Close() or by the
// peer dropping the line.  Every pending send must return within a bound, and nothing of a dead generation may be
// transmitted on the next one.
//
// Point "yield" (host role = slave on the line): the peer (equipment = master) answers the ENQ of the host's send with
// its own ENQ; the host yields (EOT), takes the master's block and — this is the point — delivers the message that
// block completes to the application's handler INLINE, from inside its own outbound send (sendBlock -> deliver).  The
// handler blocks; the line engine therefore cannot report anything about the pending send.  Then the generation ends.
// The pending Write (and every sender queued behind it on the generation's write lock / async queue) must still be
// released by the generation's teardown broadcast: on Close() promptly (far sooner than the handler returns), on a
// peer drop (which the library can only notice once the handler has returned) promptly after the handler's return.
// A failing scenario is run a second time with every duration scaled before anything is reported.

import (
	"bytes"
	"context"
	"errors"
	"fmt"
	"net"
	"os"
	"sync"
	"time"

	"github.com/arloliu/go-secs/v2/hsms"
	"github.com/arloliu/go-secs/v2/logger"
	"github.com/arloliu/go-secs/v2/secs1"
	"github.com/arloliu/go-secs/v2/secs2"
)

type c09S1Gen struct {
	peer   *s1RawPeer
	conn   net.Conn // the peer's end
	dialT  time.Time
	closed bool
}

type c09S1 struct {
	conn    secs1.Connection
	rec     *s1tRec // recorded history of the transport's generation / hand-off layer (s1t_hist.go)
	mu      sync.Mutex
	gens    []*c09S1Gen
	entered chan struct{}
	handler time.Duration
	release chan struct{} // closed: the blocking handler returns early
	relOnce sync.Once
}

func (e *c09S1) releaseHandler() { e.relOnce.Do(func() { close(e.release) }) }

func (e *c09S1) gen(i int) *c09S1Gen {
	e.mu.Lock()
	defer e.mu.Unlock()
	if i < len(e.gens) {
		return e.gens[i]
	}
	return nil
}

func (e *c09S1) numGens() int {
	e.mu.Lock()
	defer e.mu.Unlock()
	return len(e.gens)
}

const c09S1Dev = 7

func c09NewS1(handler, t3 time.Duration, lg ...logger.Logger) (*c09S1, error) {
	if t3 == 0 {
		t3 = 4 * time.Second
	}
	e := &c09S1{entered: make(chan struct{}, 4), handler: handler, release: make(chan struct{}), rec: newS1tRec("host")}
	dial := func(_ context.Context, _, _ string) (net.Conn, error) {
		a, b := net.Pipe()
		g := &c09S1Gen{conn: b, dialT: time.Now()}
		g.peer = newS1RawPeer(b, true) // the connection is the host, the peer the equipment (master)
		e.mu.Lock()
		e.gens = append(e.gens, g)
		e.mu.Unlock()
		return e.rec.wrap(a), nil
	}
	co := func(o hsms.ConnOption) secs1.Option { return secs1.WithConnectionOption(o) }
	cfg, err := secs1.NewConfig("127.0.0.1", 5000, secs1.WithActive(), secs1.WithHost(), secs1.WithDeviceID(c09S1Dev), secs1.WithDialer(dial),
		secs1.WithT1(150*time.Millisecond), secs1.WithT2(400*time.Millisecond), secs1.WithT4(5*time.Second), secs1.WithRetryLimit(1),
		co(hsms.WithT3(t3)), co(hsms.WithT5(50*time.Millisecond)), co(hsms.WithReconnectBackoff(5*time.Millisecond, 1.5)),
		co(hsms.WithCloseTimeout(3*time.Second)), co(hsms.WithLogger(rNopLogger{})))
	if err != nil {
		return nil, err
	}
	if len(lg) > 0 && lg[0] != nil {
		// the application's own logger, with per-frame tracing: "hsms: trace: sent frame" is emitted after the transport
		// Write returned (every block ACKed on the line) and before the reply wait is entered
		if err := cfg.ApplyOptions(co(hsms.WithLogger(lg[0])), co(hsms.WithTraceTraffic(true))); err != nil {
			return nil, err
		}
	}
	conn, err := secs1.VerifNewTraced(cfg, e.rec.tr) // = secs1.New with the transport's calls bracketed by the recorder
	if err != nil {
		return nil, err
	}
	e.conn = conn
	e.rec.blockSend = conn.BlockMetrics().BlockSendCount
	conn.AddDataMessageHandler(func(msg *hsms.DataMessage, _ hsms.SECS2Endpoint) {
		if msg.Stream() == 77 {
			select {
			case e.entered <- struct{}{}:
			default:
			}
			select { // inline on the line engine: a slow application callback
			case <-time.After(e.handler):
			case <-e.release:
			}
		}
	})
	ctx, cancel := context.WithTimeout(context.Background(), 10*time.Second)
	defer cancel()
	if err := conn.Open(ctx, hsms.OpenWaitSelected); err != nil {
		return nil, fmt.Errorf("open: %w", err)
	}
	return e, nil
}

// c09S1Inbound builds a single-block primary travelling toward the (host) connection.
func c09S1Inbound(stream, fn uint8, sb uint32) []byte {
	h := secs1.VerifHeader{DeviceID: c09S1Dev, RBit: true, Stream: stream, Function: fn, SystemBytes: [4]byte{byte(sb >> 24), byte(sb >> 16), byte(sb >> 8), byte(sb)}}
	b := secs1.VerifBlock{Header: secs1.VerifBuildHeader(h, 1, true), Body: secs2.NewUintItem(4, uint32(0xdead)).ToBytes()}
	return secs1.VerifAppendTo(nil, b)
}

// c09S1Tags lists the call tags (U4 body) of the blocks a raw peer received.
func c09S1Tags(p *s1RawPeer) []int64 {
	p.mu.Lock()
	defer p.mu.Unlock()
	var tags []int64
	for _, w := range p.received {
		if len(w) >= 13 {
			tags = append(tags, rParseTag(w[11:len(w)-2]))
		}
	}
	return tags
}

type c09S1Spec struct {
	Name    string        `json:"name"`
	Point   string        `json:"point"`   // handoff (engine busy in a handler) | awaiting (reply withheld) | midblock | yield (handler runs inside the send)
	Trigger string        `json:"trigger"` // close | peerdrop | reopen (Close(), then Open() again: a second generation without a drop)
	Handler time.Duration `json:"handler"`
	Sync    int           `json:"sync"`
	Async   int           `json:"async"`
	YieldAt int           `json:"yield_at,omitempty"` // yield: the peer contends on the ENQ of this block of the first send (1 = single-block send; 2 = second block of a two-block send)
	Bound   time.Duration `json:"bound,omitempty"`    // "promptly" (0 = 1.5 s)
	T3      time.Duration `json:"t3,omitempty"`       // 0 = 4 s
}

type c09S1Viol struct {
	kind, what, detail string
	replay             any
}

// c09S1Contend plays the contending master: it lets the first atBlock-1 blocks of the host's send through, answers the
// ENQ of block atBlock with its own ENQ, takes the host's EOT (the yield) and sends wire; it returns the host's answer.
func c09S1Contend(p *s1RawPeer, wire []byte, atBlock int) byte {
	waitENQ := func() bool {
		deadline := time.Now().Add(5 * time.Second)
		for time.Now().Before(deadline) {
			if b, ok := p.readByte(50 * time.Millisecond); ok && b == 0x05 {
				return true
			}
		}
		return false
	}
	for b := 1; b < atBlock; b++ {
		if !waitENQ() {
			return 0
		}
		if _, ok := p.grantAndReceive(); !ok {
			return 0
		}
	}
	if !waitENQ() {
		return 0
	}
	return p.sendWire(wire) // a master ignores the slave's ENQ: ENQ, wait for the EOT, block, answer
}

type c09S1Call struct {
	Idx     int    `json:"idx"`
	Kind    string `json:"kind"`
	Outcome string `json:"outcome"`
	Err     string `json:"err,omitempty"`
	AfterMs int64  `json:"returned_ms_after_trigger"`
	StartSt int64  `json:"start_stamp"`
	EndSt   int64  `json:"end_stamp"`
	started time.Time
	ended   time.Time
	done    bool
}

// c09RunS1 runs one scenario and returns what its oracles found (the caller decides about a scaled re-run).
func c09RunS1(c *Ctx, sp c09S1Spec) (viols []c09S1Viol) {
	violate := func(kind, what, detail string, replay any) {
		viols = append(viols, c09S1Viol{kind, what, detail, replay})
	}
	prompt := sp.Bound
	if prompt == 0 {
		prompt = 1500 * time.Millisecond
	}
	var lg *c09ParkLogger
	var lgs []logger.Logger
	if sp.Point == "afterwrite" {
		lg = newC09ParkLogger()
		lgs = append(lgs, lg)
		defer lg.release()
	}
	e, err := c09NewS1(sp.Handler, sp.T3, lgs...)
	if err != nil {
		violate("correspondence", "scenario-did-not-start", "secs1: "+err.Error(), map[string]any{"spec": sp})
		return
	}
	g0 := e.gen(0)
	replay := map[string]any{"spec": sp}
	stopServe := make(chan struct{})
	var serveWG sync.WaitGroup
	serve := func(g *c09S1Gen, midblock bool) {
		serveWG.Add(1)
		go func() {
			defer serveWG.Done()
			for {
				select {
				case <-stopServe:
					return
				default:
				}
				b, ok := g.peer.readByte(5 * time.Millisecond)
				if !ok {
					continue
				}
				if b != 0x05 {
					continue
				}
				if midblock {
					// grant the line, take three bytes of the block, then drop the link
					_ = g.peer.write(0x04)
					for k := 0; k < 3; k++ {
						g.peer.readByte(2 * time.Second)
					}
					e.rec.notePeerClose(0) // midblock serves generation 0 only
					_ = g.conn.Close()
					return
				}
				g.peer.grantAndReceive()
			}
		}()
	}
	// generation 1 is served from the moment it is dialled (a stale request re-queued there must be able to reach the peer)
	serveWG.Add(1)
	go func() {
		defer serveWG.Done()
		for {
			select {
			case <-stopServe:
				return
			case <-time.After(2 * time.Millisecond):
			}
			if g1 := e.gen(1); g1 != nil {
				serve(g1, false)
				return
			}
		}
	}()
	n := sp.Sync + sp.Async
	var extraCalls []s1tCall // calls made after the first wave (the fresh send on generation 1)
	calls := make([]c09S1Call, n)
	var cmu sync.Mutex
	var wg sync.WaitGroup
	launch := func() {
		for i := 0; i < n; i++ {
			i := i
			kind := "s"
			if i >= sp.Sync {
				kind = "a"
			}
			cmu.Lock()
			calls[i] = c09S1Call{Idx: i, Kind: kind, started: time.Now()}
			cmu.Unlock()
			wg.Add(1)
			go func() {
				defer wg.Done()
				time.Sleep(time.Duration(i) * time.Millisecond)
				var r rCallResult
				var item secs2.Item = secs2.NewUintItem(4, uint32(i))
				if i == 0 && sp.YieldAt > 1 {
					p := bytes.Repeat([]byte{0x5a}, 244*(sp.YieldAt-1)+20) // a multi-block message
					p[0], p[1], p[2], p[3] = 0, 0, 0, 0                    // its call tag (0), as s1tTag reads it
					item = secs2.NewBinaryItem(p)
				}
				cmu.Lock()
				calls[i].StartSt = rStamp()
				cmu.Unlock()
				if kind == "s" {
					reply, err := e.conn.SendDataMessage(context.Background(), 1, byte(1+2*i), true, item)
					rClassify(reply, err, &r)
				} else {
					err := e.conn.SendDataMessageAsync(context.Background(), 2, byte(1+2*i), false, item)
					rClassify(nil, err, &r)
					if r.Outcome == "nilnil" {
						r.Outcome = "sent"
					}
				}
				cmu.Lock()
				calls[i].Outcome, calls[i].Err, calls[i].ended, calls[i].done, calls[i].EndSt = r.Outcome, r.Err, time.Now(), true, rStamp()
				cmu.Unlock()
			}()
		}
	}
	switch sp.Point {
	case "handoff":
		// occupy the line engine with an inline application handler, THEN start the sends: the first one parks at the
		// hand-off to the engine, the others behind it on the write lock / in the async queue
		if ans := g0.peer.sendWire(c09S1Inbound(77, 1, 0x70000001)); ans != 0x06 {
			violate("correspondence", "scenario-incomplete", fmt.Sprintf("secs1: the trigger block was answered %#02x", ans), replay)
		}
		select {
		case <-e.entered:
		case <-time.After(5 * time.Second):
			violate("correspondence", "scenario-incomplete", "secs1: the slow handler was never entered", replay)
		}
		serve(g0, false)
		launch()
		time.Sleep(40 * time.Millisecond)
	case "awaiting":
		serve(g0, false)
		launch()
		// wait until every synchronous primary has been received (ACKed) by the peer; replies are withheld
		deadline := time.Now().Add(5 * time.Second)
		for time.Now().Before(deadline) && len(c09S1Tags(g0.peer)) < n {
			time.Sleep(time.Millisecond)
		}
	case "midblock":
		serve(g0, true)
		launch()
		time.Sleep(30 * time.Millisecond)
	case "afterwrite":
		// the first send is held by the application's trace logger AFTER its Write returned (its block is ACKed on the
		// line) and BEFORE it enters the reply wait — holding the generation's write lock, so the others queue behind it
		serve(g0, false)
		lg.arm(1, func(f rFrame) bool { return f.IsData() && f.Tag == 0 })
		launch()
		select {
		case <-lg.hit:
		case <-time.After(5 * time.Second):
			violate("correspondence", "scenario-incomplete", "secs1: the first sender never reached the trace call after its Write", replay)
		}
		time.Sleep(20 * time.Millisecond)
	case "yield":
		// the first send's ENQ is answered with the master's ENQ: the host yields and runs the handler of the message it
		// receives INSIDE its own send; the other senders queue behind that send (write lock / async queue)
		launch()
		if ans := c09S1Contend(g0.peer, c09S1Inbound(77, 1, 0x70000002), max(sp.YieldAt, 1)); ans != 0x06 {
			violate("correspondence", "scenario-incomplete", fmt.Sprintf("secs1: the contending master's block was answered %#02x", ans), replay)
		}
		select {
		case <-e.entered:
		case <-time.After(5 * time.Second):
			violate("correspondence", "scenario-incomplete", "secs1: the handler of the message received during the contention yield was never entered", replay)
		}
		time.Sleep(20 * time.Millisecond)
		cmu.Lock()
		for _, cl := range calls {
			if cl.Kind == "s" && cl.done {
				violate("correspondence", "scenario-incomplete", fmt.Sprintf("secs1: synchronous call %d returned (%s) before the generation ended", cl.Idx, cl.Outcome), replay)
			}
		}
		cmu.Unlock()
	}
	trigger := time.Now()
	byClose := sp.Trigger == "close" || sp.Trigger == "reopen"
	closeDone := make(chan error, 1)
	reopened := make(chan error, 1)
	switch {
	case sp.Point == "midblock":
		// the serve loop drops the link in the middle of the first block
	case sp.Trigger == "reopen":
		// Close(), and as soon as it has returned Open() again — without waiting for the pending sends: a sender still parked on
		// generation 0 then sees generation 1 come up
		go func() {
			closeDone <- e.conn.Close()
			octx, ocancel := context.WithTimeout(context.Background(), 10*time.Second)
			reopened <- e.conn.Open(octx, hsms.OpenWaitSelected)
			ocancel()
		}()
	case byClose:
		go func() { closeDone <- e.conn.Close() }()
	default:
		g0.closed = true
		e.rec.notePeerClose(0)
		_ = g0.conn.Close()
	}
	fin := make(chan struct{})
	go func() { wg.Wait(); close(fin) }()
	// bound: nothing a pending send legitimately waits for is longer than the handler (the engine notices a dropped
	// line only when the handler returns) plus T3; Close must release them at once
	bound := sp.Handler + 6*time.Second
	if sp.Point == "afterwrite" {
		t3 := sp.T3
		if t3 == 0 {
			t3 = 4 * time.Second
		}
		bound = max(bound, t3+prompt+2*time.Second) // a sender wrongly waiting out T3 is seen returning, not reported as hung
	}
	hung := false
	promptFrom := trigger
	if sp.Point == "afterwrite" {
		// the generation ends — and, after a peer drop, is REPLACED — while the sender is held; then it is released
		if byClose {
			time.Sleep(300 * time.Millisecond)
		} else {
			deadline := time.Now().Add(5 * time.Second)
			for time.Now().Before(deadline) && (e.numGens() < 2 || e.conn.State() != hsms.SelectedState) {
				time.Sleep(2 * time.Millisecond)
			}
			if e.numGens() < 2 || e.conn.State() != hsms.SelectedState {
				violate("correspondence", "scenario-incomplete", "secs1: no second generation came up within 5 s while the sender was held", replay)
			}
		}
		promptFrom = time.Now()
		lg.release()
	}
	if sp.Point == "yield" {
		if byClose {
			// the handler returns as soon as every pending send has (or after its full duration)
			select {
			case <-fin:
			case <-time.After(sp.Handler):
			}
		} else {
			// a dropped line is noticed by the engine only once the handler has returned: "promptly" counts from there
			time.Sleep(sp.Handler / 8)
			promptFrom = time.Now()
		}
		e.releaseHandler()
	}
	select {
	case <-fin:
	case <-time.After(bound):
		hung = true
	}
	cmu.Lock()
	snapshot := append([]c09S1Call(nil), calls...)
	cmu.Unlock()
	for i := range snapshot {
		if snapshot[i].done {
			snapshot[i].AfterMs = snapshot[i].ended.Sub(promptFrom).Milliseconds()
		} else {
			snapshot[i].Outcome = "NEVER-RETURNED"
		}
	}
	replay["calls"] = snapshot
	if hung {
		var stuck []int
		for _, cl := range snapshot {
			if !cl.done {
				stuck = append(stuck, cl.Idx)
			}
		}
		violate("property", "secs1-send-never-returned", fmt.Sprintf("SECS-I: send calls %v were pending (%s) when the generation ended (%s) and had not returned %v later", stuck, sp.Point, sp.Trigger, bound), replay)
	}
	for _, cl := range snapshot {
		if !cl.done {
			continue
		}
		c.Stat("secs1-outcome:" + cl.Outcome)
		switch cl.Outcome {
		case "closed", "writeerr", "notselected", "timeout", "sent", "ctx":
		default:
			violate("property", "cut-call-outcome", fmt.Sprintf("SECS-I: call %d was pending when its generation ended and returned %s (%s)", cl.Idx, cl.Outcome, cl.Err), replay)
		}
		// a Close() cancels the generation at once: nothing may wait for the handler or for T3
		if byClose && sp.Point != "midblock" && sp.Point != "afterwrite" && cl.ended.Sub(trigger) > prompt {
			what := "waiter-not-released-promptly"
			detail := fmt.Sprintf("SECS-I: call %d (%s) returned %v after Close() began", cl.Idx, cl.Outcome, cl.ended.Sub(trigger).Round(time.Millisecond))
			if sp.Point == "yield" {
				what = "secs1-send-held-by-inline-handler"
				detail += fmt.Sprintf(" (bound %v): the send was pending on the line engine, which was running the application handler of a message received during a contention yield for %v; "+
					"the generation's teardown broadcast must release the Write, not the handler's return", prompt, sp.Handler)
			}
			violate("property", what, detail, replay)
		}
		if sp.Point == "afterwrite" {
			lat := cl.ended.Sub(promptFrom)
			if cl.Idx == 0 && cl.Kind == "s" && cl.Outcome == "timeout" {
				violate("property", "stale-sender-waited-out-reply-timer", fmt.Sprintf("SECS-I: call 0 was held between its Write and its reply wait while its generation ended (%s); released, it returned the T3 timeout after %v instead of the connection-closed error: its wait was bound to a later generation's lifetime",
					sp.Trigger, lat.Round(time.Millisecond)), replay)
			} else if cl.Idx == 0 && cl.Kind == "s" && cl.Outcome != "closed" {
				violate("property", "stale-sender-outcome", fmt.Sprintf("SECS-I: call 0, held between its Write and its reply wait while its generation ended (%s), returned %s (%s): connection-closed expected", sp.Trigger, cl.Outcome, cl.Err), replay)
			}
			if lat > prompt {
				violate("property", "stale-sender-not-released-promptly", fmt.Sprintf("SECS-I: call %d (%s) returned %v after the held sender of the ended generation was released (bound %v)", cl.Idx, cl.Outcome, lat.Round(time.Millisecond), prompt), replay)
			}
		}
		if sp.Point == "yield" && !byClose && cl.ended.Sub(promptFrom) > prompt {
			violate("property", "waiter-not-released-promptly", fmt.Sprintf("SECS-I: call %d (%s) returned %v after the handler that held the line engine had returned on a dropped line (bound %v)",
				cl.Idx, cl.Outcome, cl.ended.Sub(promptFrom).Round(time.Millisecond), prompt), replay)
		}
	}
	if sp.Trigger == "reopen" && sp.Point != "midblock" {
		// the application closes and opens again: the senders that were pending on generation 0 have returned (or are about
		// to); whatever they had queued must not surface on the generation the new Open brings up
		e.releaseHandler()
		select {
		case err := <-closeDone:
			if errors.Is(err, hsms.ErrCloseTimeout) {
				violate("property", "close-timeout", "SECS-I: Close returned ErrCloseTimeout: a task of the generation was still parked when the bounded join expired", replay)
			}
		case <-time.After(12 * time.Second):
			violate("property", "close-never-returned", "SECS-I: Close did not return within 12 s", replay)
		}
		select {
		case err := <-reopened:
			if err != nil {
				violate("correspondence", "scenario-incomplete", "secs1: Open after Close failed: "+err.Error(), replay)
			}
		case <-time.After(12 * time.Second):
			violate("correspondence", "scenario-incomplete", "secs1: Open after Close did not return within 12 s", replay)
		}
	}
	// after a peer drop (or a Close followed by a new Open) a new generation comes up: nothing of generation 0 may be transmitted on generation 1
	if sp.Trigger != "close" || sp.Point == "midblock" {
		deadline := time.Now().Add(5 * time.Second)
		for time.Now().Before(deadline) && (e.numGens() < 2 || e.conn.State() != hsms.SelectedState) {
			time.Sleep(2 * time.Millisecond)
		}
		if g1 := e.gen(1); g1 != nil {
			// a fresh send proves generation 1 is usable and flushes anything that might have been carried over
			ctx, cancel := context.WithTimeout(context.Background(), 2*time.Second)
			fresh := s1tCall{Idx: n, Kind: "a", Tag: 5000, StartSt: rStamp()}
			var fr rCallResult
			rClassify(nil, e.conn.SendDataMessageAsync(ctx, 3, 1, false, secs2.NewUintItem(4, 5000)), &fr)
			if fr.Outcome == "nilnil" {
				fr.Outcome = "sent"
			}
			fresh.Outcome, fresh.EndSt = fr.Outcome, rStamp()
			extraCalls = append(extraCalls, fresh)
			cancel()
			deadline = time.Now().Add(1500 * time.Millisecond)
			for time.Now().Before(deadline) {
				found := false
				for _, t := range c09S1Tags(g1.peer) {
					if t == 5000 {
						found = true
					}
				}
				if found {
					break
				}
				time.Sleep(2 * time.Millisecond)
			}
			time.Sleep(50 * time.Millisecond)
			// a first-wave message on generation 1 is legitimate only if its send call started late enough to be ACCEPTED there, i.e.
			// its transport Write was called with generation 1's socket (recorded by the hook); every other one crossed generations
			onGen := e.rec.writeGens()
			g1.peer.mu.Lock()
			for _, w := range g1.peer.received {
				if len(w) < 13 {
					continue
				}
				sb := uint32(w[7])<<24 | uint32(w[8])<<16 | uint32(w[9])<<8 | uint32(w[10])
				key := [2]uint32{sb, uint32(w[3]&0x7f)<<8 | uint32(w[4])}
				if gens, ok := onGen[key]; ok && !gens[1] {
					violate("property", "stale-frame-on-later-generation", fmt.Sprintf("SECS-I: a block of the message S%dF%d system bytes %#x (call tag %d), whose send was accepted on generation 0 (its Write was given generation 0's socket), was transmitted on generation 1",
						w[3]&0x7f, w[4], sb, rParseTag(w[11:len(w)-2])), replay)
				} else if !ok {
					violate("property", "stale-frame-on-later-generation", fmt.Sprintf("SECS-I: a block (header %x) that no Write call accounts for was transmitted on generation 1", w[1:11]), replay)
				}
			}
			g1.peer.mu.Unlock()
			c.Stat("secs1-second-generation-checked")
		} else {
			violate("correspondence", "scenario-incomplete", "secs1: no second generation was dialled within 5 s", replay)
		}
	}
	if sp.Trigger != "close" || sp.Point == "midblock" {
		go func() { closeDone <- e.conn.Close() }()
	}
	select {
	case err := <-closeDone:
		if errors.Is(err, hsms.ErrCloseTimeout) {
			violate("property", "close-timeout", "SECS-I: Close returned ErrCloseTimeout: a task of the generation was still parked when the bounded join expired", replay)
		}
	case <-time.After(12 * time.Second):
		violate("property", "close-never-returned", "SECS-I: Close did not return within 12 s", replay)
	}
	e.releaseHandler()
	close(stopServe)
	for i := 0; i < e.numGens(); i++ {
		_ = e.gen(i).conn.Close()
	}
	serveWG.Wait()
	// correspondence: the recorded history of the transport's generation / hand-off layer against the Lean model
	if !hung {
		cmu.Lock()
		hist := make([]s1tCall, 0, n+len(extraCalls))
		for _, cl := range calls {
			k := "s"
			if cl.Kind == "a" {
				k = "a"
			}
			hist = append(hist, s1tCall{Idx: cl.Idx, Kind: k, Tag: int64(cl.Idx), StartSt: cl.StartSt, EndSt: cl.EndSt, Outcome: cl.Outcome})
		}
		cmu.Unlock()
		hist = append(hist, extraCalls...)
		time.Sleep(20 * time.Millisecond) // the drain goroutine's last counter updates
		sv, srep := s1tCheck(c, e.rec, hist, s1tExpect{M: rReadMetrics(e.conn), Blocks: e.conn.BlockMetrics(), Checked: true})
		for _, v := range sv {
			if srep != nil {
				srep["spec"] = sp
			}
			violate("correspondence", v[0], v[1], srep)
		}
	}
	c.Count(fmt.Sprintf("secs1|%s|%s|%d|%d", sp.Point, sp.Trigger, sp.Sync, sp.Async), true)
	if len(c.Res.Samples) < 8 && len(viols) == 0 {
		c.Sample(map[string]any{"scenario": "secs1/" + sp.Name, "calls": snapshot})
	}
	return viols
}

func c09SECS1(c *Ctx) {
	h := 700 * time.Millisecond
	hy := 4 * time.Second // far above the 1.5 s "promptly" bound (and above the 3 s close timeout)
	specs := []c09S1Spec{
		{Name: "handoff-close", Point: "handoff", Trigger: "close", Handler: h, Sync: 2, Async: 1},
		{Name: "handoff-peerdrop", Point: "handoff", Trigger: "peerdrop", Handler: h, Sync: 2, Async: 2},
		{Name: "awaiting-peerdrop", Point: "awaiting", Trigger: "peerdrop", Handler: h, Sync: 2, Async: 0},
		{Name: "awaiting-close", Point: "awaiting", Trigger: "close", Handler: h, Sync: 1, Async: 0},
		{Name: "midblock-peerdrop", Point: "midblock", Trigger: "peerdrop", Handler: h, Sync: 2, Async: 1},
		// host-role contention yield: the handler of the message taken during the yield runs inside the pending send
		{Name: "yield-close", Point: "yield", Trigger: "close", Handler: hy, Sync: 2, Async: 1, YieldAt: 1},
		{Name: "yield-close-second-block", Point: "yield", Trigger: "close", Handler: hy, Sync: 1, Async: 0, YieldAt: 2},
		{Name: "yield-peerdrop", Point: "yield", Trigger: "peerdrop", Handler: hy, Sync: 2, Async: 1, YieldAt: 1},
		// Close() with a send parked at the hand-off (engine busy in a handler), then Open() again: a second generation without any drop
		{Name: "handoff-reopen", Point: "handoff", Trigger: "reopen", Handler: h, Sync: 2, Async: 0}, // no queued async message: the drain goroutine would wait for the write lock and hold Close back
		{Name: "yield-reopen", Point: "yield", Trigger: "reopen", Handler: hy, Sync: 2, Async: 0, YieldAt: 1},
		// the generation is replaced while a sender sits between its Write and its reply wait (held by the trace logger)
		{Name: "afterwrite-peerdrop", Point: "afterwrite", Trigger: "peerdrop", Handler: h, Sync: 2, Async: 0},
		{Name: "afterwrite-close", Point: "afterwrite", Trigger: "close", Handler: h, Sync: 2, Async: 0},
	}
	if c.Thorough() {
		specs = append(specs,
			c09S1Spec{Name: "handoff-close-async-first", Point: "handoff", Trigger: "close", Handler: h, Sync: 0, Async: 3},
			c09S1Spec{Name: "handoff-close-many", Point: "handoff", Trigger: "close", Handler: h, Sync: 6, Async: 4},
			c09S1Spec{Name: "awaiting-peerdrop-many", Point: "awaiting", Trigger: "peerdrop", Handler: h, Sync: 3, Async: 0},
			c09S1Spec{Name: "yield-close-many", Point: "yield", Trigger: "close", Handler: hy, Sync: 5, Async: 3, YieldAt: 1},
			c09S1Spec{Name: "yield-close-third-block", Point: "yield", Trigger: "close", Handler: hy, Sync: 2, Async: 1, YieldAt: 3},
			c09S1Spec{Name: "yield-peerdrop-second-block", Point: "yield", Trigger: "peerdrop", Handler: hy, Sync: 2, Async: 2, YieldAt: 2})
	}
	for _, sp := range specs {
		if routerStop(c) {
			return
		}
		viols := c09RunS1(c, sp)
		timingFree := false // a frame of generation 0 seen on generation 1 is not a matter of timers: reported as found
		for _, v := range viols {
			timingFree = timingFree || v.what == "stale-frame-on-later-generation"
		}
		if len(viols) > 0 && !timingFree {
			// a loaded machine: once more with every duration scaled, and only that result counts
			c.Stat("secs1-retried-with-scaled-timers")
			for _, v := range viols {
				c.Stat("secs1-first-run:" + sp.Name + ":" + v.what)
				if os.Getenv("VERIF_S1T_DEBUG") != "" {
					fmt.Fprintf(os.Stderr, "FIRST-RUN %s %s: %s\n  replay: %v\n", sp.Name, v.what, v.detail, v.replay)
				}
			}
			spx := sp
			spx.Name += "(x3)"
			spx.Handler *= 3
			if spx.Bound == 0 {
				spx.Bound = 1500 * time.Millisecond
			}
			spx.Bound *= 3
			if spx.T3 == 0 {
				spx.T3 = 4 * time.Second
			}
			spx.T3 *= 3
			viols = c09RunS1(c, spx)
		}
		for _, v := range viols {
			c.Violate(v.kind, v.what, v.detail, v.replay)
		}
	}
}
