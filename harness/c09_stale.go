package main

// C09, scenario family "the generation is replaced while a sender sits BETWEEN THE WRITE AND THE WAIT".
//
// sendWaitReply pins the generation once (e := c.cur.Load()), registers in e's reply registry, writes on e's socket
// and then parks in the four-way wait, whose teardown arm must watch the PINNED generation's context.  Between the
// write and the wait nothing holds the sender to the present: the goroutine can be descheduled (GC, a slow log sink)
// for an arbitrary time, during which generation N can end and N+1 (N+2 ...) come up.  When it finally enters the
// wait, "the generation that ended" is no longer "the current generation".
//
// Public API only: hsms.WithTraceTraffic(true) hands every frame that reached the wire to the application's
// logger ("hsms: trace: sent frame") after the transport write returned and before the wait is entered; the harness's
// logger parks the chosen call there.  (The trace call is made under the generation's write lock, so exactly one
// sender per generation can be held this way; further senders of that generation queue up on the write lock — they
// are "mid-write" senders of the ended generation and must complete with the connection-closed error as well.)
//
// While the sender is parked the scripted peer drops the generation (once or twice; or the application calls Close),
// the connection re-selects, fresh transactions run on the new generation (and the peer sends, on the NEW generation,
// a secondary carrying the parked transaction's system bytes).  Then the sender is released.
//
// Oracle (implementation side): a released sender of an ended generation returns the connection-closed error (or its
// own reply if that had been delivered on its own generation before the drop) within a bound far below T3 — never the
// T3/T6 timeout, never a frame of a later generation.  The recorded history is then replayed through the Lean router
// model with the sender held at `written` (Pc) across teardown / join / publish of the next epoch: the model accepts
// the `decide closed` step only because its teardown arm reads the PINNED epoch's ctxDone.

import (
	"context"
	"encoding/binary"
	"encoding/hex"
	"errors"
	"fmt"
	"math/rand/v2"
	"strings"
	"sync"
	"time"

	"github.com/arloliu/go-secs/v2/hsms"
	"github.com/arloliu/go-secs/v2/logger"
)

// ---- the parking logger

type c09ParkLogger struct {
	rNopLogger
	mu     sync.Mutex
	match  func(f rFrame) bool // sent frames to hold (nil: none)
	budget int
	resume chan struct{}
	hit    chan rFrame
}

func newC09ParkLogger() *c09ParkLogger {
	return &c09ParkLogger{hit: make(chan rFrame, 16), resume: make(chan struct{})}
}

func (l *c09ParkLogger) With(...any) logger.Logger { return l }
func (l *c09ParkLogger) Level() logger.LogLevel    { return logger.DebugLevel }

// c09TraceFrame decodes the "raw" hex dump of a trace line (4-byte length + 10-byte header + body).
func c09TraceFrame(kv []any) (rFrame, bool) {
	for k := 0; k+1 < len(kv); k += 2 {
		if key, ok := kv[k].(string); !ok || key != "raw" {
			continue
		}
		str, ok := kv[k+1].(string)
		if !ok {
			return rFrame{}, false
		}
		b, err := hex.DecodeString(str)
		if err != nil || len(b) < 14 {
			return rFrame{}, false
		}
		f := rFrame{Fid: -1, Session: binary.BigEndian.Uint16(b[4:6]), B2: b[6], B3: b[7], PType: b[8], SType: b[9],
			SB: binary.BigEndian.Uint32(b[10:14]), Tag: -1, Len: len(b) - 4}
		if f.IsData() {
			f.Tag = rParseTag(b[14:])
		}
		return f, true
	}
	return rFrame{}, false
}

func (l *c09ParkLogger) Debug(msg string, kv ...any) {
	if msg != "hsms: trace: sent frame" {
		return
	}
	f, ok := c09TraceFrame(kv)
	if !ok {
		return
	}
	l.mu.Lock()
	if l.budget <= 0 || l.match == nil || !l.match(f) {
		l.mu.Unlock()
		return
	}
	l.budget--
	resume := l.resume
	l.mu.Unlock()
	l.hit <- f
	<-resume
}

func (l *c09ParkLogger) arm(n int, match func(f rFrame) bool) {
	l.mu.Lock()
	l.match, l.budget = match, n
	l.mu.Unlock()
}

func (l *c09ParkLogger) release() {
	l.mu.Lock()
	l.budget = 0
	close(l.resume)
	l.resume = make(chan struct{})
	l.mu.Unlock()
}

// ---- the scenario

type c09StaleSpec struct {
	Name        string        `json:"name"`
	Parked      string        `json:"parked"`       // s: a W-bit data send | c: a control transaction (Linktest.req through the runtime's WriteMessage)
	Trigger     string        `json:"trigger"`      // peerdrop | close
	Gens        int           `json:"gens"`         // peerdrop: how many generations are dropped while the sender is held (1: N -> N+1, 2: N -> N+2)
	Blocked     int           `json:"blocked"`      // further senders of the same generation queued on its write lock behind the held one
	ReplyBefore bool          `json:"reply_before"` // the peer answers the held transaction on its own generation before dropping it (reply or closed are both legal)
	EchoOnNew   bool          `json:"echo_on_new"`  // the peer sends, on the new generation, a secondary carrying the held transaction's system bytes
	Wave1       int           `json:"wave1"`        // fresh W-bit transactions on the new generation while the stale sender is still held
	T3          time.Duration `json:"t3"`           // T3 (= T6)
	Bound       time.Duration `json:"bound"`        // "promptly": release -> return
	Seed        uint64        `json:"seed"`
}

type c09StaleFail struct{ what, detail string }

type c09WriteMessager interface {
	WriteMessage(ctx context.Context, msg hsms.Message) (hsms.Message, error)
	NextSystemBytes() [4]byte
}

func c09WaitFor(cond func() bool, d time.Duration) bool {
	deadline := time.Now().Add(d)
	for time.Now().Before(deadline) {
		if cond() {
			return true
		}
		time.Sleep(200 * time.Microsecond)
	}
	return cond()
}

// c09RunStale runs one scenario.  It returns the implementation-side failures of this family (the caller retries with
// scaled timers before reporting), the recorded history (nil when the scenario could not be staged) and the replay.
func c09RunStale(c *Ctx, sp c09StaleSpec) (fails []c09StaleFail, rs *rSpec, h *rHistory, notes []string, replay map[string]any, staged string) {
	// call layout: 0 = the held sender; 1..Blocked = queued on the write lock; then Wave1 fresh calls on the new generation
	rs = &rSpec{Name: "stale-" + sp.Name, Seed: sp.Seed, Handlers: 1, T3: sp.T3, Reconnect: sp.Trigger == "peerdrop"}
	rng := rand.New(rand.NewPCG(sp.Seed, 0x0909))
	addPlan := func(kind string, peer, wave int) {
		rs.Plans = append(rs.Plans, rSenderPlan{Kind: kind, Peer: peer, PeerS: pkNames[peer], Wave: wave,
			Stream: byte(1 + rng.IntN(126)), Fn: byte(1 + 2*rng.IntN(100))})
	}
	heldPeer := pkNone
	if sp.ReplyBefore {
		heldPeer = pkReply
	}
	addPlan(sp.Parked, heldPeer, 0)
	for k := 0; k < sp.Blocked; k++ {
		kind := "s"
		if k%3 == 2 {
			kind = "f"
		}
		addPlan(kind, pkNone, 2)
	}
	for k := 0; k < sp.Wave1; k++ {
		addPlan("s", pkReply, 1)
	}
	n := len(rs.Plans)
	replay = map[string]any{"family": "stale-sender-between-write-and-wait", "spec": sp}
	lg := newC09ParkLogger()
	r := &rRun{spec: rs, peer: newRPeer(), hist: &rHistory{NSenders: n, NHandlers: 1, Parked: map[int]bool{0: true}, PromptBound: sp.Bound},
		rng: rng, stalled: make(chan struct{})}
	r.cancels = make([]context.CancelFunc, n)
	r.hist.Calls = make([]rCallResult, n)
	h = r.hist
	conn, err := rNewConn(r.peer, rConnOpts{T3: sp.T3, T6: sp.T3, Logger: lg, Trace: true})
	if err != nil {
		return nil, rs, nil, nil, replay, "config: " + err.Error()
	}
	r.conn, r.core = conn, rCore(conn)
	var hmu sync.Mutex
	conn.AddDataMessageHandler(func(msg *hsms.DataMessage, _ hsms.SECS2Endpoint) {
		sbA := msg.SystemBytes()
		d := rHDeliv{Handler: 0, Tag: rParseTag(msg.AppendBodyTo(nil)), SB: binary.BigEndian.Uint32(sbA[:]), Fn: msg.Function(), W: msg.WaitBit()}
		d.Stamp = rStamp()
		hmu.Lock()
		r.hist.Handled = append(r.hist.Handled, d)
		hmu.Unlock()
	})
	handled := func(tag int64) bool {
		hmu.Lock()
		defer hmu.Unlock()
		for _, d := range r.hist.Handled {
			if d.Tag == tag {
				return true
			}
		}
		return false
	}
	// the peer's script: answer the held transaction on its own generation (ReplyBefore) and every fresh one
	var pwg sync.WaitGroup
	var pmu sync.Mutex
	replied := map[int]rFrame{}
	r.peer.onFrame = func(g *rGen, f rFrame) {
		if !f.IsData() || f.Tag < 0 || int(f.Tag) >= n {
			return
		}
		i := int(f.Tag)
		if rs.Plans[i].Peer != pkReply {
			return
		}
		pwg.Add(1)
		go func() {
			defer pwg.Done()
			out := r.peer.sendData(g, f.Stream(), f.Fn()+1, false, f.SB, f.Session)
			pmu.Lock()
			replied[i] = out
			pmu.Unlock()
		}()
	}
	cleanup := func() {
		lg.release()
		_ = conn.Close()
		r.peer.closeAll()
		pwg.Wait()
	}
	octx, ocancel := context.WithTimeout(context.Background(), 10*time.Second)
	err = conn.Open(octx, hsms.OpenWaitSelected)
	ocancel()
	if err != nil {
		cleanup()
		return nil, rs, nil, nil, replay, "open: " + err.Error()
	}
	r.snap("selected")
	g0 := r.peer.last()

	// ---- hold call 0 between its write and its wait
	var heldSB uint32
	var wg sync.WaitGroup
	switch sp.Parked {
	case "c":
		wm, ok := r.core.(c09WriteMessager)
		if !ok {
			cleanup()
			return nil, rs, nil, nil, replay, "skip: the runtime's WriteMessage is not reachable"
		}
		r.peer.muteLinktest.Store(true) // the control transaction stays open
		sbA := wm.NextSystemBytes()
		heldSB = binary.BigEndian.Uint32(sbA[:])
		r.hist.CtrlSB = map[uint32]int{heldSB: 0}
		lg.arm(1, func(f rFrame) bool { return f.PType == 0 && f.SType == byte(hsms.LinktestReqType) && f.SB == heldSB })
		wg.Add(1)
		go func() {
			defer wg.Done()
			res := rCallResult{Idx: 0, Kind: "c", StartT: time.Now(), Start: rStamp()}
			rsp, err := wm.WriteMessage(context.Background(), hsms.NewLinktestReq(sbA))
			res.End, res.EndT = rStamp(), time.Now()
			switch {
			case err == nil && rsp != nil:
				res.Outcome = "ctrlreply"
			case err == nil:
				res.Outcome = "nilnil"
			case errors.Is(err, hsms.ErrT6Timeout), errors.Is(err, hsms.ErrT3Timeout):
				res.Outcome = "timeout"
			case errors.Is(err, hsms.ErrConnClosed):
				res.Outcome = "closed"
			default:
				res.Outcome = "writeerr"
			}
			if err != nil {
				res.Err = err.Error()
			}
			r.mu.Lock()
			r.hist.Calls[0] = res
			r.mu.Unlock()
		}()
	default:
		lg.arm(1, func(f rFrame) bool { return f.IsData() && f.Tag == 0 })
		wg.Add(1)
		go func() { defer wg.Done(); r.call(conn, 0) }()
	}
	select {
	case f := <-lg.hit:
		heldSB = f.SB
	case <-time.After(10 * time.Second):
		cleanup()
		return nil, rs, nil, nil, replay, "the sender never reached the trace call after its write"
	}
	replay["held_system_bytes"] = heldSB
	if sp.ReplyBefore {
		// the reply is written, and dispatched: a sentinel primary behind it has reached the handler
		ok := c09WaitFor(func() bool { pmu.Lock(); defer pmu.Unlock(); return replied[0].EndStmp > 0 }, 5*time.Second)
		sent := r.peer.sendData(g0, 99, 1, false, 0x7e000001, 0xFFFF)
		if !ok || !c09WaitFor(func() bool { return handled(int64(sent.Fid)) }, 5*time.Second) {
			r.note("the reply on the held sender's own generation was not dispatched")
		}
	}
	// further senders of this generation: they pin it, register, and queue on its write lock (held by the parked one)
	wantReg := 1
	for i := 1; i <= sp.Blocked; i++ {
		i := i
		if rs.Plans[i].Kind == "s" {
			wantReg++
		}
		wg.Add(1)
		go func() { defer wg.Done(); r.call(conn, i) }()
	}
	if sp.Blocked > 0 {
		c09WaitFor(func() bool { st, ok := hsms.VerifRouterSnapshot(r.core); return !ok || st.RegistrySize >= wantReg }, 3*time.Second)
		time.Sleep(5 * time.Millisecond)
	}

	// ---- the generation ends (and is replaced) while the sender is held
	closeRet := make(chan struct{})
	switch sp.Trigger {
	case "close":
		r.hist.CloseCall[0] = rStamp()
		go func() { _ = conn.Close(); r.hist.CloseCall[1] = rStamp(); close(closeRet) }()
		select {
		case <-closeRet:
		case <-time.After(10 * time.Second):
			r.note("HANG: Close did not return within 10 s while a sender was held in the application's logger")
		}
	default:
		for k := 0; k < max(sp.Gens, 1); k++ {
			gk := r.peer.last()
			gk.closeGen()
			ok := c09WaitFor(func() bool {
				g := r.peer.last()
				if g == nil || g.id <= gk.id {
					return false
				}
				select {
				case <-g.selected:
					return conn.State() == hsms.SelectedState
				default:
					return false
				}
			}, 10*time.Second)
			if !ok {
				r.note("no later generation was selected within 10 s")
				break
			}
			c09WaitFor(func() bool { return conn.Metrics().Reconnecting() == 0 }, 2*time.Second)
			r.snap(fmt.Sprintf("reselected-%d", k+1))
		}
		gN := r.peer.last()
		if sp.EchoOnNew && gN != nil && gN.id > 0 && !gN.closed.Load() {
			// a secondary with the held transaction's system bytes on the NEW generation: nobody waits for it there
			pl := rs.Plans[0]
			echo := r.peer.sendData(gN, pl.Stream, pl.Fn+1, false, heldSB, 0xFFFF)
			if !c09WaitFor(func() bool { return handled(int64(echo.Fid)) }, 5*time.Second) {
				r.note("the secondary sent on the new generation did not reach the handlers")
			}
			replay["echo_fid_on_new_generation"] = echo.Fid
		}
		// fresh transactions on the new generation, while the stale sender is still held
		for i := 1 + sp.Blocked; i < n; i++ {
			runWaveOnly(r, conn, i)
		}
		if gN != nil && !gN.closed.Load() {
			r.snap("stale-sender-held")
		}
	}

	// ---- release
	r.hist.ReleaseT = time.Now().UnixNano()
	lg.release()
	fin := make(chan struct{})
	go func() { wg.Wait(); close(fin) }()
	limit := sp.T3 + sp.Bound + 5*time.Second
	select {
	case <-fin:
	case <-time.After(limit):
		r.note("HANG: a released sender of the ended generation did not return within %v", limit)
	}
	// ---- quiescence and the end of the history (as runScenario)
	if sp.Trigger != "close" {
		pwg.Wait()
		if g := r.peer.last(); g != nil && !g.closed.Load() {
			r.peer.barrier(g, 0x7fff0000, 5*time.Second)
		}
		if st, ok := hsms.VerifRouterSnapshot(r.core); ok {
			r.hist.GenDraws = st.SysBytesDraws
			if st.RegistrySize != 0 {
				c09WaitFor(func() bool { st, _ = hsms.VerifRouterSnapshot(r.core); return st.RegistrySize == 0 }, 200*time.Millisecond)
				if st.RegistrySize != 0 {
					r.note("REGISTRY-NOT-EMPTY at quiescence: %d entries, system bytes %v", st.RegistrySize, st.RegistryKeys)
				}
			}
		}
		r.snap("quiescent")
		r.hist.CloseCall[0] = rStamp()
		_ = conn.Close()
		r.hist.CloseCall[1] = rStamp()
	} else if st, ok := hsms.VerifRouterSnapshot(r.core); ok {
		r.hist.GenDraws = st.SysBytesDraws
	}
	r.snap("closed")
	r.peer.closeAll()
	pwg.Wait()
	for gi := 0; gi < r.peer.numGens(); gi++ {
		g := r.peer.gen(gi)
		<-g.readerEnd
		r.hist.In = append(r.hist.In, g.inbound())
		r.hist.Out = append(r.hist.Out, g.outbound())
		r.hist.Dials = append(r.hist.Dials, g.DialStamp)
		cs := g.CloseStmp.Load()
		if cs > r.hist.CloseCall[0] {
			cs = 0
		}
		r.hist.Closes = append(r.hist.Closes, cs)
		r.hist.CloseT = append(r.hist.CloseT, g.CloseT.Load())
	}
	replay["calls"], replay["peer_in"], replay["peer_out"], replay["dials"], replay["closes"] = h.Calls, h.In, h.Out, h.Dials, h.Closes

	// ---- the family's own oracle
	frameGen := map[int]int{}
	for g, out := range h.Out {
		for _, f := range out {
			frameGen[f.Fid] = g
		}
	}
	rel := time.Unix(0, h.ReleaseT)
	var lat []string
	for i := 0; i <= sp.Blocked; i++ {
		cl := h.Calls[i]
		role := "held between its write and its wait"
		if i > 0 {
			role = "queued on the ended generation's write lock"
		}
		if cl.End == 0 {
			fails = append(fails, c09StaleFail{"stale-sender-never-returned", fmt.Sprintf("call %d (%s, %s) had not returned %v after it was released", i, cl.Kind, role, limit)})
			continue
		}
		l := cl.EndT.Sub(rel)
		lat = append(lat, fmt.Sprintf("%d:%s:%s after %v", i, rs.Plans[i].Kind, cl.Outcome, l.Round(time.Millisecond)))
		legal := cl.Outcome == "closed"
		if i == 0 && sp.ReplyBefore && cl.Outcome == "reply" {
			legal = frameGen[int(cl.ReplyTag)] == 0 // its own reply, delivered on its own generation before the drop
		}
		switch {
		case legal:
		case cl.Outcome == "timeout":
			fails = append(fails, c09StaleFail{"stale-sender-waited-out-reply-timer", fmt.Sprintf("call %d (%s, %s) returned the T3/T6 timeout %v after it was released (T3 = T6 = %v): its generation had ended before it entered the wait, "+
				"so the wait must end with the connection-closed error at once — it was bound to the lifetime of a LATER generation", i, cl.Kind, role, l.Round(time.Millisecond), sp.T3)})
		default:
			fails = append(fails, c09StaleFail{"stale-sender-outcome", fmt.Sprintf("call %d (%s, %s) returned %s (%s); its generation had ended: connection-closed expected", i, cl.Kind, role, cl.Outcome, cl.Err)})
		}
		if l > sp.Bound {
			fails = append(fails, c09StaleFail{"stale-sender-not-released-promptly", fmt.Sprintf("call %d (%s, %s) returned %s %v after it was released (bound %v, T3 %v): a send of an ended generation must complete promptly",
				i, cl.Kind, role, cl.Outcome, l.Round(time.Millisecond), sp.Bound, sp.T3)})
		}
	}
	replay["returned_after_release"] = lat
	return fails, rs, h, r.notes, replay, ""
}

func c09StaleSpecs(c *Ctx) []c09StaleSpec {
	t3, bound := 4*time.Second, 1500*time.Millisecond
	mk := func(name, parked, trigger string, gens, blocked int, replyBefore, echo bool, wave1 int) c09StaleSpec {
		if parked == "c" {
			replyBefore = false // the held control transaction stays unanswered (the peer leaves the Linktest.req alone)
		}
		return c09StaleSpec{Name: name, Parked: parked, Trigger: trigger, Gens: gens, Blocked: blocked, ReplyBefore: replyBefore, EchoOnNew: echo,
			Wave1: wave1, T3: t3, Bound: bound, Seed: c.Rng.Uint64()}
	}
	specs := []c09StaleSpec{
		mk("data-replaced", "s", "peerdrop", 1, 0, false, true, 2),
		mk("data-replaced-queued-writers", "s", "peerdrop", 1, 3, false, false, 1),
		mk("ctrl-replaced", "c", "peerdrop", 1, 1, false, false, 1),
		mk("data-replaced-twice", "s", "peerdrop", 2, 0, false, true, 1),
		mk("data-own-reply-first", "s", "peerdrop", 1, 0, true, true, 1),
		mk("data-close", "s", "close", 0, 2, false, false, 0),
	}
	if c.Thorough() {
		specs = append(specs,
			mk("ctrl-replaced-twice", "c", "peerdrop", 2, 2, false, false, 2),
			mk("ctrl-close", "c", "close", 0, 1, false, false, 0),
			mk("data-replaced-many-queued", "s", "peerdrop", 1, 9, false, true, 4),
			mk("data-own-reply-first-twice", "s", "peerdrop", 2, 2, true, true, 2))
		for k := 0; k < 6; k++ {
			r := c.Rng
			specs = append(specs, mk(fmt.Sprintf("random-%d", k), []string{"s", "s", "c"}[r.IntN(3)], "peerdrop", 1+r.IntN(2), r.IntN(5), r.IntN(3) == 0, r.IntN(2) == 0, r.IntN(4)))
		}
	}
	return specs
}

// c09StaleSenders runs the family; a failing scenario is run again with every timer scaled (a loaded machine) and
// reported only if it fails again.
func c09StaleSenders(c *Ctx) {
	for _, sp := range c09StaleSpecs(c) {
		if routerStop(c) {
			return
		}
		var fails []c09StaleFail
		var rs *rSpec
		var h *rHistory
		var notes []string
		var replay map[string]any
		var staged string
		for attempt, scale := range []time.Duration{1, 3} {
			spx := sp
			spx.T3, spx.Bound = sp.T3*scale, sp.Bound*scale
			fails, rs, h, notes, replay, staged = c09RunStale(c, spx)
			if staged != "" || len(fails) == 0 {
				break
			}
			if attempt == 0 {
				c.Stat("stale-retried-with-scaled-timers")
			}
		}
		if strings.HasPrefix(staged, "skip:") {
			c.Stat("stale-skipped:" + sp.Name)
			continue
		}
		if staged != "" {
			c.Violate("correspondence", "scenario-did-not-start", "stale/"+sp.Name+": "+staged, replay)
			continue
		}
		routerNotes(c, notes, replay)
		for _, f := range fails {
			c.Violate("property", f.what, "stale/"+sp.Name+": "+f.detail, replay)
		}
		outs := map[string]int{}
		for i, cl := range h.Calls {
			outs[rs.Plans[i].Kind+":"+cl.Outcome]++
			c.Stat("stale-outcome:" + cl.Outcome)
		}
		var parts []string
		for k, v := range outs {
			parts = append(parts, fmt.Sprintf("%s=%d", k, v))
		}
		sortStrings(parts)
		c.Count(fmt.Sprintf("stale|%s|%s|%d|%d|%v|%v|%s", sp.Parked, sp.Trigger, sp.Gens, sp.Blocked, sp.ReplyBefore, sp.EchoOnNew, strings.Join(parts, ",")), true)
		c.Stat("scenario:stale-sender-between-write-and-wait")
		if len(fails) == 0 {
			// the generic cross-generation oracle and the model replay on the same history
			oracleC09(c, rs, h, replay)
			modelCheck(c, "C09", rs, h, replay)
		}
		if len(c.Res.Samples) < 3 {
			smp := map[string]any{"scenario": "stale/" + sp.Name, "outcomes": outs, "returned_after_release": replay["returned_after_release"], "generations": len(h.Dials)}
			if ma, ok := replay["model_actions"].(string); ok {
				smp["model_actions"] = clip(ma, 1500)
			}
			c.Sample(smp)
		}
	}
}
