package main

// C09, clause "when a generation ends, every send still waiting on it completes PROMPTLY with the connection-closed error",
// scenario family "async senders parked on a FULL fire-and-forget queue at generation end".
//
// The drop histories of router_run.go (mode queued) put a handful of frames into a 64-slot queue: nobody ever waits for a
// slot.  Here the queue is small (1 or 4 slots, hsms.WithSenderQueueSize), the peer stays Selected but stops reading, the
// generation's sender goroutine is blocked in its socket write, the queue fills up and 8..48 application callers of
// SendDataMessageAsync are parked waiting for a slot.  Optionally the RECEIVE goroutine of the generation is parked on the
// same queue as well: the otherwise stalled peer still sent something that must be answered through the queue — a
// Linktest.req (Linktest.rsp), or a W-bit primary whose application handler replies inline (ReplyDataMessage).  Then the
// generation ends:
//
//   peerdrop        the peer closes the connection
//   close           the application calls Close()
//   write-timeout   the blocked write's own deadline (hsms.WithWriteTimeout) expires
//
// Oracles (implementation side)
//   parked-async-sender-not-released-promptly   every caller that was parked when the generation ended returns within 1 s of
//                                               that moment (close timeout: 4 s) — released by the START of the teardown, not
//                                               by the end of its bounded join (which, with the receive goroutine parked, can
//                                               only end by the close timeout)
//   cut-call-outcome                            ... with connection-closed (or nil: it slipped into the dying queue)
//   queued-async-flushed-on-later-generation    nothing accepted or parked on the ended generation is ever transmitted on
//                                               the next one (reconnect / re-Open, followed by a round trip)
//   send-never-returned                         a parked caller did not return at all
// A history that misbehaves is run again with every timer x3 before it is reported.

import (
	"context"
	"fmt"
	"sort"
	"sync"
	"sync/atomic"
	"time"

	"github.com/arloliu/go-secs/v2/hsms"
	"github.com/arloliu/go-secs/v2/secs2"
)

type fqSpec struct {
	Name   string `json:"name"`
	Queue  int    `json:"queue_size"`
	Parked int    `json:"parked_senders"`
	Recv   string `json:"receive_loop_parked"` // "" (not parked) | linktest | inline-reply
	End    string `json:"generation_ended_by"` // peerdrop | close | write-timeout
}

func fqRunOnce(sp fqSpec, scale int) (fails []wfFail, replay map[string]any, staged string) {
	sc := time.Duration(scale)
	closeTimeout, bound := 4*time.Second*sc, time.Second*sc
	writeTimeout := 30 * time.Second
	if sp.End == "write-timeout" {
		writeTimeout = 500 * time.Millisecond * sc
	}
	replay = map[string]any{"family": "async senders parked on a full queue at generation end", "spec": sp, "timer_scale": scale,
		"close_timeout_ms": closeTimeout.Milliseconds(), "prompt_bound_ms": bound.Milliseconds(), "write_timeout_ms": writeTimeout.Milliseconds()}
	fail := func(what, format string, a ...any) {
		fails = append(fails, wfFail{"property", what, fmt.Sprintf(format, a...)})
	}
	n := &wfNet{peer: newRPeer()}
	conn, err := wfNewConn(n, wfConnOpts{T3: 10 * time.Second, T6: 10 * time.Second, WriteTimeout: writeTimeout, CloseTimeout: closeTimeout, QueueSize: sp.Queue, Suppress: true})
	if err != nil {
		return nil, replay, "config: " + err.Error()
	}
	core := rCore(conn)
	var leftSelected atomic.Int64 // unix nanos of the first Selected -> other notification after the setup
	var armed atomic.Bool
	conn.AddConnStateChangeHandler(func(prev, next hsms.ConnState) {
		if armed.Load() && prev == hsms.SelectedState && next != hsms.SelectedState {
			leftSelected.CompareAndSwap(0, time.Now().UnixNano())
		}
	})
	handlerIn := make(chan struct{}, 4)
	var handlerOut atomic.Int64
	conn.AddDataMessageHandler(func(msg *hsms.DataMessage, ep hsms.SECS2Endpoint) {
		if msg.Stream() == 55 && msg.WaitBit() {
			handlerIn <- struct{}{}
			_ = ep.ReplyDataMessage(context.Background(), msg, secs2.NewUintItem(4, 0x55)) // replies inline: parks on the full queue
			handlerOut.Store(time.Now().UnixNano())
		}
	})
	var pwg sync.WaitGroup
	n.peer.onFrame = func(g *rGen, f rFrame) {
		if !f.IsData() || !f.W() {
			return
		}
		pwg.Add(1)
		go func() {
			defer pwg.Done()
			n.peer.sendData(g, f.Stream(), f.Fn()+1, false, f.SB, f.Session)
		}()
	}
	var callWG sync.WaitGroup
	closed := false
	done := func() {
		if !closed {
			_ = conn.Close()
		}
		n.peer.closeAll()
		pwg.Wait()
		fin := make(chan struct{})
		go func() { callWG.Wait(); close(fin) }()
		select {
		case <-fin:
		case <-time.After(closeTimeout + 10*time.Second):
		}
	}
	octx, ocancel := context.WithTimeout(context.Background(), 10*time.Second)
	err = conn.Open(octx, hsms.OpenWaitSelected)
	ocancel()
	if err != nil {
		done()
		return nil, replay, "open: " + err.Error()
	}
	roundTrip := func() string {
		ctx, cancel := context.WithTimeout(context.Background(), 5*time.Second*sc)
		defer cancel()
		var rc rCallResult
		reply, err := conn.SendDataMessage(ctx, 1, 1, true, secs2.NewUintItem(4, 0x7fffffff))
		rClassify(reply, err, &rc)
		if rc.Outcome != "reply" {
			return rc.Outcome + " " + rc.Err
		}
		return ""
	}
	if s := roundTrip(); s != "" {
		done()
		return nil, replay, "the warm-up round trip returned " + s
	}
	g := n.peer.last()
	g.stall() // the peer stays connected and Selected but reads (at most one frame) no more
	armed.Store(true)
	total := sp.Queue + 2 + sp.Parked
	type res struct {
		out string
		err string
		end atomic.Int64
	}
	results := make([]*res, total)
	var returned atomic.Int64
	for i := 0; i < total; i++ {
		i := i
		results[i] = &res{}
		callWG.Add(1)
		go func() {
			defer callWG.Done()
			var rc rCallResult
			err := conn.SendDataMessageAsync(context.Background(), 9, 1, false, secs2.NewUintItem(4, uint32(i)))
			t := time.Now().UnixNano()
			rClassify(nil, err, &rc)
			if rc.Outcome == "nilnil" {
				rc.Outcome = "sent"
			}
			results[i].out, results[i].err = rc.Outcome, rc.Err
			results[i].end.Store(t)
			returned.Add(1)
		}()
	}
	// the queue is full, the sender goroutine sits in the write, everybody else is parked
	full := func() bool {
		st, ok := hsms.VerifRouterSnapshot(core)
		return ok && st.QueueLen >= sp.Queue && returned.Load() >= int64(sp.Queue+1)
	}
	if !c09WaitFor(full, 5*time.Second) {
		done()
		return nil, replay, fmt.Sprintf("the queue never filled up (%d callers returned)", returned.Load())
	}
	for stable, last := 0, int64(-1); stable < 3; {
		time.Sleep(4 * time.Millisecond * sc)
		if r := returned.Load(); r == last {
			stable++
		} else {
			stable, last = 0, r
		}
	}
	switch sp.Recv {
	case "linktest":
		if f := n.peer.sendNoQuiet(g, rFrame{Session: 0xFFFF, SType: byte(hsms.LinktestReqType), SB: 0x7c000001, Tag: -1}, []byte{}); !f.WriteOK {
			done()
			return nil, replay, "the receive loop never read the peer's Linktest.req"
		}
	case "inline-reply":
		if f := n.peer.sendData(g, 55, 1, true, 0x7c000002, 0xFFFF); !f.WriteOK {
			done()
			return nil, replay, "the receive loop never read the peer's primary"
		}
		select {
		case <-handlerIn:
		case <-time.After(5 * time.Second):
			done()
			return nil, replay, "the replying handler was never entered"
		}
	}
	time.Sleep(5 * time.Millisecond * sc)
	if conn.State() != hsms.SelectedState || leftSelected.Load() != 0 {
		done()
		return nil, replay, "the generation ended before the scenario was set up"
	}
	var parked []int
	for i, r := range results {
		if r.end.Load() == 0 {
			parked = append(parked, i)
		}
	}
	replay["parked_when_the_generation_ended"] = len(parked)
	if len(parked) < sp.Parked {
		done()
		return nil, replay, fmt.Sprintf("only %d of %d callers were parked on the full queue", len(parked), sp.Parked)
	}
	if sp.Recv == "inline-reply" && handlerOut.Load() != 0 {
		done()
		return nil, replay, "the inline reply did not park on the full queue"
	}
	// ---- the generation ends
	var tEnd time.Time
	closeRes := make(chan string, 1)
	switch sp.End {
	case "peerdrop":
		tEnd = time.Now()
		g.closeGen()
	case "close":
		tEnd = time.Now()
		closed = true
		go func() {
			t := time.Now()
			err := conn.Close()
			closeRes <- fmt.Sprintf("%v after %v", err, time.Since(t).Round(time.Millisecond))
		}()
	default:
		if !c09WaitFor(func() bool { return leftSelected.Load() != 0 || conn.State() != hsms.SelectedState }, writeTimeout+5*time.Second) {
			done()
			return nil, replay, "the write timeout never ended the generation"
		}
		tEnd = time.Now()
		if t := leftSelected.Load(); t != 0 && t < tEnd.UnixNano() {
			tEnd = time.Unix(0, t)
		}
	}
	allBack := func() bool { return returned.Load() == int64(total) }
	hung := !c09WaitFor(allBack, closeTimeout+10*time.Second*sc)
	outs := map[string]int{}
	var lats []time.Duration
	late := 0
	var slowest time.Duration
	for _, i := range parked {
		r := results[i]
		e := r.end.Load()
		if e == 0 {
			continue
		}
		lat := time.Duration(e - tEnd.UnixNano())
		lats = append(lats, lat)
		outs[r.out]++
		slowest = max(slowest, lat)
		if lat > bound {
			late++
		}
		if r.out != "closed" && r.out != "sent" && r.out != "notselected" {
			fail("cut-call-outcome", "a SendDataMessageAsync caller parked on the full queue when its generation ended (%s) returned %s (%s)", sp.End, r.out, r.err)
		}
	}
	sort.Slice(lats, func(a, b int) bool { return lats[a] < lats[b] })
	var ls []string
	for _, l := range lats {
		ls = append(ls, l.Round(100*time.Microsecond).String())
	}
	replay["parked_callers_returned_after"] = ls
	replay["parked_callers_outcomes"] = outs
	if sp.End == "close" {
		select {
		case s := <-closeRes:
			replay["close_returned"] = s
		case <-time.After(closeTimeout + 10*time.Second):
			replay["close_returned"] = "never"
			fail("close-never-returned", "Close did not return within %v (close timeout %v)", closeTimeout+10*time.Second, closeTimeout)
		}
	}
	recvTxt := map[string]string{"": "the receive loop was not parked", "linktest": "the receive loop was parked on the same queue with a Linktest.rsp",
		"inline-reply": "the receive loop was parked on the same queue inside a handler replying inline"}[sp.Recv]
	if hung {
		fail("send-never-returned", "%d of %d callers parked on the full queue (size %d) had not returned %v after the generation ended (%s); %s",
			total-int(returned.Load()), len(parked), sp.Queue, closeTimeout+10*time.Second*sc, sp.End, recvTxt)
	}
	if late > 0 {
		fail("parked-async-sender-not-released-promptly", "%d of %d SendDataMessageAsync callers parked on the full queue (size %d) returned more than %v after the generation ended (%s); the slowest %v after (close timeout %v: released by the end of the teardown's bounded join, not by its start); %s; outcomes %v",
			late, len(parked), sp.Queue, bound, sp.End, slowest.Round(time.Millisecond), closeTimeout, recvTxt, outs)
	}
	if hung {
		done()
		return fails, replay, ""
	}
	// ---- the next generation: nothing of the ended one is transmitted on it
	if sp.End == "close" {
		octx, ocancel := context.WithTimeout(context.Background(), 10*time.Second)
		err = conn.Open(octx, hsms.OpenWaitSelected)
		ocancel()
		closed = false
		if err != nil {
			if len(fails) == 0 {
				done()
				return nil, replay, "re-Open: " + err.Error()
			}
			done()
			return fails, replay, ""
		}
	}
	if !c09WaitFor(func() bool { return wfSelectedOn(n.peer, conn, g.id+1) }, closeTimeout+10*time.Second) {
		if len(fails) == 0 {
			done()
			return nil, replay, fmt.Sprintf("no later generation was selected (state %v)", conn.State())
		}
		done()
		return fails, replay, ""
	}
	if s := roundTrip(); s != "" && len(fails) == 0 {
		done()
		return nil, replay, "the round trip on the next generation returned " + s
	}
	for gi := g.id + 1; gi < n.peer.numGens(); gi++ {
		for _, f := range n.peer.gen(gi).inbound() {
			if f.IsData() && (f.Stream() == 9 || f.Stream() == 55) {
				fail("queued-async-flushed-on-later-generation", "a message accepted or parked on generation %d (S%dF%d, tag %d) was transmitted on generation %d", g.id, f.Stream(), f.Fn(), f.Tag, gi)
			}
		}
	}
	done()
	return fails, replay, ""
}

func fqSpecs(c *Ctx) []fqSpec {
	r := c.Rng
	pk := func() int { return 8 + r.IntN(41) }
	specs := []fqSpec{
		{Queue: 1, Parked: 48, Recv: "linktest", End: "write-timeout"},
		{Queue: 1, Parked: pk(), Recv: "linktest", End: "peerdrop"},
		{Queue: 4, Parked: pk(), Recv: "linktest", End: "close"},
		{Queue: 4, Parked: 8, Recv: "inline-reply", End: "peerdrop"},
		{Queue: 1, Parked: pk(), Recv: "inline-reply", End: "close"},
		{Queue: 4, Parked: pk(), Recv: "inline-reply", End: "write-timeout"},
		{Queue: 1, Parked: pk(), Recv: "", End: "peerdrop"},
		{Queue: 4, Parked: pk(), Recv: "", End: "close"},
		{Queue: 1, Parked: 8, Recv: "", End: "write-timeout"},
	}
	for k := 0; k < c.Pick(0, 18); k++ {
		specs = append(specs, fqSpec{Queue: []int{1, 4}[r.IntN(2)], Parked: pk(), Recv: []string{"", "linktest", "inline-reply"}[r.IntN(3)],
			End: []string{"peerdrop", "close", "write-timeout"}[r.IntN(3)]})
	}
	for i := range specs {
		sp := &specs[i]
		rv := sp.Recv
		if rv == "" {
			rv = "recv-free"
		}
		sp.Name = fmt.Sprintf("q%d-parked%d-%s-%s", sp.Queue, sp.Parked, rv, sp.End)
	}
	return specs
}

// c09FullQueue runs the family.
func c09FullQueue(c *Ctx) {
	specs := fqSpecs(c)
	t0 := time.Now()
	var wg sync.WaitGroup
	sem := make(chan struct{}, 5)
	for _, sp := range specs {
		sp := sp
		wg.Add(1)
		sem <- struct{}{}
		go func() {
			defer wg.Done()
			defer func() { <-sem }()
			var fails []wfFail
			var replay map[string]any
			var staged string
			for attempt, scale := range []int{1, 3, 6} {
				fails, replay, staged = fqRunOnce(sp, scale)
				if staged == "" && len(fails) == 0 {
					break
				}
				c.Stat("full-queue-retried-with-scaled-timers")
				wfRetryNote(c, "fullqueue", sp.Name, scale, fails, staged)
				if staged == "" && attempt >= 1 {
					break // misbehaved twice
				}
			}
			c.Count("fullqueue|"+sp.Name, true)
			c.Stat("scenario:async-senders-parked-on-full-queue-at-generation-end")
			c.Stat("mode:fullqueue-" + sp.End)
			if staged != "" {
				c.Violate("correspondence", "scenario-did-not-start", "fullqueue/"+sp.Name+": "+staged, replay)
				return
			}
			for _, f := range fails {
				c.Violate(f.kind, f.what, "fullqueue/"+sp.Name+": "+f.detail, replay)
			}
			if len(fails) == 0 {
				if o, ok := replay["parked_callers_outcomes"].(map[string]int); ok {
					for k, v := range o {
						c.StatN("fullqueue-parked-outcome:"+k, v)
					}
				}
				if sp.Queue == 1 && sp.Parked == 48 {
					c.Sample(map[string]any{"scenario": "fullqueue/" + sp.Name, "parked": replay["parked_when_the_generation_ended"],
						"outcomes": replay["parked_callers_outcomes"], "returned_after": replay["parked_callers_returned_after"]})
				}
			}
		}()
	}
	wg.Wait()
	c.StatN("full-queue-wall-ms", int(time.Since(t0).Milliseconds()))
}
