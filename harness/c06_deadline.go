package main

// C06, a W-bit send whose caller context carries a DEADLINE shorter than T3, against a peer that never answers: the
// call ends with the caller's context error at the deadline — the T3 error is reserved for "no earlier than T3 after
// the primary was written". A later send on the same connection with a background context still gets the full T3.
// Both roles, timers scaled on a retry. Added after seeded change C06g-2 (the reply timer clipped to the context
// deadline and reporting the protocol outcome).

import (
	"context"
	"errors"
	"fmt"
	"time"

	"github.com/arloliu/go-secs/v2/hsms"
	"github.com/arloliu/go-secs/v2/secs2"
)

func c06Deadline(c *Ctx) {
	for _, active := range []bool{true, false} {
		var bad, detail string
		var info map[string]any
		for _, scale := range []int{1, 3, 9} {
			bad, detail, info = c06DeadlineRun(active, scale)
			if bad == "" {
				break
			}
			c.Stat("ctx-deadline:retry")
		}
		c.Count(fmt.Sprintf("ctx-deadline|%v", active), true)
		c.Stat("ctx-deadline")
		if bad != "" {
			kind := "property"
			if bad == "script-run-failed" {
				kind = "correspondence"
			}
			c.Violate(kind, bad, detail, info)
		}
	}
}

func c06DeadlineRun(active bool, scale int) (string, string, map[string]any) {
	t3 := time.Duration(400*scale) * time.Millisecond
	dl := t3 / 4
	ep, err := NewEndpoint(active, []hsms.ConnOption{hsms.WithT3(t3), hsms.WithLinktestInterval(time.Hour), hsms.WithAutoS9F9(false)})
	if err != nil {
		return "script-run-failed", err.Error(), nil
	}
	defer ep.Shutdown()
	if err := ep.Open(); err != nil {
		return "script-run-failed", err.Error(), nil
	}
	p, _, err := ep.EstablishSelected(5 * time.Second)
	if err != nil {
		return "script-run-failed", err.Error(), nil
	}
	defer p.Close()
	info := map[string]any{"role_active": active, "t3_ms": t3.Milliseconds(), "ctx_deadline_ms": dl.Milliseconds()}
	// 1. deadline shorter than T3, silent peer
	ctx, cancel := context.WithTimeout(context.Background(), dl)
	t0 := time.Now()
	_, e1 := ep.Conn.SendDataMessage(ctx, 1, 1, true, secs2.A("deadline"))
	el1 := time.Since(t0)
	cancel()
	info["first_call_ms"], info["first_call_err"] = el1.Milliseconds(), fmt.Sprint(e1)
	f, err := p.Recv(2 * time.Second)
	if err != nil || f.SType() != 0 {
		return "script-run-failed", fmt.Sprintf("the primary of the first call did not reach the peer: %s (%v)", f.Text(), err), info
	}
	if errors.Is(e1, hsms.ErrT3Timeout) && el1 < t3*9/10 {
		return "t3-early", fmt.Sprintf("a W-bit send with a %v context deadline returned the T3 error after %v (T3 = %v): the T3 outcome is reported no earlier than T3 after the primary was written; an expired caller context yields the context error",
			dl, el1, t3), info
	}
	if !errors.Is(e1, context.DeadlineExceeded) {
		if el1 >= t3*9/10 { // the machine was so slow that T3 itself went by: inconclusive at this scale
			return "script-run-failed", fmt.Sprintf("first call took %v (T3 %v): timing unusable", el1, t3), info
		}
		return "undocumented-outcome", fmt.Sprintf("a W-bit send whose context deadline (%v) expired unanswered returned %v after %v, want the context's error", dl, e1, el1), info
	}
	// 2. the full T3 still applies to a caller without a deadline
	t1 := time.Now()
	_, e2 := ep.Conn.SendDataMessage(context.Background(), 1, 3, true, secs2.A("t3"))
	el2 := time.Since(t1)
	info["second_call_ms"], info["second_call_err"] = el2.Milliseconds(), fmt.Sprint(e2)
	if !errors.Is(e2, hsms.ErrT3Timeout) {
		return "undocumented-outcome", fmt.Sprintf("an unanswered W-bit send with a background context returned %v after %v, want the T3 error", e2, el2), info
	}
	if el2 < t3*9/10 {
		return "t3-early", fmt.Sprintf("the T3 error came after %v (T3 = %v)", el2, t3), info
	}
	return "", "", info
}
