package main

// C09 (and C05), scenario family "a sender of generation N gets through the transport boundary only AFTER generation
// N+1 is up" — with the transport itself in the picture.
//
// The families of c09_stale.go hold a sender in the application's trace logger, i.e. after its write succeeded.  Here
// the harness owns the "socket": the dialer wraps the connection's end of every generation's net.Pipe in an lwConn
// whose Write can be slow, the way a socket with a full send buffer (or a goroutine descheduled inside the write) is:
//
//   * generation N, the WEDGED WRITER: one synchronous send is parked inside the transport write (before the first byte
//     of its frame is taken / after the 14-byte prefix was taken), holding N's write lock; further senders of N pin the
//     generation, register and queue on that lock.  The peer then drops N; the library tears it down, reconnects and
//     re-selects (N+1, optionally N+2) — the parked write knows nothing of it (it returns its error late, exactly like a
//     writer goroutine that was descheduled across the teardown);
//   * generation N+1, the SLOW READER: fresh sends run on the new generation; the first data frame's 14-byte prefix is
//     consumed only up to k bytes (k = 0, 4, 9, 13 ...) — the peer "reads slowly" — and in that pause the senders of
//     generation N are released, run through the write path and return; then the rest of the frame is consumed.
//     (lwConn copies the caller's bytes at the moment it hands them to the pipe — which is what a kernel socket and
//     net.Pipe do: a blocked Write reads the caller's slice when the transport has room, not when Write was entered.)
//
// Oracles (implementation side)
//   bytes     for every generation, the byte stream the transport consumed is, frame by frame, byte for byte, the
//             ToBytes() of the messages the library reports as sent on that generation (hsms.WithTraceTraffic: "sent
//             frame" carries msg.ToBytes(); the trace lines of one generation follow its Select.req) — nothing of a
//             generation-N message (length, header, system bytes) ever appears on N+1's connection
//   stale     every sender of generation N returns an error (connection-closed; the wedged one may return the transport's
//             write error), promptly after it is released, never a success
//   later     from the moment generation N+1 is Selected, with a healthy peer: State() stays Selected, no state
//             notification is delivered, no further dial is made, fresh W-bit sends get their replies — whatever the
//             senders of generation N do when they finally return (C05: a Selected -> NotConnected change needs a cause
//             OF THAT connection)

import (
	"context"
	"encoding/binary"
	"encoding/hex"
	"fmt"
	"net"
	"strings"
	"sync"
	"sync/atomic"
	"time"

	"github.com/arloliu/go-secs/v2/hsms"
	"github.com/arloliu/go-secs/v2/hsmsss"
	"github.com/arloliu/go-secs/v2/logger"
	"github.com/arloliu/go-secs/v2/secs2"
)

type lwSpec struct {
	Name       string        `json:"name"`
	HoldAt     string        `json:"hold_at"`     // prefix | body: where the generation-N writer is parked inside the transport write
	OldKind    string        `json:"old_kind"`    // s: SendDataMessage W-bit | f: W clear | fw: ForwardDataMessage (caller-built message)
	Blocked    int           `json:"blocked"`     // further senders of generation N queued on its write lock behind the parked one
	LongStale  bool          `json:"long_stale"`  // the generation-N messages carry a longer body than the fresh ones (their length field differs)
	Gens       int           `json:"gens"`        // generations dropped while the writer is parked (1: N -> N+1, 2: N -> N+2)
	Fresh      int           `json:"fresh"`       // sends on the new generation (the first one is the one caught mid-write when Window)
	FreshKind  string        `json:"fresh_kind"`  // s | f | a (the async sender goroutine does the write) | fw
	Window     bool          `json:"window"`      // slow reader: the generation-N senders are released while the first fresh frame is mid-write
	Consumed   int           `json:"consumed"`    // Window: bytes of the 14-byte prefix the transport had consumed when the reader paused
	HoldSelect bool          `json:"hold_select"` // the generation-N senders are released while the new generation's Select.req is being written (NotSelected)
	T3         time.Duration `json:"t3"`
	Bound      time.Duration `json:"bound"` // "promptly": release -> return of a generation-N sender
	Dwell      time.Duration `json:"dwell"` // how long the new generation is watched after the generation-N senders returned
	Seed       uint64        `json:"seed"`
}

// ---- the harness-owned socket

type lwConn struct {
	net.Conn
	gen      int
	run      *lwRun
	mu       sync.Mutex
	sent     []byte // every byte handed to the pipe, in order
	holdNext bool   // generation N, HoldAt=body: the prefix went through, park the next write
}

func (w *lwConn) forward(part []byte) (int, error) {
	if len(part) == 0 {
		return 0, nil
	}
	cp := append([]byte(nil), part...) // the transport takes the caller's bytes NOW
	n, err := w.Conn.Write(cp)
	w.mu.Lock()
	w.sent = append(w.sent, cp[:n]...)
	w.mu.Unlock()
	return n, err
}

func (w *lwConn) Write(b []byte) (int, error) {
	r := w.run
	dataPrefix := len(b) == 14 && b[8] == 0 && b[9] == 0 && binary.BigEndian.Uint32(b[:4]) > 10
	if w.gen == 0 {
		park := false
		w.mu.Lock()
		switch {
		case w.holdNext:
			w.holdNext, park = false, true
		case dataPrefix && r.sp.HoldAt == "body" && r.armOld.CompareAndSwap(true, false):
			w.holdNext = true
		case dataPrefix && r.armOld.CompareAndSwap(true, false):
			park = true
		}
		w.mu.Unlock()
		if park {
			close(r.oldParked)
			<-r.releaseOld
		}
		return w.forward(b)
	}
	if len(b) == 14 && b[8] == 0 && b[9] == byte(hsms.SelectReqType) && r.armSel.CompareAndSwap(true, false) {
		close(r.selHeld)
		<-r.selGo
		return w.forward(b)
	}
	if dataPrefix && r.armNew.CompareAndSwap(true, false) {
		k := min(max(r.sp.Consumed, 0), 13)
		n, err := w.forward(b[:k])
		if err != nil {
			return n, err
		}
		close(r.inWindow)
		<-r.proceed
		m, err := w.forward(b[k:])
		return n + m, err
	}
	return w.forward(b)
}

func (w *lwConn) stream() []byte {
	w.mu.Lock()
	defer w.mu.Unlock()
	return append([]byte(nil), w.sent...)
}

// ---- the recording logger (hsms.WithTraceTraffic)

type lwLogger struct {
	rNopLogger
	mu     sync.Mutex
	traced [][]byte
}

func (l *lwLogger) With(...any) logger.Logger { return l }
func (l *lwLogger) Level() logger.LogLevel    { return logger.DebugLevel }
func (l *lwLogger) Debug(msg string, kv ...any) {
	if msg != "hsms: trace: sent frame" {
		return
	}
	for k := 0; k+1 < len(kv); k += 2 {
		if key, ok := kv[k].(string); ok && key == "raw" {
			if s, ok := kv[k+1].(string); ok {
				if b, err := hex.DecodeString(s); err == nil && len(b) >= 14 {
					l.mu.Lock()
					l.traced = append(l.traced, b)
					l.mu.Unlock()
				}
			}
		}
	}
}

func (l *lwLogger) frames() [][]byte {
	l.mu.Lock()
	defer l.mu.Unlock()
	return append([][]byte(nil), l.traced...)
}

// ---- the run

type lwNote struct {
	Prev, Next hsms.ConnState
	At         time.Time
}

type lwRun struct {
	sp         lwSpec
	peer       *rPeer
	mu         sync.Mutex
	conns      []*lwConn
	notes      []lwNote
	armOld     atomic.Bool
	oldParked  chan struct{}
	releaseOld chan struct{}
	armNew     atomic.Bool
	inWindow   chan struct{}
	proceed    chan struct{}
	armSel     atomic.Bool
	selHeld    chan struct{}
	selGo      chan struct{}
}

func (r *lwRun) dial(ctx context.Context, network, addr string) (net.Conn, error) {
	c, err := r.peer.dial(ctx, network, addr)
	if err != nil {
		return nil, err
	}
	r.mu.Lock()
	w := &lwConn{Conn: c, gen: len(r.conns), run: r}
	r.conns = append(r.conns, w)
	r.mu.Unlock()
	return w, nil
}

func (r *lwRun) conn(i int) *lwConn {
	r.mu.Lock()
	defer r.mu.Unlock()
	if i < 0 || i >= len(r.conns) {
		return nil
	}
	return r.conns[i]
}

func (r *lwRun) notifications() []lwNote {
	r.mu.Lock()
	defer r.mu.Unlock()
	return append([]lwNote(nil), r.notes...)
}

func lwNotesStr(ns []lwNote) string {
	var p []string
	for _, n := range ns {
		p = append(p, fmt.Sprintf("%v>%v", n.Prev, n.Next))
	}
	return "[" + strings.Join(p, " ") + "]"
}

// lwNewConn is rNewConn with the harness-owned dialer (same timers).
func lwNewConn(r *lwRun, lg logger.Logger, t3 time.Duration) (hsmsss.Connection, error) {
	copt := func(op hsms.ConnOption) hsmsss.Option { return hsmsss.WithConnectionOption(op) }
	cfg, err := hsmsss.NewConfig("127.0.0.1", 5000, hsmsss.WithActive(), hsmsss.WithDialer(r.dial),
		copt(hsms.WithT3(t3)), copt(hsms.WithT6(t3)), copt(hsms.WithT5(50*time.Millisecond)), copt(hsms.WithT7(10*time.Second)),
		copt(hsms.WithT8(5*time.Second)), copt(hsms.WithLinktestInterval(0)), copt(hsms.WithCloseTimeout(3*time.Second)),
		copt(hsms.WithWriteTimeout(20*time.Second)), copt(hsms.WithReconnectBackoff(5*time.Millisecond, 1.5)),
		copt(hsms.WithSenderQueueSize(64)), copt(hsms.WithLogger(lg)), copt(hsms.WithTraceTraffic(true)))
	if err != nil {
		return nil, err
	}
	return hsmsss.New(cfg)
}

type lwCall struct {
	rCallResult
	Role  string `json:"role"`
	SB    uint32 `json:"own_sb,omitempty"` // fw: the system bytes the caller chose
	AfRel string `json:"returned_after_release,omitempty"`
}

// lwBytesOracle compares, per generation, the byte stream the transport consumed with the frames the library reports as sent.
// live: index of the generation that is healthy at the time of the comparison (its stream must hold nothing else), -1 none.
func lwBytesOracle(traced [][]byte, streams [][]byte, live int, staleSB map[uint32]bool) (fails []c09StaleFail, perGen []int) {
	var per [][][]byte
	nSel := 0
	for _, f := range traced {
		if f[8] == 0 && f[9] == byte(hsms.SelectReqType) {
			nSel++
		}
	}
	if nSel != len(streams) {
		// a generation whose Select.req never got through: the trace lines cannot be attributed to generations by their
		// order (that history is reported by the other oracles)
		return nil, nil
	}
	for _, f := range traced {
		if f[8] == 0 && f[9] == byte(hsms.SelectReqType) {
			per = append(per, nil)
		}
		if len(per) == 0 {
			continue
		}
		per[len(per)-1] = append(per[len(per)-1], f)
	}
	for g, st := range streams {
		var want [][]byte
		if g < len(per) {
			want = per[g]
		}
		perGen = append(perGen, len(want))
		off := 0
		bad := false
		for k, f := range want {
			end := min(off+len(f), len(st))
			got := st[off:end]
			if string(got) != string(f) {
				bad = true
				what := "wire-bytes-differ-from-message-sent"
				extra := ""
				if len(got) >= 14 {
					sb := binary.BigEndian.Uint32(got[10:14])
					if g > 0 && staleSB[sb] {
						what = "stale-frame-bytes-on-later-generation"
						extra = fmt.Sprintf(": the header on the wire carries system bytes %d (S%dF%d W=%v, length field %d) — those of a message accepted for sending on generation 0, whose sender was refused with an error",
							sb, got[6]&0x7f, got[7], got[6]&0x80 != 0, binary.BigEndian.Uint32(got[:4]))
					} else if g > 0 && string(got[14:]) == string(f[min(14, len(f)):]) {
						what = "stale-frame-bytes-on-later-generation"
						extra = ": the body is the message's own, the 14-byte length/header prefix is not"
					}
				}
				fails = append(fails, c09StaleFail{what, fmt.Sprintf("generation %d, frame %d: the library reports %s as sent, the transport consumed %s%s",
					g, k, hex.EncodeToString(f), hex.EncodeToString(got), extra)})
				break
			}
			off = end
		}
		if !bad && g == live && off < len(st) {
			fails = append(fails, c09StaleFail{"wire-bytes-differ-from-message-sent", fmt.Sprintf("generation %d: %d byte(s) %s were transmitted after the last message the library reports as sent",
				g, len(st)-off, hex.EncodeToString(st[off:min(len(st), off+40)]))})
		}
	}
	return fails, perGen
}

var c09lwUnjudged atomic.Int64

// lwRunOnce runs one scenario. staged != "": it could not be set up (no verdict).
func lwRunOnce(sp lwSpec) (fails []c09StaleFail, replay map[string]any, staged string) {
	r := &lwRun{sp: sp, peer: newRPeer(), oldParked: make(chan struct{}), releaseOld: make(chan struct{}), inWindow: make(chan struct{}),
		proceed: make(chan struct{}), selHeld: make(chan struct{}), selGo: make(chan struct{})}
	replay = map[string]any{"family": "stale-sender-passes-the-transport-boundary-after-reconnect", "spec": sp}
	lg := &lwLogger{}
	conn, err := lwNewConn(r, lg, sp.T3)
	if err != nil {
		return nil, replay, "config: " + err.Error()
	}
	core := rCore(conn)
	conn.AddConnStateChangeHandler(func(prev, next hsms.ConnState) {
		r.mu.Lock()
		r.notes = append(r.notes, lwNote{prev, next, time.Now()})
		r.mu.Unlock()
	})
	nStale := 1 + sp.Blocked
	n := 1 + nStale + sp.Fresh // call 0: a warm-up transaction on generation 0
	calls := make([]lwCall, n)
	// the peer answers every complete W-bit primary it reads (the warm-up and the fresh ones)
	var pwg sync.WaitGroup
	r.peer.onFrame = func(g *rGen, f rFrame) {
		if !f.IsData() || !f.W() {
			return
		}
		pwg.Add(1)
		go func() {
			defer pwg.Done()
			r.peer.sendData(g, f.Stream(), f.Fn()+1, false, f.SB, f.Session)
		}()
	}
	var relOnce, goOnce, selOnce sync.Once
	release := func() { relOnce.Do(func() { close(r.releaseOld) }) }
	proceed := func() { goOnce.Do(func() { close(r.proceed) }) }
	selGo := func() { selOnce.Do(func() { close(r.selGo) }) }
	var wg sync.WaitGroup
	cleanup := func() {
		release()
		proceed()
		selGo()
		_ = conn.Close()
		r.peer.closeAll()
		pwg.Wait()
		fin := make(chan struct{})
		go func() { wg.Wait(); close(fin) }()
		select {
		case <-fin:
		case <-time.After(sp.T3 + 10*time.Second):
		}
	}
	octx, ocancel := context.WithTimeout(context.Background(), 10*time.Second)
	err = conn.Open(octx, hsms.OpenWaitSelected)
	ocancel()
	if err != nil {
		cleanup()
		return nil, replay, "open: " + err.Error()
	}
	sess := conn.SessionID()
	var sbCtr atomic.Uint32
	sbCtr.Store(0x6c770000)
	var cmu sync.Mutex
	doCall := func(i int, kind, role string, long bool) {
		defer wg.Done()
		res := lwCall{Role: role}
		res.Idx, res.Kind = i, kind
		cmu.Lock()
		calls[i] = res // who the call is, should it never return
		cmu.Unlock()
		var item secs2.Item = secs2.NewUintItem(4, uint32(i))
		if long {
			item = secs2.NewUintItem(4, uint32(i), 0xAAAAAAAA, 0xBBBBBBBB, 0xCCCCCCCC)
		}
		stream, fn := byte(10+i%100), byte(1+2*(i%100))
		res.StartT, res.Start = time.Now(), rStamp()
		switch kind {
		case "s", "f":
			reply, err := conn.SendDataMessage(context.Background(), stream, fn, kind == "s", item)
			res.End, res.EndT = rStamp(), time.Now()
			rClassify(reply, err, &res.rCallResult)
		case "a":
			err := conn.SendDataMessageAsync(context.Background(), stream, fn, false, item)
			res.End, res.EndT = rStamp(), time.Now()
			rClassify(nil, err, &res.rCallResult)
		case "fw":
			sb := sbCtr.Add(1)
			res.SB = sb
			var sba [4]byte
			binary.BigEndian.PutUint32(sba[:], sb)
			msg, err := hsms.NewDataMessage(stream, fn, false, sess, sba, item)
			if err == nil {
				err = conn.ForwardDataMessage(context.Background(), msg)
			}
			res.End, res.EndT = rStamp(), time.Now()
			rClassify(nil, err, &res.rCallResult)
		}
		if res.Outcome == "nilnil" {
			res.Outcome = "sent"
		}
		cmu.Lock()
		calls[i] = res
		cmu.Unlock()
	}
	returned := func(from, to int) bool {
		cmu.Lock()
		defer cmu.Unlock()
		for i := from; i < to; i++ {
			if calls[i].End == 0 {
				return false
			}
		}
		return true
	}
	fail := func(what, format string, a ...any) {
		fails = append(fails, c09StaleFail{what, fmt.Sprintf(format, a...)})
	}

	// ---- generation 0: a warm-up transaction, then the wedged writer and the senders queued behind it
	wg.Add(1)
	go doCall(0, "s", "warm-up on generation 0", false)
	if !c09WaitFor(func() bool { return returned(0, 1) }, 10*time.Second) {
		cleanup()
		return nil, replay, "the warm-up transaction did not return"
	}
	if calls[0].Outcome != "reply" {
		cleanup()
		return nil, replay, "the warm-up transaction returned " + calls[0].Outcome + " " + calls[0].Err
	}
	r.armOld.Store(true)
	wg.Add(1)
	go doCall(1, sp.OldKind, "parked inside generation 0's transport write ("+sp.HoldAt+")", sp.LongStale)
	select {
	case <-r.oldParked:
	case <-time.After(10 * time.Second):
		cleanup()
		return nil, replay, "the generation-0 writer never reached the transport write"
	}
	wantReg := 0
	if sp.OldKind == "s" {
		wantReg++
	}
	for k := 0; k < sp.Blocked; k++ {
		kind := []string{"s", "f", "s", "fw"}[k%4]
		if kind == "s" {
			wantReg++
		}
		wg.Add(1)
		go doCall(2+k, kind, "queued on generation 0's write lock", sp.LongStale)
	}
	staleSB := map[uint32]bool{}
	if sp.Blocked > 0 {
		c09WaitFor(func() bool { st, ok := hsms.VerifRouterSnapshot(core); return !ok || st.RegistrySize >= wantReg }, 3*time.Second)
		time.Sleep(5 * time.Millisecond) // the W-clear senders register nothing: give them time to reach the lock
	}
	if st, ok := hsms.VerifRouterSnapshot(core); ok {
		for _, k := range st.RegistryKeys {
			staleSB[k] = true
		}
		replay["generation_0_registered_system_bytes"] = st.RegistryKeys
	}
	if c0 := r.conn(0); c0 != nil && sp.HoldAt == "body" {
		// the parked writer's own prefix is on generation 0's wire: its system bytes are those of a generation-0 message
		if st := c0.stream(); len(st) >= 14 {
			staleSB[binary.BigEndian.Uint32(st[len(st)-4:])] = true
		}
	}

	// ---- the peer drops the generation (Gens times); the last reconnect may be caught while its Select.req is written
	for k := 0; k < max(sp.Gens, 1); k++ {
		lastDrop := k == max(sp.Gens, 1)-1
		if lastDrop && sp.HoldSelect {
			r.armSel.Store(true)
		}
		gk := r.peer.last()
		gk.closeGen()
		if lastDrop && sp.HoldSelect {
			select {
			case <-r.selHeld:
			case <-time.After(10 * time.Second):
				cleanup()
				return nil, replay, "the new generation's Select.req never reached the transport"
			}
			break
		}
		ok := c09WaitFor(func() bool {
			g := r.peer.last()
			if g == nil || g.id <= gk.id {
				return false
			}
			select {
			case <-g.selected:
				return conn.State() == hsms.SelectedState
			default:
				return false
			}
		}, 10*time.Second)
		if !ok {
			cleanup()
			return nil, replay, "no later generation was selected within 10 s"
		}
		c09WaitFor(func() bool { return conn.Metrics().Reconnecting() == 0 }, 2*time.Second)
	}
	newGen := r.peer.numGens() - 1
	replay["new_generation"] = newGen
	// the notifier runs behind State(): wait until every notification of the history so far has been delivered — the one
	// of the last drop (… -> NotConnected) and, after it, one that ends in the state the new generation is in (two commits
	// the supervisor sees at once are notified as one change, so the notifications are not counted)
	wantState := hsms.SelectedState
	if sp.HoldSelect {
		wantState = hsms.NotSelectedState
	}
	settled := c09WaitFor(func() bool {
		ns := r.notifications()
		downs := 0
		for _, x := range ns {
			if x.Next == hsms.NotConnectedState {
				downs++
			}
		}
		return conn.State() == wantState && downs >= max(sp.Gens, 1) && ns[len(ns)-1].Next == wantState
	}, 5*time.Second)
	if !settled {
		st, ns := conn.State(), r.notifications()
		cleanup()
		return nil, replay, fmt.Sprintf("skip: the history up to the new generation did not settle (state %v, notifications %s)", st, lwNotesStr(ns))
	}
	stableNotes := len(r.notifications())

	// ---- fresh sends on the new generation; the first one is caught mid-write by the slow reader
	freshFrom := 1 + nStale
	if sp.Fresh > 0 && !sp.HoldSelect {
		if sp.Window {
			r.armNew.Store(true)
		}
		wg.Add(1)
		go doCall(freshFrom, sp.FreshKind, "fresh on the new generation (first)", false)
		if sp.Window {
			select {
			case <-r.inWindow:
			case <-time.After(10 * time.Second):
				cleanup()
				return nil, replay, "the first fresh frame never reached the transport"
			}
		}
		for k := 1; k < sp.Fresh; k++ {
			wg.Add(1)
			go doCall(freshFrom+k, []string{"s", "f", "s", "a"}[k%4], "fresh on the new generation", false)
		}
		if sp.Fresh > 1 {
			time.Sleep(2 * time.Millisecond)
		}
	}

	// ---- the senders of generation 0 get through
	relT := time.Now()
	release()
	limit := sp.T3 + sp.Bound + 5*time.Second
	if !c09WaitFor(func() bool { return returned(1, 1+nStale) }, limit) {
		fail("stale-sender-never-returned", "a sender of generation 0 had not returned %v after its transport write was released", limit)
	}
	staleBackT := time.Now()
	proceed()
	if sp.HoldSelect {
		time.Sleep(2 * time.Millisecond)
		midNotes := r.notifications()
		if st := conn.State(); st != hsms.NotSelectedState || len(midNotes) != stableNotes {
			fail("later-generation-disturbed-by-stale-sender", "generation %d was connected and its Select.req was being written when the senders of generation 0 returned; State() = %v, notifications since then %s — a sender of an ended generation must not change the state of a later one",
				newGen, st, lwNotesStr(midNotes[min(stableNotes, len(midNotes)):]))
		}
		selGo()
		ok := c09WaitFor(func() bool {
			g := r.peer.last()
			select {
			case <-g.selected:
				return conn.State() == hsms.SelectedState
			default:
				return false
			}
		}, 10*time.Second)
		if !ok && len(fails) == 0 {
			fail("later-generation-disturbed-by-stale-sender", "generation %d never became Selected after its Select.req was let through (State() = %v, notifications %s)", newGen, conn.State(), lwNotesStr(r.notifications()))
		}
		stableNotes = len(r.notifications())
		if sp.Fresh > 0 {
			for k := 0; k < sp.Fresh; k++ {
				wg.Add(1)
				go doCall(freshFrom+k, []string{"s", "f", "s", "a"}[k%4], "fresh on the new generation", false)
			}
		}
	}
	// fresh sends complete (or the bytes oracle already has a verdict: a corrupted frame can leave the peer waiting)
	streams := func() [][]byte {
		var out [][]byte
		for i := 0; ; i++ {
			w := r.conn(i)
			if w == nil {
				return out
			}
			out = append(out, w.stream())
		}
	}
	c09WaitFor(func() bool {
		if returned(freshFrom, n) {
			return true
		}
		bf, _ := lwBytesOracle(lg.frames(), streams(), -1, staleSB)
		return len(bf) > 0
	}, sp.T3+5*time.Second)

	// ---- the new generation is watched
	deadline := time.Now().Add(sp.Dwell)
	var offState hsms.ConnState
	offSeen := false
	for time.Now().Before(deadline) {
		if st := conn.State(); st != hsms.SelectedState && !offSeen {
			offState, offSeen = st, true
		}
		time.Sleep(200 * time.Microsecond)
	}
	if g := r.peer.last(); g != nil && !g.closed.Load() && g.id == newGen {
		r.peer.barrier(g, 0x7f1c0001, 2*time.Second) // async frames are on the wire
	}
	pwg.Wait()
	tr, sts := lg.frames(), streams()
	live := -1
	notes := r.notifications()
	gens := r.peer.numGens()
	undisturbed := !offSeen && conn.State() == hsms.SelectedState && len(notes) == stableNotes && gens == newGen+1
	if undisturbed && returned(freshFrom, n) {
		live = newGen
	}
	if live >= 0 {
		// a trace line follows its write: let the log catch up with the wire before the last byte is accounted for
		c09WaitFor(func() bool { b, _ := lwBytesOracle(lg.frames(), streams(), live, staleSB); return len(b) == 0 }, 2*time.Second)
		tr, sts = lg.frames(), streams()
	}
	bf, perGen := lwBytesOracle(tr, sts, live, staleSB)
	fails = append(fails, bf...)
	if !undisturbed {
		fail("later-generation-disturbed-by-stale-sender", "generation %d was Selected with a healthy peer when the senders of generation 0 returned (their write failed / was refused); since then: State() %s, notifications %s, dials %d (expected %d) — "+
			"a write error of an ended generation was acted upon as an event of the current one",
			newGen, map[bool]string{true: "left Selected (" + offState.String() + ")", false: "stayed Selected"}[offSeen || conn.State() != hsms.SelectedState],
			lwNotesStr(notes[min(stableNotes, len(notes)):]), gens, newGen+1)
	}
	cmu.Lock()
	for i := 1; i < n; i++ {
		cl := &calls[i]
		if i <= nStale {
			if cl.End == 0 {
				continue
			}
			l := cl.EndT.Sub(relT)
			cl.AfRel = l.Round(10 * time.Microsecond).String()
			ok := cl.Outcome == "closed" || (i == 1 && cl.Outcome == "writeerr")
			if i > 1 && cl.Kind != "s" && (cl.Outcome == "notselected" || cl.Outcome == "sent") {
				// a queued sender WITHOUT W-bit registers nothing, so the harness has no evidence that it had pinned
				// generation 0 before the drop (on a loaded machine it may have started late and met the closed /
				// the new generation): not judged
				c09lwUnjudged.Add(1)
				continue
			}
			if !ok {
				fail("stale-sender-outcome", "call %d (%s, %s) returned %s (%s); its generation had ended before its write could take place: an error (connection closed) expected", i, cl.Kind, cl.Role, cl.Outcome, cl.Err)
			}
			if l > sp.Bound {
				fail("stale-sender-not-released-promptly", "call %d (%s, %s) returned %s %v after its transport write was released (bound %v)", i, cl.Kind, cl.Role, cl.Outcome, l.Round(time.Millisecond), sp.Bound)
			}
			continue
		}
		want := map[string]string{"s": "reply", "f": "sent", "a": "sent", "fw": "sent"}[cl.Kind]
		if cl.End == 0 {
			fail("fresh-send-failed-on-later-generation", "call %d (%s, %s) had not returned %v after the senders of generation 0 did", i, cl.Kind, cl.Role, time.Since(staleBackT).Round(time.Millisecond))
		} else if cl.Outcome != want {
			fail("fresh-send-failed-on-later-generation", "call %d (%s, %s) on the healthy generation %d returned %s (%s), expected %s", i, cl.Kind, cl.Role, newGen, cl.Outcome, cl.Err, want)
		}
	}
	replay["calls"] = append([]lwCall(nil), calls...)
	cmu.Unlock()
	var hx []string
	for g, st := range sts {
		hx = append(hx, fmt.Sprintf("gen%d consumed %s", g, clip(hex.EncodeToString(st), 400)))
	}
	replay["transport_streams"] = hx
	var th []string
	for _, f := range tr {
		th = append(th, hex.EncodeToString(f))
	}
	replay["library_reports_sent"] = th
	replay["frames_per_generation"] = perGen
	replay["notifications"] = lwNotesStr(notes)
	replay["dials"] = gens
	cleanup()
	return fails, replay, ""
}

// lwScaled runs a scenario; on a failure it is run again with every timer scaled (a loaded machine) and reported only if it fails again.
func lwScaled(sp lwSpec) (fails []c09StaleFail, replay map[string]any, staged string, retried bool) {
	for attempt, scale := range []time.Duration{1, 3} {
		spx := sp
		spx.T3, spx.Bound, spx.Dwell = sp.T3*scale, sp.Bound*scale, sp.Dwell*scale
		fails, replay, staged = lwRunOnce(spx)
		if staged != "" || len(fails) == 0 {
			break
		}
		if attempt == 0 {
			retried = true
		}
	}
	return
}

func c09SlowReaderSpecs(c *Ctx) []lwSpec {
	t3, bound, dwell := 4*time.Second, 1500*time.Millisecond, 60*time.Millisecond
	mk := func(name, holdAt, oldKind string, blocked int, long bool, gens, fresh int, freshKind string, consumed int) lwSpec {
		return lwSpec{Name: name, HoldAt: holdAt, OldKind: oldKind, Blocked: blocked, LongStale: long, Gens: gens, Fresh: fresh, FreshKind: freshKind,
			Window: true, Consumed: consumed, T3: t3, Bound: bound, Dwell: dwell, Seed: c.Rng.Uint64()}
	}
	specs := []lwSpec{
		mk("slow-reader-0-of-14", "prefix", "s", 2, false, 1, 2, "s", 0),
		mk("slow-reader-4-of-14", "body", "s", 1, false, 1, 1, "s", 4),
		mk("slow-reader-13-of-14-async", "prefix", "f", 3, false, 1, 3, "a", 13),
		mk("slow-reader-9-of-14-long-stale", "prefix", "s", 2, true, 1, 1, "f", 9),
		mk("slow-reader-twice-replaced", "prefix", "s", 2, false, 2, 2, "s", 6),
	}
	if c.Thorough() {
		for k := 0; k < 14; k++ {
			r := c.Rng
			specs = append(specs, mk(fmt.Sprintf("slow-reader-random-%d", k), []string{"prefix", "body"}[r.IntN(2)], []string{"s", "f", "fw"}[r.IntN(3)],
				r.IntN(6), r.IntN(3) == 0, 1+r.IntN(2), 1+r.IntN(4), []string{"s", "f", "a", "fw"}[r.IntN(4)], r.IntN(14)))
		}
	}
	return specs
}

// c09SlowReader runs the family for C09.
func c09SlowReader(c *Ctx) {
	for _, sp := range c09SlowReaderSpecs(c) {
		if routerStop(c) {
			return
		}
		if lwReport(c, "slowreader/", sp) {
			return // one failing history is enough (each one costs the scaled re-run)
		}
	}
}

func lwReport(c *Ctx, prefix string, sp lwSpec) (failed bool) {
	t0 := time.Now()
	defer func() { c.StatN("latewrite-wall-ms", int(time.Since(t0).Milliseconds())) }()
	fails, replay, staged, retried := lwScaled(sp)
	if retried {
		c.Stat("latewrite-retried-with-scaled-timers")
	}
	if strings.HasPrefix(staged, "skip:") {
		c.Stat("latewrite-skipped:" + sp.Name)
		c.Note("%s%s: %s", prefix, sp.Name, staged)
		return false
	}
	if staged != "" {
		c.Violate("correspondence", "scenario-did-not-start", prefix+sp.Name+": "+staged, replay)
		return true
	}
	for _, f := range fails {
		c.Violate("property", f.what, prefix+sp.Name+": "+f.detail, replay)
	}
	c.Count(fmt.Sprintf("latewrite|%s|%s|%s|%d|%v|%d|%d|%s|%v|%d|%v", prefix, sp.HoldAt, sp.OldKind, sp.Blocked, sp.LongStale, sp.Gens, sp.Fresh, sp.FreshKind, sp.Window, sp.Consumed, sp.HoldSelect), true)
	c.Stat("scenario:stale-sender-passes-transport-boundary-after-reconnect")
	if u := c09lwUnjudged.Swap(0); u > 0 {
		c.StatN("latewrite-queued-nowbit-sender-started-late-not-judged", int(u))
	}
	if cl, ok := replay["calls"].([]lwCall); ok {
		for _, x := range cl {
			c.Stat("latewrite-outcome:" + x.Outcome)
		}
	}
	if len(c.Res.Samples) < 5 {
		c.Sample(map[string]any{"scenario": prefix + sp.Name, "calls": replay["calls"], "notifications": replay["notifications"], "dials": replay["dials"],
			"frames_per_generation": replay["frames_per_generation"]})
	}
	return len(fails) > 0
}
