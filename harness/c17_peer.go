package main

// C17 scripted-peer mode: the harness is an independent SEMI E4 peer speaking raw ENQ/EOT/ACK/NAK and
// block bytes over net.Pipe to a REAL secs1 connection (public API: secs1.New + WithDialer / WithListener),
// in both roles. Outbound: every block the connection puts on the line is checked against the E4 layout
// oracle and the Lean model's `secs1.split`. Inbound: a scripted block sequence (valid, duplicate, wrong
// device, wrong direction, out of sequence, corrupt) is sent; the handler deliveries are compared with the
// E4 reference receiver (Spec/E4Receive via `secs1.spec`) and the link must stay Selected.

import (
	"bytes"
	"context"
	"encoding/hex"
	"errors"
	"fmt"
	"net"
	"strings"
	"sync"
	"time"

	"github.com/arloliu/go-secs/v2/hsms"
	"github.com/arloliu/go-secs/v2/secs1"
	"github.com/arloliu/go-secs/v2/secs2"
)

// ---- an in-memory listener for the passive role

type s1PipeListener struct {
	ch     chan net.Conn
	closed chan struct{}
	once   sync.Once
}

func newS1PipeListener() *s1PipeListener {
	return &s1PipeListener{ch: make(chan net.Conn, 4), closed: make(chan struct{})}
}

func (l *s1PipeListener) Accept() (net.Conn, error) {
	select {
	case c := <-l.ch:
		return c, nil
	case <-l.closed:
		return nil, net.ErrClosed
	}
}
func (l *s1PipeListener) Close() error   { l.once.Do(func() { close(l.closed) }); return nil }
func (l *s1PipeListener) Addr() net.Addr { return &net.TCPAddr{IP: net.IPv4(127, 0, 0, 1), Port: 5000} }

// ---- the raw E4 peer

type s1RawPeer struct {
	conn     net.Conn
	in       chan byte
	master   bool // the peer is the master (equipment) iff the connection under test is the host
	t1, t2   time.Duration
	mu       sync.Mutex
	received [][]byte // wire blocks received intact from the connection (ACKed)
	lineLog  []string
	// bad: transmissions of the connection that failed the peer's own E4 check (length, checksum) and were NAKed
	bad [][]byte
	// garbage > 0 (master peer only): the next ENQ of the connection is answered with a contending ENQ; after the
	// connection yields (EOT) the peer sends a transmission the connection must refuse and drain — an illegal length
	// byte followed by more bytes, or a bad-checksum block with trailing bytes — and waits for the NAK. The
	// connection then retries its OWN block, which must still be the well-formed block of its message (after seeded
	// change C17d-2: retry bytes kept in a scratch buffer the drain overwrote).
	garbage int
}

func newS1RawPeer(conn net.Conn, master bool) *s1RawPeer {
	p := &s1RawPeer{conn: conn, in: make(chan byte, 1<<16), master: master, t1: 2 * time.Second, t2: 5 * time.Second}
	go func() {
		buf := make([]byte, 512)
		for {
			n, err := conn.Read(buf)
			for _, b := range buf[:n] {
				p.in <- b
			}
			if err != nil {
				close(p.in)
				return
			}
		}
	}()
	return p
}

func (p *s1RawPeer) logf(format string, a ...any) {
	p.mu.Lock()
	if len(p.lineLog) < 4000 {
		p.lineLog = append(p.lineLog, fmt.Sprintf(format, a...))
	}
	p.mu.Unlock()
}

func (p *s1RawPeer) readByte(d time.Duration) (byte, bool) {
	select {
	case b, ok := <-p.in:
		return b, ok
	case <-time.After(d):
		return 0, false
	}
}

func (p *s1RawPeer) write(b ...byte) error {
	_ = p.conn.SetWriteDeadline(time.Now().Add(10 * time.Second))
	_, err := p.conn.Write(b)
	return err
}

// grantAndReceive is called after an ENQ from the connection was read: EOT, read the block, ACK/NAK.
func (p *s1RawPeer) grantAndReceive() ([]byte, bool) {
	if p.write(0x04) != nil {
		return nil, false
	}
	lb, ok := p.readByte(p.t2)
	if !ok {
		p.logf("peer: T2 waiting for length byte")
		_ = p.write(0x15)
		return nil, false
	}
	w := []byte{lb}
	for i := 0; i < int(lb)+2; i++ {
		b, ok := p.readByte(p.t1)
		if !ok {
			p.logf("peer: T1 inside block")
			_ = p.write(0x15)
			return w, false
		}
		w = append(w, b)
	}
	good := lb >= 10 && lb <= 254
	if good {
		cs := e4Sum(w[1 : len(w)-2])
		good = w[len(w)-2] == byte(cs>>8) && w[len(w)-1] == byte(cs)
	}
	if !good {
		p.logf("peer: bad block from connection %x", w)
		p.mu.Lock()
		p.bad = append(p.bad, append([]byte(nil), w...))
		p.mu.Unlock()
		_ = p.write(0x15)
		return w, false
	}
	_ = p.write(0x06)
	p.mu.Lock()
	p.received = append(p.received, w)
	p.mu.Unlock()
	p.logf("peer: <- block %x… (%d bytes) ACK", w[1:11], len(w))
	return w, true
}

// sendWire performs one E4 send attempt sequence of a wire block: ENQ, wait for EOT (yielding to the
// connection when the peer is the slave, ignoring ENQ when it is the master), the block, then the answer
// character. It returns the connection's answer (ACK/NAK) or 0 on a timeout.
func (p *s1RawPeer) sendWire(w []byte) byte {
	for attempt := 0; attempt < 8; attempt++ {
		if p.write(0x05) != nil {
			return 0
		}
		granted := false
		deadline := time.Now().Add(p.t2)
		for !granted && time.Now().Before(deadline) {
			b, ok := p.readByte(time.Until(deadline))
			if !ok {
				break
			}
			switch {
			case b == 0x04:
				granted = true
			case b == 0x05 && !p.master:
				// contention: the connection (master) insists; yield, take its block, then start over
				p.logf("peer: contention, yielding")
				p.grantAndReceive()
				deadline = time.Now() // leave the wait loop and re-ENQ
			}
		}
		if !granted {
			continue
		}
		if p.write(w...) != nil {
			return 0
		}
		// the connection answers after validating (a bad block is answered only after T1 of silence)
		for {
			b, ok := p.readByte(p.t2)
			if !ok {
				return 0
			}
			if b == 0x06 || b == 0x15 {
				p.logf("peer: -> block %x… answer %02x", w[1:min(11, len(w))], b)
				return b
			}
			if b == 0x05 {
				// the connection already wants the line for its own send; a master peer ignores it here and
				// the connection will re-ENQ after its T2, a slave peer notes it and lets the next idle loop answer
				p.logf("peer: stray ENQ while waiting for the answer")
				continue
			}
		}
	}
	return 0
}

// serveUntil answers the connection's ENQs (receiving its blocks) until stop() is true or the deadline passes.
func (p *s1RawPeer) serveUntil(stop func() bool, d time.Duration) {
	deadline := time.Now().Add(d)
	for time.Now().Before(deadline) {
		if stop() {
			return
		}
		b, ok := p.readByte(5 * time.Millisecond)
		if !ok {
			continue
		}
		if b == 0x05 {
			if p.master && p.garbage > 0 {
				p.garbage--
				p.contendWithGarbage()
				continue
			}
			p.grantAndReceive()
		}
	}
}

// contendWithGarbage: see the field `garbage`.
func (p *s1RawPeer) contendWithGarbage() {
	if p.write(0x05) != nil {
		return
	}
	// the connection (slave) must yield with EOT
	deadline := time.Now().Add(p.t2)
	for time.Now().Before(deadline) {
		b, ok := p.readByte(time.Until(deadline))
		if !ok {
			p.logf("peer: contention: the connection did not yield")
			return
		}
		if b == 0x04 {
			break
		}
	}
	junk := append([]byte{0xFF}, bytes.Repeat([]byte{0xEE}, 40)...) // illegal length byte, then more bytes to drain
	if p.garbage%2 == 1 {
		junk = append([]byte{0x0A, 1, 2, 3, 4, 5, 6, 7, 8, 9, 10, 0xDE, 0xAD}, bytes.Repeat([]byte{0xEE}, 30)...) // bad checksum + trailing bytes
	}
	_ = p.write(junk...)
	for {
		b, ok := p.readByte(p.t2)
		if !ok || b == 0x15 || b == 0x06 {
			p.logf("peer: contention garbage answered %02x", b)
			return
		}
	}
}

func (p *s1RawPeer) takeReceived() [][]byte {
	p.mu.Lock()
	defer p.mu.Unlock()
	r := p.received
	p.received = nil
	return r
}

// ---- the connection under test

type s1Delivery struct {
	frame []byte // HSMS-style image: header(10) + body
}

type s1Endpoint struct {
	conn    secs1.Connection
	peer    *s1RawPeer
	isEquip bool
	dev     uint16
	mu      sync.Mutex
	deliv   []s1Delivery
}

func (e *s1Endpoint) deliveries() []s1Delivery {
	e.mu.Lock()
	defer e.mu.Unlock()
	return append([]s1Delivery(nil), e.deliv...)
}

func newS1Endpoint(isEquip, active bool, dev uint16) (*s1Endpoint, error) {
	a, b := net.Pipe()
	opts := []secs1.Option{secs1.WithDeviceID(dev), secs1.WithT1(150 * time.Millisecond), secs1.WithT2(3 * time.Second), secs1.WithT4(30 * time.Second),
		secs1.WithRetryLimit(3), secs1.WithConnectionOption(hsms.WithT3(8 * time.Second))}
	if isEquip {
		opts = append(opts, secs1.WithEquipment())
	} else {
		opts = append(opts, secs1.WithHost())
	}
	var ln *s1PipeListener
	if active {
		used := false
		opts = append(opts, secs1.WithActive(), secs1.WithDialer(func(ctx context.Context, _, _ string) (net.Conn, error) {
			if used {
				<-ctx.Done() // no second generation in this harness
				return nil, ctx.Err()
			}
			used = true
			return a, nil
		}))
	} else {
		ln = newS1PipeListener()
		ln.ch <- a
		first := true
		opts = append(opts, secs1.WithPassive(), secs1.WithListener(func(ctx context.Context, _, _ string) (net.Listener, error) {
			if !first {
				return newS1PipeListener(), nil
			}
			first = false
			return ln, nil
		}))
	}
	cfg, err := secs1.NewConfig("127.0.0.1", 5000, opts...)
	if err != nil {
		return nil, err
	}
	conn, err := secs1.New(cfg)
	if err != nil {
		return nil, err
	}
	e := &s1Endpoint{conn: conn, isEquip: isEquip, dev: dev}
	conn.AddDataMessageHandler(func(msg *hsms.DataMessage, _ hsms.SECS2Endpoint) {
		h := msg.HeaderBytes()
		f := append([]byte(nil), h[:]...)
		f = msg.AppendBodyTo(f)
		e.mu.Lock()
		e.deliv = append(e.deliv, s1Delivery{f})
		e.mu.Unlock()
	})
	e.peer = newS1RawPeer(b, !isEquip)
	ctx, cancel := context.WithTimeout(context.Background(), 10*time.Second)
	defer cancel()
	mode := hsms.OpenWaitSelected
	if !active {
		mode = hsms.OpenBackground
	}
	if err := conn.Open(ctx, mode); err != nil {
		return nil, fmt.Errorf("open: %w", err)
	}
	for i := 0; i < 2000 && conn.State() != hsms.SelectedState; i++ {
		time.Sleep(5 * time.Millisecond)
	}
	if conn.State() != hsms.SelectedState {
		return nil, errors.New("connection did not reach Selected")
	}
	return e, nil
}

func (e *s1Endpoint) close() {
	done := make(chan struct{})
	go func() { _ = e.conn.Close(); close(done) }()
	e.peer.serveUntil(func() bool {
		select {
		case <-done:
			return true
		default:
			return false
		}
	}, 15*time.Second)
	_ = e.peer.conn.Close()
}

// encodedBodyItem returns an item whose SECS-II encoding is exactly n bytes (nil item for 0), or false.
func encodedBodyItem(n int, fill byte) (secs2.Item, bool) {
	switch {
	case n == 0:
		return nil, true
	case n < 2:
		return nil, false
	case n-2 <= 255:
		return secs2.NewBinaryItem(bytes.Repeat([]byte{fill}, n-2)), true
	case n-3 >= 256 && n-3 <= 65535:
		return secs2.NewBinaryItem(bytes.Repeat([]byte{fill}, n-3)), true
	}
	return nil, false
}

func c17Peer(c *Ctx) {
	type role struct{ isEquip, active bool }
	roles := []role{{false, true}, {true, false}}
	if c.Thorough() {
		roles = append(roles, role{true, true}, role{false, false})
	}
	for _, r := range roles {
		c17PeerRole(c, r.isEquip, r.active)
	}
}

func c17PeerRole(c *Ctx, isEquip, active bool) {
	dev := uint16(0x0123)
	tag := fmt.Sprintf("equip=%v,active=%v", isEquip, active)
	e, err := newS1Endpoint(isEquip, active, dev)
	if err != nil {
		c.Violate("property", "peer-setup", "cannot bring a real secs1 connection up over net.Pipe ("+tag+"): "+err.Error(), map[string]any{"role": tag})
		return
	}
	defer e.close()
	c17PeerOutbound(c, e, tag)
	c17PeerForwardSameHeader(c, e, tag)
	c17PeerInbound(c, e, tag)
	c18RetransmitRole(c, e, tag) // retransmissions incl. block 0, and a slow line with every gap below T1 (c18_retransmit.go)
	if st := e.conn.State(); st != hsms.SelectedState {
		c.Violate("property", "link-taken-down", fmt.Sprintf("connection state %v after the scripted exchange (%s)", st, tag), map[string]any{"role": tag, "line": e.peer.lineLog})
	}
}

// ---- outbound: the connection sends, the peer checks the blocks on the line

func c17PeerOutbound(c *Ctx, e *s1Endpoint, tag string) {
	lens := []int{0, 2, 3, 243, 244, 245, 487, 488, 489, 731, 732, 733, 976, 977, 1220, 1221}
	if !c.Thorough() {
		lens = []int{0, 2, 243, 244, 245, 488, 489, 733, 1220, 1221}
	}
	for i, n := range lens {
		item, ok := encodedBodyItem(n, byte(0x30+i))
		if !ok {
			continue
		}
		stream, fn := byte(1+i%100), byte(1+2*(i%60))
		wbit := i%2 == 0
		var body []byte
		if item != nil {
			body = item.ToBytes()
		}
		replay := map[string]any{"role": tag, "stream": stream, "function": fn, "wbit": wbit, "bodyLen": len(body)}
		type sendRes struct {
			reply *hsms.DataMessage
			err   error
		}
		resCh := make(chan sendRes, 1)
		go func() {
			ctx, cancel := context.WithTimeout(context.Background(), 20*time.Second)
			defer cancel()
			var it secs2.Item = item
			if it == nil {
				it = secs2.NewEmptyItem()
			}
			rep, err := e.conn.SendDataMessage(ctx, stream, fn, wbit, it)
			resCh <- sendRes{rep, err}
		}()
		if e.peer.master && i%3 == 1 {
			e.peer.mu.Lock()
			e.peer.garbage = 1 + i%2
			e.peer.mu.Unlock()
		}
		// receive blocks until the E-bit
		var wires [][]byte
		done := func() bool {
			ws := e.peer.received
			return len(ws) > 0 && ws[len(ws)-1][5]&0x80 != 0
		}
		e.peer.serveUntil(func() bool { e.peer.mu.Lock(); defer e.peer.mu.Unlock(); return done() }, 15*time.Second)
		wires = e.peer.takeReceived()
		c.Count(fmt.Sprintf("peer-out|%s|%d|%v", tag, n, wbit), true)
		c.Stat("peer-out:" + tag)
		c.StatN("peer-out-blocks", len(wires))
		e.peer.mu.Lock()
		badTx := e.peer.bad
		e.peer.bad = nil
		e.peer.mu.Unlock()
		if len(badTx) > 0 {
			c.Violate("property", "peer-block-malformed", fmt.Sprintf("the connection transmitted %d block(s) failing the E4 length / checksum check, first %x", len(badTx), badTx[0][:min(24, len(badTx[0]))]), replay)
		}
		if len(wires) == 0 {
			c.Violate("property", "peer-no-blocks", "the connection put no complete message on the line", replay)
			return
		}
		// E4 oracle on what crossed the line
		var cat []byte
		first := e4Decode([10]byte(wires[0][1:11]))
		for k, w := range wires {
			f := e4Decode([10]byte(w[1:11]))
			bodyk := w[11 : len(w)-2]
			cat = append(cat, bodyk...)
			if len(bodyk) > 244 || int(f.num) != k+1 || f.e != (k == len(wires)-1) || !f.sameMessage(first) ||
				f.dev != e.dev || f.r != e.isEquip || f.stream != stream || f.function != fn || f.w != wbit {
				c.Violate("property", "peer-block-malformed", fmt.Sprintf("block %d on the line %x (body %d bytes) violates E4 for S%dF%d W=%v dev=%#x role=%s", k+1, w[1:11], len(bodyk), stream, fn, wbit, e.dev, tag), replay)
			}
		}
		if !bytes.Equal(cat, body) {
			c.Violate("property", "peer-body-differs", fmt.Sprintf("block bodies on the line (%d bytes) are not the message's SECS-II encoding (%d bytes)", len(cat), len(body)), replay)
		}
		wantN := max(1, (len(body)+243)/244)
		if len(wires) != wantN {
			c.Violate("property", "peer-block-count", fmt.Sprintf("%d blocks on the line for %d body bytes, want %d", len(wires), len(body), wantN), replay)
		}
		if c.Lean != nil {
			h := secs1.VerifHeader{DeviceID: e.dev, RBit: e.isEquip, Stream: stream, Function: fn, WaitBit: wbit, SystemBytes: first.sys}
			a := c.Lean.Ask(fmt.Sprintf("secs1.split %s %s", s1hdrArgs(h), s1hex(body)))
			var sb strings.Builder
			fmt.Fprintf(&sb, "ok %d", len(wires))
			for _, w := range wires {
				sb.WriteByte(' ')
				sb.WriteString(hex.EncodeToString(w))
			}
			if a != sb.String() {
				c.Violate("correspondence", "peer-line-bytes-differ-from-model", fmt.Sprintf("line %s / model %s", s1clip(sb.String(), 200), s1clip(a, 200)), replay)
			}
			c.Res.Traces++
		}
		// reply to a W-bit primary with the same system bytes, as blocks toward the connection
		if wbit {
			rh := secs1.VerifHeader{DeviceID: e.dev, RBit: !e.isEquip, Stream: stream, Function: fn + 1, SystemBytes: first.sys}
			rbody := secs2.NewBinaryItem([]byte{byte(i), 0xa5}).ToBytes()
			blocks, _ := secs1.VerifSplitBody(rbody, rh)
			for _, b := range blocks {
				if a := e.peer.sendWire(secs1.VerifAppendTo(nil, b)); a != 0x06 {
					c.Violate("property", "peer-valid-block-not-acked", fmt.Sprintf("reply block answered %#02x", a), replay)
				}
			}
		}
		select {
		case r := <-resCh:
			if r.err != nil {
				c.Violate("property", "peer-send-failed", "SendDataMessage failed although every block was ACKed: "+r.err.Error(), replay)
			} else if wbit {
				if r.reply == nil || r.reply.Function() != fn+1 || r.reply.SystemBytes() != first.sys {
					c.Violate("property", "peer-reply-mismatch", "the reply returned by SendDataMessage is not the one the peer sent", replay)
				}
			}
		case <-time.After(15 * time.Second):
			c.Violate("property", "peer-send-stuck", "SendDataMessage did not return", replay)
			return
		}
	}
}

// ---- inbound: the peer sends a scripted block sequence

// c17PeerForwardSameHeader: consecutive single-block messages that share stream / function / W-bit AND system bytes
// (a relay using ForwardDataMessage with caller-owned system bytes) and have bodies of the same length but different
// content: each transmitted block must carry ITS message's body (after seeded change C17e-2: a one-entry wire-form
// cache keyed by header and length).
func c17PeerForwardSameHeader(c *Ctx, e *s1Endpoint, tag string) {
	sys := [4]byte{0, 0, 0, 1}
	for k, txt := range []string{"LOT-1001", "LOT-1002", "LOT-1003", "LOT-2004x", "LOT-2005x"} {
		msg, err := hsms.NewDataMessage(2, 41, false, e.dev, sys, secs2.NewASCIIItem(txt))
		if err != nil {
			c.Violate("correspondence", "peer-setup", "NewDataMessage: "+err.Error(), nil)
			return
		}
		done := make(chan error, 1)
		go func() {
			ctx, cancel := context.WithTimeout(context.Background(), 20*time.Second)
			defer cancel()
			done <- e.conn.ForwardDataMessage(ctx, msg)
		}()
		e.peer.serveUntil(func() bool { e.peer.mu.Lock(); defer e.peer.mu.Unlock(); return len(e.peer.received) > 0 }, 15*time.Second)
		wires := e.peer.takeReceived()
		ferr := <-done
		c.Count(fmt.Sprintf("peer-forward|%s|%d", tag, k), true)
		c.Stat("peer-forward-same-header")
		replay := map[string]any{"role": tag, "message": k, "text": txt, "system_bytes": "00000001"}
		if ferr != nil || len(wires) != 1 {
			c.Violate("property", "peer-send-failed", fmt.Sprintf("ForwardDataMessage #%d: err=%v, %d blocks on the line", k, ferr, len(wires)), replay)
			return
		}
		w := wires[0]
		body := w[11 : len(w)-2]
		if want := secs2.NewASCIIItem(txt).ToBytes(); !bytes.Equal(body, want) {
			c.Violate("property", "peer-body-differs", fmt.Sprintf("forwarded message #%d (%q): the block on the line carries body %x, the message's SECS-II encoding is %x", k, txt, body, want), replay)
			return
		}
	}
}

func c17PeerInbound(c *Ctx, e *s1Endpoint, tag string) {
	base := len(e.deliveries())
	to := !e.isEquip // R-bit of blocks travelling toward the connection
	sys := uint32(0x7000)
	mk := func(stream, fn uint8, w bool) secs1.VerifHeader {
		sys++
		return secs1.VerifHeader{DeviceID: e.dev, RBit: to, Stream: stream, Function: fn, WaitBit: w,
			SystemBytes: [4]byte{byte(sys >> 24), byte(sys >> 16), byte(sys >> 8), byte(sys)}}
	}
	blk := func(h secs1.VerifHeader, num int, last bool, body []byte) secs1.VerifBlock {
		return secs1.VerifBlock{Header: secs1.VerifBuildHeader(h, uint16(num), last), Body: body}
	}
	item := func(n int, fill byte) []byte { return secs2.NewBinaryItem(bytes.Repeat([]byte{fill}, n)).ToBytes() }
	type step struct {
		b       secs1.VerifBlock
		corrupt int // 0 intact, 1 checksum, 2 length byte
		what    string
	}
	var script []step
	add := func(b secs1.VerifBlock, what string) { script = append(script, step{b, 0, what}) }
	// 1. single-block message, then its retransmission
	h1 := mk(1, 3, false)
	b1 := blk(h1, 1, true, item(5, 0x11))
	add(b1, "single")
	add(b1, "duplicate-of-last")
	// 2. three-block message (body = 600 encoded bytes) with a duplicate in the middle, and foreign blocks interleaved
	h2 := mk(6, 11, false)
	body2 := item(597, 0x22)
	bs2, _ := secs1.VerifSplitBody(body2, h2)
	add(bs2[0], "multi-1")
	add(bs2[0], "duplicate-mid")
	hx := h2
	hx.DeviceID ^= 0x10
	add(blk(hx, 2, false, []byte{1, 2, 3}), "wrong-device")
	hy := h2
	hy.RBit = !hy.RBit
	add(blk(hy, 2, false, []byte{4, 5, 6}), "wrong-direction")
	add(bs2[1], "multi-2")
	script = append(script, step{bs2[2], 1, "bad-checksum"})
	script = append(script, step{bs2[2], 2, "bad-length"})
	// length bytes OUTSIDE 10..254: refused on the length byte alone, answered NAK after the line went quiet, and —
	// like every corrupt block — never a reason to take the link down (after seeded change C17c-2)
	script = append(script, step{bs2[2], 3, "length-byte-9"}, step{bs2[2], 4, "length-byte-255"}, step{bs2[2], 5, "length-byte-5"}, step{bs2[2], 6, "length-byte-0"})
	add(bs2[2], "multi-3")
	add(bs2[2], "duplicate-of-last")
	// 3. out of sequence: block 1, then block 3 -> whole message dropped; stray block 2 alone
	h3 := mk(2, 5, false)
	add(blk(h3, 1, false, item(3, 0x33)), "oos-1")
	add(blk(h3, 3, true, item(3, 0x34)), "oos-skipped")
	add(blk(mk(2, 7, false), 2, true, item(2, 0x35)), "stray-2")
	// 4. header field changes mid-message
	h4 := mk(3, 9, false)
	h4b := h4
	h4b.Function = 10
	add(blk(h4, 1, false, item(2, 0x41)), "hf-1")
	add(blk(h4b, 2, true, item(2, 0x42)), "hf-wrong-field")
	// 5. lone block 0 with E; block 0 without E
	b0 := blk(mk(4, 1, false), 0, true, item(4, 0x51))
	add(b0, "block0-E")
	add(b0, "duplicate-of-block0-E") // after seeded change C18g-2
	add(blk(mk(4, 3, false), 0, false, item(4, 0x52)), "block0-noE")
	// 6. empty-body single block, and a final sentinel two-block message
	add(blk(mk(5, 1, false), 1, true, nil), "header-only")
	h6 := mk(7, 1, false)
	bs6, _ := secs1.VerifSplitBody(item(300, 0x66), h6)
	add(bs6[0], "sentinel-1")
	add(bs6[1], "sentinel-2")

	var sb strings.Builder
	fmt.Fprintf(&sb, "secs1.spec %s %d %d", b01(e.isEquip), e.dev, int64(30*time.Second))
	ref := &e4Ref{isEquip: e.isEquip, dev: e.dev, t4: int64(30 * time.Second)}
	var want [][]byte
	var ops []string
	for i, s := range script {
		ops = append(ops, s.what)
		w := secs1.VerifAppendTo(nil, s.b)
		switch s.corrupt {
		case 1:
			w[len(w)-1] ^= 0x40
		case 2:
			w[0]--
		case 3:
			w[0] = 9
		case 4:
			w[0] = 255
		case 5:
			w[0] = 5
		case 6:
			w[0] = 0
		}
		ans := e.peer.sendWire(w)
		c.Count(fmt.Sprintf("peer-in|%s|%d|%s", tag, i, s.what), true)
		c.Stat("peer-in:" + s.what)
		replay := map[string]any{"role": tag, "step": i, "what": s.what, "script": ops}
		if s.corrupt != 0 {
			if ans != 0x15 {
				c.Violate("property", "peer-corrupt-block-not-naked", fmt.Sprintf("step %d (%s): corrupt block answered %#02x, want NAK", i, s.what, ans), replay)
			}
			continue
		}
		if ans != 0x06 {
			c.Violate("property", "peer-valid-block-not-acked", fmt.Sprintf("step %d (%s): intact block answered %#02x, want ACK", i, s.what, ans), replay)
			continue
		}
		fmt.Fprintf(&sb, " 0 %s %s", hex.EncodeToString(s.b.Header[:]), s1hex(s.b.Body))
		if f := ref.step(0, s.b); f != nil {
			want = append(want, f)
		}
	}
	// let the engine finish the last delivery, answering any S9Fx notification the equipment role sends
	e.peer.serveUntil(func() bool { return len(e.deliveries())-base >= len(want) }, 5*time.Second)
	e.peer.serveUntil(func() bool { return false }, 150*time.Millisecond)
	got := e.deliveries()[base:]
	replay := map[string]any{"role": tag, "script": ops, "line": e.peer.lineLog}
	var gs, ws []string
	for _, g := range got {
		gs = append(gs, hex.EncodeToString(g.frame))
	}
	for _, w := range want {
		ws = append(ws, hex.EncodeToString(w))
	}
	if strings.Join(gs, ";") != strings.Join(ws, ";") {
		c.Violate("property", "peer-deliveries-not-per-E4", fmt.Sprintf("handler saw %d messages, E4 says %d: got %s want %s", len(gs), len(ws), s1clip(strings.Join(gs, ";"), 300), s1clip(strings.Join(ws, ";"), 300)), replay)
	}
	if c.Lean != nil {
		a := c.Lean.Ask(sb.String())
		var ms []string
		for _, t := range strings.Split(a, ";") {
			if strings.HasPrefix(t, "D:") {
				ms = append(ms, t[2:])
			}
		}
		if strings.Join(ms, ";") != strings.Join(gs, ";") {
			c.Violate("correspondence", "peer-deliveries-differ-from-E4-spec", fmt.Sprintf("handler %s / E4 reference receiver %s", s1clip(strings.Join(gs, ";"), 300), s1clip(strings.Join(ms, ";"), 300)), replay)
		}
		c.Res.Traces++
	}
	// the equipment role answers violations with S9Fx on the line; whatever it sent must itself be well-formed
	for _, w := range e.peer.takeReceived() {
		f := e4Decode([10]byte(w[1:11]))
		c.Stat(fmt.Sprintf("peer-unsolicited:S%dF%d", f.stream, f.function))
		if f.dev != e.dev || f.r != e.isEquip || len(w)-13 > 244 {
			c.Violate("property", "peer-block-malformed", fmt.Sprintf("unsolicited block %x violates E4", w[1:11]), replay)
		}
	}
}
