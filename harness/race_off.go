//go:build !race

package main

const raceBuild = false
