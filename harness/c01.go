package main

import (
	"bytes"
	"encoding/hex"
	"fmt"
	"strings"

	"github.com/arloliu/go-secs/v2/secs2"
)

func init() {
	register("C01", "item trees generated from the property's quantifier: 16 format codes x boundary element counts "+
		"(0,1,2,3,254..257, 65535/65536 per width) x 6 constructor argument shapes, list child-count boundaries, nesting 0..64, "+
		"slab-chunk-boundary leaf counts, random trees, empty-item placements; distinct = distinct protocol text of the logical tree + shape; "+
		"non-trivial = the tree has at least one element or child", runC01)
}

type c01Case struct {
	it    *LItem
	shape int
	tag   string
}

func c01Cases(c *Ctx) []c01Case {
	var cs []c01Case
	r := c.Rng
	// A: every leaf kind x boundary counts x shapes
	for _, k := range kinds[1:] {
		for _, n := range boundaryCounts {
			for shape := 0; shape < 6; shape++ {
				cs = append(cs, c01Case{GenLeaf(r, k, n), shape, "leaf-boundary"})
			}
		}
		// 2-byte / 3-byte length-field boundary: payload 65535 / 65536 bytes (element count depends on width)
		w := 1
		if k[0] == 'I' || k[0] == 'U' || k[0] == 'F' {
			w = int(k[1] - '0')
		}
		extra := 0
		if k == "W" {
			extra = 2
		}
		seen := map[int]bool{}
		for _, payload := range []int{65535, 65536, 65537, 65535 + w} {
			n := (payload - extra) / w
			if n < 0 || seen[n] {
				continue
			}
			seen[n] = true
			cs = append(cs, c01Case{GenLeaf(r, k, n), r.IntN(2), "leaf-64k"})
		}
	}
	// B: list child-count boundaries
	for _, n := range []int{0, 1, 2, 255, 256, 257, 65535, 65536} {
		it := &LItem{Kind: "L"}
		for i := 0; i < n; i++ {
			it.Kids = append(it.Kids, GenLeaf(r, kinds[1+i%(len(kinds)-1)], i%3))
		}
		cs = append(cs, c01Case{it, 0, "list-boundary"})
	}
	// B2: skipped (nil / EmptyItem) arguments around the child-count boundaries: the list header is sized by the
	// children actually KEPT, not by the number of arguments (after seeded change C01d-2)
	for _, n := range []int{256, 257, 258, 65536, 65537} {
		for _, skip := range []int{1, 2} {
			it := &LItem{Kind: "L"}
			for i := 0; i < n; i++ {
				if i < skip || (skip == 2 && i == n-1) {
					it.Kids = append(it.Kids, &LItem{Kind: "E"})
				} else {
					it.Kids = append(it.Kids, GenLeaf(r, "U1", 1))
				}
			}
			cs = append(cs, c01Case{it, 0, "list-boundary"})
			cs = append(cs, c01Case{&LItem{Kind: "L", Kids: []*LItem{GenLeaf(r, "A", 3), it}}, 0, "list-boundary"})
		}
	}
	// C: nesting depth 0..64
	for d := 0; d <= 64; d++ {
		cs = append(cs, c01Case{Nest(GenLeaf(r, kinds[1+d%(len(kinds)-1)], 1+d%3), d), d % 6, "nesting"})
	}
	cs = append(cs, c01Case{Nest(&LItem{Kind: "L"}, 63), 0, "nesting"})
	for _, it := range SiblingDepthCases() {
		cs = append(cs, c01Case{it, 0, "sibling-depth"})
	}
	// D: slab chunk boundaries: N same-type single-element leaves
	for _, n := range []int{1, 2, 5, 6, 21, 22, 85, 86, 213, 214, 341, 342} {
		for _, k := range []string{"I2", "U4", "F8", "A", "J", "W", "B", "O"} {
			it := &LItem{Kind: "L"}
			for i := 0; i < n; i++ {
				it.Kids = append(it.Kids, GenLeaf(r, k, 1))
			}
			cs = append(cs, c01Case{it, 1, "slab-boundary"})
		}
	}
	// E: random trees
	for i := 0; i < c.Pick(4000, 80000); i++ {
		budget := 1 + r.IntN(60)
		cs = append(cs, c01Case{GenTree(r, r.IntN(8), &budget), r.IntN(6), "random"})
	}
	// F: empty-item placements (the constructors accept them without error)
	e := func() *LItem { return &LItem{Kind: "E"} }
	cs = append(cs,
		c01Case{&LItem{Kind: "L", Kids: []*LItem{e()}}, 0, "empty-child"},
		c01Case{&LItem{Kind: "L", Kids: []*LItem{GenLeaf(r, "A", 2), e(), GenLeaf(r, "U1", 1)}}, 0, "empty-child"},
		c01Case{&LItem{Kind: "L", Kids: []*LItem{{Kind: "L", Kids: []*LItem{e(), e()}}}}, 5, "empty-child"},
	)
	return cs
}

func safely(f func()) (panicked any) {
	defer func() { panicked = recover() }()
	f()
	return nil
}

func runC01(c *Ctx) {
	cases := c01Cases(c)
	// model answers, pipelined
	var encAns []string
	if c.Lean != nil {
		lines := make([]string, len(cases))
		for i, cs := range cases {
			lines[i] = "secs2.enc " + cs.it.Text()
		}
		for i, cs := range cases {
			lines[i] = "secs2.enc " + cs.it.Normalize().Text()
		}
		encAns = c.Lean.AskAll(lines)
	}
	var decLines []string
	var decIdx []int
	for i, cs := range cases {
		supplied := cs.it
		cs.it = cs.it.Normalize() // the logical value the constructors are specified to build
		cases[i].it = cs.it
		text := cs.it.Text()
		c.Count(fmt.Sprintf("%d|%s", cs.shape, text), len(text) > 4)
		c.Stat("tag:" + cs.tag)
		c.Stat("kind:" + cs.it.Kind)
		if i%997 == 0 || (cs.tag != "random" && i%211 == 0) {
			t := text
			if len(t) > 200 {
				t = t[:200] + "…"
			}
			c.Sample(map[string]any{"tag": cs.tag, "shape": cs.shape, "item": t})
		}
		replay := map[string]any{"item": clip(text, 4000), "shape": cs.shape, "tag": cs.tag}
		var item secs2.Item
		if p := safely(func() { item = Build(supplied, cs.shape) }); p != nil {
			c.Violate("property", "constructor-panic", fmt.Sprintf("constructor panicked: %v", p), replay)
			continue
		}
		if err := item.Error(); err != nil {
			c.Violate("correspondence", "constructor-error", "valid arguments produced a deferred error: "+err.Error(), replay)
			continue
		}
		hasEmpty := cs.it.HasEmpty()
		canon := cs.it.TextCanon()
		if d := Describe(item); d != canon {
			c.Violate("property", "constructed-values", fmt.Sprintf("accessors of the constructed item disagree with the supplied values: got %s", clip(d, 300)), replay)
			continue
		}
		var b1, b2 []byte
		var elen int
		if p := safely(func() { b1 = item.ToBytes(); b2 = item.ToBytes(); elen = item.EncodedLen() }); p != nil {
			c.Violate("property", "encode-panic", fmt.Sprintf("ToBytes/EncodedLen panicked: %v", p), replay)
			continue
		}
		if !bytes.Equal(b1, b2) {
			c.Violate("property", "nondeterministic-encoding", "two ToBytes calls differ", replay)
		}
		if elen != len(b1) {
			c.Violate("property", "encodedlen-mismatch", fmt.Sprintf("EncodedLen=%d but encoding has %d bytes", elen, len(b1)), replay)
		}
		// AppendTo into a poisoned buffer with spare capacity
		prefix := []byte{0xde, 0xad, 0xbe, 0xef, 0x55}
		buf := make([]byte, len(prefix), len(prefix)+len(b1)+7)
		copy(buf, prefix)
		// the spare capacity really is dirty: an encoder that relies on zeroed memory behind len(dst)
		// (a scratch buffer reused as item.AppendTo(buf[:0])) shows here (after seeded change C01b-1)
		spare := buf[len(prefix):cap(buf)]
		for k := range spare {
			spare[k] = 0xAA ^ byte(k*37)
			if spare[k] == 0 {
				spare[k] = 0xFF
			}
		}
		out := item.AppendTo(buf)
		if !bytes.Equal(out[:len(prefix)], prefix) || !bytes.Equal(out[len(prefix):], b1) {
			c.Violate("property", "appendto-prefix", fmt.Sprintf("AppendTo into a buffer with dirty spare capacity changed the existing prefix or appended something other than the encoding: got %s want %s",
				clip(hexs(out[len(prefix):]), 120), clip(hexs(b1), 120)), replay)
		}
		// reuse of the same scratch buffer for a second encode, and a too-small dirty buffer (forces growth)
		out2 := item.AppendTo(out[:0])
		if !bytes.Equal(out2, b1) {
			c.Violate("property", "appendto-prefix", "AppendTo(buf[:0]) into a previously used scratch buffer differs from ToBytes", replay)
		}
		small := []byte{0x11, 0xEE, 0xEE, 0xEE}
		out3 := item.AppendTo(small[:1])
		if len(out3) < 1 || out3[0] != 0x11 || !bytes.Equal(out3[1:], b1) {
			c.Violate("property", "appendto-prefix", "AppendTo into a short dirty buffer (growth path) differs from prefix+ToBytes", replay)
		}
		if encAns != nil {
			want := fmt.Sprintf("%s %d", hexs(b1), elen)
			if encAns[i] != want {
				c.Violate("property", "enc-differs-from-E5-model", fmt.Sprintf("implementation bytes %s len %d, E5 reference model says %s",
					clip(hexs(b1), 120), elen, clip(encAns[i], 120)), replay)
			}
		}
		// decode back
		var dec secs2.Item
		var derr error
		if p := safely(func() { dec, derr = secs2.Decode(b1) }); p != nil {
			c.Violate("property", "decode-panic", fmt.Sprintf("Decode panicked: %v", p), replay)
			continue
		}
		if derr != nil {
			what := "roundtrip-decode-error"
			if hasEmpty {
				what = "roundtrip-decode-error-empty-child"
			}
			c.Violate("property", what, fmt.Sprintf("error-free item encodes to %s which Decode rejects: %v", clip(hexs(b1), 120), derr), replay)
			continue
		}
		if !secs2.Equal(item, dec) {
			c.Violate("property", "roundtrip-not-equal", "Decode(ToBytes(item)) is not Equal to item", replay)
		}
		if !hasEmpty {
			if d := Describe(dec); d != canon {
				c.Violate("property", "roundtrip-values", "decoded item's values differ: "+clip(d, 300), replay)
			}
		}
		if !bytes.Equal(dec.ToBytes(), b1) || dec.EncodedLen() != len(b1) {
			c.Violate("property", "reencode-differs", "decoded item re-encodes differently", replay)
		}
		if len(b1) > 0 {
			decLines = append(decLines, "secs2.dec "+hex.EncodeToString(b1))
			decIdx = append(decIdx, i)
		}
	}
	if c.Lean != nil {
		ans := c.Lean.AskAll(decLines)
		for j, a := range ans {
			cs := cases[decIdx[j]]
			if cs.it.HasEmpty() {
				continue
			}
			want := fmt.Sprintf("ok %d %s", (len(decLines[j])-len("secs2.dec "))/2, cs.it.TextCanon())
			if a != want {
				c.Violate("correspondence", "model-dec-differs", fmt.Sprintf("model decode of the implementation's bytes: %s", clip(a, 200)),
					map[string]any{"item": clip(cs.it.Text(), 4000), "shape": cs.shape})
			}
		}
		c.Res.Traces = len(cases)
	}
	c01Equal(c, cases)
	if c.Thorough() {
		c01Cap(c)
	}
}

// c01Mutate returns a copy of it with one element / byte / child changed (nil if nothing can be changed).
func c01Mutate(c *Ctx, it *LItem) *LItem {
	r := c.Rng
	cp := *it
	switch it.Kind {
	case "L":
		if len(it.Kids) == 0 {
			return &LItem{Kind: "L", Kids: []*LItem{GenLeaf(r, "U1", 1)}}
		}
		cp.Kids = append([]*LItem(nil), it.Kids...)
		i := r.IntN(len(cp.Kids))
		if m := c01Mutate(c, cp.Kids[i]); m != nil {
			cp.Kids[i] = m
		} else {
			cp.Kids = cp.Kids[:len(cp.Kids)-1]
		}
		return &cp
	case "B", "A", "J", "W", "O":
		if len(it.Bytes) == 0 {
			if it.Kind == "W" {
				cp.LSH ^= 1
				return &cp
			}
			cp.Bytes = []byte{1}
			return &cp
		}
		cp.Bytes = append([]byte(nil), it.Bytes...)
		i := r.IntN(len(cp.Bytes))
		if it.Kind == "O" {
			cp.Bytes[i] ^= 1
		} else {
			cp.Bytes[i] ^= byte(1 << r.IntN(8))
		}
		return &cp
	case "I":
		if len(it.Ints) == 0 {
			cp.Ints = []int64{0}
			return &cp
		}
		cp.Ints = append([]int64(nil), it.Ints...)
		i := r.IntN(len(cp.Ints))
		lo, _ := intRange(it.W)
		if cp.Ints[i] == lo {
			cp.Ints[i]++
		} else {
			cp.Ints[i]--
		}
		return &cp
	case "U":
		if len(it.Uints) == 0 {
			cp.Uints = []uint64{0}
			return &cp
		}
		cp.Uints = append([]uint64(nil), it.Uints...)
		i := r.IntN(len(cp.Uints))
		if cp.Uints[i] == 0 {
			cp.Uints[i] = 1
		} else {
			cp.Uints[i]--
		}
		return &cp
	case "F":
		if len(it.Bits) == 0 {
			cp.Bits = []uint64{0}
			return &cp
		}
		cp.Bits = append([]uint64(nil), it.Bits...)
		i := r.IntN(len(cp.Bits))
		switch r.IntN(3) {
		case 0:
			cp.Bits[i] ^= 1 // may turn one NaN into another NaN (still Equal) or ±0 handling
		case 1:
			if it.W == 4 {
				cp.Bits[i] ^= 0x80000000
			} else {
				cp.Bits[i] ^= 0x8000000000000000
			}
		default:
			cp.Bits[i] = genFloatBits(r, it.W)
		}
		return &cp
	}
	return nil
}

// c01Equal: `Equal` is the oracle of the round trip, so it is itself compared with the model's
// `equalItem` on pairs that differ in exactly one element (and on same-value pairs built through
// different argument shapes): a comparison that ignores values, widths or order would let a broken
// decoder pass.
func c01Equal(c *Ctx, cases []c01Case) {
	var lines []string
	type pair struct {
		a, b secs2.Item
		ta   string
		tb   string
	}
	var pairs []pair
	for i := 0; i < len(cases) && len(pairs) < c.Pick(3000, 30000); i++ {
		cs := cases[i]
		if cs.tag == "leaf-64k" || cs.tag == "list-boundary" || cs.it.HasEmpty() {
			continue
		}
		m := c01Mutate(c, cs.it)
		if m == nil {
			continue
		}
		a, b := Build(cs.it, cs.shape), Build(m, (cs.shape+1)%6)
		if a.Error() != nil || b.Error() != nil {
			continue
		}
		pairs = append(pairs, pair{a, b, cs.it.Text(), m.Text()})
		lines = append(lines, "secs2.equal "+cs.it.Text()+" | "+m.Text())
		// the same value through another argument shape must be Equal
		a2 := Build(cs.it, (cs.shape+3)%6)
		if a2.Error() == nil && !secs2.Equal(a, a2) {
			c.Violate("property", "equal-same-value-false", "the same logical value built through two argument shapes is not Equal", map[string]any{"item": clip(cs.it.Text(), 2000), "shape": cs.shape})
		}
	}
	var ans []string
	if c.Lean != nil {
		ans = c.Lean.AskAll(lines)
	}
	for i, p := range pairs {
		got := secs2.Equal(p.a, p.b)
		sym := secs2.Equal(p.b, p.a)
		c.Count("eq|"+p.ta+"|"+p.tb, true)
		c.Stat("equal-pairs")
		replay := map[string]any{"a": clip(p.ta, 2000), "b": clip(p.tb, 2000)}
		if got != sym {
			c.Violate("property", "equal-not-symmetric", fmt.Sprintf("Equal(a,b)=%v but Equal(b,a)=%v", got, sym), replay)
		}
		if ans != nil && ans[i] != fmt.Sprint(got) {
			c.Violate("property", "equal-differs-from-model", fmt.Sprintf("Equal(a,b)=%v, logical-value comparison (model equalItem) says %s", got, ans[i]), replay)
		}
		if ans == nil && got && p.ta != p.tb && !strings.Contains(p.ta, "F") {
			c.Violate("property", "equal-differs-from-model", "Equal is true for two items whose values differ", replay)
		}
	}
}

// c01Cap checks the 2^24-1 cap for every leaf type by header bytes + length (the payload is not sent to the model).
func c01Cap(c *Ctx) {
	const maxB = 1<<24 - 1
	for _, k := range kinds[1:] {
		w, extra := 1, 0
		if k[0] == 'I' || k[0] == 'U' || k[0] == 'F' {
			w = int(k[1] - '0')
		}
		if k == "W" {
			extra = 2
		}
		n := (maxB - extra) / w
		it := GenLeaf(c.Rng, k, n)
		item := Build(it, 0)
		c.Count("cap|"+k, true)
		c.Stat("tag:cap")
		replay := map[string]any{"kind": k, "elements": n}
		if item.Error() != nil {
			c.Violate("property", "cap-error", "item at the E5 size cap reports an error: "+item.Error().Error(), replay)
			continue
		}
		b := item.ToBytes()
		payload := n*w + extra
		wantHdr := []byte{b[0], byte(payload >> 16), byte(payload >> 8), byte(payload)}
		if len(b) != 4+payload || !bytes.Equal(b[:4], wantHdr) || b[0]&3 != 3 || item.EncodedLen() != len(b) {
			c.Violate("property", "cap-header", fmt.Sprintf("bad header/length at cap: %x len %d", b[:4], len(b)), replay)
		}
		if c.Lean != nil {
			got := c.Lean.Ask(fmt.Sprintf("secs2.header %d %d", b[0]>>2, payload))
			if got != hex.EncodeToString(b[:4]) {
				c.Violate("correspondence", "cap-header-model", "model header "+got, replay)
			}
		}
		dec, err := secs2.Decode(b)
		if err != nil || !secs2.Equal(item, dec) {
			c.Violate("property", "cap-roundtrip", fmt.Sprintf("round trip at cap failed: %v", err), replay)
		}
		// one element more must be refused by the constructor
		over := Build(GenLeaf(c.Rng, k, n+1), 0)
		if over.Error() == nil {
			c.Violate("property", "cap-not-enforced", "item above the E5 size cap is error-free", replay)
		}
	}
}

func clip(s string, n int) string {
	if len(s) <= n {
		return s
	}
	return s[:n] + "…(" + fmt.Sprint(len(s)) + " chars)"
}

var _ = strings.TrimSpace
