package main

// C07 — data flows only while Selected; pipelined data after select is accepted.
//
//  A. outbound gates: every not-selected situation (never opened, closed, closed after a session, listening /
//     connecting, connected-not-selected, deselected, between generations) x every data-sending entry point of
//     SECS2Endpoint. Observed: returned error, Metrics().DataMsgDropNotSelectedCount() delta, the frames the
//     scripted peer saw (none may be data), control traffic (the Linktest barrier) still answered. Compared
//     with the send-gate model (`rsp.send`) and with the property's own oracle.
//  B. inbound data while not Selected: Reject reason 4 echoing session id / system bytes, not delivered, link
//     and state kept (both connected-not-selected and deselected).
//  C. pipelining: Select.req (passive) / Select.rsp(0) (active) followed by 1..3 data frames, written in every
//     single-cut grouping, all-in-one and byte-by-byte: every data frame delivered, none rejected; the
//     responder model (`rsp.run`) predicts the exact outbound frames and deliveries.

import (
	"context"
	"encoding/hex"
	"errors"
	"fmt"
	"math/rand/v2"
	"strings"
	"sync"
	"sync/atomic"
	"time"

	"github.com/arloliu/go-secs/v2/hsms"
	"github.com/arloliu/go-secs/v2/hsmsss"
	"github.com/arloliu/go-secs/v2/secs2"
)

func init() {
	register("C07", "situations {never-opened, closed, closed-after-session, listening/connecting, connected-not-selected, "+
		"deselected, between-generations} x roles x entry points {SendDataMessage W / no W, SendSECS2Message, "+
		"SendDataMessageAsync, ReplyDataMessage, ForwardDataMessage, ForwardDataMessageAsync}; inbound data shapes while not "+
		"selected; select + 1..3 data frames in every single-cut write grouping, one write and byte-by-byte, both roles; "+
		"distinct = distinct (situation, role, entry) / (role, k, grouping); non-trivial = all", runC07)
}

// ---------------------------------------------------------------------------------------------
// A. outbound gates

type sendEntry struct {
	name  string
	model string // entry name in the send-gate model
	call  func(ep *Endpoint) error
}

func c07Entries() []sendEntry {
	ctx := func() (context.Context, context.CancelFunc) {
		return context.WithTimeout(context.Background(), 3*time.Second)
	}
	primary := func(ep *Endpoint) *hsms.DataMessage {
		m, _ := hsms.NewDataMessage(1, 3, true, ep.Conn.SessionID(), [4]byte{0x0c, 7, 0, 1}, secs2.A("x"))
		return m
	}
	return []sendEntry{
		{"SendDataMessage(W)", "sync", func(ep *Endpoint) error {
			c, cancel := ctx()
			defer cancel()
			_, err := ep.Conn.SendDataMessage(c, 1, 1, true, nil)
			return err
		}},
		{"SendDataMessage(noW)", "sync", func(ep *Endpoint) error {
			c, cancel := ctx()
			defer cancel()
			_, err := ep.Conn.SendDataMessage(c, 6, 11, false, secs2.A("ev"))
			return err
		}},
		{"SendSECS2Message", "sync", func(ep *Endpoint) error {
			c, cancel := ctx()
			defer cancel()
			_, err := ep.Conn.SendSECS2Message(c, secs2.NewMessage(1, 13, true, secs2.L()))
			return err
		}},
		{"SendDataMessageAsync", "async", func(ep *Endpoint) error {
			c, cancel := ctx()
			defer cancel()
			return ep.Conn.SendDataMessageAsync(c, 5, 1, false, secs2.A("alarm"))
		}},
		{"ReplyDataMessage", "reply", func(ep *Endpoint) error {
			c, cancel := ctx()
			defer cancel()
			return ep.Conn.ReplyDataMessage(c, primary(ep), secs2.A("r"))
		}},
		{"ForwardDataMessage", "forward", func(ep *Endpoint) error {
			c, cancel := ctx()
			defer cancel()
			return ep.Conn.ForwardDataMessage(c, primary(ep))
		}},
		{"ForwardDataMessageAsync", "forwardAsync", func(ep *Endpoint) error {
			c, cancel := ctx()
			defer cancel()
			return ep.Conn.ForwardDataMessageAsync(c, primary(ep))
		}},
	}
}

type gateSituation struct {
	name   string
	opened bool // Open has been called at least once
	live   bool // a generation is live (model's `live`)
	// setup brings a fresh endpoint into the situation; it returns the attached peer (nil if none)
	setup func(ep *Endpoint) (*ScriptPeer, error)
}

func c07Situations() []gateSituation {
	attachNoSelect := func(ep *Endpoint) (*ScriptPeer, error) {
		if err := ep.Open(); err != nil {
			return nil, err
		}
		p, err := ep.Attach(5 * time.Second)
		if err != nil {
			return nil, err
		}
		if ep.Active { // swallow the library's Select.req, never answer it
			if f, err := p.Recv(5 * time.Second); err != nil || f.SType() != 1 {
				return p, fmt.Errorf("expected Select.req, got %s (%v)", f.Text(), err)
			}
		}
		if !ep.WaitState(hsms.NotSelectedState, 3*time.Second) {
			return p, errors.New("not in NotSelected after TCP connect")
		}
		return p, nil
	}
	established := func(ep *Endpoint) (*ScriptPeer, error) {
		if err := ep.Open(); err != nil {
			return nil, err
		}
		p, _, err := ep.EstablishSelected(5 * time.Second)
		return p, err
	}
	return []gateSituation{
		{"never-opened", false, false, func(ep *Endpoint) (*ScriptPeer, error) { return nil, nil }},
		{"closed", true, false, func(ep *Endpoint) (*ScriptPeer, error) {
			if ep.Active {
				_ = ep.ln.Close() // nothing to dial: Open(background) keeps retrying until Close
			}
			if err := ep.Open(); err != nil {
				return nil, err
			}
			return nil, ep.Conn.Close()
		}},
		{"closed-after-session", true, false, func(ep *Endpoint) (*ScriptPeer, error) {
			p, err := established(ep)
			if err != nil {
				return p, err
			}
			err = ep.Conn.Close()
			p.Close()
			return nil, err
		}},
		{"listening-or-connecting", true, true, func(ep *Endpoint) (*ScriptPeer, error) {
			if ep.Active {
				_ = ep.ln.Close()
			}
			return nil, ep.Open()
		}},
		{"connected-not-selected", true, true, attachNoSelect},
		{"deselected", true, true, func(ep *Endpoint) (*ScriptPeer, error) {
			p, err := established(ep)
			if err != nil {
				return p, err
			}
			waitSelectedReports(ep, 1, 2*time.Second)
			if err := p.Send(mkFrame(0xFFFF, 0, 0, 0, 3, sysOf(0x7e000002), nil)); err != nil {
				return p, err
			}
			f, err := p.Recv(3 * time.Second)
			if err != nil || f.SType() != 4 || f.B3() != 0 {
				return p, fmt.Errorf("expected Deselect.rsp(0), got %s (%v)", f.Text(), err)
			}
			if !ep.WaitState(hsms.NotSelectedState, 2*time.Second) {
				return p, errors.New("not NotSelected after Deselect")
			}
			return p, nil
		}},
		// selected, deselected, re-selected and deselected again by ONE TCP write (two Deselect commits outstanding while
		// the supervisor lags): the peer holds Deselect.rsp(0) for the last request, so the connection is deselected whatever
		// the supervisor still has queued. Added after seeded change C07f-2; the state is judged by the sends, not by setup.
		{"deselected-twice-pipelined", true, true, func(ep *Endpoint) (*ScriptPeer, error) {
			p, err := established(ep)
			if err != nil {
				return p, err
			}
			waitSelectedReports(ep, 1, 2*time.Second)
			if err := p.Send(mkFrame(0xFFFF, 0, 0, 0, 3, sysOf(0x7e000011), nil), mkFrame(0xFFFF, 0, 0, 0, 1, sysOf(0x7e000012), nil),
				mkFrame(0xFFFF, 0, 0, 0, 3, sysOf(0x7e000013), nil)); err != nil {
				return p, err
			}
			want := [][2]byte{{4, 0}, {2, 0}, {4, 0}}
			for i, w := range want {
				f, err := p.Recv(3 * time.Second)
				if err != nil || f.SType() != w[0] || f.B3() != w[1] {
					return p, fmt.Errorf("answer %d to Deselect/Select/Deselect in one write: expected SType %d status %d, got %s (%v)", i, w[0], w[1], f.Text(), err)
				}
			}
			time.Sleep(30 * time.Millisecond) // let every queued supervisor event be consumed
			return p, nil
		}},
		{"between-generations", true, true, func(ep *Endpoint) (*ScriptPeer, error) {
			p, err := established(ep)
			if err != nil {
				return p, err
			}
			waitSelectedReports(ep, 1, 2*time.Second)
			p.Close() // the peer drops the TCP connection: the library is on its way to the next generation
			deadline := time.Now().Add(3 * time.Second)
			for ep.Conn.State() == hsms.SelectedState && time.Now().Before(deadline) {
				time.Sleep(200 * time.Microsecond)
			}
			if ep.Conn.State() == hsms.SelectedState {
				return nil, errors.New("still Selected after the peer dropped the connection")
			}
			return nil, nil
		}},
	}
}

func c07ErrClass(err error) string {
	switch {
	case err == nil:
		return "ok"
	case errors.Is(err, hsms.ErrNotOpen):
		return "not-open"
	case errors.Is(err, hsms.ErrNotSelectedState):
		return "not-selected"
	case errors.Is(err, hsms.ErrConnClosed):
		return "conn-closed"
	default:
		return "other:" + err.Error()
	}
}

func c07Gates(c *Ctx) {
	entries := c07Entries()
	type result struct {
		sit, role, entry, model string
		opened, live            bool
		err                     string
		drop                    uint64
		dataOnWire              []string
		barrierOK               bool
		hadPeer                 bool
		state                   hsms.ConnState
		setupErr                string
	}
	var results []result
	var mu sync.Mutex
	var wg sync.WaitGroup
	sem := make(chan struct{}, 8)
	for _, sit := range c07Situations() {
		for _, active := range []bool{false, true} {
			for _, en := range entries {
				sit, active, en := sit, active, en
				wg.Add(1)
				sem <- struct{}{}
				go func() {
					defer wg.Done()
					defer func() { <-sem }()
					r := result{sit: sit.name, role: map[bool]string{true: "active", false: "passive"}[active], entry: en.name, model: en.model, opened: sit.opened, live: sit.live}
					defer func() { mu.Lock(); results = append(results, r); mu.Unlock() }()
					ep, err := NewEndpoint(active, nil)
					if err != nil {
						r.setupErr = err.Error()
						return
					}
					defer ep.Shutdown()
					p, err := sit.setup(ep)
					if p != nil {
						defer p.Close()
					}
					if err != nil {
						r.setupErr = err.Error()
						return
					}
					r.state = ep.Conn.State()
					before := ep.Conn.Metrics().DataMsgDropNotSelectedCount()
					r.err = c07ErrClass(en.call(ep))
					r.drop = ep.Conn.Metrics().DataMsgDropNotSelectedCount() - before
					if p != nil && !p.IsClosed() {
						r.hadPeer = true
						var rr rspRun
						r.barrierOK = fence(p, &rr)
						for _, w := range rr.wire {
							if strings.HasPrefix(w, "RAW:") || strings.HasPrefix(w, "S9:") {
								r.dataOnWire = append(r.dataOnWire, w)
							}
						}
					}
				}()
			}
		}
	}
	wg.Wait()
	var lines []string
	for _, r := range results {
		st := 1
		if r.state == hsms.NotConnectedState {
			st = 0
		}
		lines = append(lines, fmt.Sprintf("rsp.send %d %d %s 1 %d %d", c19bit(r.opened), c19bit(r.live), r.model, st, st))
	}
	var ans []string
	if c.Lean != nil {
		ans = c.Lean.AskAll(lines)
	}
	for i, r := range results {
		key := fmt.Sprintf("gate|%s|%s|%s", r.sit, r.role, r.entry)
		c.Count(key, true)
		c.Stat("gate:" + r.sit)
		replay := map[string]any{"situation": r.sit, "role": r.role, "entry": r.entry, "error": r.err, "drop_delta": r.drop, "data_on_wire": r.dataOnWire, "state": int(r.state)}
		if r.setupErr != "" {
			c.Violate("correspondence", "gate-setup-failed", key+": "+r.setupErr, replay)
			continue
		}
		if r.state == hsms.SelectedState && r.sit != "deselected-twice-pipelined" {
			c.Violate("correspondence", "gate-setup-failed", key+": situation is Selected", replay)
			continue
		}
		wantErr, wantDrop := "not-selected", uint64(1)
		if !r.opened {
			wantErr, wantDrop = "not-open", 0
		}
		if r.err != wantErr {
			c.Violate("property", "send-not-refused", fmt.Sprintf("%s: returned %q, want %q", key, r.err, wantErr), replay)
		}
		if r.drop != wantDrop {
			c.Violate("property", "drop-count", fmt.Sprintf("%s: DataMsgDropNotSelectedCount moved by %d, want %d", key, r.drop, wantDrop), replay)
		}
		if len(r.dataOnWire) > 0 {
			c.Violate("property", "data-on-wire-while-not-selected", fmt.Sprintf("%s: the peer received %v", key, r.dataOnWire), replay)
		}
		if r.hadPeer && !r.barrierOK {
			c.Violate("property", "control-traffic-disturbed", key+": Linktest.req after the refused send was not answered", replay)
		}
		if ans != nil {
			got := fmt.Sprintf("%s drops=%d wire=%d queued=0", r.err, r.drop, len(r.dataOnWire))
			if ans[i] != got {
				c.Violate("correspondence", "gate-differs-from-model", fmt.Sprintf("%s: implementation %q, model %q", key, got, ans[i]), replay)
			}
			c.mu.Lock()
			c.Res.Traces++
			c.mu.Unlock()
		}
		if i%17 == 0 {
			c.Sample(replay)
		}
	}
}

// ---------------------------------------------------------------------------------------------
// B + C. inbound

type pipeCase struct {
	active   bool
	notSel   string // "" = pipelining case; "connected" / "deselected" = inbound data while not selected
	data     []PFrame
	cuts     []int
	cutsName string
}

func c07DataShapes(r *rand.Rand, session uint16, n int) []PFrame {
	var fs []PFrame
	for i := 0; i < n; i++ {
		var b2, b3 byte
		switch r.IntN(4) {
		case 0:
			b2, b3 = 0x81, 1 // S1F1 W
		case 1:
			b2, b3 = 6, 11 // S6F11 no W
		case 2:
			b2, b3 = 1, 2 // a secondary
		default:
			b2, b3 = byte(r.Uint32()), byte(r.Uint32())
		}
		var body []byte
		if r.IntN(2) == 0 {
			body = []byte{0x41, 2, 'o', 'k'}
		}
		s := session
		if r.IntN(4) == 0 {
			s = uint16(r.Uint32())
		}
		fs = append(fs, mkFrame(s, b2, b3, 0, 0, sysOf(0x31000000+uint32(i)), body))
	}
	return fs
}

type pipeOut struct {
	wire, deliv []string
	state       hsms.ConnState
	selSys      uint32
	err         string
	script      []PFrame
}

func runPipe(pc pipeCase) (out pipeOut) {
	ep, err := NewEndpoint(pc.active, nil)
	if err != nil {
		out.err = err.Error()
		return
	}
	defer ep.Shutdown()
	if err := ep.Open(); err != nil {
		out.err = err.Error()
		return
	}
	p, err := ep.Attach(5 * time.Second)
	if err != nil {
		out.err = err.Error()
		return
	}
	defer p.Close()
	var sel PFrame
	if pc.active {
		f, err := p.Recv(5 * time.Second)
		if err != nil || f.SType() != 1 {
			out.err = "no Select.req from the active library"
			return
		}
		s := f.Sys()
		out.selSys = uint32(s[0])<<24 | uint32(s[1])<<16 | uint32(s[2])<<8 | uint32(s[3])
		sel = mkFrame(f.Session(), 0, 0, 0, 2, f.Sys(), nil) // Select.rsp status 0
	} else {
		sel = mkFrame(0xFFFF, 0, 0, 0, 1, sysOf(0x7e000001), nil)
	}
	switch pc.notSel {
	case "":
		out.script = append([]PFrame{sel}, pc.data...)
	case "connected":
		out.script = pc.data
	case "second-generation":
		// a first generation reaches Selected and is dropped by the peer; on the NEXT generation data arrives before
		// any select: whatever the first generation left behind (a cached "selected" hint, a timer, a registry) must
		// not let it through (after seeded change C07d-2)
		if err := p.Send(sel); err != nil {
			out.err = err.Error()
			return
		}
		if !ep.WaitState(hsms.SelectedState, 3*time.Second) || !waitSelectedReports(ep, 1, 2*time.Second) {
			out.err = "first generation did not reach Selected"
			return
		}
		p.Close()
		if !ep.WaitState(hsms.NotConnectedState, 3*time.Second) && ep.Conn.State() == hsms.SelectedState {
			out.err = "the drop of the first generation was not noticed"
			return
		}
		p2, err := ep.Attach(5 * time.Second)
		if err != nil {
			out.err = "no second generation: " + err.Error()
			return
		}
		defer p2.Close()
		p = p2
		if pc.active {
			f, err := p.Recv(5 * time.Second)
			if err != nil || f.SType() != 1 {
				out.err = "no Select.req from the active library on the second generation"
				return
			}
			s := f.Sys()
			out.selSys = uint32(s[0])<<24 | uint32(s[1])<<16 | uint32(s[2])<<8 | uint32(s[3])
		}
		if !ep.WaitState(hsms.NotSelectedState, 3*time.Second) {
			out.err = "second generation not in NotSelected after TCP connect"
			return
		}
		out.script = pc.data
	case "deselected":
		// establish, settle, deselect: those frames are part of the script the model replays
		pre := []PFrame{sel}
		if err := p.Send(sel); err != nil {
			out.err = err.Error()
			return
		}
		if !ep.WaitState(hsms.SelectedState, 3*time.Second) || !waitSelectedReports(ep, 1, 2*time.Second) {
			out.err = "did not reach Selected"
			return
		}
		des := mkFrame(0xFFFF, 0, 0, 0, 3, sysOf(0x7e000002), nil)
		pre = append(pre, des)
		var rr rspRun
		if err := p.Send(des); err != nil || !fence(p, &rr) {
			out.err = "deselect failed"
			return
		}
		out.wire = append(out.wire, rr.wire...)
		out.script = append(pre, pc.data...)
	}
	var seg []byte
	start := 0
	if pc.notSel == "deselected" {
		start = 2
	}
	for _, f := range out.script[start:] {
		seg = append(seg, f.Wire()...)
	}
	if err := p.WriteGrouped(seg, pc.cuts, 300*time.Microsecond); err != nil {
		out.err = err.Error()
		return
	}
	var rr rspRun
	if !fence(p, &rr) {
		out.err = "barrier failed (link dropped?) " + rr.err
		out.wire = append(out.wire, rr.wire...)
		return
	}
	out.wire = append(out.wire, rr.wire...)
	out.state = ep.Conn.State()
	for _, d := range ep.Delivered() {
		out.deliv = append(out.deliv, fmt.Sprintf("D:%s:%d", hex.EncodeToString(d.H[:]), d.BodyLen))
	}
	return
}

func c07Inbound(c *Ctx) {
	var cases []pipeCase
	r := c.Rng
	for _, active := range []bool{false, true} {
		// C: pipelining, every single cut position + one write + byte by byte
		for k := 1; k <= 3; k++ {
			data := c07DataShapes(r, 0xFFFF, k)
			total := 14
			for _, d := range data {
				total += 14 + len(d.Body)
			}
			cases = append(cases, pipeCase{active, "", data, nil, "one-write"})
			var all []int
			for i := 1; i < total; i++ {
				all = append(all, i)
			}
			cases = append(cases, pipeCase{active, "", data, all, "byte-by-byte"})
			step := 1
			if !c.Thorough() && k > 1 {
				step = 3
			}
			for i := 1; i < total; i += step {
				cases = append(cases, pipeCase{active, "", data, []int{i}, fmt.Sprintf("cut@%d", i)})
			}
			for j := 0; j < c.Pick(4, 40); j++ {
				a, b := 1+r.IntN(total-1), 1+r.IntN(total-1)
				if a > b {
					a, b = b, a
				}
				cases = append(cases, pipeCase{active, "", data, []int{a, b}, fmt.Sprintf("cuts@%d,%d", a, b)})
			}
		}
		// B: inbound data while not selected
		for j := 0; j < c.Pick(6, 60); j++ {
			cases = append(cases, pipeCase{active, "connected", c07DataShapes(r, 0xFFFF, 1+r.IntN(3)), nil, "one-write"})
			cases = append(cases, pipeCase{active, "deselected", c07DataShapes(r, 0xFFFF, 1+r.IntN(3)), nil, "one-write"})
			if j%2 == 0 {
				cases = append(cases, pipeCase{active, "second-generation", c07DataShapes(r, 0xFFFF, 1+r.IntN(3)), nil, "one-write"})
			}
		}
	}
	outs := make([]pipeOut, len(cases))
	var wg sync.WaitGroup
	sem := make(chan struct{}, 8)
	for i := range cases {
		wg.Add(1)
		sem <- struct{}{}
		go func(i int) {
			defer wg.Done()
			defer func() { <-sem }()
			outs[i] = runPipe(cases[i])
		}(i)
	}
	wg.Wait()
	for i, pc := range cases {
		o := outs[i]
		role := map[bool]string{true: "active", false: "passive"}[pc.active]
		kind := "pipelined"
		if pc.notSel != "" {
			kind = "inbound-not-selected:" + pc.notSel
		}
		var txt []string
		for _, f := range o.script {
			txt = append(txt, frameLine(f))
		}
		key := fmt.Sprintf("%s|%s|k=%d|%s", kind, role, len(pc.data), pc.cutsName)
		c.Count(key+"|"+strings.Join(txt, ";"), true)
		c.Stat(kind)
		replay := map[string]any{"kind": kind, "role": role, "frames": txt, "cuts": pc.cuts, "library_sent": o.wire, "delivered": o.deliv, "state": int(o.state)}
		if o.err != "" {
			c.Violate("correspondence", "inbound-run-failed", key+": "+o.err, replay)
			continue
		}
		// --- property oracle
		rejects := 0
		for _, w := range o.wire {
			if strings.HasPrefix(w, "C:") && w[12:14] == "07" {
				rejects++
			}
		}
		if pc.notSel == "" {
			if rejects > 0 {
				c.Violate("property", "pipelined-data-rejected", fmt.Sprintf("%s: data pipelined behind the select was rejected: %v", key, o.wire), replay)
			}
			var want []string
			for _, d := range pc.data {
				want = append(want, fmt.Sprintf("D:%s:%d", hex.EncodeToString(d.H[:]), len(d.Body)))
			}
			if strings.Join(o.deliv, " ") != strings.Join(want, " ") {
				c.Violate("property", "pipelined-data-not-delivered", fmt.Sprintf("%s: delivered %v, want %v", key, o.deliv, want), replay)
			}
			if o.state != hsms.SelectedState {
				c.Violate("property", "not-selected-after-select", fmt.Sprintf("%s: state %d", key, o.state), replay)
			}
		} else {
			var want []string
			if pc.notSel == "deselected" {
				want = append(want, "C:ffff000000047e000002")
				if !pc.active {
					want = append([]string{"C:ffff000000027e000001"}, want...)
				}
			}
			for _, d := range pc.data {
				h := mkFrame(d.Session(), 0, 4, 0, 7, d.Sys(), nil).H
				want = append(want, "C:"+hex.EncodeToString(h[:]))
			}
			if strings.Join(o.wire, " ") != strings.Join(want, " ") {
				c.Violate("property", "inbound-data-not-rejected-4", fmt.Sprintf("%s: library sent %v, want %v", key, o.wire, want), replay)
			}
			if len(o.deliv) > 0 {
				c.Violate("property", "inbound-data-delivered-while-not-selected", fmt.Sprintf("%s: delivered %v", key, o.deliv), replay)
			}
			if o.state != hsms.NotSelectedState {
				c.Violate("property", "state-changed-by-rejected-data", fmt.Sprintf("%s: state %d", key, o.state), replay)
			}
		}
		// --- correspondence with the responder model
		if c.Lean != nil {
			sel := "-"
			if pc.active {
				sel = fmt.Sprint(o.selSys)
			}
			line := fmt.Sprintf("rsp.run 0 65535 1 %s - %s", sel, strings.Join(txt, " "))
			ans := c.Lean.Ask(line)
			var mWire, mDeliv []string
			for _, tok := range strings.Fields(ans) {
				switch {
				case strings.HasPrefix(tok, "C:"), strings.HasPrefix(tok, "S9:"):
					mWire = append(mWire, tok)
				case strings.HasPrefix(tok, "D:"):
					mDeliv = append(mDeliv, tok)
				}
			}
			if strings.Join(o.wire, " ") != strings.Join(mWire, " ") || strings.Join(o.deliv, " ") != strings.Join(mDeliv, " ") ||
				!strings.Contains(ans, fmt.Sprintf("st=%d ", int(o.state))) {
				c.Violate("correspondence", "inbound-differs-from-model", fmt.Sprintf("%s: implementation sent %v delivered %v state %d; model: %s", key, o.wire, o.deliv, o.state, clip(ans, 300)), replay)
			}
			c.mu.Lock()
			c.Res.Traces++
			c.mu.Unlock()
		}
		if i%41 == 0 {
			c.Sample(replay)
		}
	}
}

// c07WriteBoundary: the link leaves Selected AFTER the entry gate (B1) passed and BEFORE the write: through the
// writeFrame seam (verif hook) the state is moved to NotSelected under the write lock. The B2 re-check must then
// drop the data message: nothing on the wire, exactly one drop, not-selected error on the synchronous paths /
// an async-send error on the queued paths.
func c07WriteBoundary(c *Ctx) {
	type result struct {
		role, entry, model string
		err                string
		drop, asyncErr     uint64
		dataOnWire         []string
		state              hsms.ConnState
		setupErr           string
	}
	var results []result
	var mu sync.Mutex
	var wg sync.WaitGroup
	sem := make(chan struct{}, 8)
	for _, active := range []bool{false, true} {
		for _, en := range c07Entries() {
			active, en := active, en
			wg.Add(1)
			sem <- struct{}{}
			go func() {
				defer wg.Done()
				defer func() { <-sem }()
				r := result{role: map[bool]string{true: "active", false: "passive"}[active], entry: en.name, model: en.model}
				defer func() { mu.Lock(); results = append(results, r); mu.Unlock() }()
				ep, err := NewEndpoint(active, nil)
				if err != nil {
					r.setupErr = err.Error()
					return
				}
				defer ep.Shutdown()
				core := hsmsss.VerifCore(ep.Conn)
				var armed atomic.Bool
				if core == nil || !hsms.VerifSetAfterWriteLock(core, func() {
					if armed.CompareAndSwap(true, false) {
						hsms.VerifSelectLost(core)
					}
				}) {
					r.setupErr = "verif hook unavailable"
					return
				}
				if err := ep.Open(); err != nil {
					r.setupErr = err.Error()
					return
				}
				p, _, err := ep.EstablishSelected(5 * time.Second)
				if err != nil {
					r.setupErr = err.Error()
					return
				}
				defer p.Close()
				waitSelectedReports(ep, 1, 2*time.Second)
				m := ep.Conn.Metrics()
				d0, a0 := m.DataMsgDropNotSelectedCount(), m.AsyncSendErrCount()
				armed.Store(true)
				r.err = c07ErrClass(en.call(ep))
				deadline := time.Now().Add(2 * time.Second)
				for m.DataMsgDropNotSelectedCount() == d0 && time.Now().Before(deadline) {
					time.Sleep(200 * time.Microsecond)
				}
				var rr rspRun
				fence(p, &rr)
				r.drop, r.asyncErr = m.DataMsgDropNotSelectedCount()-d0, m.AsyncSendErrCount()-a0
				for _, w := range rr.wire {
					if strings.HasPrefix(w, "RAW:") || strings.HasPrefix(w, "S9:") {
						r.dataOnWire = append(r.dataOnWire, w)
					}
				}
				r.state = ep.Conn.State()
			}()
		}
	}
	wg.Wait()
	for _, r := range results {
		key := fmt.Sprintf("write-boundary|%s|%s", r.role, r.entry)
		c.Count(key, true)
		c.Stat("gate:write-boundary")
		replay := map[string]any{"situation": "left Selected between entry gate and write", "role": r.role, "entry": r.entry,
			"error": r.err, "drop_delta": r.drop, "async_err_delta": r.asyncErr, "data_on_wire": r.dataOnWire}
		if r.setupErr != "" {
			c.Violate("correspondence", "gate-setup-failed", key+": "+r.setupErr, replay)
			continue
		}
		async := r.model == "async" || r.model == "reply" || r.model == "forwardAsync"
		wantErr := "not-selected"
		if async {
			wantErr = "ok" // accepted onto the queue while Selected; dropped later by the sender goroutine
		}
		if len(r.dataOnWire) > 0 {
			c.Violate("property", "data-on-wire-while-not-selected", fmt.Sprintf("%s: the peer received %v after the link left Selected before the write", key, r.dataOnWire), replay)
		}
		if r.drop != 1 {
			c.Violate("property", "drop-count", fmt.Sprintf("%s: DataMsgDropNotSelectedCount moved by %d, want 1 (write-boundary drop)", key, r.drop), replay)
		}
		if r.err != wantErr {
			c.Violate("property", "send-not-refused", fmt.Sprintf("%s: returned %q, want %q", key, r.err, wantErr), replay)
		}
		if async && r.asyncErr != 1 {
			c.Violate("property", "async-drop-not-reported", fmt.Sprintf("%s: AsyncSendErrCount moved by %d, want 1", key, r.asyncErr), replay)
		}
		if r.state != hsms.NotSelectedState {
			c.Violate("correspondence", "gate-setup-failed", fmt.Sprintf("%s: state %d after the seam", key, r.state), replay)
		}
		if c.Lean != nil {
			a := c.Lean.Ask(fmt.Sprintf("rsp.send 1 1 %s 1 2 1", r.model))
			var want string
			if async {
				d := c.Lean.Ask("rsp.drain 1 1 1")
				want = "ok drops=0 wire=0 queued=1 / not-selected drops=1 wire=0 queued=0"
				a = a + " / " + d
			} else {
				want = "not-selected drops=1 wire=0 queued=0"
			}
			got := want
			if r.err != wantErr || r.drop != 1 || len(r.dataOnWire) > 0 {
				got = fmt.Sprintf("%s drops=%d wire=%d", r.err, r.drop, len(r.dataOnWire))
			}
			if a != want || got != want {
				c.Violate("correspondence", "gate-differs-from-model", fmt.Sprintf("%s: implementation %q, model %q", key, got, a), replay)
			}
			c.mu.Lock()
			c.Res.Traces++
			c.mu.Unlock()
		}
	}
}

func runC07(c *Ctx) {
	c07Gates(c)
	c07WriteBoundary(c)
	c07Inbound(c)
	c07Flood(c)
}
