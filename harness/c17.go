package main

// C17 — SECS-I sends well-formed SEMI E4 blocks and delivers only complete messages.
//
// Function mode (through secs1's verif hooks): buildHeader / splitBody / block.appendTo / parseBlock /
// assembleFrame against the Lean model, and the real assembler (injected clock) against the model AND
// the independent E4 reference receiver (Spec/E4Receive.lean), over block sequences drawn from the
// property's alphabet. Scripted-peer mode lives in c17_peer.go.

import (
	"bytes"
	"encoding/hex"
	"fmt"
	"math/rand/v2"
	"strings"
	"time"

	"github.com/arloliu/go-secs/v2/secs1"
)

func init() {
	register("C17", "codec: header-field extremes x block-number extremes (buildHeader), body lengths 0,1,243..245,487..489,...,1219..1221 "+
		"+ random + real SECS-II encodings x header extremes (splitBody/appendTo/parseBlock), every single-byte corruption of sampled blocks, "+
		"random block lists (assembleFrame); assembler: inbound sequences over {next, duplicate, skipped, wrong field, wrong device, wrong direction, "+
		"bad checksum, bad length, block 0, T4 gap, restart, same-header message} exhaustively to length 4 (quick) / 5 (thorough) and randomly to 12 (quick) / 40 (thorough), "+
		"both roles; scripted peer: raw ENQ/EOT/ACK over net.Pipe against a real connection in both roles; "+
		"distinct = distinct op/argument text; non-trivial = at least one block crosses the codec or reaches the assembler", runC17)
}

func s1safely(f func()) (p any) {
	defer func() { p = recover() }()
	f()
	return nil
}

func s1clip(s string, n int) string {
	if len(s) <= n {
		return s
	}
	return s[:n] + fmt.Sprintf("…(%d chars)", len(s))
}

func s1hex(b []byte) string {
	if len(b) == 0 {
		return "-"
	}
	return hex.EncodeToString(b)
}

func b01(b bool) string {
	if b {
		return "1"
	}
	return "0"
}

func s1hdrArgs(h secs1.VerifHeader) string {
	return fmt.Sprintf("%d %s %d %d %s %s", h.DeviceID, b01(h.RBit), h.Stream, h.Function, b01(h.WaitBit), hex.EncodeToString(h.SystemBytes[:]))
}

// --- E4 reference arithmetic used by the implementation-side oracles (independent of the model) ---

type e4Fields struct {
	dev      uint16
	r        bool
	stream   uint8
	w        bool
	function uint8
	num      uint16
	e        bool
	sys      [4]byte
}

func e4Decode(h [10]byte) e4Fields {
	return e4Fields{
		dev: (uint16(h[0])<<8 | uint16(h[1])) & 0x7FFF, r: h[0]&0x80 != 0,
		stream: h[2] & 0x7F, w: h[2]&0x80 != 0, function: h[3],
		num: (uint16(h[4])<<8 | uint16(h[5])) & 0x7FFF, e: h[4]&0x80 != 0,
		sys: [4]byte{h[6], h[7], h[8], h[9]},
	}
}

func (f e4Fields) sameMessage(g e4Fields) bool {
	return f.dev == g.dev && f.r == g.r && f.stream == g.stream && f.w == g.w && f.function == g.function && f.sys == g.sys
}

func e4Sum(p []byte) uint16 {
	var s uint32
	for _, v := range p {
		s += uint32(v)
	}
	return uint16(s)
}

var c17Sys = [][4]byte{{0, 0, 0, 0}, {0xff, 0xff, 0xff, 0xff}, {0xde, 0xad, 0xbe, 0xef}, {0, 0, 0, 1}, {0x80, 0, 0, 0}}

func c17Headers(r *rand.Rand, valid bool) []secs1.VerifHeader {
	devs := []uint16{0, 1, 0x7f, 0x80, 0xff, 0x100, 0x1234, 0x7fff}
	streams := []uint8{0, 1, 0x3f, 0x7f}
	if !valid {
		devs = append(devs, 0x8000, 0x8001, 0xffff)
		streams = append(streams, 0x80, 0xff)
	}
	fns := []uint8{0, 1, 0x7f, 0x80, 0xff}
	var hs []secs1.VerifHeader
	for _, d := range devs {
		for _, s := range streams {
			for _, rb := range []bool{false, true} {
				for _, w := range []bool{false, true} {
					hs = append(hs, secs1.VerifHeader{DeviceID: d, RBit: rb, Stream: s, Function: fns[r.IntN(len(fns))], WaitBit: w, SystemBytes: c17Sys[r.IntN(len(c17Sys))]})
				}
			}
		}
	}
	for _, f := range fns {
		hs = append(hs, secs1.VerifHeader{DeviceID: 0x1234, RBit: true, Stream: 6, Function: f, WaitBit: true, SystemBytes: [4]byte{1, 2, 3, 4}})
	}
	return hs
}

func runC17(c *Ctx) {
	c17Consts(c)
	c17BuildHeader(c)
	c17Split(c)
	c17Corrupt(c)
	c17Frames(c)
	c17Assembler(c)
	c17Peer(c)
}

func c17Consts(c *Ctx) {
	k := secs1.VerifConsts()
	want := map[string]int{"maxBlockBodySize": 244, "blockHeaderSize": 10, "checksumSize": 2, "minBlockLength": 10, "maxBlockLength": 254,
		"maxBlockNumber": 32767, "enq": 5, "eot": 4, "ack": 6, "nak": 0x15}
	for n, v := range want {
		if k[n] != v {
			c.Violate("property", "e4-constant-"+n, fmt.Sprintf("%s = %d, SEMI E4 says %d", n, k[n], v), map[string]any{"const": n})
		}
	}
}

// ---------------------------------------------------------------- buildHeader

func c17BuildHeader(c *Ctx) {
	nums := []uint16{0, 1, 2, 0xff, 0x100, 0x1234, 0x7fff, 0x8000, 0xffff}
	var lines []string
	type hc struct {
		h    secs1.VerifHeader
		n    uint16
		last bool
		got  [10]byte
	}
	var cases []hc
	for _, h := range c17Headers(c.Rng, false) {
		for _, n := range nums {
			for _, last := range []bool{false, true} {
				got := secs1.VerifBuildHeader(h, n, last)
				cases = append(cases, hc{h, n, last, got})
				lines = append(lines, fmt.Sprintf("secs1.hdr %s %d %s", s1hdrArgs(h), n, b01(last)))
				c.Count(lines[len(lines)-1], true)
				c.Stat("hdr")
				// oracle: E4 field layout, for in-range values
				if h.DeviceID <= 0x7fff && h.Stream <= 0x7f && n <= 0x7fff {
					f := e4Decode(got)
					if f.dev != h.DeviceID || f.r != h.RBit || f.stream != h.Stream || f.w != h.WaitBit || f.function != h.Function ||
						f.num != n || f.e != last || f.sys != h.SystemBytes {
						c.Violate("property", "header-layout", fmt.Sprintf("buildHeader %+v n=%d last=%v -> %x does not carry the fields per E4 §8", h, n, last, got),
							map[string]any{"header": fmt.Sprintf("%+v", h), "blockNumber": n, "last": last})
					}
				}
			}
		}
	}
	if c.Lean != nil {
		ans := c.Lean.AskAll(lines)
		for i, a := range ans {
			if a != hex.EncodeToString(cases[i].got[:]) {
				c.Violate("correspondence", "buildHeader-model", fmt.Sprintf("impl %x model %s", cases[i].got, a), map[string]any{"op": lines[i]})
			}
		}
	}
}

// ---------------------------------------------------------------- splitBody / appendTo / parseBlock

func c17BodyLens(c *Ctx) []int {
	var ls []int
	ls = append(ls, 0, 1, 2)
	for k := 1; k <= 5; k++ {
		ls = append(ls, 244*k-1, 244*k, 244*k+1)
	}
	if c.Thorough() {
		for k := 6; k <= 9; k++ {
			ls = append(ls, 244*k-1, 244*k, 244*k+1)
		}
		ls = append(ls, 244*40, 244*40+1, 244*256-1, 244*256, 244*256+1)
	}
	for i := 0; i < c.Pick(12, 60); i++ {
		ls = append(ls, c.Rng.IntN(244*5+10))
	}
	return ls
}

func c17CheckSplit(c *Ctx, body []byte, h secs1.VerifHeader, tag string) (wires [][]byte, line string) {
	replay := map[string]any{"header": fmt.Sprintf("%+v", h), "bodyLen": len(body), "body": s1clip(s1hex(body), 600), "tag": tag}
	line = fmt.Sprintf("secs1.split %s %s", s1hdrArgs(h), s1hex(body))
	var blocks []secs1.VerifBlock
	var err error
	if p := s1safely(func() { blocks, err = secs1.VerifSplitBody(body, h) }); p != nil {
		c.Violate("property", "split-panic", fmt.Sprintf("splitBody panicked: %v", p), replay)
		return nil, line
	}
	if err != nil {
		c.Violate("property", "split-error", "splitBody rejected a valid header/body: "+err.Error(), replay)
		return nil, line
	}
	n := len(blocks)
	wantN := (len(body) + 243) / 244
	if wantN == 0 {
		wantN = 1
	}
	if n != wantN {
		c.Violate("property", "split-count", fmt.Sprintf("%d body bytes gave %d blocks, want %d", len(body), n, wantN), replay)
	}
	var cat []byte
	for i, b := range blocks {
		f := e4Decode(b.Header)
		if len(b.Body) > 244 {
			c.Violate("property", "split-body-over-244", fmt.Sprintf("block %d carries %d body bytes", i+1, len(b.Body)), replay)
		}
		if i < n-1 && len(b.Body) != 244 {
			c.Violate("property", "split-short-inner-block", fmt.Sprintf("non-final block %d carries %d body bytes", i+1, len(b.Body)), replay)
		}
		if int(f.num) != i+1 {
			c.Violate("property", "split-numbering", fmt.Sprintf("block at position %d numbered %d", i+1, f.num), replay)
		}
		if f.e != (i == n-1) {
			c.Violate("property", "split-ebit", fmt.Sprintf("E-bit=%v at position %d of %d", f.e, i+1, n), replay)
		}
		if f.dev != h.DeviceID || f.r != h.RBit || f.stream != h.Stream || f.function != h.Function || f.w != h.WaitBit || f.sys != h.SystemBytes {
			c.Violate("property", "split-header-fields", fmt.Sprintf("block %d header %x does not carry %+v", i+1, b.Header, h), replay)
		}
		cat = append(cat, b.Body...)
		// wire form, appended after a poisoned prefix with spare capacity
		prefix := []byte{0xaa, 0x55, 0x00}
		dst := make([]byte, len(prefix), len(prefix)+300)
		copy(dst, prefix)
		out := secs1.VerifAppendTo(dst, b)
		w := out[len(prefix):]
		if !bytes.Equal(out[:len(prefix)], prefix) {
			c.Violate("property", "appendTo-prefix", "appendTo changed the existing prefix", replay)
		}
		if len(w) != 1+10+len(b.Body)+2 || int(w[0]) != 10+len(b.Body) || !bytes.Equal(w[1:11], b.Header[:]) || !bytes.Equal(w[11:11+len(b.Body)], b.Body) {
			c.Violate("property", "wire-layout", fmt.Sprintf("block %d wire form %s is not [len][header][body][checksum]", i+1, s1clip(hex.EncodeToString(w), 80)), replay)
		} else if cs := e4Sum(w[1 : len(w)-2]); w[len(w)-2] != byte(cs>>8) || w[len(w)-1] != byte(cs) {
			c.Violate("property", "wire-checksum", fmt.Sprintf("block %d checksum %x, 16-bit sum of header+body is %04x", i+1, w[len(w)-2:], cs), replay)
		}
		wires = append(wires, append([]byte(nil), w...))
		// parse back
		pb, perr := secs1.VerifParseBlock(w[0], w[1:])
		if perr != nil || pb.Header != b.Header || !bytes.Equal(pb.Body, b.Body) {
			c.Violate("property", "parse-append", fmt.Sprintf("parseBlock(appendTo(block %d)) = %v, %v", i+1, pb, perr), replay)
		}
	}
	if !bytes.Equal(cat, body) {
		c.Violate("property", "split-concat", "block bodies do not concatenate to the message body", replay)
	}
	if len(body) == 0 && (n != 1 || len(blocks[0].Body) != 0) {
		c.Violate("property", "split-empty", "empty body did not give exactly one header-only block", replay)
	}
	return wires, line
}

func c17Split(c *Ctx) {
	r := c.Rng
	hs := c17Headers(r, true)
	type sc struct {
		wires [][]byte
		line  string
	}
	var cases []sc
	add := func(body []byte, h secs1.VerifHeader, tag string) {
		w, line := c17CheckSplit(c, body, h, tag)
		cases = append(cases, sc{w, line})
		c.Count(line, true)
		c.Stat("split:" + tag)
		c.StatN("split-blocks", len(w))
		if len(cases)%97 == 1 {
			c.Sample(map[string]any{"op": "split", "tag": tag, "bodyLen": len(body), "header": fmt.Sprintf("%+v", h), "blocks": len(w)})
		}
	}
	for i, n := range c17BodyLens(c) {
		// every length with a few headers; header extremes rotate through the lengths
		for k := 0; k < c.Pick(3, 8); k++ {
			add(genBytes(r, n), hs[(i*7+k*13)%len(hs)], "boundary-length")
		}
	}
	for _, h := range hs { // every header extreme with short and just-over-one-block bodies
		add(genBytes(r, r.IntN(4)), h, "header-extreme")
		add(genBytes(r, 244+r.IntN(3)), h, "header-extreme")
	}
	// bodies that are real SECS-II encodings
	for i := 0; i < c.Pick(150, 1500); i++ {
		budget := 1 + r.IntN(120)
		it := GenTree(r, r.IntN(5), &budget).Normalize()
		var body []byte
		if p := s1safely(func() { body = Build(it, r.IntN(6)).ToBytes() }); p != nil {
			continue
		}
		add(body, hs[r.IntN(len(hs))], "secs2-encoding")
	}
	// all-0xff bodies: the largest checksum a block can have (254*255 < 65536: no 16-bit wrap on valid blocks)
	add(bytes.Repeat([]byte{0xff}, 244), secs1.VerifHeader{DeviceID: 0x7fff, RBit: true, Stream: 0x7f, Function: 0xff, WaitBit: true, SystemBytes: [4]byte{0xff, 0xff, 0xff, 0xff}}, "max-checksum")
	add(bytes.Repeat([]byte{0xff}, 500), secs1.VerifHeader{DeviceID: 0x7fff, RBit: true, Stream: 0x7f, Function: 0xff, WaitBit: true, SystemBytes: [4]byte{0xff, 0xff, 0xff, 0xff}}, "max-checksum")

	if c.Lean != nil {
		lines := make([]string, len(cases))
		for i := range cases {
			lines[i] = cases[i].line
		}
		ans := c.Lean.AskAll(lines)
		for i, a := range ans {
			var sb strings.Builder
			fmt.Fprintf(&sb, "ok %d", len(cases[i].wires))
			for _, w := range cases[i].wires {
				sb.WriteByte(' ')
				sb.WriteString(hex.EncodeToString(w))
			}
			if a != sb.String() {
				c.Violate("correspondence", "split-wire-differs-from-model", fmt.Sprintf("impl %s / model %s", s1clip(sb.String(), 160), s1clip(a, 160)),
					map[string]any{"op": s1clip(lines[i], 1500)})
			}
		}
		c.Res.Traces += len(cases)
	}

	// rejected inputs and the size limit (counted only, the payload is not shipped to the model)
	type lc struct {
		dev    uint16
		stream uint8
		n      int
	}
	var lcs []lc
	for _, d := range []uint16{0x7fff, 0x8000, 0xffff} {
		for _, s := range []uint8{0x7f, 0x80, 0xff} {
			lcs = append(lcs, lc{d, s, 5})
		}
	}
	maxLen := 244 * 32767
	lcs = append(lcs, lc{1, 1, maxLen}, lc{1, 1, maxLen + 1}, lc{1, 1, maxLen - 1}, lc{0x8000, 1, maxLen + 1})
	big := make([]byte, maxLen+1)
	for _, k := range lcs {
		h := secs1.VerifHeader{DeviceID: k.dev, Stream: k.stream}
		n, total, err := secs1.VerifSplitCount(big[:k.n], h)
		got := "err " + secs1.VerifErrClass(err)
		if err == nil {
			got = fmt.Sprintf("ok %d", n)
			if total != k.n {
				c.Violate("property", "split-concat", fmt.Sprintf("blocks of a %d-byte body carry %d bytes", k.n, total), map[string]any{"len": k.n})
			}
		}
		wantErr := k.dev > 0x7fff || k.stream > 0x7f || k.n > maxLen
		if wantErr != (err != nil) {
			c.Violate("property", "split-validation", fmt.Sprintf("splitBody(dev=%#x stream=%#x len=%d) -> %s", k.dev, k.stream, k.n, got), map[string]any{"dev": k.dev, "stream": k.stream, "len": k.n})
		}
		line := fmt.Sprintf("secs1.splitlen %d %d %d", k.dev, k.stream, k.n)
		c.Count(line, true)
		c.Stat("split:limits")
		if c.Lean != nil {
			if a := c.Lean.Ask(line); a != got {
				c.Violate("correspondence", "split-limits-model", fmt.Sprintf("impl %s / model %s", got, a), map[string]any{"op": line})
			}
		}
	}
}

// ---------------------------------------------------------------- corruption and arbitrary bytes into parseBlock

func c17Corrupt(c *Ctx) {
	r := c.Rng
	var lines []string
	var got []string
	var replays []map[string]any
	try := func(w []byte, tag string, mustReject bool) {
		if len(w) == 0 {
			return
		}
		var res string
		var b secs1.VerifBlock
		var err error
		if p := s1safely(func() { b, err = secs1.VerifParseBlock(w[0], w[1:]) }); p != nil {
			c.Violate("property", "parse-panic", fmt.Sprintf("parseBlock panicked: %v", p), map[string]any{"wire": hex.EncodeToString(w)})
			return
		}
		if err != nil {
			res = "err " + secs1.VerifErrClass(err)
		} else {
			res = fmt.Sprintf("ok %s %s", hex.EncodeToString(b.Header[:]), s1hex(b.Body))
		}
		rp := map[string]any{"wire": s1clip(hex.EncodeToString(w), 700), "tag": tag}
		if mustReject && err == nil {
			c.Violate("property", "corruption-accepted", "a block with one corrupted byte was accepted by parseBlock", rp)
		}
		lines = append(lines, fmt.Sprintf("secs1.parse %02x %s", w[0], s1hex(w[1:])))
		got = append(got, res)
		replays = append(replays, rp)
		c.Count(lines[len(lines)-1], true)
		c.Stat("parse:" + tag)
		c.Stat("parse-result:" + strings.SplitN(res, " ", 3)[0] + ":" + func() string {
			if err != nil {
				return secs1.VerifErrClass(err)
			}
			return "block"
		}())
	}
	h := secs1.VerifHeader{DeviceID: 0x1234, RBit: true, Stream: 6, Function: 0x11, WaitBit: true, SystemBytes: [4]byte{0xde, 0xad, 0xbe, 0xef}}
	for _, n := range []int{0, 1, 7, 243, 244} {
		blocks, _ := secs1.VerifSplitBody(genBytes(r, n), h)
		w := secs1.VerifAppendTo(nil, blocks[0])
		try(w, "intact", false)
		step := 1
		if n > 20 && !c.Thorough() {
			step = 7
		}
		for pos := 0; pos < len(w); pos += step {
			for _, delta := range []byte{1, 0x80, 0xff, byte(1 + r.IntN(254))} {
				m := append([]byte(nil), w...)
				m[pos] += delta
				try(m, "one-byte-corrupted", true)
			}
		}
		// truncated / extended
		try(w[:len(w)-1], "truncated", true)
		try(append(append([]byte(nil), w...), 0), "extended", true)
	}
	// the two-byte compensating change the 16-bit sum cannot see (documented limit of the E4 checksum)
	{
		blocks, _ := secs1.VerifSplitBody([]byte{5, 9}, h)
		w := secs1.VerifAppendTo(nil, blocks[0])
		m := append([]byte(nil), w...)
		m[11]++
		m[12]--
		try(m, "two-byte-compensating", false)
	}
	// arbitrary bytes
	for i := 0; i < c.Pick(400, 6000); i++ {
		n := r.IntN(270)
		if r.IntN(3) == 0 {
			n = []int{0, 1, 2, 11, 12, 13, 255, 256, 257}[r.IntN(9)]
		}
		w := genBytes(r, n+1)
		switch r.IntN(4) {
		case 0:
			w[0] = byte(n - 2) // length byte agreeing with the data length
		case 1:
			w[0] = []byte{0, 9, 10, 11, 253, 254, 255}[r.IntN(7)]
		}
		if r.IntN(2) == 0 && len(w) >= 13 { // fix the checksum so the length logic is what decides
			p := w[1 : len(w)-2]
			cs := e4Sum(p)
			w[len(w)-2], w[len(w)-1] = byte(cs>>8), byte(cs)
		}
		try(w, "arbitrary", false)
	}
	if c.Lean != nil {
		ans := c.Lean.AskAll(lines)
		for i, a := range ans {
			if a != got[i] {
				c.Violate("correspondence", "parseBlock-differs-from-model", fmt.Sprintf("impl %s / model %s", s1clip(got[i], 120), s1clip(a, 120)), replays[i])
			}
		}
	}
}

// ---------------------------------------------------------------- assembleFrame on arbitrary block lists

func c17Frames(c *Ctx) {
	r := c.Rng
	var lines, got []string
	for i := 0; i < c.Pick(1500, 20000); i++ {
		n := r.IntN(5)
		h := secs1.VerifHeader{DeviceID: uint16(r.IntN(3)), RBit: r.IntN(2) == 0, Stream: uint8(r.IntN(3)), Function: uint8(r.IntN(2)), WaitBit: r.IntN(4) == 0, SystemBytes: c17Sys[r.IntN(2)]}
		var bs []secs1.VerifBlock
		var sb strings.Builder
		sb.WriteString("secs1.frame")
		for k := 0; k < n; k++ {
			hh := h
			num := uint16(k + 1)
			last := k == n-1
			switch r.IntN(14) {
			case 0:
				num = uint16(r.IntN(4))
			case 1:
				last = !last
			case 2:
				hh.SystemBytes[3] ^= 1
			case 3:
				hh.DeviceID++
			case 4:
				hh.WaitBit = !hh.WaitBit
			case 5:
				num = 0
			}
			b := secs1.VerifBlock{Header: secs1.VerifBuildHeader(hh, num, last), Body: genBytes(r, r.IntN(4))}
			bs = append(bs, b)
			fmt.Fprintf(&sb, " %s %s", hex.EncodeToString(b.Header[:]), s1hex(b.Body))
		}
		f, err := secs1.VerifAssembleFrame(bs)
		res := "err " + secs1.VerifErrClass(err)
		if err == nil {
			res = "ok " + s1hex(f)
		}
		if res == "err hdr" {
			res = "err header"
		}
		lines = append(lines, sb.String())
		got = append(got, res)
		c.Count(sb.String(), n > 0)
		c.Stat("frame:" + strings.SplitN(res, " ", 2)[0])
	}
	if c.Lean != nil {
		ans := c.Lean.AskAll(lines)
		for i, a := range ans {
			if a != got[i] {
				c.Violate("correspondence", "assembleFrame-differs-from-model", fmt.Sprintf("impl %s / model %s", s1clip(got[i], 120), s1clip(a, 120)), map[string]any{"op": lines[i]})
			}
		}
	}
}

// ---------------------------------------------------------------- assembler sequences

const (
	opNext = iota
	opDup
	opSkip
	opWrongField
	opWrongDev
	opWrongDir
	opBadChecksum
	opBadLength
	opBlock0
	opT4Gap
	opRestart
	opSameHeader
	opCount
)

var opNames = []string{"next", "dup", "skip", "wrongfield", "wrongdev", "wrongdir", "badchecksum", "badlength", "block0", "t4gap", "restart", "sameheader"}

// c17Event is one inbound wire block at an instant.
type c17Event struct {
	t    int64 // ns since the base
	wire []byte
	op   int
}

// c17Script turns an op list into the concrete inbound events a peer obeying (or violating) E4 would produce.
type c17Script struct {
	r        *rand.Rand
	isEquip  bool
	dev      uint16
	t4       int64
	now      int64
	sysCtr   uint32
	cur      secs1.VerifHeader // message being sent
	total    int               // blocks in the current message
	next     int               // next block number to send (1-based); > total = message finished
	lastWire []byte            // last intact block put on the line
	events   []c17Event
}

func (s *c17Script) newMessage(sameHeader bool) {
	if !sameHeader || s.total == 0 {
		s.sysCtr++
		s.cur = secs1.VerifHeader{DeviceID: s.dev, RBit: !s.isEquip, Stream: uint8(1 + s.r.IntN(3)), Function: uint8(1 + 2*s.r.IntN(2)), WaitBit: s.r.IntN(2) == 0,
			SystemBytes: [4]byte{byte(s.sysCtr >> 24), byte(s.sysCtr >> 16), byte(s.sysCtr >> 8), byte(s.sysCtr)}}
	}
	s.total = 1 + s.r.IntN(4)
	if sameHeader {
		s.total = 1 + s.r.IntN(2)
	}
	s.next = 1
}

func (s *c17Script) block(h secs1.VerifHeader, num int, last bool) secs1.VerifBlock {
	return secs1.VerifBlock{Header: secs1.VerifBuildHeader(h, uint16(num), last), Body: genBytes(s.r, s.r.IntN(4))}
}

func (s *c17Script) emit(b secs1.VerifBlock, op int, intact bool) {
	w := secs1.VerifAppendTo(nil, b)
	if intact {
		s.lastWire = w
	}
	s.events = append(s.events, c17Event{s.now, w, op})
}

func (s *c17Script) tick() {
	// small steps, with the exact T4 boundary appearing often
	switch s.r.IntN(8) {
	case 0:
		s.now += s.t4
	case 1:
		s.now += s.t4 - 1
	case 2:
		// no time passes
	default:
		s.now += 1 + s.r.Int64N(s.t4/4+1)
	}
}

func (s *c17Script) apply(op int) {
	if s.total == 0 || s.next > s.total {
		s.newMessage(false)
	}
	s.tick()
	cur := func() secs1.VerifBlock { return s.block(s.cur, s.next, s.next == s.total) }
	switch op {
	case opNext:
		s.emit(cur(), op, true)
		s.next++
	case opDup:
		if s.lastWire == nil {
			s.emit(cur(), op, true)
			s.next++
			return
		}
		s.events = append(s.events, c17Event{s.now, s.lastWire, op})
	case opSkip:
		s.next++
		s.emit(s.block(s.cur, s.next, s.next >= s.total), op, true)
		s.next++
	case opWrongField:
		h := s.cur
		switch s.r.IntN(4) {
		case 0:
			h.Stream ^= 0x40
		case 1:
			h.Function ^= 0x10
		case 2:
			h.WaitBit = !h.WaitBit
		default:
			h.SystemBytes[s.r.IntN(4)] ^= 0x20
		}
		s.emit(s.block(h, s.next, s.next == s.total), op, true)
		s.next++
	case opWrongDev:
		h := s.cur
		h.DeviceID ^= uint16(1 << s.r.IntN(15))
		s.emit(s.block(h, s.next, s.next == s.total), op, true)
	case opWrongDir:
		h := s.cur
		h.RBit = !h.RBit
		s.emit(s.block(h, s.next, s.next == s.total), op, true)
	case opBadChecksum:
		w := secs1.VerifAppendTo(nil, cur())
		w[1+s.r.IntN(len(w)-1)] += byte(1 + s.r.IntN(255))
		s.events = append(s.events, c17Event{s.now, w, op})
	case opBadLength:
		w := secs1.VerifAppendTo(nil, cur())
		w[0] = []byte{0, 9, w[0] + 1, w[0] - 1, 255}[s.r.IntN(5)]
		s.events = append(s.events, c17Event{s.now, w, op})
	case opBlock0:
		last := s.r.IntN(3) != 0
		s.newMessage(false)
		s.emit(s.block(s.cur, 0, last), op, true)
		s.next = s.total + 1
	case opT4Gap:
		s.now += s.t4 + 1 + s.r.Int64N(s.t4)
		s.emit(cur(), op, true)
		s.next++
	case opRestart:
		s.newMessage(false)
		s.emit(cur(), op, true)
		s.next++
	case opSameHeader:
		s.newMessage(true)
		s.emit(cur(), op, true)
		s.next++
	}
}

// e4Ref is the harness's own (Go) E4 receive rule used as the implementation-side property oracle:
// which frames must have been delivered after each block.
type e4Ref struct {
	isEquip bool
	dev     uint16
	t4      int64
	have    bool
	last    [10]byte
	part    []secs1.VerifBlock
	partAt  int64
}

func (r *e4Ref) step(t int64, b secs1.VerifBlock) []byte {
	f := e4Decode(b.Header)
	if f.dev != r.dev || f.r == r.isEquip {
		return nil
	}
	if len(r.part) > 0 && t-r.partAt > r.t4 {
		r.part = nil
	}
	if r.have && r.last == b.Header {
		return nil
	}
	cont := len(r.part) > 0 && int(f.num) == len(r.part)+1 && f.sameMessage(e4Decode(r.part[0].Header))
	switch {
	case cont:
		r.part = append(r.part, b)
	case f.num == 1 || (f.num == 0 && f.e):
		r.part = []secs1.VerifBlock{b}
	default:
		r.part = nil
		return nil
	}
	r.have, r.last, r.partAt = true, b.Header, t
	if !f.e {
		return nil
	}
	frame := []byte{byte(f.dev >> 8), byte(f.dev), b.Header[2], f.function, 0, 0, f.sys[0], f.sys[1], f.sys[2], f.sys[3]}
	for _, p := range r.part {
		frame = append(frame, p.Body...)
	}
	r.part = nil
	return frame
}

type c17SeqResult struct {
	implTrace []string // per accepted block: observable events @ open state
	implDeliv []string // per accepted block: "-" or D:hex
	asmLine   string
	specLine  string
	ops       []string
}

func metricVec(m *secs1.ConnectionMetrics) [6]uint64 {
	return [6]uint64{m.DeviceIDMismatchCount(), m.BlockDirDropCount(), m.PartialTimeoutCount(), m.BlockDupDropCount(), m.BlockNumberMismatchCount(), m.InvalidFirstBlockCount()}
}

// c17RunSeq feeds one scripted sequence through parseBlock + the real assembler, checks the E4 oracle, and
// returns what the model must reproduce.
func c17RunSeq(c *Ctx, isEquip bool, dev uint16, t4 int64, ops []int, seed uint64) *c17SeqResult {
	s := &c17Script{r: rand.New(rand.NewPCG(seed, 17)), isEquip: isEquip, dev: dev, t4: t4}
	for _, op := range ops {
		s.apply(op)
	}
	res := &c17SeqResult{}
	for _, op := range ops {
		res.ops = append(res.ops, opNames[op])
	}
	replay := map[string]any{"isEquip": isEquip, "deviceID": dev, "t4_ns": t4, "ops": res.ops, "script_seed": seed}
	var evs []string
	for _, e := range s.events {
		evs = append(evs, fmt.Sprintf("%d:%s", e.t, hex.EncodeToString(e.wire)))
	}
	replay["events"] = evs
	va, err := secs1.NewVerifAssembler(isEquip, dev, time.Duration(t4))
	if err != nil {
		c.Violate("property", "assembler-construct", err.Error(), replay)
		return nil
	}
	ref := &e4Ref{isEquip: isEquip, dev: dev, t4: t4}
	var sbA, sbS strings.Builder
	fmt.Fprintf(&sbA, "secs1.asm %s %d %d", b01(isEquip), dev, t4)
	fmt.Fprintf(&sbS, "secs1.spec %s %d %d", b01(isEquip), dev, t4)
	for i, e := range s.events {
		b, perr := secs1.VerifParseBlock(e.wire[0], e.wire[1:])
		if perr != nil {
			c.Stat("asm-event:rejected-by-parseBlock")
			if e.op != opBadChecksum && e.op != opBadLength {
				c.Violate("property", "valid-block-rejected", fmt.Sprintf("event %d (%s): parseBlock rejected an intact block: %v", i, opNames[e.op], perr), replay)
			}
			continue // never reaches the assembler: NAKed by the line layer
		}
		if e.op == opBadChecksum || e.op == opBadLength {
			c.Violate("property", "corruption-accepted", fmt.Sprintf("event %d (%s): corrupt block accepted by parseBlock", i, opNames[e.op]), replay)
		}
		before := metricVec(va.Metrics())
		nd, nv := len(va.Delivered), len(va.Violations)
		va.SetNow(time.Duration(e.t))
		var aerr error
		if p := s1safely(func() { aerr = va.Accept(b) }); p != nil {
			c.Violate("property", "accept-panic", fmt.Sprintf("event %d (%s): accept panicked: %v", i, opNames[e.op], p), replay)
			return nil
		}
		if aerr != nil {
			c.Violate("property", "accept-returned-error", fmt.Sprintf("event %d (%s): accept returned %v (would be a failed inbound message)", i, opNames[e.op], aerr), replay)
		}
		after := metricVec(va.Metrics())
		var tr []string
		names := []string{"dev", "dir", "t4", "dup", "mm", "if"}
		viol := va.Violations[nv:]
		vi := 0
		for k := range names {
			d := after[k] - before[k]
			if d > 1 {
				c.Violate("property", "counter-double-increment", fmt.Sprintf("event %d: counter %s grew by %d for one block", i, names[k], d), replay)
			}
			if d == 0 {
				continue
			}
			switch names[k] {
			case "mm":
				v := "?"
				if vi < len(viol) {
					v = map[string]string{"number": "num", "hdr": "hdr"}[viol[vi]]
					vi++
				}
				tr = append(tr, "mm:"+v)
			case "dev":
				if vi < len(viol) && viol[vi] == "dev" {
					vi++
				} else {
					tr = append(tr, "dev-unreported")
				}
				tr = append(tr, "dev")
			case "if":
				if vi < len(viol) && viol[vi] == "first" {
					vi++
				} else {
					tr = append(tr, "if-unreported")
				}
				tr = append(tr, "if")
			default:
				tr = append(tr, names[k])
			}
		}
		if vi != len(viol) {
			tr = append(tr, fmt.Sprintf("extra-notify:%v", viol[vi:]))
		}
		deliv := "-"
		if len(va.Delivered) > nd+1 {
			c.Violate("property", "two-deliveries-for-one-block", fmt.Sprintf("event %d delivered %d frames", i, len(va.Delivered)-nd), replay)
		}
		var got []byte
		if len(va.Delivered) > nd {
			got = va.Delivered[nd]
			deliv = "D:" + hex.EncodeToString(got)
			tr = append(tr, deliv)
		}
		open, nb := va.Open()
		st := "-"
		if open {
			st = fmt.Sprint(nb)
		}
		res.implTrace = append(res.implTrace, strings.Join(tr, ",")+"@"+st)
		res.implDeliv = append(res.implDeliv, deliv)
		// the property's own oracle
		want := ref.step(e.t, b)
		if !bytes.Equal(want, got) {
			what := "delivered-not-per-E4"
			switch {
			case want == nil && e.op == opDup:
				what = "duplicate-redelivered"
			case want == nil:
				what = "incomplete-or-foreign-message-delivered"
			case got == nil:
				what = "complete-message-not-delivered"
			}
			c.Violate("property", what, fmt.Sprintf("event %d (%s): E4 says %s, assembler delivered %s", i, opNames[e.op], s1clip(s1hex(want), 80), s1clip(s1hex(got), 80)), replay)
		}
		c.Stat("asm-event:" + opNames[e.op])
		if got != nil {
			c.Stat("asm-delivered")
		}
		fmt.Fprintf(&sbA, " %d %s %s", e.t, hex.EncodeToString(b.Header[:]), s1hex(b.Body))
		fmt.Fprintf(&sbS, " %d %s %s", e.t, hex.EncodeToString(b.Header[:]), s1hex(b.Body))
	}
	res.asmLine, res.specLine = sbA.String(), sbS.String()
	return res
}

// modelObservable strips the model-internal events (st/ap/ifs) that have no counterpart observable through
// metrics, notify, deliveries and the open-partial state.
func modelObservable(tr string) string {
	at := strings.LastIndexByte(tr, '@')
	if at < 0 {
		return tr
	}
	var keep []string
	for _, e := range strings.Split(tr[:at], ",") {
		if e == "st" || e == "ap" || e == "ifs" || e == "" {
			continue
		}
		keep = append(keep, e)
	}
	return strings.Join(keep, ",") + tr[at:]
}

func c17Assembler(c *Ctx) {
	type job struct {
		res    *c17SeqResult
		replay map[string]any
	}
	var jobs []job
	run := func(isEquip bool, dev uint16, t4 int64, ops []int, seed uint64, tag string) {
		res := c17RunSeq(c, isEquip, dev, t4, ops, seed)
		if res == nil {
			return
		}
		key := fmt.Sprintf("%v|%d|%d|%d|%v", isEquip, dev, t4, seed, ops)
		c.Count(key, len(res.implTrace) > 0)
		c.Stat("asm-seq:" + tag)
		c.StatN("asm-seq-len-total", len(ops))
		if len(jobs)%3001 == 7 {
			c.Sample(map[string]any{"op": "assembler", "tag": tag, "isEquip": isEquip, "ops": res.ops, "impl": res.implTrace})
		}
		jobs = append(jobs, job{res, map[string]any{"isEquip": isEquip, "deviceID": dev, "t4_ns": t4, "ops": res.ops, "script_seed": seed,
			"asm_op": s1clip(res.asmLine, 3000)}})
	}
	r := c.Rng
	// exhaustive over the alphabet to length 3 (quick) / 4 (thorough), both roles
	maxExh := c.Pick(4, 5)
	var rec func(prefix []int)
	rec = func(prefix []int) {
		if len(prefix) > 0 {
			run(len(prefix)%2 == 0, 0x1234, 1000, append([]int(nil), prefix...), uint64(len(jobs))+c.Seed*1000003, "exhaustive")
		}
		if len(prefix) == maxExh {
			return
		}
		for op := 0; op < opCount; op++ {
			rec(append(prefix, op))
		}
	}
	rec(nil)
	// random, weighted towards progress so messages complete
	maxLen := c.Pick(12, 40)
	for i := 0; i < c.Pick(6000, 60000); i++ {
		n := 1 + r.IntN(maxLen)
		ops := make([]int, n)
		for k := range ops {
			if r.IntN(5) < 2 {
				ops[k] = opNext
			} else {
				ops[k] = r.IntN(opCount)
			}
		}
		dev := []uint16{0, 1, 0x1234, 0x7fff}[r.IntN(4)]
		t4 := []int64{1, 1000, 45_000_000_000}[r.IntN(3)]
		run(r.IntN(2) == 0, dev, t4, ops, r.Uint64(), "random")
	}
	if c.Lean == nil {
		return
	}
	lines := make([]string, 0, 2*len(jobs))
	for _, j := range jobs {
		lines = append(lines, j.res.asmLine, j.res.specLine)
	}
	ans := c.Lean.AskAll(lines)
	for i, j := range jobs {
		ma, ms := ans[2*i], ans[2*i+1]
		var mtr, msp []string
		if len(j.res.implTrace) > 0 {
			mtr = strings.Split(ma, ";")
			msp = strings.Split(ms, ";")
		}
		for k := range mtr {
			mtr[k] = modelObservable(mtr[k])
		}
		if strings.Join(mtr, ";") != strings.Join(j.res.implTrace, ";") {
			c.Violate("correspondence", "assembler-differs-from-model", fmt.Sprintf("impl %s / model %s", s1clip(strings.Join(j.res.implTrace, ";"), 300), s1clip(strings.Join(mtr, ";"), 300)), j.replay)
		}
		if strings.Join(msp, ";") != strings.Join(j.res.implDeliv, ";") {
			c.Violate("correspondence", "assembler-differs-from-E4-spec", fmt.Sprintf("impl %s / E4 reference receiver %s", s1clip(strings.Join(j.res.implDeliv, ";"), 300), s1clip(strings.Join(msp, ";"), 300)), j.replay)
		}
	}
	c.Res.Traces += len(jobs)
}
