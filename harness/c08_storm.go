package main

// C08, a reject storm against a peer that is slow to read: every offending frame is answered with its Reject.req, for
// all finite frame sequences — also when the answers back up behind a full send queue. Over net.Pipe (a write blocks
// until the peer reads), with a small send queue: the peer writes far more offending frames than the queue holds,
// reads nothing for a while, then reads everything. The answers must be exactly one Reject.req per offending frame, in
// order, with the prescribed reason, offending type byte and system bytes. Added after seeded change C08f-2 (the Reject
// enqueue bounded by a short timeout: answers silently dropped while the queue is full).

import (
	"encoding/binary"
	"fmt"
	"io"
	"time"

	"github.com/arloliu/go-secs/v2/hsms"
)

func c08Storm(c *Ctx) {
	for _, passive := range []bool{true, false} {
		var bad, detail string
		var info map[string]any
		for _, scale := range []int{1, 3} {
			bad, detail, info = c08StormRun(passive, scale)
			if bad == "" {
				break
			}
			c.Stat("reject-storm:retry")
		}
		c.Count(fmt.Sprintf("reject-storm|%v", passive), true)
		c.Stat("reject-storm")
		if bad != "" {
			kind := "property"
			if bad == "script-run-failed" {
				kind = "correspondence"
			}
			c.Violate(kind, bad, detail, info)
		}
	}
}

func c08StormRun(passive bool, scale int) (string, string, map[string]any) {
	const n = 40
	conn, client, err := c04OpenPipeRole(passive, nil, hsms.WithSenderQueueSize(4), hsms.WithT8(20*time.Second), hsms.WithT6(20*time.Second),
		hsms.WithLinktestInterval(time.Hour), hsms.WithWriteTimeout(30*time.Second))
	if err != nil {
		return "script-run-failed", "cannot bring a pipe connection to Selected: " + err.Error(), nil
	}
	defer conn.Close()
	defer client.Close()
	info := map[string]any{"role_passive": passive, "offending_frames": n, "send_queue": 4, "peer_silent_ms": 700 * scale}
	// offending frames: undefined SType 11 / 200, unsupported PType 3, Linktest.rsp with no open transaction
	type exp struct{ b2, b3 byte }
	var frames []PFrame
	var want []exp
	for k := 0; k < n; k++ {
		sys := sysOf(uint32(0x5a000000 + k))
		switch k % 4 {
		case 0:
			frames, want = append(frames, mkFrame(0xFFFF, 0, 0, 0, 11, sys, nil)), append(want, exp{11, 1})
		case 1:
			frames, want = append(frames, mkFrame(0xFFFF, 0, 0, 3, 0, sys, nil)), append(want, exp{3, 2})
		case 2:
			frames, want = append(frames, mkFrame(0xFFFF, 0, 0, 0, 6, sys, nil)), append(want, exp{6, 3})
		default:
			frames, want = append(frames, mkFrame(0xFFFF, 0, 0, 0, 200, sys, nil)), append(want, exp{200, 1})
		}
	}
	wrote := make(chan error, 1)
	go func() {
		_ = client.SetWriteDeadline(time.Now().Add(time.Duration(20*scale) * time.Second))
		for _, f := range frames {
			if _, err := client.Write(f.Wire()); err != nil {
				wrote <- err
				return
			}
		}
		wrote <- nil
	}()
	time.Sleep(time.Duration(700*scale) * time.Millisecond) // the peer reads nothing: the answers back up
	var got []string
	_ = client.SetReadDeadline(time.Now().Add(time.Duration(6*scale) * time.Second))
	for len(got) < n {
		var lp [4]byte
		if _, err := io.ReadFull(client, lp[:]); err != nil {
			break
		}
		l := binary.BigEndian.Uint32(lp[:])
		if l < 10 || l > 1<<16 {
			return "script-run-failed", fmt.Sprintf("library wrote a frame with length %d", l), info
		}
		b := make([]byte, l)
		if _, err := io.ReadFull(client, b); err != nil {
			break
		}
		got = append(got, fmt.Sprintf("%x", b))
	}
	select {
	case err := <-wrote:
		if err != nil {
			return "script-run-failed", "the peer could not write its frames: " + err.Error(), info
		}
	case <-time.After(time.Duration(5*scale) * time.Second):
		info["answers"] = got
		return "offending-frame-not-consumed", fmt.Sprintf("the library stopped reading: the peer is still blocked writing its %d offending frames after reading %d answers", n, len(got)), info
	}
	info["answers_read"] = len(got)
	for k := 0; k < n; k++ {
		w := fmt.Sprintf("ffff%02x%02x0007%08x", want[k].b2, want[k].b3, 0x5a000000+k)
		if k >= len(got) {
			info["answers"] = got
			return "offending-frame-not-rejected", fmt.Sprintf("the peer wrote %d offending frames and was slow to read; only %d Reject.req came back — frame %d (%s) has no answer (the link is up, state %v)",
				n, len(got), k, frames[k].Text(), conn.State()), info
		}
		if got[k] != w {
			info["answers"] = got
			return "offending-frame-not-rejected", fmt.Sprintf("answer %d is %s, want Reject.req %s for offending frame %s (an answer is missing or out of order)", k, got[k], w, frames[k].Text()), info
		}
	}
	return "", "", info
}
