package main

import (
	"encoding/hex"
	"fmt"
	"math"
	"math/rand/v2"
	"strconv"
	"strings"

	"github.com/arloliu/go-secs/v2/secs2"
)

// LItem is the harness-side logical item value, mirroring the Lean `Item` type.
type LItem struct {
	Kind  string // E L B O A J W I U F
	W     int    // byte width for I U F
	Kids  []*LItem
	Bytes []byte   // B A J W payload; O as 0/1 bytes
	LSH   uint16   // W
	Ints  []int64  // I
	Uints []uint64 // U
	Bits  []uint64 // F (bit patterns; F4 in low 32 bits)
}

func hexs(b []byte) string {
	if len(b) == 0 {
		return "-"
	}
	return hex.EncodeToString(b)
}

func floatTok(w int, bits uint64) string {
	if w == 4 {
		if f := math.Float32frombits(uint32(bits)); f != f {
			return "nan"
		}
	} else if f := math.Float64frombits(bits); f != f {
		return "nan"
	}
	return strconv.FormatUint(bits, 10)
}

// Text renders the protocol text of a logical item with exact float bit patterns (what the model encodes).
func (it *LItem) Text() string {
	var sb strings.Builder
	it.text(&sb, false)
	return sb.String()
}

// TextCanon renders the protocol text with every NaN written as "nan" (NaN payloads are not part
// of the logical value: Equal treats all NaNs alike and the accessors widen through float64).
func (it *LItem) TextCanon() string {
	var sb strings.Builder
	it.text(&sb, true)
	return sb.String()
}

func (it *LItem) text(sb *strings.Builder, canon bool) {
	switch it.Kind {
	case "E":
		sb.WriteString("E")
	case "L":
		fmt.Fprintf(sb, "L %d", len(it.Kids))
		for _, k := range it.Kids {
			sb.WriteByte(' ')
			k.text(sb, canon)
		}
	case "B", "O", "A", "J":
		sb.WriteString(it.Kind + " " + hexs(it.Bytes))
	case "W":
		fmt.Fprintf(sb, "W %d %s", it.LSH, hexs(it.Bytes))
	case "I":
		fmt.Fprintf(sb, "I%d %d", it.W, len(it.Ints))
		for _, v := range it.Ints {
			sb.WriteByte(' ')
			sb.WriteString(strconv.FormatInt(v, 10))
		}
	case "U":
		fmt.Fprintf(sb, "U%d %d", it.W, len(it.Uints))
		for _, v := range it.Uints {
			sb.WriteByte(' ')
			sb.WriteString(strconv.FormatUint(v, 10))
		}
	case "F":
		fmt.Fprintf(sb, "F%d %d", it.W, len(it.Bits))
		for _, v := range it.Bits {
			sb.WriteByte(' ')
			if canon {
				sb.WriteString(floatTok(it.W, v))
			} else {
				sb.WriteString(strconv.FormatUint(v, 10))
			}
		}
	}
}

func (it *LItem) Depth() int {
	if it.Kind != "L" {
		return 0
	}
	d := 0
	for _, k := range it.Kids {
		if kd := k.Depth(); kd > d {
			d = kd
		}
	}
	return d + 1
}

// Normalize is what NewListItem makes of the supplied children: empty (and nil) children are
// skipped at every level. A top-level empty item stays.
func (it *LItem) Normalize() *LItem {
	if it.Kind != "L" {
		return it
	}
	out := &LItem{Kind: "L"}
	for _, k := range it.Kids {
		if k.Kind == "E" {
			continue
		}
		out.Kids = append(out.Kids, k.Normalize())
	}
	return out
}

func (it *LItem) HasEmpty() bool {
	if it.Kind == "E" {
		return true
	}
	for _, k := range it.Kids {
		if k.HasEmpty() {
			return true
		}
	}
	return false
}

// Describe renders a real secs2.Item through its public accessors into the protocol text.
// It returns an error string (prefixed "!") when an accessor misbehaves.
func Describe(it secs2.Item) string {
	var sb strings.Builder
	describe(&sb, it)
	return sb.String()
}

func describe(sb *strings.Builder, it secs2.Item) {
	switch {
	case it == nil:
		sb.WriteString("!nil")
	case it.IsEmpty():
		sb.WriteString("E")
	case it.IsList():
		kids, err := it.ToList()
		if err != nil {
			sb.WriteString("!ToList:" + err.Error())
			return
		}
		fmt.Fprintf(sb, "L %d", it.Size())
		if it.Size() != len(kids) {
			sb.WriteString("!size-mismatch")
		}
		for _, k := range kids {
			sb.WriteByte(' ')
			describe(sb, k)
		}
	case it.IsBinary():
		b, err := it.ToBinary()
		if err != nil {
			sb.WriteString("!ToBinary")
			return
		}
		sb.WriteString("B " + hexs(b))
	case it.IsBoolean():
		bs, err := it.ToBoolean()
		if err != nil {
			sb.WriteString("!ToBoolean")
			return
		}
		raw := make([]byte, len(bs))
		for i, v := range bs {
			if v {
				raw[i] = 1
			}
		}
		sb.WriteString("O " + hexs(raw))
	case it.IsASCII():
		s, err := it.ToASCII()
		if err != nil {
			sb.WriteString("!ToASCII")
			return
		}
		sb.WriteString("A " + hexs([]byte(s)))
	case it.IsJIS8():
		s, err := it.ToJIS8()
		if err != nil {
			sb.WriteString("!ToJIS8")
			return
		}
		sb.WriteString("J " + hexs([]byte(s)))
	case it.IsLocalizedStr():
		s, err := it.ToLocalizedStr()
		h, err2 := it.ToLocalizedStrHeader()
		if err != nil || err2 != nil {
			sb.WriteString("!ToLocalizedStr")
			return
		}
		fmt.Fprintf(sb, "W %d %s", h, hexs([]byte(s)))
	case it.IsInt8() || it.IsInt16() || it.IsInt32() || it.IsInt64():
		vs, err := it.ToInt()
		if err != nil {
			sb.WriteString("!ToInt")
			return
		}
		fmt.Fprintf(sb, "I%d %d", intWidth(it), len(vs))
		for _, v := range vs {
			sb.WriteByte(' ')
			sb.WriteString(strconv.FormatInt(v, 10))
		}
	case it.IsUint8() || it.IsUint16() || it.IsUint32() || it.IsUint64():
		vs, err := it.ToUint()
		if err != nil {
			sb.WriteString("!ToUint")
			return
		}
		fmt.Fprintf(sb, "U%d %d", intWidth(it), len(vs))
		for _, v := range vs {
			sb.WriteByte(' ')
			sb.WriteString(strconv.FormatUint(v, 10))
		}
	case it.IsFloat32() || it.IsFloat64():
		vs, err := it.ToFloat()
		if err != nil {
			sb.WriteString("!ToFloat")
			return
		}
		w := 8
		if it.IsFloat32() {
			w = 4
		}
		fmt.Fprintf(sb, "F%d %d", w, len(vs))
		for _, v := range vs {
			sb.WriteByte(' ')
			if w == 4 {
				sb.WriteString(floatTok(4, uint64(math.Float32bits(float32(v)))))
			} else {
				sb.WriteString(floatTok(8, math.Float64bits(v)))
			}
		}
	default:
		sb.WriteString("!unknown-type:" + it.Type())
	}
}

func intWidth(it secs2.Item) int {
	switch {
	case it.IsInt8(), it.IsUint8():
		return 1
	case it.IsInt16(), it.IsUint16():
		return 2
	case it.IsInt32(), it.IsUint32():
		return 4
	}
	return 8
}

// ---------- building real items from logical ones, through varied constructor argument shapes ----------

// Build constructs the real item for a logical value. shape selects how arguments are passed:
// 0 typed slice, 1 individual scalars of the natural 64-bit type, 2 narrowest Go types mixed,
// 3 decimal strings, 4 []string / hex strings where supported, 5 shortcut functions.
func Build(it *LItem, shape int) secs2.Item {
	switch it.Kind {
	case "E":
		return secs2.NewEmptyItem()
	case "L":
		kids := make([]secs2.Item, len(it.Kids))
		for i, k := range it.Kids {
			kids[i] = Build(k, shape)
		}
		if shape == 5 {
			return secs2.L(kids...)
		}
		return secs2.NewListItem(kids...)
	case "B":
		switch shape % 3 {
		case 0:
			return secs2.NewBinaryItem(append([]byte(nil), it.Bytes...))
		case 1:
			args := make([]any, len(it.Bytes))
			for i, b := range it.Bytes {
				if i%2 == 0 {
					args[i] = int(b)
				} else {
					args[i] = b
				}
			}
			return secs2.NewBinaryItem(args...)
		default:
			args := make([]any, len(it.Bytes))
			for i, b := range it.Bytes {
				if i%2 == 0 {
					args[i] = fmt.Sprintf("0x%x", b)
				} else {
					args[i] = strconv.Itoa(int(b))
				}
			}
			return secs2.B(args...)
		}
	case "O":
		bs := make([]bool, len(it.Bytes))
		for i, b := range it.Bytes {
			bs[i] = b != 0
		}
		if shape%2 == 0 {
			return secs2.NewBooleanItem(bs)
		}
		args := make([]any, len(bs))
		for i, b := range bs {
			args[i] = b
		}
		return secs2.BOOLEAN(args...)
	case "A":
		if shape == 5 {
			return secs2.A(string(it.Bytes))
		}
		return secs2.NewASCIIItem(string(it.Bytes))
	case "J":
		if shape == 5 {
			return secs2.J(string(it.Bytes))
		}
		return secs2.NewJIS8Item(string(it.Bytes))
	case "W":
		return secs2.NewLocalizedStrItem(it.LSH, string(it.Bytes))
	case "I":
		return secs2.NewIntItem(it.W, intArgs(it.Ints, shape)...)
	case "U":
		return secs2.NewUintItem(it.W, uintArgs(it.Uints, shape)...)
	case "F":
		return secs2.NewFloatItem(it.W, floatArgs(it.W, it.Bits, shape)...)
	}
	panic("bad kind " + it.Kind)
}

func intArgs(vs []int64, shape int) []any {
	switch shape {
	case 0:
		return []any{append([]int64(nil), vs...)}
	case 1:
		out := make([]any, len(vs))
		for i, v := range vs {
			out[i] = v
		}
		return out
	case 2:
		out := make([]any, len(vs))
		for i, v := range vs {
			switch {
			case v >= 0 && v <= math.MaxUint8 && i%2 == 0:
				out[i] = uint8(v)
			case v >= math.MinInt8 && v <= math.MaxInt8:
				out[i] = int8(v)
			case v >= 0 && v <= math.MaxUint16 && i%2 == 0:
				out[i] = uint16(v)
			case v >= math.MinInt16 && v <= math.MaxInt16:
				out[i] = int16(v)
			case v >= 0 && v <= math.MaxUint32 && i%2 == 0:
				out[i] = uint32(v)
			case v >= math.MinInt32 && v <= math.MaxInt32:
				out[i] = int32(v)
			case v >= 0 && i%3 == 0:
				out[i] = uint64(v)
			case v >= 0 && i%3 == 1:
				out[i] = uint(v)
			default:
				out[i] = int(v)
			}
		}
		return out
	case 3:
		out := make([]any, len(vs))
		for i, v := range vs {
			out[i] = strconv.FormatInt(v, 10)
		}
		return out
	case 4:
		ss := make([]string, len(vs))
		for i, v := range vs {
			if v >= 0 && i%2 == 0 {
				ss[i] = "0x" + strconv.FormatInt(v, 16)
			} else {
				ss[i] = strconv.FormatInt(v, 10)
			}
		}
		return []any{ss}
	default:
		// mixed: a slice then scalars
		if len(vs) < 2 {
			return intArgs(vs, 1)
		}
		h := len(vs) / 2
		out := []any{append([]int64(nil), vs[:h]...)}
		for _, v := range vs[h:] {
			out = append(out, int(v))
		}
		return out
	}
}

func uintArgs(vs []uint64, shape int) []any {
	switch shape {
	case 0:
		return []any{append([]uint64(nil), vs...)}
	case 1:
		out := make([]any, len(vs))
		for i, v := range vs {
			out[i] = v
		}
		return out
	case 2:
		out := make([]any, len(vs))
		for i, v := range vs {
			switch {
			case v <= math.MaxInt8 && i%2 == 1:
				out[i] = int8(v)
			case v <= math.MaxUint8:
				out[i] = uint8(v)
			case v <= math.MaxInt16 && i%2 == 1:
				out[i] = int16(v)
			case v <= math.MaxUint16:
				out[i] = uint16(v)
			case v <= math.MaxInt32 && i%2 == 1:
				out[i] = int32(v)
			case v <= math.MaxUint32:
				out[i] = uint32(v)
			case v <= math.MaxInt64 && i%3 == 0:
				out[i] = int64(v)
			case v <= math.MaxInt64 && i%3 == 1:
				out[i] = int(v)
			default:
				out[i] = uint(v)
			}
		}
		return out
	case 3:
		out := make([]any, len(vs))
		for i, v := range vs {
			out[i] = strconv.FormatUint(v, 10)
		}
		return out
	case 4:
		ss := make([]string, len(vs))
		for i, v := range vs {
			if i%2 == 0 {
				ss[i] = "0x" + strconv.FormatUint(v, 16)
			} else {
				ss[i] = strconv.FormatUint(v, 10)
			}
		}
		return []any{ss}
	default:
		if len(vs) < 2 {
			return uintArgs(vs, 1)
		}
		h := len(vs) / 2
		out := []any{append([]uint64(nil), vs[:h]...)}
		for _, v := range vs[h:] {
			out = append(out, v)
		}
		return out
	}
}

func floatArgs(w int, bits []uint64, shape int) []any {
	f64 := func(b uint64) float64 {
		if w == 4 {
			return float64(math.Float32frombits(uint32(b)))
		}
		return math.Float64frombits(b)
	}
	switch shape {
	case 0:
		fs := make([]float64, len(bits))
		for i, b := range bits {
			fs[i] = f64(b)
		}
		return []any{fs}
	case 2:
		if w == 4 {
			fs := make([]float32, len(bits))
			for i, b := range bits {
				fs[i] = math.Float32frombits(uint32(b))
			}
			return []any{fs}
		}
		fallthrough
	default:
		out := make([]any, len(bits))
		for i, b := range bits {
			if w == 4 && i%2 == 0 {
				out[i] = math.Float32frombits(uint32(b))
			} else {
				out[i] = f64(b)
			}
		}
		return out
	}
}

// ---------- generators ----------

var boundaryCounts = []int{0, 1, 2, 3, 254, 255, 256, 257}

var kinds = []string{"L", "B", "O", "A", "J", "W", "I1", "I2", "I4", "I8", "U1", "U2", "U4", "U8", "F4", "F8"}

func intRange(w int) (int64, int64) {
	if w == 8 {
		return math.MinInt64, math.MaxInt64
	}
	return -(int64(1) << (8*w - 1)), int64(1)<<(8*w-1) - 1
}

func uintMax(w int) uint64 {
	if w == 8 {
		return math.MaxUint64
	}
	return uint64(1)<<(8*w) - 1
}

func genInt(r *rand.Rand, w int) int64 {
	lo, hi := intRange(w)
	switch r.IntN(6) {
	case 0:
		return lo
	case 1:
		return hi
	case 2:
		return int64(r.IntN(5)) - 2
	case 3:
		return lo + int64(r.IntN(3))
	case 4:
		return hi - int64(r.IntN(3))
	}
	if w == 8 {
		return int64(r.Uint64())
	}
	return lo + int64(r.Uint64N(uint64(hi-lo)+1))
}

func genUint(r *rand.Rand, w int) uint64 {
	mx := uintMax(w)
	switch r.IntN(5) {
	case 0:
		return 0
	case 1:
		return mx
	case 2:
		return uint64(r.IntN(3))
	case 3:
		return mx - uint64(r.IntN(3))
	}
	if w == 8 {
		return r.Uint64()
	}
	return r.Uint64N(mx + 1)
}

var f32Special = []uint32{0, 0x80000000, 0x3f800000, 0xbf800000, 0x7f800000, 0xff800000, 0x7fc00000, 0x7fa00000, 0xffc00001,
	0x00000001, 0x007fffff, 0x00800000, 0x7f7fffff, 0xff7fffff, 0x3eaaaaab, 0x42f6e979}
var f64Special = []uint64{0, 0x8000000000000000, 0x3ff0000000000000, 0xbff0000000000000, 0x7ff0000000000000, 0xfff0000000000000,
	0x7ff8000000000000, 0x7ff4000000000000, 0xfff8000000000001, 1, 0x000fffffffffffff, 0x0010000000000000, 0x7fefffffffffffff,
	0xffefffffffffffff, 0x3fd5555555555555, 0x405edd2f1a9fbe77, 0x47efffffe0000000, 0x47f0000000000000}

func genFloatBits(r *rand.Rand, w int) uint64 {
	if w == 4 {
		var b uint32
		if r.IntN(2) == 0 {
			b = f32Special[r.IntN(len(f32Special))]
		} else {
			b = r.Uint32()
		}
		// A signalling F4 NaN cannot be handed to a constructor unchanged: Go's float32<->float64
		// conversions quiet it. Constructed items therefore only ever hold quiet NaNs; signalling
		// patterns are exercised on the decode side (C02), where the raw bytes are kept.
		if f := math.Float32frombits(b); f != f {
			b |= 0x00400000
		}
		return uint64(b)
	}
	if r.IntN(2) == 0 {
		return f64Special[r.IntN(len(f64Special))]
	}
	return r.Uint64()
}

func genBytes(r *rand.Rand, n int) []byte {
	b := make([]byte, n)
	for i := range b {
		switch r.IntN(8) {
		case 0:
			b[i] = 0
		case 1:
			b[i] = 0xff
		case 2:
			b[i] = byte("><\"'\\ \n.*/"[r.IntN(10)])
		default:
			b[i] = byte(r.IntN(256))
		}
	}
	return b
}

// GenLeaf generates a leaf of the given kind with n elements.
func GenLeaf(r *rand.Rand, kind string, n int) *LItem {
	switch kind[0] {
	case 'B', 'A', 'J':
		return &LItem{Kind: kind[:1], Bytes: genBytes(r, n)}
	case 'O':
		b := make([]byte, n)
		for i := range b {
			b[i] = byte(r.IntN(2))
		}
		return &LItem{Kind: "O", Bytes: b}
	case 'W':
		lshs := []uint16{0, 1, 2, 3, 0x0102, 0x8000, 0xffff}
		return &LItem{Kind: "W", LSH: lshs[r.IntN(len(lshs))], Bytes: genBytes(r, n)}
	case 'I':
		w := int(kind[1] - '0')
		vs := make([]int64, n)
		for i := range vs {
			vs[i] = genInt(r, w)
		}
		return &LItem{Kind: "I", W: w, Ints: vs}
	case 'U':
		w := int(kind[1] - '0')
		vs := make([]uint64, n)
		for i := range vs {
			vs[i] = genUint(r, w)
		}
		return &LItem{Kind: "U", W: w, Uints: vs}
	case 'F':
		w := int(kind[1] - '0')
		vs := make([]uint64, n)
		for i := range vs {
			vs[i] = genFloatBits(r, w)
		}
		return &LItem{Kind: "F", W: w, Bits: vs}
	}
	panic("kind " + kind)
}

func smallCount(r *rand.Rand) int {
	switch r.IntN(10) {
	case 0:
		return 0
	case 1, 2, 3:
		return 1
	case 4, 5:
		return 2
	case 6:
		return boundaryCounts[r.IntN(len(boundaryCounts))]
	}
	return r.IntN(6)
}

// GenTree generates a random tree with list nesting at most depth and roughly budget nodes.
func GenTree(r *rand.Rand, depth int, budget *int) *LItem {
	*budget--
	if depth <= 0 || *budget <= 0 || r.IntN(3) > 0 {
		k := kinds[1+r.IntN(len(kinds)-1)]
		return GenLeaf(r, k, smallCount(r))
	}
	n := r.IntN(5)
	if r.IntN(8) == 0 {
		n = r.IntN(12)
	}
	it := &LItem{Kind: "L"}
	for i := 0; i < n && *budget > 0; i++ {
		it.Kids = append(it.Kids, GenTree(r, depth-1, budget))
	}
	return it
}

// Nest wraps leaf in d levels of single-child lists.
func Nest(leaf *LItem, d int) *LItem {
	it := leaf
	for i := 0; i < d; i++ {
		it = &LItem{Kind: "L", Kids: []*LItem{it}}
	}
	return it
}

// SiblingDepthCases: the nesting limit is a property of each root-to-leaf PATH, not of how many lists were seen
// before: wide runs of empty / shallow lists followed or surrounded by deep branches, all within the depth limit
// (after seeded change C01c-2: a depth counter leaking across sibling lists).
func SiblingDepthCases() []*LItem {
	empty := func() *LItem { return &LItem{Kind: "L"} }
	u1 := func(v int) *LItem { return &LItem{Kind: "U", W: 1, Uints: []uint64{uint64(v)}} }
	var out []*LItem
	for _, n := range []int{63, 64, 65, 100, 300} {
		it := &LItem{Kind: "L"}
		for i := 0; i < n; i++ {
			it.Kids = append(it.Kids, empty())
		}
		out = append(out, it)
	}
	for _, n := range []int{61, 62, 63, 70} { // records each holding one empty list
		it := &LItem{Kind: "L"}
		for i := 0; i < n; i++ {
			it.Kids = append(it.Kids, &LItem{Kind: "L", Kids: []*LItem{u1(i % 200), empty()}})
		}
		out = append(out, it)
	}
	for _, k := range []int{1, 5, 40} { // k empty lists, then a branch as deep as the limit allows under this root
		it := &LItem{Kind: "L"}
		for i := 0; i < k; i++ {
			it.Kids = append(it.Kids, empty())
		}
		it.Kids = append(it.Kids, Nest(u1(7), 63), Nest(empty(), 62))
		out = append(out, it)
	}
	// deep branch first, then many shallow siblings, then another deep branch
	it := &LItem{Kind: "L", Kids: []*LItem{Nest(u1(1), 63)}}
	for i := 0; i < 80; i++ {
		it.Kids = append(it.Kids, &LItem{Kind: "L", Kids: []*LItem{empty(), empty()}})
	}
	it.Kids = append(it.Kids, Nest(u1(2), 63))
	out = append(out, it)
	return out
}
