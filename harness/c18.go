package main

// C18 — SECS-I delivers each successfully sent message exactly once over a faulty line.
//
// Function mode: the real lineIO (verif hook, over net.Pipe, short T1/T2) runs sendBlock / receiveBlock
// against a scripted peer that follows an enumerated schedule of per-attempt behaviours; result, every byte
// on the line, the blocks delivered during contention yields and the block counters are compared with the
// Lean model (`secs1.send`, `secs1.recv`), and the property's own oracle (attempt bound, never deliver a
// corrupt block, success iff exactly one ACK) is evaluated on the implementation.
// End-to-end mode (c18_e2e.go): two real connections through a fault-injecting middlebox vs `secs1.line`.

import (
	"bytes"
	"context"
	"encoding/hex"
	"fmt"
	"net"
	"strings"
	"sync"
	"time"

	"github.com/arloliu/go-secs/v2/secs1"
)

func init() {
	register("C18", "line level: every peer-behaviour schedule (9 behaviours: grant+ACK, grant+NAK, grant+other char, grant+silence, no grant, "+
		"noise then grant, contention with intact / corrupted / missing block) exhaustively to length 2 (quick) / 4 (thorough) and randomly to 8, x retry "+
		"limits 0..3 x both roles, against the real sendBlock; receiveBlock against intact / every-position corrupted / truncated / silent / bad-length "+
		"senders; end to end: two real connections through a fault-injecting middlebox over fault schedules x retry limits x 1..3 blocks x contention; "+
		"distinct = distinct (role, limit, schedule) text; non-trivial = at least one fault or contention in the schedule", runC18)
}

const (
	c18ENQ = 0x05
	c18EOT = 0x04
	c18ACK = 0x06
	c18NAK = 0x15
)

type c18Timers struct{ t1, t2 time.Duration }

var c18Fast = c18Timers{80 * time.Millisecond, 300 * time.Millisecond}
var c18Slow = c18Timers{400 * time.Millisecond, 1500 * time.Millisecond}

// pipePeer is the scripted end of a net.Pipe with a pump goroutine, so the code under test never blocks on a write.
type pipePeer struct {
	conn net.Conn
	in   chan byte
	all  []byte // every byte read from the code under test, in order
}

func newPipePeer(conn net.Conn) *pipePeer {
	p := &pipePeer{conn: conn, in: make(chan byte, 1<<14)}
	go func() {
		buf := make([]byte, 512)
		for {
			n, err := conn.Read(buf)
			for _, b := range buf[:n] {
				p.in <- b
			}
			if err != nil {
				close(p.in)
				return
			}
		}
	}()
	return p
}

func (p *pipePeer) read(d time.Duration) (byte, bool) {
	select {
	case b, ok := <-p.in:
		if ok {
			p.all = append(p.all, b)
		}
		return b, ok
	case <-time.After(d):
		return 0, false
	}
}

func (p *pipePeer) drain() {
	for {
		select {
		case b, ok := <-p.in:
			if !ok {
				return
			}
			p.all = append(p.all, b)
		default:
			return
		}
	}
}

func (p *pipePeer) write(b ...byte) {
	_ = p.conn.SetWriteDeadline(time.Now().Add(5 * time.Second))
	_, _ = p.conn.Write(b)
}

// readBlock reads one wire block ([len][len bytes][2]) from the code under test.
func (p *pipePeer) readBlock(d time.Duration) ([]byte, bool) {
	lb, ok := p.read(d)
	if !ok {
		return nil, false
	}
	w := []byte{lb}
	for i := 0; i < int(lb)+2; i++ {
		b, ok := p.read(d)
		if !ok {
			return w, false
		}
		w = append(w, b)
	}
	return w, true
}

// ---- sendBlock against a peer schedule

type c18Act struct {
	kind string // ga gn go gs si ng cg cb cs
	blk  secs1.VerifBlock
}

func (a c18Act) tok() string {
	if a.kind == "cg" || a.kind == "cb" {
		return fmt.Sprintf("%s:%s:%s", a.kind, hex.EncodeToString(a.blk.Header[:]), s1hex(a.blk.Body))
	}
	return a.kind
}

var c18Kinds = []string{"ga", "gn", "go", "gs", "si", "ng", "cg", "cb", "cs"}

type c18SendCase struct {
	isEquip bool
	limit   int
	blk     secs1.VerifBlock
	sched   []c18Act
}

func (k c18SendCase) line() string {
	var sb strings.Builder
	fmt.Fprintf(&sb, "secs1.send %s %d %s %s", b01(k.isEquip), k.limit, hex.EncodeToString(k.blk.Header[:]), s1hex(k.blk.Body))
	for _, a := range k.sched {
		sb.WriteByte(' ')
		sb.WriteString(a.tok())
	}
	return sb.String()
}

type c18SendObs struct {
	result    string // ok | fail | other:<class>
	line      []byte
	delivered []secs1.VerifBlock
	acks      int      // ACKs the peer gave to an intact copy of the block
	peerGood  [][]byte // headers of intact blocks the peer sent and saw ACKed
	enqRuns   int      // longest run of ENQs between two delivered yields
	finalRun  int      // ENQs since the last delivered yield when sendBlock returned
	metrics   [6]uint64
	protoErr  string
}

func runSendCase(k c18SendCase, tm c18Timers) c18SendObs {
	a, b := net.Pipe()
	defer a.Close()
	defer b.Close()
	var obs c18SendObs
	vl, err := secs1.NewVerifLine(a, k.isEquip, tm.t1, tm.t2)
	if err != nil {
		obs.protoErr = err.Error()
		return obs
	}
	peer := newPipePeer(b)
	wire := secs1.VerifAppendTo(nil, k.blk)
	done := make(chan error, 1)
	var dmu sync.Mutex
	go func() {
		done <- vl.SendBlock(context.Background(), k.blk, k.limit, func(r secs1.VerifBlock) error {
			dmu.Lock()
			obs.delivered = append(obs.delivered, r)
			dmu.Unlock()
			return nil
		})
	}()
	long := 6*tm.t2 + 2*time.Second
	finished := false
	var serr error
	// waitENQ returns false when the sender has returned instead of sending another ENQ
	waitENQ := func() bool {
		for {
			select {
			case b, ok := <-peer.in:
				if !ok {
					return false
				}
				peer.all = append(peer.all, b)
				if b == c18ENQ {
					return true
				}
				obs.protoErr = fmt.Sprintf("expected ENQ, sender wrote %#02x", b)
			case serr = <-done:
				finished = true
				return false
			case <-time.After(long):
				obs.protoErr = "sender neither finished nor sent ENQ"
				return false
			}
		}
	}
	takeBlock := func() bool {
		w, ok := peer.readBlock(long)
		if !ok {
			obs.protoErr = "sender did not transmit a whole block after EOT"
			return false
		}
		if !bytes.Equal(w, wire) {
			obs.protoErr = fmt.Sprintf("block on the line %x differs from appendTo %x", w, wire)
		}
		return true
	}
	run, maxRun := 0, 0
	for _, act := range k.sched {
		if !waitENQ() {
			break
		}
		run++
		maxRun = max(maxRun, run)
		kind := act.kind
		if k.isEquip && (kind == "cg" || kind == "cb") {
			// a master ignores our ENQ; we (the slave) then yield and grant
			peer.write(c18ENQ)
			kind = "ga"
		}
		switch kind {
		case "ga", "ng":
			if kind == "ng" {
				peer.write(0x00, 0x7f, 0x15)
			}
			peer.write(c18EOT)
			if takeBlock() {
				peer.write(c18ACK)
				obs.acks++
			}
		case "gn":
			peer.write(c18EOT)
			if takeBlock() {
				peer.write(c18NAK)
			}
		case "go":
			peer.write(c18EOT)
			if takeBlock() {
				peer.write(0x07)
			}
		case "gs":
			peer.write(c18EOT)
			takeBlock()
		case "si":
		case "cs":
			peer.write(c18ENQ)
			if !k.isEquip {
				if c, ok := peer.read(long); !ok || c != c18EOT {
					obs.protoErr = fmt.Sprintf("slave did not yield with EOT (got %#02x)", c)
				} else if c, ok := peer.read(long); !ok || c != c18NAK {
					obs.protoErr = fmt.Sprintf("slave did not NAK a missing block (got %#02x)", c)
				}
			}
		case "cg", "cb": // the sender is the slave
			peer.write(c18ENQ)
			if c, ok := peer.read(long); !ok || c != c18EOT {
				obs.protoErr = fmt.Sprintf("slave did not yield with EOT (got %#02x)", c)
				break
			}
			w := secs1.VerifAppendTo(nil, act.blk)
			if kind == "cb" {
				w[1+len(w)/2] ^= 0x10
			}
			peer.write(w...)
			c, ok := peer.read(long)
			switch {
			case !ok:
				obs.protoErr = "no answer to the master's block"
			case kind == "cg" && c == c18ACK:
				obs.peerGood = append(obs.peerGood, act.blk.Header[:])
				run = 0
			case kind == "cb" && c == c18NAK:
			default:
				obs.protoErr = fmt.Sprintf("answer %#02x to a %s block", c, kind)
			}
		}
	}
	consumed := len(peer.all)
	if !finished {
		select {
		case serr = <-done:
		case <-time.After(time.Duration(k.limit+2)*tm.t2*2 + 3*time.Second):
			obs.protoErr = "sendBlock did not return"
			a.Close()
			serr = <-done
		}
	}
	time.Sleep(time.Millisecond)
	peer.drain()
	// ENQs sent to a peer that no longer answers (schedule exhausted) extend the current run
	maxRun = max(maxRun, run+len(peer.all)-consumed)
	obs.finalRun = run + len(peer.all) - consumed
	obs.enqRuns = maxRun
	obs.line = peer.all
	switch c := secs1.VerifErrClass(serr); c {
	case "ok":
		obs.result = "ok"
	case "sendfailed":
		obs.result = "fail"
	default:
		obs.result = "other:" + c
	}
	m := vl.Metrics()
	obs.metrics = [6]uint64{m.BlockSendCount(), m.BlockRetryCount(), m.BlockSendFailedCount(), m.ContentionYieldCount(), m.BlockRecvCount(), m.BlockNAKSentCount()}
	return obs
}

// c18ModelSend parses the model's answer: result, attempts letters, line hex, delivered, rest.
func c18CompareSend(c *Ctx, k c18SendCase, obs c18SendObs, ans string) (string, bool) {
	f := strings.Fields(ans)
	if len(f) != 5 {
		return "model answered " + ans, false
	}
	var dl []string
	for _, d := range obs.delivered {
		dl = append(dl, hex.EncodeToString(d.Header[:])+":"+s1hex(d.Body))
	}
	ds := "-"
	if len(dl) > 0 {
		ds = strings.Join(dl, ",")
	}
	att := f[1]
	if att == "-" {
		att = ""
	}
	cnt := func(ch string) uint64 { return uint64(strings.Count(att, ch)) }
	wantM := [6]uint64{cnt("o"), cnt("r") + cnt("f"), 0, cnt("y") + cnt("f"), cnt("y"), cnt("f")}
	if f[0] == "fail" {
		wantM[2] = 1
	}
	switch {
	case obs.result != f[0]:
		return fmt.Sprintf("result: impl %s / model %s", obs.result, f[0]), false
	case s1hex(obs.line) != f[2]:
		return fmt.Sprintf("bytes written by the sender: impl %s / model %s", s1clip(s1hex(obs.line), 200), s1clip(f[2], 200)), false
	case ds != f[3]:
		return fmt.Sprintf("blocks delivered during yields: impl %s / model %s", s1clip(ds, 200), s1clip(f[3], 200)), false
	case obs.metrics != wantM:
		return fmt.Sprintf("counters [send retry failed yield recv nak]: impl %v / model %v (attempts %s)", obs.metrics, wantM, att), false
	}
	return "", true
}

func c18SendOracle(c *Ctx, k c18SendCase, obs c18SendObs, replay map[string]any) {
	if obs.enqRuns > k.limit+1 {
		c.Violate("property", "more-than-retry-limit-plus-one-attempts", fmt.Sprintf("%d ENQs for one block without an intervening successful yield, retry limit %d", obs.enqRuns, k.limit), replay)
	}
	if obs.result == "ok" && obs.acks != 1 {
		c.Violate("property", "send-ok-without-single-ack", fmt.Sprintf("sendBlock returned nil after %d ACKs", obs.acks), replay)
	}
	if obs.result == "fail" && obs.finalRun < k.limit+1 {
		c.Violate("property", "gave-up-before-retry-limit", fmt.Sprintf("sendBlock failed after %d attempts since the last successful yield, retry limit %d allows %d", obs.finalRun, k.limit, k.limit+1), replay)
	}
	if obs.result == "fail" && obs.acks != 0 {
		c.Violate("property", "send-failed-after-ack", "sendBlock reported failure although the peer ACKed the block", replay)
	}
	if strings.HasPrefix(obs.result, "other") {
		c.Violate("property", "send-unexpected-error", "sendBlock returned "+obs.result, replay)
	}
	if len(obs.delivered) != len(obs.peerGood) {
		c.Violate("property", "yield-delivery-mismatch", fmt.Sprintf("%d blocks delivered during yields, the peer sent %d intact blocks that were ACKed", len(obs.delivered), len(obs.peerGood)), replay)
	} else {
		for i, d := range obs.delivered {
			if !bytes.Equal(d.Header[:], obs.peerGood[i]) {
				c.Violate("property", "yield-delivery-altered", "a block delivered during a yield is not the block the master sent", replay)
			}
		}
	}
}

func c18GenBlock(c *Ctx, toEquip bool, n int) secs1.VerifBlock {
	h := secs1.VerifHeader{DeviceID: 0x0123, RBit: !toEquip, Stream: uint8(1 + c.Rng.IntN(20)), Function: uint8(1 + 2*c.Rng.IntN(20)), WaitBit: c.Rng.IntN(2) == 0,
		SystemBytes: [4]byte{byte(c.Rng.IntN(256)), byte(c.Rng.IntN(256)), byte(c.Rng.IntN(256)), byte(c.Rng.IntN(256))}}
	return secs1.VerifBlock{Header: secs1.VerifBuildHeader(h, 1, true), Body: genBytes(c.Rng, n)}
}

func c18SendCases(c *Ctx) []c18SendCase {
	var cases []c18SendCase
	mk := func(isEquip bool, limit int, kinds []string) c18SendCase {
		k := c18SendCase{isEquip: isEquip, limit: limit, blk: c18GenBlock(c, !isEquip, []int{0, 1, 5, 244}[c.Rng.IntN(4)])}
		for _, kd := range kinds {
			a := c18Act{kind: kd}
			if kd == "cg" || kd == "cb" {
				a.blk = c18GenBlock(c, isEquip, c.Rng.IntN(6))
			}
			k.sched = append(k.sched, a)
		}
		return k
	}
	maxExh := c.Pick(2, 4)
	for _, isEquip := range []bool{false, true} {
		for limit := 0; limit <= 3; limit++ {
			var rec func(prefix []string)
			rec = func(prefix []string) {
				cases = append(cases, mk(isEquip, limit, prefix))
				if len(prefix) == maxExh {
					return
				}
				for _, kd := range c18Kinds {
					rec(append(append([]string(nil), prefix...), kd))
				}
			}
			rec(nil)
		}
	}
	// longer random schedules: mostly failures, so the retry bound and the reset after a yield are reached
	for i := 0; i < c.Pick(400, 4000); i++ {
		n := 3 + c.Rng.IntN(6)
		kinds := make([]string, n)
		for j := range kinds {
			if c.Rng.IntN(3) == 0 {
				kinds[j] = "cg"
			} else {
				kinds[j] = c18Kinds[c.Rng.IntN(len(c18Kinds))]
			}
			if kinds[j] == "ga" && c.Rng.IntN(2) == 0 {
				kinds[j] = "gn"
			}
		}
		cases = append(cases, mk(c.Rng.IntN(2) == 0, c.Rng.IntN(4), kinds))
	}
	return cases
}

func parallelDo(n, workers int, f func(i int)) {
	var wg sync.WaitGroup
	ch := make(chan int)
	for w := 0; w < workers; w++ {
		wg.Add(1)
		go func() {
			defer wg.Done()
			for i := range ch {
				f(i)
			}
		}()
	}
	for i := 0; i < n; i++ {
		ch <- i
	}
	close(ch)
	wg.Wait()
}

func c18Send(c *Ctx) {
	cases := c18SendCases(c)
	obs := make([]c18SendObs, len(cases))
	parallelDo(len(cases), 192, func(i int) { obs[i] = runSendCase(cases[i], c18Fast) })
	var ans []string
	if c.Lean != nil {
		lines := make([]string, len(cases))
		for i, k := range cases {
			lines[i] = k.line()
		}
		ans = c.Lean.AskAll(lines)
	}
	// cases whose first run disagrees are re-run (in parallel, at most 24 of them) with wide timers to rule out a
	// scheduling hiccup against the short ones
	mismatch := func(i int, o c18SendObs) string {
		if o.protoErr != "" {
			return o.protoErr
		}
		if ans != nil {
			if w, ok := c18CompareSend(c, cases[i], o, ans[i]); !ok {
				return w
			}
		}
		return ""
	}
	var redo []int
	for i := range cases {
		if mismatch(i, obs[i]) != "" && len(redo) < 24 {
			redo = append(redo, i)
		}
	}
	parallelDo(len(redo), 24, func(j int) { obs[redo[j]] = runSendCase(cases[redo[j]], c18Slow) })
	c.StatN("send-rechecked-with-wide-timers", len(redo))
	for i, k := range cases {
		var toks []string
		nontrivial := false
		for _, a := range k.sched {
			toks = append(toks, a.kind)
			if a.kind != "ga" {
				nontrivial = true
			}
		}
		c.Count(fmt.Sprintf("send|%v|%d|%s", k.isEquip, k.limit, strings.Join(toks, ",")), nontrivial)
		c.Stat(fmt.Sprintf("send:limit=%d", k.limit))
		c.Stat("send-result:" + obs[i].result)
		replay := map[string]any{"mode": "sendBlock", "isEquip": k.isEquip, "retryLimit": k.limit, "schedule": toks, "op": s1clip(k.line(), 2500)}
		if i%701 == 3 {
			c.Sample(map[string]any{"op": "sendBlock", "isEquip": k.isEquip, "retryLimit": k.limit, "schedule": toks, "result": obs[i].result, "line": s1clip(s1hex(obs[i].line), 120)})
		}
		o := obs[i]
		c18SendOracle(c, k, o, replay)
		if o.protoErr != "" {
			c.Violate("property", "line-protocol-violation", o.protoErr, replay)
		} else if w := mismatch(i, o); w != "" {
			c.Violate("correspondence", "sendBlock-differs-from-model", w, replay)
		}
	}
	if ans != nil {
		c.Res.Traces += len(cases)
	}
}

// ---- receiveBlock against a scripted sender

type c18RecvCase struct {
	tag   string
	bytes []byte // what arrives after our EOT (then silence)
	tok   string
}

type c18RecvObs struct {
	what   string
	answer byte
	nak    uint64
	recv   uint64
}

func runRecvCase(k c18RecvCase, tm c18Timers) c18RecvObs {
	a, b := net.Pipe()
	defer a.Close()
	defer b.Close()
	vl, err := secs1.NewVerifLine(a, false, tm.t1, tm.t2)
	if err != nil {
		return c18RecvObs{what: "setup:" + err.Error()}
	}
	peer := newPipePeer(b)
	type res struct {
		b   secs1.VerifBlock
		err error
	}
	done := make(chan res, 1)
	go func() {
		blk, err := vl.ReceiveBlock(context.Background())
		done <- res{blk, err}
	}()
	if len(k.bytes) > 0 {
		peer.write(k.bytes...)
	}
	var o c18RecvObs
	r := <-done
	ansB, ok := peer.read(2 * time.Second)
	if ok {
		o.answer = ansB
	}
	if r.err == nil {
		o.what = fmt.Sprintf("block %s %s", hex.EncodeToString(r.b.Header[:]), s1hex(r.b.Body))
	} else {
		switch cl := secs1.VerifErrClass(r.err); cl {
		case "t2":
			o.what = "t2"
		case "t1":
			o.what = "t1"
		case "length":
			// parseBlock's length error and the early range check share the sentinel
			if len(k.bytes) > 0 && (k.bytes[0] < 10 || k.bytes[0] > 254) {
				o.what = "badlength"
			} else {
				o.what = "parse:length"
			}
		case "checksum":
			o.what = "parse:checksum"
		default:
			o.what = "other:" + cl
		}
	}
	o.nak, o.recv = vl.Metrics().BlockNAKSentCount(), vl.Metrics().BlockRecvCount()
	return o
}

func c18Recv(c *Ctx) {
	var cases []c18RecvCase
	add := func(tag string, b []byte, tok string) { cases = append(cases, c18RecvCase{tag, b, tok}) }
	for _, n := range []int{0, 1, 9, 243, 244} {
		blk := c18GenBlock(c, false, n)
		w := secs1.VerifAppendTo(nil, blk)
		add("intact", w, fmt.Sprintf("i:%s:%s", hex.EncodeToString(blk.Header[:]), s1hex(blk.Body)))
		step := 1
		if n > 20 {
			step = c.Pick(29, 5)
		}
		for pos := 0; pos < len(w); pos += step {
			m := append([]byte(nil), w...)
			m[pos] ^= byte(1 << c.Rng.IntN(8))
			add("one-char-corrupted", m, "r:"+hex.EncodeToString(m))
		}
		for _, cut := range []int{1, 2, 11, len(w) - 1} {
			if cut < len(w) && cut > 0 {
				add("truncated", w[:cut], "r:"+hex.EncodeToString(w[:cut]))
			}
		}
	}
	add("nothing", nil, "r:-")
	for _, lb := range []byte{0, 9, 255} {
		add("bad-length", []byte{lb, 1, 2, 3}, "r:"+hex.EncodeToString([]byte{lb, 1, 2, 3}))
	}
	obs := make([]c18RecvObs, len(cases))
	parallelDo(len(cases), 192, func(i int) { obs[i] = runRecvCase(cases[i], c18Fast) })
	var ans []string
	if c.Lean != nil {
		lines := make([]string, len(cases))
		for i, k := range cases {
			lines[i] = "secs1.recv " + k.tok
		}
		ans = c.Lean.AskAll(lines)
	}
	rechecks := 0
	for i, k := range cases {
		c.Count("recv|"+k.tok, k.tag != "intact")
		c.Stat("recv:" + k.tag)
		replay := map[string]any{"mode": "receiveBlock", "tag": k.tag, "bytes": s1clip(hex.EncodeToString(k.bytes), 700)}
		check := func(o c18RecvObs) (string, string) {
			got := fmt.Sprintf("%s %02x", o.what, o.answer)
			isBlock := strings.HasPrefix(o.what, "block")
			if k.tag != "intact" && isBlock {
				return "property:corrupt-block-accepted-by-receiveBlock", "a damaged transmission was ACKed and returned as a block: " + got
			}
			if k.tag == "intact" && (!isBlock || o.answer != c18ACK) {
				return "property:intact-block-not-acked", got
			}
			if !isBlock && (o.answer != c18NAK || o.nak != 1 || o.recv != 0) {
				return "property:bad-block-not-naked", fmt.Sprintf("%s (NAK counter %d)", got, o.nak)
			}
			if ans != nil && ans[i] != got {
				return "correspondence:receiveBlock-differs-from-model", fmt.Sprintf("impl %s / model %s", s1clip(got, 150), s1clip(ans[i], 150))
			}
			return "", ""
		}
		if w, _ := check(obs[i]); w != "" {
			o := obs[i]
			if rechecks < 12 {
				rechecks++
				o = runRecvCase(k, c18Slow)
				c.Stat("recv-rechecked-with-wide-timers")
			}
			if w, d := check(o); w != "" {
				kind, what, _ := strings.Cut(w, ":")
				c.Violate(kind, what, d, replay)
			}
		}
	}
	if ans != nil {
		c.Res.Traces += len(cases)
	}
}

func runC18(c *Ctx) {
	c18Send(c)
	c18Recv(c)
	c18E2E(c)
	c18Straddle(c)
	c18Retransmit(c) // scripted peer: retransmissions (block 0 too) and a slow line (c18_retransmit.go)
}
