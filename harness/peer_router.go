package main

// Scripted byte-level HSMS peer for the router cluster (C06 / C20 / C09).
//
// The connection under test is a REAL hsmsss active connection whose dialer hands out one end of a
// net.Pipe per TCP generation; this peer owns the other end.  net.Pipe is synchronous: a Write returns
// only once the other side has read every byte, so "the peer received the frame" and "the sender's write
// returned" coincide, and a peer Write of frame k+1 returning implies the connection's receive loop has
// finished dispatching frame k (it is a single sequential reader).
//
// Every observable event is stamped from one global atomic counter so the recorded history has a total
// order; the linearizer (router_lin.go) turns that history into an action list for the Lean model.

import (
	"context"
	"encoding/binary"
	"errors"
	"io"
	"net"
	"sync"
	"sync/atomic"
	"time"

	"github.com/arloliu/go-secs/v2/hsms"
	"github.com/arloliu/go-secs/v2/hsmsss"
	"github.com/arloliu/go-secs/v2/logger"
)

var rStampCtr atomic.Int64

func rStamp() int64 { return rStampCtr.Add(1) }

// rFrame is one HSMS frame as seen on the wire (either direction).
type rFrame struct {
	Gen     int    `json:"gen"`
	Stamp   int64  `json:"stamp"`         // inbound to peer: after the read completed; outbound: before the write
	EndStmp int64  `json:"end,omitempty"` // outbound only: after the write returned (0 = write failed / never returned)
	Fid     int    `json:"fid"`           // outbound: identity (position in the peer's total send order); inbound: -1
	Session uint16 `json:"session"`
	B2      byte   `json:"b2"`
	B3      byte   `json:"b3"`
	PType   byte   `json:"ptype"`
	SType   byte   `json:"stype"`
	SB      uint32 `json:"sb"`
	Tag     int64  `json:"tag"` // data frames: the U4 in the body (sender index for primaries, fid for peer frames); -1 none
	Len     int    `json:"len"`
	WriteOK bool   `json:"write_ok,omitempty"`
	ReadT   int64  `json:"-"` // inbound: wall clock (unix nanos) when the peer finished reading the frame
	EndT    int64  `json:"-"` // outbound: wall clock when the write returned
}

func (f rFrame) W() bool      { return f.B2&0x80 != 0 }
func (f rFrame) Stream() byte { return f.B2 & 0x7f }
func (f rFrame) Fn() byte     { return f.B3 }
func (f rFrame) IsData() bool { return f.PType == 0 && f.SType == 0 }

func rTagBody(tag uint32) []byte {
	return []byte{0xB1, 0x04, byte(tag >> 24), byte(tag >> 16), byte(tag >> 8), byte(tag)}
}

func rParseTag(body []byte) int64 {
	if len(body) == 6 && body[0] == 0xB1 && body[1] == 0x04 {
		return int64(binary.BigEndian.Uint32(body[2:]))
	}
	return -1
}

func rBuildFrame(session uint16, b2, b3, ptype, stype byte, sb uint32, body []byte) []byte {
	out := make([]byte, 14+len(body))
	binary.BigEndian.PutUint32(out[0:4], uint32(10+len(body)))
	binary.BigEndian.PutUint16(out[4:6], session)
	out[6], out[7], out[8], out[9] = b2, b3, ptype, stype
	binary.BigEndian.PutUint32(out[10:14], sb)
	copy(out[14:], body)
	return out
}

// rGen is one TCP generation as the peer sees it.
type rGen struct {
	id        int
	peerEnd   net.Conn
	connEnd   net.Conn
	DialStamp int64
	wmu       sync.Mutex // peer sends are totally ordered
	mu        sync.Mutex
	in        []rFrame // frames the peer received, in order
	out       []rFrame // frames the peer sent (or tried to), in order
	closed    atomic.Bool
	CloseStmp atomic.Int64
	CloseT    atomic.Int64  // unix nanos of the peer-side close
	readGate  chan struct{} // closed = reading allowed; replaced to stall
	gateMu    sync.Mutex
	stallAt   atomic.Int64  // >0: stop reading after this many bytes of the NEXT frame (mid-write stall)
	StallT    atomic.Int64  // wall clock of the moment the mid-frame stall engaged (0 = not yet)
	selected  chan struct{} // closed when the peer has answered Select.req
	readerEnd chan struct{}
}

// rPeer owns every generation.
type rPeer struct {
	mu      sync.Mutex
	gens    []*rGen
	fidCtr  atomic.Int64
	onFrame func(g *rGen, f rFrame) // called on the generation's reader goroutine for every inbound frame
	// autoSelect answers Select.req with Select.rsp(0); autoLinktest is NOT implemented on purpose (disabled in config)
	dialHook func(gen int) error // optional: fail a dial
	quiet    sync.RWMutex        // write-locked while a counter snapshot is taken: no scripted peer frame is in flight then
	// mirror of F5: answer the library's own control requests with a DATA secondary reusing their system bytes first
	mirrorSelect   atomic.Bool
	mirrorLinktest atomic.Bool
	linktests      atomic.Int64 // Linktest.req of the library answered so far
	muteLinktest   atomic.Bool  // leave the library's Linktest.req unanswered (a control transaction that stays open)
}

func newRPeer() *rPeer { return &rPeer{} }

func (p *rPeer) gen(i int) *rGen {
	p.mu.Lock()
	defer p.mu.Unlock()
	if i < 0 || i >= len(p.gens) {
		return nil
	}
	return p.gens[i]
}

func (p *rPeer) last() *rGen {
	p.mu.Lock()
	defer p.mu.Unlock()
	if len(p.gens) == 0 {
		return nil
	}
	return p.gens[len(p.gens)-1]
}

func (p *rPeer) numGens() int {
	p.mu.Lock()
	defer p.mu.Unlock()
	return len(p.gens)
}

// dial is the hsmsss DialFunc.
func (p *rPeer) dial(_ context.Context, _, _ string) (net.Conn, error) {
	p.mu.Lock()
	id := len(p.gens)
	if p.dialHook != nil {
		if err := p.dialHook(id); err != nil {
			p.mu.Unlock()
			return nil, err
		}
	}
	a, b := net.Pipe()
	g := &rGen{id: id, peerEnd: b, connEnd: a, readGate: make(chan struct{}), selected: make(chan struct{}), readerEnd: make(chan struct{})}
	close(g.readGate)
	g.DialStamp = rStamp()
	p.gens = append(p.gens, g)
	p.mu.Unlock()
	go p.reader(g)
	return a, nil
}

func (g *rGen) gate() chan struct{} {
	g.gateMu.Lock()
	defer g.gateMu.Unlock()
	return g.readGate
}

// stall makes the peer stop reading (the connection's next write blocks in the pipe).
func (g *rGen) stall() {
	g.gateMu.Lock()
	g.readGate = make(chan struct{})
	g.gateMu.Unlock()
}

func (g *rGen) unstall() {
	g.gateMu.Lock()
	select {
	case <-g.readGate:
	default:
		close(g.readGate)
	}
	g.gateMu.Unlock()
}

func (p *rPeer) reader(g *rGen) {
	defer close(g.readerEnd)
	for {
		<-g.gate()
		var lb [4]byte
		if _, err := io.ReadFull(g.peerEnd, lb[:]); err != nil {
			return
		}
		n := int(binary.BigEndian.Uint32(lb[:]))
		if n < 10 || n > 1<<20 {
			return
		}
		buf := make([]byte, n)
		if k := int(g.stallAt.Load()); k > 0 && k < n {
			// mid-write stall: take k bytes of the frame, then stop reading until released / closed
			if _, err := io.ReadFull(g.peerEnd, buf[:k]); err != nil {
				return
			}
			g.stallAt.Store(0)
			g.stall()
			g.StallT.Store(time.Now().UnixNano())
			<-g.gate()
			if _, err := io.ReadFull(g.peerEnd, buf[k:]); err != nil {
				return
			}
		} else if _, err := io.ReadFull(g.peerEnd, buf); err != nil {
			return
		}
		f := rFrame{Gen: g.id, Fid: -1, Session: binary.BigEndian.Uint16(buf[0:2]), B2: buf[2], B3: buf[3], PType: buf[4], SType: buf[5],
			SB: binary.BigEndian.Uint32(buf[6:10]), Tag: -1, Len: n}
		if f.IsData() {
			f.Tag = rParseTag(buf[10:])
		}
		f.Stamp = rStamp()
		f.ReadT = time.Now().UnixNano()
		g.mu.Lock()
		g.in = append(g.in, f)
		g.mu.Unlock()
		if f.PType == 0 && f.SType == byte(hsms.LinktestReqType) && !p.muteLinktest.Load() {
			if p.mirrorLinktest.Load() {
				p.sendData(g, 1, 2, false, f.SB, 0xFFFF)
			}
			p.sendCtrl(g, byte(hsms.LinktestRspType), 0, f.SB, 0xFFFF)
			p.linktests.Add(1)
		}
		if f.PType == 0 && f.SType == byte(hsms.SelectReqType) {
			if p.mirrorSelect.Load() {
				p.sendData(g, 1, 2, false, f.SB, f.Session)
			}
			p.sendCtrl(g, byte(hsms.SelectRspType), 0, f.SB, f.Session)
			select {
			case <-g.selected:
			default:
				close(g.selected)
			}
		}
		if p.onFrame != nil {
			p.onFrame(g, f)
		}
	}
}

// send writes one frame to the connection; returns the recorded frame (with its fid).
func (p *rPeer) send(g *rGen, f rFrame, body []byte) rFrame {
	p.quiet.RLock()
	defer p.quiet.RUnlock()
	return p.sendNoQuiet(g, f, body)
}

func (p *rPeer) sendNoQuiet(g *rGen, f rFrame, body []byte) rFrame {
	g.wmu.Lock()
	defer g.wmu.Unlock()
	f.Gen = g.id
	f.Fid = int(p.fidCtr.Add(1) - 1)
	if f.IsData() && body == nil {
		body = rTagBody(uint32(f.Fid))
		f.Tag = int64(f.Fid)
	}
	raw := rBuildFrame(f.Session, f.B2, f.B3, f.PType, f.SType, f.SB, body)
	f.Len = len(raw) - 4
	f.Stamp = rStamp()
	_ = g.peerEnd.SetWriteDeadline(time.Now().Add(5 * time.Second))
	_, err := g.peerEnd.Write(raw)
	if err == nil {
		f.WriteOK = true
		f.EndStmp = rStamp()
		f.EndT = time.Now().UnixNano()
	}
	g.mu.Lock()
	g.out = append(g.out, f)
	g.mu.Unlock()
	return f
}

func (p *rPeer) sendData(g *rGen, stream, fn byte, w bool, sb uint32, session uint16) rFrame {
	b2 := stream & 0x7f
	if w {
		b2 |= 0x80
	}
	return p.send(g, rFrame{Session: session, B2: b2, B3: fn, SB: sb}, nil)
}

func (p *rPeer) sendCtrl(g *rGen, stype, b3 byte, sb uint32, session uint16) rFrame {
	return p.send(g, rFrame{Session: session, B3: b3, SType: stype, SB: sb, Tag: -1}, []byte{})
}

func (p *rPeer) sendReject(g *rGen, rejectedSType, reason byte, sb uint32) rFrame {
	return p.send(g, rFrame{Session: 0xFFFF, B2: rejectedSType, B3: reason, SType: byte(hsms.RejectReqType), SB: sb, Tag: -1}, []byte{})
}

// barrier sends a Linktest.req and waits for the Linktest.rsp: every earlier peer frame has then been
// dispatched by the connection's receive loop and every earlier queued async frame has been written.
func (p *rPeer) barrier(g *rGen, sb uint32, timeout time.Duration) bool {
	p.sendNoQuiet(g, rFrame{Session: 0xFFFF, SType: byte(hsms.LinktestReqType), SB: sb, Tag: -1}, []byte{})
	deadline := time.Now().Add(timeout)
	for time.Now().Before(deadline) {
		g.mu.Lock()
		for _, f := range g.in {
			if f.SType == byte(hsms.LinktestRspType) && f.SB == sb {
				g.mu.Unlock()
				return true
			}
		}
		g.mu.Unlock()
		if g.closed.Load() {
			return false
		}
		time.Sleep(200 * time.Microsecond)
	}
	return false
}

// closeGen drops the TCP generation from the peer side.
func (g *rGen) closeGen() {
	if g.closed.CompareAndSwap(false, true) {
		g.CloseStmp.Store(rStamp())
		g.CloseT.Store(time.Now().UnixNano())
		_ = g.peerEnd.Close()
		g.unstall()
	}
}

func (g *rGen) inbound() []rFrame {
	g.mu.Lock()
	defer g.mu.Unlock()
	return append([]rFrame(nil), g.in...)
}

func (g *rGen) outbound() []rFrame {
	g.mu.Lock()
	defer g.mu.Unlock()
	return append([]rFrame(nil), g.out...)
}

func (p *rPeer) closeAll() {
	p.mu.Lock()
	gs := append([]*rGen(nil), p.gens...)
	p.mu.Unlock()
	for _, g := range gs {
		g.closeGen()
	}
}

// ---- the connection under test

type rNopLogger struct{}

func (rNopLogger) Debug(string, ...any)        {}
func (rNopLogger) Info(string, ...any)         {}
func (rNopLogger) Warn(string, ...any)         {}
func (rNopLogger) Error(string, ...any)        {}
func (rNopLogger) Fatal(string, ...any)        {}
func (l rNopLogger) With(...any) logger.Logger { return l }
func (rNopLogger) Level() logger.LogLevel      { return logger.LogLevel(0) }
func (rNopLogger) SetLevel(logger.LogLevel)    {}

type rConnOpts struct {
	ValidateSession bool
	Linktest        time.Duration
	T3, T6          time.Duration
	WriteTimeout    time.Duration
	Backoff         time.Duration
	QueueSize       int
	Logger          logger.Logger // nil: the no-op logger
	Trace           bool          // hsms.WithTraceTraffic(true): every frame sent / received is handed to the logger
	Equip           bool          // hsmsss.WithEquipRole(): auto-S9F9 on T3 expiry
}

func rNewConn(p *rPeer, o rConnOpts) (hsmsss.Connection, error) {
	if o.T3 == 0 {
		o.T3 = 10 * time.Second
	}
	if o.T6 == 0 {
		o.T6 = 3 * time.Second
	}
	if o.WriteTimeout == 0 {
		o.WriteTimeout = 5 * time.Second
	}
	if o.Backoff == 0 {
		o.Backoff = 5 * time.Millisecond
	}
	if o.QueueSize == 0 {
		o.QueueSize = 64
	}
	copt := func(op hsms.ConnOption) hsmsss.Option { return hsmsss.WithConnectionOption(op) }
	cfg, err := hsmsss.NewConfig("127.0.0.1", 5000, hsmsss.WithActive(), hsmsss.WithDialer(p.dial),
		copt(hsms.WithT3(o.T3)), copt(hsms.WithT6(o.T6)), copt(hsms.WithT5(50*time.Millisecond)), copt(hsms.WithT7(10*time.Second)),
		copt(hsms.WithT8(5*time.Second)), copt(hsms.WithLinktestInterval(o.Linktest)), copt(hsms.WithCloseTimeout(3*time.Second)),
		copt(hsms.WithWriteTimeout(o.WriteTimeout)), copt(hsms.WithReconnectBackoff(o.Backoff, 1.5)),
		copt(hsms.WithSenderQueueSize(o.QueueSize)), copt(hsms.WithLogger(rNopLogger{})))
	if err != nil {
		return nil, err
	}
	if o.Equip {
		if err := cfg.ApplyOptions(hsmsss.WithEquipRole()); err != nil {
			return nil, err
		}
	}
	if o.Logger != nil {
		if err := cfg.ApplyOptions(copt(hsms.WithLogger(o.Logger)), copt(hsms.WithTraceTraffic(o.Trace))); err != nil {
			return nil, err
		}
	}
	if o.ValidateSession {
		if err := cfg.ApplyOptions(copt(hsms.WithSessionIDValidation(true))); err != nil {
			return nil, err
		}
	}
	return hsmsss.New(cfg)
}

// rCallResult is what one send call returned, classified.
type rCallResult struct {
	Idx      int       `json:"idx"`
	Kind     string    `json:"kind"` // s (sync W) | f (sync no-W) | a (async)
	Start    int64     `json:"start"`
	End      int64     `json:"end"`
	Outcome  string    `json:"outcome"` // reply | nilnil | reject | timeout | closed | ctx | notopen | notselected | writeerr | sent | other
	ReplySB  uint32    `json:"reply_sb,omitempty"`
	ReplyFn  byte      `json:"reply_fn,omitempty"`
	ReplyW   bool      `json:"reply_w,omitempty"`
	ReplyTag int64     `json:"reply_tag,omitempty"` // fid of the returned reply frame
	Reason   byte      `json:"reason,omitempty"`
	Err      string    `json:"err,omitempty"`
	StartT   time.Time `json:"-"`
	EndT     time.Time `json:"-"`
	Cancel   bool      `json:"cancel,omitempty"` // the harness cancelled this call's ctx
}

func rClassify(reply *hsms.DataMessage, err error, r *rCallResult) {
	switch {
	case err == nil && reply != nil:
		r.Outcome = "reply"
		r.ReplySB = binary.BigEndian.Uint32(func() []byte { b := reply.SystemBytes(); return b[:] }())
		r.ReplyFn = reply.Function()
		r.ReplyW = reply.WaitBit()
		r.ReplyTag = rParseTag(reply.AppendBodyTo(nil))
	case err == nil:
		r.Outcome = "nilnil"
	default:
		r.Err = err.Error()
		var re *hsms.RejectError
		switch {
		case errors.As(err, &re):
			r.Outcome = "reject"
			r.Reason = re.Reason
		case errors.Is(err, hsms.ErrT3Timeout):
			r.Outcome = "timeout"
		case errors.Is(err, hsms.ErrConnClosed):
			r.Outcome = "closed"
		case errors.Is(err, context.Canceled), errors.Is(err, context.DeadlineExceeded):
			r.Outcome = "ctx"
		case errors.Is(err, hsms.ErrNotOpen):
			r.Outcome = "notopen"
		case errors.Is(err, hsms.ErrNotSelectedState):
			r.Outcome = "notselected"
		default:
			r.Outcome = "writeerr"
		}
		if reply != nil {
			r.Outcome = "other"
		}
	}
}
