package main

import (
	"context"
	"encoding/binary"
	"io"
	"net"
	"sync"
	"time"
)

// minimalPeer is a byte-level HSMS-SS peer that answers Select.req / Linktest.req / Deselect.req and
// otherwise stays quiet. It owns the far end of every net.Pipe the harness's dialer hands to the library.
type minimalPeer struct {
	mu       sync.Mutex
	conns    []net.Conn
	dials    int
	dropAt   func(n int) time.Duration // delay after select before dropping generation n (0 = keep)
	refuse   func(n int) bool
	dialLag  func(n int) time.Duration // artificial connect latency for dial n
	lastDial time.Time
}

func (p *minimalPeer) dial(ctx context.Context, network, addr string) (net.Conn, error) {
	p.mu.Lock()
	n := p.dials
	p.dials++
	p.lastDial = time.Now()
	p.mu.Unlock()
	if p.dialLag != nil {
		if d := p.dialLag(n); d > 0 {
			time.Sleep(d)
		}
	}
	if p.refuse != nil && p.refuse(n) {
		return nil, io.ErrClosedPipe
	}
	a, b := net.Pipe()
	p.mu.Lock()
	p.conns = append(p.conns, b)
	p.mu.Unlock()
	go p.serve(b, n)
	return a, nil
}

func (p *minimalPeer) serve(c net.Conn, n int) {
	defer c.Close()
	hdr := make([]byte, 14)
	for {
		if _, err := io.ReadFull(c, hdr); err != nil {
			return
		}
		l := binary.BigEndian.Uint32(hdr[:4])
		if l < 10 || l > 1<<20 {
			return
		}
		body := make([]byte, l-10)
		if _, err := io.ReadFull(c, body); err != nil {
			return
		}
		stype := hdr[4+5]
		var rsp []byte
		switch stype {
		case 1, 3, 5: // select.req, deselect.req, linktest.req
			rsp = append([]byte{0, 0, 0, 10}, hdr[4:]...)
			rsp[4+5] = stype + 1
			rsp[4+2], rsp[4+3] = 0, 0
		case 9:
			return
		}
		if rsp != nil {
			if _, err := c.Write(rsp); err != nil {
				return
			}
			if stype == 1 && p.dropAt != nil {
				if d := p.dropAt(n); d > 0 {
					go func() { time.Sleep(d); c.Close() }()
				}
			}
		}
	}
}

func (p *minimalPeer) closeAll() {
	p.mu.Lock()
	defer p.mu.Unlock()
	for _, c := range p.conns {
		c.Close()
	}
}

// recordingPeer is a minimalPeer that also counts the data frames it receives.
type recordingPeer struct {
	minimalPeer
	fmu    sync.Mutex
	frames [][]byte
}

func (p *recordingPeer) dial(ctx context.Context, network, addr string) (net.Conn, error) {
	a, b := net.Pipe()
	go p.serveRec(b)
	return a, nil
}

func (p *recordingPeer) serveRec(c net.Conn) {
	defer c.Close()
	hdr := make([]byte, 14)
	for {
		if _, err := io.ReadFull(c, hdr); err != nil {
			return
		}
		l := binary.BigEndian.Uint32(hdr[:4])
		if l < 10 || l > 1<<24 {
			return
		}
		body := make([]byte, l-10)
		if _, err := io.ReadFull(c, body); err != nil {
			return
		}
		stype := hdr[4+5]
		if stype == 0 {
			p.fmu.Lock()
			p.frames = append(p.frames, append(append([]byte(nil), hdr...), body...))
			p.fmu.Unlock()
			continue
		}
		if stype == 1 || stype == 3 || stype == 5 {
			rsp := append([]byte{0, 0, 0, 10}, hdr[4:]...)
			rsp[4+5] = stype + 1
			rsp[4+2], rsp[4+3] = 0, 0
			if _, err := c.Write(rsp); err != nil {
				return
			}
		}
		if stype == 9 {
			return
		}
	}
}

func (p *recordingPeer) dataFrames() int {
	p.fmu.Lock()
	defer p.fmu.Unlock()
	return len(p.frames)
}
