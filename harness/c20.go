package main

import (
	"fmt"
	"os"
	"strings"
	"time"
)

func init() {
	register("C20", "histories of concurrent and sequential send calls (sync W, sync non-W, async) on a real hsmsss connection against the scripted "+
		"peer, ending in every outcome (reply, reject, T3, cancel, refused while deselected, write error / connection closed on a drop, "+
		"reconnect with failing dials), with counter snapshots at every quiescent point compared with independent peer-side counts and "+
		"with the Lean router model's counters; distinct = distinct (kind, peer behaviour, outcome) multiset + drop mode; non-trivial = "+
		"at least two different outcomes or a drop", runC20)
}

func runC20(c *Ctx) {
	only := os.Getenv("VERIF_C20_ONLY") // debugging aid: run one scenario family only (secs1 | writefail | cold)
	// the conservation clauses over the SECS-I transport
	if only == "" || only == "secs1" {
		c20SECS1(c, 6, 2, 3)
		c20SECS1Drop(c, 3, 1)
		if c.Thorough() {
			c20SECS1(c, 16, 6, 8)
			c20SECS1Drop(c, 8, 3)
			c20SECS1Drop(c, 1, 0)
		}
		c20SECS1Faults(c)
		c20SECS1AckDrop(c)
	}
	if only == "secs1" {
		return
	}
	// sends whose transport write genuinely fails on a live Selected link (write deadline against a wedged peer, broken
	// socket, reset under the write), reconnect, more traffic (c20_writefail.go)
	if only == "" || only == "writefail" {
		c20WriteFail(c)
	}
	if only == "writefail" {
		return
	}
	// cold open (OpenBackground with the peer unreachable: the reconnect loop is started by Open, not by the NotConnected
	// reaction), then the usual traffic / a drop and reconnect / a Close while still retrying
	for k := 0; k < c.Pick(3, 10); k++ {
		if routerStop(c) {
			return
		}
		var sp *rSpec
		switch k % 3 {
		case 0:
			sp = genSpecC06(c, 2+c.Rng.IntN(6), "clean", k)
		case 1:
			sp = dropSpec(c, 2+c.Rng.IntN(6), "await", k, k%2 == 1)
		default:
			sp = &rSpec{Name: fmt.Sprintf("closecold-%d", k), Seed: c.Rng.Uint64(), Handlers: 1, T3: time.Second, CloseCold: true}
		}
		sp.Name = "cold-" + sp.Name
		sp.ColdDials = 2 + c.Rng.IntN(4)
		evalHistoryC20(c, sp)
	}
	if only == "cold" {
		return
	}
	// sequential per-outcome deltas, with a deselect window
	for k := 0; k < c.Pick(4, 12); k++ {
		evalHistoryC20(c, seqSpecC20(c, k))
	}
	// the same in the equipment role: a T3 expiry additionally emits S9F9 (auto-S9F9), a second exit-path of the
	// reply wait whose gauge / counter bookkeeping must balance like the others (after seeded change C20c-2)
	for k := 0; k < c.Pick(3, 8); k++ {
		sp := seqSpecC20(c, 100+k)
		sp.Name = "equip-" + sp.Name
		sp.Equip = true
		evalHistoryC20(c, sp)
	}
	// concurrent storms (no drop)
	sizes := []int{1, 2, 4, 8, 16, 32, 64}
	for k := 0; k < c.Pick(2, 8); k++ {
		for _, n := range sizes {
			for _, mix := range []string{"clean", "collide", "timeout", "all", "session"} {
				if routerStop(c) {
					return
				}
				evalHistoryC20(c, genSpecC06(c, n, mix, k))
			}
		}
	}
	// drops at every point of a send + reconnect (with and without failing dials)
	for k := 0; k < c.Pick(4, 14); k++ {
		for _, n := range []int{2, 4, 8, 16, 32} {
			for _, mode := range []string{"await", "stall", "queued"} {
				if routerStop(c) {
					return
				}
				evalHistoryC20(c, dropSpec(c, n, mode, k, k%2 == 1))
			}
		}
	}
}

// seqSpecC20: one call at a time; wave 3 marks the calls made while the peer has the link deselected.
func seqSpecC20(c *Ctx, k int) *rSpec {
	r := c.Rng
	sp := &rSpec{Name: fmt.Sprintf("seq-%d", k), Seed: r.Uint64(), Handlers: 1, T3: 100 * time.Millisecond, Seq: true, Deselect: true}
	add := func(kind string, peer int, arg byte, wave int) {
		sp.Plans = append(sp.Plans, rSenderPlan{Kind: kind, Peer: peer, PeerS: pkNames[peer], Arg: arg, Wave: wave,
			Stream: byte(1 + r.IntN(126)), Fn: byte(1 + 2*r.IntN(100))})
	}
	first := [][3]int{{0, pkReply, 0}, {0, pkReject, 1}, {0, pkReject, 4}, {0, pkDrop, 0}, {0, pkCancel, 0}, {1, pkNone, 0}, {2, pkNone, 0},
		{0, pkDup, 0}, {0, pkPrimOdd, 0}, {0, pkF0, 0}, {0, pkUnsol, 0}, {1, pkEcho, 0}}
	r.Shuffle(len(first), func(a, b int) { first[a], first[b] = first[b], first[a] })
	kinds := []string{"s", "f", "a"}
	for _, f := range first {
		add(kinds[f[0]], f[1], byte(f[2]), 0)
	}
	for _, kd := range []string{"s", "f", "a", "s"} {
		add(kd, pkNone, 0, 3)
	}
	add("s", pkReply, 0, 0)
	add("a", pkNone, 0, 0)
	add("s", pkReject, 3, 0)
	return sp
}

// dropSpec: n first-wave senders, the peer drops generation 0 after a random number of primaries in the given mode,
// the connection reconnects (optionally after refused dials) and a second wave runs on the new generation.
func dropSpec(c *Ctx, n int, mode string, k int, failDials bool) *rSpec {
	r := c.Rng
	sp := &rSpec{Name: fmt.Sprintf("drop-%s-%d-%d", mode, n, k), Seed: r.Uint64(), Handlers: 1 + r.IntN(2), T3: 3 * time.Second,
		DropAfter: 1 + r.IntN(n), DropMode: mode, Reconnect: true}
	if failDials {
		sp.FailDials = 1 + r.IntN(3)
	}
	palette := []int{pkReply, pkReply, pkReplyHeld, pkReplyHeld, pkReject, pkDup}
	for i := 0; i < n; i++ {
		pl := rSenderPlan{Kind: "s", Stream: byte(1 + r.IntN(126)), Fn: byte(1 + 2*r.IntN(100)), Delay: r.IntN(300)}
		switch x := r.IntN(10); {
		case x == 0:
			pl.Kind, pl.Peer = "f", pkNone
		case x == 1:
			pl.Kind, pl.Peer = "a", pkNone
		default:
			pl.Peer = palette[r.IntN(len(palette))]
			if pl.Peer == pkReject {
				pl.Arg = rRejectReasons[r.IntN(len(rRejectReasons))]
			}
		}
		pl.PeerS = pkNames[pl.Peer]
		sp.Plans = append(sp.Plans, pl)
	}
	if mode == "queued" {
		for i := 0; i < 2+r.IntN(6); i++ {
			kind := "a"
			if r.IntN(3) == 0 {
				kind = "s"
			}
			sp.Plans = append(sp.Plans, rSenderPlan{Kind: kind, Peer: pkNone, PeerS: "none", Wave: 2, Stream: 7, Fn: byte(1 + 2*r.IntN(50))})
		}
	}
	// async sends racing the teardown itself (started when the peer drops the generation)
	for i := 0; i < r.IntN(7); i++ {
		sp.Plans = append(sp.Plans, rSenderPlan{Kind: "a", Peer: pkNone, PeerS: "none", Wave: 4, Stream: 8, Fn: byte(1 + 2*r.IntN(50)), Delay: r.IntN(1500)})
	}
	for i := 0; i < 1+r.IntN(4); i++ {
		kind := []string{"s", "s", "f", "a"}[r.IntN(4)]
		peer := pkReply
		if kind != "s" {
			peer = pkNone
		}
		sp.Plans = append(sp.Plans, rSenderPlan{Kind: kind, Peer: peer, PeerS: pkNames[peer], Wave: 1, Stream: 9, Fn: byte(1 + 2*r.IntN(50))})
	}
	return sp
}

func evalHistoryC20(c *Ctx, sp *rSpec) {
	h, notes, fail := runScenario(sp)
	if fail != "" {
		c.Violate("correspondence", "scenario-did-not-start", fail, map[string]any{"spec": sp})
		return
	}
	replay := map[string]any{"spec": sp, "calls": h.Calls, "peer_out": h.Out, "peer_in": h.In, "snaps": h.Snaps, "failed_dials": h.FailedDials,
		"retry_gauge_min_max": []int64{h.RetryMin, h.RetryMax}}
	routerNotes(c, notes, replay)
	sig := oracleC20(c, sp, h, replay)
	c.Count(sig, strings.Contains(sig, "|drop") || strings.Contains(sig, "|cold") || strings.Count(sig, "#") >= 2)
	c.Stat("scenario:" + strings.SplitN(sp.Name, "-", 2)[0])
	if len(c.Res.Samples) < 8 && c.Res.Evaluations%11 == 3 {
		var sn []string
		for _, s := range h.Snaps {
			sn = append(sn, s.Label+"="+s.M.String())
		}
		c.Sample(map[string]any{"scenario": sp.Name, "calls": len(sp.Plans), "snapshots(sent,recv,inflight,err,drop,asyncErr,retry)": sn})
	}
	modelCheck(c, "C20", sp, h, replay)
}

// routerNotes turns runner notes into violations (shared by C20 and C09).
func routerNotes(c *Ctx, notes []string, replay map[string]any) {
	for _, n := range notes {
		switch {
		case strings.HasPrefix(n, "HANG"):
			c.Violate("property", "send-never-returned", n, replay)
		case strings.HasPrefix(n, "REGISTRY-NOT-EMPTY"):
			c.Violate("property", "registry-entry-leaked", n, replay)
		case strings.HasPrefix(n, "REGISTRY-TRANSIENT"):
			c.Stat("registry-transient-entry")
		case strings.HasPrefix(n, "GAUGE-NEGATIVE"):
			c.Violate("property", "gauge-negative", n, replay)
		case strings.HasPrefix(n, "RETRY-GAUGE-NOT-POSITIVE"):
			c.Violate("property", "retry-gauge-not-positive-while-reconnecting", n, replay)
		case strings.HasPrefix(n, "RETRY-GAUGE-ABOVE-LIVE-LOOPS"):
			c.Violate("property", "retry-gauge-above-live-loops", n, replay)
		default:
			c.Violate("correspondence", "scenario-incomplete", n, replay)
		}
	}
}

func oracleC20(c *Ctx, sp *rSpec, h *rHistory, replay map[string]any) string {
	outs := map[string]int{}
	var nTimeout, nWriteErr, nRefused, nAsyncAccepted int
	onWire := map[int]bool{}
	dataIn := 0
	for _, in := range h.In {
		for _, f := range in {
			if f.IsData() {
				dataIn++
				if f.Tag >= 0 && int(f.Tag) < len(sp.Plans) {
					onWire[int(f.Tag)] = true
				}
			}
		}
	}
	for i, cl := range h.Calls {
		outs[sp.Plans[i].Kind+":"+cl.Outcome]++
		c.Stat("outcome:" + cl.Outcome)
		switch cl.Outcome {
		case "timeout":
			nTimeout++
		case "writeerr":
			if cl.Kind != "a" {
				nWriteErr++
			}
		case "notselected":
			nRefused++
		case "sent":
			if cl.Kind == "a" {
				nAsyncAccepted++
			}
		}
	}
	stranded := 0
	for i, cl := range h.Calls {
		if cl.Kind == "a" && cl.Outcome == "sent" && !onWire[i] {
			stranded++
		}
	}
	// data frames the peer wrote while it had the link Selected: in the peer's own send order, a Deselect.req opens a
	// not-selected window and the next Select.req closes it
	dataOut := 0
	for _, out := range h.Out {
		selected := true
		for _, f := range out {
			switch {
			case f.PType == 0 && f.SType == 3 && f.WriteOK:
				selected = false
			case f.PType == 0 && f.SType == 1 && f.WriteOK:
				selected = true
			case f.IsData() && f.WriteOK && selected:
				dataOut++
				if sp.ValidateSession && f.Session != 0xFFFF {
					c.Stat("foreign-session-data-frame")
				}
			case f.IsData() && f.WriteOK:
				c.Stat("data-frame-while-deselected")
			}
		}
	}
	for k, s := range h.Snaps {
		if s.M.Inflight != 0 {
			c.Violate("property", "inflight-not-zero-at-quiescence", fmt.Sprintf("snapshot %q: in-flight gauge = %d with no send call running", s.Label, s.M.Inflight), replay)
		}
		if strings.HasPrefix(s.Label, "retrying") {
			// taken while exactly one reconnect loop is provably running (it has made a dial attempt and every dial is refused)
			if s.M.Retry != 1 {
				c.Violate("property", "retry-gauge-differs-from-live-loops", fmt.Sprintf("snapshot %q: reconnecting gauge = %d while one reconnect loop is running (want 1: positive while a reconnect loop runs, never above the number of live loops)", s.Label, s.M.Retry), replay)
			}
		} else if s.M.Retry != 0 {
			c.Violate("property", "retry-gauge-not-zero-at-quiescence", fmt.Sprintf("snapshot %q (quiescent Selected / closed): reconnecting gauge = %d", s.Label, s.M.Retry), replay)
		}
		if k > 0 {
			p := h.Snaps[k-1].M
			if s.M.Sent < p.Sent || s.M.Recv < p.Recv || s.M.Err < p.Err || s.M.Drop < p.Drop || s.M.AsyncEr < p.AsyncEr {
				c.Violate("property", "counter-decreased", fmt.Sprintf("snapshot %q: a cumulative counter went down (%s -> %s)", s.Label, p, s.M), replay)
			}
		}
	}
	if h.RetryMin < 0 || h.RetryMax > 1 {
		c.Violate("property", "retry-gauge-out-of-range", fmt.Sprintf("over the whole run the reconnecting gauge was observed between %d and %d (never negative, never above the one live reconnect loop)", h.RetryMin, h.RetryMax), replay)
	}
	var q *rSnap
	for k := range h.Snaps {
		if h.Snaps[k].Label == "quiescent" {
			q = &h.Snaps[k]
		}
	}
	if q != nil {
		m := q.M
		if int(m.Sent) != dataIn {
			c.Violate("property", "sent-counter-differs-from-wire", fmt.Sprintf("DataMsgSendCount = %d but the peer received %d data frames", m.Sent, dataIn), replay)
		}
		if int(m.Recv) != dataOut {
			c.Violate("property", "recv-counter-differs-from-wire", fmt.Sprintf("DataMsgRecvCount = %d but the peer sent %d well-formed data frames while Selected", m.Recv, dataOut), replay)
		}
		if int(m.Err) != nTimeout+nWriteErr {
			c.Violate("property", "err-counter-differs-from-outcomes", fmt.Sprintf("DataMsgErrCount = %d but %d calls timed out (T3) and %d failed on the write", m.Err, nTimeout, nWriteErr), replay)
		}
		if int(m.Drop) < nRefused || int(m.Drop) > nRefused+stranded {
			c.Violate("property", "drop-counter-differs-from-outcomes", fmt.Sprintf("DataMsgDropNotSelectedCount = %d but %d calls were refused (and %d queued async frames never reached the wire)", m.Drop, nRefused, stranded), replay)
		}
		if int(m.AsyncEr) > stranded {
			c.Violate("property", "async-err-counter-too-large", fmt.Sprintf("AsyncSendErrCount = %d but only %d accepted async frames never reached the wire", m.AsyncEr, stranded), replay)
		}
	}
	// per-call deltas (sequential mode): snapshot i+1 vs i
	if sp.Seq {
		var prev rMetrics
		for _, s := range h.Snaps {
			if s.Label == "selected" {
				prev = s.M
			}
		}
		for i, cl := range h.Calls {
			var cur *rSnap
			for k := range h.Snaps {
				if h.Snaps[k].Label == fmt.Sprintf("after-call-%d", i) {
					cur = &h.Snaps[k]
				}
			}
			if cur == nil {
				continue
			}
			var wantSent, wantErr, wantDrop uint64
			switch cl.Outcome {
			case "reply", "reject", "ctx", "nilnil", "sent":
				wantSent = 1
			case "timeout":
				wantSent, wantErr = 1, 1
				if sp.Equip {
					wantSent = 2 // the auto-S9F9 notice is one more data frame on the wire (checked against the peer's count below)
				}
			case "notselected":
				wantDrop = 1
			case "writeerr":
				wantErr = 1
			}
			dS, dE, dD, dA := cur.M.Sent-prev.Sent, cur.M.Err-prev.Err, cur.M.Drop-prev.Drop, cur.M.AsyncEr-prev.AsyncEr
			if dS != wantSent || dE != wantErr || dD != wantDrop || dA != 0 {
				what := "outcome-counter-delta"
				if cl.Outcome == "reject" {
					what = "peer-reject-changed-a-counter"
				}
				c.Violate("property", what, fmt.Sprintf("call %d (%s) ended with %s: counters moved by sent+%d err+%d drop+%d asyncErr+%d, documented sent+%d err+%d drop+%d",
					i, cl.Kind, cl.Outcome, dS, dE, dD, dA, wantSent, wantErr, wantDrop), replay)
			}
			prev = cur.M
		}
	}
	var parts []string
	for k, v := range outs {
		parts = append(parts, fmt.Sprintf("#%s=%d", k, v))
	}
	sortStrings(parts)
	sig := strings.Join(parts, ",")
	if sp.DropAfter > 0 {
		sig += fmt.Sprintf("|drop-%s-fail%d", sp.DropMode, sp.FailDials)
	}
	if sp.ColdDials > 0 {
		sig += fmt.Sprintf("|cold-%d-%v", len(h.FailedDials), sp.CloseCold)
	}
	return sig
}
