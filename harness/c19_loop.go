package main

// C19 — the REAL runLinktest goroutine over scripted observation histories (hook
// hsmsss.VerifRunLinktest: a runtime that serves, per wake-up, the line activity, the in-flight gauge at
// its three read points, the probe result and the receive stamps at the failure snapshot and at the
// pre-disconnect re-check). The loop model (`lt.run`) is fed the same history; compared: whether and at
// which wake-up the loop calls TCPDown and the five linktest counters. This reaches the re-check-credited
// path (threshold reached, but a frame / an in-flight reply appears between the failure snapshot and the
// re-check), which wall-clock timing cannot hit on demand.

import (
	"fmt"
	"strings"
	"sync"

	"github.com/arloliu/go-secs/v2/hsmsss"
)

type c19LoopCase struct {
	suppress bool
	k        int
	obs      []hsmsss.VerifLinktestObs
	tag      string
}

func c19LoopModelLine(lc c19LoopCase) string {
	var b strings.Builder
	fmt.Fprintf(&b, "lt.run %d %d 0 0", c19bit(lc.suppress), lc.k)
	for _, o := range lc.obs {
		recv := o.RecvStamp
		if o.LifeAfterProbe {
			recv = 1 // after sentAt (= 0 on the model's clock)
		}
		final := recv
		if o.FinalLife {
			final = 1
		}
		fmt.Fprintf(&b, " %d %d %d 0 %d %d %d %d", c19bit(o.Active), o.InflightPre, c19bit(o.ProbeOK), recv, o.Inflight, o.FinalInflight, final)
	}
	return b.String()
}

func c19LoopText(lc c19LoopCase) string {
	var b strings.Builder
	fmt.Fprintf(&b, "suppress=%v k=%d:", lc.suppress, lc.k)
	for _, o := range lc.obs {
		fmt.Fprintf(&b, " [a=%d pre=%d ok=%d recv=%d life=%d in=%d fin=%d flife=%d]", c19bit(o.Active), o.InflightPre, c19bit(o.ProbeOK),
			o.RecvStamp, c19bit(o.LifeAfterProbe), o.Inflight, o.FinalInflight, c19bit(o.FinalLife))
	}
	return b.String()
}

func c19LoopCases(c *Ctx) []c19LoopCase {
	silent := func(r int64) hsmsss.VerifLinktestObs { return hsmsss.VerifLinktestObs{RecvStamp: r} }
	var cs []c19LoopCase
	// the re-check-credited path, threshold 1 .. 3
	for k := 1; k <= 3; k++ {
		var pre []hsmsss.VerifLinktestObs
		for i := 1; i < k; i++ {
			pre = append(pre, silent(-9))
		}
		frame := silent(-9)
		frame.FinalLife = true
		reply := silent(-9)
		reply.FinalInflight = 1
		cs = append(cs,
			c19LoopCase{true, k, append(append([]hsmsss.VerifLinktestObs{}, pre...), frame, silent(-9)), "recheck-frame"},
			c19LoopCase{true, k, append(append([]hsmsss.VerifLinktestObs{}, pre...), reply, silent(-9)), "recheck-inflight"},
			c19LoopCase{false, k, append(append([]hsmsss.VerifLinktestObs{}, pre...), frame, silent(-9)), "recheck-off"},
		)
	}
	// a wake-up suppressed by rule 1 (a frame moved within the last interval — possibly only one of OUR OWN sends)
	// is not life shown by the peer: the run of consecutive silent timeouts continues across it, so a dead peer is
	// dropped at exactly the threshold-th timeout (after seeded change C19c-2: the run was reset there)
	for k := 2; k <= 3; k++ {
		for pos := 1; pos < k; pos++ {
			for _, reps := range []int{1, 3} {
				var obs []hsmsss.VerifLinktestObs
				for i := 0; i < pos; i++ {
					obs = append(obs, silent(-9))
				}
				for i := 0; i < reps; i++ {
					a := silent(-9)
					a.Active = true
					obs = append(obs, a)
				}
				for i := pos; i < k+1; i++ {
					obs = append(obs, silent(-9))
				}
				cs = append(cs, c19LoopCase{true, k, obs, fmt.Sprintf("active-between-failures:%d", pos+reps+(k-pos))})
			}
		}
	}
	r := c.Rng
	for i := 0; i < c.Pick(120, 1500); i++ {
		n := 1 + r.IntN(10)
		lc := c19LoopCase{suppress: r.IntN(4) != 0, k: 1 + r.IntN(3), tag: "random"}
		stamp := int64(-1000)
		for j := 0; j < n; j++ {
			if r.IntN(3) == 0 {
				stamp += int64(r.IntN(3)) // a frame arrived since the last wake-up (or not)
			}
			o := hsmsss.VerifLinktestObs{RecvStamp: stamp}
			switch r.IntN(10) {
			case 0:
				o.Active = true
			case 1:
				o.InflightPre = 1
			}
			o.ProbeOK = r.IntN(4) == 0
			o.LifeAfterProbe = r.IntN(6) == 0
			if r.IntN(6) == 0 {
				o.Inflight = 1
			}
			if r.IntN(5) == 0 {
				o.FinalInflight = 1
			}
			o.FinalLife = r.IntN(5) == 0
			lc.obs = append(lc.obs, o)
		}
		cs = append(cs, lc)
	}
	return cs
}

func c19Loop(c *Ctx) {
	cases := c19LoopCases(c)
	res := make([]hsmsss.VerifLinktestResult, len(cases))
	var wg sync.WaitGroup
	sem := make(chan struct{}, 8)
	run := func(i int) {
		obs := append([]hsmsss.VerifLinktestObs(nil), cases[i].obs...)
		res[i] = hsmsss.VerifRunLinktest(cases[i].suppress, cases[i].k, obs)
	}
	for i := range cases {
		wg.Add(1)
		sem <- struct{}{}
		go func(i int) {
			defer wg.Done()
			defer func() { <-sem }()
			run(i)
		}(i)
	}
	wg.Wait()
	var lines []string
	for _, lc := range cases {
		lines = append(lines, c19LoopModelLine(lc))
	}
	var ans []string
	if c.Lean != nil {
		ans = c.Lean.AskAll(lines)
	}
	for i, lc := range cases {
		text := c19LoopText(lc)
		c.Count("loop|"+text, true)
		c.Stat("loop:" + lc.tag)
		judge := func(r hsmsss.VerifLinktestResult) [][3]string {
			var bad [][3]string
			add := func(kind, what, detail string) { bad = append(bad, [3]string{kind, what, detail}) }
			if r.TimedOut {
				add("correspondence", "loop-run-stuck", "runLinktest did not finish")
				return bad
			}
			// property oracle for the re-check (from the option's documentation): with suppression on, a
			// disconnect decision re-checks for signs of life immediately before dropping the link
			if strings.HasPrefix(lc.tag, "recheck") {
				if lc.suppress && (r.Down && r.Steps == lc.k) {
					add("property", "recheck-ignored-life", fmt.Sprintf("threshold %d reached at wake-up %d, a sign of life appeared before the re-check, yet the link was dropped there", lc.k, lc.k))
				}
				// the credit resets the run: the single silent timeout that follows counts as the first of a new run
				if lc.suppress && r.Down != (lc.k == 1) {
					add("property", "recheck-credit-did-not-reset-run", fmt.Sprintf("after the re-check credit one more silent timeout followed (threshold %d): down=%v after %d wake-ups", lc.k, r.Down, r.Steps))
				}
				if lc.suppress && r.Credited != 1 {
					add("property", "recheck-credit-not-counted", fmt.Sprintf("LinktestCreditedCount=%d, want 1", r.Credited))
				}
				if !lc.suppress && !(r.Down && r.Steps == lc.k) {
					add("property", "off-timeout-not-counted", fmt.Sprintf("suppression off: want TCPDown at wake-up %d, got down=%v after %d", lc.k, r.Down, r.Steps))
				}
			}
			if strings.HasPrefix(lc.tag, "active-between-failures:") {
				var want int
				fmt.Sscanf(lc.tag, "active-between-failures:%d", &want)
				if !r.Down || r.Steps != want {
					add("property", "dead-link-not-dropped-at-threshold", fmt.Sprintf("silent peer, threshold %d, suppressed (rule 1) wake-ups between the timeouts: want TCPDown at wake-up %d (the %d-th consecutive timeout), got down=%v after %d",
						lc.k, want, lc.k, r.Down, r.Steps))
				}
			}
			if ans != nil {
				f := strings.Fields(ans[i])
				if len(f) < 3 {
					add("correspondence", "loop-model-failed", ans[i])
					return bad
				}
				acts := f[3:]
				var probes, ok, to, cr, sup uint64
				for _, a := range acts {
					switch a {
					case "suppressed":
						sup++
					case "ok":
						probes++
						ok++
					case "counted", "disconnect":
						probes++
						to++
					case "credited", "recheck-credited":
						probes++
						to++
						cr++
					}
				}
				mDown := f[2] != "-"
				if mDown != r.Down || (r.Down && fmt.Sprint(r.Steps-1) != f[2]) {
					add("correspondence", "loop-disconnect-differs", fmt.Sprintf("runLinktest: down=%v after %d wake-ups; model: disconnect index %s, acts %v", r.Down, r.Steps, f[2], acts))
				} else if r.Send != probes || r.Recv != ok || r.Err != to || r.Credited != cr || r.Suppress != sup {
					add("correspondence", "loop-counters-differ", fmt.Sprintf("runLinktest: send %d recv %d err %d credited %d suppressed %d; model acts %v", r.Send, r.Recv, r.Err, r.Credited, r.Suppress, acts))
				}
			}
			return bad
		}
		bad := judge(res[i])
		for attempt := 0; attempt < 2 && len(bad) > 0; attempt++ { // a scheduling hiccup may blur one "active" wake-up
			c.Stat("loop:retry")
			run(i)
			bad = judge(res[i])
		}
		for _, b := range bad {
			c.Violate(b[0], b[1], text+": "+b[2], map[string]any{"history": text, "suppress": lc.suppress, "threshold": lc.k,
				"down": res[i].Down, "wakeups": res[i].Steps})
		}
		if ans != nil {
			c.mu.Lock()
			c.Res.Traces++
			c.mu.Unlock()
		}
		if res[i].Credited > 0 && strings.HasPrefix(lc.tag, "recheck") {
			c.Sample(map[string]any{"loop_history": text, "down": res[i].Down, "wakeups": res[i].Steps, "credited": res[i].Credited})
		}
	}
}
