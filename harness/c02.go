package main

import (
	"bytes"
	"encoding/hex"
	"fmt"
	"runtime"
	"runtime/debug"
	"strings"

	"github.com/arloliu/go-secs/v2/secs2"
)

func init() {
	register("C02", "byte strings: every string of length <= 2 (exhaustive), length-3/4 strings over a boundary alphabet, "+
		"every single-byte and sampled double-byte mutation, every truncation and length-field rewrite (canonical, non-canonical 2-/3-byte, "+
		"0xFFFFFF, off-by-one) of a corpus of valid encodings, nesting 63/64/65, random bytes; distinct = distinct input bytes; "+
		"non-trivial = input longer than one byte", runC02)
}

func c02Corpus(c *Ctx) [][]byte {
	r := c.Rng
	var out [][]byte
	for _, k := range kinds[1:] {
		for _, n := range []int{0, 1, 2, 3, 5} {
			out = append(out, Build(GenLeaf(r, k, n), 0).ToBytes())
		}
	}
	for i := 0; i < c.Pick(60, 600); i++ {
		budget := 2 + r.IntN(20)
		out = append(out, Build(GenTree(r, 1+r.IntN(4), &budget), r.IntN(6)).ToBytes())
	}
	for _, d := range []int{1, 2, 62, 63, 64} {
		out = append(out, Build(Nest(GenLeaf(r, "U1", 1), d), 0).ToBytes())
	}
	return out
}

// rewriteHeader re-encodes the first item header of b with k length bytes holding n.
func rewriteHeader(b []byte, k int, n int) []byte {
	if len(b) < 2 {
		return nil
	}
	oldK := int(b[0] & 3)
	if oldK == 0 || len(b) < 1+oldK {
		return nil
	}
	out := []byte{b[0]&^3 | byte(k)}
	for i := k - 1; i >= 0; i-- {
		out = append(out, byte(n>>(8*i)))
	}
	return append(out, b[1+oldK:]...)
}

func headerLenField(b []byte) (k, n int, ok bool) {
	if len(b) < 2 {
		return 0, 0, false
	}
	k = int(b[0] & 3)
	if k == 0 || len(b) < 1+k {
		return 0, 0, false
	}
	for i := 0; i < k; i++ {
		n = n<<8 | int(b[1+i])
	}
	return k, n, true
}

func c02Inputs(c *Ctx) (inputs [][]byte, tags []string) {
	r := c.Rng
	add := func(b []byte, tag string) {
		if b == nil {
			return
		}
		inputs = append(inputs, b)
		tags = append(tags, tag)
	}
	// exhaustive length 0..2
	add([]byte{}, "exhaustive<=2")
	for a := 0; a < 256; a++ {
		add([]byte{byte(a)}, "exhaustive<=2")
		for b := 0; b < 256; b++ {
			add([]byte{byte(a), byte(b)}, "exhaustive<=2")
		}
	}
	// length 3 and 4 over a boundary alphabet (all format bytes x boundary lengths x boundary payload)
	bnd := []byte{0, 1, 2, 3, 4, 7, 8, 9, 0x7f, 0x80, 0xff}
	for a := 0; a < 256; a++ {
		for _, b := range bnd {
			for _, d := range bnd {
				add([]byte{byte(a), b, d}, "len3-boundary")
				if c.Thorough() || a%4 != 0 {
					for _, e := range []byte{0, 1, 0xff} {
						add([]byte{byte(a), b, d, e}, "len4-boundary")
					}
				}
			}
		}
	}
	corpus := c02Corpus(c)
	for _, v := range corpus {
		add(v, "valid")
		// every truncation
		for i := 0; i < len(v); i++ {
			if len(v) < 200 || i%7 == 0 {
				add(append([]byte(nil), v[:i]...), "truncation")
			}
		}
		// trailing garbage
		add(append(append([]byte(nil), v...), 0xff, 0x00, 0x41), "trailing")
		// every single-byte mutation (bounded per item)
		for i := 0; i < len(v) && i < 64; i++ {
			for _, d := range []byte{1, 0x80, 0xff, 4} {
				m := append([]byte(nil), v...)
				m[i] ^= d
				add(m, "mutation1")
			}
		}
		// sampled double-byte mutations
		for j := 0; j < 6 && len(v) >= 2; j++ {
			m := append([]byte(nil), v...)
			m[r.IntN(len(m))] = byte(r.IntN(256))
			m[r.IntN(len(m))] ^= byte(1 << r.IntN(8))
			add(m, "mutation2")
		}
		// length-field rewrites of the outermost header
		if k, n, ok := headerLenField(v); ok {
			for kk := 1; kk <= 3; kk++ {
				if n < 1<<(8*kk) {
					add(rewriteHeader(v, kk, n), "noncanonical-len")
				}
			}
			for _, nn := range []int{n - 1, n + 1, n * 2, 0, 255, 256, 65535, 65536, 1<<24 - 1} {
				if nn < 0 {
					continue
				}
				for kk := 1; kk <= 3; kk++ {
					if nn < 1<<(8*kk) && (kk == k || r.IntN(3) == 0) {
						add(rewriteHeader(v, kk, nn), "len-rewrite")
					}
				}
			}
			add(rewriteHeader(v, 0, 0), "zero-lenbytes")
		}
		// inner header rewrite: pick a random position that looks like a header
		if len(v) > 4 {
			m := append([]byte(nil), v...)
			p := 2 + r.IntN(len(v)-3)
			m[p] = m[p]&^3 | byte(1+r.IntN(3))
			add(m, "inner-header")
		}
	}
	// list headers claiming huge child counts with little input
	for _, n := range []int{1, 2, 3, 127, 128, 255, 65535, 1 << 20, 1<<24 - 1} {
		for _, tail := range []int{0, 1, 2, 3, 4, 9} {
			b := rewriteHeader([]byte{0x01, 0x00}, 3, n)
			for i := 0; i < tail; i++ {
				b = append(b, 0xa5, 0x01, byte(i))[:len(b)+1+2*0]
			}
			add(b, "huge-count")
		}
	}
	// numeric headers claiming huge payloads
	for _, fb := range []byte{0x21, 0x25, 0x41, 0x49, 0x61, 0x65, 0x69, 0x71, 0x81, 0x91, 0xa1, 0xa5, 0xa9, 0xb1} {
		for _, n := range []int{1<<24 - 1, 1 << 23, 65536, 300} {
			add(rewriteHeader([]byte{fb, 0x00, 0x01, 0x02}, 3, n), "huge-payload")
		}
	}
	// wide runs of empty / shallow lists around branches at the depth limit (the limit is per path), plus the same
	// with one more level on the deep branch (must be rejected) — after seeded changes C01c-2 / C02c-1
	for _, it := range SiblingDepthCases() {
		add(Build(it, 0).ToBytes(), "sibling-depth")
	}
	for _, k := range []int{0, 1, 5} {
		it := &LItem{Kind: "L"}
		for i := 0; i < k; i++ {
			it.Kids = append(it.Kids, &LItem{Kind: "L"})
		}
		it.Kids = append(it.Kids, Nest(&LItem{Kind: "L"}, 63)) // the innermost EMPTY list is the 65th level
		add(Build(it, 0).ToBytes(), "sibling-depth")
		it2 := &LItem{Kind: "L", Kids: []*LItem{Nest(&LItem{Kind: "L", Kids: []*LItem{{Kind: "U", W: 1, Uints: []uint64{1}}, {Kind: "L"}}}, 63)}}
		add(Build(it2, 0).ToBytes(), "sibling-depth") // 65th level reached by a later sibling that is an empty list
	}
	// many same-kind leaves in one decode (the decoder hands out leaf structs from chunked slabs: every chunk boundary
	// and well beyond the largest chunk — after seeded change C02e-2, a slab cursor that wrapped at 256)
	for _, n := range []int{85, 86, 213, 214, 341, 342, 343, 400, 600, 1000} {
		for _, k := range []string{"I2", "U4", "F8", "A", "J", "W", "B", "O", "U1", "I8", "F4"} {
			it := &LItem{Kind: "L"}
			for i := 0; i < n; i++ {
				leaf := GenLeaf(r, k, 1)
				it.Kids = append(it.Kids, leaf)
			}
			add(Build(it.Normalize(), 0).ToBytes(), "many-leaves")
		}
	}
	// nesting depth 63/64/65/66 of empty lists and of a leaf
	for _, d := range []int{62, 63, 64, 65, 66, 70} {
		var b []byte
		for i := 0; i < d; i++ {
			b = append(b, 0x01, 0x01)
		}
		add(append(append([]byte(nil), b...), 0xa5, 0x01, 0x07), "nesting")
		add(append(append([]byte(nil), b[:len(b)-1]...), 0x00), "nesting")
	}
	// random bytes
	for i := 0; i < c.Pick(3000, 60000); i++ {
		n := 1 + r.IntN(24)
		b := make([]byte, n)
		for j := range b {
			switch r.IntN(4) {
			case 0:
				b[j] = []byte{0x01, 0x21, 0x25, 0x41, 0x45, 0x49, 0x61, 0x65, 0x69, 0x71, 0x81, 0x91, 0xa1, 0xa5, 0xa9, 0xb1}[r.IntN(16)]
			case 1:
				b[j] = byte(r.IntN(6))
			default:
				b[j] = byte(r.IntN(256))
			}
		}
		add(b, "random")
	}
	return
}

func runC02(c *Ctx) {
	inputs, tags := c02Inputs(c)
	var ans []string
	if c.Lean != nil {
		lines := make([]string, len(inputs))
		for i, b := range inputs {
			lines[i] = "secs2.dec " + hexs(b)
		}
		ans = c.Lean.AskAll(lines)
	}
	old := debug.SetGCPercent(-1)
	defer debug.SetGCPercent(old)
	var ms0, ms1 runtime.MemStats
	accepted, rejected := 0, 0
	for i, in := range inputs {
		c.Count(string(in), len(in) > 1)
		c.Stat("tag:" + tags[i])
		replay := map[string]any{"bytes": hexs(in), "tag": tags[i]}
		orig := append([]byte(nil), in...)
		var item secs2.Item
		var err error
		measure := len(in) > 0 && (i%5 == 0 || tags[i] == "huge-count" || tags[i] == "huge-payload" || tags[i] == "len-rewrite" || tags[i] == "nesting")
		if measure {
			runtime.ReadMemStats(&ms0)
		}
		if p := safely(func() { item, err = secs2.Decode(in) }); p != nil {
			c.Violate("property", "decode-panic", fmt.Sprintf("Decode panicked: %v", p), replay)
			continue
		}
		if measure {
			runtime.ReadMemStats(&ms1)
			alloc := ms1.TotalAlloc - ms0.TotalAlloc
			// model bound 521*len for input-claimed sizes, plus fixed per-item struct overhead
			// (<= ~96 B per 2-byte item and one 128-struct slab chunk per type)
			bound := uint64(521+64)*uint64(len(in)) + 160*1024
			c.Stat("alloc-measured")
			if alloc > bound {
				c.Violate("property", "alloc-unbounded", fmt.Sprintf("Decode of %d input bytes allocated %d bytes (bound %d)", len(in), alloc, bound), replay)
			}
			if i%1000 == 0 {
				runtime.GC()
			}
		}
		if !bytes.Equal(orig, in) {
			c.Violate("property", "decode-mutates-input", "Decode changed its input slice", replay)
		}
		// ownership-transferring entry point agrees
		var item2 secs2.Item
		var err2 error
		own := append([]byte(nil), in...)
		if p := safely(func() { item2, err2 = secs2.DecodeOwned(own) }); p != nil {
			c.Violate("property", "decodeowned-panic", fmt.Sprintf("DecodeOwned panicked: %v", p), replay)
			continue
		}
		if (err == nil) != (err2 == nil) {
			c.Violate("property", "decode-vs-decodeowned", fmt.Sprintf("Decode err=%v, DecodeOwned err=%v", err, err2), replay)
			continue
		}
		var got string
		if err != nil {
			rejected++
			got = "err"
			c.Stat("reject:" + errClass(err))
		} else {
			accepted++
			var re []byte
			var d1, d2 string
			if p := safely(func() { re = item.ToBytes(); d1 = Describe(item); d2 = Describe(item2) }); p != nil {
				c.Violate("property", "accessor-panic", fmt.Sprintf("accessor on decoded item panicked: %v", p), replay)
				continue
			}
			if item.Error() != nil {
				c.Violate("property", "decoded-item-error", "decoded item carries a deferred error", replay)
			}
			if len(re) > len(in) || !bytes.Equal(re, in[:len(re)]) {
				c.Violate("property", "reencode-not-prefix", fmt.Sprintf("re-encoding %s is not the consumed prefix", clip(hexs(re), 80)), replay)
			}
			if item.EncodedLen() != len(re) {
				c.Violate("property", "encodedlen-mismatch", "EncodedLen of decoded item differs from its encoding", replay)
			}
			if d1 != d2 || !bytes.Equal(item2.ToBytes(), re) {
				c.Violate("property", "decode-vs-decodeowned", "Decode and DecodeOwned return different items", replay)
			}
			if len(in) > 0 && !secs2.Equal(item, item2) {
				c.Violate("property", "decode-vs-decodeowned", "Decode and DecodeOwned results are not Equal", replay)
			}
			if strings.Contains(d1, "!") {
				c.Violate("property", "decoded-accessor-error", "accessor failed on decoded item: "+clip(d1, 200), replay)
			}
			// decoded value re-decodes to an Equal item (values faithful)
			if again, e := secs2.Decode(re); e != nil || !secs2.Equal(again, item) {
				c.Violate("property", "redecode-differs", "decoding the re-encoding does not give an Equal item", replay)
			}
			got = fmt.Sprintf("ok %d %s", len(re), d1)
		}
		if ans != nil {
			a := ans[i]
			if strings.HasPrefix(a, "err ") {
				a = "err"
			}
			if a != got {
				// The model is proved equal to the independent E5 grammar (accepts_iff_grammar), and the
				// property fixes accept/reject, consumed length and values uniquely, so a difference
				// here is the implementation departing from the grammar on a concrete input.
				kind := "property"
				what := "decode-differs-from-grammar"
				if strings.HasPrefix(a, "err") != strings.HasPrefix(got, "err") {
					what = "accepts-differs-from-grammar"
				}
				c.Violate(kind, what, fmt.Sprintf("implementation: %s ; model (= E5 grammar, theorem accepts_iff_grammar): %s", clip(got, 160), clip(ans[i], 160)), replay)
			}
		}
		if i%4001 == 0 {
			c.Sample(map[string]any{"tag": tags[i], "bytes": clip(hex.EncodeToString(in), 64), "result": clip(got, 80)})
		}
	}
	c.StatN("accepted", accepted)
	c.StatN("rejected", rejected)
	c.Res.Traces = len(inputs)
}

func errClass(err error) string {
	s := err.Error()
	switch {
	case strings.Contains(s, "need format byte"):
		return "eofFormat"
	case strings.Contains(s, "length-byte count is zero"):
		return "zeroLen"
	case strings.Contains(s, "length bytes"):
		return "eofLen"
	case strings.Contains(s, "nesting depth"):
		return "depth"
	case strings.Contains(s, "child count"):
		return "count"
	case strings.Contains(s, "too short"):
		return "lstrShort"
	case strings.Contains(s, "not a multiple"):
		return "width"
	case strings.Contains(s, "unknown format code"):
		return "unknownFc"
	case strings.Contains(s, "unexpected end of data"):
		return "eofPayload"
	}
	return "other"
}
